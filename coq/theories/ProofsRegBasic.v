(* ProofsRegBasic.v — first facts about the regulator model (refusals, pending phase, break). *)
From Coq Require Import Lia.
From PF Require Import Base ModelReg.

Lemma sync_unknown_refused st id out :
  find_table id (r_tables (rs_reg st)) = None -> sync_state st id out = (st, 0, [], RErrNotFoundTable).
Proof. intros H. unfold sync_state. rewrite H. reflexivity. Qed.

Lemma add_after_deadline_refused st players :
  r_status (rs_reg st) = 2 -> add_players st players = (st, RErrAfterDeadline).
Proof. intros H. unfold add_players. rewrite H. reflexivity. Qed.

(* while the competition is pending, registrations only queue up: no callback is made *)
Lemma add_pending_no_callbacks st players :
  r_status (rs_reg st) = 0 ->
  let '(st', o) := add_players st players in
  o = ROk /\ rs_ev st' = rs_ev st /\ r_tables (rs_reg st') = r_tables (rs_reg (with_reg st (update_requirements (set_pc (rs_reg st) (r_pc (rs_reg st) + zn (length players)))))) /\
  r_queue (rs_reg st') = (r_queue (rs_reg st) ++ players)%list.
Proof.
  intros H. unfold add_players. rewrite H. simpl.
  unfold enter_queue. simpl.
  assert (Hs : r_status (update_requirements (set_pc (rs_reg st) (r_pc (rs_reg st) + zn (length players)))) = 0).
  { unfold update_requirements. destruct (_ =? _); simpl; exact H. }
  rewrite Hs. simpl. repeat split.
  unfold update_requirements. destruct (_ =? _); reflexivity.
Qed.

Lemma release_pending_no_callbacks st players :
  r_status (rs_reg st) = 0 -> rs_ev (release_players st players) = rs_ev st.
Proof. intros H. unfold release_players, enter_queue. rewrite H. reflexivity. Qed.

(* SyncState makes no callback at all *)
Lemma sync_no_callbacks st id out :
  rs_ev (fst (fst (fst (sync_state st id out)))) = rs_ev st.
Proof.
  unfold sync_state. destruct (find_table id _) as [t0|]; [|reflexivity].
  repeat match goal with
         | |- context [if ?c then _ else _] => destruct c
         | |- context [let '(_, _) := ?x in _] => destruct x
         end; reflexivity.
Qed.

(* ---------- a table that is told to break hands back all of its players (C20) ---------- *)
Lemma find_map_table id f ts :
  (forall t, t_id (f t) = t_id t) ->
  find_table id (map_table id f ts) = option_map f (find_table id ts).
Proof.
  intros Hf. induction ts as [|t rest IH]; simpl; [reflexivity|].
  destruct (t_id t =? id) eqn:E; simpl.
  - rewrite Hf, E. reflexivity.
  - rewrite E. exact IH.
Qed.

Lemma find_map_table_present id id' f ts :
  (forall t, t_id (f t) = t_id t) ->
  find_table id ts <> None -> find_table id (map_table id' f ts) <> None.
Proof.
  intros Hf. induction ts as [|t rest IH]; simpl; [auto|].
  destruct (t_id t =? id') eqn:E'; simpl.
  - rewrite Hf. destruct (t_id t =? id); [discriminate|auto].
  - destruct (t_id t =? id); [discriminate|auto].
Qed.

Lemma release_loop_tables_present n r id F picked id' :
  find_table id' (r_tables r) <> None ->
  find_table id' (r_tables (snd (release_loop n r id F picked))) <> None.
Proof.
  revert r picked; induction n as [|n IH]; intros r picked H; simpl; [exact H|].
  destruct (lower_level_ge r F); [exact H|].
  apply IH. simpl. apply find_map_table_present; [reflexivity|exact H].
Qed.

Lemma find_break_table r id : find_table id (r_tables (break_table r id)) = None.
Proof.
  unfold break_table. simpl. induction (r_tables r) as [|t rest IH]; simpl; [reflexivity|].
  destruct (t_id t =? id) eqn:E; simpl; [exact IH|]. rewrite E. exact IH.
Qed.

(* if SyncState removes the table (break), the release count it returns is the table's whole
   remaining player count and no player is handed to it *)
Lemma sync_break_returns_all st id out t0 :
  find_table id (r_tables (rs_reg st)) = Some t0 ->
  let '(st', rel, handed, o) := sync_state st id out in
  find_table id (r_tables (rs_reg st')) = None -> rel = t_pc t0 - out /\ handed = [] /\ o = ROk.
Proof.
  intros Hf. unfold sync_state. rewrite Hf.
  set (r1 := set_tables _ _).
  assert (Hp1 : find_table id (r_tables r1) <> None).
  { unfold r1. simpl. apply find_map_table_present; [reflexivity|]. rewrite Hf. discriminate. }
  destruct ((r_status r1 =? 2) && (r_pc r1 <=? r_max r1) && (required_tables r1 <? r_tc r1)); [auto|].
  destruct (required_tables r1 =? 0); [simpl; intros H; contradiction|].
  destruct (_ <? r_pc r1).
  - destruct ((2 <=? low_water_count r1) && (required_tables r1 <? r_tc r1)); [auto|].
    destruct (take_queue r1 _) as [players r2] eqn:Et. simpl.
    intros H. exfalso. revert H.
    apply find_map_table_present; [reflexivity|].
    unfold take_queue in Et. inversion Et; subst. simpl. exact Hp1.
  - destruct (r_pc r1 <? _).
    + destruct (release_loop _ r1 id _ 0) as [picked r2] eqn:El. simpl.
      intros H. exfalso. revert H.
      replace r2 with (snd (release_loop (Z.to_nat (t_pc t0 - out - r_pc r1 / required_tables r1)) r1 id (r_pc r1 / required_tables r1) 0)) by (rewrite El; reflexivity).
      apply release_loop_tables_present. exact Hp1.
    + simpl. intros H; contradiction.
Qed.
