(* C07 — a hand can be resumed from its serialised state at any wait point.
   erase g : the state as JSON carries it — Pot.Levels of the published pots (json:"-") and the
   unexported internals of a stored settlement result are dropped, everything else is kept.
   step is the whole reaction of the engine to one operation, from wait point to wait point. *)
From PF Require Import Base ModelGame ProofsGameBasic ProofsErase.

(* a game rebuilt from its JSON reacts to the next operation exactly like the in-memory game:
   same outcome, same (serialised) state *)
Theorem C07_step :
  forall g o,
    erase (fst (step (erase g) o)) = erase (fst (step g o)) /\ snd (step (erase g) o) = snd (step g o).
Proof. exact step_after_erase. Qed.
Print Assumptions C07_step.

(* ... and so for any number of restarts / backend hops between any two operations of any history:
   (cut, op) means "the state goes through JSON before op" *)
Theorem C07_any_cuts :
  forall g (ops : list (bool * op)),
    erase (run_with_cuts g ops) = erase (run g (map snd ops)).
Proof. intros g ops. apply cuts_do_not_matter. apply sim_refl. Qed.
Print Assumptions C07_any_cuts.

(* the backend that rebuilds the game for every single call is the all-cuts case *)
Theorem C07_stateless_backend :
  forall g (ops : list op),
    erase (run_with_cuts g (map (fun o => (true, o)) ops)) = erase (run g ops).
Proof.
  intros g ops. rewrite (C07_any_cuts g (map (fun o => (true, o)) ops)). rewrite map_map. simpl.
  rewrite map_id. reflexivity.
Qed.
Print Assumptions C07_stateless_backend.

(* the engine is a function of state and operation: same deck, same operations, same state *)
Theorem C07_deterministic :
  forall g ops1 ops2, ops1 = ops2 -> run g ops1 = run g ops2.
Proof. intros; subst; reflexivity. Qed.
Print Assumptions C07_deterministic.

Theorem C07_erase_idempotent : forall g, erase (erase g) = erase g.
Proof. exact erase_idem. Qed.
Print Assumptions C07_erase_idempotent.
