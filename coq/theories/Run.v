(* Run.v — the command interpreter that the extracted runner and the in-Coq
   cross-check both use: decodes integer argument lists, runs the models, returns
   observations. *)
From PF Require Import Base Comb ModelPot ModelSettle ModelEval ModelSeat ModelReg ModelSys ModelGame.
From PF.Gen Require Import Consts.
Open Scope string_scope.
Open Scope Z_scope.

(* ---------- game observations ---------- *)
Definition action_bit (a : action) : Z :=
  match a with
  | APass => 1 | AFold => 2 | ACheck => 4 | ACall => 8 | AAllin => 16 | ABet => 32 | ARaise => 64 | APay => 128
  end.
Definition allowed_mask (l : list action) : Z := zsum (map action_bit l).
Definition did_code (d : did) : Z :=
  match d with DNone => 0 | DFold => 1 | DAllin => 2 | DCall => 3 | DCheck => 4 | DBet => 5 | DRaise => 6 end.
Definition event_code (e : event) : Z :=
  match e with
  | EvNone => 0 | EvReadyRequested => 1 | EvAnteRequested => 2 | EvBlindsRequested => 3
  | EvRoundStarted => 4 | EvRoundClosed => 5 | EvGameClosed => 6
  end.
Definition round_code (r : round) : Z :=
  match r with RNone => 0 | Preflop => 1 | Flop => 2 | Turn => 3 | River => 4 end.
Definition latype_code (t : latype) : Z :=
  match t with
  | LNext => 0 | LPass => 1 | LAnte => 2 | LBigBlind => 3 | LSmallBlind => 4 | LDealerBlind => 5 | LPay => 6
  | LFold => 7 | LCall => 8 | LCheck => 9 | LBet => 10 | LRaise => 11 | LAllin => 12
  end.
Definition outcome_code (o : outcome) : Z :=
  match o with
  | Ok => 0 | ErrInvalidAction => 1 | ErrIllegalRaise => 2 | ErrNotClosedRound => 3
  | ErrInsufficientPlayers => 4 | ErrNoDealer => 5 | ErrBankroll => 6 | ErrNoDeck => 7 | Panic => 9
  end.

Definition ctype_code (c : option cinfo) : Z :=
  match c with
  | None => -2
  | Some ci => match ci_type ci with None => -1 | Some t => comb_code t end
  end.

Definition obs_state (g : gstate) : obs :=
  let s := g_st g in
  let m := g_meta g in
  let ps := g_players g in
  ([("ev", [event_code (st_event s)]); ("rd", [round_code (st_round s)]);
   ("cur", [zn (st_cur s)]); ("raiser", [zn (st_raiser s)]);
   ("cw", [st_cw s]); ("prs", [st_prs s]); ("minibet", [st_minibet s]); ("maxw", [st_maxwager s]);
   ("rpot", [st_rpot s]); ("dpos", [zn (st_dpos s)]);
   ("board", st_board s); ("burned", st_burned s); ("deck", m_deck m);
   ("last", match st_last s with None => [] | Some (a, t, v) => [a; latype_code t; v] end);
   ("pots", obs_pots (st_pots s));
   ("potlevels", obs_potlevels (st_pots s));
   ("bk", map p_bankroll ps); ("init", map p_initial ps); ("stack", map p_stack ps);
   ("ppot", map p_pot ps); ("wager", map p_wager ps);
   ("fold", map (fun p => zb (p_fold p)) ps); ("acted", map (fun p => zb (p_acted p)) ps);
   ("vpip", map (fun p => zb (p_vpip p)) ps); ("did", map (fun p => did_code (p_did p)) ps);
   ("allowed", map (fun p => allowed_mask (p_allowed p)) ps);
   ("hole", flat_map (fun p => zn (length (p_hole p)) :: p_hole p) ps);
   ("ctype", map (fun p => ctype_code (p_comb p)) ps);
   ("cpower", map (fun p => match p_comb p with Some c => ci_power c | None => 0 end) ps);
   (* with more than 12 candidate hands Go's sort is not stable: the cards of the
      reported hand are then left to the oracle and not compared literally *)
   ("ccards", flat_map (fun p => match p_comb p with
                                 | Some c =>
                                     if Nat.leb (length (all_combinations (st_board s) (p_hole p) (m_req m))) 12
                                     then zn (length (ci_cards c)) :: ci_cards c else [0]
                                 | None => [0] end) ps)]
  ++ match g_result g with
     | None => [("hasres", [0])]
     | Some r => ("hasres", [1]) :: obs_result r
     end)%list.

Definition obs_game (g : gstate) (o : outcome) : obs := ("o", [outcome_code o]) :: obs_state g.

(* ---------- decoding ---------- *)
Definition zbool (z : Z) : bool := negb (z =? 0).

Fixpoint take_n {A} (n : nat) (f : list Z -> option (A * list Z)) (l : list Z) : option (list A * list Z) :=
  match n with
  | O => Some ([], l)
  | S n' => match f l with
            | None => None
            | Some (x, l') => match take_n n' f l' with
                              | None => None
                              | Some (xs, l'') => Some (x :: xs, l'')
                              end
            end
  end.

(* a counted list: n, x1 ... xn *)
Definition take_list (l : list Z) : option (list Z * list Z) :=
  match l with
  | [] => None
  | n :: t => let k := Z.to_nat n in
              if Nat.leb k (length t) then Some (firstn k t, skipn k t) else None
  end.

Definition dec_pot_in (l : list Z) : option ((Z * Z * bool) * list Z) :=
  match l with i :: w :: f :: t => Some ((i, w, zbool f), t) | _ => None end.
Definition dec_settle_in (l : list Z) : option ((Z * Z * bool * Z * Z) * list Z) :=
  match l with i :: c :: f :: b :: s :: t => Some ((i, c, zbool f, b, s), t) | _ => None end.
Definition dec_player (l : list Z) : option ((Z * (bool * bool * bool)) * list Z) :=
  match l with b :: d :: sb :: bb :: t => Some ((b, (zbool d, zbool sb, zbool bb)), t) | _ => None end.

Definition dec_action (z : Z) : option action :=
  if z =? 0 then Some APass else if z =? 1 then Some AFold else if z =? 2 then Some ACheck
  else if z =? 3 then Some ACall else if z =? 4 then Some AAllin else if z =? 5 then Some ABet
  else if z =? 6 then Some ARaise else if z =? 7 then Some APay else None.

(* op: code, who (-1 = the game's current player), amount *)
Definition dec_op (l : list Z) : option op :=
  match l with
  | [c; w; x] =>
      if c =? 0 then Some OReady else if c =? 1 then Some OPayAnte else if c =? 2 then Some OPayBlinds
      else if c =? 3 then Some ONext
      else match dec_action (c - 10) with
           | Some a => Some (OAct (if w <? 0 then None else Some (Z.to_nat w)) a x)
           | None => None
           end
  | _ => None
  end.

Definition dec_config (l : list Z) : option (config * list Z) :=
  match l with
  | ante :: bd :: bsb :: bbb :: lim :: hole :: req :: tbl :: burn :: n :: t =>
      match take_n (Z.to_nat n) dec_player t with
      | None => None
      | Some (pls, t1) =>
          match take_list t1 with
          | None => None
          | Some (deck0, t2) =>
              match take_list t2 with
              | Some (deck1, []) =>
                  Some (mkCfg ante bd bsb bbb (zbool lim) (Z.to_nat hole) (Z.to_nat req)
                              (table_of_code tbl) deck0 burn pls, deck1)
              | _ => None
              end
          end
      end
  | _ => None
  end.

Definition dec_sm_op (l : list Z) : option sm_op :=
  match l with
  | [c; a; b] =>
      if c =? 0 then Some (OJoin a b) else if c =? 1 then Some (OSeat a) else if c =? 2 then Some (OReserve a)
      else if c =? 3 then Some (OLeave a) else if c =? 4 then Some ModelSeat.ONext else None
  | _ => None
  end.

(* ---------- interpreter state ---------- *)
Record rstate := mkRS0 { rs_sm : smgr; rs_regst : reg; rs_game : gstate; rs_stack : list gstate;
                         rs_sys : sys (* the regulator with its tables: stepped beside the regulator alone *) }.
Definition mkRS' (st : rstate) (s : smgr) (r : reg) (g : gstate) : rstate := mkRS0 s r g [] (rs_sys st).

Definition empty_game : gstate :=
  mkG (mkMeta 0 0 0 0 false 0 0 [] [] 0) (mkSt 0 0 [] RNone [] [] 0 0 0 0 0 0 EvNone None) [] None.
Definition rs_init : rstate := mkRS0 (sm_init 0) (reg_init 9 6) empty_game [] (sys_init 9 6).
Definition with_game (st : rstate) (g : gstate) : rstate := mkRS0 (rs_sm st) (rs_regst st) g (rs_stack st) (rs_sys st).

Definition bad : obs := [("bad", [1])].

(* the environment of the system machine (ModelSys.v): the tables with their members in seating order, the
   players in transit (sorted), the number of living players, and whether its regulator is the regulator
   stepped alone *)
Fixpoint zlist_eqb (a b : list Z) : bool :=
  match a, b with [], [] => true | x :: a', y :: b' => (x =? y) && zlist_eqb a' b' | _, _ => false end.
Definition reg_flat (r : reg) : list Z := flat_map (fun kv => zn (length (snd kv)) :: snd kv) (obs_reg r).
Definition obs_sys (sy : sys) (r : reg) : obs :=
  [("envt", flat_map (fun t => fst t :: zn (length (snd t)) :: snd t) (s_tabs sy));
   ("envtr", isort (fun a b => a <? b) (s_transit sy));
   ("enval", [zn (length (s_alive sy))]);
   ("sysreg", [zb (zlist_eqb (reg_flat (rs_reg (s_st sy))) (reg_flat r))])].

Definition reg_result (st : rst) (o : reg_out) (extra : obs) : obs :=
  ("o", [reg_out_code o]) :: ("badchoice", [zb (rs_bad st)]) :: ("events", obs_events (rs_ev st))
  :: (extra ++ obs_reg (rs_reg st))%list.

Definition interp (st : rstate) (cmd : string) (args : list Z) : rstate * obs :=
  if String.eqb cmd "pot" then
    match args with
    | n :: t => match take_n (Z.to_nat n) dec_pot_in t with
                | Some (ins, []) => (st, run_pot_case ins)
                | _ => (st, bad) end
    | _ => (st, bad) end
  else if String.eqb cmd "settle" then
    match args with
    | n :: t => match take_n (Z.to_nat n) dec_settle_in t with
                | Some (ins, []) => (st, run_settle_case ins)
                | _ => (st, bad) end
    | _ => (st, bad) end
  else if String.eqb cmd "eval" then
    match args with
    | tb :: t => (st, run_eval_case tb t)
    | _ => (st, bad) end
  else if String.eqb cmd "best" then
    match args with
    | tb :: req :: t =>
        match take_list t with
        | Some (hole, t1) => match take_list t1 with
                             | Some (board, []) => (st, run_best_case tb (Z.to_nat req) hole board)
                             | _ => (st, bad) end
        | None => (st, bad) end
    | _ => (st, bad) end
  else if String.eqb cmd "combos" then
    match args with
    | req :: t =>
        match take_list t with
        | Some (hole, t1) => match take_list t1 with
                             | Some (board, []) => (st, run_combos_case (Z.to_nat req) hole board)
                             | _ => (st, bad) end
        | None => (st, bad) end
    | _ => (st, bad) end
  else if String.eqb cmd "sm-new" then
    match args with
    | [n] => let s := sm_init (Z.to_nat n) in (mkRS' st s (rs_regst st) (rs_game st), obs_sm s SOk (-1))
    | _ => (st, bad) end
  else if String.eqb cmd "sm" then
    match dec_sm_op args with
    | Some o => let '(s, out, ret) := sm_step (rs_sm st) o in
                (mkRS' st s (rs_regst st) (rs_game st), obs_sm s out ret)
    | None => (st, bad) end
  else if String.eqb cmd "sm-set" then
    match args with
    | mx :: t =>
        let n := Z.to_nat mx in
        let occ := firstn n t in
        let act := firstn n (skipn n t) in
        let res := firstn n (skipn (2 * n) t) in
        match skipn (3 * n) t with
        | [d; sb; bb] =>
            let seats := map (fun x => match x with (o, (ac, r)) => mkSeat (zbool o) (zbool ac) (zbool r) end)
                             (combine occ (combine act res)) in
            let opt z := if z <? 0 then None else Some (Z.to_nat z) in
            let s := mkSM seats (opt d) (opt sb) (opt bb) in
            (mkRS' st s (rs_regst st) (rs_game st), obs_sm s SOk (-1))
        | _ => (st, bad) end
    | _ => (st, bad) end
  else if String.eqb cmd "sm-x" then
    (* one transition from an explicit state: max, occ*, act*, res*, dealer, sb, bb, op *)
    match args with
    | mx :: t =>
        let n := Z.to_nat mx in
        let occ := firstn n t in
        let act := firstn n (skipn n t) in
        let res := firstn n (skipn (2 * n) t) in
        match skipn (3 * n) t with
        | [d; sb; bb; c; a; b] =>
            let seats := map (fun x => match x with (o, (ac, r)) => mkSeat (zbool o) (zbool ac) (zbool r) end)
                             (combine occ (combine act res)) in
            let opt z := if z <? 0 then None else Some (Z.to_nat z) in
            match dec_sm_op [c; a; b] with
            | Some o => let '(s, out, ret) := sm_step (mkSM seats (opt d) (opt sb) (opt bb)) o in
                        (st, obs_sm s out ret)
            | None => (st, bad) end
        | _ => (st, bad) end
    | _ => (st, bad) end
  else if String.eqb cmd "reg-new" then
    match args with
    | [mx; mn] => let r := reg_init mx mn in
                  let sy := sys_init mx mn in
                  (mkRS0 (rs_sm st) r (rs_game st) [] sy, reg_result (mkRst r [] [] false) ROk [])
    | _ => (st, bad) end
  else if String.eqb cmd "reg-add" then
    match take_list args with
    | Some (choices, players) =>
        let '(s1, o) := add_players (mkRst (rs_regst st) [] choices false) players in
        let sy := sys_gstep (rs_sys st) (GRegister choices players) in
        (mkRS0 (rs_sm st) (rs_reg s1) (rs_game st) [] sy, reg_result s1 o [])
    | None => (st, bad) end
  else if String.eqb cmd "reg-status" then
    match take_list args with
    | Some (choices, [status]) =>
        let s1 := do_set_status (mkRst (rs_regst st) [] choices false) status in
        let sy := sys_gstep (rs_sys st) (GStatus choices status) in
        (mkRS0 (rs_sm st) (rs_reg s1) (rs_game st) [] sy, reg_result s1 ROk [])
    | _ => (st, bad) end
  else if String.eqb cmd "reg-sync" then
    match args with
    | id :: out :: elim =>
        let '(s1, rel, players, o) := sync_state (mkRst (rs_regst st) [] [] false) id out in
        let sy := sys_gstep (rs_sys st) (GSync id elim) in
        (mkRS0 (rs_sm st) (rs_reg s1) (rs_game st) [] sy,
         reg_result s1 o [("release", [rel]); ("handed", players)])
    | _ => (st, bad) end
  else if String.eqb cmd "reg-release" then
    match take_list args with
    | Some (choices, players) =>
        let s1 := release_players (mkRst (rs_regst st) [] choices false) players in
        let sy := sys_gstep (rs_sys st) (GRelease choices players) in
        (mkRS0 (rs_sm st) (rs_reg s1) (rs_game st) [] sy, reg_result s1 ROk [])
    | None => (st, bad) end
  else if String.eqb cmd "reg-env" then
    (st, obs_sys (rs_sys st) (rs_regst st))
  else if String.eqb cmd "game-new" then
    match dec_config args with
    | Some (c, deck1) => let '(g, o) := create c deck1 in
                         (mkRS' st (rs_sm st) (rs_regst st) g, obs_game g o)
    | None => (st, bad) end
  else if String.eqb cmd "game-do" then
    match dec_op args with
    | Some o => let '(g, out) := step (rs_game st) o in
                (with_game st g, obs_game g out)
    | None => (st, bad) end
  else if String.eqb cmd "game-try" then
    (* run the operation on a copy: report outcome and whether the erased state changed *)
    match dec_op args with
    | Some o => let '(g, out) := step (rs_game st) o in
                (st, ("same", [zb (obs_eqb (obs_state g) (obs_state (rs_game st)))])
                     :: match out with Ok => obs_game g out | _ => [("o", [outcome_code out])] end)
    | None => (st, bad) end
  else if String.eqb cmd "game-view" then
    match args with
    | [v] => (st, obs_state (view (rs_game st) (if v <? 0 then None else Some (Z.to_nat v))))
    | _ => (st, bad) end
  else if String.eqb cmd "game-erase" then
    (* a JSON hop: drop what is not serialised *)
    (with_game st (erase (rs_game st)), [("ok", [1])])
  else if String.eqb cmd "game-push" then
    (mkRS0 (rs_sm st) (rs_regst st) (rs_game st) (rs_game st :: rs_stack st) (rs_sys st), [("ok", [1])])
  else if String.eqb cmd "game-restore" then
    match rs_stack st with
    | g :: _ => (with_game st g, [("ok", [1])])
    | [] => (st, bad) end
  else if String.eqb cmd "game-drop" then
    (mkRS0 (rs_sm st) (rs_regst st) (rs_game st) (tl (rs_stack st)) (rs_sys st), [("ok", [1])])
  else (st, bad).

(* run a script of commands, collecting observations (used by the in-Coq cross-check) *)
Fixpoint run_script (st : rstate) (cmds : list (string * list Z)) : list obs :=
  match cmds with
  | [] => []
  | (c, a) :: t => let '(st', o) := interp st c a in o :: run_script st' t
  end.
