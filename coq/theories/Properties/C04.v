(* C04 — only the player to act can act, in the right phase. Refusal half: these
   statements hold at EVERY state (no invariant needed, only the guards). *)
From PF Require Import Base ModelGame ProofsGameBasic ProofsInv.

Theorem C04_ready_wrong_phase :
  forall g, st_event (g_st g) <> EvReadyRequested -> step g OReady = (g, ErrInvalidAction).
Proof. exact ready_refused. Qed.
Print Assumptions C04_ready_wrong_phase.

Theorem C04_ante_wrong_phase :
  forall g, st_event (g_st g) <> EvAnteRequested \/ m_ante (g_meta g) = 0 -> step g OPayAnte = (g, ErrInvalidAction).
Proof. exact pay_ante_refused. Qed.
Print Assumptions C04_ante_wrong_phase.

Theorem C04_blinds_wrong_phase :
  forall g, st_event (g_st g) <> EvBlindsRequested -> step g OPayBlinds = (g, ErrInvalidAction).
Proof. exact pay_blinds_refused. Qed.
Print Assumptions C04_blinds_wrong_phase.

Theorem C04_next_wrong_phase :
  forall g, st_event (g_st g) <> EvRoundClosed -> step g ONext = (g, ErrNotClosedRound).
Proof. exact next_refused. Qed.
Print Assumptions C04_next_wrong_phase.

(* any action that the addressed seat was not offered is refused and changes nothing;
   in particular every action of a seat whose offer is empty *)
Theorem C04_action_not_offered :
  forall g who a x,
    (seat_of g who < nplayers g)%nat -> allowed g (seat_of g who) a = false ->
    step g (OAct who a x) = (g, ErrInvalidAction).
Proof. exact action_not_offered_refused. Qed.
Print Assumptions C04_action_not_offered.

Theorem C04_seat_without_offer :
  forall g i a, p_allowed (get_p g i) = [] -> allowed g i a = false.
Proof. exact allowed_nil. Qed.
Print Assumptions C04_seat_without_offer.

(* in every reachable state: outside a betting round nobody is offered anything, and the never
   legal "pay" is never among the offers *)
Theorem C04_no_offers_outside_betting_round :
  forall c deck g ops i,
    cfg_ok c -> create c deck = (g, Ok) ->
    st_event (g_st (run g ops)) <> EvRoundStarted -> p_allowed (get_p (run g ops) i) = [].
Proof.
  intros c deck g ops i Hc Hcr He. apply (inv_offers _ (Inv_reachable c deck g ops Hc Hcr) He).
Qed.
Print Assumptions C04_no_offers_outside_betting_round.

(* during a betting round exactly one player is offered actions: the seat to act, whose offer is the
   action table of its situation (never empty); every other seat is offered nothing *)
From PF Require Import ProofsOffers.
Theorem C04_exactly_one_offered :
  forall c deck g ops,
    cfg_ok c -> create c deck = (g, Ok) ->
    let s := run g ops in
    st_event (g_st s) = EvRoundStarted ->
    (st_cur (g_st s) < nplayers s)%nat /\
    p_allowed (get_p s (st_cur (g_st s))) = available_actions (g_st s) (get_p s (st_cur (g_st s))) /\
    p_allowed (get_p s (st_cur (g_st s))) <> [] /\
    (forall i, i <> st_cur (g_st s) -> p_allowed (get_p s i) = []).
Proof.
  intros c deck g ops Hc Hcr s He. destruct (reachable_inv c deck g ops Hc Hcr) as [HI HO].
  destruct (oi_cur _ HO He) as [Hr Ho]. fold s in Hr, Ho.
  split; [exact Hr|split; [exact Ho|split; [|apply (oi_only _ HO)]]].
  rewrite Ho. unfold available_actions. destruct (p_fold _); [discriminate|]. destruct (_ =? 0); discriminate.
Qed.
Print Assumptions C04_exactly_one_offered.

(* an accepted action can only come from the seat to act during a betting round *)
Theorem C04_only_the_player_to_act :
  forall c deck g ops i a,
    cfg_ok c -> create c deck = (g, Ok) ->
    allowed (run g ops) i a = true ->
    i = st_cur (g_st (run g ops)) /\ st_event (g_st (run g ops)) = EvRoundStarted.
Proof.
  intros c deck g ops i a Hc Hcr Ha. destruct (reachable_inv c deck g ops Hc Hcr) as [HI HO].
  apply (accepted_is_current _ i a HI HO Ha).
Qed.
Print Assumptions C04_only_the_player_to_act.

(* the turn passes seat by seat clockwise: after an accepted action that leaves the round open it is
   the turn of seat (current + 1) mod n *)
Theorem C04_clockwise :
  forall c deck g ops who a x s',
    cfg_ok c -> create c deck = (g, Ok) ->
    step (run g ops) (OAct who a x) = (s', Ok) -> st_event (g_st s') = EvRoundStarted ->
    st_cur (g_st s') = next_idx (run g ops).
Proof.
  intros c deck g ops who a x s' Hc Hcr Hs He. destruct (reachable_inv c deck g ops Hc Hcr) as [HI HO].
  apply (turn_passes_clockwise _ who a x s' HI HO Hs He).
Qed.
Print Assumptions C04_clockwise.

(* who acts first: before the flop the seat to the left of the big blind (so, heads-up, the dealer, who
   posts the small blind); on later streets the seat to the left of the dealer *)
From PF Require Import ProofsFirst.
Theorem C04_first_to_act :
  forall g,
    st_event (g_st g) = EvReadyRequested -> st_round (g_st g) <> RNone -> (2 <= nplayers g)%nat ->
    let g' := fst (step g OReady) in
    st_event (g_st g') = EvRoundStarted ->
    match st_round (g_st g) with
    | Preflop =>
        (exists j, (j < nplayers g)%nat /\ p_bb (get_p g j) = true) ->
        exists b, (b < nplayers g)%nat /\ p_bb (get_p g b) = true /\ st_cur (g_st g') = left_of (nplayers g) b
    | _ => st_cur (g_st g') = left_of (nplayers g) (dealer_of g)
    end.
Proof. exact first_to_act. Qed.
Print Assumptions C04_first_to_act.

(* in every reachable state, every operation that is refused — whatever the reason — leaves the state
   exactly as it was *)
From PF Require Import ProofsPhase.
Theorem C04_refused_operation_changes_nothing :
  forall c deck g ops o,
    cfg_ok c -> length deck = length (c_deck c) -> create c deck = (g, Ok) ->
    snd (step (run g ops) o) <> Ok -> fst (step (run g ops) o) = run g ops.
Proof.
  intros c deck g ops o Hc Hl Hcr. apply refused_changes_nothing. apply (Good_reachable c deck g ops Hc Hl Hcr).
Qed.
Print Assumptions C04_refused_operation_changes_nothing.

(* what a seat has done is something it had been offered: after an accepted action other than pass, the action
   recorded for the acting seat (did_action) was in its offer before — a bet or raise request may end as an
   all-in, a raise request to the level of the wager to match as a call, each only when that action was on
   offer; pay is never on offer and never accepted *)
From PF Require Import ProofsDid.
Theorem C04_what_a_seat_did_was_on_offer :
  forall c deck g ops,
    cfg_ok c -> create c deck = (g, Ok) ->
    let s := run g ops in
    forall i a x, (i < nplayers s)%nat -> a <> APass -> snd (do_act s i a x) = Ok ->
    forall b, action_of_did (p_did (get_p (fst (do_act s i a x)) i)) = Some b -> allowed s i b = true.
Proof.
  intros c deck g ops Hc Hcr s i a x Hi Ha Hok b Hb.
  destruct (reachable_inv c deck g ops Hc Hcr) as [HI HO]. exact (did_was_offered s i a x HI HO Hi Ha Hok b Hb).
Qed.
Print Assumptions C04_what_a_seat_did_was_on_offer.

(* do_act is the action part of step *)
Theorem C04_do_act_is_the_step :
  forall g i a x, (i < nplayers g)%nat -> step g (OAct (Some i) a x) = do_act g i a x.
Proof.
  intros g i a x Hi. cbn [step]. replace (Nat.ltb i (nplayers g)) with true by (symmetry; apply Nat.ltb_lt; exact Hi).
  cbn [negb]. destruct a; reflexivity.
Qed.
Print Assumptions C04_do_act_is_the_step.
