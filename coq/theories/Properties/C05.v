(* C05 — a betting round closes exactly when it should. *)
From PF Require Import Base ModelGame ProofsGameBasic.

(* when only one non-folded player remains, asking for the next action closes the round at once *)
Theorem C05_last_man_closes_round :
  forall g, alive_count g = 1%nat ->
    request_action g = round_closed g /\ st_event (g_st (round_closed g)) = EvRoundClosed.
Proof. intros g H. split; [apply request_action_last_man; exact H|reflexivity]. Qed.
Print Assumptions C05_last_man_closes_round.

Theorem C05_nobody_with_chips_closes_round :
  forall g, movable_count g = 0%nat -> request_action g = round_closed g.
Proof. exact request_action_nobody_movable. Qed.
Print Assumptions C05_nobody_with_chips_closes_round.

Theorem C05_closed_round_offers_nothing :
  forall g i, p_allowed (get_p (round_closed g) i) = [].
Proof. exact round_closed_no_offers. Qed.
Print Assumptions C05_closed_round_offers_nothing.

(* the hand ends at once when one non-folded player remains: Next goes straight to the settlement, no
   further card is dealt *)
From PF Require Import ProofsInv ProofsCards ProofsPhase.
Theorem C05_last_man_ends_the_hand :
  forall g, st_event (g_st g) = EvRoundClosed -> st_round (g_st g) <> RNone ->
    let g1 := reset_all_status (reset_round_status (set_last g (-1) LNext 0)) in
    alive_count g1 = 1%nat ->
    step g ONext = (let res := game_completed g1 in match res with (_, Panic) => (g, Panic) | x => x end) /\
    sv (fst (game_completed g1)) = sv g.
Proof.
  intros g He Hr g1 Ha. split.
  - cbn [step]. unfold do_next. rewrite He. cbn [event_eqb negb].
    change (st_round (g_st (set_last g (-1) LNext 0))) with (st_round (g_st g)). fold g1. rewrite Ha. cbn [Nat.eqb].
    destruct (st_round (g_st g)); [contradiction| | | |]; reflexivity.
  - rewrite sv_game_completed. reflexivity.
Qed.
Print Assumptions C05_last_man_ends_the_hand.

(* when fewer than two players still have chips, entering a street opens no betting round: the round is
   closed at once and the driver is asked to move on, until the board is complete *)
Theorem C05_no_betting_round_without_two_stacks :
  forall g, st_round (g_st g) <> Preflop -> (movable_count g <= 1)%nat -> prepare_round g = round_closed g.
Proof.
  intros g Hr Hm. unfold prepare_round. destruct (st_round (g_st g)); try contradiction;
    (replace (Nat.leb (movable_count g) 1) with true by (symmetry; apply Nat.leb_le; exact Hm)); reflexivity.
Qed.
Print Assumptions C05_no_betting_round_without_two_stacks.

(* during a betting round the seat asked to act has not yet acted since the wager last went up *)
Theorem C05_player_to_act_has_not_acted :
  forall c deck g ops,
    cfg_ok c -> length deck = length (c_deck c) -> create c deck = (g, Ok) ->
    let s := run g ops in
    st_event (g_st s) = EvRoundStarted -> p_acted (get_p s (st_cur (g_st s))) = false.
Proof.
  intros c deck g ops Hc Hl Hcr s He. apply (pi_cur s (good_phase s (Good_reachable c deck g ops Hc Hl Hcr)) He).
Qed.
Print Assumptions C05_player_to_act_has_not_acted.
