(* ProofsEffects.v — what the accepted actions do to the chips (C11): fold and check move nothing, call
   pays the difference to the wager to match (capped at the stack), all-in puts everything in, bet puts
   the amount in; nobody else's chips move. *)
From Coq Require Import Lia.
From PF Require Import Base ProofsBase Comb ModelPot ModelSettle ModelEval ModelGame
                       ProofsGameBasic ProofsChips ProofsInv ProofsView.

Lemma chips_after_resume g j : (j < nplayers g)%nat -> chips_of (get_p (resume g) j) = chips_of (get_p g j).
Proof.
  intros Hj. pose proof (cv_resume g) as Hv. destruct (cv_parts _ _ Hv) as (_ & Hpl & _).
  rewrite !get_p_cv by (try rewrite (nplayers_cv _ _ Hv); exact Hj). now rewrite Hpl.
Qed.

Definition fv := gv p_fold.
Lemma fold_after_resume g j : p_fold (get_p (resume g) j) = p_fold (get_p g j).
Proof.
  assert (H : gv p_fold (resume g) = gv p_fold g) by (apply gv_resume; reflexivity).
  unfold gv in H. unfold get_p. change false with (p_fold dflt_p). rewrite <- !(map_nth p_fold). now rewrite H.
Qed.

(* fold and check *)
Theorem fold_effect g i :
  allowed g i AFold = true -> (i < nplayers g)%nat ->
  let s := fst (act_fold g i) in
  snd (act_fold g i) = Ok /\ p_fold (get_p s i) = true /\
  (forall j, (j < nplayers g)%nat -> chips_of (get_p s j) = chips_of (get_p g j)) /\
  (forall j, j <> i -> p_fold (get_p s j) = p_fold (get_p g j)).
Proof.
  intros Ha Hi s. unfold s, act_fold. rewrite Ha. cbn [negb fst snd]. split; [reflexivity|].
  set (g1 := upd_p g i (fun p => p_set_acted (p_set_did (p_set_fold p true) DFold) true)).
  assert (Hn : nplayers (set_last g1 (zn i) LFold 0) = nplayers g) by (unfold set_last, g1; rewrite nplayers_with_st; apply nplayers_upd).
  split; [|split].
  - rewrite fold_after_resume. unfold set_last. rewrite get_p_with_st. unfold g1. rewrite get_p_upd_same by exact Hi. reflexivity.
  - intros j Hj. rewrite chips_after_resume by (rewrite Hn; exact Hj). unfold set_last. rewrite get_p_with_st. unfold g1.
    destruct (Nat.eq_dec i j) as [<-|Hne]; [rewrite get_p_upd_same by exact Hi|rewrite get_p_upd_other by exact Hne]; reflexivity.
  - intros j Hne. rewrite fold_after_resume. unfold set_last. rewrite get_p_with_st. unfold g1.
    rewrite get_p_upd_other by (intros E; apply Hne; symmetry; exact E). reflexivity.
Qed.

Theorem check_effect g i :
  allowed g i ACheck = true -> (i < nplayers g)%nat ->
  let s := fst (act_check g i) in
  snd (act_check g i) = Ok /\
  (forall j, (j < nplayers g)%nat -> chips_of (get_p s j) = chips_of (get_p g j)) /\
  (forall j, p_fold (get_p s j) = p_fold (get_p g j)).
Proof.
  intros Ha Hi s. unfold s, act_check. rewrite Ha. cbn [negb fst snd]. split; [reflexivity|].
  set (g1 := upd_p g i (fun p => p_set_acted (p_set_did p DCheck) true)).
  assert (Hn : nplayers (set_last g1 (zn i) LCheck 0) = nplayers g) by (unfold set_last, g1; rewrite nplayers_with_st; apply nplayers_upd).
  split.
  - intros j Hj. rewrite chips_after_resume by (rewrite Hn; exact Hj). unfold set_last. rewrite get_p_with_st. unfold g1.
    destruct (Nat.eq_dec i j) as [<-|Hne]; [rewrite get_p_upd_same by exact Hi|rewrite get_p_upd_other by exact Hne]; reflexivity.
  - intros j. rewrite fold_after_resume. unfold set_last. rewrite get_p_with_st. unfold g1.
    destruct (Nat.eq_dec i j) as [<-|Hne]; [|rewrite get_p_upd_other by exact Hne; reflexivity].
    destruct (Nat.lt_ge_cases i (nplayers g)) as [H|H]; [rewrite get_p_upd_same by exact H; reflexivity|lia].
Qed.

(* the paying actions: the acting seat pays `chips` (capped at its stack), nobody else's chips move *)
Lemma paying_effect g g1 i chips (F : gstate -> gstate) t v :
  (i < nplayers g)%nat -> nplayers g1 = nplayers g ->
  (forall j, (j < nplayers g)%nat -> chips_of (get_p g1 j) = chips_of (get_p g j)) ->
  (forall y j, chips_of (get_p (F y) j) = chips_of (get_p y j)) -> (forall y, nplayers (F y) = nplayers y) ->
  let s := resume (set_last (F (pay g1 i chips true)) (zn i) t v) in
  let p := get_p g i in
  chips_of (get_p s i) =
    (if p_stack p <=? chips then (p_bankroll p, p_initial p, 0, p_pot p, p_initial p)
     else (p_bankroll p, p_initial p, p_initial p - (p_wager p + chips), p_pot p, p_wager p + chips)) /\
  (forall j, j <> i -> (j < nplayers g)%nat -> chips_of (get_p s j) = chips_of (get_p g j)).
Proof.
  intros Hi Hn1 Hc1 HF HFn s p.
  assert (Hi1 : (i < nplayers g1)%nat) by (rewrite Hn1; exact Hi).
  assert (Hn : nplayers (set_last (F (pay g1 i chips true)) (zn i) t v) = nplayers g)
    by (unfold set_last; rewrite nplayers_with_st, HFn, pay_nplayers; exact Hn1).
  split.
  - unfold s. rewrite chips_after_resume by (rewrite Hn; exact Hi). unfold set_last. rewrite get_p_with_st, HF.
    rewrite (pay_chips g1 i chips true Hi1). cbv zeta. pose proof (Hc1 i Hi) as E. unfold chips_of in E.
    injection E as -> -> -> -> ->. reflexivity.
  - intros j Hne Hj. unfold s. rewrite chips_after_resume by (rewrite Hn; exact Hj). unfold set_last. rewrite get_p_with_st, HF.
    rewrite pay_other by (try (rewrite Hn1; exact Hj); intros E; apply Hne; symmetry; exact E). apply Hc1. exact Hj.
Qed.

Lemma upd_acted_chips g i d j : (j < nplayers g)%nat ->
  chips_of (get_p (upd_p g i (fun p => p_set_acted (p_set_did p d) true)) j) = chips_of (get_p g j).
Proof.
  intros Hj. destruct (Nat.eq_dec i j) as [<-|Hne]; [rewrite get_p_upd_same by exact Hj|rewrite get_p_upd_other by exact Hne]; reflexivity.
Qed.

Theorem call_effect g i :
  allowed g i ACall = true -> (i < nplayers g)%nat ->
  let s := fst (act_call g i) in
  let p := get_p g i in
  let delta := if st_cw (g_st g) <? m_bbb (g_meta g) then m_bbb (g_meta g) - p_wager p else st_cw (g_st g) - p_wager p in
  snd (act_call g i) = Ok /\
  chips_of (get_p s i) =
    (if p_stack p <=? delta then (p_bankroll p, p_initial p, 0, p_pot p, p_initial p)
     else (p_bankroll p, p_initial p, p_initial p - (p_wager p + delta), p_pot p, p_wager p + delta)) /\
  (forall j, j <> i -> (j < nplayers g)%nat -> chips_of (get_p s j) = chips_of (get_p g j)).
Proof.
  intros Ha Hi s p delta. unfold s, act_call. rewrite Ha. cbn [negb fst snd]. split; [reflexivity|].
  apply (paying_effect g _ i delta (fun y => y) LCall delta Hi).
  - apply nplayers_upd.
  - intros j Hj. apply upd_acted_chips. exact Hj.
  - reflexivity.
  - reflexivity.
Qed.

Theorem allin_effect g i :
  allowed g i AAllin = true -> (i < nplayers g)%nat -> 0 <= p_stack (get_p g i) ->
  let s := fst (act_allin g i) in
  let p := get_p g i in
  snd (act_allin g i) = Ok /\
  chips_of (get_p s i) = (p_bankroll p, p_initial p, 0, p_pot p, p_initial p) /\
  (forall j, j <> i -> (j < nplayers g)%nat -> chips_of (get_p s j) = chips_of (get_p g j)).
Proof.
  intros Ha Hi Hs s p. unfold s, act_allin. rewrite Ha. cbn [negb fst snd]. split; [reflexivity|].
  set (g1 := upd_p g i (fun p => p_set_acted (p_set_did p DAllin) true)).
  assert (Hst : p_stack (get_p g1 i) = p_stack p) by (unfold g1; rewrite get_p_upd_same by exact Hi; reflexivity).
  match goal with |- context [pay ?y i _ true] => set (g2 := y) end.
  assert (Hn2 : nplayers g2 = nplayers g) by (unfold g2; match goal with |- context [if ?c then _ else _] => destruct c end; rewrite ?nplayers_with_st; apply nplayers_upd).
  assert (Hc2 : forall j, (j < nplayers g)%nat -> chips_of (get_p g2 j) = chips_of (get_p g j)).
  { intros j Hj. unfold g2. match goal with |- context [if ?c then _ else _] => destruct c end; rewrite ?get_p_with_st; apply upd_acted_chips; exact Hj. }
  destruct (paying_effect g g2 i (p_stack (get_p g1 i)) (fun y => y) LAllin (p_initial (get_p g1 i)) Hi Hn2 Hc2 ltac:(reflexivity) ltac:(reflexivity)) as [A B].
  split; [|exact B]. rewrite A, Hst. fold p. replace (p_stack p <=? p_stack p) with true by (symmetry; apply Z.leb_refl). reflexivity.
Qed.

Theorem bet_effect g i x :
  allowed g i ABet = true -> (i < nplayers g)%nat -> 0 < x -> x < p_stack (get_p g i) ->
  let s := fst (act_bet g i x) in
  let p := get_p g i in
  snd (act_bet g i x) = Ok /\
  chips_of (get_p s i) = (p_bankroll p, p_initial p, p_initial p - (p_wager p + x), p_pot p, p_wager p + x) /\
  st_prs (g_st s) = x /\
  (forall j, j <> i -> (j < nplayers g)%nat -> chips_of (get_p s j) = chips_of (get_p g j)).
Proof.
  intros Ha Hi Hx Hlt s p. unfold s, act_bet. rewrite Ha. cbn [negb].
  replace (x <=? 0) with false by (symmetry; apply Z.leb_gt; exact Hx).
  replace (p_stack (get_p g i) <=? x) with false by (symmetry; apply Z.leb_gt; exact Hlt). cbn [fst snd].
  split; [reflexivity|].
  set (g1 := upd_p g i (fun p => p_set_acted (p_set_did p DBet) true)).
  destruct (paying_effect g g1 i x (fun y => with_st y (st_set_prs (g_st y) x)) LBet x Hi) as [A B].
  - apply nplayers_upd.
  - intros j Hj. apply upd_acted_chips. exact Hj.
  - intros y j. rewrite get_p_with_st. reflexivity.
  - intros y. apply nplayers_with_st.
  - split; [|split; [|exact B]].
    + rewrite A. fold p. replace (p_stack p <=? x) with false by (symmetry; apply Z.leb_gt; exact Hlt). reflexivity.
    + destruct (cv_parts _ _ (cv_resume (set_last (with_st (pay g1 i x true) (st_set_prs (g_st (pay g1 i x true)) x)) (zn i) LBet x))) as (_ & _ & _ & _ & ->). reflexivity.
Qed.
