(* ProofsSeat.v — the button moves to the first playable seat clockwise; Next never crashes
   (C17, C18, parts of C08). *)
From Coq Require Import Lia Permutation.
From PF Require Import Base ProofsBase ModelSeat ProofsSeatBasic.

(* playable seats among a list of seat indices *)
Definition pl (s : smgr) (i : nat) : bool := playable (get_seat s i).
Definition pc (s : smgr) (idxs : list nat) : nat := length (filter (pl s) idxs).

Lemma pc_app s a b : pc s (a ++ b) = (pc s a + pc s b)%nat.
Proof. unfold pc. rewrite filter_app, app_length. reflexivity. Qed.

Lemma pc_perm s a b : Permutation a b -> pc s a = pc s b.
Proof.
  unfold pc. induction 1; simpl; try lia.
  - destruct (pl s x); simpl; lia.
  - destruct (pl s x), (pl s y); simpl; lia.
Qed.

Lemma rotate_perm {A} k (l : list A) : Permutation (rotate k l) l.
Proof. unfold rotate. rewrite <- (firstn_skipn k l) at 3. apply Permutation_app_comm. Qed.

Lemma seats_as_map s : sm_seats s = map (get_seat s) (seq 0 (sm_max s)).
Proof.
  unfold get_seat, sm_max. generalize (mkSeat false false false) as d. intros d.
  induction (sm_seats s) as [|x t IH] using rev_ind; [reflexivity|].
  rewrite app_length. simpl. rewrite Nat.add_1_r, seq_S, map_app. simpl.
  rewrite app_nth2 by lia. rewrite Nat.sub_diag. simpl. f_equal.
  rewrite IH at 1. apply map_ext_in. intros i Hi. apply in_seq in Hi. rewrite app_nth1 by lia. reflexivity.
Qed.

Lemma playable_count_pc s : playable_count s = pc s (seq 0 (sm_max s)).
Proof.
  unfold playable_count, count_if, pc, pl. rewrite (seats_as_map s) at 1.
  induction (seq 0 (sm_max s)) as [|i t IH]; simpl; [reflexivity|].
  destruct (playable (get_seat s i)); simpl; now rewrite IH.
Qed.

Lemma pc_normalized s d : pc s (normalized s d) = playable_count s.
Proof. unfold normalized. rewrite (pc_perm s _ _ (rotate_perm d _)). symmetry. apply playable_count_pc. Qed.

(* the clockwise scan *)
Lemma find_active_none_pc s idxs start : find_active s idxs start = None <-> pc s idxs = 0%nat.
Proof.
  revert start; induction idxs as [|i t IH]; intros start; [split; reflexivity|].
  cbn [find_active]. unfold pc in *. cbn [filter]. unfold pl at 1. destruct (playable (get_seat s i)); cbn [length].
  - split; discriminate.
  - apply IH.
Qed.

Lemma find_active_some s idxs start :
  (0 < pc s idxs)%nat -> exists d pos, find_active s idxs start = Some (d, pos).
Proof.
  intros H. destruct (find_active s idxs start) as [[d pos]|] eqn:E; [eauto|].
  apply find_active_none_pc in E. lia.
Qed.

(* after the seat that the scan found, one playable seat less remains *)
Lemma find_active_rest s idxs start d pos :
  find_active s idxs start = Some (d, pos) ->
  pc s (skipn (S (pos - start)) idxs) = (pc s idxs - 1)%nat /\ nth_error idxs (pos - start) = Some d.
Proof.
  revert start; induction idxs as [|i t IH]; intros start H; simpl in H; [discriminate|].
  assert (Hpc : pc s (i :: t) = ((if playable (get_seat s i) then 1 else 0) + pc s t)%nat).
  { unfold pc. cbn [filter]. unfold pl at 1. destruct (playable (get_seat s i)); reflexivity. }
  destruct (playable (get_seat s i)) eqn:E.
  - inversion H; subst. rewrite Nat.sub_diag. cbn [skipn nth_error]. rewrite Hpc. split; [lia|reflexivity].
  - pose proof (find_active_spec s t (S start) d pos H) as (Hle & _).
    destruct (IH (S start) H) as [I1 I2].
    replace (pos - start)%nat with (S (pos - S start)) by lia.
    change (skipn (S (S (pos - S start))) (i :: t)) with (skipn (S (pos - S start)) t).
    change (nth_error (i :: t) (S (pos - S start))) with (nth_error t (pos - S start)).
    split; [|exact I2]. rewrite I1, Hpc. reflexivity.
Qed.

(* activating seats never makes a playable seat unplayable *)
Lemma pl_upd_activate s i j : pl s j = true -> pl (upd_seat s i activate) j = true.
Proof.
  unfold pl, get_seat, upd_seat, set_seats. simpl. intros H.
  destruct (Nat.eq_dec i j) as [->|Hne].
  - destruct (Nat.lt_ge_cases j (length (sm_seats s))) as [Hlt|Hge].
    + rewrite nth_update_nth_same by exact Hlt. unfold playable in *. simpl.
      apply andb_prop in H as [H1 H2]. apply andb_prop in H1 as [_ H1]. rewrite H1, H2. reflexivity.
    + rewrite nth_overflow in H by exact Hge. discriminate.
  - rewrite nth_update_nth_other by exact Hne. exact H.
Qed.

Lemma pl_activate_all s idxs j : pl s j = true -> pl (activate_all s idxs) j = true.
Proof.
  unfold activate_all. revert s; induction idxs as [|i t IH]; intros s H; simpl; [exact H|].
  apply IH. apply pl_upd_activate. exact H.
Qed.

Lemma pc_mono s s' idxs : (forall j, pl s j = true -> pl s' j = true) -> (pc s idxs <= pc s' idxs)%nat.
Proof.
  intros H. unfold pc. induction idxs as [|i t IH]; simpl; [lia|].
  destruct (pl s i) eqn:E; [rewrite (H i E); simpl; lia|]. destruct (pl s' i); simpl; lia.
Qed.

Lemma sm_max_upd s i f : sm_max (upd_seat s i f) = sm_max s.
Proof. unfold sm_max, upd_seat, set_seats. simpl. apply update_nth_length. Qed.

Lemma sm_max_activate_all s idxs : sm_max (activate_all s idxs) = sm_max s.
Proof.
  unfold activate_all. revert s; induction idxs as [|i t IH]; intros s; simpl; [reflexivity|].
  rewrite IH. apply sm_max_upd.
Qed.

Lemma playable_count_mono s s' :
  sm_max s' = sm_max s -> (forall j, pl s j = true -> pl s' j = true) -> (playable_count s <= playable_count s')%nat.
Proof. intros Hm H. rewrite !playable_count_pc, Hm. apply pc_mono. exact H. Qed.

(* ---------- the button (C17) ---------- *)
(* d' is the first playable seat clockwise strictly after d (from seat 0 when there is no dealer yet) *)
Definition scan_list (s : smgr) : list nat :=
  match sm_dealer s with None => normalized s 0 | Some d => tl (normalized s d) end.

Definition first_playable_after (s : smgr) (d' : nat) : Prop :=
  exists pre post, scan_list s = pre ++ d' :: post /\ pl s d' = true /\ forall i, In i pre -> pl s i = false.

Lemma nth_error_split {A} (l : list A) n x : nth_error l n = Some x -> exists pre post, l = pre ++ x :: post /\ length pre = n.
Proof.
  revert l; induction n as [|n IH]; intros [|y t] H; simpl in H; try discriminate.
  - injection H as ->. exists [], t. auto.
  - destruct (IH t H) as (pre & post & -> & Hl). exists (y :: pre), post. simpl. auto.
Qed.

Lemma find_active_first s idxs d pos :
  find_active s idxs 0 = Some (d, pos) ->
  exists pre post, idxs = pre ++ d :: post /\ length pre = pos /\ pl s d = true /\ forall i, In i pre -> pl s i = false.
Proof.
  intros H. destruct (find_active_spec s idxs 0 d pos H) as (_ & Hn & Hp & Hbefore).
  rewrite Nat.sub_0_r in *. destruct (nth_error_split idxs pos d Hn) as (pre & post & -> & Hl).
  exists pre, post. repeat split; try assumption.
  intros i Hi. destruct (In_nth _ _ 0%nat Hi) as [k [Hk Hnk]].
  apply (Hbefore k); [lia|]. rewrite nth_error_app1 by exact Hk. rewrite <- Hnk. apply nth_error_nth'. exact Hk.
Qed.

Lemma tl_normalized_pc s d : (d < sm_max s)%nat -> pc s (tl (normalized s d)) = (playable_count s - (if pl s d then 1 else 0))%nat.
Proof.
  intros Hd. pose proof (pc_normalized s d) as H. unfold normalized, rotate in *.
  assert (Hsk : skipn d (seq 0 (sm_max s)) = d :: seq (S d) (sm_max s - S d)).
  { clear H. replace (sm_max s) with (d + S (sm_max s - S d))%nat at 1 by lia.
    rewrite seq_app. simpl. rewrite skipn_app, seq_length, Nat.sub_diag. simpl.
    rewrite skipn_all2 by (rewrite seq_length; lia). reflexivity. }
  rewrite Hsk in *. simpl in *. unfold pc in *. simpl in H. fold (pl s d) in H. destruct (pl s d); simpl in H; lia.
Qed.

Theorem next_dealer_first_playable s :
  (2 <= playable_count s)%nat -> (forall d, sm_dealer s = Some d -> (d < sm_max s)%nat) ->
  exists d', snd (next_dealer s) = Some d' /\ first_playable_after s d' /\
             sm_dealer (fst (next_dealer s)) = Some d' /\
             (forall j, pl s j = true -> pl (fst (next_dealer s)) j = true) /\
             sm_max (fst (next_dealer s)) = sm_max s.
Proof.
  intros Hc Hd. unfold next_dealer.
  replace (Nat.eqb (playable_count s) 1) with false by (symmetry; apply Nat.eqb_neq; lia).
  fold (scan_list s).
  assert (Hpos : (0 < pc s (scan_list s))%nat).
  { unfold scan_list. destruct (sm_dealer s) as [d|] eqn:E.
    - rewrite (tl_normalized_pc s d (Hd d eq_refl)). destruct (pl s d); lia.
    - rewrite pc_normalized. lia. }
  destruct (find_active_some s (scan_list s) 0 Hpos) as (d' & pos & Ef). rewrite Ef. cbn [fst snd].
  exists d'. split; [reflexivity|]. split.
  - destruct (find_active_first s _ d' pos Ef) as (pre & post & E & _ & Hp & Hb). exists pre, post. auto.
  - split; [reflexivity|]. split.
    + intros j Hj. unfold pl in *. simpl. apply (pl_activate_all s (firstn pos (scan_list s)) j Hj).
    + unfold sm_max. simpl. apply (sm_max_activate_all s).
Qed.

(* ---------- Next never crashes (C18) and succeeds with two playable seats (C17) ---------- *)
Lemma normalized_head s d : (d < sm_max s)%nat -> normalized s d = d :: tl (normalized s d).
Proof.
  intros Hd. unfold normalized, rotate.
  assert (Hsk : skipn d (seq 0 (sm_max s)) = d :: seq (S d) (sm_max s - S d)).
  { replace (sm_max s) with (d + S (sm_max s - S d))%nat at 1 by lia.
    rewrite seq_app. simpl. rewrite skipn_app, seq_length, Nat.sub_diag. simpl.
    rewrite skipn_all2 by (rewrite seq_length; lia). reflexivity. }
  rewrite Hsk. reflexivity.
Qed.

Lemma normalized_in s d i : In i (normalized s d) -> (i < sm_max s)%nat.
Proof. intros H. apply (Permutation_in _ (rotate_perm d _)) in H. apply in_seq in H. lia. Qed.

Lemma find_active_in s idxs start d pos : find_active s idxs start = Some (d, pos) -> In d idxs /\ pl s d = true.
Proof.
  intros H. destruct (find_active_spec s idxs start d pos H) as (_ & Hn & Hp & _).
  split; [eapply nth_error_In; exact Hn|exact Hp].
Qed.

Lemma tl_in {A} (l : list A) x : In x (tl l) -> In x l.
Proof. destruct l; simpl; auto. Qed.

Lemma first_playable_spec l : forall i d, first_playable l i = Some d ->
  (i <= d < i + length l)%nat /\ playable (nth (d - i) l (mkSeat false false false)) = true.
Proof.
  induction l as [|x t IH]; intros i d H; simpl in H; [discriminate|].
  destruct (playable x) eqn:E.
  - injection H as <-. rewrite Nat.sub_diag. simpl. split; [lia|exact E].
  - destruct (IH (S i) d H) as [H1 H2]. split; [simpl; lia|].
    replace (d - i)%nat with (S (d - S i)) by lia. exact H2.
Qed.

Lemma tl_skipn {A} i : forall l : list A, tl (skipn i l) = skipn (S i) l.
Proof.
  induction i as [|i IH]; intros [|x t]; try reflexivity.
  change (skipn (S i) (x :: t)) with (skipn i t). change (skipn (S (S i)) (x :: t)) with (skipn (S i) t). apply IH.
Qed.

Lemma renew_some s d :
  pl s d = true -> (d < sm_max s)%nat -> (2 <= playable_count s)%nat -> renew s d <> None.
Proof.
  intros Hp Hd Hc. unfold renew.
  pose proof (tl_normalized_pc s d Hd) as Htl. rewrite Hp in Htl.
  destruct (Nat.eqb (playable_count s) 2) eqn:E2.
  - apply Nat.eqb_eq in E2.
    destruct (find_active_some s (tl (normalized s d)) 0) as (bb & i & Ef); [lia|]. rewrite Ef. discriminate.
  - apply Nat.eqb_neq in E2.
    destruct (find_active_some s (tl (normalized s d)) 0) as (sb & i & Ef); [lia|]. rewrite Ef.
    destruct (find_active_rest s _ 0 sb i Ef) as [R1 R2]. rewrite Nat.sub_0_r in *.
    rewrite tl_skipn.
    destruct (find_active_some s (skipn (S i) (tl (normalized s d))) 0) as (bb & j & Eb); [lia|]. rewrite Eb. discriminate.
Qed.

Lemma sm_max_set_dealer s d : sm_max (set_dealer s d) = sm_max s. Proof. reflexivity. Qed.
Lemma pl_set_dealer s d j : pl (set_dealer s d) j = pl s j. Proof. reflexivity. Qed.

Lemma next_dealer_some s s1 d :
  next_dealer s = (s1, Some d) ->
  pl s1 d = true /\ (d < sm_max s1)%nat /\ sm_max s1 = sm_max s /\ sm_dealer s1 = Some d.
Proof.
  unfold next_dealer. destruct (Nat.eqb (playable_count s) 1).
  - destruct (Nat.leb (count_if nonempty s) 1); [discriminate|].
    destruct (first_playable (sm_seats s) 0) as [d0|] eqn:Ef; [|discriminate].
    intros H. injection H as <- <-.
    destruct (first_playable_spec _ _ _ Ef) as [Hr Hpl]. rewrite Nat.sub_0_r in Hpl. simpl in Hr.
    set (s0 := set_dealer s (Some d0)).
    assert (Hmono : forall idxs s', sm_max s' = sm_max s0 -> pl s' d0 = true ->
               let r := fold_left (fun s i => if nonempty (get_seat s i) then upd_seat s i activate else s) idxs s' in
               pl r d0 = true /\ sm_max r = sm_max s0 /\ sm_dealer r = sm_dealer s').
    { induction idxs as [|i t IH]; intros s' Hm Hp; simpl; [auto|].
      destruct (nonempty (get_seat s' i)).
      - destruct (IH (upd_seat s' i activate)) as (I1 & I2 & I3); [rewrite sm_max_upd; exact Hm|apply pl_upd_activate; exact Hp|]. auto.
      - apply IH; assumption. }
    destruct (Hmono (tl (normalized s0 d0)) s0 eq_refl) as (M1 & M2 & M3); [exact Hpl|].
    split; [exact M1|]. split; [rewrite M2; unfold sm_max, s0; simpl; lia|]. split; [exact M2|exact M3].
  - set (seats := match sm_dealer s with None => normalized s 0 | Some d0 => tl (normalized s d0) end).
    assert (Hin : forall i, In i seats -> (i < sm_max s)%nat).
    { intros i Hi. unfold seats in Hi. destruct (sm_dealer s); [apply tl_in in Hi|]; eapply normalized_in; exact Hi. }
    destruct (find_active s seats 0) as [[d' pos]|] eqn:Ef.
    + intros H. injection H as <- <-. destruct (find_active_in _ _ _ _ _ Ef) as [Hi Hp].
      rewrite pl_set_dealer, sm_max_set_dealer, sm_max_activate_all.
      split; [apply (pl_activate_all s _ d' Hp)|]. split; [apply Hin; exact Hi|]. split; reflexivity.
    + destruct (find_active (activate_all s seats) seats 0) as [[d' pos]|] eqn:Ef2; [|discriminate].
      intros H. injection H as <- <-. destruct (find_active_in _ _ _ _ _ Ef2) as [Hi Hp].
      rewrite pl_set_dealer, sm_max_set_dealer, sm_max_activate_all.
      split; [exact Hp|]. split; [apply Hin; exact Hi|]. split; reflexivity.
Qed.

Theorem sm_next_never_panics s : snd (sm_next s) <> SPanic.
Proof.
  unfold sm_next. destruct (next_dealer s) as [s1 [d|]] eqn:E; [|simpl; discriminate].
  destruct (next_dealer_some s s1 d E) as (Hp & Hd & _).
  destruct (Nat.ltb (playable_count s1) 2) eqn:E2; [simpl; discriminate|]. apply Nat.ltb_ge in E2.
  destruct (renew s1 d) eqn:Er; [simpl; discriminate|]. exfalso. exact (renew_some s1 d Hp Hd E2 Er).
Qed.

Theorem sm_step_never_panics s o : snd (fst (sm_step s o)) <> SPanic.
Proof.
  destruct o as [id c|id|id|id|]; simpl.
  - destruct ((zn (sm_max s) <=? id) || (id <? -1)); [simpl; discriminate|].
    destruct (-1 <? id).
    + unfold do_join. destruct (s_occ _); simpl; discriminate.
    + destruct (_ && _); [simpl; discriminate|]. destruct (in_range s c); [|simpl; discriminate].
      destruct (if Nat.eqb _ 0 then _ else _); [|simpl; discriminate]. unfold do_join. destruct (s_occ _); simpl; discriminate.
  - destruct (in_range s id); simpl; discriminate.
  - destruct (in_range s id); simpl; discriminate.
  - destruct (in_range s id); [destruct (s_occ _)|]; simpl; discriminate.
  - pose proof (sm_next_never_panics s) as H. destruct (sm_next s) as [s' o']. simpl in *. exact H.
Qed.

(* with at least two playable seats the move succeeds and the button is on the first of them
   clockwise from the previous dealer *)
Theorem sm_next_moves_button s :
  (2 <= playable_count s)%nat -> (forall d, sm_dealer s = Some d -> (d < sm_max s)%nat) ->
  exists s' d', sm_next s = (s', SOk) /\ sm_dealer s' = Some d' /\ first_playable_after s d'.
Proof.
  intros Hc Hd. destruct (next_dealer_first_playable s Hc Hd) as (d' & Hs & Hf & Hdl & Hmono & Hmax).
  unfold sm_next. destruct (next_dealer s) as [s1 r] eqn:E. simpl in *. subst r.
  destruct (next_dealer_some s s1 d' E) as (Hp & Hr & _ & _).
  assert (Hc1 : (2 <= playable_count s1)%nat) by (pose proof (playable_count_mono s s1 Hmax Hmono); lia).
  replace (Nat.ltb (playable_count s1) 2) with false by (symmetry; apply Nat.ltb_ge; exact Hc1).
  destruct (renew s1 d') as [s2|] eqn:Er; [|exfalso; exact (renew_some s1 d' Hp Hr Hc1 Er)].
  exists s2, d'. split; [reflexivity|]. split; [|exact Hf].
  (* renew keeps the dealer *)
  unfold renew in Er.
  destruct (if Nat.eqb (playable_count s1) 2 then _ else _) as [[sb seats]|]; [|discriminate].
  destruct (find_active s1 (tl seats) 0) as [[bb i]|]; [|discriminate]. injection Er as <-.
  assert (G1 : forall idxs s0, sm_dealer (activate_all s0 idxs) = sm_dealer s0).
  { unfold activate_all. induction idxs as [|k t IH]; intros s0; simpl; [reflexivity|]. rewrite IH. reflexivity. }
  assert (G2 : forall idxs s0 b, sm_dealer (deactivate_until s0 idxs b) = sm_dealer s0).
  { induction idxs as [|k t IH]; intros s0 b; simpl; [reflexivity|]. destruct (Nat.eqb k b); [reflexivity|].
    rewrite IH. destruct (s_occ _); reflexivity. }
  rewrite G1, G2. simpl. exact Hdl.
Qed.

(* ---------- positions land on playable seats (C08) ---------- *)
Lemma pl_deactivate_until s idxs bb j : pl s j = true -> pl (deactivate_until s idxs bb) j = true.
Proof.
  revert s; induction idxs as [|i t IH]; intros s H; simpl; [exact H|].
  destruct (Nat.eqb i bb); [exact H|]. apply IH.
  destruct (s_occ (get_seat s i)) eqn:E; [exact H|].
  unfold pl, get_seat, upd_seat, set_seats in *. simpl.
  destruct (Nat.eq_dec i j) as [->|Hne].
  - exfalso. unfold playable in H. rewrite E in H. rewrite andb_false_r in H. discriminate.
  - rewrite nth_update_nth_other by exact Hne. exact H.
Qed.

Lemma renew_positions s d s' :
  renew s d = Some s' -> pl s d = true ->
  exists sb bb, sm_sb s' = Some sb /\ sm_bb s' = Some bb /\ pl s' sb = true /\ pl s' bb = true /\ pl s' d = true /\
                (forall j, pl s j = true -> pl s' j = true).
Proof.
  unfold renew. intros H Hd.
  destruct (if Nat.eqb (playable_count s) 2 then _ else _) as [[sb seats]|] eqn:E1; [|discriminate].
  destruct (find_active s (tl seats) 0) as [[bb i]|] eqn:E2; [|discriminate]. injection H as <-.
  assert (Hsb : pl s sb = true).
  { destruct (Nat.eqb (playable_count s) 2); [injection E1 as <- _; exact Hd|].
    destruct (find_active s (tl (normalized s d)) 0) as [[sb0 i0]|] eqn:E3; [|discriminate].
    injection E1 as <- _. apply (find_active_in _ _ _ _ _ E3). }
  assert (Hbb : pl s bb = true) by apply (find_active_in _ _ _ _ _ E2).
  set (s1 := mkSM (sm_seats s) (sm_dealer s) (Some sb) (Some bb)).
  assert (Hmono : forall j, pl s j = true -> pl (activate_all (deactivate_until s1 (normalized s d) bb) (tl (skipn i (tl seats)))) j = true).
  { intros j Hj. apply pl_activate_all, pl_deactivate_until. exact Hj. }
  assert (G1 : forall idxs s0, sm_sb (activate_all s0 idxs) = sm_sb s0 /\ sm_bb (activate_all s0 idxs) = sm_bb s0).
  { unfold activate_all. induction idxs as [|k t IH]; intros s0; simpl; [auto|]. destruct (IH (upd_seat s0 k activate)) as [A B]. auto. }
  assert (G2 : forall idxs s0 b, sm_sb (deactivate_until s0 idxs b) = sm_sb s0 /\ sm_bb (deactivate_until s0 idxs b) = sm_bb s0).
  { induction idxs as [|k t IH]; intros s0 b; simpl; [auto|]. destruct (Nat.eqb k b); [auto|].
    destruct (s_occ _); [apply IH|]. destruct (IH (upd_seat s0 k deactivate) b) as [A B]. auto. }
  exists sb, bb.
  destruct (G1 (tl (skipn i (tl seats))) (deactivate_until s1 (normalized s d) bb)) as [A1 A2].
  destruct (G2 (normalized s d) s1 bb) as [B1 B2].
  rewrite A1, A2, B1, B2. split; [reflexivity|]. split; [reflexivity|].
  split; [apply Hmono; exact Hsb|]. split; [apply Hmono; exact Hbb|]. split; [apply Hmono; exact Hd|exact Hmono].
Qed.

Theorem sm_next_positions s s' :
  sm_next s = (s', SOk) ->
  exists d sb bb, sm_dealer s' = Some d /\ sm_sb s' = Some sb /\ sm_bb s' = Some bb /\
                  pl s' d = true /\ pl s' sb = true /\ pl s' bb = true.
Proof.
  unfold sm_next. destruct (next_dealer s) as [s1 [d|]] eqn:E; [|discriminate].
  destruct (next_dealer_some s s1 d E) as (Hp & Hd & _ & Hdl).
  destruct (Nat.ltb (playable_count s1) 2); [discriminate|].
  destruct (renew s1 d) as [s2|] eqn:Er; [|discriminate]. intros H. injection H as <-.
  destruct (renew_positions s1 d s2 Er Hp) as (sb & bb & S1 & S2 & P1 & P2 & P3 & _).
  exists d, sb, bb. repeat split; try assumption.
  (* renew keeps the dealer *)
  unfold renew in Er.
  destruct (if Nat.eqb (playable_count s1) 2 then _ else _) as [[sb0 seats]|]; [|discriminate].
  destruct (find_active s1 (tl seats) 0) as [[bb0 i]|]; [|discriminate]. injection Er as <-.
  assert (G1 : forall idxs s0, sm_dealer (activate_all s0 idxs) = sm_dealer s0).
  { unfold activate_all. induction idxs as [|k t IH]; intros s0; simpl; [reflexivity|]. rewrite IH. reflexivity. }
  assert (G2 : forall idxs s0 b, sm_dealer (deactivate_until s0 idxs b) = sm_dealer s0).
  { induction idxs as [|k t IH]; intros s0 b; simpl; [reflexivity|]. destruct (Nat.eqb k b); [reflexivity|].
    rewrite IH. destruct (s_occ _); reflexivity. }
  rewrite G1, G2. simpl. exact Hdl.
Qed.

(* ---------- the dealer is always a seat of the table, over any history ---------- *)
Definition dealer_ok (s : smgr) : Prop := forall d, sm_dealer s = Some d -> (d < sm_max s)%nat.

Lemma sm_step_dealer_ok s o : dealer_ok s -> dealer_ok (fst (fst (sm_step s o))).
Proof.
  intros H. destruct o as [id c|id|id|id|]; simpl.
  - destruct ((zn (sm_max s) <=? id) || (id <? -1)); [exact H|].
    assert (Hj : forall i, dealer_ok (fst (fst (do_join s i)))).
    { intros i. unfold do_join. destruct (s_occ _); [exact H|]. simpl. intros d Hd. rewrite sm_max_upd. apply H. exact Hd. }
    destruct (-1 <? id); [apply Hj|].
    destruct (_ && _); [exact H|]. destruct (in_range s c); [|exact H].
    destruct (if Nat.eqb _ 0 then _ else _); [apply Hj|exact H].
  - destruct (in_range s id); [|exact H]. simpl. intros d Hd. rewrite sm_max_upd. apply H. exact Hd.
  - destruct (in_range s id); [|exact H]. simpl. intros d Hd. rewrite sm_max_upd. apply H. exact Hd.
  - destruct (in_range s id); [|exact H]. destruct (s_occ _); [|exact H]. simpl. intros d Hd. rewrite sm_max_upd. apply H. exact Hd.
  - destruct (sm_next s) as [s' o'] eqn:E. simpl.
    unfold sm_next in E. destruct (next_dealer s) as [s1 [d|]] eqn:En.
    + destruct (next_dealer_some s s1 d En) as (_ & Hd & _ & Hdl).
      assert (H1 : dealer_ok s1) by (intros d0 Hd0; rewrite Hdl in Hd0; injection Hd0 as <-; exact Hd).
      destruct (Nat.ltb (playable_count s1) 2); [injection E as <- _; exact H1|].
      destruct (renew s1 d) as [s2|] eqn:Er; [|injection E as <- _; exact H1].
      injection E as <- _.
      (* renew changes neither the dealer nor the number of seats *)
      unfold renew in Er.
      destruct (if Nat.eqb (playable_count s1) 2 then _ else _) as [[sb0 seats]|]; [|discriminate].
      destruct (find_active s1 (tl seats) 0) as [[bb0 i]|]; [|discriminate]. injection Er as <-.
      assert (G1 : forall idxs s0, sm_dealer (activate_all s0 idxs) = sm_dealer s0).
      { unfold activate_all. induction idxs as [|k t IH]; intros s0; simpl; [reflexivity|]. rewrite IH. reflexivity. }
      assert (G2 : forall idxs s0 b, sm_dealer (deactivate_until s0 idxs b) = sm_dealer s0 /\ sm_max (deactivate_until s0 idxs b) = sm_max s0).
      { induction idxs as [|k t IH]; intros s0 b; simpl; [auto|]. destruct (Nat.eqb k b); [auto|].
        destruct (s_occ _); [apply IH|]. destruct (IH (upd_seat s0 k deactivate) b) as [A B]. rewrite A, B, sm_max_upd. auto. }
      intros d0 Hd0. rewrite G1 in Hd0. rewrite sm_max_activate_all.
      destruct (G2 (normalized s1 d) (mkSM (sm_seats s1) (sm_dealer s1) (Some sb0) (Some bb0)) bb0) as [A B].
      rewrite A in Hd0. rewrite B. simpl in *. apply H1. exact Hd0.
    + injection E as <- _.
      (* next_dealer returned nil: the dealer is unchanged or cleared *)
      unfold next_dealer in En. destruct (Nat.eqb (playable_count s) 1).
      * destruct (Nat.leb _ 1); [injection En as <-; exact H|]. destruct (first_playable _ 0); [discriminate|injection En as <-; exact H].
      * destruct (find_active s _ 0) as [[d' pos]|]; [discriminate|].
        destruct (find_active (activate_all s _) _ 0) as [[d' pos]|]; [discriminate|].
        injection En as <-. intros d0 Hd0. simpl in Hd0. discriminate.
Qed.

Lemma sm_run_dealer_ok n ops : dealer_ok (sm_run n ops).
Proof.
  unfold sm_run. assert (H0 : dealer_ok (sm_init n)) by (intros d Hd; discriminate).
  revert H0. generalize (sm_init n). induction ops as [|o t IH]; intros s H; simpl; [exact H|].
  apply IH. apply sm_step_dealer_ok. exact H.
Qed.

(* ---------- the blinds rule (C08) ---------- *)
Lemma pl_activate_all_inv s idxs j : pl (activate_all s idxs) j = true -> pl s j = true \/ In j idxs.
Proof.
  unfold activate_all. revert s; induction idxs as [|i t IH]; intros s H; simpl in *; [now left|].
  destruct (IH _ H) as [H1|H1]; [|right; now right].
  destruct (Nat.eq_dec i j) as [->|Hne]; [right; now left|]. left.
  unfold pl, get_seat, upd_seat, set_seats in *. simpl in H1. rewrite nth_update_nth_other in H1 by exact Hne. exact H1.
Qed.

Lemma pl_deactivate_until_inv s idxs bb j : pl (deactivate_until s idxs bb) j = true -> pl s j = true.
Proof.
  revert s; induction idxs as [|i t IH]; intros s H; simpl in H; [exact H|].
  destruct (Nat.eqb i bb); [exact H|]. apply IH in H.
  destruct (s_occ (get_seat s i)) eqn:E; [exact H|].
  unfold pl, get_seat, upd_seat, set_seats in *. simpl in H.
  destruct (Nat.eq_dec i j) as [->|Hne].
  - destruct (Nat.lt_ge_cases j (length (sm_seats s))) as [Hl|Hl].
    + rewrite nth_update_nth_same in H by exact Hl. unfold playable, deactivate in H. simpl in H. discriminate.
    + rewrite nth_overflow in H by (rewrite update_nth_length; exact Hl). discriminate.
  - rewrite nth_update_nth_other in H by exact Hne. exact H.
Qed.

Lemma skipn_app_exact {A} (pre : list A) x post : skipn (length pre) (pre ++ x :: post) = x :: post.
Proof. induction pre as [|a pre IH]; simpl; [reflexivity|exact IH]. Qed.

Lemma normalized_nodup s d : NoDup (normalized s d).
Proof. unfold normalized. apply (Permutation_NoDup (Permutation_sym (rotate_perm d _))). apply seq_NoDup. Qed.

Lemma NoDup_tl {A} (l : list A) : NoDup l -> NoDup (tl l).
Proof. destruct l; simpl; [auto|]. intros H. inversion H; assumption. Qed.

Lemma NoDup_app_disj {A} (a b : list A) y : NoDup (a ++ b) -> In y a -> In y b -> False.
Proof.
  induction a as [|x a IH]; simpl; [intros _ []|]. intros H [->|Hy] Hb; inversion H as [|? ? Hn H']; subst.
  - apply Hn. apply in_or_app. now right.
  - apply IH; assumption.
Qed.

(* small blind and big blind in the state that renewSeatStatus returns *)
Theorem renew_rule s d s' :
  renew s d = Some s' -> pl s d = true ->
  let rest := tl (normalized s d) in
  (playable_count s = 2%nat /\ sm_sb s' = Some d /\
   exists pre bb post, rest = pre ++ bb :: post /\ sm_bb s' = Some bb /\ pl s' bb = true /\ forall y, In y pre -> pl s' y = false) \/
  (playable_count s <> 2%nat /\
   exists pre sb mid bb post, rest = pre ++ sb :: mid ++ bb :: post /\ sm_sb s' = Some sb /\ sm_bb s' = Some bb /\
     pl s' sb = true /\ pl s' bb = true /\ forall y, In y (pre ++ mid) -> pl s' y = false).
Proof.
  intros H Hd rest. pose proof (NoDup_tl _ (normalized_nodup s d)) as Hnd. fold rest in Hnd.
  destruct (renew_positions s d s' H Hd) as (sb0 & bb0 & S1 & S2 & P1 & P2 & _ & _).
  unfold renew in H. fold rest in H.
  assert (G1 : forall idxs s0, sm_sb (activate_all s0 idxs) = sm_sb s0 /\ sm_bb (activate_all s0 idxs) = sm_bb s0).
  { unfold activate_all. induction idxs as [|k t IH]; intros s0; simpl; [auto|]. destruct (IH (upd_seat s0 k activate)) as [A B]. auto. }
  assert (G2 : forall idxs s0 b, sm_sb (deactivate_until s0 idxs b) = sm_sb s0 /\ sm_bb (deactivate_until s0 idxs b) = sm_bb s0).
  { induction idxs as [|k t IH]; intros s0 b; simpl; [auto|]. destruct (Nat.eqb k b); [auto|].
    destruct (s_occ _); [apply IH|]. destruct (IH (upd_seat s0 k deactivate) b) as [A B]. auto. }
  (* a seat that was not playable and is not among the re-activated ones is still not playable *)
  assert (Still : forall sbx bbx acts y, pl s y = false -> ~ In y acts ->
            pl (activate_all (deactivate_until (mkSM (sm_seats s) (sm_dealer s) (Some sbx) (Some bbx)) (normalized s d) bbx) acts) y = false).
  { intros sbx bbx acts y Hy Hn. destruct (pl (activate_all _ acts) y) eqn:E; [|reflexivity]. exfalso.
    apply pl_activate_all_inv in E as [E|E]; [|contradiction]. apply pl_deactivate_until_inv in E.
    unfold pl, get_seat in *. simpl in E. rewrite E in Hy. discriminate. }
  destruct (Nat.eqb (playable_count s) 2) eqn:E2.
  - apply Nat.eqb_eq in E2. left. split; [exact E2|].
    change (tl (normalized s d)) with rest in H.
    destruct (find_active s rest 0) as [[bb i]|] eqn:Eb; [|discriminate]. injection H as <-.
    destruct (find_active_first s rest bb i Eb) as (pre & post & Er & Hl & Hp & Hb).
    destruct (G1 (tl (skipn i rest)) (deactivate_until (mkSM (sm_seats s) (sm_dealer s) (Some d) (Some bb)) (normalized s d) bb)) as [A1 A2].
    destruct (G2 (normalized s d) (mkSM (sm_seats s) (sm_dealer s) (Some d) (Some bb)) bb) as [B1 B2].
    split; [rewrite A1, B1; reflexivity|]. exists pre, bb, post. split; [exact Er|]. split; [rewrite A2, B2; reflexivity|].
    split; [apply pl_activate_all, pl_deactivate_until; exact Hp|].
    intros y Hy. apply Still; [apply Hb; exact Hy|].
    rewrite Er, <- Hl, skipn_app_exact. cbn [tl]. intros Hin. rewrite Er in Hnd.
    apply (NoDup_app_disj _ _ _ Hnd Hy). now right.
  - apply Nat.eqb_neq in E2. right. split; [exact E2|].
    destruct (find_active s rest 0) as [[sb i]|] eqn:Es; [|discriminate].
    destruct (find_active_first s rest sb i Es) as (pre & post1 & Er & Hl & Hps & Hbs).
    assert (Hsk : skipn i rest = sb :: post1) by (rewrite Er, <- Hl; apply skipn_app_exact).
    rewrite Hsk in H. cbn [tl] in H.
    destruct (find_active s post1 0) as [[bb j]|] eqn:Eb; [|discriminate]. injection H as <-.
    destruct (find_active_first s post1 bb j Eb) as (mid & post & Er2 & Hl2 & Hpb & Hbb).
    assert (Hsk2 : skipn j post1 = bb :: post) by (rewrite Er2, <- Hl2; apply skipn_app_exact).
    rewrite Hsk2. cbn [tl].
    destruct (G1 post (deactivate_until (mkSM (sm_seats s) (sm_dealer s) (Some sb) (Some bb)) (normalized s d) bb)) as [A1 A2].
    destruct (G2 (normalized s d) (mkSM (sm_seats s) (sm_dealer s) (Some sb) (Some bb)) bb) as [B1 B2].
    exists pre, sb, mid, bb, post. split; [rewrite Er, Er2; reflexivity|]. split; [rewrite A1, B1; reflexivity|]. split; [rewrite A2, B2; reflexivity|].
    split; [apply pl_activate_all, pl_deactivate_until; exact Hps|]. split; [apply pl_activate_all, pl_deactivate_until; exact Hpb|].
    intros y Hy. apply Still.
    + apply in_app_or in Hy as [Hy|Hy]; [apply Hbs; exact Hy|apply Hbb; exact Hy].
    + intros Hin. rewrite Er, Er2 in Hnd.
      (* rest = pre ++ sb :: mid ++ bb :: post has no repetition, y is in pre ++ mid and in post *)
      assert (Hperm : Permutation (pre ++ sb :: mid ++ bb :: post) ((pre ++ mid) ++ (sb :: bb :: post))).
      { rewrite <- app_assoc. apply Permutation_app_head. apply Permutation_middle. }
      apply (Permutation_NoDup Hperm) in Hnd. apply (NoDup_app_disj _ _ _ Hnd Hy). right. right. exact Hin.
Qed.

(* the rule after a successful move to the next hand.  two_handed: exactly two seats could play when the
   blinds were placed (that is, in the state right after the button has moved). *)
Theorem sm_next_rule s s' :
  sm_next s = (s', SOk) ->
  exists d, sm_dealer s' = Some d /\
    let rest := tl (normalized s' d) in
    let two_handed := playable_count (fst (next_dealer s)) = 2%nat in
    (two_handed /\ sm_sb s' = Some d /\
     exists pre bb post, rest = pre ++ bb :: post /\ sm_bb s' = Some bb /\ pl s' bb = true /\ forall y, In y pre -> pl s' y = false) \/
    (~ two_handed /\
     exists pre sb mid bb post, rest = pre ++ sb :: mid ++ bb :: post /\ sm_sb s' = Some sb /\ sm_bb s' = Some bb /\
       pl s' sb = true /\ pl s' bb = true /\ forall y, In y (pre ++ mid) -> pl s' y = false).
Proof.
  intros H. destruct (sm_next_positions s s' H) as (d & sb0 & bb0 & Hd & _).
  unfold sm_next in H. destruct (next_dealer s) as [s1 [d1|]] eqn:E; [|discriminate].
  destruct (next_dealer_some s s1 d1 E) as (Hp & Hlt & Hmax & Hdl).
  destruct (Nat.ltb (playable_count s1) 2); [discriminate|].
  destruct (renew s1 d1) as [s2|] eqn:Er; [|discriminate]. injection H as <-.
  assert (Hm2 : sm_max s2 = sm_max s1).
  { pose proof (renew_occ s1 d1 s2 Er) as Ho. unfold sm_max. rewrite <- (map_length s_occ (sm_seats s2)), Ho, map_length. reflexivity. }
  (* renew keeps the dealer *)
  assert (Hd2 : sm_dealer s2 = Some d1).
  { pose proof Er as Er'. unfold renew in Er'.
    destruct (if Nat.eqb (playable_count s1) 2 then _ else _) as [[sbx seats]|]; [|discriminate].
    destruct (find_active s1 (tl seats) 0) as [[bbx i]|]; [|discriminate]. injection Er' as <-.
    assert (G1 : forall idxs s0, sm_dealer (activate_all s0 idxs) = sm_dealer s0).
    { unfold activate_all. induction idxs as [|k t IH]; intros s0; simpl; [reflexivity|]. rewrite IH. reflexivity. }
    assert (G2 : forall idxs s0 b, sm_dealer (deactivate_until s0 idxs b) = sm_dealer s0).
    { induction idxs as [|k t IH]; intros s0 b; simpl; [reflexivity|]. destruct (Nat.eqb k b); [reflexivity|].
      rewrite IH. destruct (s_occ _); reflexivity. }
    rewrite G1, G2. simpl. exact Hdl. }
  exists d1. split; [exact Hd2|]. cbn [fst].
  assert (Hn : normalized s2 d1 = normalized s1 d1) by (unfold normalized; rewrite Hm2; reflexivity).
  rewrite Hn. apply (renew_rule s1 d1 s2 Er Hp).
Qed.

(* ---------- joining "any seat" (C18) ---------- *)
Lemma count_if_zero f s : count_if f s = 0%nat -> forall i, (i < sm_max s)%nat -> f (get_seat s i) = false.
Proof.
  unfold count_if, sm_max, get_seat. intros H i Hi.
  assert (G : forall l : list seat, length (filter f l) = 0%nat -> forall x, In x l -> f x = false).
  { induction l as [|y t IH]; simpl; [intros _ x []|]. destruct (f y) eqn:E; [discriminate|]. intros H0 x [<-|Hx]; [exact E|apply IH; assumption]. }
  apply (G _ H). apply nth_In. exact Hi.
Qed.

Theorem join_any_none_available s c :
  sm_step s (OJoin (-1) c) = (s, SErrNoAvailableSeat, -1) ->
  sm_max s = 0%nat \/ forall i, (i < sm_max s)%nat -> s_occ (get_seat s i) = true \/ s_reserved (get_seat s i) = true.
Proof.
  cbn [sm_step]. destruct ((zn (sm_max s) <=? -1) || (-1 <? -1)) eqn:E0.
  - intros _. left. apply orb_prop in E0 as [E|E]; [apply Z.leb_le in E; unfold zn in E; lia|discriminate].
  - cbn [Z.ltb Z.compare].
    destruct (Nat.eqb (count_if avail_active s) 0 && Nat.eqb (count_if avail_alt s) 0) eqn:E.
    + intros _. right. apply andb_prop in E as [E1 E2]. apply Nat.eqb_eq in E1. apply Nat.eqb_eq in E2.
      intros i Hi. pose proof (count_if_zero _ s E1 i Hi) as A. pose proof (count_if_zero _ s E2 i Hi) as B.
      unfold avail_active, avail_alt in *. destruct (s_reserved (get_seat s i)); [now right|]. destruct (s_occ (get_seat s i)); [now left|].
      destruct (s_active (get_seat s i)); simpl in *; discriminate.
    + destruct (negb (in_range s c)); [intros H; discriminate H|].
      destruct (if Nat.eqb (count_if avail_active s) 0 then avail_alt (get_seat s (Z.to_nat c)) else avail_active (get_seat s (Z.to_nat c))); [|intros H; discriminate H].
      unfold do_join. destruct (s_occ (get_seat s (Z.to_nat c))); intros H; discriminate H.
Qed.

Theorem join_any_takes_a_free_seat s c s' seat :
  sm_step s (OJoin (-1) c) = (s', SOk, seat) ->
  seat = c /\ in_range s c = true /\
  s_occ (get_seat s (Z.to_nat c)) = false /\ s_reserved (get_seat s (Z.to_nat c)) = false /\
  s_occ (get_seat s' (Z.to_nat c)) = true /\ playable (get_seat s' (Z.to_nat c)) = false /\
  forall j, j <> Z.to_nat c -> get_seat s' j = get_seat s j.
Proof.
  cbn [sm_step]. destruct ((zn (sm_max s) <=? -1) || (-1 <? -1)); [intros H; discriminate H|]. cbn [Z.ltb Z.compare].
  destruct (Nat.eqb (count_if avail_active s) 0 && Nat.eqb (count_if avail_alt s) 0); [intros H; discriminate H|].
  destruct (in_range s c) eqn:Er; [|intros H; discriminate H]. cbn [negb].
  destruct (if Nat.eqb (count_if avail_active s) 0 then avail_alt (get_seat s (Z.to_nat c)) else avail_active (get_seat s (Z.to_nat c))) eqn:Ea; [|intros H; discriminate H].
  assert (Hfree : s_occ (get_seat s (Z.to_nat c)) = false /\ s_reserved (get_seat s (Z.to_nat c)) = false).
  { unfold avail_alt, avail_active in Ea. destruct (Nat.eqb _ 0); destruct (s_reserved _), (s_occ _); simpl in Ea; try discriminate; auto. }
  destruct Hfree as [Ho Hr]. unfold do_join. rewrite Ho. intros H. injection H as <- <-.
  pose proof (in_range_lt s c Er) as Hlt.
  split; [rewrite Z2Nat.id; [reflexivity|unfold in_range in Er; apply andb_prop in Er as [E _]; apply Z.leb_le in E; exact E]|].
  split; [reflexivity|]. split; [first [exact Ho|reflexivity]|]. split; [first [exact Hr|reflexivity]|].
  unfold get_seat, upd_seat, set_seats, sm_max in *. cbn [sm_seats].
  split; [rewrite nth_update_nth_same by exact Hlt; reflexivity|].
  split; [rewrite nth_update_nth_same by exact Hlt; unfold playable; cbn; rewrite andb_false_r; reflexivity|].
  intros j Hj. rewrite nth_update_nth_other by (intros E; apply Hj; symmetry; exact E). reflexivity.
Qed.

(* ---------- who becomes active at Next: the newcomer rule (C08) ---------- *)
Lemma get_seat_upd s i f x : (i < sm_max s)%nat -> get_seat (upd_seat s i f) x = if Nat.eqb x i then f (get_seat s i) else get_seat s x.
Proof.
  intros Hi. unfold get_seat, upd_seat, set_seats, sm_max in *. cbn [sm_seats].
  destruct (Nat.eqb x i) eqn:E.
  - apply Nat.eqb_eq in E. subst x. apply nth_update_nth_same. exact Hi.
  - apply Nat.eqb_neq in E. apply nth_update_nth_other. intros H. apply E. symmetry. exact H.
Qed.

Lemma get_seat_upd_out s i f x : (sm_max s <= i)%nat -> get_seat (upd_seat s i f) x = get_seat s x.
Proof.
  intros Hi. unfold get_seat, upd_seat, set_seats, sm_max in *. cbn [sm_seats]. f_equal.
  revert i Hi. induction (sm_seats s) as [|y t IH]; intros i Hi; [destruct i; reflexivity|].
  destruct i; simpl in *; [lia|]. f_equal. apply IH. lia.
Qed.

Lemma activate_all_seat s idxs x :
  (forall i, In i idxs -> (i < sm_max s)%nat) ->
  get_seat (activate_all s idxs) x = if existsb (Nat.eqb x) idxs then activate (get_seat s x) else get_seat s x.
Proof.
  unfold activate_all. revert s. induction idxs as [|i t IH]; intros s Hr; cbn [fold_left existsb]; [reflexivity|].
  rewrite IH by (intros j Hj; rewrite sm_max_upd; apply Hr; now right).
  rewrite get_seat_upd by (apply Hr; now left).
  destruct (Nat.eqb x i) eqn:E; cbn [orb].
  - apply Nat.eqb_eq in E. subst x. destruct (existsb (Nat.eqb i) t); [destruct (get_seat s i); reflexivity|reflexivity].
  - reflexivity.
Qed.

Lemma deactivate_until_occupied s idxs bb x : s_occ (get_seat s x) = true -> get_seat (deactivate_until s idxs bb) x = get_seat s x.
Proof.
  revert s. induction idxs as [|i t IH]; intros s Ho; cbn [deactivate_until]; [reflexivity|].
  destruct (Nat.eqb i bb); [reflexivity|].
  destruct (s_occ (get_seat s i)) eqn:E; [apply IH; exact Ho|].
  destruct (Nat.lt_ge_cases i (sm_max s)) as [Hi|Hi].
  - assert (Hx : get_seat (upd_seat s i deactivate) x = get_seat s x).
    { rewrite get_seat_upd by exact Hi. destruct (Nat.eqb x i) eqn:Ex; [apply Nat.eqb_eq in Ex; subst x; rewrite E in Ho; discriminate|reflexivity]. }
    rewrite IH by (rewrite Hx; exact Ho). exact Hx.
  - assert (Hx : get_seat (upd_seat s i deactivate) x = get_seat s x) by (apply get_seat_upd_out; exact Hi).
    rewrite IH by (rewrite Hx; exact Ho). exact Hx.
Qed.

Definition among (x : nat) (l : list nat) : bool := existsb (Nat.eqb x) l.

(* the seats renewSeatStatus re-activates: those behind the big blind *)
Definition behind_bb (s : smgr) (d : nat) : list nat :=
  let orig := normalized s d in
  let seats := if Nat.eqb (playable_count s) 2 then orig
               else match find_active s (tl orig) 0 with Some (_, i) => skipn i (tl orig) | None => [] end in
  match find_active s (tl seats) 0 with
  | Some (_, i) => tl (skipn i (tl seats))
  | None => []
  end.

Lemma in_skipn {A} (x : A) n l : In x (skipn n l) -> In x l.
Proof. revert l; induction n as [|n IH]; intros l H; [exact H|]. destruct l; [contradiction|]. right. apply IH. exact H. Qed.

Lemma behind_bb_range s d i : In i (behind_bb s d) -> (i < sm_max s)%nat.
Proof.
  unfold behind_bb. intros H.
  assert (G : forall l, (forall j, In j l -> (j < sm_max s)%nat) -> forall j, In j (match find_active s (tl l) 0 with Some (_, k) => tl (skipn k (tl l)) | None => [] end) -> (j < sm_max s)%nat).
  { intros l Hl j Hj. destruct (find_active s (tl l) 0) as [[b k]|]; [|contradiction]. apply Hl. apply tl_in. apply (in_skipn _ k). apply tl_in. exact Hj. }
  revert H. apply G. intros j Hj.
  destruct (Nat.eqb (playable_count s) 2); [apply (normalized_in s d); exact Hj|].
  destruct (find_active s (tl (normalized s d)) 0) as [[b k]|]; [|contradiction].
  apply (normalized_in s d). apply tl_in. apply (in_skipn _ k). exact Hj.
Qed.

(* an occupied seat after renewSeatStatus: active if it was, or if it lies behind the big blind *)
Lemma renew_seat s d s' x :
  renew s d = Some s' -> s_occ (get_seat s x) = true ->
  get_seat s' x = if among x (behind_bb s d) then activate (get_seat s x) else get_seat s x.
Proof.
  intros H Ho. pose proof (behind_bb_range s d) as Hr. unfold renew, behind_bb in *.
  set (orig := normalized s d) in *.
  destruct (if Nat.eqb (playable_count s) 2 then Some (d, orig) else
            match find_active s (tl orig) 0 with Some (sb, i) => Some (sb, skipn i (tl orig)) | None => None end) as [[sb seats]|] eqn:E1; [|discriminate].
  assert (Hseats : seats = (if Nat.eqb (playable_count s) 2 then orig
                            else match find_active s (tl orig) 0 with Some (_, i) => skipn i (tl orig) | None => [] end)).
  { destruct (Nat.eqb (playable_count s) 2); [injection E1 as _ <-; reflexivity|].
    destruct (find_active s (tl orig) 0) as [[b k]|]; [injection E1 as _ <-; reflexivity|discriminate]. }
  rewrite <- Hseats in Hr |- *.
  destruct (find_active s (tl seats) 0) as [[bb i]|]; [|discriminate]. injection H as <-.
  set (s1 := mkSM (sm_seats s) (sm_dealer s) (Some sb) (Some bb)).
  assert (Hmax : sm_max (deactivate_until s1 orig bb) = sm_max s).
  { assert (G : forall idxs s0 b, sm_max (deactivate_until s0 idxs b) = sm_max s0).
    { induction idxs as [|k t IH]; intros s0 b; cbn [deactivate_until]; [reflexivity|]. destruct (Nat.eqb k b); [reflexivity|].
      destruct (s_occ (get_seat s0 k)); [apply IH|rewrite IH; apply sm_max_upd]. }
    rewrite G. reflexivity. }
  rewrite activate_all_seat by (intros j Hj; rewrite Hmax; apply Hr; exact Hj).
  rewrite (deactivate_until_occupied s1 orig bb x Ho). reflexivity.
Qed.

Lemma firstn_In {A} (x : A) n l : In x (firstn n l) -> In x l.
Proof. revert l; induction n as [|n IH]; intros l H; [contradiction|]. destruct l; [contradiction|]. destruct H as [H|H]; [now left|right; apply IH; exact H]. Qed.

Lemma activate_idem y : activate (activate y) = activate y. Proof. reflexivity. Qed.

(* every occupied seat after a successful move to the next hand (at least two players could play):
   it is made active exactly when the button has passed it or it lies behind the new big blind *)
Theorem sm_next_seat s s' :
  (2 <= playable_count s)%nat -> (forall d, sm_dealer s = Some d -> (d < sm_max s)%nat) -> sm_next s = (s', SOk) ->
  exists d' pos, find_active s (scan_list s) 0 = Some (d', pos) /\ sm_dealer s' = Some d' /\
    forall x, s_occ (get_seat s x) = true ->
      get_seat s' x = if among x (firstn pos (scan_list s)) || among x (behind_bb (fst (next_dealer s)) d')
                      then activate (get_seat s x) else get_seat s x.
Proof.
  intros Hc Hd H.
  assert (Hpos : (0 < pc s (scan_list s))%nat).
  { unfold scan_list. destruct (sm_dealer s) as [d|] eqn:E.
    - rewrite (tl_normalized_pc s d (Hd d eq_refl)). destruct (pl s d); lia.
    - rewrite pc_normalized. lia. }
  destruct (find_active_some s (scan_list s) 0 Hpos) as (d' & pos & Ef).
  exists d', pos. split; [exact Ef|].
  unfold sm_next in H. unfold next_dealer in *.
  replace (Nat.eqb (playable_count s) 1) with false in * by (symmetry; apply Nat.eqb_neq; lia).
  fold (scan_list s) in *. rewrite Ef in *. cbn [fst snd] in *.
  set (s1 := set_dealer (activate_all s (firstn pos (scan_list s))) (Some d')) in *.
  destruct (Nat.ltb (playable_count s1) 2); [discriminate|].
  destruct (renew s1 d') as [s2|] eqn:Er; [|discriminate]. injection H as <-.
  (* the seats the button passed are seats of the table *)
  assert (Hrange : forall i, In i (firstn pos (scan_list s)) -> (i < sm_max s)%nat).
  { intros i Hi. apply firstn_In in Hi. unfold scan_list in Hi. destruct (sm_dealer s) as [d|]; [apply (normalized_in s d); apply tl_in; exact Hi|apply (normalized_in s 0); exact Hi]. }
  assert (Hs1 : forall x, get_seat s1 x = if among x (firstn pos (scan_list s)) then activate (get_seat s x) else get_seat s x).
  { intros x. unfold s1. change (get_seat (set_dealer ?y ?d) x) with (get_seat y x). apply activate_all_seat. exact Hrange. }
  split.
  - (* renew keeps the dealer *)
    pose proof Er as Er'. unfold renew in Er'.
    destruct (if Nat.eqb (playable_count s1) 2 then _ else _) as [[sbx seats]|]; [|discriminate].
    destruct (find_active s1 (tl seats) 0) as [[bbx i]|]; [|discriminate]. injection Er' as <-.
    assert (G1 : forall idxs s0, sm_dealer (activate_all s0 idxs) = sm_dealer s0).
    { unfold activate_all. induction idxs as [|k t IH]; intros s0; simpl; [reflexivity|]. rewrite IH. reflexivity. }
    assert (G2 : forall idxs s0 b, sm_dealer (deactivate_until s0 idxs b) = sm_dealer s0).
    { induction idxs as [|k t IH]; intros s0 b; simpl; [reflexivity|]. destruct (Nat.eqb k b); [reflexivity|].
      rewrite IH. destruct (s_occ _); reflexivity. }
    rewrite G1, G2. reflexivity.
  - intros x Ho.
    assert (Ho1 : s_occ (get_seat s1 x) = true) by (rewrite Hs1; destruct (among x _); [destruct (get_seat s x); exact Ho|exact Ho]).
    rewrite (renew_seat s1 d' s2 x Er Ho1), Hs1.
    destruct (among x (firstn pos (scan_list s))), (among x (behind_bb s1 d')); cbn [orb]; reflexivity.
Qed.

(* the newcomer: an occupied, non-reserved seat that is not active (a player who took a seat the button had
   not passed yet) is dealt in at this move exactly when the button passes it or it lies behind the new big blind *)
Theorem newcomer_dealt_in s s' x :
  (2 <= playable_count s)%nat -> (forall d, sm_dealer s = Some d -> (d < sm_max s)%nat) -> sm_next s = (s', SOk) ->
  s_occ (get_seat s x) = true -> s_reserved (get_seat s x) = false -> s_active (get_seat s x) = false ->
  exists d' pos, find_active s (scan_list s) 0 = Some (d', pos) /\
    (pl s' x = true <-> among x (firstn pos (scan_list s)) = true \/ among x (behind_bb (fst (next_dealer s)) d') = true).
Proof.
  intros Hc Hd H Ho Hr Ha. destruct (sm_next_seat s s' Hc Hd H) as (d' & pos & Ef & _ & Hx).
  exists d', pos. split; [exact Ef|]. unfold pl. rewrite (Hx x Ho).
  destruct (among x (firstn pos (scan_list s))), (among x (behind_bb (fst (next_dealer s)) d')); cbn [orb];
    unfold playable, activate; cbn [s_occ s_active s_reserved]; rewrite ?Ho, ?Hr, ?Ha; cbn; intuition discriminate.
Qed.

(* an empty seat between the dealer and the big blind is switched off by the move: whoever takes it later is
   held out until the button has passed *)
Lemma deactivate_until_prefix s l1 bb l2 x :
  ~ In bb l1 -> In x l1 -> (x < sm_max s)%nat -> s_occ (get_seat s x) = false ->
  s_active (get_seat (deactivate_until s (l1 ++ bb :: l2) bb) x) = false.
Proof.
  revert s. induction l1 as [|i t IH]; intros s Hn Hin Hx Ho; [contradiction|].
  cbn [app deactivate_until].
  replace (Nat.eqb i bb) with false by (symmetry; apply Nat.eqb_neq; intros E; apply Hn; left; exact E).
  assert (Hn' : ~ In bb t) by (intros H; apply Hn; now right).
  assert (Keep : forall s0, sm_max s0 = sm_max s -> s_occ (get_seat s0 x) = false -> s_active (get_seat s0 x) = false ->
            s_active (get_seat (deactivate_until s0 (t ++ bb :: l2) bb) x) = false).
  { clear IH Hin. intros s0. generalize (t ++ bb :: l2). intros l. revert s0. induction l as [|k r IHl]; intros s0 Hm Ho0 Ha0; cbn [deactivate_until]; [exact Ha0|].
    destruct (Nat.eqb k bb); [exact Ha0|]. destruct (s_occ (get_seat s0 k)) eqn:Ek; [apply IHl; assumption|].
    apply IHl; [rewrite sm_max_upd; exact Hm| |].
    - destruct (Nat.lt_ge_cases k (sm_max s0)) as [Hk|Hk]; [rewrite get_seat_upd by exact Hk; destruct (Nat.eqb x k); [exact Ek|exact Ho0]|rewrite get_seat_upd_out by exact Hk; exact Ho0].
    - destruct (Nat.lt_ge_cases k (sm_max s0)) as [Hk|Hk]; [rewrite get_seat_upd by exact Hk; destruct (Nat.eqb x k); [reflexivity|exact Ha0]|rewrite get_seat_upd_out by exact Hk; exact Ha0]. }
  destruct (Nat.eq_dec i x) as [->|Hne].
  - rewrite Ho. apply Keep; [apply sm_max_upd|rewrite get_seat_upd by exact Hx; rewrite Nat.eqb_refl; exact Ho|rewrite get_seat_upd by exact Hx; rewrite Nat.eqb_refl; reflexivity].
  - destruct Hin as [E|Hin]; [contradiction|].
    destruct (s_occ (get_seat s i)) eqn:Ei; [apply IH; assumption|].
    destruct (Nat.lt_ge_cases i (sm_max s)) as [Hi|Hi].
    + apply IH; [exact Hn'|exact Hin|rewrite sm_max_upd; exact Hx|].
      rewrite get_seat_upd by exact Hi. replace (Nat.eqb x i) with false by (symmetry; apply Nat.eqb_neq; intros E; apply Hne; symmetry; exact E). exact Ho.
    + apply IH; [exact Hn'|exact Hin|rewrite sm_max_upd; exact Hx|]. rewrite get_seat_upd_out by exact Hi. exact Ho.
Qed.

Theorem renew_switches_off_empty_seats s d s' :
  renew s d = Some s' -> pl s d = true -> (d < sm_max s)%nat ->
  exists front bb post, tl (normalized s d) = front ++ bb :: post /\ sm_bb s' = Some bb /\ ~ In bb front /\
    forall x, In x front -> s_occ (get_seat s x) = false -> s_active (get_seat s' x) = false.
Proof.
  intros H Hp Hd. pose proof (normalized_nodup s d) as Hnd. pose proof (normalized_head s d Hd) as Hhd.
  set (rest := tl (normalized s d)) in *. rewrite Hhd in Hnd. inversion Hnd as [|? ? Hdn Hnd']; subst.
  assert (Hrange : forall i, In i rest -> (i < sm_max s)%nat) by (intros i Hi; apply (normalized_in s d); rewrite Hhd; now right).
  unfold renew in H. fold rest in H. rewrite Hhd in H. cbn [tl] in H.
  (* both cases end with: seats = sbx :: tail, bb found in tail *)
  assert (Core : forall sbx front0 tail bb j s2,
            rest = front0 ++ tail -> find_active s tail 0 = Some (bb, j) ->
            s2 = activate_all (deactivate_until (mkSM (sm_seats s) (sm_dealer s) (Some sbx) (Some bb)) (d :: rest) bb) (tl (skipn j tail)) ->
            exists front post, rest = front ++ bb :: post /\ sm_bb s2 = Some bb /\ ~ In bb front /\
              forall x, In x front -> s_occ (get_seat s x) = false -> s_active (get_seat s2 x) = false).
  { intros sbx front0 tail bb j s2 Er Ef ->.
    destruct (find_active_first s tail bb j Ef) as (mid & post & Et & Hl & _ & _).
    exists (front0 ++ mid), post.
    assert (Erest : rest = (front0 ++ mid) ++ bb :: post) by (rewrite Er, Et, <- app_assoc; reflexivity).
    assert (Hnin : ~ In bb (front0 ++ mid)).
    { intros Hin. rewrite Erest in Hnd'. apply (NoDup_app_disj _ _ bb Hnd' Hin). now left. }
    assert (Hbbd : bb <> d) by (intros ->; apply Hdn; rewrite Erest; apply in_or_app; right; now left).
    split; [exact Erest|]. split.
    - assert (G1 : forall idxs s0, sm_bb (activate_all s0 idxs) = sm_bb s0).
      { unfold activate_all. induction idxs as [|k t IH]; intros s0; simpl; [reflexivity|]. rewrite IH. reflexivity. }
      assert (G2 : forall idxs s0 b, sm_bb (deactivate_until s0 idxs b) = sm_bb s0).
      { induction idxs as [|k t IH]; intros s0 b; simpl; [reflexivity|]. destruct (Nat.eqb k b); [reflexivity|]. rewrite IH. destruct (s_occ _); reflexivity. }
      rewrite G1, G2. reflexivity.
    - split; [exact Hnin|]. intros x Hx Ho.
      assert (Hsk : skipn j tail = bb :: post) by (rewrite Et, <- Hl; apply skipn_app_exact). rewrite Hsk. cbn [tl].
      set (s1 := mkSM (sm_seats s) (sm_dealer s) (Some sbx) (Some bb)).
      assert (Hmax : sm_max (deactivate_until s1 (d :: rest) bb) = sm_max s).
      { assert (G : forall idxs s0 b, sm_max (deactivate_until s0 idxs b) = sm_max s0).
        { induction idxs as [|k t IH]; intros s0 b; cbn [deactivate_until]; [reflexivity|]. destruct (Nat.eqb k b); [reflexivity|].
          destruct (s_occ (get_seat s0 k)); [apply IH|rewrite IH; apply sm_max_upd]. }
        rewrite G. reflexivity. }
      rewrite activate_all_seat by (intros k Hk; rewrite Hmax; apply Hrange; rewrite Erest; apply in_or_app; right; now right).
      assert (Hnot : among x post = false).
      { destruct (among x post) eqn:E; [|reflexivity]. exfalso. unfold among in E. apply existsb_exists in E as (y & Hy & Ey). apply Nat.eqb_eq in Ey. subst y.
        rewrite Erest in Hnd'. apply (NoDup_app_disj _ _ x Hnd' Hx). now right. }
      unfold among in Hnot. rewrite Hnot.
      rewrite Erest. change (d :: (front0 ++ mid) ++ bb :: post) with ((d :: front0 ++ mid) ++ bb :: post).
      apply deactivate_until_prefix.
      + intros [E|E]; [apply Hbbd; symmetry; exact E|apply Hnin; exact E].
      + now right.
      + apply Hrange. rewrite Erest. apply in_or_app. now left.
      + exact Ho. }
  revert H. destruct (Nat.eqb (playable_count s) 2).
  - cbn [tl]. destruct (find_active s rest 0) as [[bb j]|] eqn:Ef; [|intros H; discriminate H]. intros H. injection H as <-.
    destruct (Core d [] rest bb j _ eq_refl Ef eq_refl) as (front & post & A & B & C & D). exists front, bb, post. auto.
  - destruct (find_active s rest 0) as [[sb i]|] eqn:Es; [|intros H; discriminate H].
    destruct (find_active_first s rest sb i Es) as (pre & post1 & Er & Hl & _ & _).
    assert (Hsk : skipn i rest = sb :: post1) by (rewrite Er, <- Hl; apply skipn_app_exact).
    rewrite Hsk. cbn [tl].
    destruct (find_active s post1 0) as [[bb j]|] eqn:Eb; [|intros H; discriminate H]. intros H. injection H as <-.
    destruct (Core sb (pre ++ [sb]) post1 bb j _ ltac:(rewrite Er, <- app_assoc; reflexivity) Eb eq_refl) as (front & post & A & B & C & D).
    exists front, bb, post. auto.
Qed.
