(* ProofsSort.v — facts about the insertion sort of Base.v (Go's sort.Slice on short slices). *)
From Coq Require Import Lia Permutation.
From PF Require Import Base.

(* ---------- (A) insertion sort ---------- *)
Section Isort.
  Context {A : Type} (less : A -> A -> bool).

  Lemma ins_rev_perm x r : Permutation (ins_rev less x r) (x :: r).
  Proof.
    induction r as [|e r IH]; simpl; [reflexivity|].
    destruct (less x e); [|reflexivity].
    eapply perm_trans; [apply perm_skip; exact IH|]. apply perm_swap.
  Qed.

  Lemma fold_ins_perm l acc : Permutation (fold_left (fun r x => ins_rev less x r) l acc) (l ++ acc).
  Proof.
    revert acc; induction l as [|x t IH]; intros acc; simpl; [reflexivity|].
    eapply perm_trans; [apply IH|].
    eapply perm_trans; [apply Permutation_app_head; apply ins_rev_perm|].
    symmetry. apply Permutation_middle.
  Qed.

  Lemma isort_perm l : Permutation (isort less l) l.
  Proof.
    unfold isort. eapply perm_trans; [symmetry; apply Permutation_rev|].
    eapply perm_trans; [apply fold_ins_perm|]. rewrite app_nil_r. reflexivity.
  Qed.
End Isort.

Lemma ins_rev_map {A B} (f : A -> B) (lessB : B -> B -> bool) x r :
  map f (ins_rev (fun a b => lessB (f a) (f b)) x r) = ins_rev lessB (f x) (map f r).
Proof.
  induction r as [|e r IH]; simpl; [reflexivity|].
  destruct (lessB (f x) (f e)); simpl; [now rewrite IH|reflexivity].
Qed.

Lemma isort_map {A B} (f : A -> B) (lessB : B -> B -> bool) l :
  map f (isort (fun a b => lessB (f a) (f b)) l) = isort lessB (map f l).
Proof.
  unfold isort. rewrite map_rev. f_equal.
  assert (G : forall acc, map f (fold_left (fun r x => ins_rev (fun a b => lessB (f a) (f b)) x r) l acc)
                          = fold_left (fun r x => ins_rev lessB x r) (map f l) (map f acc)).
  { induction l as [|x t IH]; intros acc; simpl; [reflexivity|]. rewrite IH, ins_rev_map. reflexivity. }
  apply (G []).
Qed.

(* sortedness of sort_desc *)
Inductive asc : list Z -> Prop :=
| asc_nil : asc []
| asc_one x : asc [x]
| asc_cons x y t : x <= y -> asc (y :: t) -> asc (x :: y :: t).

Inductive desc : list Z -> Prop :=
| desc_nil : desc []
| desc_one x : desc [x]
| desc_cons x y t : y <= x -> desc (y :: t) -> desc (x :: y :: t).

Definition lessZ (a b : Z) : bool := b <? a.

Lemma ins_rev_asc x r : asc r -> asc (ins_rev lessZ x r).
Proof.
  induction r as [|e r IH]; intros H; simpl; [constructor|].
  unfold lessZ at 1. destruct (e <? x) eqn:E.
  - apply Z.ltb_lt in E.
    assert (Ht : asc r) by (inversion H; [constructor|assumption]).
    specialize (IH Ht).
    destruct r as [|e2 r2]; simpl in *.
    + constructor; [lia|constructor].
    + unfold lessZ in *. destruct (e2 <? x) eqn:E2.
      * constructor; [inversion H; assumption|exact IH].
      * constructor; [lia|exact IH].
  - apply Z.ltb_ge in E. constructor; assumption.
Qed.

Lemma fold_ins_asc l acc : asc acc -> asc (fold_left (fun r x => ins_rev lessZ x r) l acc).
Proof. revert acc; induction l as [|x t IH]; intros acc H; simpl; [exact H|]. apply IH, ins_rev_asc, H. Qed.

Lemma asc_head_le x t : asc (x :: t) -> forall y, In y t -> x <= y.
Proof.
  revert x; induction t as [|z t IH]; intros x H y Hy; [contradiction|].
  inversion H; subst. destruct Hy as [->|Hy]; [assumption|].
  specialize (IH z H4 y Hy). lia.
Qed.

Lemma desc_app_one l x : desc l -> (forall y, In y l -> x <= y) -> desc (l ++ [x]).
Proof.
  induction l as [|a t IH]; intros H Hall; simpl; [constructor|].
  destruct t as [|b t']; simpl in *.
  - constructor; [apply Hall; now left|constructor].
  - inversion H; subst. constructor; [assumption|]. apply IH; [assumption|]. intros y Hy. apply Hall. now right.
Qed.

Lemma asc_rev_desc l : asc l -> desc (rev l).
Proof.
  induction l as [|x t IH]; intros H; simpl; [constructor|].
  apply desc_app_one.
  - apply IH. inversion H; [constructor|assumption].
  - intros y Hy. apply in_rev in Hy. apply (asc_head_le x t H y Hy).
Qed.


Lemma isort_lessZ_desc l : desc (isort lessZ l).
Proof. unfold isort. apply asc_rev_desc. apply (fold_ins_asc l []). constructor. Qed.

Lemma desc_head_ge x t : desc (x :: t) -> forall y, In y t -> y <= x.
Proof.
  revert x; induction t as [|z t IH]; intros x H y Hy; [contradiction|].
  inversion H; subst. destruct Hy as [->|Hy]; [assumption|].
  specialize (IH z H4 y Hy). lia.
Qed.
