(* C10 — each player's reported hand is their true best hand. *)
From PF Require Import Base Comb ModelEval ProofsEvalBasic.

(* Gosper's hack as used by GetPossibleCombinations enumerates every k-subset of up to 9 cards
   exactly once (finite domain, bound in the statement; proved by evaluation) *)
Theorem C10_enumeration_complete :
  forall n k, (n <= 9)%nat -> (1 <= k)%nat -> (k <= n)%nat ->
    length (gosper_positions k n) = length (subsets_spec n k) /\
    forall s, In s (subsets_spec n k) -> count_occ_nl s (gosper_positions k n) = 1%nat.
Proof. exact gosper_complete. Qed.
Print Assumptions C10_enumeration_complete.

(* the reported hand is the evaluation of one of the candidate selections, and no candidate
   scores higher; category, cards and strength all come from that one evaluation *)
Theorem C10_best_among_candidates :
  forall pr board hole req b,
    best_power pr board hole req = Some b ->
    (exists c, In c (all_combinations board hole req) /\ b = calc_power pr c) /\
    (forall c, In c (all_combinations board hole req) -> ps_score (calc_power pr c) <= ps_score b).
Proof. exact best_power_spec. Qed.
Print Assumptions C10_best_among_candidates.

(* in variants that require a fixed number of hole cards every candidate selection is a selection of
   exactly that many hole cards joined to a selection of board cards *)
Theorem C10_required_hole_cards :
  forall (board hole : list card) k sel,
    In sel (all_combinations board hole (S k)) ->
    exists h b, sel = h ++ b /\ In h (possible_combinations hole (S k)) /\ In b (possible_combinations board (5 - S k)).
Proof.
  intros board hole k sel H. unfold all_combinations in H. apply in_flat_map in H as (h & Hh & Hb).
  apply in_map_iff in Hb as (b & <- & Hb). exists h, b. auto.
Qed.
Print Assumptions C10_required_hole_cards.

(* engine level: in every reachable state after the deal, the hand stored for every seat is the
   evaluator's best hand for that seat's own hole cards and the present board — category, cards and
   strength of one and the same evaluation, which no admissible selection beats *)
From PF Require Import ModelGame ProofsHands.
Theorem C10_reported_hand_is_the_best_hand :
  forall c deck g ops,
    create c deck = (g, Ok) ->
    let s := run g ops in
    st_round (g_st s) <> RNone ->
    forall i ci b, (i < nplayers s)%nat ->
      p_comb (get_p s i) = Some ci ->
      best_power (m_table (g_meta s)) (map card_of_wire (st_board (g_st s))) (map card_of_wire (p_hole (get_p s i))) (m_req (g_meta s)) = Some b ->
      ci = mkCI (Some (ps_comb b)) (map wire_of_card (ps_cards b)) (ps_score b) /\
      (exists sel, In sel (all_combinations (map card_of_wire (st_board (g_st s))) (map card_of_wire (p_hole (get_p s i))) (m_req (g_meta s))) /\
                   b = calc_power (m_table (g_meta s)) sel) /\
      (forall sel, In sel (all_combinations (map card_of_wire (st_board (g_st s))) (map card_of_wire (p_hole (get_p s i))) (m_req (g_meta s))) ->
                   ps_score (calc_power (m_table (g_meta s)) sel) <= ci_power ci).
Proof.
  intros c deck g ops Hcr s Hr i ci b Hi Hc Hb.
  pose proof (Hinv_reachable c deck g ops Hcr Hr i Hi ci b Hc Hb) as E.
  destruct (best_power_spec _ _ _ _ _ Hb) as [H1 H2]. split; [exact E|]. split; [exact H1|].
  intros sel Hsel. rewrite E. cbn [ci_power]. apply H2. exact Hsel.
Qed.
Print Assumptions C10_reported_hand_is_the_best_hand.

(* and that strength is the one the showdown compares *)
Theorem C10_showdown_compares_the_reported_strength :
  forall p ci, p_fold p = false -> p_comb p = Some ci -> score_of p = ci_power ci.
Proof. intros p ci Hf Hc. unfold score_of. rewrite Hf, Hc. reflexivity. Qed.
Print Assumptions C10_showdown_compares_the_reported_strength.
