(* Comb.v — the hand categories (combination.Combination). *)
From PF Require Import Base.

Inductive comb :=
  HighCard | Pair | TwoPair | ThreeOfAKind | Straight | Flush | FullHouse | FourOfAKind | StraightFlush.

Definition comb_eqb (a b : comb) : bool :=
  match a, b with
  | HighCard, HighCard | Pair, Pair | TwoPair, TwoPair | ThreeOfAKind, ThreeOfAKind
  | Straight, Straight | Flush, Flush | FullHouse, FullHouse | FourOfAKind, FourOfAKind
  | StraightFlush, StraightFlush => true
  | _, _ => false
  end.

(* the numeric value of the Go constant (iota order), used on the wire *)
Definition comb_code (c : comb) : Z :=
  match c with
  | HighCard => 0 | Pair => 1 | TwoPair => 2 | ThreeOfAKind => 3 | Straight => 4
  | Flush => 5 | FullHouse => 6 | FourOfAKind => 7 | StraightFlush => 8
  end.
