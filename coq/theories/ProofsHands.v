(* ProofsHands.v — the hand stored for every seat is the best hand of its hole cards and the board (C10),
   in every reachable state. *)
From Coq Require Import Lia.
From PF Require Import Base ProofsBase Comb ModelPot ModelSettle ModelEval ModelGame
                       ProofsGameBasic ProofsChips ProofsInv ProofsPos ProofsView ProofsCards.

(* the stored hand agrees with the evaluator on the present board *)
Definition comb_ok (m : meta) (board : list Z) (p : pstate) : Prop :=
  forall c b, p_comb p = Some c ->
    best_power (m_table m) (map card_of_wire board) (map card_of_wire (p_hole p)) (m_req m) = Some b ->
    c = mkCI (Some (ps_comb b)) (map wire_of_card (ps_cards b)) (ps_score b).

(* from the deal of the hole cards on (before it nobody holds a card and the stored hand is the empty one) *)
Definition Hinv (g : gstate) : Prop :=
  st_round (g_st g) <> RNone ->
  forall i, (i < nplayers g)%nat -> comb_ok (g_meta g) (st_board (g_st g)) (get_p g i).

(* what the invariant reads *)
Definition hc (p : pstate) : list Z * option cinfo := (p_hole p, p_comb p).
Definition hcv (g : gstate) := (g_meta g, st_board (g_st g), st_round (g_st g), map hc (g_players g)).

Lemma Hinv_view g g' : hcv g' = hcv g -> Hinv g -> Hinv g'.
Proof.
  unfold hcv. intros H Hi. injection H as Hm Hb Hr Hp. intros Hrn i Hlt. rewrite Hr in Hrn. specialize (Hi Hrn).
  assert (Hn : nplayers g' = nplayers g) by (unfold nplayers; rewrite <- (map_length hc (g_players g')), Hp, map_length; reflexivity).
  rewrite Hn in Hlt. specialize (Hi i Hlt). unfold comb_ok in *. rewrite Hm, Hb.
  assert (E : hc (get_p g' i) = hc (get_p g i)).
  { unfold get_p. rewrite <- !(map_nth hc). now rewrite Hp. }
  unfold hc in E. injection E as -> ->. exact Hi.
Qed.

Lemma update_comb_ok m board p : comb_ok m board (update_comb m board p).
Proof.
  unfold comb_ok, update_comb. intros c b.
  destruct (p_comb p) as [c0|] eqn:Ec; [|intros H; rewrite Ec in H; discriminate].
  destruct (best_power _ _ _ _) as [b0|] eqn:Eb.
  - cbn [p_set_comb p_comb p_hole]. intros H1 H2. rewrite Eb in H2. injection H1 as <-. injection H2 as <-. reflexivity.
  - intros _ H2. rewrite Eb in H2. discriminate.
Qed.

Lemma update_combs_Hinv g : Hinv (update_combs g).
Proof.
  intros _ i Hi. unfold update_combs in *. rewrite nplayers_map in Hi. rewrite get_p_map by exact Hi.
  apply update_comb_ok.
Qed.

(* frame: built from the table view sv and the per-seat view gv hc *)
Lemma hcv_of g g' : sv g' = sv g -> gv hc g' = gv hc g -> hcv g' = hcv g.
Proof. unfold sv, hcv, gv. intros H1 H2. injection H1 as -> _ -> _ ->. now rewrite H2. Qed.

Ltac hc_side := intros; reflexivity.

Lemma Hinv_enter_preflop g : Hinv (fst (enter_preflop g)) \/ fst (enter_preflop g) = g.
Proof.
  unfold enter_preflop. destruct (negb (deck_has g _)); [right; reflexivity|]. left.
  match goal with |- context [update_combs ?x] => pose proof (update_combs_Hinv x) as H; set (y := update_combs x) in * end.
  destruct (_ && _); cbn [fst].
  - eapply Hinv_view; [|exact H]. apply hcv_of; [apply sv_prepare_round|apply (gv_prepare_round hc); hc_side].
  - eapply Hinv_view; [|exact H]. apply hcv_of; reflexivity.
Qed.

Lemma Hinv_enter_street g r : Hinv (fst (enter_street g r)) \/ fst (enter_street g r) = g.
Proof.
  unfold enter_street. destruct (negb (deck_has g _)); [right; reflexivity|]. left. cbn [fst].
  match goal with |- context [update_combs ?x] => pose proof (update_combs_Hinv x) as H end.
  eapply Hinv_view; [|exact H]. apply hcv_of; [apply sv_prepare_round|apply (gv_prepare_round hc); hc_side].
Qed.

Theorem Hinv_step g o : Hinv g -> Hinv (fst (step g o)).
Proof.
  intros HI.
  assert (Frame : forall g', sv g' = sv g -> gv hc g' = gv hc g -> Hinv g')
    by (intros g' H1 H2; apply (Hinv_view g); [apply hcv_of; assumption|exact HI]).
  destruct o as [| | | |who a x]; cbn [step].
  - unfold do_ready. destruct (negb _); [exact HI|].
    assert (H0 : Hinv (reset_all g)) by (apply Frame; [apply sv_reset_all|apply gv_reset_all; hc_side]).
    destruct (st_round (g_st (reset_all g))); cbn [fst].
    1: { destruct (0 <? _); cbn [fst]; [apply Frame; [apply sv_reset_all|apply (gv_reset_all hc); hc_side]|].
         destruct (Hinv_enter_preflop (reset_all g)) as [H|H]; [exact H|rewrite H; exact H0]. }
    all: apply Frame; [rewrite sv_start_round; apply sv_reset_all|rewrite (gv_start_round hc) by hc_side; apply gv_reset_all; hc_side].
  - unfold do_pay_ante. destruct (_ =? 0); [exact HI|]. destruct (negb _); [exact HI|].
    pose proof (sv_ante_loop (player_order g) g) as S1.
    assert (G1 : gv hc (fst (ante_loop (player_order g) g)) = gv hc g) by (apply gv_ante_loop; hc_side).
    destruct (ante_loop (player_order g) g) as [g1 b]. cbn [fst] in *.
    assert (H1 : Hinv g1) by (apply Frame; assumption).
    destruct b; cbn [fst]; [|exact H1].
    set (g3 := reset_round_status (reset_all_status (update_pots (reset_all g1)))).
    assert (H3 : Hinv g3).
    { apply (Hinv_view g1); [|exact H1]. apply hcv_of; [reflexivity|].
      unfold g3. rewrite gv_reset_round_status, gv_reset_all_status, gv_update_pots, gv_reset_all by hc_side. reflexivity. }
    destruct (Hinv_enter_preflop g3) as [H|H]; [exact H|rewrite H; exact H3].
  - unfold do_pay_blinds. destruct (negb _); [exact HI|]. cbn [fst]. apply Frame.
    + rewrite sv_prepare_round, sv_reset_all. transitivity (sv (fold_left pay_blind (player_order g) g)); [reflexivity|apply sv_fold_pay_blind].
    + rewrite gv_prepare_round, gv_reset_all, gv_with_st by hc_side. apply gv_fold_pay_blind; hc_side.
  - unfold do_next. destruct (negb _); [exact HI|].
    set (g0 := set_last g (-1) LNext 0). set (g1 := reset_all_status (reset_round_status g0)).
    assert (H1 : Hinv g1).
    { apply Frame; [reflexivity|]. unfold g1, g0. rewrite gv_reset_all_status, gv_reset_round_status, gv_set_last by hc_side. reflexivity. }
    set (guard := fun res : gstate * outcome => match res with (_, Panic) => (g, Panic) | x => x end).
    assert (Hgc : Hinv (fst (guard (game_completed g1)))).
    { unfold guard. pose proof (sv_game_completed g1) as S. pose proof (gv_game_completed hc g1) as G.
      destruct (game_completed g1) as [g2 o2]. cbn [fst] in *.
      assert (H2 : Hinv g2) by (apply (Hinv_view g1); [apply hcv_of; assumption|exact H1]).
      destruct o2; cbn [fst]; try exact H2; exact HI. }
    assert (Hst : forall r, Hinv (fst (guard (enter_street g1 r)))).
    { intros r. unfold guard. pose proof (Hinv_enter_street g1 r) as H. destruct (enter_street g1 r) as [g2 o2]. cbn [fst] in *.
      assert (H2 : Hinv g2) by (destruct H as [H|H]; [exact H|rewrite H; exact H1]).
      destruct o2; cbn [fst]; try exact H2; exact HI. }
    destruct (st_round (g_st g0)); [apply Frame; reflexivity| | | |];
      destruct (Nat.eqb (alive_count g1) 1); try exact Hgc; apply Hst.
  - destruct (negb _); [exact HI|]. apply Frame; [apply sv_act|apply gv_act; hc_side].
Qed.

Theorem Hinv_run ops : forall g, Hinv g -> Hinv (run g ops).
Proof. unfold run. induction ops as [|o t IH]; intros g H; cbn [fold_left]; [exact H|]. apply IH, Hinv_step, H. Qed.

Lemma Hinv_create c deck g : create c deck = (g, Ok) -> Hinv g.
Proof.
  intros Hcr. unfold create in Hcr.
  destruct (Nat.ltb _ 2); [discriminate|]. destruct (dealer_opt _); [|discriminate].
  destruct (existsb _ _); [discriminate|]. destruct (Nat.eqb _ 0); [discriminate|]. destruct (Nat.ltb _ _); [discriminate|].
  injection Hcr as <-. intros Hr. exfalso. apply Hr. reflexivity.
Qed.

Theorem Hinv_reachable c deck g ops : create c deck = (g, Ok) -> Hinv (run g ops).
Proof. intros Hcr. apply Hinv_run. apply (Hinv_create c deck g Hcr). Qed.
