#!/bin/bash
# eval_seeded.sh <Cxx> <A|B> [props...] — confirm a seeded change in its scratch worktree, then run the
# checks against it (applied to /repo and undone straight afterwards). Prints a summary.
P=$1; V=$2; shift 2
PROPS=${@:-$P}
WT=/tmp/wt-$P; OUT=/tmp/out-$P
export GOFLAGS=-mod=mod GOPROXY=off GOSUMDB=off GOTOOLCHAIN=local
v=$(echo $V | tr 'A-Z' 'a-z')
run_demo() { (cd $WT && if ls demo_$v/*_test.go >/dev/null 2>&1; then go test -count=1 ./demo_$v >/tmp/demo.out 2>&1; else go run ./demo_$v >/tmp/demo.out 2>&1; fi; echo $?); }
cd $WT || exit 2
git checkout -q -- . 2>/dev/null
[ -d demo_$v ] || { mkdir -p demo_$v; cp $OUT/demo_$V/*.go demo_$v/; }
base=$(run_demo)
git apply $OUT/$V.diff || { echo "APPLY-FAILED"; exit 2; }
go build ./... >/tmp/build.out 2>&1; b=$?
go test -count=1 ./combination ./pot ./regulator ./settlement ./testcases >/tmp/test.out 2>&1; t=$?
mut=$(run_demo)
tail -3 /tmp/demo.out | sed 's/^/   demo(with change): /'
git checkout -q -- .
echo "confirm $P/$V: demo-unchanged-exit=$base build=$b stable-tests=$t demo-with-change-exit=$mut"
if [ "$base" != 0 ] || [ "$b" != 0 ] || [ "$t" != 0 ] || [ "$mut" = 0 ]; then echo "NOT-CONFIRMED $P/$V"; exit 1; fi
cd /verif
# evidence committed in /verif must come from clean-tree runs: keep it aside while the change is applied
rm -rf /tmp/evidence.keep && cp -r /verif/evidence /tmp/evidence.keep
git -C /repo apply $OUT/$V.diff || { echo "APPLY-TO-REPO-FAILED"; exit 2; }
for q in $PROPS; do
  ./check $q > /tmp/check_$q.out 2>&1; rc=$?
  echo "  check $q rc=$rc: $(grep -E 'VIOLATION|BROKEN' /tmp/check_$q.out | head -3 | tr '\n' '|' | cut -c1-400)"
done
git -C /repo checkout -- .
rm -rf /verif/evidence && mv /tmp/evidence.keep /verif/evidence
git -C /repo status --short | head -3
