(* ProofsCards.v — cards are dealt from the deck without loss, duplication or change (C14), and the
   deck always suffices for the deal (used by C06). *)
From Coq Require Import Lia.
From PF Require Import Base ProofsBase Comb ModelPot ModelSettle ModelEval ModelGame ProofsGameBasic ProofsChips ProofsInv ProofsPos ProofsView.

(* the cards on the table in the order they left the deck: hole cards seat by seat, then
   burn, flop (3), burn, turn, burn, river *)
Definition interleave (burned board : list Z) : list Z :=
  match burned, board with
  | [b1], [f1; f2; f3] => [b1; f1; f2; f3]
  | [b1; b2], [f1; f2; f3; t] => [b1; f1; f2; f3; b2; t]
  | [b1; b2; b3], [f1; f2; f3; t; r] => [b1; f1; f2; f3; b2; t; b3; r]
  | _, _ => burned ++ board
  end.

Definition holes (g : gstate) : list Z := concat (map p_hole (g_players g)).
Definition dealt (g : gstate) : list Z := holes g ++ interleave (st_burned (g_st g)) (st_board (g_st g)).

(* lengths by street *)
Definition street_counts (r : round) : nat * nat :=   (* burned, board *)
  match r with RNone => (0, 0) | Preflop => (0, 0) | Flop => (1, 3) | Turn => (2, 4) | River => (3, 5) end%nat.

Record Kinv (g : gstate) : Prop := mkKinv {
  k_prefix : dealt g = firstn (st_dpos (g_st g)) (m_deck (g_meta g));
  k_burned : length (st_burned (g_st g)) = fst (street_counts (st_round (g_st g)));
  k_board : length (st_board (g_st g)) = snd (street_counts (st_round (g_st g)));
  k_holes : forall i, (i < nplayers g)%nat ->
            length (p_hole (get_p g i)) = match st_round (g_st g) with RNone => 0%nat | _ => m_hole (g_meta g) end;
  k_dpos : st_dpos (g_st g) = (length (holes g) + length (st_burned (g_st g)) + length (st_board (g_st g)))%nat;
  k_room : (nplayers g * m_hole (g_meta g) + 8 <= length (m_deck (g_meta g)))%nat }.

(* the card view: what the invariant reads *)
Definition kv (g : gstate) := (m_deck (g_meta g), m_hole (g_meta g), map p_hole (g_players g),
                                st_burned (g_st g), st_board (g_st g), st_dpos (g_st g), st_round (g_st g)).

Lemma Kinv_kv g g' : kv g' = kv g -> Kinv g -> Kinv g'.
Proof.
  unfold kv. intros H [A B C D E F]. injection H as H1 H2 H3 H4 H5 H6 H7.
  assert (Hn : nplayers g' = nplayers g) by (unfold nplayers; rewrite <- (map_length p_hole (g_players g')), H3, map_length; reflexivity).
  assert (Hh : holes g' = holes g) by (unfold holes; now rewrite H3).
  constructor.
  - unfold dealt. rewrite Hh, H4, H5, H6, H1. exact A.
  - now rewrite H4, H7.
  - now rewrite H5, H7.
  - intros i Hi. rewrite Hn in Hi. rewrite H7, H2. rewrite <- (D i Hi). unfold get_p.
    change (@nil Z) with (p_hole dflt_p). rewrite <- !(map_nth p_hole). now rewrite H3.
  - now rewrite H6, Hh, H4, H5.
  - now rewrite Hn, H2, H1.
Qed.

(* ---------- frame: most of the engine does not touch cards ---------- *)
Definition sv (g : gstate) := (g_meta g, st_burned (g_st g), st_board (g_st g), st_dpos (g_st g), st_round (g_st g)).

Ltac brute :=
  unfold pay, become_raiser, reset_acted, reset_all, round_closed, update_pots, set_current, set_event, set_last,
         request_ready, map_p, upd_p, with_st, with_players, with_result, sv;
  repeat match goal with |- context [if ?c then _ else _] => destruct c end; reflexivity.

Lemma sv_pay g i chips w : sv (pay g i chips w) = sv g.
Proof. pose proof (qv_pay g i chips w) as H. unfold qv in H. unfold sv. injection H as -> _ _ _ -> -> -> _ -> _ _ _. reflexivity. Qed.
Lemma sv_round_closed g : sv (round_closed g) = sv g. Proof. brute. Qed.
Lemma sv_set_current g i : sv (set_current g i) = sv g. Proof. brute. Qed.
Lemma sv_reset_all g : sv (reset_all g) = sv g. Proof. brute. Qed.
Lemma sv_request_ready g : sv (request_ready g) = sv g. Proof. brute. Qed.
Lemma sv_set_last g a t v : sv (set_last g a t v) = sv g. Proof. reflexivity. Qed.
Lemma sv_set_event g e : sv (set_event g e) = sv g. Proof. reflexivity. Qed.
Lemma sv_upd g i f : sv (upd_p g i f) = sv g. Proof. reflexivity. Qed.
Lemma sv_map g f : sv (map_p g f) = sv g. Proof. reflexivity. Qed.
Lemma sv_reset_round_status g : sv (reset_round_status g) = sv g. Proof. reflexivity. Qed.

Lemma sv_request_action g : sv (request_action g) = sv g.
Proof.
  unfold request_action.
  destruct (Nat.eqb (alive_count g) 1); [apply sv_round_closed|].
  destruct (Nat.eqb (movable_count g) 0); [apply sv_round_closed|].
  destruct (p_acted _); [apply sv_round_closed|apply sv_set_current].
Qed.
Lemma sv_resume g : sv (resume g) = sv g.
Proof. unfold resume. destruct (st_event (g_st g)); try reflexivity; try apply sv_request_action; apply sv_round_closed. Qed.
Lemma sv_prepare_round g : sv (prepare_round g) = sv g.
Proof.
  unfold prepare_round. destruct (st_round (g_st g)); try apply sv_request_ready;
    destruct (Nat.leb (movable_count g) 1); try apply sv_round_closed; apply sv_request_ready.
Qed.
Lemma sv_find_bb_loop n g : sv (find_bb_loop n g) = sv g.
Proof.
  revert g; induction n as [|n IH]; intros g; simpl; [reflexivity|].
  destruct (p_bb _); [apply sv_set_current|]. rewrite IH. apply sv_set_current.
Qed.
Lemma sv_start_round g : sv (start_round g) = sv g.
Proof.
  unfold start_round. destruct (st_round (g_st (reset_all g))).
  all: try (rewrite sv_request_action, sv_set_event, sv_set_current; apply sv_reset_all).
  destruct (Nat.eqb (movable_count (reset_all g)) 0).
  - rewrite sv_round_closed. apply sv_reset_all.
  - rewrite sv_request_action, sv_set_event, sv_find_bb_loop, sv_set_current. apply sv_reset_all.
Qed.
Lemma sv_game_completed g : sv (fst (game_completed g)) = sv g.
Proof. unfold game_completed. destruct (settle_panics _ _); reflexivity. Qed.
Lemma sv_ante_loop order : forall g, sv (fst (ante_loop order g)) = sv g.
Proof.
  induction order as [|i t IH]; intros g; simpl; [reflexivity|].
  destruct (0 <? p_wager (get_p g i)); [reflexivity|]. rewrite IH, sv_set_last. apply sv_pay.
Qed.
Lemma sv_fold_pay_blind order : forall g, sv (fold_left pay_blind order g) = sv g.
Proof.
  induction order as [|i t IH]; intros g; simpl; [reflexivity|]. rewrite IH. unfold pay_blind.
  destruct (blind_of _ _). rewrite sv_set_last. apply sv_pay.
Qed.

(* hole cards: the generic frame instantiated *)
Definition hv := gv p_hole.
Ltac hole_side := intros; reflexivity.

Lemma kv_of g g' : sv g' = sv g -> hv g' = hv g -> kv g' = kv g.
Proof. unfold sv, hv, gv, kv. intros H1 H2. injection H1 as M B1 B2 D R. now rewrite M, B1, B2, D, R, H2. Qed.

Lemma sv_act g i a x :
  sv (fst (match a with
           | APass => act_pass g i | AFold => act_fold g i | ACheck => act_check g i | ACall => act_call g i
           | AAllin => act_allin g i | ABet => act_bet g i x | ARaise => act_raise g i x | APay => act_pay g i x end)) = sv g.
Proof.
  assert (Hcall : sv (fst (act_call g i)) = sv g).
  { unfold act_call. destruct (negb _); [reflexivity|]. cbn [fst]. now rewrite sv_resume, sv_set_last, sv_pay. }
  assert (Hallin : sv (fst (act_allin g i)) = sv g).
  { unfold act_allin. destruct (negb _); [reflexivity|]. cbn [fst]. rewrite sv_resume, sv_set_last, sv_pay.
    match goal with |- context [if ?c then _ else _] => destruct c end; reflexivity. }
  destruct a.
  - unfold act_pass. destruct (negb _); [reflexivity|]. cbn [fst]. now rewrite sv_resume.
  - unfold act_fold. destruct (negb _); [reflexivity|]. cbn [fst]. now rewrite sv_resume.
  - unfold act_check. destruct (negb _); [reflexivity|]. cbn [fst]. now rewrite sv_resume.
  - exact Hcall.
  - exact Hallin.
  - unfold act_bet. destruct (negb _); [reflexivity|]. destruct (x <=? 0); [reflexivity|].
    destruct (_ <=? x); [exact Hallin|]. cbn [fst]. rewrite sv_resume, sv_set_last.
    transitivity (sv (pay (upd_p g i (fun p => p_set_acted (p_set_did p DBet) true)) i x true)); [reflexivity|]. now rewrite sv_pay.
  - unfold act_raise. destruct (negb _); [reflexivity|]. destruct (_ || _); [reflexivity|].
    destruct (x =? _); [exact Hcall|]. destruct (_ || _); [exact Hallin|]. cbn [fst].
    now rewrite sv_resume, sv_set_last, sv_pay.
  - unfold act_pay. destruct (negb _); [reflexivity|]. cbn [fst]. now rewrite sv_resume, sv_set_last, sv_pay.
Qed.

(* ---------- list facts ---------- *)
Lemma firstn_add {A} (l : list A) a b : firstn (a + b) l = firstn a l ++ firstn b (skipn a l).
Proof.
  revert l; induction a as [|a IH]; intros l; simpl; [reflexivity|].
  destruct l as [|x t]; simpl; [now rewrite firstn_nil|]. now rewrite IH.
Qed.

Lemma skipn_add {A} (l : list A) a b : skipn (a + b) l = skipn b (skipn a l).
Proof.
  revert l; induction a as [|a IH]; intros l; simpl; [reflexivity|].
  destruct l as [|x t]; simpl; [now rewrite skipn_nil|]. apply IH.
Qed.

Lemma deal_holes_concat ps : forall deck h,
  (length ps * h <= length deck)%nat ->
  concat (map p_hole (deal_holes ps deck h)) = firstn (length ps * h) deck /\
  (forall p, In p (deal_holes ps deck h) -> length (p_hole p) = h) /\
  length (deal_holes ps deck h) = length ps.
Proof.
  induction ps as [|p t IH]; intros deck h Hl; simpl in *; [repeat split; intros ? []|].
  assert (Hh : (h <= length deck)%nat) by lia.
  destruct (IH (skipn h deck) h) as (I1 & I2 & I3); [rewrite skipn_length; lia|].
  repeat split.
  - rewrite I1. symmetry. apply firstn_add.
  - intros q [<-|Hq]; [simpl; apply firstn_length_le; exact Hh|apply I2; exact Hq].
  - now rewrite I3.
Qed.

Lemma concat_length_const {A} (ls : list (list A)) h :
  (forall l, In l ls -> length l = h) -> length (concat ls) = (length ls * h)%nat.
Proof.
  induction ls as [|l t IH]; intros H; simpl; [reflexivity|].
  rewrite app_length, (H l (or_introl eq_refl)), IH; [reflexivity|]. intros x Hx. apply H. now right.
Qed.

Lemma holes_length g h :
  (forall i, (i < nplayers g)%nat -> length (p_hole (get_p g i)) = h) -> length (holes g) = (nplayers g * h)%nat.
Proof.
  intros H. unfold holes. rewrite (concat_length_const _ h); [now rewrite map_length|].
  intros l Hl. apply in_map_iff in Hl as [p [<- Hp]]. destruct (In_nth _ _ dflt_p Hp) as [i [Hi Hn]].
  rewrite <- Hn. apply H. exact Hi.
Qed.

(* ---------- dealing the hole cards ---------- *)
Lemma Kinv_enter_preflop g :
  Kinv g -> st_round (g_st g) = RNone ->
  Kinv (fst (enter_preflop g)) /\ snd (enter_preflop g) = Ok /\ st_round (g_st (fst (enter_preflop g))) = Preflop.
Proof.
  intros [A B C D E F] Hr. rewrite Hr in *. simpl in B, C.
  assert (Hh0 : length (holes g) = 0%nat) by (rewrite (holes_length g 0 D); lia).
  assert (Hd0 : st_dpos (g_st g) = 0%nat) by (rewrite E, Hh0, B, C; reflexivity).
  assert (Hb : st_burned (g_st g) = []) by (destruct (st_burned (g_st g)); [reflexivity|discriminate]).
  assert (Hbo : st_board (g_st g) = []) by (destruct (st_board (g_st g)); [reflexivity|discriminate]).
  unfold enter_preflop.
  assert (Hdh : deck_has g (nplayers g * m_hole (g_meta g)) = true) by (unfold deck_has; apply Nat.leb_le; rewrite Hd0; lia).
  rewrite Hdh. cbn [negb].
  set (h := m_hole (g_meta g)). set (n := nplayers g).
  set (ps := deal_holes (g_players g) (skipn (st_dpos (st_set_round (g_st g) Preflop)) (m_deck (g_meta g))) h).
  destruct (deal_holes_concat (g_players g) (skipn (st_dpos (st_set_round (g_st g) Preflop)) (m_deck (g_meta g))) h) as (P1 & P2 & P3).
  { simpl. rewrite Hd0. simpl. fold n h. unfold n, nplayers in *. lia. }
  fold ps in P1, P2, P3.
  assert (P1' : concat (map p_hole ps) = firstn (n * h) (m_deck (g_meta g))).
  { rewrite P1. simpl. rewrite Hd0. reflexivity. }
  set (g1 := with_players (with_st g (st_set_cards (st_set_round (g_st g) Preflop) (st_burned (st_set_round (g_st g) Preflop))
                                       (st_board (st_set_round (g_st g) Preflop)) (st_dpos (st_set_round (g_st g) Preflop) + n * h))) ps).
  assert (K1 : Kinv g1).
  { constructor.
    - unfold dealt, holes, g1. simpl. rewrite Hb, Hbo, Hd0. simpl. rewrite app_nil_r. exact P1'.
    - simpl. rewrite Hb. reflexivity.
    - simpl. rewrite Hbo. reflexivity.
    - intros i Hi. simpl. apply P2. unfold get_p, g1. simpl. apply nth_In. unfold nplayers, g1 in Hi. simpl in Hi. exact Hi.
    - unfold holes, g1. simpl. rewrite P1', Hb, Hbo, Hd0. simpl.
      rewrite firstn_length_le; [lia|]. unfold n, h. lia.
    - unfold g1, nplayers. simpl. rewrite P3. exact F. }
  assert (Hkv : forall gx, sv gx = sv g1 -> hv gx = hv g1 -> Kinv gx) by (intros gx H1 H2; eapply Kinv_kv; [apply kv_of; eassumption|exact K1]).
  match goal with |- context [if ?c then _ else _] => destruct c end; cbn [fst snd].
  - split; [|split; [reflexivity|]].
    + apply Hkv.
      * rewrite sv_prepare_round. reflexivity.
      * unfold hv. rewrite gv_prepare_round, gv_update_combs by hole_side. reflexivity.
    + assert (H : st_round (g_st (prepare_round (update_combs g1))) = st_round (g_st (update_combs g1)))
        by (pose proof (sv_prepare_round (update_combs g1)) as H; unfold sv in H; congruence).
      rewrite H. reflexivity.
  - split; [|split; reflexivity].
    apply Hkv; [reflexivity|]. unfold hv. rewrite gv_set_event, gv_update_combs by hole_side. reflexivity.
Qed.

(* ---------- dealing a street ---------- *)
Definition next_street (r : round) : round :=
  match r with Preflop => Flop | Flop => Turn | Turn => River | _ => RNone end.

Lemma Kinv_enter_street g :
  Kinv g -> (st_round (g_st g) = Preflop \/ st_round (g_st g) = Flop \/ st_round (g_st g) = Turn) ->
  let r := next_street (st_round (g_st g)) in
  Kinv (fst (enter_street g r)) /\ snd (enter_street g r) = Ok.
Proof.
  intros [A B C D E F] Hr r.
  set (h := m_hole (g_meta g)) in *.
  assert (Hh : length (holes g) = (nplayers g * h)%nat).
  { apply holes_length. intros i Hi. rewrite (D i Hi). destruct Hr as [->|[->| ->]]; reflexivity. }
  set (k := match r with Flop => 3%nat | _ => 1%nat end).
  assert (Hlen : (st_dpos (g_st g) + (1 + k) <= length (m_deck (g_meta g)))%nat).
  { rewrite E, Hh, B, C. unfold k, r. destruct Hr as [->|[->| ->]]; simpl; lia. }
  unfold enter_street. fold k.
  assert (Hdh : deck_has g (1 + k) = true) by (unfold deck_has; apply Nat.leb_le; exact Hlen).
  rewrite Hdh. cbn [negb fst snd]. split; [|reflexivity].
  set (cards := deal_cards g (1 + k)).
  assert (Hcl : length cards = (1 + k)%nat).
  { unfold cards, deal_cards. rewrite firstn_length_le; [reflexivity|]. rewrite skipn_length. lia. }
  set (g1 := with_st g (st_set_cards (st_set_round (g_st g) r) (st_burned (st_set_round (g_st g) r) ++ firstn 1 cards)
                                     (st_board (st_set_round (g_st g) r) ++ skipn 1 cards) (st_dpos (st_set_round (g_st g) r) + (1 + k)))).
  assert (K1 : Kinv g1).
  { assert (Hc : exists c0 rest, cards = c0 :: rest /\ length rest = k).
    { destruct cards as [|c0 rest]; [discriminate|]. exists c0, rest. split; [reflexivity|]. simpl in Hcl. lia. }
    destruct Hc as (c0 & rest & Ec & Hrest).
    constructor.
    - assert (Hf : firstn (1 + k) (skipn (st_dpos (g_st g)) (m_deck (g_meta g))) = c0 :: rest) by (rewrite <- Ec; reflexivity).
      unfold dealt, g1.
      cbn [g_st g_meta with_st st_burned st_board st_dpos st_set_cards st_set_round].
      change (holes (with_st g _)) with (holes g).
      rewrite firstn_add, <- A, Hf, Ec. unfold dealt. rewrite <- app_assoc. f_equal.
      cbn [firstn skipn].
      unfold k, r in *. destruct Hr as [Hr|[Hr|Hr]]; rewrite Hr in *; simpl in *.
      + destruct (st_burned (g_st g)); [|discriminate]. destruct (st_board (g_st g)); [|discriminate].
        destruct rest as [|f1 [|f2 [|f3 [|]]]]; try discriminate. reflexivity.
      + destruct (st_burned (g_st g)) as [|b1 [|]]; try discriminate.
        destruct (st_board (g_st g)) as [|f1 [|f2 [|f3 [|]]]]; try discriminate.
        destruct rest as [|t1 [|]]; try discriminate. reflexivity.
      + destruct (st_burned (g_st g)) as [|b1 [|b2 [|]]]; try discriminate.
        destruct (st_board (g_st g)) as [|f1 [|f2 [|f3 [|t1 [|]]]]]; try discriminate.
        destruct rest as [|r1 [|]]; try discriminate. reflexivity.
    - unfold g1. simpl. rewrite app_length, B, Ec. simpl. unfold r. destruct Hr as [->|[->| ->]]; reflexivity.
    - unfold g1. simpl. rewrite app_length, C, Ec. simpl. rewrite Hrest. unfold k, r. destruct Hr as [->|[->| ->]]; reflexivity.
    - intros i Hi. unfold g1. simpl. change (get_p (with_st g _) i) with (get_p g i). rewrite (D i Hi).
      unfold r. destruct Hr as [->|[->| ->]]; reflexivity.
    - unfold g1. simpl. change (holes (with_st g _)) with (holes g). rewrite !app_length, E, Ec. simpl. rewrite Hrest. lia.
    - exact F. }
  eapply Kinv_kv; [|exact K1]. apply kv_of.
  - rewrite sv_prepare_round. transitivity (sv (set_current g1 (dealer_of g1))); [reflexivity|apply sv_set_current].
  - unfold hv. rewrite gv_prepare_round, gv_update_combs, gv_set_current by hole_side. reflexivity.
Qed.

(* ---------- every operation ---------- *)
Record Kinv2 (g : gstate) : Prop := mkKinv2 {
  k2_cards : Kinv g;
  k2_ante : st_event (g_st g) = EvAnteRequested -> st_round (g_st g) = RNone }.

Lemma Kinv_frame g g' : sv g' = sv g -> hv g' = hv g -> Kinv g -> Kinv g'.
Proof. intros H1 H2. apply Kinv_kv. apply kv_of; assumption. Qed.

Lemma sv_round g g' : sv g' = sv g -> st_round (g_st g') = st_round (g_st g).
Proof. unfold sv. intros H. congruence. Qed.

Lemma event_prepare_round g : st_event (g_st (prepare_round g)) <> EvAnteRequested.
Proof.
  unfold prepare_round. destruct (st_round (g_st g)); try (simpl; discriminate);
    destruct (Nat.leb (movable_count g) 1); simpl; discriminate.
Qed.

Lemma event_request_action g :
  st_event (g_st g) = EvRoundStarted -> st_event (g_st (request_action g)) <> EvAnteRequested.
Proof.
  intros He. unfold request_action.
  destruct (Nat.eqb (alive_count g) 1); [simpl; discriminate|].
  destruct (Nat.eqb (movable_count g) 0); [simpl; discriminate|].
  destruct (p_acted _); [simpl; discriminate|]. simpl. rewrite He. discriminate.
Qed.

Lemma event_resume g :
  st_event (g_st (resume g)) = EvAnteRequested -> st_event (g_st g) = EvAnteRequested.
Proof.
  unfold resume. destruct (st_event (g_st g)) eqn:E; try (intros H; rewrite E in H; discriminate); try reflexivity.
  - intros H. exfalso. apply (event_request_action g E). exact H.
  - simpl. discriminate.
Qed.

Lemma event_start_round g : st_event (g_st (start_round g)) <> EvAnteRequested.
Proof.
  unfold start_round. destruct (st_round (g_st (reset_all g))).
  all: try (apply event_request_action; reflexivity).
  destruct (Nat.eqb (movable_count (reset_all g)) 0); [simpl; discriminate|apply event_request_action; reflexivity].
Qed.

Lemma event_enter_preflop g :
  snd (enter_preflop g) = Ok -> st_event (g_st (fst (enter_preflop g))) <> EvAnteRequested.
Proof.
  unfold enter_preflop. destruct (negb (deck_has g _)); [discriminate|].
  match goal with |- context [if ?c then _ else _] => destruct c end; cbn [fst snd]; intros _;
    [apply event_prepare_round|simpl; discriminate].
Qed.

Lemma Kinv2_do_ready g : Kinv2 g -> Kinv2 (fst (do_ready g)).
Proof.
  intros [K A]. unfold do_ready.
  destruct (negb (event_eqb (st_event (g_st g)) EvReadyRequested)); [split; assumption|].
  assert (K0 : Kinv (reset_all g)) by (apply (Kinv_frame g); [apply sv_reset_all|unfold hv; apply gv_reset_all; hole_side|exact K]).
  destruct (st_round (g_st (reset_all g))) eqn:Er.
  - destruct (0 <? m_ante (g_meta (reset_all g))); cbn [fst].
    + split; [apply (Kinv_frame (reset_all g)); [reflexivity|reflexivity|exact K0]|intros _; exact Er].
    + destruct (Kinv_enter_preflop (reset_all g) K0 Er) as (K1 & O1 & R1).
      split; [exact K1|]. intros E. exfalso. apply (event_enter_preflop (reset_all g) O1). exact E.
  - cbn [fst]. split; [apply (Kinv_frame (reset_all g)); [apply sv_start_round|unfold hv; apply gv_start_round; hole_side|exact K0]|].
    intros E. exfalso. apply (event_start_round (reset_all g)). exact E.
  - cbn [fst]. split; [apply (Kinv_frame (reset_all g)); [apply sv_start_round|unfold hv; apply gv_start_round; hole_side|exact K0]|].
    intros E. exfalso. apply (event_start_round (reset_all g)). exact E.
  - cbn [fst]. split; [apply (Kinv_frame (reset_all g)); [apply sv_start_round|unfold hv; apply gv_start_round; hole_side|exact K0]|].
    intros E. exfalso. apply (event_start_round (reset_all g)). exact E.
  - cbn [fst]. split; [apply (Kinv_frame (reset_all g)); [apply sv_start_round|unfold hv; apply gv_start_round; hole_side|exact K0]|].
    intros E. exfalso. apply (event_start_round (reset_all g)). exact E.
Qed.

Lemma event_ante_loop order : forall g, st_event (g_st (fst (ante_loop order g))) = st_event (g_st g).
Proof.
  induction order as [|i t IH]; intros g; simpl; [reflexivity|].
  destruct (0 <? p_wager (get_p g i)); [reflexivity|]. rewrite IH. simpl.
  unfold pay, become_raiser, reset_acted, map_p, upd_p, with_st, with_players.
  repeat match goal with |- context [if ?c then _ else _] => destruct c end; reflexivity.
Qed.

Lemma Kinv2_do_pay_ante g : Kinv2 g -> Kinv2 (fst (do_pay_ante g)).
Proof.
  intros [K A]. unfold do_pay_ante.
  destruct (m_ante (g_meta g) =? 0); [split; assumption|].
  destruct (event_eqb (st_event (g_st g)) EvAnteRequested) eqn:Ee; [|split; assumption]. cbn [negb].
  assert (He : st_event (g_st g) = EvAnteRequested) by (destruct (st_event (g_st g)); try discriminate; reflexivity).
  pose proof (sv_ante_loop (player_order g) g) as S1.
  assert (H1 : hv (fst (ante_loop (player_order g) g)) = hv g) by (unfold hv; apply gv_ante_loop; hole_side).
  pose proof (event_ante_loop (player_order g) g) as E1.
  destruct (ante_loop (player_order g) g) as [g1 b]. cbn [fst] in *.
  assert (K1 : Kinv g1) by (apply (Kinv_frame g); [exact S1|exact H1|exact K]).
  destruct b; cbn [fst].
  - set (g3 := reset_round_status (reset_all_status (update_pots (reset_all g1)))).
    assert (K3 : Kinv g3).
    { apply (Kinv_frame g1); [|unfold hv, g3; rewrite gv_reset_round_status, gv_reset_all_status, gv_update_pots, gv_reset_all by hole_side; reflexivity|exact K1].
      reflexivity. }
    assert (R3 : st_round (g_st g3) = RNone).
    { transitivity (st_round (g_st g1)); [reflexivity|]. rewrite (sv_round _ _ S1). apply A. exact He. }
    destruct (Kinv_enter_preflop g3 K3 R3) as (K4 & O4 & _).
    split; [exact K4|]. intros E. exfalso. apply (event_enter_preflop g3 O4). exact E.
  - split; [exact K1|]. intros _. rewrite (sv_round _ _ S1). apply A. exact He.
Qed.

Lemma Kinv2_do_pay_blinds g : Kinv2 g -> Kinv2 (fst (do_pay_blinds g)).
Proof.
  intros [K A]. unfold do_pay_blinds.
  destruct (negb (event_eqb (st_event (g_st g)) EvBlindsRequested)); [split; assumption|]. cbn [fst].
  split; [|intros E; exfalso; apply (event_prepare_round _ E)].
  apply (Kinv_frame g); [| |exact K].
  - rewrite sv_prepare_round, sv_reset_all. transitivity (sv (fold_left pay_blind (player_order g) g)); [reflexivity|apply sv_fold_pay_blind].
  - unfold hv. rewrite gv_prepare_round, gv_reset_all, gv_with_st by hole_side. apply gv_fold_pay_blind; hole_side.
Qed.

Lemma Kinv2_do_next g : Kinv2 g -> Kinv2 (fst (do_next g)).
Proof.
  intros [K A]. unfold do_next.
  destruct (event_eqb (st_event (g_st g)) EvRoundClosed) eqn:Ee; [|split; assumption]. cbn [negb].
  assert (He : st_event (g_st g) = EvRoundClosed) by (destruct (st_event (g_st g)); try discriminate; reflexivity).
  set (g0 := set_last g (-1) LNext 0).
  set (g1 := reset_all_status (reset_round_status g0)).
  assert (K1 : Kinv g1).
  { apply (Kinv_frame g); [reflexivity| |exact K]. unfold hv, g1, g0. rewrite gv_reset_all_status, gv_reset_round_status, gv_set_last by hole_side. reflexivity. }
  assert (R1 : st_round (g_st g1) = st_round (g_st g0)) by reflexivity.
  assert (Hgc : snd (game_completed g1) <> Panic -> Kinv2 (fst (game_completed g1))).
  { intros _. split.
    - apply (Kinv_frame g1); [apply sv_game_completed|unfold hv; apply gv_game_completed|exact K1].
    - unfold game_completed. destruct (settle_panics _ _); cbn [fst]; [|simpl; discriminate].
      unfold g1, g0. simpl. rewrite He. discriminate. }
  assert (Hst : st_round (g_st g0) = Preflop \/ st_round (g_st g0) = Flop \/ st_round (g_st g0) = Turn ->
                Kinv2 (fst (enter_street g1 (next_street (st_round (g_st g0))))) /\ snd (enter_street g1 (next_street (st_round (g_st g0)))) = Ok).
  { intros Hr. rewrite <- R1 in *. destruct (Kinv_enter_street g1 K1 Hr) as [K2 O2]. split; [|exact O2]. split; [exact K2|].
    unfold enter_street in *. destruct (negb (deck_has g1 _)); [discriminate|]. cbn [fst]. intros E. exfalso. apply (event_prepare_round _ E). }
  destruct (st_round (g_st g0)) eqn:Er.
  - cbn [fst]. split; [apply (Kinv_frame g); [reflexivity|reflexivity|exact K]|]. simpl. rewrite He. discriminate.
  - destruct (Nat.eqb (alive_count g1) 1).
    + destruct (game_completed g1) as [g2 o2] eqn:Eg; cbn [fst snd] in *. destruct o2; cbn [fst]; try (apply Hgc; discriminate); split; assumption.
    + destruct (Hst (or_introl eq_refl)) as [H1 H2]. cbn [next_street] in *.
      destruct (enter_street g1 Flop) as [g2 o2]; cbn [fst snd] in *. subst o2. exact H1.
  - destruct (Nat.eqb (alive_count g1) 1).
    + destruct (game_completed g1) as [g2 o2] eqn:Eg; cbn [fst snd] in *. destruct o2; cbn [fst]; try (apply Hgc; discriminate); split; assumption.
    + destruct (Hst (or_intror (or_introl eq_refl))) as [H1 H2]. cbn [next_street] in *.
      destruct (enter_street g1 Turn) as [g2 o2]; cbn [fst snd] in *. subst o2. exact H1.
  - destruct (Nat.eqb (alive_count g1) 1).
    + destruct (game_completed g1) as [g2 o2] eqn:Eg; cbn [fst snd] in *. destruct o2; cbn [fst]; try (apply Hgc; discriminate); split; assumption.
    + destruct (Hst (or_intror (or_intror eq_refl))) as [H1 H2]. cbn [next_street] in *.
      destruct (enter_street g1 River) as [g2 o2]; cbn [fst snd] in *. subst o2. exact H1.
  - destruct (Nat.eqb (alive_count g1) 1).
    + destruct (game_completed g1) as [g2 o2] eqn:Eg; cbn [fst snd] in *. destruct o2; cbn [fst]; try (apply Hgc; discriminate); split; assumption.
    + destruct (game_completed g1) as [g2 o2] eqn:Eg; cbn [fst snd] in *. destruct o2; cbn [fst]; try (apply Hgc; discriminate); split; assumption.
Qed.

Lemma event_act g i a x :
  let r := fst (match a with
                | APass => act_pass g i | AFold => act_fold g i | ACheck => act_check g i | ACall => act_call g i
                | AAllin => act_allin g i | ABet => act_bet g i x | ARaise => act_raise g i x | APay => act_pay g i x end) in
  st_event (g_st r) = EvAnteRequested -> st_event (g_st g) = EvAnteRequested.
Proof.
  assert (Hcall : st_event (g_st (fst (act_call g i))) = EvAnteRequested -> st_event (g_st g) = EvAnteRequested).
  { unfold act_call. destruct (negb _); [auto|]. cbn [fst]. intros H. apply event_resume in H. simpl in H. rewrite event_pay in H. exact H. }
  assert (Hallin : st_event (g_st (fst (act_allin g i))) = EvAnteRequested -> st_event (g_st g) = EvAnteRequested).
  { unfold act_allin. destruct (negb _); [auto|]. cbn [fst]. intros H. apply event_resume in H. simpl in H. rewrite event_pay in H.
    match type of H with context [if ?c then _ else _] => destruct c end; exact H. }
  destruct a; cbv zeta.
  - unfold act_pass. destruct (negb _); [auto|]. cbn [fst]. intros H. apply event_resume in H. exact H.
  - unfold act_fold. destruct (negb _); [auto|]. cbn [fst]. intros H. apply event_resume in H. exact H.
  - unfold act_check. destruct (negb _); [auto|]. cbn [fst]. intros H. apply event_resume in H. exact H.
  - exact Hcall.
  - exact Hallin.
  - unfold act_bet. destruct (negb _); [auto|]. destruct (x <=? 0); [auto|]. destruct (_ <=? x); [exact Hallin|]. cbn [fst].
    intros H. apply event_resume in H. simpl in H. rewrite event_pay in H. exact H.
  - unfold act_raise. destruct (negb _); [auto|]. destruct (_ || _); [auto|]. destruct (x =? _); [exact Hcall|].
    destruct (_ || _); [exact Hallin|]. cbn [fst]. intros H. apply event_resume in H. simpl in H. rewrite event_pay in H. exact H.
  - unfold act_pay. destruct (negb _); [auto|]. cbn [fst]. intros H. apply event_resume in H. simpl in H. rewrite event_pay in H. exact H.
Qed.

Theorem Kinv2_step g o : Kinv2 g -> Kinv2 (fst (step g o)).
Proof.
  intros HK. destruct o as [| | | |who a x]; simpl.
  - apply Kinv2_do_ready; exact HK.
  - apply Kinv2_do_pay_ante; exact HK.
  - apply Kinv2_do_pay_blinds; exact HK.
  - apply Kinv2_do_next; exact HK.
  - set (i := match who with Some i => i | None => st_cur (g_st g) end).
    destruct (negb (Nat.ltb i (nplayers g))); [exact HK|].
    destruct HK as [K A].
    pose proof (sv_act g i a x) as S. pose proof (event_act g i a x) as E. cbv zeta in E.
    assert (H : hv (fst (match a with
             | APass => act_pass g i | AFold => act_fold g i | ACheck => act_check g i | ACall => act_call g i
             | AAllin => act_allin g i | ABet => act_bet g i x | ARaise => act_raise g i x | APay => act_pay g i x end)) = hv g)
      by (unfold hv; apply gv_act; hole_side).
    destruct a; (split; [apply (Kinv_frame g); assumption|intros Ev; rewrite (sv_round _ _ S); apply A, E, Ev]).
Qed.

Theorem Kinv2_run ops : forall g, Kinv2 g -> Kinv2 (run g ops).
Proof. unfold run. induction ops as [|o t IH]; intros g H; simpl; [exact H|]. apply IH, Kinv2_step, H. Qed.

Theorem Kinv2_create c deck g :
  create c deck = (g, Ok) -> length deck = length (c_deck c) -> Kinv2 g.
Proof.
  intros Hcr Hlen. unfold create in Hcr.
  destruct (Nat.ltb (length (map init_player (c_players c))) 2); [discriminate|].
  destruct (dealer_opt _); [|discriminate].
  destruct (existsb _ _); [discriminate|].
  destruct (Nat.eqb (length (c_deck c)) 0); [discriminate|].
  destruct (Nat.ltb (length (c_deck c)) _) eqn:E; [discriminate|]. apply Nat.ltb_ge in E.
  injection Hcr as <-.
  assert (Hh : forall l : list (Z * (bool * bool * bool)), concat (map p_hole (map init_player l)) = []).
  { induction l as [|[bk [[d sb] bb]] t IH]; simpl; [reflexivity|exact IH]. }
  split; [|simpl; discriminate].
  constructor; simpl.
  - unfold dealt, holes. simpl. rewrite map_map.
    replace (map (fun x => p_hole (p_set_allowed (p_set_acted (init_player x) false) [])) (c_players c))
      with (map p_hole (map init_player (c_players c))) by (rewrite map_map; apply map_ext; intros [bk [[d sb] bb]]; reflexivity).
    rewrite Hh. reflexivity.
  - reflexivity.
  - reflexivity.
  - intros i Hi. unfold get_p. simpl. rewrite map_map.
    match goal with |- length (p_hole (nth i (map ?f ?l) dflt_p)) = _ =>
      destruct (nth_in_or_default i (map f l) dflt_p) as [Hin|Hd]; [|rewrite Hd; reflexivity];
      apply in_map_iff in Hin as [[bk [[d sb] bb]] [<- _]]; reflexivity end.
  - unfold holes. simpl. rewrite map_map.
    replace (map (fun x => p_hole (p_set_allowed (p_set_acted (init_player x) false) [])) (c_players c))
      with (map p_hole (map init_player (c_players c))) by (rewrite map_map; apply map_ext; intros [bk [[d sb] bb]]; reflexivity).
    rewrite Hh. reflexivity.
  - unfold nplayers. simpl. rewrite !map_length in *. rewrite Hlen. exact E.
Qed.

(* ---------- corollaries ---------- *)
Lemma interleave_perm b d : length (interleave b d) = (length b + length d)%nat.
Proof.
  unfold interleave.
  destruct b as [|b1 [|b2 [|b3 [|]]]]; destruct d as [|f1 [|f2 [|f3 [|t [|r [|]]]]]]; simpl; try rewrite app_length; simpl; lia.
Qed.

Lemma NoDup_firstn {A} n (l : list A) : NoDup l -> NoDup (firstn n l).
Proof.
  revert l; induction n as [|n IH]; intros l H; simpl; [constructor|].
  destruct l as [|x t]; [constructor|]. inversion H as [|? ? Hx Ht]; subst. constructor; [|apply IH; exact Ht].
  intros Hin. apply Hx. rewrite <- (firstn_skipn n t). apply in_or_app. now left.
Qed.

(* no card is ever dealt twice: the cards on the table are the consumed top of the deck *)
Theorem dealt_is_top_of_deck c deck g ops :
  create c deck = (g, Ok) -> length deck = length (c_deck c) ->
  let s := run g ops in
  dealt s = firstn (st_dpos (g_st s)) (m_deck (g_meta s)) /\
  (NoDup (m_deck (g_meta s)) -> NoDup (dealt s)).
Proof.
  intros Hcr Hl s. pose proof (Kinv2_run ops g (Kinv2_create c deck g Hcr Hl)) as [[A _ _ _ _ _] _]. fold s in A.
  split; [exact A|]. intros Hn. rewrite A. apply NoDup_firstn. exact Hn.
Qed.

(* the deck itself never changes *)
Lemma meta_of_sv g g' : sv g' = sv g -> g_meta g' = g_meta g.
Proof. unfold sv. intros H. injection H as H _ _ _ _. exact H. Qed.

Lemma meta_prepare_round g : g_meta (prepare_round g) = g_meta g.
Proof. apply meta_of_sv, sv_prepare_round. Qed.

Lemma meta_enter_street g r : g_meta (fst (enter_street g r)) = g_meta g.
Proof.
  unfold enter_street. destruct (negb (deck_has g _)); [reflexivity|]. cbn [fst].
  rewrite meta_prepare_round. reflexivity.
Qed.

Lemma meta_enter_preflop g : g_meta (fst (enter_preflop g)) = g_meta g.
Proof.
  unfold enter_preflop. destruct (negb (deck_has g _)); [reflexivity|].
  match goal with |- context [if ?c then _ else _] => destruct c end; cbn [fst]; rewrite ?meta_prepare_round; reflexivity.
Qed.

Lemma meta_step g o : g_meta (fst (step g o)) = g_meta g.
Proof.
  destruct o as [| | | |who a x]; simpl.
  - unfold do_ready. destruct (negb _); [reflexivity|].
    destruct (st_round (g_st (reset_all g))).
    + destruct (0 <? _); cbn [fst]; [reflexivity|]. rewrite meta_enter_preflop. reflexivity.
    + cbn [fst]. rewrite (meta_of_sv _ _ (sv_start_round (reset_all g))). reflexivity.
    + cbn [fst]. rewrite (meta_of_sv _ _ (sv_start_round (reset_all g))). reflexivity.
    + cbn [fst]. rewrite (meta_of_sv _ _ (sv_start_round (reset_all g))). reflexivity.
    + cbn [fst]. rewrite (meta_of_sv _ _ (sv_start_round (reset_all g))). reflexivity.
  - unfold do_pay_ante. destruct (_ =? 0); [reflexivity|]. destruct (negb _); [reflexivity|].
    pose proof (meta_of_sv _ _ (sv_ante_loop (player_order g) g)) as M1.
    destruct (ante_loop (player_order g) g) as [g1 b]. cbn [fst] in *.
    destruct b; cbn [fst]; [|exact M1]. rewrite meta_enter_preflop. exact M1.
  - unfold do_pay_blinds. destruct (negb _); [reflexivity|]. cbn [fst].
    rewrite meta_prepare_round. simpl. apply (meta_of_sv _ _ (sv_fold_pay_blind (player_order g) g)).
  - unfold do_next. destruct (negb _); [reflexivity|].
    set (g1 := reset_all_status (reset_round_status (set_last g (-1) LNext 0))).
    assert (Hgc : g_meta (fst (game_completed g1)) = g_meta g) by (rewrite (meta_of_sv _ _ (sv_game_completed g1)); reflexivity).
    assert (Hst : forall r, g_meta (fst (enter_street g1 r)) = g_meta g) by (intros r; rewrite meta_enter_street; reflexivity).
    destruct (st_round (g_st (set_last g (-1) LNext 0))); [reflexivity| | | |];
      destruct (Nat.eqb (alive_count g1) 1);
      try (destruct (game_completed g1) as [g2 o2] eqn:E; cbn [fst] in *; destruct o2; cbn [fst]; try reflexivity; exact Hgc).
    all: match goal with |- context [enter_street ?gg ?r] =>
           pose proof (Hst r) as H; destruct (enter_street gg r) as [g2 o2]; cbn [fst] in *; destruct o2; cbn [fst]; try reflexivity; exact H end.
  - set (i := match who with Some i => i | None => st_cur (g_st g) end).
    destruct (negb (Nat.ltb i (nplayers g))); [reflexivity|].
    pose proof (meta_of_sv _ _ (sv_act g i a x)) as S. destruct a; exact S.
Qed.

Theorem deck_never_changes ops : forall g, g_meta (run g ops) = g_meta g.
Proof. unfold run. induction ops as [|o t IH]; intros g; simpl; [reflexivity|]. rewrite IH. apply meta_step. Qed.
