(* ProofsSettle.v — the settlement model: what Calculate does to the players (C02, closing clauses of C01).
   Structure: (1) the player list, (2) a players-only description of the calculation,
   (3) the round-robin arithmetic, (4) rank groups, (5) scoring, (6) level-by-level facts. *)
From Coq Require Import Lia Permutation.
From PF Require Import Base ModelPot ModelSettle ProofsSort ProofsPot.

(* ---------- (1) the player list ---------- *)
Definition idxs (ps : list presult) : list Z := map r_idx ps.

(* the change / final stack recorded for player x (0 when x is not a player) *)
Fixpoint chg (ps : list presult) (x : Z) : Z :=
  match ps with [] => 0 | p :: t => if r_idx p =? x then r_changed p else chg t x end.
Fixpoint fin (ps : list presult) (x : Z) : Z :=
  match ps with [] => 0 | p :: t => if r_idx p =? x then r_final p else fin t x end.

Definition sumc (ps : list presult) : Z := zsum (map r_changed ps).
Definition base_of (ps : list presult) : list Z := map (fun p => r_final p - r_changed p) ps.

Lemma player_add_idxs idx w ps : idxs (player_add idx w ps) = idxs ps.
Proof. induction ps as [|p t IH]; simpl; [reflexivity|]. destruct (r_idx p =? idx); simpl; [reflexivity|now rewrite IH]. Qed.

Lemma player_add_base idx w ps : base_of (player_add idx w ps) = base_of ps.
Proof.
  induction ps as [|p t IH]; simpl; [reflexivity|]. destruct (r_idx p =? idx); simpl; [f_equal; lia|now rewrite IH].
Qed.

Lemma player_add_chg idx w ps x :
  In idx (idxs ps) -> chg (player_add idx w ps) x = chg ps x + (if idx =? x then w else 0).
Proof.
  induction ps as [|p t IH]; intros Hin; [contradiction|]. simpl.
  destruct (r_idx p =? idx) eqn:E.
  - apply Z.eqb_eq in E. simpl. rewrite E. destruct (idx =? x); lia.
  - apply Z.eqb_neq in E. simpl. destruct (r_idx p =? x) eqn:E2.
    + apply Z.eqb_eq in E2. replace (idx =? x) with false by (symmetry; apply Z.eqb_neq; lia). lia.
    + apply IH. destruct Hin as [Hin|Hin]; [contradiction|exact Hin].
Qed.

Lemma player_add_sumc idx w ps : In idx (idxs ps) -> sumc (player_add idx w ps) = sumc ps + w.
Proof.
  unfold sumc. induction ps as [|p t IH]; intros Hin; [contradiction|]. simpl.
  destruct (r_idx p =? idx) eqn:E; simpl; [lia|].
  apply Z.eqb_neq in E. rewrite IH; [lia|]. destruct Hin as [Hin|Hin]; [contradiction|exact Hin].
Qed.

(* chg / fin and base_of *)
Lemma fin_chg_base ps x b :
  (forall p, In p ps -> r_idx p = x -> r_final p - r_changed p = b) -> In x (idxs ps) -> fin ps x = b + chg ps x.
Proof.
  induction ps as [|p t IH]; intros H Hin; [contradiction|]. simpl.
  destruct (r_idx p =? x) eqn:E.
  - apply Z.eqb_eq in E. specialize (H p (or_introl eq_refl) E). lia.
  - apply Z.eqb_neq in E. apply IH; [intros q Hq; apply H; now right|]. destruct Hin as [Hin|Hin]; [contradiction|exact Hin].
Qed.

(* ---------- (2) players-only description ---------- *)
Definition extra (i count offset remainder : Z) : Z :=
  if ((i - offset mod count + count) mod count) <? remainder then 1 else 0.

(* what the winners ws (positions i, i+1, ...) are paid, seen from player x, and in total *)
Fixpoint wshare (ws : list Z) (i count offset based remainder wager x : Z) : Z :=
  match ws with
  | [] => 0
  | w :: t => (if w =? x then based + extra i count offset remainder - wager else 0)
              + wshare t (i + 1) count offset based remainder wager x
  end.
Fixpoint wtotal (ws : list Z) (i count offset based remainder wager : Z) : Z :=
  match ws with
  | [] => 0
  | w :: t => (based + extra i count offset remainder - wager) + wtotal t (i + 1) count offset based remainder wager
  end.

Definition occ (x : Z) (l : list Z) : Z := zsum (map (fun y => if y =? x then 1 else 0) l).

Record same_players (a b : list presult) : Prop := mkSame {
  sp_idxs : idxs b = idxs a;
  sp_base : base_of b = base_of a }.

Lemma same_refl a : same_players a a. Proof. split; reflexivity. Qed.
Lemma same_trans a b c : same_players a b -> same_players b c -> same_players a c.
Proof. intros [A1 A2] [B1 B2]. split; congruence. Qed.

Lemma upd_players idx wager withdraw st : snd (upd idx wager withdraw st) = player_add idx withdraw (snd st).
Proof. reflexivity. Qed.

Lemma pay_winners_players ws : forall i count offset based remainder wager st,
  (forall w, In w ws -> In w (idxs (snd st))) ->
  let st' := pay_winners ws i count offset based remainder wager st in
  same_players (snd st) (snd st') /\
  (forall x, chg (snd st') x = chg (snd st) x + wshare ws i count offset based remainder wager x) /\
  sumc (snd st') = sumc (snd st) + wtotal ws i count offset based remainder wager.
Proof.
  induction ws as [|w t IH]; intros i count offset based remainder wager st Hin; cbn [pay_winners wshare wtotal].
  - split; [apply same_refl|]. split; [intros x|]; lia.
  - fold (extra i count offset remainder).
    set (st1 := upd w wager (based + extra i count offset remainder - wager) st).
    assert (Hw : In w (idxs (snd st))) by (apply Hin; now left).
    assert (H1 : idxs (snd st1) = idxs (snd st)) by (unfold st1; rewrite upd_players; apply player_add_idxs).
    destruct (IH (i + 1) count offset based remainder wager st1) as (S & C & T).
    { intros v Hv. rewrite H1. apply Hin. now right. }
    split; [|split].
    + eapply same_trans; [|exact S]. split; [exact H1|]. unfold st1. rewrite upd_players. apply player_add_base.
    + intros x. rewrite C. unfold st1 at 1. rewrite upd_players, player_add_chg by exact Hw. lia.
    + rewrite T. unfold st1 at 1. rewrite upd_players, player_add_sumc by exact Hw. lia.
Qed.

Lemma losers_players wager ls : forall st,
  (forall l, In l ls -> In l (idxs (snd st))) ->
  let st' := fold_left (fun st l => upd l wager (- wager) st) ls st in
  same_players (snd st) (snd st') /\
  (forall x, chg (snd st') x = chg (snd st) x - wager * occ x ls) /\
  sumc (snd st') = sumc (snd st) - wager * zn (length ls).
Proof.
  induction ls as [|l t IH]; intros st Hin; cbn [fold_left].
  - unfold occ. simpl. split; [apply same_refl|]. split; [intros x|]; lia.
  - set (st1 := upd l wager (- wager) st).
    assert (Hl : In l (idxs (snd st))) by (apply Hin; now left).
    assert (H1 : idxs (snd st1) = idxs (snd st)) by (unfold st1; rewrite upd_players; apply player_add_idxs).
    destruct (IH st1) as (S & C & T).
    { intros v Hv. rewrite H1. apply Hin. now right. }
    split; [|split].
    + eapply same_trans; [|exact S]. split; [exact H1|]. unfold st1. rewrite upd_players. apply player_add_base.
    + intros x. rewrite C. unfold st1 at 1. rewrite upd_players, player_add_chg by exact Hl.
      unfold occ. cbn [map zsum]. destruct (l =? x); lia.
    + rewrite T. unfold st1 at 1. rewrite upd_players, player_add_sumc by exact Hl.
      cbn [length]. unfold zn. rewrite Nat2Z.inj_succ. lia.
Qed.

(* one level *)
Definition cnt_of (li : linfo) : Z := zn (length (winners_of li)).
Definition rem_of (li : linfo) : Z := li_total li mod cnt_of li.

Definition level_share (li : linfo) (off x : Z) : Z :=
  wshare (winners_of li) 0 (cnt_of li) off (li_total li / cnt_of li) (rem_of li) (li_wager li) x
  - li_wager li * occ x (losers_of li).
Definition level_total (li : linfo) (off : Z) : Z :=
  wtotal (winners_of li) 0 (cnt_of li) off (li_total li / cnt_of li) (rem_of li) (li_wager li)
  - li_wager li * zn (length (losers_of li)).

Definition level_members_in (li : linfo) (ids : list Z) : Prop :=
  forall w, In w (winners_of li ++ losers_of li) -> In w ids.

Lemma calc_level_players li off st :
  level_members_in li (idxs (snd st)) ->
  let r := calc_level li off st in
  snd r = off + rem_of li /\
  same_players (snd st) (snd (fst r)) /\
  (forall x, chg (snd (fst r)) x = chg (snd st) x + level_share li off x) /\
  sumc (snd (fst r)) = sumc (snd st) + level_total li off.
Proof.
  intros Hin. unfold calc_level. cbv zeta. cbn [fst snd]. split; [reflexivity|].
  fold (cnt_of li). fold (rem_of li).
  destruct (pay_winners_players (winners_of li) 0 (cnt_of li) off (li_total li / cnt_of li) (rem_of li) (li_wager li) st)
    as (S1 & C1 & T1).
  { intros w Hw. apply Hin. apply in_or_app. now left. }
  set (st1 := pay_winners _ _ _ _ _ _ _ st) in *.
  destruct (losers_players (li_wager li) (losers_of li) st1) as (S2 & C2 & T2).
  { intros l Hl. rewrite (sp_idxs _ _ S1). apply Hin. apply in_or_app. now right. }
  split; [eapply same_trans; eassumption|]. split.
  - intros x. rewrite C2, C1. unfold level_share. lia.
  - rewrite T2, T1. unfold level_total. lia.
Qed.

Fixpoint levels_share (ls : list linfo) (off x : Z) : Z :=
  match ls with [] => 0 | li :: t => level_share li off x + levels_share t (off + rem_of li) x end.
Fixpoint levels_total (ls : list linfo) (off : Z) : Z :=
  match ls with [] => 0 | li :: t => level_total li off + levels_total t (off + rem_of li) end.

Lemma calc_levels_players ls : forall off st,
  (forall li, In li ls -> level_members_in li (idxs (snd st))) ->
  let st' := calc_levels ls off st in
  same_players (snd st) (snd st') /\
  (forall x, chg (snd st') x = chg (snd st) x + levels_share ls off x) /\
  sumc (snd st') = sumc (snd st) + levels_total ls off.
Proof.
  induction ls as [|li t IH]; intros off st Hin; cbn [calc_levels levels_share levels_total].
  - split; [apply same_refl|]. split; [intros x|]; lia.
  - destruct (calc_level_players li off st (Hin li (or_introl eq_refl))) as (O & S & C & T).
    destruct (calc_level li off st) as [st1 off1]. cbn [fst snd] in *. subst off1.
    destruct (IH (off + rem_of li) st1) as (S2 & C2 & T2).
    { intros l Hl. rewrite (sp_idxs _ _ S). apply Hin. now right. }
    split; [eapply same_trans; eassumption|]. split.
    + intros x. rewrite C2, C. lia.
    + rewrite T2, T. lia.
Qed.

Definition pot_share (p : potres) (x : Z) : Z := levels_share (pr_levels p) 0 x.
Definition pot_net_total (p : potres) : Z := levels_total (pr_levels p) 0.
Definition pots_share (ps : list potres) (x : Z) : Z := zsum (map (fun p => pot_share p x) ps).
Definition pots_net_total (ps : list potres) : Z := zsum (map pot_net_total ps).

Definition members_in (ps : list potres) (ids : list Z) : Prop :=
  forall p li, In p ps -> In li (pr_levels p) -> level_members_in li ids.

Lemma calc_pots_players ps : forall pl,
  members_in ps (idxs pl) ->
  let r := calc_pots ps pl in
  same_players pl (snd r) /\
  (forall x, chg (snd r) x = chg pl x + pots_share ps x) /\
  sumc (snd r) = sumc pl + pots_net_total ps.
Proof.
  induction ps as [|p t IH]; intros pl Hin; cbn [calc_pots].
  - unfold pots_share, pots_net_total. simpl. split; [apply same_refl|]. split; [intros x|]; lia.
  - unfold calc_pot.
    destruct (calc_levels_players (pr_levels p) 0 (pr_winners p, pl)) as (S & C & T).
    { intros li Hli. apply (Hin p li); [now left|exact Hli]. }
    set (st := calc_levels (pr_levels p) 0 (pr_winners p, pl)) in *. cbn [fst snd] in *.
    destruct (IH (snd st)) as (S2 & C2 & T2).
    { intros q li Hq Hli. rewrite (sp_idxs _ _ S). apply (Hin q li); [now right|exact Hli]. }
    destruct (calc_pots t (snd st)) as [t' pl'']. cbn [fst snd] in *.
    split; [eapply same_trans; eassumption|]. split.
    + intros x. rewrite C2, C. unfold pots_share. cbn [map zsum]. unfold pot_share. lia.
    + rewrite T2, T. unfold pots_net_total. cbn [map zsum]. unfold pot_net_total. lia.
Qed.

Theorem calculate_players r :
  members_in (res_pots r) (idxs (res_players r)) ->
  let r' := calculate r in
  same_players (res_players r) (res_players r') /\
  (forall x, chg (res_players r') x = chg (res_players r) x + pots_share (res_pots r) x) /\
  sumc (res_players r') = sumc (res_players r) + pots_net_total (res_pots r).
Proof.
  intros Hin. unfold calculate.
  pose proof (calc_pots_players (res_pots r) (res_players r) Hin) as H.
  destruct (calc_pots (res_pots r) (res_players r)) as [ps pl]. exact H.
Qed.

(* ---------- (3) the round-robin arithmetic ---------- *)
Lemma mod_small_or_wrap x c : 0 < c -> 0 <= x < 2 * c -> x mod c = if x <? c then x else x - c.
Proof.
  intros Hc Hx. destruct (x <? c) eqn:E.
  - apply Z.ltb_lt in E. apply Z.mod_small. lia.
  - apply Z.ltb_ge in E. symmetry. apply (Z.mod_unique x c 1); lia.
Qed.

(* how many of the positions 0..k-1 receive an odd chip, o being the offset reduced modulo count *)
Definition odd_upto (count o rem k : Z) : Z :=
  Z.max 0 (Z.min k (rem + o - count)) + Z.max 0 (Z.min k (o + rem) - o).

Lemma extra_step count off rem i :
  0 < count -> 0 <= rem < count -> 0 <= i < count ->
  extra i count off rem = odd_upto count (off mod count) rem (i + 1) - odd_upto count (off mod count) rem i.
Proof.
  intros Hc Hr Hi. unfold extra, odd_upto.
  pose proof (Z.mod_pos_bound off count Hc) as Ho. set (o := off mod count) in *.
  rewrite (mod_small_or_wrap (i - o + count) count Hc) by lia.
  destruct (i - o + count <? count) eqn:E1; [apply Z.ltb_lt in E1|apply Z.ltb_ge in E1].
  - destruct (i - o + count <? rem) eqn:E2; [apply Z.ltb_lt in E2|apply Z.ltb_ge in E2]; lia.
  - destruct (i - o + count - count <? rem) eqn:E2; [apply Z.ltb_lt in E2|apply Z.ltb_ge in E2]; lia.
Qed.

Fixpoint esum (n : nat) (i count off rem : Z) : Z :=
  match n with O => 0 | S n' => extra i count off rem + esum n' (i + 1) count off rem end.

Lemma esum_closed count off rem : 0 < count -> 0 <= rem < count ->
  forall n i, 0 <= i -> i + zn n <= count ->
    esum n i count off rem = odd_upto count (off mod count) rem (i + zn n) - odd_upto count (off mod count) rem i.
Proof.
  intros Hc Hr. induction n as [|n IH]; intros i Hi Hn; cbn [esum].
  - unfold zn. simpl. replace (i + 0) with i by lia. lia.
  - unfold zn in *. rewrite Nat2Z.inj_succ in *. rewrite IH by lia. rewrite extra_step by lia.
    replace (i + 1 + Z.of_nat n) with (i + Z.succ (Z.of_nat n)) by lia. lia.
Qed.

(* exactly `rem` of the `count` winners receive an odd chip, whatever the offset *)
Lemma esum_all count off rem n : zn n = count -> 0 < count -> 0 <= rem < count -> esum n 0 count off rem = rem.
Proof.
  intros Hn Hc Hr. rewrite esum_closed by lia. rewrite Hn.
  pose proof (Z.mod_pos_bound off count Hc) as Ho. unfold odd_upto. lia.
Qed.

Lemma wtotal_esum ws : forall i count off based rem wager,
  wtotal ws i count off based rem wager = (based - wager) * zn (length ws) + esum (length ws) i count off rem.
Proof.
  induction ws as [|w t IH]; intros i count off based rem wager; cbn [wtotal esum length]; [unfold zn; simpl; lia|].
  rewrite IH. unfold zn. rewrite Nat2Z.inj_succ. lia.
Qed.

Lemma extra_01 i count off rem : extra i count off rem = 0 \/ extra i count off rem = 1.
Proof. unfold extra. destruct (_ <? _); auto. Qed.

(* the winners of a level receive the whole level, the losers pay the wager: the net is total - wager * members *)
Lemma level_total_eq li off :
  winners_of li <> [] ->
  level_total li off = li_total li - li_wager li * zn (length (winners_of li) + length (losers_of li)).
Proof.
  intros Hne. unfold level_total. rewrite wtotal_esum.
  assert (Hc : 0 < cnt_of li).
  { unfold cnt_of, zn. destruct (winners_of li); [contradiction|]. simpl length. lia. }
  rewrite esum_all; [|reflexivity|exact Hc|apply Z.mod_pos_bound; exact Hc].
  fold (cnt_of li). unfold rem_of.
  pose proof (Z.div_mod (li_total li) (cnt_of li) ltac:(lia)) as Hd.
  unfold zn. rewrite Nat2Z.inj_add. fold (zn (length (winners_of li))). fold (cnt_of li). nia.
Qed.

(* ---------- (4) rank groups ---------- *)
(* sc: the scored contributors of a level, as (index, score), in the order they were scored *)
Definition groups_from (gs : list rgroup) (sc : list (Z * Z)) : list rgroup :=
  fold_left (fun gs x => group_add (snd x) (fst x) gs) sc gs.
Definition groups_of (sc : list (Z * Z)) : list rgroup := groups_from [] sc.

Definition with_score (s : Z) (sc : list (Z * Z)) : list Z := map fst (filter (fun x => snd x =? s) sc).

Record ginv (sc : list (Z * Z)) (gs : list rgroup) : Prop := mkGinv {
  gi_nodup : NoDup (map g_score gs);
  gi_members : forall g, In g gs -> g_members g = with_score (g_score g) sc /\ g_members g <> [];
  gi_all : forall x, In x sc -> In (snd x) (map g_score gs);
  gi_perm : Permutation (flat_map g_members gs) (map fst sc) }.

Lemma group_add_scores s i gs :
  map g_score (group_add s i gs) = if zmem s (map g_score gs) then map g_score gs else map g_score gs ++ [s].
Proof.
  induction gs as [|g t IH]; simpl; [reflexivity|].
  destruct (g_score g =? s) eqn:E.
  - apply Z.eqb_eq in E. rewrite E, Z.eqb_refl. reflexivity.
  - rewrite Z.eqb_sym, E. simpl. rewrite IH. destruct (zmem s (map g_score t)); reflexivity.
Qed.

Lemma zmem_In x l : zmem x l = true <-> In x l.
Proof.
  induction l as [|y t IH]; simpl; [split; [discriminate|contradiction]|].
  rewrite orb_true_iff, IH, Z.eqb_eq. split; intros [H|H]; auto.
Qed.

Lemma zmem_false x l : zmem x l = false <-> ~ In x l.
Proof. rewrite <- zmem_In. destruct (zmem x l); split; congruence. Qed.

Lemma group_add_In s i gs g' :
  NoDup (map g_score gs) -> In g' (group_add s i gs) ->
  (g' = mkGroup s [i] /\ ~ In s (map g_score gs)) \/
  (exists g, In g gs /\ g_score g = s /\ g' = mkGroup s (g_members g ++ [i])) \/
  (In g' gs /\ g_score g' <> s).
Proof.
  induction gs as [|g t IH]; intros Hnd Hin; simpl in *.
  - destruct Hin as [<-|[]]. left. split; [reflexivity|intros []].
  - inversion Hnd as [|? ? Hn Hnd']; subst.
    destruct (g_score g =? s) eqn:E.
    + apply Z.eqb_eq in E. destruct Hin as [<-|Hin].
      * right. left. exists g. auto.
      * right. right. split; [now right|]. intros E2. apply Hn. rewrite E, <- E2. apply in_map. exact Hin.
    + apply Z.eqb_neq in E. destruct Hin as [<-|Hin].
      * right. right. split; [now left|exact E].
      * destruct (IH Hnd' Hin) as [[-> Hns]|[(g0 & G1 & G2 & ->)|[G1 G2]]].
        -- left. split; [reflexivity|]. intros [H|H]; [contradiction|]. apply Hns. exact H.
        -- right. left. exists g0. auto.
        -- right. right. auto.
Qed.

Lemma group_add_perm s i gs : Permutation (flat_map g_members (group_add s i gs)) (flat_map g_members gs ++ [i]).
Proof.
  induction gs as [|g t IH]; simpl; [reflexivity|].
  destruct (g_score g =? s); simpl.
  - rewrite <- !app_assoc. apply Permutation_app_head. apply Permutation_app_comm.
  - rewrite <- app_assoc. apply Permutation_app_head. exact IH.
Qed.

Lemma with_score_app s a b : with_score s (a ++ b) = with_score s a ++ with_score s b.
Proof. unfold with_score. now rewrite filter_app, map_app. Qed.

Lemma ginv_step sc gs x : ginv sc gs -> ginv (sc ++ [x]) (group_add (snd x) (fst x) gs).
Proof.
  intros [A B C D]. destruct x as [i s]. cbn [fst snd].
  constructor.
  - rewrite group_add_scores. destruct (zmem s (map g_score gs)) eqn:E; [exact A|].
    apply zmem_false in E. apply NoDup_rev in A. rewrite <- (rev_involutive (map g_score gs ++ [s])).
    apply NoDup_rev. rewrite rev_app_distr. simpl. constructor; [rewrite <- in_rev; exact E|exact A].
  - intros g' Hg'. rewrite with_score_app. unfold with_score at 2. cbn [filter snd].
    destruct (group_add_In s i gs g' A Hg') as [[-> Hns]|[(g0 & G1 & G2 & ->)|[G1 G2]]]; cbn [g_score g_members].
    + rewrite Z.eqb_refl. cbn [map fst]. split; [|discriminate].
      assert (with_score s sc = []) as ->; [|reflexivity].
      unfold with_score. destruct (filter (fun x => snd x =? s) sc) as [|y r] eqn:Ef; [reflexivity|].
      exfalso. assert (Hy : In y (filter (fun x => snd x =? s) sc)) by (rewrite Ef; now left).
      apply filter_In in Hy as [Hy1 Hy2]. apply Z.eqb_eq in Hy2. apply Hns. rewrite <- Hy2. apply C. exact Hy1.
    + rewrite Z.eqb_refl. cbn [map fst]. destruct (B g0 G1) as [B1 B2]. rewrite B1, G2. split; [reflexivity|].
      intros H. apply app_eq_nil in H as [_ H]. discriminate.
    + replace (s =? g_score g') with false by (symmetry; apply Z.eqb_neq; lia). cbn [map]. rewrite app_nil_r. apply B. exact G1.
  - intros y Hy. rewrite group_add_scores. apply in_app_or in Hy as [Hy|[<-|[]]].
    + specialize (C y Hy). destruct (zmem s (map g_score gs)); [exact C|apply in_or_app; now left].
    + cbn [snd]. destruct (zmem s (map g_score gs)) eqn:E; [apply zmem_In; exact E|apply in_or_app; right; now left].
  - eapply perm_trans; [apply group_add_perm|]. rewrite map_app. cbn [map fst]. apply Permutation_app_tail. exact D.
Qed.

Lemma ginv_from rest : forall sc gs, ginv sc gs -> ginv (sc ++ rest) (groups_from gs rest).
Proof.
  induction rest as [|x t IH]; intros sc gs H; cbn [groups_from fold_left]; [now rewrite app_nil_r|].
  replace (sc ++ x :: t) with ((sc ++ [x]) ++ t) by (rewrite <- app_assoc; reflexivity).
  apply IH. apply ginv_step. exact H.
Qed.

Lemma ginv_groups_of sc : ginv sc (groups_of sc).
Proof.
  apply (ginv_from sc [] []). constructor; simpl; [constructor|intros g []|intros x []|constructor].
Qed.

(* Rank.Calculate sorts the groups by score, best first *)
Lemma sort_groups_perm gs : Permutation (sort_groups gs) gs.
Proof. apply isort_perm. Qed.

Lemma sort_groups_scores gs : map g_score (sort_groups gs) = isort lessZ (map g_score gs).
Proof. unfold sort_groups. apply (isort_map g_score lessZ). Qed.

Lemma sort_groups_head gs g0 rest :
  sort_groups gs = g0 :: rest -> In g0 gs /\ forall g, In g gs -> g_score g <= g_score g0.
Proof.
  intros E. pose proof (sort_groups_perm gs) as P. rewrite E in P. split.
  - apply (Permutation_in g0 P). now left.
  - intros g Hg. apply Permutation_sym in P. apply (Permutation_in g P) in Hg as [<-|Hg]; [lia|].
    pose proof (isort_lessZ_desc (map g_score gs)) as Hd. rewrite <- sort_groups_scores, E in Hd. simpl in Hd.
    apply (desc_head_ge _ _ Hd). apply in_map. exact Hg.
Qed.

(* the best score among the scored contributors *)
Definition best_score (M : Z) (sc : list (Z * Z)) : Prop :=
  (exists x, In x sc /\ snd x = M) /\ forall y, In y sc -> snd y <= M.

Lemma best_score_unique M M' sc : best_score M sc -> best_score M' sc -> M = M'.
Proof. intros [(x & X1 & X2) A] [(y & Y1 & Y2) B]. specialize (A y Y1). specialize (B x X1). lia. Qed.

Definition scored_level (l : level) (sc : list (Z * Z)) : linfo :=
  mkLInfo (l_level l) (l_wager l) (l_total l) (l_contribs l) (groups_of sc).

(* the winners of a level are the scored contributors with the best score, in the order they were scored;
   winners and losers together are exactly the scored contributors *)
Lemma level_winners li sc :
  li_groups li = groups_of sc -> sc <> [] ->
  exists M, best_score M sc /\ winners_of li = with_score M sc /\ winners_of li <> [] /\
            Permutation (winners_of li ++ losers_of li) (map fst sc).
Proof.
  intros Hg Hne. pose proof (ginv_groups_of sc) as [A B C D]. rewrite <- Hg in *.
  unfold winners_of, losers_of.
  destruct (sort_groups (li_groups li)) as [|g0 rest] eqn:E.
  - exfalso. pose proof (sort_groups_perm (li_groups li)) as P. rewrite E in P. apply Permutation_nil in P.
    destruct sc as [|x t]; [contradiction|]. specialize (C x (or_introl eq_refl)). rewrite P in C. exact C.
  - destruct (sort_groups_head _ _ _ E) as [H0 Hmax]. destruct (B g0 H0) as [B1 B2].
    exists (g_score g0). split; [split|split; [exact B1|split; [exact B2|]]].
    + destruct (g_members g0) as [|m ms] eqn:Em; [contradiction|].
      assert (Hm : In m (with_score (g_score g0) sc)) by (rewrite <- B1; now left).
      unfold with_score in Hm. apply in_map_iff in Hm as (x & _ & Hx). apply filter_In in Hx as [Hx1 Hx2].
      exists x. split; [exact Hx1|apply Z.eqb_eq; exact Hx2].
    + intros y Hy. specialize (C y Hy). apply in_map_iff in C as (g & <- & Hgin). apply Hmax. exact Hgin.
    + eapply perm_trans; [|exact D].
      change (g_members g0 ++ flat_map g_members rest) with (flat_map g_members (g0 :: rest)). rewrite <- E.
      clear. generalize (sort_groups_perm (li_groups li)). generalize (sort_groups (li_groups li)) (li_groups li).
      intros a b P. induction P; simpl; auto.
      * apply Permutation_app_head. assumption.
      * rewrite !app_assoc. apply Permutation_app_tail. apply Permutation_app_comm.
      * eapply perm_trans; eassumption.
Qed.

Lemma occ_app x a b : occ x (a ++ b) = occ x a + occ x b.
Proof. unfold occ. induction a as [|y t IH]; simpl; lia. Qed.

Lemma occ_perm x a b : Permutation a b -> occ x a = occ x b.
Proof. unfold occ. intros P. induction P; simpl; lia. Qed.

Lemma occ_nonneg x l : 0 <= occ x l.
Proof. unfold occ. induction l as [|y t IH]; simpl; [lia|]. destruct (y =? x); lia. Qed.

Lemma occ_notin x l : ~ In x l -> occ x l = 0.
Proof.
  unfold occ. induction l as [|y t IH]; intros H; simpl; [reflexivity|].
  destruct (y =? x) eqn:E; [apply Z.eqb_eq in E; subst; exfalso; apply H; now left|].
  rewrite IH; [lia|]. intros Hin. apply H. now right.
Qed.

Lemma occ_nodup x l : NoDup l -> In x l -> occ x l = 1.
Proof.
  unfold occ. induction l as [|y t IH]; intros Hnd Hin; [contradiction|]. simpl.
  inversion Hnd as [|? ? Hn Hnd']; subst. destruct Hin as [->|Hin].
  - rewrite Z.eqb_refl. fold (occ x t). rewrite occ_notin by exact Hn. lia.
  - destruct (y =? x) eqn:E; [apply Z.eqb_eq in E; subst; contradiction|]. rewrite IH by assumption. lia.
Qed.

Lemma wshare_notin ws x : ~ In x ws -> forall i count off based rem wager, wshare ws i count off based rem wager x = 0.
Proof.
  induction ws as [|w t IH]; intros H i count off based rem wager; cbn [wshare]; [reflexivity|].
  destruct (w =? x) eqn:E; [apply Z.eqb_eq in E; subst; exfalso; apply H; now left|].
  rewrite IH; [lia|]. intros Hin. apply H. now right.
Qed.

Lemma extra_pos i count off rem : 0 < count -> extra i count off rem = 1 -> 0 < rem.
Proof.
  intros Hc. unfold extra. pose proof (Z.mod_pos_bound (i - off mod count + count) count Hc).
  destruct (_ <? rem) eqn:E; [apply Z.ltb_lt in E; lia|discriminate].
Qed.

(* a winner listed once receives based or based + 1 (the latter only when there is a remainder), minus his own wager *)
Lemma wshare_in ws x : NoDup ws -> In x ws -> forall i count off based rem wager, 0 < count ->
  exists e, (e = 0 \/ (e = 1 /\ 0 < rem)) /\ wshare ws i count off based rem wager x = based + e - wager.
Proof.
  induction ws as [|w t IH]; intros Hnd Hin i count off based rem wager Hc; [contradiction|]. cbn [wshare].
  inversion Hnd as [|? ? Hn Hnd']; subst. destruct Hin as [->|Hin].
  - rewrite Z.eqb_refl. rewrite wshare_notin by exact Hn. exists (extra i count off rem). split; [|lia].
    destruct (extra_01 i count off rem) as [E|E]; [now left|right; split; [exact E|apply (extra_pos i count off rem Hc E)]].
  - destruct (w =? x) eqn:E; [apply Z.eqb_eq in E; subst; contradiction|].
    destruct (IH Hnd' Hin (i + 1) count off based rem wager Hc) as (e & He & Hw). exists e. split; [exact He|lia].
Qed.

Lemma with_score_nodup s sc : NoDup (map fst sc) -> NoDup (with_score s sc).
Proof.
  unfold with_score. induction sc as [|x t IH]; intros H; simpl; [constructor|].
  inversion H as [|? ? Hn H']; subst. destruct (snd x =? s); simpl; [|apply IH; exact H'].
  constructor; [|apply IH; exact H']. intros Hin. apply Hn. apply in_map_iff in Hin as (y & Hy1 & Hy2).
  apply filter_In in Hy2 as [Hy2 _]. rewrite <- Hy1. apply in_map. exact Hy2.
Qed.

Lemma with_score_in s sc x : In x (with_score s sc) <-> In (x, s) sc.
Proof.
  unfold with_score. rewrite in_map_iff. split.
  - intros ([i v] & <- & H). apply filter_In in H as [H1 H2]. simpl in *. apply Z.eqb_eq in H2. now subst.
  - intros H. exists (x, s). split; [reflexivity|]. apply filter_In. split; [exact H|]. simpl. apply Z.eqb_refl.
Qed.

(* ---------- (6) what one level does to one player ---------- *)
(* For a level whose groups were built from the scored contributors sc (distinct indices):
   a player who is not a scored contributor is untouched; one who does not hold the best score pays the
   wager; one who holds it receives the level total divided by the number of winners, or one chip more. *)
Theorem level_share_spec li sc off x :
  li_groups li = groups_of sc -> sc <> [] -> NoDup (map fst sc) ->
  exists M, best_score M sc /\
    (~ In x (map fst sc) -> level_share li off x = 0) /\
    (forall s, In (x, s) sc -> s <> M -> level_share li off x = - li_wager li) /\
    (In (x, M) sc -> exists e, (e = 0 \/ (e = 1 /\ 0 < li_total li mod zn (length (with_score M sc)))) /\
        level_share li off x = li_total li / zn (length (with_score M sc)) + e - li_wager li).
Proof.
  intros Hg Hne Hnd. destruct (level_winners li sc Hg Hne) as (M & HM & Hw & Hwne & Hp).
  exists M. split; [exact HM|].
  assert (Hocc : forall y, occ y (winners_of li) + occ y (losers_of li) = occ y (map fst sc))
    by (intros y; rewrite <- occ_app; apply occ_perm; exact Hp).
  assert (Hwnd : NoDup (winners_of li)) by (rewrite Hw; apply with_score_nodup; exact Hnd).
  unfold level_share. split; [|split].
  - intros Hx. specialize (Hocc x). rewrite (occ_notin x (map fst sc) Hx) in Hocc.
    pose proof (occ_nonneg x (winners_of li)). pose proof (occ_nonneg x (losers_of li)).
    assert (occ x (losers_of li) = 0) as -> by lia.
    rewrite wshare_notin; [lia|]. intros Hin. apply Hx. apply (Permutation_in x Hp). apply in_or_app. now left.
  - intros s Hs HsM.
    assert (Hnw : ~ In x (winners_of li)).
    { rewrite Hw, with_score_in. intros H2.
      assert (s = M); [|contradiction].
      clear -Hnd Hs H2. induction sc as [|[i v] t IH]; [contradiction|]. simpl in Hnd. inversion Hnd as [|? ? Hn Hnd']; subst.
      destruct Hs as [Hs|Hs], H2 as [H2|H2].
      - congruence.
      - injection Hs as -> ->. exfalso. apply Hn. apply in_map_iff. exists (x, M). auto.
      - injection H2 as -> ->. exfalso. apply Hn. apply in_map_iff. exists (x, s). auto.
      - apply IH; assumption. }
    rewrite wshare_notin by exact Hnw. specialize (Hocc x). rewrite (occ_notin x _ Hnw) in Hocc.
    rewrite (occ_nodup x (map fst sc) Hnd) in Hocc by (apply in_map_iff; exists (x, s); auto). lia.
  - intros HxM.
    assert (Hin : In x (winners_of li)) by (rewrite Hw; apply with_score_in; exact HxM).
    specialize (Hocc x). rewrite (occ_nodup x _ Hwnd Hin) in Hocc.
    rewrite (occ_nodup x (map fst sc) Hnd) in Hocc by (apply in_map_iff; exists (x, M); auto).
    assert (occ x (losers_of li) = 0) as -> by lia.
    assert (Hc : 0 < cnt_of li).
    { unfold cnt_of, zn. destruct (winners_of li); [contradiction|]. simpl length. lia. }
    destruct (wshare_in (winners_of li) x Hwnd Hin 0 (cnt_of li) off (li_total li / cnt_of li) (rem_of li) (li_wager li) Hc)
      as (e & He & Hs).
    exists e. unfold rem_of, cnt_of in *. rewrite Hw in *. split; [exact He|]. rewrite Hs. lia.
Qed.

(* the level is zero-sum when its total is the wager times the number of scored contributors *)
Theorem level_total_zero li sc off :
  li_groups li = groups_of sc -> sc <> [] -> li_total li = li_wager li * zn (length sc) -> level_total li off = 0.
Proof.
  intros Hg Hne Ht. destruct (level_winners li sc Hg Hne) as (M & HM & Hw & Hwne & Hp).
  rewrite level_total_eq by exact Hwne. rewrite <- app_length, (Permutation_length Hp), map_length. lia.
Qed.

(* ---------- (5) scoring: what settle hands to calculate ---------- *)
Definition sc_of (players : list (Z * Z * Z)) (contribs : list Z) : list (Z * Z) :=
  map (fun x => (fst (fst x), snd x)) (filter (fun x => zmem (fst (fst x)) contribs) players).

Definition score_li (players : list (Z * Z * Z)) (li : linfo) : linfo :=
  fold_left (fun li x => linfo_update_score (fst (fst x)) (snd x) li) players li.

Lemma score_li_eq players : forall li,
  score_li players li = mkLInfo (li_level li) (li_wager li) (li_total li) (li_contribs li)
                                (groups_from (li_groups li) (sc_of players (li_contribs li))).
Proof.
  unfold score_li, sc_of. induction players as [|x t IH]; intros li; cbn [fold_left].
  - destruct li; reflexivity.
  - rewrite IH. unfold linfo_update_score. cbn [filter].
    destruct (zmem (fst (fst x)) (li_contribs li)) eqn:E; cbn [li_level li_wager li_total li_contribs li_groups]; reflexivity.
Qed.

Definition score_pot (players : list (Z * Z * Z)) (p : potres) : potres :=
  mkPotRes (pr_total p) (pr_winners p) (map (score_li players) (pr_levels p)).

Lemma score_fold players : forall r,
  fold_left (fun r x => update_score (add_player r (fst (fst x)) (snd (fst x))) (fst (fst x)) (snd x)) players r
  = mkResult (res_players r ++ map (fun x => mkPRes (fst (fst x)) (snd (fst x)) 0) players)
             (map (score_pot players) (res_pots r)).
Proof.
  induction players as [|x t IH]; intros r; cbn [fold_left map].
  - rewrite app_nil_r. destruct r as [pl ps]. cbn [res_players res_pots]. f_equal.
    rewrite <- (map_id ps) at 1. apply map_ext. intros p. unfold score_pot, score_li. cbn [fold_left].
    rewrite map_id. destruct p; reflexivity.
  - rewrite IH. unfold update_score, add_player. cbn [res_players res_pots]. rewrite <- app_assoc. cbn [app]. f_equal.
    rewrite map_map. apply map_ext. intros p. unfold score_pot. cbn [pr_total pr_winners pr_levels]. f_equal.
    rewrite map_map. apply map_ext. intros li. reflexivity.
Qed.

Definition initial_pots (pots : list pot) : list potres :=
  map (fun p => mkPotRes (pt_total p) []
                  (map (fun l => mkLInfo (l_level l) (l_wager l) (l_total l) (l_contribs l) []) (pt_levels p))) pots.

Lemma add_pot_fold pots : forall r,
  fold_left (fun r p => add_pot r (pt_total p) (pt_levels p)) pots r
  = mkResult (res_players r) (res_pots r ++ initial_pots pots).
Proof.
  unfold initial_pots. induction pots as [|p t IH]; intros r; cbn [fold_left map].
  - rewrite app_nil_r. destruct r; reflexivity.
  - rewrite IH. unfold add_pot. cbn [res_players res_pots]. rewrite <- app_assoc. reflexivity.
Qed.

(* the levels of a pot, scored *)
Definition scored_levels (players : list (Z * Z * Z)) (p : pot) : list linfo :=
  map (fun l => scored_level l (sc_of players (l_contribs l))) (pt_levels p).
Definition scored_pots (players : list (Z * Z * Z)) (pots : list pot) : list potres :=
  map (fun p => mkPotRes (pt_total p) [] (scored_levels players p)) pots.
Definition initial_players (players : list (Z * Z * Z)) : list presult :=
  map (fun x => mkPRes (fst (fst x)) (snd (fst x)) 0) players.

Lemma scored_result_eq pots players :
  fold_left (fun r x => update_score (add_player r (fst (fst x)) (snd (fst x))) (fst (fst x)) (snd x)) players
            (fold_left (fun r p => add_pot r (pt_total p) (pt_levels p)) pots result_empty)
  = mkResult (initial_players players) (scored_pots players pots).
Proof.
  rewrite add_pot_fold, score_fold. cbn [res_players res_pots result_empty app]. f_equal.
  unfold scored_pots, initial_pots. rewrite map_map. apply map_ext. intros p. unfold score_pot. cbn [pr_total pr_winners pr_levels].
  f_equal. unfold scored_levels. rewrite map_map. apply map_ext. intros l. rewrite score_li_eq. reflexivity.
Qed.

Lemma settle_eq pots players :
  settle pots players = calculate (mkResult (initial_players players) (scored_pots players pots)).
Proof. unfold settle. rewrite scored_result_eq. reflexivity. Qed.

Lemma settle_panics_eq pots players :
  settle_panics pots players = calc_panics (mkResult (initial_players players) (scored_pots players pots)).
Proof. unfold settle_panics. rewrite scored_result_eq. reflexivity. Qed.

Lemma chg_initial players x : chg (initial_players players) x = 0.
Proof. unfold initial_players. induction players as [|y t IH]; simpl; [reflexivity|]. destruct (_ =? x); [reflexivity|exact IH]. Qed.

Lemma sumc_initial players : sumc (initial_players players) = 0.
Proof. unfold sumc, initial_players. induction players as [|y t IH]; simpl; [reflexivity|exact IH]. Qed.

Lemma idxs_initial players : idxs (initial_players players) = map (fun x => fst (fst x)) players.
Proof. unfold idxs, initial_players. rewrite map_map. reflexivity. Qed.

Lemma sc_of_fst players contribs : forall x, In x (map fst (sc_of players contribs)) -> In x (map (fun y => fst (fst y)) players) /\ In x contribs.
Proof.
  intros x Hx. unfold sc_of in Hx. rewrite map_map in Hx. cbn [fst] in Hx. apply in_map_iff in Hx as (y & <- & Hy).
  apply filter_In in Hy as [H1 H2]. split; [apply in_map_iff; exists y; auto|apply zmem_In; exact H2].
Qed.

Lemma sc_of_nodup players contribs : NoDup (map (fun y => fst (fst y)) players) -> NoDup (map fst (sc_of players contribs)).
Proof.
  unfold sc_of. rewrite map_map. cbn [fst]. induction players as [|y t IH]; intros H; simpl; [constructor|].
  inversion H as [|? ? Hn H']; subst. destruct (zmem (fst (fst y)) contribs); simpl; [|apply IH; exact H'].
  constructor; [|apply IH; exact H']. intros Hin. apply Hn. apply in_map_iff in Hin as (z & Hz1 & Hz2).
  apply filter_In in Hz2 as [Hz2 _]. apply in_map_iff. exists z. auto.
Qed.

Lemma scored_members_in pots players :
  members_in (scored_pots players pots) (idxs (initial_players players)).
Proof.
  intros p li Hp Hli w Hw. rewrite idxs_initial.
  unfold scored_pots in Hp. apply in_map_iff in Hp as (p0 & <- & Hp0). cbn [pr_levels] in Hli.
  unfold scored_levels in Hli. apply in_map_iff in Hli as (l & <- & Hl).
  destruct (sc_of players (l_contribs l)) as [|s0 sc'] eqn:Esc.
  - exfalso. unfold winners_of, losers_of, scored_level, groups_of in Hw. simpl in Hw. exact Hw.
  - assert (Hne : s0 :: sc' <> []) by discriminate.
    destruct (level_winners (scored_level l (s0 :: sc')) (s0 :: sc') eq_refl Hne) as (M & _ & _ & _ & P).
    apply (Permutation_in w P) in Hw. rewrite <- Esc in Hw. apply (sc_of_fst players (l_contribs l)). exact Hw.
Qed.

(* the result of a settlement, player by player *)
Theorem settle_players pots players :
  let r := settle pots players in
  idxs (res_players r) = map (fun y => fst (fst y)) players /\
  base_of (res_players r) = map (fun y => snd (fst y)) players /\
  (forall x, chg (res_players r) x = pots_share (scored_pots players pots) x) /\
  sumc (res_players r) = pots_net_total (scored_pots players pots).
Proof.
  cbv zeta. rewrite settle_eq.
  destruct (calculate_players (mkResult (initial_players players) (scored_pots players pots))) as ([S1 S2] & C & T).
  { apply scored_members_in. }
  cbn [res_players res_pots] in *. split; [rewrite S1; apply idxs_initial|]. split; [|split].
  - rewrite S2. unfold base_of, initial_players. rewrite map_map. apply map_ext. intros y. simpl. lia.
  - intros x. rewrite C, chg_initial. lia.
  - rewrite T, sumc_initial. lia.
Qed.

(* ---------- (7) levels that are what they claim to be ---------- *)
Definition pidx (players : list (Z * Z * Z)) : list Z := map (fun y => fst (fst y)) players.

Record level_ok (players : list (Z * Z * Z)) (l : level) : Prop := mkLevelOk {
  lo_nodup : NoDup (l_contribs l);
  lo_players : forall i, In i (l_contribs l) -> In i (pidx players);
  lo_total : l_total l = l_wager l * zn (length (l_contribs l));
  lo_wager : 0 <= l_wager l;
  lo_nonempty : l_contribs l <> [] }.

Definition pot_levels_ok (players : list (Z * Z * Z)) (pots : list pot) : Prop :=
  forall p l, In p pots -> In l (pt_levels p) -> level_ok players l.

Lemma sc_of_in players contribs x s :
  In (x, s) (sc_of players contribs) <-> (exists b, In (x, b, s) players) /\ In x contribs.
Proof.
  unfold sc_of. rewrite in_map_iff. split.
  - intros ([[i b] v] & E & H). cbn [fst snd] in E. injection E as -> ->. apply filter_In in H as [H1 H2]. cbn [fst] in H2.
    split; [exists b; exact H1|apply zmem_In; exact H2].
  - intros [(b & Hb) Hc]. exists (x, b, s). split; [reflexivity|]. apply filter_In. split; [exact Hb|]. cbn [fst]. apply zmem_In. exact Hc.
Qed.

Lemma sc_of_fst_iff players contribs x :
  In x (map fst (sc_of players contribs)) <-> In x (pidx players) /\ In x contribs.
Proof.
  split; [apply sc_of_fst|]. intros [Hp Hc]. unfold pidx in Hp. apply in_map_iff in Hp as ([[i b] s] & E & Hin). cbn [fst] in E. subst i.
  apply in_map_iff. exists (x, s). split; [reflexivity|]. apply sc_of_in. split; [exists b; exact Hin|exact Hc].
Qed.

Lemma sc_of_length players l : NoDup (pidx players) -> level_ok players l ->
  length (sc_of players (l_contribs l)) = length (l_contribs l).
Proof.
  intros Hnd [A B _ _ _]. rewrite <- (map_length fst). apply Permutation_length.
  apply NoDup_Permutation; [apply sc_of_nodup; exact Hnd|exact A|].
  intros x. rewrite sc_of_fst_iff. split; [tauto|]. intros Hx. split; [apply B; exact Hx|exact Hx].
Qed.

Lemma sc_of_nonempty players l : NoDup (pidx players) -> level_ok players l -> sc_of players (l_contribs l) <> [].
Proof.
  intros Hnd Hok E. pose proof (sc_of_length players l Hnd Hok) as HL. rewrite E in HL.
  destruct Hok as [_ _ _ _ Hne]. destruct (l_contribs l); [contradiction|discriminate].
Qed.

Definition slevel (players : list (Z * Z * Z)) (l : level) : linfo := scored_level l (sc_of players (l_contribs l)).

(* one level, in terms of the level and the players *)
Theorem slevel_spec players l off x :
  NoDup (pidx players) -> level_ok players l ->
  let sc := sc_of players (l_contribs l) in
  level_total (slevel players l) off = 0 /\
  exists M, best_score M sc /\
    (~ In x (l_contribs l) -> level_share (slevel players l) off x = 0) /\
    (forall s, In (x, s) sc -> s <> M -> level_share (slevel players l) off x = - l_wager l) /\
    (In (x, M) sc -> exists e, (e = 0 \/ (e = 1 /\ 0 < l_total l mod zn (length (with_score M sc)))) /\
        level_share (slevel players l) off x = l_total l / zn (length (with_score M sc)) + e - l_wager l).
Proof.
  intros Hnd Hok sc.
  assert (Hne : sc <> []) by (apply sc_of_nonempty; assumption).
  assert (Hsn : NoDup (map fst sc)) by (apply sc_of_nodup; exact Hnd).
  split.
  - apply (level_total_zero (slevel players l) sc off eq_refl Hne). cbn [slevel scored_level li_total li_wager].
    unfold sc. rewrite sc_of_length by assumption. apply (lo_total _ _ Hok).
  - destruct (level_share_spec (slevel players l) sc off x eq_refl Hne Hsn) as (M & HM & A & B & C).
    exists M. split; [exact HM|]. split; [|split; [exact B|exact C]].
    intros Hx. apply A. intros Hin. apply Hx. apply (sc_of_fst players (l_contribs l) x Hin).
Qed.

(* bounds for one level: a contributor never pays more than the wager and never receives more than the
   rest of the level; nobody else is touched *)
Lemma slevel_bounds players l off x :
  NoDup (pidx players) -> level_ok players l -> In x (pidx players) ->
  (if zmem x (l_contribs l) then - l_wager l else 0) <= level_share (slevel players l) off x
  <= (if zmem x (l_contribs l) then l_total l - l_wager l else 0).
Proof.
  intros Hnd Hok Hx. destruct (slevel_spec players l off x Hnd Hok) as (_ & M & HM & A & B & C).
  destruct (zmem x (l_contribs l)) eqn:E.
  - apply zmem_In in E.
    assert (Hin : In x (map fst (sc_of players (l_contribs l)))) by (apply sc_of_fst_iff; auto).
    apply in_map_iff in Hin as ([i s] & Ei & His). cbn [fst] in Ei. subst i.
    pose proof (lo_wager _ _ Hok) as Hw. pose proof (lo_total _ _ Hok) as Ht.
    assert (H0 : 0 <= l_total l) by (rewrite Ht; unfold zn; nia).
    destruct (Z.eq_dec s M) as [->|Hne].
    + destruct (C His) as (e & He & ->).
      set (k := zn (length (with_score M (sc_of players (l_contribs l))))) in *.
      assert (Hk : 0 < k).
      { unfold k, zn. assert (In x (with_score M (sc_of players (l_contribs l)))) by (apply with_score_in; exact His).
        destruct (with_score M _); [contradiction|]. simpl length. lia. }
      pose proof (Z.div_mod (l_total l) k ltac:(lia)) as Hd. pose proof (Z.mod_pos_bound (l_total l) k Hk) as Hm.
      assert (0 <= l_total l / k) by (apply Z.div_pos; lia).
      destruct He as [->|[-> Hr]]; nia.
    + rewrite (B s His Hne). lia.
  - apply zmem_false in E. rewrite (A E). lia.
Qed.

(* ---------- (8) adding the levels up ---------- *)
Lemma levels_share_between ls x (f g : linfo -> Z) :
  (forall li, In li ls -> forall off, f li <= level_share li off x <= g li) ->
  forall off, zsum (map f ls) <= levels_share ls off x <= zsum (map g ls).
Proof.
  induction ls as [|li t IH]; intros H off; cbn [levels_share map zsum]; [lia|].
  pose proof (H li (or_introl eq_refl) off). pose proof (IH (fun l Hl => H l (or_intror Hl)) (off + rem_of li)). lia.
Qed.

Lemma levels_total_zero ls : (forall li, In li ls -> forall off, level_total li off = 0) -> forall off, levels_total ls off = 0.
Proof.
  induction ls as [|li t IH]; intros H off; cbn [levels_total]; [reflexivity|].
  rewrite (H li (or_introl eq_refl)), (IH (fun l Hl => H l (or_intror Hl))). reflexivity.
Qed.

Definition sum_levels (h : level -> Z) (pots : list pot) : Z :=
  zsum (map (fun p => zsum (map h (pt_levels p))) pots).

Lemma pots_share_between players pots x (f g : level -> Z) :
  (forall p l, In p pots -> In l (pt_levels p) -> forall off, f l <= level_share (slevel players l) off x <= g l) ->
  sum_levels f pots <= pots_share (scored_pots players pots) x <= sum_levels g pots.
Proof.
  assert (G : forall ls off, (forall l, In l ls -> forall off, f l <= level_share (slevel players l) off x <= g l) ->
              zsum (map f ls) <= levels_share (map (fun l => scored_level l (sc_of players (l_contribs l))) ls) off x <= zsum (map g ls)).
  { induction ls as [|l ls IHl]; intros off Hl; cbn [levels_share map zsum]; [lia|].
    pose proof (Hl l (or_introl eq_refl) off) as H1. unfold slevel in H1.
    pose proof (IHl (off + rem_of (scored_level l (sc_of players (l_contribs l)))) (fun l' Hl' => Hl l' (or_intror Hl'))). lia. }
  unfold sum_levels, pots_share, scored_pots. induction pots as [|p t IH]; intros H; cbn [map zsum]; [lia|].
  specialize (IH (fun q l Hq Hl => H q l (or_intror Hq) Hl)).
  pose proof (G (pt_levels p) 0 (fun l Hl => H p l (or_introl eq_refl) Hl)) as Hp.
  change (pot_share {| pr_total := pt_total p; pr_winners := []; pr_levels := scored_levels players p |} x)
    with (levels_share (map (fun l => scored_level l (sc_of players (l_contribs l))) (pt_levels p)) 0 x).
  lia.
Qed.

Lemma pots_total_zero players pots :
  (forall p l, In p pots -> In l (pt_levels p) -> forall off, level_total (slevel players l) off = 0) ->
  pots_net_total (scored_pots players pots) = 0.
Proof.
  unfold pots_net_total, scored_pots. induction pots as [|p t IH]; intros H; cbn [map zsum]; [reflexivity|].
  rewrite (IH (fun q l Hq Hl => H q l (or_intror Hq) Hl)). unfold pot_net_total. cbn [pr_levels].
  rewrite levels_total_zero; [reflexivity|]. intros li Hli off. unfold scored_levels in Hli.
  apply in_map_iff in Hli as (l & <- & Hl). apply (H p l (or_introl eq_refl) Hl).
Qed.

(* what a player paid into the levels, and the most he can be paid out of them *)
Definition paid (x : Z) (l : level) : Z := if zmem x (l_contribs l) then l_wager l else 0.
Definition others_paid (x : Z) (l : level) : Z := if zmem x (l_contribs l) then l_total l - l_wager l else 0.

Lemma sum_levels_opp h pots : sum_levels (fun l => - h l) pots = - sum_levels h pots.
Proof.
  unfold sum_levels. induction pots as [|p t IH]; cbn [map zsum]; [reflexivity|]. rewrite IH.
  assert (zsum (map (fun l => - h l) (pt_levels p)) = - zsum (map h (pt_levels p))) as ->; [|lia].
  induction (pt_levels p) as [|l ls IHl]; cbn [map zsum]; [reflexivity|]. rewrite IHl. lia.
Qed.

Lemma zip_base (ps : list presult) (players : list (Z * Z * Z)) x b s :
  idxs ps = pidx players -> base_of ps = map (fun y => snd (fst y)) players -> NoDup (pidx players) ->
  In (x, b, s) players -> forall p, In p ps -> r_idx p = x -> r_final p - r_changed p = b.
Proof.
  revert players. induction ps as [|q t IH]; intros players Hi Hb Hnd Hin p Hp Hx; [contradiction|].
  destruct players as [|[[i0 b0] s0] pl]; [discriminate|]. cbn [idxs pidx base_of map fst snd] in *.
  injection Hi as Hi1 Hi2. injection Hb as Hb1 Hb2. inversion Hnd as [|a l Hn Hnd' [Ea El]]. clear a l Ea El.
  destruct Hp as [Hp|Hp], Hin as [Hin|Hin].
  - rewrite <- Hp. assert (b0 = b) by congruence. lia.
  - exfalso. apply Hn. rewrite <- Hi1, Hp, Hx. apply in_map_iff. exists (x, b, s). auto.
  - assert (i0 = x) by congruence. exfalso. apply Hn. rewrite <- Hi2, H, <- Hx. apply in_map. exact Hp.
  - apply (IH pl Hi2 Hb2 Hnd' Hin p Hp Hx).
Qed.

(* ---------- (9) the settlement as a whole ---------- *)
Theorem settle_summary pots players :
  NoDup (pidx players) -> pot_levels_ok players pots ->
  let ps := res_players (settle pots players) in
  idxs ps = pidx players /\
  sumc ps = 0 /\
  (forall x b s, In (x, b, s) players ->
     fin ps x = b + chg ps x /\
     - sum_levels (paid x) pots <= chg ps x <= sum_levels (others_paid x) pots).
Proof.
  intros Hnd Hok ps. destruct (settle_players pots players) as (I & B & C & T). fold ps in I, B, C, T.
  split; [exact I|]. split.
  - rewrite T. apply pots_total_zero. intros p l Hp Hl off. apply (slevel_spec players l off 0 Hnd (Hok p l Hp Hl)).
  - intros x b s Hin.
    assert (Hx : In x (pidx players)) by (apply in_map_iff; exists (x, b, s); auto).
    split.
    + apply fin_chg_base; [|rewrite I; exact Hx]. apply (zip_base ps players x b s I B Hnd Hin).
    + rewrite C, <- sum_levels_opp. apply pots_share_between. intros p l Hp Hl off.
      pose proof (slevel_bounds players l off x Hnd (Hok p l Hp Hl) Hx) as Hb. unfold paid, others_paid.
      destruct (zmem x (l_contribs l)); lia.
Qed.

(* ---------- (10) the levels inside the pots published by GetPots ---------- *)
Lemma put_back_pt_levels j w ps : map pt_levels (put_back j w ps) = map pt_levels ps.
Proof. induction ps as [|p t IH]; simpl; [reflexivity|]. destruct (w <=? pt_level p); simpl; [reflexivity|now rewrite IH]. Qed.

Lemma put_back_all_pt_levels cs fs : forall ps, map pt_levels (put_back_all cs fs ps) = map pt_levels ps.
Proof.
  unfold put_back_all. induction fs as [|j t IH]; intros ps; simpl; [reflexivity|]. rewrite IH.
  destruct (_ =? 0); [reflexivity|apply put_back_pt_levels].
Qed.

Lemma merge_from_pt_levels rest : forall cur,
  flat_map pt_levels (merge_from cur rest) = pt_levels cur ++ flat_map pt_levels rest.
Proof.
  induction rest as [|p t IH]; intros cur; simpl; [reflexivity|].
  destruct (Nat.eqb _ _); simpl; rewrite IH; [|reflexivity]. simpl. now rewrite <- app_assoc.
Qed.

Lemma merge_pots_pt_levels ps : flat_map pt_levels (merge_pots ps) = flat_map pt_levels ps.
Proof. destruct ps as [|p t]; [reflexivity|]. rewrite merge_pots_from. apply merge_from_pt_levels. Qed.

Theorem get_pots_levels ll : flat_map pt_levels (get_pots ll) = ll_levels ll.
Proof.
  unfold get_pots. rewrite flat_map_concat_map, put_back_all_pt_levels, <- flat_map_concat_map, merge_pots_pt_levels.
  induction (ll_levels ll) as [|l t IH]; simpl; [reflexivity|]. now rewrite IH.
Qed.

Lemma sum_levels_flat h pots : sum_levels h pots = zsum (map h (flat_map pt_levels pots)).
Proof.
  unfold sum_levels. induction pots as [|p t IH]; simpl; [reflexivity|]. rewrite map_app, IH.
  clear. induction (map h (pt_levels p)) as [|a r IHr]; simpl; lia.
Qed.

(* the level list built from a vector of distinct players *)
Definition in_idx (inputs : list (Z * Z * bool)) : list Z := map (fun x => fst (fst x)) inputs.

Lemma zmap_set_keeps {A} k (v : A) m i w : In (i, w) m -> i <> k -> In (i, w) (zmap_set k v m).
Proof.
  intros Hin Hne. induction m as [|[k' v'] t IH]; [contradiction|]. simpl.
  destruct (k <? k'); [now right|]. destruct (k =? k') eqn:E.
  - apply Z.eqb_eq in E. subst k'. destruct Hin as [H|H]; [injection H as -> _; contradiction|now right].
  - destruct Hin as [H|H]; [now left|right; apply IH; exact H].
Qed.

Lemma zmap_set_has {A} k (v : A) m : In (k, v) (zmap_set k v m).
Proof.
  induction m as [|[k' v'] t IH]; simpl; [now left|].
  destruct (k <? k'); [now left|]. destruct (k =? k'); [now left|now right].
Qed.

Lemma ll_of_gen inputs : forall ll,
  NoDup (in_idx inputs) -> (forall i, In i (keys (ll_contribs ll)) -> ~ In i (in_idx inputs)) ->
  let ll' := fold_left (fun ll x => add_contributor ll (snd (fst x)) (fst (fst x)) (snd x)) inputs ll in
  (forall i w, In (i, w) (ll_contribs ll') <-> In (i, w) (ll_contribs ll) \/ exists f, In (i, w, f) inputs) /\
  (forall lv, In lv (ll_lvals ll') <-> In lv (ll_lvals ll) \/ exists i f, In (i, lv, f) inputs) /\
  (forall j, In j (ll_folded ll') <-> In j (ll_folded ll) \/ exists w, In (j, w, true) inputs).
Proof.
  induction inputs as [|[[i0 w0] f0] t IH]; intros ll Hnd Hfresh; cbn [fold_left].
  - split; [|split]; intros; (split; [auto|intros [H|H]; [exact H|]]); [destruct H as (f & [])|destruct H as (i & f & [])|destruct H as (w & [])].
  - cbn [in_idx map fst snd] in *. inversion Hnd as [|? ? Hn Hnd']; subst.
    set (ll1 := add_contributor ll w0 i0 f0).
    destruct (IH ll1 Hnd') as (A & B & C).
    { intros i Hi Hin. unfold ll1 in Hi. cbn [add_contributor ll_contribs] in Hi. unfold keys in Hi.
      apply in_map_iff in Hi as ([k v] & <- & Hkv). cbn [fst] in *. apply zmap_set_in in Hkv as [[-> _]|Hkv].
      - exact (Hn Hin).
      - apply (Hfresh k); [apply in_map_iff; exists (k, v); auto|now right]. }
    assert (Hi0 : ~ In i0 (keys (ll_contribs ll))) by (intros H; apply (Hfresh i0 H); now left).
    split; [|split].
    + intros i w. rewrite A. unfold ll1. cbn [add_contributor ll_contribs]. split.
      * intros [H|(f & H)].
        -- apply zmap_set_in in H as [[-> ->]|H]; [right; exists f0; now left|now left].
        -- right. exists f. now right.
      * intros [H|(f & [H|H])].
        -- left. apply zmap_set_keeps; [exact H|]. intros ->. apply Hi0. apply in_map_iff. exists (i0, w). auto.
        -- injection H as -> -> ->. left. apply zmap_set_has.
        -- right. exists f. exact H.
    + intros lv. rewrite B. unfold ll1. cbn [add_contributor ll_lvals]. rewrite zset_add_In. split.
      * intros [[->|H]|(i & f & H)]; [right; exists i0, f0; now left|now left|right; exists i, f; now right].
      * intros [H|(i & f & [H|H])]; [left; now right| |right; exists i, f; exact H]. injection H as _ -> _. left. now left.
    + intros j. rewrite C. unfold ll1. cbn [add_contributor ll_folded]. split.
      * intros [H|(w & H)]; [|right; exists w; now right]. destruct f0; [|now left].
        apply zset_add_In in H as [->|H]; [right; exists w0; now left|now left].
      * intros [H|(w & [H|H])]; [|injection H as -> -> ->|right; exists w; exact H].
        -- left. destruct f0; [apply zset_add_In; now right|exact H].
        -- left. apply zset_add_In. now left.
Qed.

Lemma ll_of_spec inputs : NoDup (in_idx inputs) ->
  let ll := ll_of inputs in
  (forall i w, In (i, w) (ll_contribs ll) <-> exists f, In (i, w, f) inputs) /\
  (forall lv, In lv (ll_lvals ll) <-> exists i f, In (i, lv, f) inputs) /\
  (forall j, In j (ll_folded ll) <-> exists w, In (j, w, true) inputs).
Proof.
  intros Hnd. destruct (ll_of_gen inputs ll_empty Hnd) as (A & B & C); [intros i []|].
  unfold ll_of. cbn [ll_empty ll_contribs ll_lvals ll_folded In] in *. split; [|split].
  - intros i w. rewrite A. tauto.
  - intros lv. rewrite B. tauto.
  - intros j. rewrite C. tauto.
Qed.

Lemma contributors_ge_in cs lv x : In x (contributors_ge cs lv) <-> exists w, In (x, w) cs /\ lv <= w.
Proof.
  unfold contributors_ge. rewrite in_map_iff. split.
  - intros ([i w] & <- & H). apply filter_In in H as [H1 H2]. exists w. split; [exact H1|apply Z.leb_le; exact H2].
  - intros (w & H1 & H2). exists (x, w). split; [reflexivity|]. apply filter_In. split; [exact H1|apply Z.leb_le; exact H2].
Qed.

Lemma contributors_ge_nodup cs lv : zsorted (keys cs) -> NoDup (contributors_ge cs lv).
Proof.
  intros Hs. apply zsorted_NoDup in Hs. unfold contributors_ge, keys in *.
  induction cs as [|c t IH]; simpl; [constructor|]. inversion Hs as [|? ? Hn Hs']; subst.
  destruct (lv <=? snd c); simpl; [|apply IH; exact Hs'].
  constructor; [|apply IH; exact Hs']. intros Hin. apply Hn. apply in_map_iff in Hin as (y & Hy1 & Hy2).
  apply filter_In in Hy2 as [Hy2 _]. apply in_map_iff. exists y. auto.
Qed.

Fixpoint wlevels_ok (cs : list (Z * Z)) (hi : Z) (lvs : list Z) : Prop :=
  match lvs with
  | [] => True
  | l :: t => hi <= l /\ gap_free cs hi l /\ wlevels_ok cs l t
  end.

Lemma levels_ok_w cs lvs : forall hi, levels_ok cs hi lvs -> wlevels_ok cs hi lvs.
Proof. induction lvs as [|l t IH]; intros hi H; simpl in *; [exact I|]. destruct H as (A & B & C). split; [lia|]. split; [exact B|apply IH; exact C]. Qed.

Lemma ll_wlevels_ok ll : ll_wf ll -> wlevels_ok (ll_contribs ll) 0 (ll_lvals ll).
Proof.
  intros [A B C D]. destruct (ll_lvals ll) as [|l1 t] eqn:E; [exact I|].
  assert (H1 : 0 <= l1) by (apply D; now left).
  simpl. split; [exact H1|]. split.
  - intros i w Hw. right. specialize (C i w Hw). destruct C as [<-|Hin]; [lia|].
    pose proof (zsorted_head_lt l1 t B w Hin). lia.
  - apply levels_ok_w. apply (levels_ok_of (ll_contribs ll) (l1 :: t) C B t [] l1). reflexivity.
Qed.

Lemma build_levels_ok players cs : zsorted (keys cs) -> (forall i, In i (keys cs) -> In i (pidx players)) ->
  forall lvs prev, wlevels_ok cs prev lvs -> (forall lv, In lv lvs -> exists i, In (i, lv) cs) ->
  forall l, In l (build_levels cs prev lvs) -> level_ok players l.
Proof.
  intros Hs Hp. induction lvs as [|lv t IH]; intros prev Hw Hex l Hl; [contradiction|].
  destruct Hw as (W1 & W2 & W3). cbn [build_levels] in Hl. destruct Hl as [<-|Hl].
  - constructor; cbn [l_contribs l_total l_wager].
    + apply contributors_ge_nodup. exact Hs.
    + intros i Hi. apply contributors_ge_in in Hi as (w & Hw & _). apply Hp. apply in_map_iff. exists (i, w). auto.
    + lia.
    + lia.
    + destruct (Hex lv (or_introl eq_refl)) as (i & Hi).
      assert (In i (contributors_ge cs lv)) by (apply contributors_ge_in; exists lv; split; [exact Hi|lia]).
      intros E. rewrite E in H. exact H.
  - apply (IH lv W3 (fun x Hx => Hex x (or_intror Hx)) l Hl).
Qed.

(* what x has paid into the levels is his contribution *)
Lemma zmem_contributors cs lv x c : zsorted (keys cs) -> In (x, c) cs -> zmem x (contributors_ge cs lv) = (lv <=? c).
Proof.
  intros Hs Hin. destruct (lv <=? c) eqn:E.
  - apply zmem_In. apply contributors_ge_in. exists c. split; [exact Hin|apply Z.leb_le; exact E].
  - apply zmem_false. intros H. apply contributors_ge_in in H as (w & Hw & Hle).
    pose proof (zmap_get_in x cs c Hs Hin). pose proof (zmap_get_in x cs w Hs Hw). apply Z.leb_gt in E. assert (c = w) by congruence. lia.
Qed.

Lemma zsorted_all_ge l t : zsorted (l :: t) -> forall y, In y (l :: t) -> l <= y.
Proof. intros H y [<-|Hy]; [lia|]. pose proof (zsorted_head_lt l t H y Hy). lia. Qed.

Lemma paid_build cs x c : zsorted (keys cs) -> In (x, c) cs ->
  forall lvs prev, zsorted lvs -> wlevels_ok cs prev lvs -> (c <= prev \/ In c lvs) ->
  zsum (map (paid x) (build_levels cs prev lvs)) = Z.max c prev - prev.
Proof.
  intros Hs Hin. induction lvs as [|lv t IH]; intros prev Hz Hw Hc; cbn [build_levels map zsum].
  - destruct Hc as [Hc|[]]. lia.
  - destruct Hw as (W1 & W2 & W3). unfold paid at 1. cbn [l_contribs l_wager].
    rewrite (zmem_contributors cs lv x c Hs Hin).
    destruct (lv <=? c) eqn:E; [apply Z.leb_le in E|apply Z.leb_gt in E].
    + rewrite (IH lv (zsorted_tail _ _ Hz) W3); [lia|]. destruct Hc as [Hc|[Hc|Hc]]; [left; lia|left; lia|now right].
    + assert (Hc' : c <= prev).
      { destruct Hc as [Hc|Hc]; [exact Hc|]. pose proof (zsorted_all_ge lv t Hz c Hc). lia. }
      rewrite (IH lv (zsorted_tail _ _ Hz) W3) by (left; lia). lia.
Qed.

(* what everybody has paid into the levels that x has paid into: min(c_j, c_x) for every j *)
Lemma total_build cs x c : zsorted (keys cs) -> In (x, c) cs ->
  forall lvs prev, zsorted lvs -> wlevels_ok cs prev lvs -> (c <= prev \/ In c lvs) ->
  zsum (map (fun l => if zmem x (l_contribs l) then l_total l else 0) (build_levels cs prev lvs))
  = contrib_sum cs prev (Z.max c prev).
Proof.
  intros Hs Hin. induction lvs as [|lv t IH]; intros prev Hz Hw Hc; cbn [build_levels map zsum].
  - destruct Hc as [Hc|[]]. replace (Z.max c prev) with prev by lia.
    unfold contrib_sum. clear. induction cs as [|y r IHr]; simpl; lia.
  - destruct Hw as (W1 & W2 & W3). cbn [l_contribs l_total].
    rewrite (zmem_contributors cs lv x c Hs Hin).
    destruct (lv <=? c) eqn:E; [apply Z.leb_le in E|apply Z.leb_gt in E].
    + rewrite (IH lv (zsorted_tail _ _ Hz) W3) by (destruct Hc as [Hc|[Hc|Hc]]; [left; lia|left; lia|now right]).
      rewrite (layer_total cs prev lv W1 W2). replace (Z.max c lv) with c by lia. replace (Z.max c prev) with c by lia.
      apply contrib_sum_add.
    + assert (Hc' : c <= prev).
      { destruct Hc as [Hc|Hc]; [exact Hc|]. pose proof (zsorted_all_ge lv t Hz c Hc). lia. }
      rewrite (IH lv (zsorted_tail _ _ Hz) W3) by (left; lia).
      replace (Z.max c lv) with lv by lia. replace (Z.max c prev) with prev by lia.
      unfold contrib_sum. clear. induction cs as [|y r IHr]; simpl; lia.
Qed.

Lemma build_levels_contribs cs : forall lvs prev l, In l (build_levels cs prev lvs) ->
  l_contribs l = contributors_ge cs (l_level l) /\ In (l_level l) lvs.
Proof.
  induction lvs as [|lv t IH]; intros prev l Hl; [contradiction|]. cbn [build_levels] in Hl. destruct Hl as [<-|Hl].
  - split; [reflexivity|now left].
  - destruct (IH lv l Hl) as [A B]. split; [exact A|now right].
Qed.

(* ---------- (11) settlement of a vector given directly to the pot and settlement packages ---------- *)
(* one entry per player: (index, contribution, folded, bankroll, score) *)
Definition vec := list (Z * Z * bool * Z * Z).
Definition v_pot (v : vec) : list (Z * Z * bool) := map (fun x => match x with (i, c, f, _, _) => (i, c, f) end) v.
Definition v_pl (v : vec) : list (Z * Z * Z) := map (fun x => match x with (i, _, _, b, s) => (i, b, s) end) v.
Definition v_idx (v : vec) : list Z := map (fun x => match x with (i, _, _, _, _) => i end) v.
Definition v_contrib (v : vec) : list Z := map (fun x => match x with (_, c, _, _, _) => c end) v.
Definition settle_vec (v : vec) : result := settle (get_pots (ll_of (v_pot v))) (v_pl v).

Definition vec_ok (v : vec) : Prop := NoDup (v_idx v) /\ forall c, In c (v_contrib v) -> 0 <= c.

Lemma pidx_v_pl v : pidx (v_pl v) = v_idx v.
Proof. unfold pidx, v_pl, v_idx. rewrite map_map. apply map_ext. intros [[[[i c] f] b] s]. reflexivity. Qed.

Lemma in_idx_v_pot v : in_idx (v_pot v) = v_idx v.
Proof. unfold in_idx, v_pot, v_idx. rewrite map_map. apply map_ext. intros [[[[i c] f] b] s]. reflexivity. Qed.

Lemma v_pot_in v i c f : In (i, c, f) (v_pot v) <-> exists b s, In (i, c, f, b, s) v.
Proof.
  unfold v_pot. rewrite in_map_iff. split.
  - intros ([[[[i' c'] f'] b] s] & E & H). injection E as -> -> ->. exists b, s. exact H.
  - intros (b & s & H). exists (i, c, f, b, s). auto.
Qed.

Lemma v_pl_in v i b s : In (i, b, s) (v_pl v) <-> exists c f, In (i, c, f, b, s) v.
Proof.
  unfold v_pl. rewrite in_map_iff. split.
  - intros ([[[[i' c] f] b'] s'] & E & H). injection E as -> -> ->. exists c, f. exact H.
  - intros (c & f & H). exists (i, c, f, b, s). auto.
Qed.

Lemma vec_nonneg v : vec_ok v -> nonneg_inputs (v_pot v).
Proof.
  intros [_ H] [[i c] f] Hin. cbn [fst snd]. apply v_pot_in in Hin as (b & s & Hin). apply H.
  unfold v_contrib. apply in_map_iff. exists (i, c, f, b, s). auto.
Qed.

Lemma vec_unique v i c f b s c' f' b' s' :
  NoDup (v_idx v) -> In (i, c, f, b, s) v -> In (i, c', f', b', s') v -> (c, f, b, s) = (c', f', b', s').
Proof.
  unfold v_idx. induction v as [|[[[[j cj] fj] bj] sj] t IH]; intros Hnd H1 H2; [contradiction|].
  cbn [map] in Hnd. inversion Hnd as [|? ? Hn Hnd']; subst.
  destruct H1 as [H1|H1], H2 as [H2|H2].
  - congruence.
  - injection H1 as -> -> -> -> ->. exfalso. apply Hn. apply in_map_iff. exists (i, c', f', b', s'). auto.
  - injection H2 as -> -> -> -> ->. exfalso. apply Hn. apply in_map_iff. exists (i, c, f, b, s). auto.
  - apply IH; assumption.
Qed.

Section Vector.
  Variable v : vec.
  Hypothesis Hok : vec_ok v.
  Let ll := ll_of (v_pot v).
  Let cs := ll_contribs ll.

  Lemma vec_wf : ll_wf ll.
  Proof. apply ll_of_wf. apply vec_nonneg. exact Hok. Qed.

  Lemma vec_spec :
    (forall i w, In (i, w) cs <-> exists f b s, In (i, w, f, b, s) v) /\
    (forall lv, In lv (ll_lvals ll) <-> exists i f b s, In (i, lv, f, b, s) v) /\
    (forall j, In j (ll_folded ll) <-> exists w b s, In (j, w, true, b, s) v).
  Proof.
    destruct Hok as [Hnd _]. destruct (ll_of_spec (v_pot v)) as (A & B & C); [rewrite in_idx_v_pot; exact Hnd|].
    fold ll in A, B, C. fold cs in A. split; [|split].
    - intros i w. rewrite A. split; [intros (f & H); apply v_pot_in in H as (b & s & H); eauto|].
      intros (f & b & s & H). exists f. apply v_pot_in. eauto.
    - intros lv. rewrite B. split; [intros (i & f & H); apply v_pot_in in H as (b & s & H); eauto|].
      intros (i & f & b & s & H). exists i, f. apply v_pot_in. eauto.
    - intros j. rewrite C. split; [intros (w & H); apply v_pot_in in H as (b & s & H); eauto|].
      intros (w & b & s & H). exists w. apply v_pot_in. eauto.
  Qed.

  Lemma vec_levels_ok : pot_levels_ok (v_pl v) (get_pots ll).
  Proof.
    intros p l Hp Hl.
    assert (Hin : In l (ll_levels ll)).
    { rewrite <- get_pots_levels. apply in_flat_map. exists p. auto. }
    pose proof vec_wf as Hwf. destruct vec_spec as (A & B & _).
    unfold ll_levels in Hin. fold cs in Hin.
    apply (build_levels_ok (v_pl v) cs (wf_keys _ Hwf)) with (lvs := ll_lvals ll) (prev := 0).
    - intros i Hi. unfold keys in Hi. apply in_map_iff in Hi as ([k w] & <- & Hk). cbn [fst].
      apply A in Hk as (f & b & s & Hk). rewrite pidx_v_pl. unfold v_idx. apply in_map_iff. exists (k, w, f, b, s). auto.
    - apply ll_wlevels_ok. exact Hwf.
    - intros lv Hlv. apply B in Hlv as (i & f & b & s & H). exists i. apply A. eauto.
    - exact Hin.
  Qed.

  Lemma vec_paid x c f b s : In (x, c, f, b, s) v -> sum_levels (paid x) (get_pots ll) = c.
  Proof.
    intros Hin. pose proof vec_wf as Hwf. destruct vec_spec as (A & B & _).
    rewrite sum_levels_flat, get_pots_levels. unfold ll_levels. fold cs.
    assert (Hc : In (x, c) cs) by (apply A; eauto).
    rewrite (paid_build cs x c (wf_keys _ Hwf) Hc (ll_lvals ll) 0 (wf_lvs _ Hwf) (ll_wlevels_ok ll Hwf)).
    - assert (0 <= c); [|lia]. destruct Hok as [_ Hn]. apply Hn. unfold v_contrib. apply in_map_iff. exists (x, c, f, b, s). auto.
    - right. apply B. eauto.
  Qed.

  Lemma vec_others x c f b s : In (x, c, f, b, s) v ->
    sum_levels (others_paid x) (get_pots ll) = zsum (map (fun w => Z.min w c) (v_contrib v)) - c.
  Proof.
    intros Hin. pose proof vec_wf as Hwf. destruct vec_spec as (A & B & _).
    assert (Hc : In (x, c) cs) by (apply A; eauto).
    assert (H0 : 0 <= c) by (destruct Hok as [_ Hn]; apply Hn; unfold v_contrib; apply in_map_iff; exists (x, c, f, b, s); auto).
    pose proof (vec_paid x c f b s Hin) as Hp. rewrite sum_levels_flat, get_pots_levels in *. unfold ll_levels in Hp |- *. fold cs in Hp. fold cs.
    pose proof (total_build cs x c (wf_keys _ Hwf) Hc (ll_lvals ll) 0 (wf_lvs _ Hwf) (ll_wlevels_ok ll Hwf)
                  (or_intror (proj2 (B c) (ex_intro _ x (ex_intro _ f (ex_intro _ b (ex_intro _ s Hin))))))) as Ht.
    assert (Hsplit : forall ls, zsum (map (others_paid x) ls)
                     = zsum (map (fun l => if zmem x (l_contribs l) then l_total l else 0) ls) - zsum (map (paid x) ls)).
    { induction ls as [|l t IH]; cbn [map zsum]; [reflexivity|]. rewrite IH. unfold others_paid, paid. destruct (zmem x (l_contribs l)); lia. }
    rewrite Hsplit, Ht, Hp. replace (Z.max c 0) with c by lia. f_equal.
    (* the contributions recorded in the level list are those of the vector *)
    assert (P : Permutation (map snd cs) (v_contrib v)).
    { assert (P1 : Permutation cs (map (fun y => match y with (i, w, _, _, _) => (i, w) end) v)).
      { apply NoDup_Permutation.
        - assert (Hk : NoDup (keys cs)) by (apply zsorted_NoDup; apply (wf_keys _ Hwf)).
          unfold keys in Hk. apply (NoDup_map_inv fst). exact Hk.
        - destruct Hok as [Hnd _]. unfold v_idx in Hnd. apply (NoDup_map_inv fst). rewrite map_map.
          erewrite map_ext; [exact Hnd|]. intros [[[[i w] f'] b'] s']. reflexivity.
        - intros [i w]. rewrite A, in_map_iff. split.
          + intros (f' & b' & s' & H). exists (i, w, f', b', s'). auto.
          + intros ([[[[i' w'] f'] b'] s'] & E & H). injection E as -> ->. eauto. }
      apply (Permutation_map snd) in P1. rewrite map_map in P1. unfold v_contrib.
      erewrite (map_ext _ (fun x0 : Z * Z * bool * Z * Z => let '(_, c0, _, _, _) := x0 in c0)) in P1; [exact P1|].
      intros [[[[i w] f'] b'] s']. reflexivity. }
    unfold contrib_sum.
    assert (Hnn : forall w, In w (map snd cs) -> 0 <= w).
    { intros w Hw. apply in_map_iff in Hw as ([i w'] & <- & Hi). cbn [snd]. apply (ll_of_nonneg (v_pot v) (vec_nonneg v Hok) i w' Hi). }
    assert (E1 : forall l : list (Z * Z), (forall w, In w (map snd l) -> 0 <= w) ->
                 zsum (map (fun c0 : Z * Z => Z.min (snd c0) c - Z.min (snd c0) 0) l) = zsum (map (fun w => Z.min w c) (map snd l))).
    { induction l as [|y t IH]; intros Hl; cbn [map zsum]; [reflexivity|].
      rewrite IH by (intros w Hw; apply Hl; now right). pose proof (Hl (snd y) (or_introl eq_refl)). lia. }
    rewrite (E1 cs Hnn).
    clear -P. induction P; cbn [map zsum]; lia.
  Qed.

  (* the result of settling a vector: zero-sum; final stack = bankroll + change; nobody loses more than he
     put in; nobody wins more than what the others put in up to his own contribution *)
  Theorem settle_vec_summary :
    let ps := res_players (settle_vec v) in
    idxs ps = v_idx v /\
    sumc ps = 0 /\
    forall x c f b s, In (x, c, f, b, s) v ->
      fin ps x = b + chg ps x /\
      - c <= chg ps x <= zsum (map (fun w => Z.min w c) (v_contrib v)) - c.
  Proof.
    cbv zeta. unfold settle_vec. fold ll.
    assert (Hnd : NoDup (pidx (v_pl v))) by (rewrite pidx_v_pl; apply Hok).
    destruct (settle_summary (get_pots ll) (v_pl v) Hnd vec_levels_ok) as (I & Z0 & P).
    split; [rewrite I; apply pidx_v_pl|]. split; [exact Z0|].
    intros x c f b s Hin.
    destruct (P x b s) as [F Bd]; [apply v_pl_in; eauto|].
    split; [exact F|]. rewrite (vec_paid x c f b s Hin), (vec_others x c f b s Hin) in Bd. exact Bd.
  Qed.
End Vector.

Section Vector2.
  Variable v : vec.
  Hypothesis Hok : vec_ok v.
  Let ll := ll_of (v_pot v).
  Let cs := ll_contribs ll.

  (* the levels inside the published pots: contributors are the players who put in at least the level *)
  Lemma vec_level_contribs p l : In p (get_pots ll) -> In l (pt_levels p) ->
    level_ok (v_pl v) l /\ In (l_level l) (ll_lvals ll) /\
    forall y, In y (l_contribs l) <-> exists cy fy by' sy, In (y, cy, fy, by', sy) v /\ l_level l <= cy.
  Proof.
    intros Hp Hl. split; [apply (vec_levels_ok v Hok p l Hp Hl)|].
    assert (Hin : In l (ll_levels ll)) by (rewrite <- get_pots_levels; apply in_flat_map; exists p; auto).
    destruct (build_levels_contribs (ll_contribs ll) (ll_lvals ll) 0 l Hin) as [E Hlv]. split; [exact Hlv|].
    destruct (vec_spec v Hok) as (A & _ & _). intros y. rewrite E, contributors_ge_in. split.
    - intros (w & Hw & Hle). apply A in Hw as (f & b & s & Hw). eauto 6.
    - intros (cy & fy & by' & sy & Hy & Hle). exists cy. split; [apply A; eauto|exact Hle].
  Qed.

  (* a player who, at every level he paid into, faces a contributor with a better score loses exactly
     what he put in *)
  Theorem settle_vec_beaten x c f b s :
    In (x, c, f, b, s) v ->
    (forall lv, In lv (ll_lvals ll) -> lv <= c ->
       exists y cy fy by' sy, In (y, cy, fy, by', sy) v /\ lv <= cy /\ s < sy) ->
    chg (res_players (settle_vec v)) x = - c.
  Proof.
    intros Hin Hbeat. unfold settle_vec. fold ll.
    destruct (settle_players (get_pots ll) (v_pl v)) as (_ & _ & C & _). rewrite C.
    assert (Hnd : NoDup (pidx (v_pl v))) by (rewrite pidx_v_pl; apply Hok).
    pose proof (pots_share_between (v_pl v) (get_pots ll) x (fun l => - paid x l) (fun l => - paid x l)) as Hb.
    pose proof (vec_paid v Hok x c f b s Hin) as Hpaid. fold ll in Hpaid. rewrite sum_levels_opp, Hpaid in Hb.
    assert (forall p l, In p (get_pots ll) -> In l (pt_levels p) -> forall off,
              - paid x l <= level_share (slevel (v_pl v) l) off x <= - paid x l); [|specialize (Hb H); lia].
    intros p l Hp Hl off. destruct (vec_level_contribs p l Hp Hl) as (Hlok & Hlv & Hcon).
    destruct (slevel_spec (v_pl v) l off x Hnd Hlok) as (_ & M & [_ HM] & A & B & _).
    unfold paid. destruct (zmem x (l_contribs l)) eqn:E.
    - apply zmem_In in E. pose proof (proj1 (Hcon x) E) as (c' & f' & b' & s' & Hx' & Hle).
      assert (Eq : (c, f, b, s) = (c', f', b', s')) by (apply (vec_unique v x); [apply Hok|exact Hin|exact Hx']).
      injection Eq as <- <- <- <-.
      destruct (Hbeat (l_level l) Hlv Hle) as (y & cy & fy & by' & sy & Hy & Hley & Hlt).
      assert (Hys : In (y, sy) (sc_of (v_pl v) (l_contribs l))).
      { apply sc_of_in. split; [exists by'; apply v_pl_in; eauto|apply Hcon; eauto 7]. }
      assert (Hxs : In (x, s) (sc_of (v_pl v) (l_contribs l))).
      { apply sc_of_in. split; [exists b; apply v_pl_in; eauto|exact E]. }
      specialize (HM (y, sy) Hys). cbn [snd] in HM.
      rewrite (B s Hxs) by lia. lia.
    - apply zmem_false in E. rewrite (A E). lia.
  Qed.

  (* a folded player (score 0) wins nothing and loses exactly what he put in, as soon as some player with
     a positive score has put in at least as much *)
  Corollary settle_vec_folded x c b :
    In (x, c, true, b, 0) v ->
    (exists y cy fy by' sy, In (y, cy, fy, by', sy) v /\ c <= cy /\ 0 < sy) ->
    chg (res_players (settle_vec v)) x = - c.
  Proof.
    intros Hin (y & cy & fy & by' & sy & Hy & Hle & Hpos).
    apply (settle_vec_beaten x c true b 0 Hin). intros lv _ Hlv. exists y, cy, fy, by', sy. split; [exact Hy|]. split; lia.
  Qed.

  (* the chips of a level with a single contributor (an uncalled excess) go back to him *)
  Theorem lone_contributor_level p l x off :
    In p (get_pots ll) -> In l (pt_levels p) -> l_contribs l = [x] ->
    level_share (slevel (v_pl v) l) off x = 0.
  Proof.
    intros Hp Hl Hone. destruct (vec_level_contribs p l Hp Hl) as (Hlok & _ & _).
    assert (Hnd : NoDup (pidx (v_pl v))) by (rewrite pidx_v_pl; apply Hok).
    destruct (slevel_spec (v_pl v) l off x Hnd Hlok) as (_ & M & [(y & Hy & HyM) _] & _ & _ & C).
    assert (Hlen : length (sc_of (v_pl v) (l_contribs l)) = 1%nat) by (rewrite (sc_of_length (v_pl v) l Hnd Hlok), Hone; reflexivity).
    destruct (sc_of (v_pl v) (l_contribs l)) as [|[x' s'] [|? ?]] eqn:Esc; try discriminate Hlen. clear Hlen.
    assert (Hx' : In x' (l_contribs l)).
    { apply (sc_of_fst (v_pl v) (l_contribs l)). rewrite Esc. now left. }
    rewrite Hone in Hx'. destruct Hx' as [<-|[]]. destruct Hy as [<-|[]]. cbn [snd] in HyM. subst s'.
    destruct (C (or_introl eq_refl)) as (e & He & ->).
    assert (Hk : zn (length (with_score M [(x, M)])) = 1) by (unfold with_score; cbn [filter snd]; rewrite Z.eqb_refl; reflexivity).
    rewrite Hk in *. rewrite Z.mod_1_r in He. rewrite Z.div_1_r, (lo_total _ _ Hlok), Hone. cbn [length]. change (zn 1) with 1.
    destruct He as [->|[_ He]]; lia.
  Qed.

  (* the Go code divides by the number of winners of a level: on a well-formed vector that number is never 0 *)
  Theorem settle_vec_no_panic : settle_panics (get_pots ll) (v_pl v) = false.
  Proof.
    rewrite settle_panics_eq. unfold calc_panics. cbn [res_pots].
    assert (Hnd : NoDup (pidx (v_pl v))) by (rewrite pidx_v_pl; apply Hok).
    destruct (existsb _ (scored_pots (v_pl v) (get_pots ll))) eqn:E; [|reflexivity]. exfalso.
    apply existsb_exists in E as (pr & Hpr & E). apply existsb_exists in E as (li & Hli & E).
    unfold scored_pots in Hpr. apply in_map_iff in Hpr as (p & <- & Hp). cbn [pr_levels] in Hli.
    unfold scored_levels in Hli. apply in_map_iff in Hli as (l & <- & Hl).
    pose proof (sc_of_nonempty (v_pl v) l Hnd (vec_levels_ok v Hok p l Hp Hl)) as Hne.
    cbn [scored_level li_groups] in E.
    destruct (sc_of (v_pl v) (l_contribs l)) as [|[i0 s0] t]; [contradiction|].
    unfold groups_of, groups_from in E. cbn [fold_left group_add fst snd] in E.
    assert (G : forall rest gs, gs <> [] -> fold_left (fun gs x => group_add (snd x) (fst x) gs) rest gs <> []).
    { induction rest as [|y r IH]; intros gs Hgs; cbn [fold_left]; [exact Hgs|]. apply IH.
      destruct gs as [|g gs']; [contradiction|]. simpl. destruct (g_score g =? snd y); discriminate. }
    specialize (G t [mkGroup s0 [i0]] ltac:(discriminate)).
    destruct (fold_left _ t _); [contradiction|discriminate].
  Qed.
End Vector2.

(* ---------- (12) the odd chips of a pot go round the winners: shares differ by at most one ---------- *)
(* how many of the first T odd chips of a pot land on position i *)
Definition landed (count T i : Z) : Z := T / count + (if i <? T mod count then 1 else 0).

Lemma landed_step count T r i :
  0 < count -> 0 <= T -> 0 <= r < count -> 0 <= i < count ->
  landed count (T + r) i = landed count T i + extra i count T r.
Proof.
  intros Hc HT Hr Hi. unfold landed, extra.
  pose proof (Z.div_mod T count ltac:(lia)) as Hd. pose proof (Z.mod_pos_bound T count Hc) as Ho.
  set (q := T / count) in *. set (o := T mod count) in *.
  rewrite (mod_small_or_wrap (i - o + count) count Hc) by lia.
  destruct (o + r <? count) eqn:E; [apply Z.ltb_lt in E|apply Z.ltb_ge in E].
  - rewrite <- (Z.div_unique (T + r) count q (o + r)) by lia.
    rewrite <- (Z.mod_unique (T + r) count q (o + r)) by lia.
    destruct (i - o + count <? count) eqn:E1; [apply Z.ltb_lt in E1|apply Z.ltb_ge in E1].
    + destruct (i <? o + r) eqn:E2; [apply Z.ltb_lt in E2|apply Z.ltb_ge in E2];
      destruct (i <? o) eqn:E3; [apply Z.ltb_lt in E3|apply Z.ltb_ge in E3| |];
      destruct (i - o + count <? r) eqn:E4; try (apply Z.ltb_lt in E4); try (apply Z.ltb_ge in E4); try (apply Z.ltb_lt in E3); try (apply Z.ltb_ge in E3); lia.
    + destruct (i <? o + r) eqn:E2; [apply Z.ltb_lt in E2|apply Z.ltb_ge in E2];
      destruct (i <? o) eqn:E3; [apply Z.ltb_lt in E3|apply Z.ltb_ge in E3| |];
      destruct (i - o + count - count <? r) eqn:E4; try (apply Z.ltb_lt in E4); try (apply Z.ltb_ge in E4); try (apply Z.ltb_lt in E3); try (apply Z.ltb_ge in E3); lia.
  - rewrite <- (Z.div_unique (T + r) count (q + 1) (o + r - count)) by lia.
    rewrite <- (Z.mod_unique (T + r) count (q + 1) (o + r - count)) by lia.
    destruct (i - o + count <? count) eqn:E1; [apply Z.ltb_lt in E1|apply Z.ltb_ge in E1].
    + destruct (i <? o + r - count) eqn:E2; [apply Z.ltb_lt in E2|apply Z.ltb_ge in E2];
      destruct (i <? o) eqn:E3; [apply Z.ltb_lt in E3|apply Z.ltb_ge in E3| |];
      destruct (i - o + count <? r) eqn:E4; try (apply Z.ltb_lt in E4); try (apply Z.ltb_ge in E4); try (apply Z.ltb_lt in E3); try (apply Z.ltb_ge in E3); lia.
    + destruct (i <? o + r - count) eqn:E2; [apply Z.ltb_lt in E2|apply Z.ltb_ge in E2];
      destruct (i <? o) eqn:E3; [apply Z.ltb_lt in E3|apply Z.ltb_ge in E3| |];
      destruct (i - o + count - count <? r) eqn:E4; try (apply Z.ltb_lt in E4); try (apply Z.ltb_ge in E4); try (apply Z.ltb_lt in E3); try (apply Z.ltb_ge in E3); lia.
Qed.

(* the winner in position i of a list without repetition *)
Lemma wshare_nth ws : NoDup ws -> forall (i : nat) j count off based rem wager d, (i < length ws)%nat ->
  wshare ws j count off based rem wager (nth i ws d) = based + extra (j + zn i) count off rem - wager.
Proof.
  induction ws as [|w t IH]; intros Hnd i j count off based rem wager d Hi; [simpl in Hi; lia|].
  inversion Hnd as [|? ? Hn Hnd']; subst. cbn [wshare]. destruct i as [|i]; cbn [nth].
  - rewrite Z.eqb_refl, wshare_notin by exact Hn. unfold zn. simpl. replace (j + 0) with j by lia. lia.
  - assert (Hne : w <> nth i t d) by (intros ->; apply Hn; apply nth_In; simpl in Hi; lia).
    replace (w =? nth i t d) with false by (symmetry; apply Z.eqb_neq; exact Hne).
    rewrite IH by (try assumption; simpl in Hi; lia). unfold zn. rewrite Nat2Z.inj_succ.
    replace (j + 1 + Z.of_nat i) with (j + Z.succ (Z.of_nat i)) by lia. lia.
Qed.

(* a pot all of whose levels have the same winners ws, none of them among the losers *)
Definition same_winners (ws : list Z) (ls : list linfo) : Prop :=
  forall li, In li ls -> winners_of li = ws /\ forall x, In x ws -> occ x (losers_of li) = 0.

Fixpoint rems (ls : list linfo) : Z := match ls with [] => 0 | li :: t => rem_of li + rems t end.
Fixpoint flat_part (ls : list linfo) : Z :=
  match ls with [] => 0 | li :: t => (li_total li / cnt_of li - li_wager li) + flat_part t end.

Lemma levels_share_landed ws : NoDup ws -> ws <> [] ->
  forall ls off (i : nat) d, same_winners ws ls -> 0 <= off -> (i < length ws)%nat ->
  levels_share ls off (nth i ws d)
  = flat_part ls + landed (zn (length ws)) (off + rems ls) (zn i) - landed (zn (length ws)) off (zn i).
Proof.
  intros Hnd Hne. induction ls as [|li t IH]; intros off i d Hs Hoff Hi; cbn [levels_share rems flat_part].
  - replace (off + 0) with off by lia. lia.
  - destruct (Hs li (or_introl eq_refl)) as [Hw Hl].
    assert (Hc : 0 < zn (length ws)) by (unfold zn; destruct ws; [contradiction|simpl length; lia]).
    assert (Hcnt : cnt_of li = zn (length ws)) by (unfold cnt_of; rewrite Hw; reflexivity).
    assert (Hr : 0 <= rem_of li < zn (length ws)) by (unfold rem_of; rewrite Hcnt; apply Z.mod_pos_bound; exact Hc).
    rewrite (IH (off + rem_of li) i d (fun l Hl' => Hs l (or_intror Hl'))) by (try assumption; lia).
    unfold level_share. rewrite Hw, (Hl (nth i ws d)) by (apply nth_In; exact Hi).
    rewrite wshare_nth by assumption. rewrite Hcnt.
    rewrite (landed_step (zn (length ws)) off (rem_of li) (zn i)) by (try assumption; unfold zn; lia).
    replace (off + (rem_of li + rems t)) with (off + rem_of li + rems t) by lia. replace (0 + zn i) with (zn i) by lia. lia.
Qed.

Lemma landed_range count T i : 0 < count -> T / count <= landed count T i <= T / count + 1.
Proof. intros _. unfold landed. destruct (i <? T mod count); lia. Qed.

(* the whole of one pot: any two of its winners receive the same amount, give or take one chip *)
Theorem pot_split ws ls x y :
  NoDup ws -> same_winners ws ls -> In x ws -> In y ws ->
  -1 <= levels_share ls 0 x - levels_share ls 0 y <= 1.
Proof.
  intros Hnd Hs Hx Hy.
  assert (Hne : ws <> []) by (intros ->; contradiction).
  destruct (In_nth ws x 0 Hx) as (i & Hi & <-). destruct (In_nth ws y 0 Hy) as (j & Hj & <-).
  rewrite !(levels_share_landed ws Hnd Hne ls 0) by (try assumption; lia).
  assert (Hc : 0 < zn (length ws)) by (unfold zn; destruct ws; [contradiction|simpl length; lia]).
  pose proof (landed_range (zn (length ws)) (0 + rems ls) (zn i) Hc).
  pose proof (landed_range (zn (length ws)) (0 + rems ls) (zn j) Hc).
  assert (L0 : forall k : nat, landed (zn (length ws)) 0 (zn k) = 0).
  { intros k. unfold landed. rewrite Z.div_0_l, Z.mod_0_l by lia.
    replace (zn k <? 0) with false by (symmetry; apply Z.ltb_ge; unfold zn; lia). reflexivity. }
  rewrite !L0. lia.
Qed.

Lemma with_score_sc_of M players contribs :
  with_score M (sc_of players contribs)
  = map (fun y => fst (fst y)) (filter (fun y => zmem (fst (fst y)) contribs && (snd y =? M)) players).
Proof.
  unfold with_score, sc_of. induction players as [|y t IH]; cbn [filter map]; [reflexivity|].
  destruct (zmem (fst (fst y)) contribs); cbn [filter map andb snd]; [|exact IH].
  destruct (snd y =? M); cbn [map fst]; [f_equal|]; exact IH.
Qed.

Lemma winners_losers_disjoint li sc x :
  li_groups li = groups_of sc -> sc <> [] -> NoDup (map fst sc) -> In x (winners_of li) -> occ x (losers_of li) = 0.
Proof.
  intros Hg Hne Hnd Hx. destruct (level_winners li sc Hg Hne) as (M & _ & _ & _ & P).
  assert (Hn : NoDup (winners_of li ++ losers_of li)) by (apply (Permutation_NoDup (Permutation_sym P)); exact Hnd).
  apply occ_notin. intros Hl. revert Hn Hx Hl. generalize (winners_of li) (losers_of li). clear.
  induction l as [|a t IH]; intros l2 Hn Hx Hl; [contradiction|]. simpl in Hn. inversion Hn as [|? ? Hna Hn']; subst.
  destruct Hx as [->|Hx]; [apply Hna; apply in_or_app; now right|apply (IH l2 Hn' Hx Hl)].
Qed.

(* scores as the engine hands them to the settlement: 0 for a folded player, positive otherwise *)
Definition scores_ok (v : vec) : Prop :=
  forall i c f b s, In (i, c, f, b, s) v -> (f = true -> s = 0) /\ (f = false -> 0 < s).

Section Vector3.
  Variable v : vec.
  Hypothesis Hok : vec_ok v.
  Hypothesis Hsc : scores_ok v.
  Let ll := ll_of (v_pot v).
  Let cs := ll_contribs ll.
  Let fs := ll_folded ll.

  Lemma elig_in lv x : In x (elig cs fs lv) <-> exists c b s, In (x, c, false, b, s) v /\ lv <= c.
  Proof.
    destruct (vec_spec v Hok) as (A & _ & C). fold ll in A, C. fold cs in A. fold fs in C.
    unfold elig. rewrite in_map_iff. split.
    - intros ([i c] & <- & H). apply filter_In in H as [H1 H2]. cbn [fst snd] in *. apply andb_prop in H2 as [H2 H3].
      apply Z.leb_le in H2. apply negb_true_iff in H3. apply zmem_false in H3.
      apply A in H1 as (f & b & s & H1). destruct f; [exfalso; apply H3; apply C; eauto|]. eauto 6.
    - intros (c & b & s & H & Hle). exists (x, c). split; [reflexivity|]. apply filter_In. split; [apply A; eauto|].
      cbn [fst snd]. apply andb_true_intro. split; [apply Z.leb_le; exact Hle|]. apply negb_true_iff. apply zmem_false.
      intros Hf. apply C in Hf as (w' & b' & s' & Hf).
      pose proof (vec_unique v x c false b s w' true b' s' (proj1 Hok) H Hf). congruence.
  Qed.

  (* inside a pot whose eligible set is not empty, every level has the same winners *)
  Lemma pot_levels_same_winners p l l0 :
    In p (get_pots ll) -> elig cs fs (pt_level p) <> [] -> In l (pt_levels p) -> In l0 (pt_levels p) ->
    winners_of (slevel (v_pl v) l) = winners_of (slevel (v_pl v) l0).
  Proof.
    intros Hp Hlive Hl Hl0.
    assert (Hnd : NoDup (pidx (v_pl v))) by (rewrite pidx_v_pl; apply Hok).
    pose proof (get_pots_lv ll (vec_wf v Hok) p Hp) as Hlv. fold cs fs in Hlv.
    (* facts about one level *)
    assert (F : forall l1, In l1 (pt_levels p) ->
              exists M, 0 < M /\ best_score M (sc_of (v_pl v) (l_contribs l1)) /\
                        winners_of (slevel (v_pl v) l1) = with_score M (sc_of (v_pl v) (l_contribs l1)) /\
                        (forall x s, 0 < s -> (In (x, s) (sc_of (v_pl v) (l_contribs l1)) <->
                                               In x (elig cs fs (pt_level p)) /\ exists b, In (x, b, s) (v_pl v)))).
    { intros l1 Hl1. destruct (vec_level_contribs v Hok p l1 Hp Hl1) as (Hlok & _ & Hcon).
      assert (Hne : sc_of (v_pl v) (l_contribs l1) <> []) by (apply sc_of_nonempty; assumption).
      destruct (level_winners (slevel (v_pl v) l1) _ eq_refl Hne) as (M & HM & Hw & _ & _).
      assert (Hiff : forall x s, 0 < s -> (In (x, s) (sc_of (v_pl v) (l_contribs l1)) <->
                                           In x (elig cs fs (pt_level p)) /\ exists b, In (x, b, s) (v_pl v))).
      { intros x s Hs. rewrite <- (Hlv l1 Hl1), sc_of_in, elig_in, Hcon. split.
        - intros [(b & Hb) (cy & fy & by' & sy & Hy & Hle)]. split; [|exists b; exact Hb].
          apply v_pl_in in Hb as (c' & f' & Hb).
          assert (Eq : (c', f', b, s) = (cy, fy, by', sy)) by (apply (vec_unique v x); [apply Hok|exact Hb|exact Hy]).
          injection Eq as <- <- <- <-. destruct f'; [destruct (Hsc x c' true b s Hb) as [Z0 _]; specialize (Z0 eq_refl); lia|]. eauto 6.
        - intros [(c & b0 & s0 & Hx & Hle) (b & Hb)]. split; [exists b; exact Hb|]. eauto 7. }
      exists M. split; [|split; [exact HM|split; [exact Hw|exact Hiff]]].
      destruct (elig cs fs (pt_level p)) as [|x0 r] eqn:Ee; [contradiction|].
      assert (Hx0 : In x0 (elig cs fs (pt_level p))) by (rewrite Ee; now left).
      pose proof Hx0 as Hx0'.
      apply elig_in in Hx0' as (c & b & s & Hx & _). destruct (Hsc x0 c false b s Hx) as [_ Hpos]. specialize (Hpos eq_refl).
      assert (In (x0, s) (sc_of (v_pl v) (l_contribs l1))).
      { apply (Hiff x0 s Hpos). split; [now left|exists b; apply v_pl_in; eauto]. }
      destruct HM as [_ HM]. specialize (HM (x0, s) H). cbn [snd] in HM. lia. }
    destruct (F l Hl) as (M & HMp & HM & Hw & Hiff). destruct (F l0 Hl0) as (M0 & HM0p & HM0 & Hw0 & Hiff0).
    assert (EM : M = M0).
    { destruct HM as [(x & Hx & Hxs) HMax]. destruct HM0 as [(x0 & Hx0 & Hx0s) HMax0].
      destruct x as [x s]. destruct x0 as [x0 s0]. cbn [snd] in *. subst s s0.
      assert (In (x, M) (sc_of (v_pl v) (l_contribs l0))) by (apply (Hiff0 x M HMp); apply (Hiff x M HMp); exact Hx).
      assert (In (x0, M0) (sc_of (v_pl v) (l_contribs l))) by (apply (Hiff x0 M0 HM0p); apply (Hiff0 x0 M0 HM0p); exact Hx0).
      specialize (HMax0 _ H). specialize (HMax _ H0). cbn [snd] in *. lia. }
    subst M0. rewrite Hw, Hw0, !with_score_sc_of. f_equal. apply filter_ext_in. intros [[i b] s] Hin. cbn [fst snd].
    destruct (s =? M) eqn:Es; [|now rewrite !andb_false_r]. apply Z.eqb_eq in Es. subst s. rewrite !andb_true_r.
    assert (Hb : exists b', In (i, b', M) (v_pl v)) by eauto.
    destruct (zmem i (l_contribs l)) eqn:E1, (zmem i (l_contribs l0)) eqn:E2; try reflexivity; exfalso.
    - apply zmem_In in E1. apply zmem_false in E2. apply E2.
      assert (In (i, M) (sc_of (v_pl v) (l_contribs l))) by (apply sc_of_in; split; [exact Hb|exact E1]).
      apply (Hiff i M HMp) in H. apply (Hiff0 i M HMp) in H. apply sc_of_in in H. tauto.
    - apply zmem_In in E2. apply zmem_false in E1. apply E1.
      assert (In (i, M) (sc_of (v_pl v) (l_contribs l0))) by (apply sc_of_in; split; [exact Hb|exact E2]).
      apply (Hiff0 i M HMp) in H. apply (Hiff i M HMp) in H. apply sc_of_in in H. tauto.
  Qed.

  (* tied winners of the same pot split it equally, their shares differing by at most one chip *)
  Theorem settle_vec_pot_split p l0 x y :
    In p (get_pots ll) -> elig cs fs (pt_level p) <> [] -> In l0 (pt_levels p) ->
    In x (winners_of (slevel (v_pl v) l0)) -> In y (winners_of (slevel (v_pl v) l0)) ->
    -1 <= levels_share (scored_levels (v_pl v) p) 0 x - levels_share (scored_levels (v_pl v) p) 0 y <= 1.
  Proof.
    intros Hp Hlive Hl0 Hx Hy.
    assert (Hnd : NoDup (pidx (v_pl v))) by (rewrite pidx_v_pl; apply Hok).
    apply (pot_split (winners_of (slevel (v_pl v) l0))); try assumption.
    - destruct (vec_level_contribs v Hok p l0 Hp Hl0) as (Hlok & _ & _).
      destruct (level_winners (slevel (v_pl v) l0) _ eq_refl (sc_of_nonempty _ _ Hnd Hlok)) as (M & _ & Hw & _ & _).
      rewrite Hw. apply with_score_nodup. apply sc_of_nodup. exact Hnd.
    - intros li Hli. unfold scored_levels in Hli. apply in_map_iff in Hli as (l & <- & Hl).
      fold (slevel (v_pl v) l). split; [apply (pot_levels_same_winners p l l0); assumption|].
      intros z Hz. rewrite <- (pot_levels_same_winners p l l0 Hp Hlive Hl Hl0) in Hz.
      destruct (vec_level_contribs v Hok p l Hp Hl) as (Hlok & _ & _).
      apply (winners_losers_disjoint (slevel (v_pl v) l) (sc_of (v_pl v) (l_contribs l)) z eq_refl);
        [apply sc_of_nonempty; assumption|apply sc_of_nodup; exact Hnd|exact Hz].
  Qed.
End Vector3.

(* the contributions recorded in the level list are those of the vector *)
Lemma vec_contribs_perm v : vec_ok v -> Permutation (map snd (ll_contribs (ll_of (v_pot v)))) (v_contrib v).
Proof.
  intros Hok. pose proof (vec_wf v Hok) as Hwf. destruct (vec_spec v Hok) as (A & _ & _).
  set (cs := ll_contribs (ll_of (v_pot v))) in *.
  assert (P1 : Permutation cs (map (fun y => match y with (i, w, _, _, _) => (i, w) end) v)).
  { apply NoDup_Permutation.
    - assert (Hk : NoDup (keys cs)) by (apply zsorted_NoDup; apply (wf_keys _ Hwf)).
      unfold keys in Hk. apply (NoDup_map_inv fst). exact Hk.
    - destruct Hok as [Hnd _]. unfold v_idx in Hnd. apply (NoDup_map_inv fst). rewrite map_map.
      erewrite map_ext; [exact Hnd|]. intros [[[[i w] f'] b'] s']. reflexivity.
    - intros [i w]. rewrite A, in_map_iff. split.
      + intros (f' & b' & s' & H). exists (i, w, f', b', s'). auto.
      + intros ([[[[i' w'] f'] b'] s'] & E & H). injection E as -> ->. eauto. }
  apply (Permutation_map snd) in P1. rewrite map_map in P1. unfold v_contrib.
  erewrite (map_ext _ (fun x0 : Z * Z * bool * Z * Z => let '(_, c0, _, _, _) := x0 in c0)) in P1; [exact P1|].
  intros [[[[i w] f'] b'] s']. reflexivity.
Qed.

Theorem vec_pots_total v : vec_ok v -> zsum (map pt_total (get_pots (ll_of (v_pot v)))) = zsum (v_contrib v).
Proof.
  intros Hok. rewrite (get_pots_totals (v_pot v) (vec_nonneg v Hok)).
  pose proof (vec_contribs_perm v Hok) as P. induction P; cbn [zsum]; lia.
Qed.
