(* C01 — chips are conserved at every point of a hand (running clauses and closing clauses).
   seat_ok p : bankroll = stack + wager + pot, initial stack = stack + wager, none of the three negative
   Cinv0 g   : every seat is seat_ok, the round pot equals the sum of the wagers, wager to match >= 0,
               minimum raise >= 0
   run g ops : the state after any list of operations (table operations and actions by any seat,
               with any integer amount), refused ones leaving the state as it is *)
From Coq Require Import Lia.
From PF Require Import Base ModelPot ModelSettle ModelGame ProofsChips ProofsInv ProofsSettle ProofsResult.

(* in every state reachable from a created hand, by every sequence of operations with every amount
   argument: each seat's bankroll identity holds, nothing is negative, the round pot is the sum of
   the wagers *)
Theorem C01_running :
  forall c deck g ops,
    cfg_ok c -> create c deck = (g, Ok) ->
    let s := run g ops in
    (forall i, (i < nplayers s)%nat -> seat_ok (get_p s i)) /\
    st_rpot (g_st s) = wagers_of (g_players s).
Proof.
  intros c deck g ops Hc Hcr s.
  destruct (inv_chips s (Inv_reachable c deck g ops Hc Hcr)) as [_ A B _ _]. split; assumption.
Qed.
Print Assumptions C01_running.

(* one step, from any state satisfying the invariant *)
Theorem C01_step_preserves : forall g o, Inv g -> Inv (fst (step g o)).
Proof. exact Inv_step. Qed.
Print Assumptions C01_step_preserves.

(* paying any non-negative amount keeps the seat's identity and moves nobody else's chips *)
Theorem C01_pay_keeps_seat_identity :
  forall g i chips is_wager,
    (i < nplayers g)%nat -> 0 <= chips -> seat_ok (get_p g i) -> seat_ok (get_p (pay g i chips is_wager) i).
Proof. exact pay_self. Qed.
Print Assumptions C01_pay_keeps_seat_identity.

Theorem C01_pay_moves_no_other_chips :
  forall g i j chips is_wager,
    (j < nplayers g)%nat -> i <> j -> chips_of (get_p (pay g i chips is_wager) j) = chips_of (get_p g j).
Proof. exact pay_other. Qed.
Print Assumptions C01_pay_moves_no_other_chips.

(* non-vacuity: a three-handed hand with an ante, a short stack and an all-in satisfies the premises *)
Example C01_reachable_example :
  let c := mkCfg 1 0 1 2 false 2 0 [] (seqZ_from 0 30) 1
                 [(40, (true, false, false)); (3, (false, true, false)); (25, (false, false, true))] in
  cfg_ok c /\ exists g, create c (seqZ_from 0 30) = (g, Ok) /\
  st_event (g_st (run g [OReady; OPayAnte; OReady; OPayBlinds; OReady; OAct None AAllin 0])) = EvRoundStarted.
Proof.
  cbv zeta. split; [unfold cfg_ok; simpl; lia|]. eexists. split; [vm_compute; reflexivity|vm_compute; reflexivity].
Qed.

(* whenever pots are published (updatePots: at every round close, after the antes, before settlement)
   they add up to exactly what the players have put in *)
Theorem C01_published_pots_add_up :
  forall g, (forall i, (i < nplayers g)%nat -> seat_ok (get_p g i)) ->
    zsum (map pt_total (st_pots (g_st (update_pots g)))) = zsum (map (fun p => p_pot p + p_wager p) (g_players g)).
Proof. exact published_pots_add_up. Qed.
Print Assumptions C01_published_pots_add_up.

(* closing clauses.  In every reachable state that carries a result: the hand is closed; the result is the
   settlement of the vector read off the players (index, pot + wager, folded, bankroll, score); the
   per-player changes sum to zero; every final stack is the starting bankroll plus that player's change
   and is not negative; nobody loses more than he put in.
   chg ps x / fin ps x : the Changed / Final recorded for player x in the result *)
Theorem C01_closing :
  forall c deck g ops,
    cfg_ok c -> create c deck = (g, Ok) ->
    let s := run g ops in
    forall r, g_result s = Some r ->
      st_event (g_st s) = EvGameClosed /\
      r = settle_vec (player_vec (g_players s)) /\
      idxs (res_players r) = map zn (seq 0 (nplayers s)) /\
      sumc (res_players r) = 0 /\
      forall i, (i < nplayers s)%nat ->
        let p := get_p s i in
        fin (res_players r) (zn i) = p_bankroll p + chg (res_players r) (zn i) /\
        - (p_pot p + p_wager p) <= chg (res_players r) (zn i) /\
        0 <= fin (res_players r) (zn i).
Proof. exact closing_result. Qed.
Print Assumptions C01_closing.

(* once the result is recorded nothing changes any more *)
Theorem C01_closed_state_is_final :
  forall g o, Inv g -> st_event (g_st g) = EvGameClosed -> fst (step g o) = g.
Proof. exact closed_state_fixed. Qed.
Print Assumptions C01_closed_state_is_final.

(* non-vacuity: a hand played to the showdown carries a result *)
Example C01_closing_example :
  let c := mkCfg 0 0 5 10 false 2 0 [] (seqZ_from 0 30) 1
                 [(40, (true, false, false)); (30, (false, true, false)); (25, (false, false, true))] in
  exists g, create c (seqZ_from 0 30) = (g, Ok) /\
  let s := run g [OReady; OPayBlinds; OReady; OAct None AAllin 0; OAct None AAllin 0; OAct None AAllin 0;
                  ONext; ONext; ONext; ONext] in
  exists r, g_result s = Some r.
Proof. eexists. split; [vm_compute; reflexivity|]. vm_compute. eexists. reflexivity. Qed.
