(* ProofsGameBasic.v — facts about the engine model that need no invariant:
   guards (refusals), views, the offered-action table, shuffling. *)
From Coq Require Import Lia Permutation.
From PF Require Import Base ProofsBase Comb ModelPot ModelSettle ModelEval ModelGame.

(* ---------- access lemmas ---------- *)
Lemma get_p_upd_same g i f : (i < nplayers g)%nat -> get_p (upd_p g i f) i = f (get_p g i).
Proof. intros H. unfold get_p, upd_p. simpl. apply nth_update_nth_same. exact H. Qed.

Lemma get_p_upd_other g i j f : i <> j -> get_p (upd_p g i f) j = get_p g j.
Proof. intros H. unfold get_p, upd_p. simpl. apply nth_update_nth_other. exact H. Qed.

Lemma nplayers_upd g i f : nplayers (upd_p g i f) = nplayers g.
Proof. unfold nplayers, upd_p. simpl. apply update_nth_length. Qed.

Lemma nplayers_map g f : nplayers (map_p g f) = nplayers g.
Proof. unfold nplayers, map_p. simpl. apply map_length. Qed.

Lemma get_p_map g f i : (i < nplayers g)%nat -> get_p (map_p g f) i = f (get_p g i).
Proof.
  intros H. unfold get_p, map_p. simpl.
  rewrite (nth_indep _ dflt_p (f dflt_p)) by (rewrite map_length; exact H). apply map_nth.
Qed.

Lemma get_p_with_st g s i : get_p (with_st g s) i = get_p g i.
Proof. reflexivity. Qed.


(* ---------- refusals (C04, C06, C12) ---------- *)
Lemma ready_refused g : st_event (g_st g) <> EvReadyRequested -> step g OReady = (g, ErrInvalidAction).
Proof. intros H. simpl. unfold do_ready. destruct (st_event (g_st g)); simpl; try reflexivity; congruence. Qed.

Lemma pay_ante_refused g :
  st_event (g_st g) <> EvAnteRequested \/ m_ante (g_meta g) = 0 -> step g OPayAnte = (g, ErrInvalidAction).
Proof.
  intros H. simpl. unfold do_pay_ante.
  destruct (m_ante (g_meta g) =? 0) eqn:E; [reflexivity|].
  destruct H as [H|H]; [|rewrite H in E; discriminate].
  destruct (st_event (g_st g)); simpl; try reflexivity; congruence.
Qed.

Lemma pay_blinds_refused g : st_event (g_st g) <> EvBlindsRequested -> step g OPayBlinds = (g, ErrInvalidAction).
Proof. intros H. simpl. unfold do_pay_blinds. destruct (st_event (g_st g)); simpl; try reflexivity; congruence. Qed.

Lemma next_refused g : st_event (g_st g) <> EvRoundClosed -> step g ONext = (g, ErrNotClosedRound).
Proof. intros H. simpl. unfold do_next. destruct (st_event (g_st g)); simpl; try reflexivity; congruence. Qed.

Definition seat_of (g : gstate) (who : option nat) : nat :=
  match who with Some i => i | None => st_cur (g_st g) end.

Lemma action_not_offered_refused g who a x :
  (seat_of g who < nplayers g)%nat ->
  allowed g (seat_of g who) a = false ->
  step g (OAct who a x) = (g, ErrInvalidAction).
Proof.
  intros Hi Hn. unfold step. fold (seat_of g who).
  apply Nat.ltb_lt in Hi. rewrite Hi. simpl.
  destruct a; unfold act_pass, act_fold, act_check, act_call, act_allin, act_bet, act_raise, act_pay;
    rewrite Hn; reflexivity.
Qed.

(* a seat whose offer is empty can do nothing at all *)
Lemma allowed_nil g i a : p_allowed (get_p g i) = [] -> allowed g i a = false.
Proof. intros H. unfold allowed. rewrite H. reflexivity. Qed.

Lemma raise_below_wager_refused g who x :
  (seat_of g who < nplayers g)%nat ->
  allowed g (seat_of g who) ARaise = true ->
  x = 0 \/ x < st_cw (g_st g) ->
  step g (OAct who ARaise x) = (g, ErrIllegalRaise).
Proof.
  intros Hi Ha Hx. unfold step. fold (seat_of g who).
  apply Nat.ltb_lt in Hi. rewrite Hi. simpl. unfold act_raise. rewrite Ha. simpl.
  destruct Hx as [->|Hx]; [reflexivity|].
  apply Z.ltb_lt in Hx. rewrite Hx. rewrite orb_true_r. reflexivity.
Qed.

Lemma bet_nonpositive_refused g who x :
  (seat_of g who < nplayers g)%nat -> x <= 0 ->
  step g (OAct who ABet x) = (g, ErrInvalidAction).
Proof.
  intros Hi Hx. unfold step. fold (seat_of g who).
  apply Nat.ltb_lt in Hi. rewrite Hi. simpl. unfold act_bet.
  destruct (allowed g (seat_of g who) ABet); [|reflexivity]. simpl.
  apply Z.leb_le in Hx. rewrite Hx. reflexivity.
Qed.

Lemma pay_never_offered g who x :
  (seat_of g who < nplayers g)%nat ->
  allowed g (seat_of g who) APay = false ->
  step g (OAct who APay x) = (g, ErrInvalidAction).
Proof. intros; now apply action_not_offered_refused. Qed.

(* ---------- the offered-action table (C11) ---------- *)
Definition offers (s : status) (p : pstate) (a : action) : bool :=
  existsb (action_eqb a) (available_actions s p).

Lemma offers_pass_only s p :
  p_fold p = true \/ p_stack p = 0 -> available_actions s p = [APass].
Proof.
  intros [H|H]; unfold available_actions; rewrite H; [reflexivity|].
  destruct (p_fold p); reflexivity.
Qed.

Section Table.
  Variables (s : status) (p : pstate).
  Hypothesis Hlive : p_fold p = false.
  Hypothesis Hchips : p_stack p <> 0.

  Lemma avail_live :
    available_actions s p =
    AAllin ::
      (if p_wager p <? st_cw s then
         AFold :: (if st_cw s <? p_initial p
                   then ACall :: (if st_cw s + st_prs s <? p_initial p then [ARaise] else [])
                   else [])
       else
         ACheck :: (if st_minibet s <=? p_initial p
                    then (if st_cw s =? 0 then [ABet] else [ARaise])
                    else [])).
  Proof.
    unfold available_actions. rewrite Hlive.
    destruct (p_stack p =? 0) eqn:E; [apply Z.eqb_eq in E; contradiction|reflexivity].
  Qed.

  Lemma offers_allin : offers s p AAllin = true.
  Proof. unfold offers. rewrite avail_live. reflexivity. Qed.

  Lemma offers_pass : offers s p APass = false.
  Proof.
    unfold offers. rewrite avail_live.
    destruct (p_wager p <? st_cw s), (st_cw s <? p_initial p), (st_cw s + st_prs s <? p_initial p),
      (st_minibet s <=? p_initial p), (st_cw s =? 0); reflexivity.
  Qed.

  Lemma offers_fold : offers s p AFold = (p_wager p <? st_cw s).
  Proof.
    unfold offers. rewrite avail_live.
    destruct (p_wager p <? st_cw s), (st_cw s <? p_initial p), (st_cw s + st_prs s <? p_initial p),
      (st_minibet s <=? p_initial p), (st_cw s =? 0); reflexivity.
  Qed.

  Lemma offers_check : offers s p ACheck = negb (p_wager p <? st_cw s).
  Proof.
    unfold offers. rewrite avail_live.
    destruct (p_wager p <? st_cw s), (st_cw s <? p_initial p), (st_cw s + st_prs s <? p_initial p),
      (st_minibet s <=? p_initial p), (st_cw s =? 0); reflexivity.
  Qed.

  Lemma offers_call : offers s p ACall = (p_wager p <? st_cw s) && (st_cw s <? p_initial p).
  Proof.
    unfold offers. rewrite avail_live.
    destruct (p_wager p <? st_cw s), (st_cw s <? p_initial p), (st_cw s + st_prs s <? p_initial p),
      (st_minibet s <=? p_initial p), (st_cw s =? 0); reflexivity.
  Qed.

  Lemma offers_bet :
    offers s p ABet = negb (p_wager p <? st_cw s) && (st_minibet s <=? p_initial p) && (st_cw s =? 0).
  Proof.
    unfold offers. rewrite avail_live.
    destruct (p_wager p <? st_cw s), (st_cw s <? p_initial p), (st_cw s + st_prs s <? p_initial p),
      (st_minibet s <=? p_initial p), (st_cw s =? 0); reflexivity.
  Qed.

  Lemma offers_raise :
    offers s p ARaise =
    ((p_wager p <? st_cw s) && (st_cw s <? p_initial p) && (st_cw s + st_prs s <? p_initial p))
    || (negb (p_wager p <? st_cw s) && (st_minibet s <=? p_initial p) && negb (st_cw s =? 0)).
  Proof.
    unfold offers. rewrite avail_live.
    destruct (p_wager p <? st_cw s), (st_cw s <? p_initial p), (st_cw s + st_prs s <? p_initial p),
      (st_minibet s <=? p_initial p), (st_cw s =? 0); reflexivity.
  Qed.

  Lemma offers_pay : offers s p APay = false.
  Proof.
    unfold offers. rewrite avail_live.
    destruct (p_wager p <? st_cw s), (st_cw s <? p_initial p), (st_cw s + st_prs s <? p_initial p),
      (st_minibet s <=? p_initial p), (st_cw s =? 0); reflexivity.
  Qed.
End Table.

(* ---------- views (C15): hold for every state, no invariant needed ---------- *)
Lemma view_deck g v : m_deck (g_meta (view g v)) = [] /\ st_burned (g_st (view g v)) = [].
Proof. split; reflexivity. Qed.

Lemma view_players_length closed v ps : length (view_players closed v ps) = length ps.
Proof. unfold view_players. rewrite map_length, combine_length, seq_length. lia. Qed.

Lemma combine_seq_nth {A} (l : list A) (start i : nat) (d : A) :
  (i < length l)%nat -> nth i (combine (seq start (length l)) l) (0%nat, d) = ((start + i)%nat, nth i l d).
Proof.
  revert start i; induction l as [|x t IH]; intros start i Hi; simpl in *; [lia|].
  destruct i as [|i]; [f_equal; lia|].
  rewrite IH by lia. f_equal. lia.
Qed.

Lemma view_players_nth closed v ps i :
  (i < length ps)%nat ->
  nth i (view_players closed v ps) dflt_p =
  let p := nth i ps dflt_p in
  if match v with Some w => Nat.eqb i w | None => false end then p
  else if closed then (if p_fold p then hide_player p else p) else hide_player p.
Proof.
  intros Hi. unfold view_players.
  set (f := fun ip : nat * pstate => _).
  assert (Hd : f (0%nat, dflt_p) = f (0%nat, dflt_p)) by reflexivity.
  rewrite (nth_indep _ dflt_p (f (0%nat, dflt_p))).
  2:{ rewrite map_length, combine_length, seq_length. lia. }
  rewrite map_nth. rewrite combine_seq_nth by assumption. simpl. reflexivity.
Qed.

(* what a viewer gets to see of seat i *)
Lemma view_seat g v i :
  (i < nplayers g)%nat ->
  let closed := event_eqb (st_event (g_st g)) EvGameClosed in
  let p := get_p g i in
  get_p (view g v) i =
  if match v with Some w => Nat.eqb i w | None => false end then p
  else if closed then (if p_fold p then hide_player p else p) else hide_player p.
Proof. intros Hi. unfold get_p. simpl. apply view_players_nth. exact Hi. Qed.

Lemma hide_player_hides p : p_hole (hide_player p) = [] /\ p_comb (hide_player p) = None.
Proof. split; reflexivity. Qed.

Lemma hide_player_keeps p :
  p_bankroll (hide_player p) = p_bankroll p /\ p_stack (hide_player p) = p_stack p /\
  p_wager (hide_player p) = p_wager p /\ p_pot (hide_player p) = p_pot p /\
  p_initial (hide_player p) = p_initial p /\ p_fold (hide_player p) = p_fold p /\
  p_allowed (hide_player p) = p_allowed p /\ p_acted (hide_player p) = p_acted p /\
  p_did (hide_player p) = p_did p /\ p_vpip (hide_player p) = p_vpip p /\
  p_dealer (hide_player p) = p_dealer p /\ p_sb (hide_player p) = p_sb p /\ p_bb (hide_player p) = p_bb p.
Proof. repeat split; reflexivity. Qed.

(* everything public is left as it was *)
Lemma view_public g v :
  let g' := view g v in
  st_board (g_st g') = st_board (g_st g) /\ st_pots (g_st g') = st_pots (g_st g) /\
  st_event (g_st g') = st_event (g_st g) /\ st_round (g_st g') = st_round (g_st g) /\
  st_cw (g_st g') = st_cw (g_st g) /\ st_prs (g_st g') = st_prs (g_st g) /\
  st_rpot (g_st g') = st_rpot (g_st g) /\ st_cur (g_st g') = st_cur (g_st g) /\
  st_raiser (g_st g') = st_raiser (g_st g) /\ st_minibet (g_st g') = st_minibet (g_st g) /\
  st_maxwager (g_st g') = st_maxwager (g_st g) /\ st_last (g_st g') = st_last (g_st g) /\
  st_dpos (g_st g') = st_dpos (g_st g) /\ g_result g' = g_result g /\
  nplayers g' = nplayers g.
Proof.
  simpl. repeat split; try reflexivity.
  unfold nplayers. simpl. apply view_players_length.
Qed.

(* ---------- shuffling only reorders (C14) ---------- *)
Lemma head_swap_perm {A} (x y : A) (t : list A) j :
  nth_error t j = Some y -> Permutation (x :: t) (y :: update_nth j (fun _ => x) t).
Proof.
  revert j; induction t as [|c t IH]; intros j Ej; [destruct j; discriminate|].
  destruct j as [|j]; simpl in *.
  - inversion Ej; subst. apply perm_swap.
  - eapply perm_trans; [apply perm_swap|].
    eapply perm_trans; [apply perm_skip; apply (IH j Ej)|]. apply perm_swap.
Qed.

Lemma swap_gen_perm {A} (l : list A) i j x y :
  nth_error l i = Some x -> nth_error l j = Some y ->
  Permutation l (update_nth j (fun _ => x) (update_nth i (fun _ => y) l)).
Proof.
  revert i j; induction l as [|a t IH]; intros i j Ei Ej; [destruct i; discriminate|].
  destruct i as [|i], j as [|j]; simpl in *.
  - inversion Ei; inversion Ej; subst. reflexivity.
  - inversion Ei; subst a. apply head_swap_perm. exact Ej.
  - inversion Ej; subst a. apply head_swap_perm. exact Ei.
  - apply perm_skip. apply IH; assumption.
Qed.

Lemma swap_at_perm {A} (l : list A) i j : Permutation l (swap_at l i j).
Proof.
  unfold swap_at.
  destruct (nth_error l i) as [x|] eqn:Ei; [|reflexivity].
  destruct (nth_error l j) as [y|] eqn:Ej; [|reflexivity].
  apply swap_gen_perm; assumption.
Qed.

Lemma apply_swaps_perm {A} swaps (l : list A) : Permutation l (apply_swaps swaps l).
Proof.
  unfold apply_swaps. revert l; induction swaps as [|[i j] t IH]; intros l; simpl; [reflexivity|].
  eapply perm_trans; [apply swap_at_perm|apply IH].
Qed.

(* ---------- a closed hand accepts nothing (C06) ---------- *)
Lemma closed_refuses g o :
  st_event (g_st g) = EvGameClosed ->
  (forall i, p_allowed (get_p g i) = []) ->
  (match o with OAct who _ _ => (seat_of g who < nplayers g)%nat | _ => True end) ->
  exists e, step g o = (g, e) /\ e <> Ok.
Proof.
  intros He Ha Hs. destruct o as [| | | |who a x].
  - exists ErrInvalidAction. split; [apply ready_refused; rewrite He; discriminate|discriminate].
  - exists ErrInvalidAction. split; [apply pay_ante_refused; left; rewrite He; discriminate|discriminate].
  - exists ErrInvalidAction. split; [apply pay_blinds_refused; rewrite He; discriminate|discriminate].
  - exists ErrNotClosedRound. split; [apply next_refused; rewrite He; discriminate|discriminate].
  - exists ErrInvalidAction. split; [|discriminate].
    apply action_not_offered_refused; [exact Hs|]. apply allowed_nil. apply Ha.
Qed.

(* ---------- the round closes at once when one player is left (C05) ---------- *)
Lemma round_closed_event g : st_event (g_st (round_closed g)) = EvRoundClosed.
Proof. reflexivity. Qed.

Lemma request_action_last_man g :
  alive_count g = 1%nat -> request_action g = round_closed g.
Proof. intros H. unfold request_action. rewrite H. reflexivity. Qed.

Lemma request_action_nobody_movable g :
  movable_count g = 0%nat -> request_action g = round_closed g.
Proof. intros H. unfold request_action. rewrite H. destruct (Nat.eqb (alive_count g) 1); reflexivity. Qed.

Lemma round_closed_no_offers g i : p_allowed (get_p (round_closed g) i) = [].
Proof.
  unfold round_closed, update_pots. rewrite get_p_with_st. unfold reset_all.
  destruct (Nat.lt_ge_cases i (nplayers (set_event g EvRoundClosed))) as [Hlt|Hge].
  - rewrite get_p_map by exact Hlt. reflexivity.
  - unfold get_p, map_p. simpl. rewrite nth_overflow; [reflexivity|]. rewrite map_length. exact Hge.
Qed.

(* ---------- erasure of what JSON does not carry (C07) ---------- *)
Lemma erase_pot_idem p : erase_pot (erase_pot p) = erase_pot p.
Proof. reflexivity. Qed.

Lemma erase_idem g : erase (erase g) = erase g.
Proof.
  unfold erase. simpl. f_equal.
  - unfold st_set_pots. simpl. f_equal. rewrite map_map. apply map_ext. reflexivity.
  - destruct (g_result g) as [r|]; simpl; [|reflexivity]. f_equal. unfold erase_result. simpl. f_equal.
    rewrite map_map. apply map_ext. reflexivity.
Qed.

Lemma erase_keeps_players g : g_players (erase g) = g_players g /\ g_meta (erase g) = g_meta g.
Proof. split; reflexivity. Qed.

(* ---------- what a payment leaves alone in the table status ---------- *)
Definition qv (g : gstate) :=
  (g_meta g, g_result g,
   (st_minibet (g_st g), st_pots (g_st g), st_round (g_st g), st_burned (g_st g),
    st_board (g_st g), st_prs (g_st g), st_dpos (g_st g), st_cur (g_st g), st_event (g_st g), st_last (g_st g))).

Lemma qv_become_raiser g i : qv (become_raiser g i) = qv g. Proof. reflexivity. Qed.
Lemma qv_reset_acted g : qv (reset_acted g) = qv g. Proof. reflexivity. Qed.

Lemma qv_pay g i chips w : qv (pay g i chips w) = qv g.
Proof.
  unfold pay. destruct (p_stack (get_p g i) <=? chips).
  - destruct w; [|reflexivity].
    match goal with |- qv (if ?c then become_raiser ?g3 i else reset_acted ?g3) = _ =>
      transitivity (qv g3); [destruct c; [apply qv_become_raiser|apply qv_reset_acted]|] end.
    match goal with |- context [if ?c then with_st _ _ else _] => destruct c end; reflexivity.
  - destruct (w && _); [rewrite qv_become_raiser|]; reflexivity.
Qed.
