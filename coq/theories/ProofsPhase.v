(* ProofsPhase.v — the phases of a hand (C06, parts of C05 and C13): which (event, street) pairs occur, in
   which order, that the step the hand is waiting for always succeeds, and that every accepted step
   decreases a measure, so that every hand finishes. *)
From Coq Require Import Lia.
From PF Require Import Base ProofsBase Comb ModelPot ModelSettle ModelEval ModelGame
                       ProofsGameBasic ProofsChips ProofsInv ProofsPos ProofsOffers ProofsView ProofsCards
                       ProofsBlinds ProofsPot ProofsSettle ProofsResult.

(* ---------- (1) event and street after each building block ---------- *)
Definition ph (g : gstate) : event * round := (st_event (g_st g), st_round (g_st g)).

Ltac pbrute :=
  unfold pay, become_raiser, reset_acted, reset_all, round_closed, update_pots, set_current, set_event, set_last,
         request_ready, reset_all_status, reset_round_status, update_combs, map_p, upd_p, with_st, with_players, with_result, ph;
  repeat match goal with |- context [if ?c then _ else _] => destruct c end; reflexivity.

Lemma ph_pay g i chips w : ph (pay g i chips w) = ph g.
Proof. pose proof (qv_pay g i chips w) as H. unfold qv in H. unfold ph. injection H as _ _ _ _ -> _ _ _ _ _ -> _. reflexivity. Qed.
Lemma ph_set_current g i : ph (set_current g i) = ph g. Proof. pbrute. Qed.
Lemma ph_reset_all g : ph (reset_all g) = ph g. Proof. pbrute. Qed.
Lemma ph_set_last g a t v : ph (set_last g a t v) = ph g. Proof. reflexivity. Qed.
Lemma ph_upd g i f : ph (upd_p g i f) = ph g. Proof. reflexivity. Qed.
Lemma ph_map g f : ph (map_p g f) = ph g. Proof. reflexivity. Qed.
Lemma ph_update_pots g : ph (update_pots g) = ph g. Proof. reflexivity. Qed.
Lemma ph_update_combs g : ph (update_combs g) = ph g. Proof. reflexivity. Qed.
Lemma ph_reset_round_status g : ph (reset_round_status g) = ph g. Proof. reflexivity. Qed.
Lemma ph_reset_all_status g : ph (reset_all_status g) = ph g. Proof. reflexivity. Qed.
Lemma ph_set_event g e : ph (set_event g e) = (e, st_round (g_st g)). Proof. reflexivity. Qed.
Lemma ph_round_closed g : ph (round_closed g) = (EvRoundClosed, st_round (g_st g)). Proof. reflexivity. Qed.
Lemma ph_request_ready g : ph (request_ready g) = (EvReadyRequested, st_round (g_st g)). Proof. reflexivity. Qed.

Lemma ph_request_action g :
  ph (request_action g) = ph g \/ ph (request_action g) = (EvRoundClosed, st_round (g_st g)).
Proof.
  unfold request_action.
  destruct (Nat.eqb (alive_count g) 1); [right; apply ph_round_closed|].
  destruct (Nat.eqb (movable_count g) 0); [right; apply ph_round_closed|].
  destruct (p_acted _); [right; apply ph_round_closed|left; apply ph_set_current].
Qed.

Lemma ph_find_bb_loop n g : ph (find_bb_loop n g) = ph g.
Proof.
  revert g; induction n as [|n IH]; intros g; simpl; [reflexivity|].
  destruct (p_bb _); [apply ph_set_current|]. rewrite IH. apply ph_set_current.
Qed.

Lemma ph_start_round g :
  ph (start_round g) = (EvRoundStarted, st_round (g_st g)) \/ ph (start_round g) = (EvRoundClosed, st_round (g_st g)).
Proof.
  assert (R : st_round (g_st (reset_all g)) = st_round (g_st g)) by reflexivity.
  assert (G : forall g1, ph g1 = ph (reset_all g) ->
              ph (request_action (set_event g1 EvRoundStarted)) = (EvRoundStarted, st_round (g_st g)) \/
              ph (request_action (set_event g1 EvRoundStarted)) = (EvRoundClosed, st_round (g_st g))).
  { intros g1 H1. assert (R1 : st_round (g_st g1) = st_round (g_st g)) by (unfold ph in H1; injection H1 as _ ->; exact R).
    destruct (ph_request_action (set_event g1 EvRoundStarted)) as [H|H]; rewrite H, ?ph_set_event; cbn [set_event with_st g_st st_round st_set_event]; rewrite ?R1; auto. }
  unfold start_round. destruct (st_round (g_st (reset_all g))) eqn:Er.
  all: try (apply G; apply ph_set_current).
  destruct (Nat.eqb (movable_count (reset_all g)) 0).
  - right. rewrite ph_round_closed. reflexivity.
  - apply G. rewrite ph_find_bb_loop. apply ph_set_current.
Qed.

Lemma ph_prepare_round g :
  (ph (prepare_round g) = (EvReadyRequested, st_round (g_st g))) \/
  (ph (prepare_round g) = (EvRoundClosed, st_round (g_st g)) /\ st_round (g_st g) <> Preflop).
Proof.
  unfold prepare_round. destruct (st_round (g_st g)) eqn:Er.
  2: left; rewrite ph_request_ready, Er; reflexivity.
  all: destruct (Nat.leb (movable_count g) 1);
    [right; split; [rewrite ph_round_closed, Er; reflexivity|discriminate]|left; rewrite ph_request_ready, Er; reflexivity].
Qed.

Lemma ph_enter_preflop g :
  snd (enter_preflop g) = Ok ->
  ph (fst (enter_preflop g)) = (EvBlindsRequested, Preflop) \/ ph (fst (enter_preflop g)) = (EvReadyRequested, Preflop).
Proof.
  unfold enter_preflop. destruct (negb _); [discriminate|]. intros _.
  destruct (_ && _); cbn [fst]; [|left; reflexivity].
  right. match goal with |- ph (prepare_round ?x) = _ => destruct (ph_prepare_round x) as [H|[_ H]]; [rewrite H; reflexivity|exfalso; apply H; reflexivity] end.
Qed.

Lemma ph_enter_street g r :
  snd (enter_street g r) = Ok ->
  ph (fst (enter_street g r)) = (EvReadyRequested, r) \/ (ph (fst (enter_street g r)) = (EvRoundClosed, r) /\ r <> Preflop).
Proof.
  unfold enter_street. destruct (negb _); [discriminate|]. intros _. cbn [fst].
  match goal with |- context [prepare_round ?x] =>
    assert (R : st_round (g_st x) = r) by reflexivity; destruct (ph_prepare_round x) as [H|[H H']]; rewrite H, R in *; auto end.
Qed.

Lemma ph_game_completed g :
  snd (game_completed g) = Ok -> ph (fst (game_completed g)) = (EvGameClosed, st_round (g_st g)).
Proof. unfold game_completed. destruct (settle_panics _ _); [discriminate|]. reflexivity. Qed.

Lemma ph_resume g : ph (resume g) = ph g \/ ph (resume g) = (EvRoundClosed, st_round (g_st g)).
Proof.
  unfold resume. destruct (st_event (g_st g)) eqn:E; try (left; reflexivity).
  - apply ph_request_action.
  - right. apply ph_round_closed.
Qed.

Lemma ph_ante_loop order : forall g, ph (fst (ante_loop order g)) = ph g.
Proof.
  induction order as [|i t IH]; intros g; simpl; [reflexivity|].
  destruct (0 <? p_wager (get_p g i)); [reflexivity|]. rewrite IH, ph_set_last. apply ph_pay.
Qed.
Lemma ph_fold_pay_blind order : forall g, ph (fold_left pay_blind order g) = ph g.
Proof.
  induction order as [|i t IH]; intros g; simpl; [reflexivity|]. rewrite IH. unfold pay_blind.
  destruct (blind_of _ _). rewrite ph_set_last. apply ph_pay.
Qed.

(* ---------- (2) the legal (event, street) pairs and their order ---------- *)
Definition round_num (r : round) : nat := match r with RNone => 0 | Preflop => 1 | Flop => 2 | Turn => 3 | River => 4 end.

Definition pos_of (x : event * round) : nat :=
  match x with
  | (EvGameClosed, _) => 15
  | (EvReadyRequested, RNone) => 0
  | (EvAnteRequested, _) => 1
  | (EvBlindsRequested, _) => 2
  | (EvReadyRequested, r) => 3 * round_num r
  | (EvRoundStarted, r) => 3 * round_num r + 1
  | (EvRoundClosed, r) => 3 * round_num r + 2
  | (EvNone, _) => 0
  end.

Definition legal (x : event * round) : Prop :=
  match x with
  | (EvReadyRequested, _) => True
  | (EvAnteRequested, r) => r = RNone
  | (EvBlindsRequested, r) => r = Preflop
  | (EvRoundStarted, r) | (EvRoundClosed, r) | (EvGameClosed, r) => r <> RNone
  | (EvNone, _) => False
  end.

Definition wagers0 (g : gstate) : Prop := forall i, (i < nplayers g)%nat -> p_wager (get_p g i) = 0.

Record Pinv (g : gstate) : Prop := mkPinv {
  pi_legal : legal (ph g);
  pi_two : (2 <= nplayers g)%nat;
  pi_ante : st_event (g_st g) = EvAnteRequested -> 0 < m_ante (g_meta g);
  pi_none : st_round (g_st g) = RNone -> wagers0 g /\ st_cw (g_st g) = 0;
  pi_blinds : st_event (g_st g) = EvBlindsRequested -> wagers0 g /\ st_cw (g_st g) = 0;
  pi_cur : st_event (g_st g) = EvRoundStarted -> p_acted (get_p g (st_cur (g_st g))) = false }.

Lemma wagers0_cv g g' : chips_view g' = chips_view g -> wagers0 g /\ st_cw (g_st g) = 0 -> wagers0 g' /\ st_cw (g_st g') = 0.
Proof.
  intros Hv [Hw Hc]. destruct (cv_parts _ _ Hv) as (_ & Hpl & _ & Hcw & _). split; [|rewrite Hcw; exact Hc].
  intros i Hi. rewrite (nplayers_cv _ _ Hv) in Hi.
  assert (E : chips_of (get_p g' i) = chips_of (get_p g i)).
  { rewrite !get_p_cv by (try rewrite (nplayers_cv _ _ Hv); exact Hi). now rewrite Hpl. }
  unfold chips_of in E. injection E as _ _ _ _ ->. apply Hw. exact Hi.
Qed.

Lemma acted_set_current g n j : p_acted (get_p (set_current g n) j) = p_acted (get_p g j).
Proof.
  assert (H : gv p_acted (set_current g n) = gv p_acted g).
  { unfold set_current. rewrite (gv_upd p_acted _ n) by reflexivity.
    transitivity (gv p_acted (upd_p g (st_cur (g_st g)) (fun p => p_set_allowed p []))); [reflexivity|].
    apply (gv_upd p_acted). reflexivity. }
  unfold gv in H. unfold get_p. change false with (p_acted dflt_p).
  rewrite <- !(map_nth p_acted). now rewrite H.
Qed.

Lemma request_action_fresh g :
  st_event (g_st (request_action g)) = EvRoundStarted ->
  p_acted (get_p (request_action g) (st_cur (g_st (request_action g)))) = false.
Proof.
  unfold request_action.
  destruct (Nat.eqb (alive_count g) 1); [simpl; discriminate|].
  destruct (Nat.eqb (movable_count g) 0); [simpl; discriminate|].
  destruct (p_acted (get_p g (next_idx g))) eqn:E; [simpl; discriminate|]. intros _.
  rewrite acted_set_current. exact E.
Qed.

Lemma start_round_fresh g :
  st_event (g_st (start_round g)) = EvRoundStarted ->
  p_acted (get_p (start_round g) (st_cur (g_st (start_round g)))) = false.
Proof.
  unfold start_round. destruct (st_round (g_st (reset_all g))); try apply request_action_fresh.
  destruct (Nat.eqb (movable_count (reset_all g)) 0); [simpl; discriminate|apply request_action_fresh].
Qed.

Lemma legal_pos_le x : legal x -> (pos_of x <= 15)%nat.
Proof. destruct x as [[] []]; simpl; intros H; try lia; try contradiction; try discriminate. Qed.

(* ---------- (3) the phase invariant is kept by every operation ---------- *)
Lemma event_of_ph g e r : ph g = (e, r) -> st_event (g_st g) = e /\ st_round (g_st g) = r.
Proof. unfold ph. intros H. injection H as -> ->. auto. Qed.

Lemma Pinv_do_ready g : Kinv2 g -> Pinv g -> Pinv (fst (do_ready g)) .
Proof.
  intros [K KA] P. unfold do_ready.
  destruct (event_eqb (st_event (g_st g)) EvReadyRequested) eqn:Ee; [|exact P]. cbn [negb].
  assert (He : st_event (g_st g) = EvReadyRequested) by (destruct (st_event (g_st g)); try discriminate; reflexivity).
  assert (N0 : nplayers (reset_all g) = nplayers g) by (apply nplayers_cv, cv_reset_all).
  destruct (st_round (g_st (reset_all g))) eqn:Er.
  1: { assert (Er' : st_round (g_st g) = RNone) by exact Er.
    pose proof (wagers0_cv g (reset_all g) (cv_reset_all g) (pi_none g P Er')) as W0.
    destruct (0 <? m_ante (g_meta (reset_all g))) eqn:Ea; cbn [fst].
    + apply Z.ltb_lt in Ea. constructor; cbn [set_event with_st g_st st_event st_round st_set_event ph].
      * exact Er.
      * change (2 <= nplayers (reset_all g))%nat. rewrite N0. exact (pi_two g P).
      * intros _. exact Ea.
      * intros _. exact W0.
      * discriminate.
      * discriminate.
    + assert (K0 : Kinv (reset_all g)).
      { apply (Kinv_frame g); [apply sv_reset_all|unfold hv; apply gv_reset_all; hole_side|exact K]. }
      destruct (Kinv_enter_preflop (reset_all g) K0 Er) as (_ & Ok1 & R1).
      pose proof (wagers0_cv _ _ (cv_enter_preflop (reset_all g)) W0) as W1.
      assert (N1 : nplayers (fst (enter_preflop (reset_all g))) = nplayers g) by (rewrite (nplayers_cv _ _ (cv_enter_preflop _)); exact N0).
      destruct (ph_enter_preflop _ Ok1) as [H|H]; destruct (event_of_ph _ _ _ H) as [E1 E2];
        (constructor; [rewrite H; simpl; auto|rewrite N1; exact (pi_two g P)|rewrite E1; discriminate|rewrite E2; discriminate| |rewrite E1; discriminate]).
      * intros _. exact W1.
      * rewrite E1. discriminate. }
  all: cbn [fst].
  all: assert (Er' : st_round (g_st (reset_all g)) <> RNone) by (rewrite Er; discriminate).
  all: assert (N1 : nplayers (start_round (reset_all g)) = nplayers g) by (rewrite (nplayers_cv _ _ (cv_start_round _)); exact N0).
  all: destruct (ph_start_round (reset_all g)) as [H|H]; destruct (event_of_ph _ _ _ H) as [E1 E2];
      (constructor; [rewrite H; simpl; exact Er'|rewrite N1; exact (pi_two g P)|rewrite E1; discriminate|rewrite E2; intros E; contradiction|rewrite E1; discriminate|]).
  all: try (rewrite E1; discriminate).
  all: intros _; apply start_round_fresh; exact E1.
Qed.

Lemma reset_status_wagers0 g : wagers0 (reset_round_status (reset_all_status g)) /\ st_cw (g_st (reset_round_status (reset_all_status g))) = 0.
Proof.
  split; [|reflexivity]. intros i Hi.
  change (get_p (reset_round_status (reset_all_status g)) i) with (get_p (reset_all_status g) i).
  assert (Hn : nplayers (reset_all_status g) = nplayers g) by apply nplayers_map.
  unfold reset_all_status. rewrite get_p_map by (change (nplayers (reset_round_status (reset_all_status g))) with (nplayers (reset_all_status g)) in Hi; rewrite Hn in Hi; exact Hi).
  reflexivity.
Qed.

Lemma Pinv_do_pay_ante g : Inv g -> Kinv2 g -> Pinv g -> Pinv (fst (do_pay_ante g)) /\ (st_event (g_st g) = EvAnteRequested -> snd (do_pay_ante g) = Ok).
Proof.
  intros HI [K KA] P. unfold do_pay_ante.
  destruct (event_eqb (st_event (g_st g)) EvAnteRequested) eqn:Ee.
  2: { destruct (m_ante (g_meta g) =? 0); cbn [negb fst]; (split; [exact P|]); intros E; rewrite E in Ee; discriminate. }
  assert (He : st_event (g_st g) = EvAnteRequested) by (destruct (st_event (g_st g)); try discriminate; reflexivity).
  pose proof (pi_ante g P He) as Ha. replace (m_ante (g_meta g) =? 0) with false by (symmetry; apply Z.eqb_neq; lia). cbn [negb].
  assert (Hr : st_round (g_st g) = RNone) by (pose proof (pi_legal g P) as L; unfold ph in L; rewrite He in L; exact L).
  destruct (pi_none g P Hr) as [W0 C0].
  destruct (ante_loop_chips (player_order g) (player_order_NoDup g) g) as (g1 & E1 & N1 & M1 & _ & _).
  { intros i Hi. pose proof (player_order_lt g i Hi) as Hlt. split; [exact Hlt|]. split; [apply (c0_seats g (inv_chips g HI)); exact Hlt|apply W0; exact Hlt]. }
  { lia. }
  pose proof (sv_ante_loop (player_order g) g) as S1.
  assert (H1 : hv (fst (ante_loop (player_order g) g)) = hv g) by (unfold hv; apply gv_ante_loop; hole_side).
  rewrite E1 in *. cbn [fst] in *.
  assert (K1 : Kinv g1) by (apply (Kinv_frame g); [exact S1|exact H1|exact K]).
  set (g3 := reset_round_status (reset_all_status (update_pots (reset_all g1)))).
  assert (K3 : Kinv g3).
  { apply (Kinv_frame g1); [reflexivity|unfold hv, g3; rewrite gv_reset_round_status, gv_reset_all_status, gv_update_pots, gv_reset_all by hole_side; reflexivity|exact K1]. }
  assert (R3 : st_round (g_st g3) = RNone).
  { transitivity (st_round (g_st g1)); [reflexivity|]. rewrite (sv_round _ _ S1). exact Hr. }
  destruct (Kinv_enter_preflop g3 K3 R3) as (_ & O4 & _).
  split; [|intros _; exact O4].
  pose proof (wagers0_cv _ _ (cv_enter_preflop g3) (reset_status_wagers0 (update_pots (reset_all g1)))) as W4.
  assert (N4 : nplayers (fst (enter_preflop g3)) = nplayers g).
  { rewrite (nplayers_cv _ _ (cv_enter_preflop _)). unfold g3. change (nplayers (reset_round_status ?x)) with (nplayers x).
    unfold reset_all_status. rewrite nplayers_map. change (nplayers (update_pots ?x)) with (nplayers x).
    rewrite (nplayers_cv _ _ (cv_reset_all g1)). exact N1. }
  destruct (ph_enter_preflop _ O4) as [H|H]; destruct (event_of_ph _ _ _ H) as [E3 E4];
    (constructor; [rewrite H; simpl; auto|rewrite N4; exact (pi_two g P)|rewrite E3; discriminate|rewrite E4; discriminate| |rewrite E3; discriminate]).
  - intros _. exact W4.
  - rewrite E3. discriminate.
Qed.

Lemma Pinv_do_pay_blinds g : Pinv g -> Pinv (fst (do_pay_blinds g)).
Proof.
  intros P. unfold do_pay_blinds.
  destruct (event_eqb (st_event (g_st g)) EvBlindsRequested) eqn:Ee; [|exact P]. cbn [negb fst].
  assert (He : st_event (g_st g) = EvBlindsRequested) by (destruct (st_event (g_st g)); try discriminate; reflexivity).
  assert (Hr : st_round (g_st g) = Preflop) by (pose proof (pi_legal g P) as L; unfold ph in L; rewrite He in L; exact L).
  set (g1 := fold_left pay_blind (player_order g) g).
  set (g2 := with_st g1 (st_set_prs (g_st g1) (if 0 <? m_bbb (g_meta g1) then m_bbb (g_meta g1) else m_bdealer (g_meta g1)))).
  assert (Hph : ph (reset_all g2) = ph g) by (rewrite ph_reset_all; unfold g2; transitivity (ph g1); [reflexivity|apply ph_fold_pay_blind]).
  destruct (event_of_ph _ _ _ Hph) as [_ R2]. rewrite Hr in R2.
  assert (N : nplayers (prepare_round (reset_all g2)) = nplayers g).
  { rewrite (nplayers_cv _ _ (cv_prepare_round _)), (nplayers_cv _ _ (cv_reset_all _)). unfold g2. rewrite nplayers_with_st.
    unfold g1. clear. generalize (player_order g) as order. intros order. revert g. induction order as [|i t IH]; intros g; simpl; [reflexivity|].
    rewrite IH. unfold pay_blind. destruct (blind_of _ _). unfold set_last. rewrite nplayers_with_st. apply pay_nplayers. }
  destruct (ph_prepare_round (reset_all g2)) as [H|[H H']]; [|rewrite R2 in H'; contradiction].
  rewrite R2 in H. destruct (event_of_ph _ _ _ H) as [E1 E2].
  constructor; [rewrite H; exact I|rewrite N; exact (pi_two g P)|rewrite E1; discriminate|rewrite E2; discriminate|rewrite E1; discriminate|rewrite E1; discriminate].
Qed.

Lemma Pinv_do_next g : Inv g -> Kinv2 g -> Pinv g ->
  Pinv (fst (do_next g)) /\ (st_event (g_st g) = EvRoundClosed -> snd (do_next g) = Ok).
Proof.
  intros HI [K KA] P. unfold do_next.
  destruct (event_eqb (st_event (g_st g)) EvRoundClosed) eqn:Ee.
  2: { cbn [negb fst]. split; [exact P|]. intros E. rewrite E in Ee. discriminate. }
  cbn [negb].
  assert (He : st_event (g_st g) = EvRoundClosed) by (destruct (st_event (g_st g)); try discriminate; reflexivity).
  assert (Hr : st_round (g_st g) <> RNone) by (pose proof (pi_legal g P) as L; unfold ph in L; rewrite He in L; exact L).
  set (g0 := set_last g (-1) LNext 0). set (g1 := reset_all_status (reset_round_status g0)).
  assert (R1 : st_round (g_st g1) = st_round (g_st g)) by reflexivity.
  assert (N1 : nplayers g1 = nplayers g) by (unfold g1, reset_all_status; rewrite nplayers_map; reflexivity).
  assert (K1 : Kinv g1).
  { apply (Kinv_frame g); [reflexivity| |exact K]. unfold hv, g1, g0. rewrite gv_reset_all_status, gv_reset_round_status, gv_set_last by hole_side. reflexivity. }
  (* the settlement never divides by zero *)
  assert (Hc : Cinv g) by (apply Inv_Cinv; [exact HI|rewrite He; discriminate]).
  assert (Hc0 : Cinv0 g0) by (apply Cinv_Cinv0; eapply Cinv_neutral; [apply cv_set_last|exact Hc]).
  destruct (Cinv_collect g0 Hc0) as [_ Hc1]. fold g1 in Hc1.
  assert (Hseats : forall i, (i < nplayers g1)%nat -> seat_ok (get_p g1 i)) by (destruct Hc1 as [_ S _ _ _ _]; exact S).
  assert (Hnp : settle_panics (pots_of_players (g_players g1)) (settle_inputs (g_players g1)) = false).
  { rewrite pots_of_players_vec, settle_inputs_vec. apply settle_vec_no_panic. apply player_vec_ok. exact Hseats. }
  set (guard := fun res : gstate * outcome => match res with (_, Panic) => (g, Panic) | x => x end).
  assert (Hgc : Pinv (fst (guard (game_completed g1))) /\ snd (guard (game_completed g1)) = Ok).
  { assert (Ok1 : snd (game_completed g1) = Ok).
    { unfold game_completed. cbn [update_pots with_st g_players g_st st_pots st_set_pots]. rewrite Hnp. reflexivity. }
    pose proof (ph_game_completed g1 Ok1) as H. pose proof (cv_game_completed g1) as Hv.
    unfold guard. destruct (game_completed g1) as [g2 o2]. cbn [fst snd] in *. subst o2. cbn [fst snd]. split; [|reflexivity].
    destruct (event_of_ph _ _ _ H) as [E1 E2]. rewrite R1 in *.
    constructor; [rewrite H; exact Hr|rewrite (nplayers_cv _ _ Hv), N1; exact (pi_two g P)|rewrite E1; discriminate|rewrite E2; intros E; contradiction|rewrite E1; discriminate|rewrite E1; discriminate]. }
  assert (Hst : st_round (g_st g) = Preflop \/ st_round (g_st g) = Flop \/ st_round (g_st g) = Turn ->
                let r := next_street (st_round (g_st g)) in
                Pinv (fst (guard (enter_street g1 r))) /\ snd (guard (enter_street g1 r)) = Ok).
  { intros Hrr r. rewrite <- R1 in Hrr. destruct (Kinv_enter_street g1 K1 Hrr) as [_ Ok1]. rewrite R1 in Ok1. fold r in Ok1.
    pose proof (ph_enter_street g1 r Ok1) as H. pose proof (cv_enter_street g1 r) as Hv.
    assert (Hrn : r <> RNone) by (unfold r; rewrite R1 in Hrr; destruct Hrr as [->|[->| ->]]; discriminate).
    unfold guard. destruct (enter_street g1 r) as [g2 o2]. cbn [fst snd] in *. subst o2. cbn [fst snd]. split; [|reflexivity].
    destruct H as [H|[H _]]; destruct (event_of_ph _ _ _ H) as [E1 E2];
      (constructor; [rewrite H; simpl; auto|rewrite (nplayers_cv _ _ Hv), N1; exact (pi_two g P)|rewrite E1; discriminate|rewrite E2; intros E; contradiction|rewrite E1; discriminate|rewrite E1; discriminate]). }
  change (st_round (g_st g0)) with (st_round (g_st g)).
  destruct (st_round (g_st g)) eqn:Er; [contradiction| | | |].
  - destruct (Nat.eqb (alive_count g1) 1); [split; [apply Hgc|intros _; apply Hgc]|].
    destruct (Hst (or_introl eq_refl)) as [A B]. split; [exact A|intros _; exact B].
  - destruct (Nat.eqb (alive_count g1) 1); [split; [apply Hgc|intros _; apply Hgc]|].
    destruct (Hst (or_intror (or_introl eq_refl))) as [A B]. split; [exact A|intros _; exact B].
  - destruct (Nat.eqb (alive_count g1) 1); [split; [apply Hgc|intros _; apply Hgc]|].
    destruct (Hst (or_intror (or_intror eq_refl))) as [A B]. split; [exact A|intros _; exact B].
  - destruct (Nat.eqb (alive_count g1) 1); (split; [apply Hgc|intros _; apply Hgc]).
Qed.

Definition act_of (g : gstate) (i : nat) (a : action) (x : Z) : gstate * outcome :=
  match a with
  | APass => act_pass g i | AFold => act_fold g i | ACheck => act_check g i | ACall => act_call g i
  | AAllin => act_allin g i | ABet => act_bet g i x | ARaise => act_raise g i x | APay => act_pay g i x end.

(* a refused action leaves the state exactly as it was *)
Lemma act_refused_same g i a x : snd (act_of g i a x) <> Ok -> fst (act_of g i a x) = g.
Proof.
  assert (Hcall : snd (act_call g i) <> Ok -> fst (act_call g i) = g).
  { unfold act_call. destruct (negb _); [reflexivity|]. cbn [snd]. intros H. contradiction. }
  assert (Hallin : snd (act_allin g i) <> Ok -> fst (act_allin g i) = g).
  { unfold act_allin. destruct (negb _); [reflexivity|]. cbn [snd]. intros H. contradiction. }
  destruct a; cbn [act_of].
  - unfold act_pass. destruct (negb _); [reflexivity|]. cbn [snd]. intros H. contradiction.
  - unfold act_fold. destruct (negb _); [reflexivity|]. cbn [snd]. intros H. contradiction.
  - unfold act_check. destruct (negb _); [reflexivity|]. cbn [snd]. intros H. contradiction.
  - exact Hcall.
  - exact Hallin.
  - unfold act_bet. destruct (negb _); [reflexivity|]. destruct (x <=? 0); [reflexivity|].
    destruct (_ <=? x); [exact Hallin|]. cbn [snd]. intros H. contradiction.
  - unfold act_raise. destruct (negb _); [reflexivity|]. destruct (_ || _); [reflexivity|].
    destruct (x =? _); [exact Hcall|]. destruct (_ || _); [exact Hallin|]. cbn [snd]. intros H. contradiction.
  - unfold act_pay. destruct (negb _); [reflexivity|]. cbn [snd]. intros H. contradiction.
Qed.

Lemma outcome_ok_dec (o : outcome) : {o = Ok} + {o <> Ok}.
Proof. destruct o; (left; reflexivity) || (right; discriminate). Qed.

Lemma Pinv_act g i a x : Inv g -> Oinv g -> Pinv g -> Pinv (fst (act_of g i a x)).
Proof.
  intros HI HO P. destruct (outcome_ok_dec (snd (act_of g i a x))) as [Hok|Hno].
  2: { rewrite (act_refused_same g i a x Hno). exact P. }
  destruct (act_decomp g i a x HI HO Hok) as (g' & E & _ & _ & He' & Hn'). fold (act_of g i a x) in E.
  pose proof (sv_act g i a x) as Hsv. fold (act_of g i a x) in Hsv. pose proof (sv_round _ _ Hsv) as Hr.
  assert (Hev : st_event (g_st g) = EvRoundStarted).
  { destruct (st_event (g_st g)) eqn:Ev; try reflexivity; exfalso;
      assert (Hno : no_offers g) by (apply (inv_offers g HI); rewrite Ev; discriminate);
      unfold act_of in Hok; destruct a; cbn in Hok;
      unfold act_pass, act_fold, act_check, act_call, act_allin, act_bet, act_raise, act_pay in Hok;
      rewrite ?(allowed_nil g i _ (Hno i)) in Hok; cbn in Hok; discriminate. }
  assert (Hrn : st_round (g_st g) <> RNone) by (pose proof (pi_legal g P) as L; unfold ph in L; rewrite Hev in L; exact L).
  assert (Hn : nplayers (fst (act_of g i a x)) = nplayers g).
  { pose proof (nplayers_step g (OAct (Some i) a x)) as H. cbn [step] in H. fold (act_of g i a x) in H.
    destruct (negb (Nat.ltb i (nplayers g))) eqn:El; [|exact H].
    (* a seat out of range holds no offer *)
    exfalso. apply negb_true_iff, Nat.ltb_ge in El.
    unfold act_of in Hok; destruct a; cbn in Hok;
      unfold act_pass, act_fold, act_check, act_call, act_allin, act_bet, act_raise, act_pay, allowed in Hok;
      rewrite (get_p_overflow g i El) in Hok; cbn in Hok; discriminate. }
  rewrite E in *. unfold resume in *. rewrite He' in *.
  assert (Hph : ph (request_action g') = (EvRoundStarted, st_round (g_st g)) \/ ph (request_action g') = (EvRoundClosed, st_round (g_st g))).
  { destruct (ph_request_action g') as [H|H]; destruct (event_of_ph _ _ _ H) as [E1 E2]; unfold ph; rewrite E1, Hr; [left; rewrite He'|right]; reflexivity. }
  destruct Hph as [H|H]; destruct (event_of_ph _ _ _ H) as [E1 E2];
    (constructor; [rewrite H; exact Hrn|rewrite Hn; exact (pi_two g P)|rewrite E1; discriminate|rewrite E2; intros Ex; contradiction|rewrite E1; discriminate|]).
  - intros _. apply request_action_fresh. exact E1.
  - rewrite E1. discriminate.
Qed.

Theorem Pinv_step g o : Inv g -> Oinv g -> Kinv2 g -> Pinv g -> Pinv (fst (step g o)).
Proof.
  intros HI HO HK P. destruct o as [| | | |who a x]; cbn [step].
  - apply Pinv_do_ready; assumption.
  - apply Pinv_do_pay_ante; assumption.
  - apply Pinv_do_pay_blinds; assumption.
  - apply Pinv_do_next; assumption.
  - destruct (negb _); [exact P|]. apply (Pinv_act g _ a x); assumption.
Qed.

Lemma Pinv_create c deck g : create c deck = (g, Ok) -> Pinv g.
Proof.
  intros Hcr. unfold create in Hcr.
  destruct (Nat.ltb (length (map init_player (c_players c))) 2) eqn:E2; [discriminate|].
  destruct (dealer_opt _); [|discriminate].
  destruct (existsb _ _); [discriminate|].
  destruct (Nat.eqb (length (c_deck c)) 0); [discriminate|].
  destruct (Nat.ltb (length (c_deck c)) _); [discriminate|].
  injection Hcr as <-. apply Nat.ltb_ge in E2.
  constructor; try (simpl; discriminate).
  - exact I.
  - unfold request_ready. change (nplayers (set_event ?x ?e)) with (nplayers x). rewrite (nplayers_cv _ _ (cv_reset_all _)). exact E2.
  - intros _. apply (wagers0_cv _ _ (cv_request_ready _)). split; [|reflexivity].
    intros i Hi. change (get_p (reset_round_status ?x) i) with (get_p x i). unfold get_p. cbn [g_players].
    change 0 with (p_wager dflt_p). rewrite <- (map_nth p_wager), map_map.
    change (nplayers (reset_round_status ?x)) with (nplayers x) in Hi. unfold nplayers in Hi. cbn [g_players] in Hi. rewrite map_length in Hi.
    rewrite (nth_indep _ _ 0) by (rewrite map_length; exact Hi).
    assert (G : forall l : list (Z * (bool * bool * bool)), map (fun x => p_wager (init_player x)) l = map (fun _ => 0) l).
    { intros l. apply map_ext. intros [bk [[d sb] bb]]. reflexivity. }
    rewrite G. clear. revert i. induction (c_players c) as [|y t IH]; intros [|i]; simpl; auto.
Qed.

(* everything known about a reachable state *)
Record Good (g : gstate) : Prop := mkGood {
  good_inv : Inv g; good_offers : Oinv g; good_cards : Kinv2 g; good_phase : Pinv g; good_result : Rinv g }.

Theorem Good_step g o : Good g -> Good (fst (step g o)).
Proof.
  intros [A B C D E]. constructor;
    [apply Inv_step|apply Oinv_step|apply Kinv2_step|apply Pinv_step|apply Rinv_step]; assumption.
Qed.

Theorem Good_run ops : forall g, Good g -> Good (run g ops).
Proof. unfold run. induction ops as [|o t IH]; intros g H; cbn [fold_left]; [exact H|]. apply IH, Good_step, H. Qed.

Theorem Good_reachable c deck g ops :
  cfg_ok c -> length deck = length (c_deck c) -> create c deck = (g, Ok) -> Good (run g ops).
Proof.
  intros Hc Hl Hcr. apply Good_run. constructor.
  - eapply Inv_create; eassumption.
  - eapply Oinv_create; eassumption.
  - eapply Kinv2_create; eassumption.
  - eapply Pinv_create; eassumption.
  - eapply Rinv_create; eassumption.
Qed.

(* ---------- (4) progress: the step the hand is waiting for always succeeds ---------- *)
Lemma available_nonempty s p : available_actions s p <> [].
Proof. unfold available_actions. destruct (p_fold p); [discriminate|]. destruct (p_stack p =? 0); discriminate. Qed.

Lemma available_allin s p a : In a (available_actions s p) -> a <> APass -> In AAllin (available_actions s p).
Proof.
  unfold available_actions. destruct (p_fold p); [intros [<-|[]] H; contradiction|].
  destruct (p_stack p =? 0); [intros [<-|[]] H; contradiction|]. intros _ _. now left.
Qed.

Lemma allowed_in g i a : allowed g i a = true <-> In a (p_allowed (get_p g i)).
Proof.
  unfold allowed. rewrite existsb_exists. split.
  - intros (b & Hb & E). destruct a, b; try discriminate; exact Hb.
  - intros H. exists a. split; [exact H|destruct a; reflexivity].
Qed.

Theorem progress g : Good g ->
  match st_event (g_st g) with
  | EvReadyRequested => snd (step g OReady) = Ok
  | EvAnteRequested => snd (step g OPayAnte) = Ok
  | EvBlindsRequested => snd (step g OPayBlinds) = Ok
  | EvRoundClosed => snd (step g ONext) = Ok
  | EvRoundStarted =>
      let offers := p_allowed (get_p g (st_cur (g_st g))) in
      offers <> [] /\
      forall a x, In a offers -> (a = ABet -> 0 < x) -> (a = ARaise -> st_cw (g_st g) < x) ->
                  snd (step g (OAct None a x)) = Ok
  | EvGameClosed => True
  | EvNone => False
  end.
Proof.
  intros [HI HO HK P _]. pose proof (k2_cards g HK) as K. destruct (st_event (g_st g)) eqn:Ev.
  - pose proof (pi_legal g P) as L. unfold ph in L. rewrite Ev in L. exact L.
  - cbn [step]. unfold do_ready. rewrite Ev. cbn [event_eqb negb].
    destruct (st_round (g_st (reset_all g))) eqn:Er; try reflexivity.
    destruct (0 <? _); [reflexivity|].
    assert (K0 : Kinv (reset_all g)) by (apply (Kinv_frame g); [apply sv_reset_all|unfold hv; apply gv_reset_all; hole_side|exact K]).
    apply (Kinv_enter_preflop (reset_all g) K0 Er).
  - apply (Pinv_do_pay_ante g HI HK P). exact Ev.
  - cbn [step]. unfold do_pay_blinds. rewrite Ev. reflexivity.
  - destruct (oi_cur g HO Ev) as [Hc Ho]. cbv zeta. rewrite Ho. split; [apply available_nonempty|].
    intros a x Ha Hbet Hraise. cbn [step]. replace (Nat.ltb (st_cur (g_st g)) (nplayers g)) with true by (symmetry; apply Nat.ltb_lt; exact Hc).
    cbn [negb]. set (i := st_cur (g_st g)) in *.
    assert (Hal : allowed g i a = true) by (apply allowed_in; rewrite Ho; exact Ha).
    assert (Hallin : a <> APass -> snd (act_allin g i) = Ok).
    { intros Hne. unfold act_allin. replace (allowed g i AAllin) with true; [reflexivity|].
      symmetry. apply allowed_in. rewrite Ho. apply (available_allin _ _ a Ha Hne). }
    destruct a.
    + unfold act_pass. rewrite Hal. reflexivity.
    + unfold act_fold. rewrite Hal. reflexivity.
    + unfold act_check. rewrite Hal. reflexivity.
    + unfold act_call. rewrite Hal. reflexivity.
    + unfold act_allin. rewrite Hal. reflexivity.
    + unfold act_bet. rewrite Hal. cbn [negb]. specialize (Hbet eq_refl).
      replace (x <=? 0) with false by (symmetry; apply Z.leb_gt; exact Hbet).
      destruct (_ <=? x); [apply Hallin; discriminate|reflexivity].
    + unfold act_raise. rewrite Hal. cbn [negb]. specialize (Hraise eq_refl).
      pose proof (c0_cw g (inv_chips g HI)) as Hcw.
      replace (x =? 0) with false by (symmetry; apply Z.eqb_neq; lia).
      replace (x <? st_cw (g_st g)) with false by (symmetry; apply Z.ltb_ge; lia). cbn [orb].
      replace (x =? st_cw (g_st g)) with false by (symmetry; apply Z.eqb_neq; lia).
      destruct (_ || _); [apply Hallin; discriminate|reflexivity].
    + exfalso. pose proof (inv_nopay g HI i) as Hn. simpl in Hn. unfold allowed in Hal. rewrite Hn in Hal. discriminate.
  - apply (Pinv_do_next g HI HK P). exact Ev.
  - exact I.
Qed.

(* ---------- (5) a measure that every accepted step decreases ---------- *)
Definition stacks (g : gstate) : Z := zsum (map p_stack (g_players g)).
Definition bankrolls (g : gstate) : Z := zsum (map p_bankroll (g_players g)).
Definition pending (g : gstate) : Z := zn (length (filter (fun p => negb (p_acted p)) (g_players g))).
Definition mu (g : gstate) : Z := stacks g * (zn (nplayers g) + 1) + pending g.
Definition Wbound (g : gstate) : Z := bankrolls g * (zn (nplayers g) + 1) + zn (nplayers g) + 1.
Definition measure (g : gstate) : Z := (15 - zn (pos_of (ph g))) * Wbound g + mu g.

Definition stk (c : Z * Z * Z * Z * Z) : Z := match c with (_, _, s, _, _) => s end.

Lemma stacks_cv g : stacks g = zsum (map stk (cv_players g)).
Proof. unfold stacks, cv_players. rewrite map_map. reflexivity. Qed.

Lemma stacks_view g g' : chips_view g' = chips_view g -> stacks g' = stacks g.
Proof. intros H. rewrite !stacks_cv. destruct (cv_parts _ _ H) as (_ & -> & _). reflexivity. Qed.

Lemma zsum_update_nth_gen (f : Z * Z * Z * Z * Z -> Z) l i c d :
  (i < length l)%nat -> zsum (map f (update_nth i (fun _ => c) l)) = zsum (map f l) - f (nth i l d) + f c.
Proof.
  revert i; induction l as [|y t IH]; intros i Hi; simpl in *; [lia|].
  destruct i as [|i]; simpl; [lia|]. rewrite IH by lia. lia.
Qed.

Lemma stacks_pay g i chips w :
  (i < nplayers g)%nat ->
  stacks (pay g i chips w) = stacks g - (if p_stack (get_p g i) <=? chips then p_stack (get_p g i) else chips)
                             + (if p_stack (get_p g i) <=? chips then 0 else p_initial (get_p g i) - p_wager (get_p g i) - p_stack (get_p g i)).
Proof.
  intros Hi. rewrite !stacks_cv. destruct (pay_view g i chips w Hi) as (_ & Hpl & _). rewrite Hpl.
  rewrite (zsum_update_nth_gen stk _ i _ (chips_of dflt_p)) by (unfold cv_players; rewrite map_length; exact Hi).
  rewrite <- get_p_cv by exact Hi. rewrite (pay_chips g i chips w Hi). cbv zeta.
  destruct (p_stack (get_p g i) <=? chips); unfold chips_of, stk; lia.
Qed.

(* a payment of at least one chip by a seat that has chips takes at least one chip off the stacks *)
Lemma stacks_pay_lt g i chips w :
  (i < nplayers g)%nat -> seat_ok (get_p g i) -> 0 < chips -> p_stack (get_p g i) <> 0 ->
  stacks (pay g i chips w) <= stacks g - 1.
Proof.
  intros Hi (A & B & C & D & F) Hc Hs. rewrite (stacks_pay g i chips w Hi).
  destruct (p_stack (get_p g i) <=? chips) eqn:E; [apply Z.leb_le in E|apply Z.leb_gt in E]; lia.
Qed.

Lemma filter_len_le {A} (f : A -> bool) l : (length (filter f l) <= length l)%nat.
Proof. induction l as [|y t IH]; simpl; [lia|]. destruct (f y); simpl; lia. Qed.

Lemma pending_range g : 0 <= pending g <= zn (nplayers g).
Proof. unfold pending, nplayers, zn. pose proof (filter_len_le (fun p => negb (p_acted p)) (g_players g)). lia. Qed.

Lemma pending_upd_acted g i f :
  (i < nplayers g)%nat -> p_acted (get_p g i) = false -> p_acted (f (get_p g i)) = true ->
  pending (upd_p g i f) = pending g - 1.
Proof.
  unfold pending, upd_p, get_p, nplayers. cbn [with_players g_players]. generalize (g_players g) as l. intros l. revert i.
  induction l as [|y t IH]; intros i Hi Ha Hf; [simpl in Hi; lia|].
  destruct i as [|i]; cbn [update_nth nth filter] in *.
  - rewrite Ha, Hf. cbn [negb length]. unfold zn. lia.
  - cbn [length] in Hi. destruct (negb (p_acted y)); cbn [length]; unfold zn in *; specialize (IH i ltac:(lia) Ha Hf); lia.
Qed.

Lemma seats_stacks_le l : (forall p, In p l -> seat_ok p) ->
  0 <= zsum (map p_stack l) <= zsum (map p_bankroll l).
Proof.
  induction l as [|p t IH]; intros H; simpl; [lia|].
  destruct (H p (or_introl eq_refl)) as (A & B & C & D & F). specialize (IH (fun q Hq => H q (or_intror Hq))). lia.
Qed.

Lemma mu_range g : (forall i, (i < nplayers g)%nat -> seat_ok (get_p g i)) -> 0 <= mu g <= Wbound g - 1.
Proof.
  intros Hs. unfold mu, Wbound.
  assert (H : 0 <= stacks g <= bankrolls g).
  { apply seats_stacks_le. intros p Hp. destruct (In_nth _ _ dflt_p Hp) as (i & Hi & <-). apply Hs. exact Hi. }
  pose proof (pending_range g). assert (0 <= zn (nplayers g)) by (unfold zn; lia). nia.
Qed.

Lemma bankrolls_step g o : bankrolls (fst (step g o)) = bankrolls g.
Proof.
  unfold bankrolls. change (map p_bankroll (g_players ?x)) with (gv p_bankroll x).
  rewrite (gv_step p_bankroll); try reflexivity.
Qed.

Lemma available_facts s p a : In a (available_actions s p) -> a <> APass ->
  p_stack p <> 0 /\ (a = ACall -> p_wager p < st_cw s) /\ (a = ARaise -> p_wager p < st_cw s \/ st_cw s <> 0).
Proof.
  unfold available_actions. destruct (p_fold p); [intros [<-|[]] H; contradiction|].
  destruct (p_stack p =? 0) eqn:Es; [intros [<-|[]] H; contradiction|]. apply Z.eqb_neq in Es.
  intros Hin _. split; [exact Es|].
  destruct (p_wager p <? st_cw s) eqn:Ew; [apply Z.ltb_lt in Ew|apply Z.ltb_ge in Ew].
  - split; intros _; [exact Ew|left; exact Ew].
  - split.
    + intros ->. destruct Hin as [H|[H|Hin]]; try discriminate.
      destruct (st_minibet s <=? p_initial p); [|contradiction]. destruct (st_cw s =? 0); destruct Hin as [H|[]]; discriminate.
    + intros ->. right. destruct Hin as [H|[H|Hin]]; try discriminate.
      destruct (st_minibet s <=? p_initial p); [|contradiction].
      destruct (st_cw s =? 0) eqn:Ec; [destruct Hin as [H|[]]; discriminate|apply Z.eqb_neq in Ec; exact Ec].
Qed.

Lemma mu_set_last g a t v : mu (set_last g a t v) = mu g. Proof. reflexivity. Qed.
Lemma mu_with_st g s : mu (with_st g s) = mu g. Proof. reflexivity. Qed.
Lemma stacks_with_st g s : stacks (with_st g s) = stacks g. Proof. reflexivity. Qed.

Lemma mu_after_pay g0 g i chips :
  stacks g0 = stacks g -> nplayers g0 = nplayers g -> (i < nplayers g0)%nat ->
  seat_ok (get_p g0 i) -> p_stack (get_p g0 i) <> 0 -> 0 < chips ->
  mu (pay g0 i chips true) < mu g.
Proof.
  intros Hs Hn Hi Hok Hst Hc. unfold mu. rewrite pay_nplayers, Hn.
  pose proof (stacks_pay_lt g0 i chips true Hi Hok Hc Hst) as H1. rewrite Hs in H1.
  pose proof (pending_range (pay g0 i chips true)) as H2. rewrite pay_nplayers, Hn in H2.
  pose proof (pending_range g) as H3. assert (0 <= zn (nplayers g)) by (unfold zn; lia). nia.
Qed.

Lemma stacks_upd_neutral g i f : (forall p, chips_of (f p) = chips_of p) -> stacks (upd_p g i f) = stacks g.
Proof. intros H. apply stacks_view. apply cv_upd_neutral. exact H. Qed.

Lemma seat_upd_neutral g i f : (i < nplayers g)%nat -> (forall p, chips_of (f p) = chips_of p) ->
  chips_of (get_p (upd_p g i f) i) = chips_of (get_p g i).
Proof. intros Hi H. rewrite get_p_upd_same by exact Hi. apply H. Qed.

Lemma pay_step_facts g0 g i chips :
  stacks g0 = stacks g -> nplayers g0 = nplayers g -> (i < nplayers g)%nat ->
  chips_of (get_p g0 i) = chips_of (get_p g i) -> seat_ok (get_p g i) -> p_stack (get_p g i) <> 0 -> 0 < chips ->
  st_event (g_st g0) = EvRoundStarted -> st_round (g_st g0) = st_round (g_st g) ->
  let g2 := pay g0 i chips true in
  st_event (g_st g2) = EvRoundStarted /\ st_round (g_st g2) = st_round (g_st g) /\ nplayers g2 = nplayers g /\ mu g2 < mu g.
Proof.
  intros Hs Hn Hi Hch Hseat Hstk Hc Ev0 Er0 g2.
  assert (Hph : ph g2 = ph g0) by apply ph_pay. destruct (event_of_ph _ _ _ Hph) as [E1 E2].
  assert (Hseat0 : seat_ok (get_p g0 i)) by (eapply seat_ok_chips; [symmetry; exact Hch|exact Hseat]).
  assert (Hstk0 : p_stack (get_p g0 i) <> 0) by (unfold chips_of in Hch; injection Hch as _ _ -> _ _; exact Hstk).
  repeat split; try congruence.
  - unfold g2. rewrite pay_nplayers. exact Hn.
  - apply mu_after_pay; try assumption. rewrite Hn. exact Hi.
Qed.

(* an accepted action: bookkeeping that strictly decreases mu, followed by "ask the next seat" *)
Lemma act_mu g i a x :
  Good g -> snd (act_of g i a x) = Ok ->
  exists g', fst (act_of g i a x) = request_action g' /\ st_event (g_st g') = EvRoundStarted /\
             st_round (g_st g') = st_round (g_st g) /\ nplayers g' = nplayers g /\ mu g' < mu g.
Proof.
  intros [HI HO HK P _] Hok.
  assert (Ctx : forall b, allowed g i b = true ->
            i = st_cur (g_st g) /\ st_event (g_st g) = EvRoundStarted /\ (i < nplayers g)%nat /\
            p_acted (get_p g i) = false /\ seat_ok (get_p g i) /\ In b (available_actions (g_st g) (get_p g i)) /\ Cinv g).
  { intros b Hb. destruct (accepted_is_current g i b HI HO Hb) as [Ei Ev]. destruct (oi_cur g HO Ev) as [Hc Ho].
    rewrite <- Ei in Hc, Ho.
    split; [exact Ei|]. split; [exact Ev|]. split; [exact Hc|].
    split; [rewrite Ei; apply (pi_cur g P Ev)|].
    split; [apply (c0_seats g (inv_chips g HI)); exact Hc|].
    split; [rewrite <- Ho; apply allowed_in; exact Hb|].
    apply Inv_Cinv; [exact HI|rewrite Ev; discriminate]. }
  assert (Simple : forall (f : pstate -> pstate) t v, (forall p, chips_of (f p) = chips_of p) -> (forall p, p_acted (f p) = true) ->
            forall b, allowed g i b = true ->
            exists g', resume (set_last (upd_p g i f) (zn i) t v) = request_action g' /\ st_event (g_st g') = EvRoundStarted /\
                       st_round (g_st g') = st_round (g_st g) /\ nplayers g' = nplayers g /\ mu g' < mu g).
  { intros f t v Hf Ha b Hb. destruct (Ctx b Hb) as (Ei & Ev & Hi & Hact & _).
    exists (set_last (upd_p g i f) (zn i) t v).
    assert (E' : st_event (g_st (set_last (upd_p g i f) (zn i) t v)) = EvRoundStarted) by exact Ev.
    split; [unfold resume; rewrite E'; reflexivity|]. split; [exact E'|]. split; [reflexivity|].
    split; [unfold set_last; rewrite nplayers_with_st; apply nplayers_upd|].
    rewrite mu_set_last. unfold mu. rewrite nplayers_upd, stacks_upd_neutral by exact Hf.
    rewrite pending_upd_acted by (try assumption; apply Ha). lia. }
  (* the acting seat after the bookkeeping common to call, all-in, bet and raise *)
  assert (Pre : forall d b, allowed g i b = true -> b <> APass ->
            let g1 := upd_p g i (fun p => p_set_acted (p_set_did p d) true) in
            stacks g1 = stacks g /\ nplayers g1 = nplayers g /\ (i < nplayers g)%nat /\
            chips_of (get_p g1 i) = chips_of (get_p g i) /\ seat_ok (get_p g i) /\ p_stack (get_p g i) <> 0 /\
            st_event (g_st g1) = EvRoundStarted /\ st_round (g_st g1) = st_round (g_st g)).
  { intros d b Hb Hnp g1. destruct (Ctx b Hb) as (Ei & Ev & Hi & Hact & Hseat & Hin & _).
    destruct (available_facts _ _ b Hin Hnp) as (Hstk & _).
    split; [apply stacks_upd_neutral; reflexivity|]. split; [apply nplayers_upd|]. split; [exact Hi|].
    split; [apply seat_upd_neutral; [exact Hi|reflexivity]|]. split; [exact Hseat|]. split; [exact Hstk|].
    split; [exact Ev|reflexivity]. }
  assert (Hcall : snd (act_call g i) = Ok -> exists g', fst (act_call g i) = request_action g' /\ st_event (g_st g') = EvRoundStarted /\
             st_round (g_st g') = st_round (g_st g) /\ nplayers g' = nplayers g /\ mu g' < mu g).
  { unfold act_call. destruct (allowed g i ACall) eqn:Ha; [|discriminate]. cbn [negb fst snd]. intros _.
    destruct (Pre DCall ACall Ha ltac:(discriminate)) as (S1 & N1 & Hi & C1 & Hseat & Hstk & E1 & R1).
    destruct (Ctx ACall Ha) as (_ & _ & _ & _ & _ & Hin & Hc).
    destruct (available_facts _ _ ACall Hin ltac:(discriminate)) as (_ & Hw & _). specialize (Hw eq_refl).
    set (delta := if st_cw (g_st g) <? m_bbb (g_meta g) then m_bbb (g_meta g) - p_wager (get_p g i) else st_cw (g_st g) - p_wager (get_p g i)).
    assert (Hd : 0 < delta) by (unfold delta; destruct (st_cw (g_st g) <? m_bbb (g_meta g)) eqn:E; [apply Z.ltb_lt in E|]; lia).
    destruct (pay_step_facts _ g i delta S1 N1 Hi C1 Hseat Hstk Hd E1 R1) as (A1 & A2 & A3 & A4).
    match goal with |- exists g', resume ?t = request_action g' /\ _ => exists t end.
    split; [unfold resume; replace (st_event (g_st _)) with EvRoundStarted by (symmetry; exact A1); reflexivity|].
    split; [exact A1|]. split; [exact A2|]. split; [unfold set_last; rewrite ?nplayers_with_st; exact A3|exact A4]. }
  assert (Hallin : snd (act_allin g i) = Ok -> exists g', fst (act_allin g i) = request_action g' /\ st_event (g_st g') = EvRoundStarted /\
             st_round (g_st g') = st_round (g_st g) /\ nplayers g' = nplayers g /\ mu g' < mu g).
  { unfold act_allin. destruct (allowed g i AAllin) eqn:Ha; [|discriminate]. cbn [negb fst snd]. intros _.
    destruct (Pre DAllin AAllin Ha ltac:(discriminate)) as (S1 & N1 & Hi & C1 & Hseat & Hstk & E1 & R1).
    set (g1 := upd_p g i (fun p => p_set_acted (p_set_did p DAllin) true)) in *.
    assert (Hs1 : p_stack (get_p g1 i) = p_stack (get_p g i)) by (unfold chips_of in C1; injection C1 as _ _ -> _ _; reflexivity).
    assert (Hd : 0 < p_stack (get_p g1 i)) by (rewrite Hs1; destruct Hseat as (_ & _ & ? & _); lia).
    match goal with |- context [pay ?gg i _ true] => set (g2 := gg) end.
    assert (G2 : stacks g2 = stacks g /\ nplayers g2 = nplayers g /\ chips_of (get_p g2 i) = chips_of (get_p g i) /\
                 st_event (g_st g2) = EvRoundStarted /\ st_round (g_st g2) = st_round (g_st g)).
    { unfold g2. match goal with |- context [if ?c then _ else _] => destruct c end; repeat split; assumption. }
    destruct G2 as (S2 & N2 & C2 & E2 & R2).
    destruct (pay_step_facts g2 g i _ S2 N2 Hi C2 Hseat Hstk Hd E2 R2) as (A1 & A2 & A3 & A4).
    match goal with |- exists g', resume ?t = request_action g' /\ _ => exists t end.
    split; [unfold resume; replace (st_event (g_st _)) with EvRoundStarted by (symmetry; exact A1); reflexivity|].
    split; [exact A1|]. split; [exact A2|]. split; [unfold set_last; rewrite ?nplayers_with_st; exact A3|exact A4]. }
  destruct a; cbn [act_of] in *.
  - unfold act_pass in *. destruct (allowed g i APass) eqn:Ha; [|discriminate]. cbn [negb fst snd] in *.
    apply (Simple (fun p => p_set_acted p true) LPass 0 ltac:(reflexivity) ltac:(reflexivity) APass Ha).
  - unfold act_fold in *. destruct (allowed g i AFold) eqn:Ha; [|discriminate]. cbn [negb fst snd] in *.
    apply (Simple (fun p => p_set_acted (p_set_did (p_set_fold p true) DFold) true) LFold 0 ltac:(reflexivity) ltac:(reflexivity) AFold Ha).
  - unfold act_check in *. destruct (allowed g i ACheck) eqn:Ha; [|discriminate]. cbn [negb fst snd] in *.
    apply (Simple (fun p => p_set_acted (p_set_did p DCheck) true) LCheck 0 ltac:(reflexivity) ltac:(reflexivity) ACheck Ha).
  - apply Hcall. exact Hok.
  - apply Hallin. exact Hok.
  - unfold act_bet in *. destruct (allowed g i ABet) eqn:Ha; [|discriminate]. cbn [negb] in *.
    destruct (x <=? 0) eqn:Ex; [discriminate|]. apply Z.leb_gt in Ex.
    destruct (_ <=? x); [apply Hallin; exact Hok|]. cbn [fst snd] in *.
    destruct (Pre DBet ABet Ha ltac:(discriminate)) as (S1 & N1 & Hi & C1 & Hseat & Hstk & E1 & R1).
    destruct (pay_step_facts _ g i x S1 N1 Hi C1 Hseat Hstk Ex E1 R1) as (A1 & A2 & A3 & A4).
    match goal with |- exists g', resume ?t = request_action g' /\ _ => exists t end.
    split; [unfold resume; replace (st_event (g_st _)) with EvRoundStarted by (symmetry; exact A1); reflexivity|].
    split; [exact A1|]. split; [exact A2|]. split; [unfold set_last; rewrite ?nplayers_with_st; exact A3|exact A4].
  - unfold act_raise in *. destruct (allowed g i ARaise) eqn:Ha; [|discriminate]. cbn [negb] in *.
    destruct ((x =? 0) || (x <? st_cw (g_st g))) eqn:E1; [discriminate|]. apply orb_false_elim in E1 as [E1a E1b].
    apply Z.eqb_neq in E1a. apply Z.ltb_ge in E1b.
    destruct (x =? st_cw (g_st g)) eqn:E2; [apply Hcall; exact Hok|]. apply Z.eqb_neq in E2.
    destruct (_ || _); [apply Hallin; exact Hok|]. cbn [fst snd] in *.
    destruct (Pre DRaise ARaise Ha ltac:(discriminate)) as (S1 & N1 & Hi & C1 & Hseat & Hstk & Ev1 & R1).
    destruct (Ctx ARaise Ha) as (_ & _ & _ & _ & _ & Hin & Hc).
    destruct (available_facts _ _ ARaise Hin ltac:(discriminate)) as (_ & _ & Hr). specialize (Hr eq_refl).
    pose proof (ci_le g Hc i Hi) as Hle. pose proof (ci_cw g Hc) as Hcw. pose proof (ci_prs g Hc) as Hprs.
    destruct Hseat as (B1 & B2 & B3 & B4 & B5).
    assert (Hcwpos : 0 < st_cw (g_st g)) by (destruct Hr; lia).
    match goal with |- context [pay ?gg i ?rr true] => set (g2 := gg); set (req := rr) end.
    assert (Hreq : 0 < req).
    { unfold req. destruct (m_limit_pot (g_meta g) && _); lia. }
    assert (G2 : stacks g2 = stacks g /\ nplayers g2 = nplayers g /\ chips_of (get_p g2 i) = chips_of (get_p g i) /\
                 st_event (g_st g2) = EvRoundStarted /\ st_round (g_st g2) = st_round (g_st g)).
    { unfold g2. repeat split; assumption. }
    destruct G2 as (S2 & N2 & C2 & Ev2 & R2).
    destruct (pay_step_facts g2 g i req S2 N2 Hi C2 (conj B1 (conj B2 (conj B3 (conj B4 B5)))) Hstk Hreq Ev2 R2) as (A1 & A2 & A3 & A4).
    match goal with |- exists g', resume ?t = request_action g' /\ _ => exists t end.
    split; [unfold resume; replace (st_event (g_st _)) with EvRoundStarted by (symmetry; exact A1); reflexivity|].
    split; [exact A1|]. split; [exact A2|]. split; [unfold set_last; rewrite ?nplayers_with_st; exact A3|exact A4].
  - exfalso. unfold act_pay in Hok. destruct (allowed g i APay) eqn:Ha; [|discriminate].
    pose proof (inv_nopay g HI i) as Hn. unfold allowed in Ha. simpl in Hn. rewrite Hn in Ha. discriminate.
Qed.

Lemma pending_set_current g n : pending (set_current g n) = pending g.
Proof.
  assert (H : gv p_acted (set_current g n) = gv p_acted g).
  { unfold set_current. rewrite (gv_upd p_acted _ n) by reflexivity.
    transitivity (gv p_acted (upd_p g (st_cur (g_st g)) (fun p => p_set_allowed p []))); [reflexivity|].
    apply (gv_upd p_acted). reflexivity. }
  unfold gv in H. unfold pending.
  assert (G : forall l l' : list pstate, map p_acted l = map p_acted l' ->
              length (filter (fun p => negb (p_acted p)) l) = length (filter (fun p => negb (p_acted p)) l')).
  { induction l as [|y t IH]; intros [|y' t'] E; simpl in *; try discriminate; [reflexivity|].
    injection E as E1 E2. rewrite E1. destruct (negb (p_acted y')); simpl; rewrite (IH t' E2); reflexivity. }
  rewrite (G _ _ H). reflexivity.
Qed.

Lemma request_action_mu g :
  st_event (g_st (request_action g)) = EvRoundStarted -> mu (request_action g) = mu g.
Proof.
  unfold request_action.
  destruct (Nat.eqb (alive_count g) 1); [simpl; discriminate|].
  destruct (Nat.eqb (movable_count g) 0); [simpl; discriminate|].
  destruct (p_acted (get_p g (next_idx g))); [simpl; discriminate|]. intros _.
  unfold mu. rewrite nplayers_set_current, pending_set_current, (stacks_view _ _ (cv_set_current g _)). reflexivity.
Qed.

(* the table operations move the hand to a later phase *)
Lemma pos_do_ready g : Good g -> snd (do_ready g) = Ok -> (pos_of (ph g) < pos_of (ph (fst (do_ready g))))%nat.
Proof.
  intros [HI HO HK P _]. pose proof (k2_cards g HK) as K. unfold do_ready.
  destruct (event_eqb (st_event (g_st g)) EvReadyRequested) eqn:Ee; [|discriminate]. cbn [negb].
  assert (He : st_event (g_st g) = EvReadyRequested) by (destruct (st_event (g_st g)); try discriminate; reflexivity).
  assert (Hph : ph g = (EvReadyRequested, st_round (g_st (reset_all g)))) by (unfold ph; rewrite He; reflexivity).
  rewrite Hph. destruct (st_round (g_st (reset_all g))) eqn:Er.
  1: { destruct (0 <? _); cbn [fst snd]; [intros _; simpl; lia|]. intros Ok1.
       destruct (ph_enter_preflop _ Ok1) as [H|H]; rewrite H; simpl; lia. }
  all: cbn [fst snd]; intros _; destruct (ph_start_round (reset_all g)) as [H|H]; rewrite H, Er; simpl; lia.
Qed.

Lemma pos_do_pay_ante g : Good g -> snd (do_pay_ante g) = Ok -> (pos_of (ph g) < pos_of (ph (fst (do_pay_ante g))))%nat.
Proof.
  intros [HI HO HK P _]. unfold do_pay_ante.
  destruct (m_ante (g_meta g) =? 0); [discriminate|].
  destruct (event_eqb (st_event (g_st g)) EvAnteRequested) eqn:Ee; [|discriminate]. cbn [negb].
  assert (He : st_event (g_st g) = EvAnteRequested) by (destruct (st_event (g_st g)); try discriminate; reflexivity).
  assert (Hph : pos_of (ph g) = 1%nat) by (unfold ph; rewrite He; reflexivity). rewrite Hph.
  destruct (ante_loop (player_order g) g) as [g1 [|]]; [|discriminate]. intros Ok1.
  destruct (ph_enter_preflop _ Ok1) as [H|H]; rewrite H; simpl; lia.
Qed.

Lemma pos_do_pay_blinds g : Good g -> snd (do_pay_blinds g) = Ok -> (pos_of (ph g) < pos_of (ph (fst (do_pay_blinds g))))%nat.
Proof.
  intros [HI HO HK P _]. unfold do_pay_blinds.
  destruct (event_eqb (st_event (g_st g)) EvBlindsRequested) eqn:Ee; [|discriminate]. cbn [negb fst snd]. intros _.
  assert (He : st_event (g_st g) = EvBlindsRequested) by (destruct (st_event (g_st g)); try discriminate; reflexivity).
  assert (Hr : st_round (g_st g) = Preflop) by (pose proof (pi_legal g P) as L; unfold ph in L; rewrite He in L; exact L).
  assert (Hph : pos_of (ph g) = 2%nat) by (unfold ph; rewrite He; reflexivity). rewrite Hph.
  set (g1 := fold_left pay_blind (player_order g) g).
  set (g2 := with_st g1 (st_set_prs (g_st g1) (if 0 <? m_bbb (g_meta g1) then m_bbb (g_meta g1) else m_bdealer (g_meta g1)))).
  assert (Hph2 : ph (reset_all g2) = ph g) by (rewrite ph_reset_all; unfold g2; transitivity (ph g1); [reflexivity|apply ph_fold_pay_blind]).
  destruct (event_of_ph _ _ _ Hph2) as [_ R2]. rewrite Hr in R2.
  destruct (ph_prepare_round (reset_all g2)) as [H|[H H']]; [|rewrite R2 in H'; contradiction].
  rewrite H, R2. simpl. lia.
Qed.

Lemma pos_next r0 r e : r <> RNone -> (3 * round_num r0 + 2 < 3 * round_num r)%nat ->
  e = EvReadyRequested \/ e = EvRoundClosed -> (pos_of (EvRoundClosed, r0) < pos_of (e, r))%nat.
Proof. intros Hr Hlt [->| ->]; destruct r0, r; simpl in *; try lia; contradiction. Qed.

Lemma pos_do_next g : Good g -> snd (do_next g) = Ok -> (pos_of (ph g) < pos_of (ph (fst (do_next g))))%nat.
Proof.
  intros [HI HO HK P _]. unfold do_next.
  destruct (event_eqb (st_event (g_st g)) EvRoundClosed) eqn:Ee; [|discriminate]. cbn [negb].
  assert (He : st_event (g_st g) = EvRoundClosed) by (destruct (st_event (g_st g)); try discriminate; reflexivity).
  assert (Hr : st_round (g_st g) <> RNone) by (pose proof (pi_legal g P) as L; unfold ph in L; rewrite He in L; exact L).
  set (g0 := set_last g (-1) LNext 0). set (g1 := reset_all_status (reset_round_status g0)).
  assert (R1 : st_round (g_st g1) = st_round (g_st g)) by reflexivity.
  set (guard := fun res : gstate * outcome => match res with (_, Panic) => (g, Panic) | x => x end).
  assert (Hgc : snd (guard (game_completed g1)) = Ok ->
                (pos_of (EvRoundClosed, st_round (g_st g)) < pos_of (ph (fst (guard (game_completed g1)))))%nat).
  { unfold guard. pose proof (ph_game_completed g1) as H. destruct (game_completed g1) as [g2 o2]. cbn [fst snd] in *.
    destruct o2; cbn [fst snd]; try discriminate. intros _. rewrite (H eq_refl). destruct (st_round (g_st g)); simpl; lia. }
  assert (Hst : forall r, r <> RNone -> (3 * round_num (st_round (g_st g)) + 2 < 3 * round_num r)%nat ->
                snd (guard (enter_street g1 r)) = Ok ->
                (pos_of (EvRoundClosed, st_round (g_st g)) < pos_of (ph (fst (guard (enter_street g1 r)))))%nat).
  { intros r Hrn Hlt. unfold guard. pose proof (ph_enter_street g1 r) as H. destruct (enter_street g1 r) as [g2 o2]. cbn [fst snd] in *.
    destruct o2; cbn [fst snd]; try discriminate. intros _.
    destruct (H eq_refl) as [H1|[H1 _]]; rewrite H1; apply pos_next; auto. }
  assert (Hph : ph g = (EvRoundClosed, st_round (g_st g))) by (unfold ph; rewrite He; reflexivity). rewrite Hph.
  change (st_round (g_st g0)) with (st_round (g_st g)).
  destruct (st_round (g_st g)) eqn:Er; [contradiction| | | |].
  - destruct (Nat.eqb (alive_count g1) 1); [exact Hgc|]. apply Hst; [discriminate|simpl; lia].
  - destruct (Nat.eqb (alive_count g1) 1); [exact Hgc|]. apply Hst; [discriminate|simpl; lia].
  - destruct (Nat.eqb (alive_count g1) 1); [exact Hgc|]. apply Hst; [discriminate|simpl; lia].
  - destruct (Nat.eqb (alive_count g1) 1); exact Hgc.
Qed.

(* ---------- (6) refusals change nothing; every accepted step decreases the measure ---------- *)
Theorem refused_changes_nothing g o : Good g -> snd (step g o) <> Ok -> fst (step g o) = g.
Proof.
  intros HG Hno. pose proof (progress g HG) as Pr. destruct o as [| | | |who a x]; cbn [step] in *.
  - unfold do_ready in *. destruct (event_eqb (st_event (g_st g)) EvReadyRequested) eqn:Ee; [|reflexivity].
    assert (He : st_event (g_st g) = EvReadyRequested) by (destruct (st_event (g_st g)); try discriminate; reflexivity).
    rewrite He in Pr. exfalso. apply Hno. exact Pr.
  - destruct (event_eqb (st_event (g_st g)) EvAnteRequested) eqn:Ee.
    + assert (He : st_event (g_st g) = EvAnteRequested) by (destruct (st_event (g_st g)); try discriminate; reflexivity).
      rewrite He in Pr. contradiction.
    + unfold do_pay_ante. rewrite Ee. destruct (_ =? 0); reflexivity.
  - unfold do_pay_blinds in *. destruct (event_eqb (st_event (g_st g)) EvBlindsRequested); [cbn [negb snd] in Hno; contradiction|reflexivity].
  - destruct (event_eqb (st_event (g_st g)) EvRoundClosed) eqn:Ee.
    + assert (He : st_event (g_st g) = EvRoundClosed) by (destruct (st_event (g_st g)); try discriminate; reflexivity).
      rewrite He in Pr. contradiction.
    + unfold do_next. rewrite Ee. reflexivity.
  - destruct (negb _); [reflexivity|]. apply (act_refused_same g _ a x). exact Hno.
Qed.

Lemma legal_pos_15 g : Pinv g -> (pos_of (ph g) <= 15)%nat.
Proof. intros P. apply legal_pos_le. apply (pi_legal g P). Qed.

Lemma measure_nonneg g : Good g -> 0 <= measure g.
Proof.
  intros [HI _ _ P _]. unfold measure. pose proof (legal_pos_15 g P) as H.
  pose proof (mu_range g (c0_seats g (inv_chips g HI))) as M.
  assert (0 <= 15 - zn (pos_of (ph g))) by (unfold zn; lia). nia.
Qed.

Theorem measure_decreases g o : Good g -> snd (step g o) = Ok -> measure (fst (step g o)) < measure g.
Proof.
  intros HG Hok. pose proof (Good_step g o HG) as HG'.
  assert (HW : Wbound (fst (step g o)) = Wbound g) by (unfold Wbound; rewrite bankrolls_step, nplayers_step; reflexivity).
  pose proof (mu_range g (c0_seats g (inv_chips g (good_inv g HG)))) as M.
  pose proof (mu_range _ (c0_seats _ (inv_chips _ (good_inv _ HG')))) as M'. rewrite HW in M'.
  (* either the phase moves on, or it stays and mu decreases *)
  assert (D : (pos_of (ph g) < pos_of (ph (fst (step g o))))%nat \/
              (pos_of (ph (fst (step g o))) = pos_of (ph g) /\ mu (fst (step g o)) < mu g)).
  { destruct o as [| | | |who a x]; cbn [step] in *.
    - left. apply pos_do_ready; assumption.
    - left. apply pos_do_pay_ante; assumption.
    - left. apply pos_do_pay_blinds; assumption.
    - left. apply pos_do_next; assumption.
    - destruct (negb _); [discriminate|].
      match goal with |- context [ph (fst ?r)] => change r with (act_of g (match who with Some i => i | None => st_cur (g_st g) end) a x) in * end.
      set (i := match who with Some i => i | None => st_cur (g_st g) end) in *.
      destruct (act_mu g i a x HG Hok) as (g' & E & Ev & Er & Hn & Hmu). rewrite E.
      assert (Hphg : ph g = (EvRoundStarted, st_round (g_st g))).
      { unfold ph. f_equal. destruct (st_event (g_st g)) eqn:Evg; try reflexivity; exfalso;
          assert (Hno : no_offers g) by (apply (inv_offers g (good_inv g HG)); rewrite Evg; discriminate);
          unfold act_of in Hok; destruct a; cbn in Hok;
          unfold act_pass, act_fold, act_check, act_call, act_allin, act_bet, act_raise, act_pay in Hok;
          rewrite ?(allowed_nil g i _ (Hno i)) in Hok; cbn in Hok; discriminate. }
      destruct (ph_request_action g') as [H|H].
      + right. destruct (event_of_ph _ _ _ H) as [E1 _]. rewrite Ev in E1.
        split; [rewrite H, Hphg; unfold ph; rewrite Ev, Er; reflexivity|]. rewrite (request_action_mu g' E1). exact Hmu.
      + left. rewrite H, Hphg, Er. destruct (st_round (g_st g)); simpl; lia. }
  unfold measure. rewrite HW.
  assert (HWpos : 0 < Wbound g) by lia.
  pose proof (legal_pos_15 _ (good_phase _ HG')) as L'.
  destruct D as [D|[D1 D2]].
  - assert (15 - zn (pos_of (ph (fst (step g o)))) <= 15 - zn (pos_of (ph g)) - 1) by (unfold zn; lia). nia.
  - rewrite D1. lia.
Qed.

(* ---------- (7) every hand finishes ---------- *)
(* the number of accepted steps in a run *)
Fixpoint accepted (g : gstate) (ops : list op) : nat :=
  match ops with
  | [] => 0
  | o :: t => (match snd (step g o) with Ok => 1 | _ => 0 end + accepted (fst (step g o)) t)%nat
  end.

Theorem accepted_steps_bounded ops : forall g, Good g -> zn (accepted g ops) <= measure g.
Proof.
  induction ops as [|o t IH]; intros g HG; cbn [accepted].
  - unfold zn. simpl. apply measure_nonneg. exact HG.
  - pose proof (IH _ (Good_step g o HG)) as H. unfold zn in *. rewrite Nat2Z.inj_add.
    destruct (outcome_ok_dec (snd (step g o))) as [Hok|Hno].
    + pose proof (measure_decreases g o HG Hok). rewrite Hok. simpl Z.of_nat at 1. lia.
    + rewrite (refused_changes_nothing g o HG Hno) in *. destruct (snd (step g o)); try contradiction; simpl Z.of_nat at 1; lia.
Qed.

(* the operation a state is waiting for (for a betting round: the first action offered) *)
Definition expected_op (g : gstate) : op :=
  match st_event (g_st g) with
  | EvAnteRequested => OPayAnte
  | EvBlindsRequested => OPayBlinds
  | EvRoundClosed => ONext
  | EvRoundStarted =>
      match p_allowed (get_p g (st_cur (g_st g))) with
      | APass :: _ => OAct None APass 0
      | _ => OAct None AAllin 0
      end
  | _ => OReady
  end.

Lemma expected_op_accepted g : Good g -> st_event (g_st g) <> EvGameClosed -> snd (step g (expected_op g)) = Ok.
Proof.
  intros HG Hne. pose proof (progress g HG) as Pr. unfold expected_op.
  destruct (st_event (g_st g)) eqn:Ev; try exact Pr; try contradiction.
  destruct Pr as [Hne' Hall].
  pose proof (oi_cur g (good_offers g HG) Ev) as [_ Ho].
  destruct (p_allowed (get_p g (st_cur (g_st g)))) as [|a l] eqn:Ea; [contradiction|].
  assert (Hin : In AAllin (a :: l) \/ a = APass).
  { destruct a; try (left; rewrite Ho; apply (available_allin _ _ _ ltac:(rewrite <- Ho; left; reflexivity)); discriminate). right. reflexivity. }
  destruct a; try (apply Hall; [destruct Hin as [H|H]; [exact H|discriminate]|discriminate|discriminate]).
  apply Hall; [now left|discriminate|discriminate].
Qed.

(* driving a hand by always doing what it waits for closes it within `measure` steps *)
Theorem hand_finishes : forall (n : nat) g, Good g -> measure g <= zn n ->
  exists ops, (length ops <= n)%nat /\ st_event (g_st (run g ops)) = EvGameClosed.
Proof.
  induction n as [|n IH]; intros g HG Hm.
  - destruct (st_event (g_st g)) eqn:Ev; try (exists []; split; [simpl; lia|exact Ev]);
      exfalso; (assert (Hne : st_event (g_st g) <> EvGameClosed) by (rewrite Ev; discriminate));
      pose proof (measure_decreases g _ HG (expected_op_accepted g HG Hne)) as Hd;
      pose proof (measure_nonneg _ (Good_step g (expected_op g) HG)); unfold zn in Hm; simpl in Hm; lia.
  - destruct (st_event (g_st g)) eqn:Ev; try (exists []; split; [simpl; lia|exact Ev]);
      (assert (Hne : st_event (g_st g) <> EvGameClosed) by (rewrite Ev; discriminate));
      pose proof (measure_decreases g _ HG (expected_op_accepted g HG Hne)) as Hd;
      (destruct (IH (fst (step g (expected_op g))) (Good_step g _ HG)) as (ops & Hl & Hc); [unfold zn in *; rewrite Nat2Z.inj_succ in Hm; lia|]);
      exists (expected_op g :: ops); (split; [simpl; lia|exact Hc]).
Qed.

(* a closed hand carries a result *)
Definition Cres (g : gstate) : Prop := st_event (g_st g) = EvGameClosed -> g_result g <> None.

Lemma Cres_step g o : Good g -> Cres g -> Cres (fst (step g o)).
Proof.
  intros HG HC. destruct (outcome_ok_dec (snd (step g o))) as [Hok|Hno].
  2: { rewrite (refused_changes_nothing g o HG Hno). exact HC. }
  intros Ev'. destruct HG as [HI HO HK P HR].
  destruct o as [| | | |who a x]; cbn [step] in *.
  - exfalso. revert Ev' Hok. unfold do_ready. destruct (negb _); [discriminate|].
    destruct (st_round (g_st (reset_all g))).
    1: { destruct (0 <? _); cbn [fst snd]; [simpl; discriminate|]. intros Ev' Ok1.
         destruct (ph_enter_preflop _ Ok1) as [H|H]; destruct (event_of_ph _ _ _ H) as [E1 _]; rewrite E1 in Ev'; discriminate. }
    all: cbn [fst snd]; intros Ev' _; destruct (ph_start_round (reset_all g)) as [H|H]; destruct (event_of_ph _ _ _ H) as [E1 _]; rewrite E1 in Ev'; discriminate.
  - exfalso. revert Ev' Hok. unfold do_pay_ante. destruct (_ =? 0); [discriminate|]. destruct (negb _); [discriminate|].
    destruct (ante_loop (player_order g) g) as [g1 [|]]; [|discriminate]. intros Ev' Ok1.
    destruct (ph_enter_preflop _ Ok1) as [H|H]; destruct (event_of_ph _ _ _ H) as [E1 _]; rewrite E1 in Ev'; discriminate.
  - exfalso. revert Ev' Hok. unfold do_pay_blinds. destruct (negb _); [discriminate|]. cbn [fst snd]. intros Ev' _.
    match type of Ev' with context [prepare_round ?y] => destruct (ph_prepare_round y) as [H|[H _]]; destruct (event_of_ph _ _ _ H) as [E1 _]; rewrite E1 in Ev'; discriminate end.
  - pose proof (Rinv_step g ONext HI HR) as HR'. cbn [step] in HR'. unfold Rinv in HR'.
    revert Ev' Hok HR'. unfold do_next. destruct (event_eqb (st_event (g_st g)) EvRoundClosed) eqn:Ee; [|discriminate]. cbn [negb].
    set (g0 := set_last g (-1) LNext 0). set (g1 := reset_all_status (reset_round_status g0)).
    set (guard := fun res : gstate * outcome => match res with (_, Panic) => (g, Panic) | x => x end).
    assert (Hgc : st_event (g_st (fst (guard (game_completed g1)))) = EvGameClosed -> snd (guard (game_completed g1)) = Ok ->
                  g_result (fst (guard (game_completed g1))) <> None).
    { unfold guard. destruct (game_completed_result g1) as [[E1 E2]|(E1 & E2 & E3 & E4 & E5)];
        destruct (game_completed g1) as [g2 o2]; cbn [fst snd] in *; subst o2; cbn [fst snd]; [discriminate|].
      intros _ _. rewrite E4. discriminate. }
    assert (Hst : forall r, st_event (g_st (fst (guard (enter_street g1 r)))) = EvGameClosed -> snd (guard (enter_street g1 r)) = Ok -> False).
    { intros r. unfold guard. pose proof (ph_enter_street g1 r) as H. destruct (enter_street g1 r) as [g2 o2]. cbn [fst snd] in *.
      destruct o2; cbn [fst snd]; try discriminate. intros Ev' _.
      destruct (H eq_refl) as [H1|[H1 _]]; destruct (event_of_ph _ _ _ H1) as [E1 _]; rewrite E1 in Ev'; discriminate. }
    destruct (st_round (g_st g0)).
    + cbn [fst snd]. intros Ev' _ _. exfalso. assert (E : st_event (g_st g) = EvGameClosed) by exact Ev'. rewrite E in Ee. discriminate.
    + destruct (Nat.eqb (alive_count g1) 1); intros Ev' Ok1 _; [apply Hgc; assumption|exfalso; apply (Hst _ Ev' Ok1)].
    + destruct (Nat.eqb (alive_count g1) 1); intros Ev' Ok1 _; [apply Hgc; assumption|exfalso; apply (Hst _ Ev' Ok1)].
    + destruct (Nat.eqb (alive_count g1) 1); intros Ev' Ok1 _; [apply Hgc; assumption|exfalso; apply (Hst _ Ev' Ok1)].
    + destruct (Nat.eqb (alive_count g1) 1); intros Ev' Ok1 _; apply Hgc; assumption.
  - exfalso. destruct (negb _); [discriminate|].
    match type of Hok with snd ?r = Ok => change r with (act_of g (match who with Some i => i | None => st_cur (g_st g) end) a x) in * end.
    set (i := match who with Some i => i | None => st_cur (g_st g) end) in *.
    destruct (act_mu g i a x (mkGood g HI HO HK P HR) Hok) as (g' & E & Ev & _). rewrite E in Ev'.
    destruct (ph_request_action g') as [H|H]; destruct (event_of_ph _ _ _ H) as [E1 _]; rewrite E1 in Ev'; [rewrite Ev in Ev'|]; discriminate.
Qed.

Lemma Cres_run ops : forall g, Good g -> Cres g -> Cres (run g ops).
Proof.
  unfold run. induction ops as [|o t IH]; intros g HG HC; cbn [fold_left]; [exact HC|].
  apply IH; [apply Good_step; exact HG|apply Cres_step; assumption].
Qed.

Theorem closed_has_result c deck g ops :
  cfg_ok c -> length deck = length (c_deck c) -> create c deck = (g, Ok) ->
  st_event (g_st (run g ops)) = EvGameClosed -> g_result (run g ops) <> None.
Proof.
  intros Hc Hl Hcr. apply Cres_run; [apply (Good_reachable c deck g [] Hc Hl Hcr)|].
  intros E. exfalso. pose proof (Pinv_create c deck g Hcr) as P.
  unfold create in Hcr.
  destruct (Nat.ltb _ 2); [discriminate|]. destruct (dealer_opt _); [|discriminate].
  destruct (existsb _ _); [discriminate|]. destruct (Nat.eqb _ 0); [discriminate|]. destruct (Nat.ltb _ _); [discriminate|].
  injection Hcr as <-. simpl in E. discriminate.
Qed.

(* the streets run strictly in order: a step keeps the street or moves to the next one *)
Theorem street_order g o : Good g ->
  st_round (g_st (fst (step g o))) = st_round (g_st g) \/
  round_num (st_round (g_st (fst (step g o)))) = S (round_num (st_round (g_st g))).
Proof.
  intros HG. destruct (outcome_ok_dec (snd (step g o))) as [Hok|Hno].
  2: { rewrite (refused_changes_nothing g o HG Hno). now left. }
  destruct HG as [HI HO HK P HR].
  destruct o as [| | | |who a x]; cbn [step] in *.
  - revert Hok. unfold do_ready. destruct (negb _); [discriminate|].
    destruct (st_round (g_st (reset_all g))) eqn:Er.
    1: { assert (Er' : st_round (g_st g) = RNone) by exact Er. rewrite Er'.
         destruct (0 <? _); cbn [fst snd]; [intros _; left; exact Er|]. intros Ok1. right.
         destruct (ph_enter_preflop _ Ok1) as [H|H]; destruct (event_of_ph _ _ _ H) as [_ E2]; rewrite E2; reflexivity. }
    all: cbn [fst snd]; intros _; left; destruct (ph_start_round (reset_all g)) as [H|H]; destruct (event_of_ph _ _ _ H) as [_ E2]; rewrite E2; reflexivity.
  - revert Hok. unfold do_pay_ante. destruct (_ =? 0); [discriminate|].
    destruct (event_eqb (st_event (g_st g)) EvAnteRequested) eqn:Ee; [|discriminate]. cbn [negb].
    assert (He : st_event (g_st g) = EvAnteRequested) by (destruct (st_event (g_st g)); try discriminate; reflexivity).
    assert (Hr : st_round (g_st g) = RNone) by (pose proof (pi_legal g P) as L; unfold ph in L; rewrite He in L; exact L).
    destruct (ante_loop (player_order g) g) as [g1 [|]]; [|discriminate]. intros Ok1. right. rewrite Hr.
    destruct (ph_enter_preflop _ Ok1) as [H|H]; destruct (event_of_ph _ _ _ H) as [_ E2]; rewrite E2; reflexivity.
  - left. revert Hok. unfold do_pay_blinds. destruct (negb _); [reflexivity|]. cbn [fst snd]. intros _.
    apply (sv_round g). rewrite sv_prepare_round, sv_reset_all.
    transitivity (sv (fold_left pay_blind (player_order g) g)); [reflexivity|apply sv_fold_pay_blind].
  - revert Hok. unfold do_next. destruct (negb _); [discriminate|].
    set (g0 := set_last g (-1) LNext 0). set (g1 := reset_all_status (reset_round_status g0)).
    set (guard := fun res : gstate * outcome => match res with (_, Panic) => (g, Panic) | x => x end).
    assert (Hgc : snd (guard (game_completed g1)) = Ok ->
                  st_round (g_st (fst (guard (game_completed g1)))) = st_round (g_st g) \/
                  round_num (st_round (g_st (fst (guard (game_completed g1))))) = S (round_num (st_round (g_st g)))).
    { unfold guard. pose proof (ph_game_completed g1) as H. destruct (game_completed g1) as [g2 o2]. cbn [fst snd] in *.
      destruct o2; cbn [fst snd]; try discriminate. intros _. left. destruct (event_of_ph _ _ _ (H eq_refl)) as [_ E2]. exact E2. }
    assert (Hst : forall r, round_num r = S (round_num (st_round (g_st g))) -> snd (guard (enter_street g1 r)) = Ok ->
                  st_round (g_st (fst (guard (enter_street g1 r)))) = st_round (g_st g) \/
                  round_num (st_round (g_st (fst (guard (enter_street g1 r))))) = S (round_num (st_round (g_st g)))).
    { intros r Hr. unfold guard. pose proof (ph_enter_street g1 r) as H. destruct (enter_street g1 r) as [g2 o2]. cbn [fst snd] in *.
      destruct o2; cbn [fst snd]; try discriminate. intros _. right.
      destruct (H eq_refl) as [H1|[H1 _]]; destruct (event_of_ph _ _ _ H1) as [_ E2]; rewrite E2; exact Hr. }
    change (st_round (g_st g0)) with (st_round (g_st g)).
    destruct (st_round (g_st g)) eqn:Er.
    + intros _. left. exact Er.
    + destruct (Nat.eqb (alive_count g1) 1); [exact Hgc|apply Hst; reflexivity].
    + destruct (Nat.eqb (alive_count g1) 1); [exact Hgc|apply Hst; reflexivity].
    + destruct (Nat.eqb (alive_count g1) 1); [exact Hgc|apply Hst; reflexivity].
    + destruct (Nat.eqb (alive_count g1) 1); exact Hgc.
  - left. destruct (negb _); [reflexivity|]. apply (sv_round _ _ (sv_act g _ a x)).
Qed.
