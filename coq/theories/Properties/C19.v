(* C19 — no table is asked to hold more than its capacity. Pending phase. *)
From PF Require Import Base ModelReg ModelSys ProofsRegBasic.

(* before the competition has started no callback is made: no table is opened, nobody assigned *)
Theorem C19_no_table_while_pending_add :
  forall st players, r_status (rs_reg st) = 0 ->
    rs_ev (fst (add_players st players)) = rs_ev st.
Proof.
  intros st players H. pose proof (add_pending_no_callbacks st players H) as P.
  destruct (add_players st players) as [st' o]. simpl. tauto.
Qed.
Print Assumptions C19_no_table_while_pending_add.

Theorem C19_no_table_while_pending_release :
  forall st players, r_status (rs_reg st) = 0 -> rs_ev (release_players st players) = rs_ev st.
Proof. exact release_pending_no_callbacks. Qed.
Print Assumptions C19_no_table_while_pending_release.

Theorem C19_sync_makes_no_callback :
  forall st id out, rs_ev (fst (fst (fst (sync_state st id out)))) = rs_ev st.
Proof. exact sync_no_callbacks. Qed.
Print Assumptions C19_sync_makes_no_callback.

(* no table is opened before the minimum initial number of players is waiting: with no table open and
   fewer than the minimum in the queue, draining the queue does nothing *)
From PF Require Import ProofsReg.
Theorem C19_no_table_below_the_minimum :
  forall st, r_tc (rs_reg st) = 0 -> zn (length (r_queue (rs_reg st))) < r_min (rs_reg st) -> drain st = st.
Proof. exact no_table_below_the_minimum. Qed.
Print Assumptions C19_no_table_below_the_minimum.

(* every table opened by the initial allocation (no table open yet, every registered player waiting) gets at
   least the minimum initial number of players *)
Theorem C19_initial_tables_get_the_minimum :
  forall st,
    r_tc (rs_reg st) = 0 -> r_pc (rs_reg st) = zn (length (r_queue (rs_reg st))) ->
    0 < r_max (rs_reg st) -> 0 < r_min (rs_reg st) ->
    forall e, In e (rs_ev (allocate_tables st)) ->
      In e (rs_ev st) \/ exists id ps, e = EvRequest id ps /\ r_min (rs_reg st) <= zn (length ps).
Proof. exact initial_tables_get_the_minimum. Qed.
Print Assumptions C19_initial_tables_get_the_minimum.

(* the full capacity clause does not hold of the code: the known finding F12a, on the model *)
Example C19_F12a_witness :
  let s := sys_run (sys_init 9 6) [SRegister [] (seqZ_from 1 6); SStatus [] 1; SRegister [] (seqZ_from 7 37)] in
  existsb (fun m => 9 <? zn (length (snd m))) (s_tabs s) = true.
Proof. vm_compute. reflexivity. Qed.

(* topping a table up later never exceeds the capacity: when SyncState hands players to a table, the table
   then holds at most floor(players / required tables) <= max players *)
Theorem C19_sync_top_up_within_capacity :
  forall st id out t0,
    find_table id (r_tables (rs_reg st)) = Some t0 -> 0 < r_max (rs_reg st) -> 0 < r_pc (rs_reg st) - out ->
    let res := sync_state st id out in
    snd (fst res) <> [] ->
    forall t1, find_table id (r_tables (rs_reg (fst (fst (fst res))))) = Some t1 -> t_pc t1 <= r_max (rs_reg st).
Proof. exact sync_topup_within_capacity. Qed.
Print Assumptions C19_sync_top_up_within_capacity.

(* the same at the level of the whole call: with no table open and every living player waiting, all the
   tables opened by a registration get at least the minimum initial number of players *)
Theorem C19_first_tables_get_the_minimum :
  forall st players,
    quiet st -> r_tc (rs_reg st) = 0 -> r_tables (rs_reg st) = [] ->
    r_pc (rs_reg st) = zn (length (r_queue (rs_reg st))) -> 0 < r_max (rs_reg st) -> 0 < r_min (rs_reg st) ->
    r_status (rs_reg st) <> 2 ->
    let st' := fst (add_players st players) in
    forall t, In t (env_of (rs_ev st') []) -> r_min (rs_reg st) <= zn (length (snd t)).
Proof. exact first_tables_get_the_minimum. Qed.
Print Assumptions C19_first_tables_get_the_minimum.

(* which table requests can exceed the capacity: the first table opened by an allocation never does; a later
   one does only when it is sized by the recomputed water level floor(waiting / (tables wanted - tables open)),
   the shape of the recorded finding F12a (the trace lists, per table opened: waiting before, tables open
   before, players given).  The harness classifies an over-capacity request as F12a by exactly this shape;
   any other over-capacity request is reported as a violation. *)
From PF Require Import ProofsRegShape.
Theorem C19_over_capacity_requests_have_the_recorded_shape :
  forall st,
    0 < r_max (rs_reg st) -> 0 <= r_pc (rs_reg st) ->
    allocate_tables st = st \/
    exists fuel wl rt,
      allocate_tables st = alloc_loop fuel st wl rt /\
      (rt = required_tables (rs_reg st) \/ rt = r_pc (rs_reg st) / r_max (rs_reg st)) /\
      exists evs, rs_ev (allocate_tables st) = evs ++ rs_ev st /\
        Forall2 is_request_of (rev evs) (alloc_trace fuel st wl rt) /\
        Forall (f12a_shape (r_max (rs_reg st)) rt) (alloc_trace fuel st wl rt) /\
        match alloc_trace fuel st wl rt with [] => True | x :: _ => snd x <= r_max (rs_reg st) end.
Proof. exact allocation_shape. Qed.
Print Assumptions C19_over_capacity_requests_have_the_recorded_shape.

(* the F12a witness again, as a trace: 9/6, six players seated at one table, 37 more registered: the first
   table of the allocation is within the capacity, the third and fourth are sized 20/2 and 10/1 *)
Example C19_F12a_trace :
  alloc_trace 5 (mkRst (mkReg 9 6 43 1 1 (seqZ_from 7 37) [mkT 1 0 6] 2) [] [] false) 8 5
  = [(37, 1, 8); (29, 2, 9); (20, 3, 10); (10, 4, 10)].
Proof. vm_compute. reflexivity. Qed.
