(* C12 — raise sizes and amounts: no amount argument can corrupt chips. *)
From Coq Require Import Lia.
From PF Require Import Base ModelGame ProofsGameBasic ProofsChips ProofsInv.

(* no amount argument whatsoever — zero, negative, tiny or larger than the stack — can make a wager,
   stack or pot negative or lift a stack above the player's bankroll: for every operation list
   (amounts range over all of Z) every seat keeps bankroll = stack + wager + pot with all three >= 0 *)
Theorem C12_amounts_cannot_corrupt_chips :
  forall c deck g ops i,
    cfg_ok c -> create c deck = (g, Ok) -> (i < nplayers (run g ops))%nat ->
    let p := get_p (run g ops) i in
    0 <= p_stack p /\ 0 <= p_wager p /\ 0 <= p_pot p /\ p_stack p <= p_bankroll p.
Proof.
  intros c deck g ops i Hc Hcr Hi p.
  destruct (inv_chips _ (Inv_reachable c deck g ops Hc Hcr)) as [_ A _ _ _].
  destruct (A i Hi) as (E1 & E2 & S & W & P). unfold p. repeat split; try assumption. lia.
Qed.
Print Assumptions C12_amounts_cannot_corrupt_chips.

(* the minimum raise never goes negative, the wager to match never goes negative *)
Theorem C12_raise_size_nonneg :
  forall c deck g ops, cfg_ok c -> create c deck = (g, Ok) ->
    0 <= st_prs (g_st (run g ops)) /\ 0 <= st_cw (g_st (run g ops)).
Proof.
  intros c deck g ops Hc Hcr. destruct (inv_chips _ (Inv_reachable c deck g ops Hc Hcr)) as [_ _ _ A B]. auto.
Qed.
Print Assumptions C12_raise_size_nonneg.

Theorem C12_raise_below_wager_refused :
  forall g who x,
    (seat_of g who < nplayers g)%nat -> allowed g (seat_of g who) ARaise = true ->
    x = 0 \/ x < st_cw (g_st g) -> step g (OAct who ARaise x) = (g, ErrIllegalRaise).
Proof. exact raise_below_wager_refused. Qed.
Print Assumptions C12_raise_below_wager_refused.

Theorem C12_nonpositive_bet_refused :
  forall g who x, (seat_of g who < nplayers g)%nat -> x <= 0 -> step g (OAct who ABet x) = (g, ErrInvalidAction).
Proof. exact bet_nonpositive_refused. Qed.
Print Assumptions C12_nonpositive_bet_refused.
