(* ProofsEval.v — the evaluator model ranks five-card hands in the poker order (C03).
   Structure: (A) insertion sort facts, (B) CalculatePower only looks at the class of a hand
   (sorted ranks, flush bit), (C) every hand of the 52-card deck falls into one of the 7,462
   enumerated classes, (D) reflection over the classes, (E) the theorems. *)
From Coq Require Import Lia Permutation Sorting.Mergesort Orders.
From PF Require Import Base Comb ModelEval SpecPoker ProofsSort.
From PF.Gen Require Import Consts.

(* ---------- (A) insertion sort: see ProofsSort.v ---------- *)
Lemma sort_desc_desc l : desc (sort_desc l).
Proof. unfold sort_desc, isort. apply asc_rev_desc. apply (fold_ins_asc l []). constructor. Qed.

Lemma sort_desc_perm l : Permutation (sort_desc l) l.
Proof. apply isort_perm. Qed.

(* ---------- (B) CalculatePower depends on the class only ---------- *)
Lemma bump_bump_r r g : bump r g = bump_r r g.
Proof. induction g as [|[r' c] t IH]; simpl; [reflexivity|]. now rewrite IH. Qed.

Lemma groups_of_r cards : groups_of cards = groups_r (map c_rank cards).
Proof.
  unfold groups_of, groups_r.
  assert (G : forall g,
    fold_left (fun g c => match bump (c_rank c) g with Some g' => g' | None => g ++ [(c_rank c, 1)] end) cards g =
    fold_left (fun g r => match bump_r r g with Some g' => g' | None => g ++ [(r, 1)] end) (map c_rank cards) g).
  { induction cards as [|c t IH]; intros g; simpl; [reflexivity|]. rewrite bump_bump_r. apply IH. }
  apply G.
Qed.

Lemma elements_of_r cards : elements_of cards = elements_r (map c_rank cards).
Proof. unfold elements_of, elements_r. now rewrite groups_of_r. Qed.

Lemma consecutive_r_ok cur l : consecutive_from cur l = consecutive_r cur (map c_rank l).
Proof. revert cur; induction l as [|c t IH]; intros cur; simpl; [reflexivity|]. now rewrite IH. Qed.

Lemma is_straight_r_ok cards : is_straight cards = is_straight_r (map c_rank cards).
Proof.
  unfold is_straight, is_straight_r. rewrite map_length.
  destruct (negb (Nat.eqb (length cards) 5)); [reflexivity|].
  destruct cards as [|c0 [|c1 t]]; simpl; try reflexivity.
  destruct (c_rank c0 <? 5); [reflexivity|].
  destruct ((c_rank c0 =? 14) && (c_rank c1 =? 5)); simpl; now rewrite consecutive_r_ok.
Qed.

Lemma category_r_ok cards els :
  category cards els = category_r (map c_rank cards) (is_flush cards) els.
Proof. unfold category, category_r. now rewrite is_straight_r_ok. Qed.

Lemma calc_power_class pr h :
  (ps_comb (calc_power pr h), ps_score (calc_power pr h)) =
  model_class pr (map c_rank (sort_cards h), is_flush (sort_cards h)).
Proof.
  unfold calc_power, model_class. cbn [ps_comb ps_score fst snd].
  now rewrite elements_of_r, category_r_ok.
Qed.

Lemma sort_cards_ranks h : map c_rank (sort_cards h) = sort_desc (map c_rank h).
Proof. unfold sort_cards, sort_desc. apply (isort_map c_rank lessZ). Qed.

(* the flush bit does not depend on the order of the cards *)
Lemma is_flush_true l :
  is_flush l = true <-> l <> [] /\ forall c d, In c l -> In d l -> c_suit c = c_suit d.
Proof.
  destruct l as [|c0 t]; simpl.
  - split; [discriminate|intros [H _]; congruence].
  - rewrite Z.eqb_refl. simpl. rewrite forallb_forall. split.
    + intros H. split; [discriminate|].
      assert (G : forall c, c0 = c \/ In c t -> c_suit c = c_suit c0).
      { intros c [->|Hc]; [reflexivity|]. apply Z.eqb_eq. apply H. exact Hc. }
      intros c d Hc Hd. rewrite (G c Hc), (G d Hd). reflexivity.
    + intros [_ H] d Hd. apply Z.eqb_eq. apply H; [now right|now left].
Qed.

Lemma is_flush_perm l l' : Permutation l l' -> is_flush l = is_flush l'.
Proof.
  intros P.
  assert (G : forall a b, Permutation a b -> is_flush a = true -> is_flush b = true).
  { intros a b Pab H. apply is_flush_true in H as [Hne Hall]. apply is_flush_true. split.
    - intros ->. apply Permutation_sym, Permutation_nil in Pab. contradiction.
    - intros c d Hc Hd. apply Hall; eapply Permutation_in; try apply Permutation_sym; eauto. }
  destruct (is_flush l) eqn:E1, (is_flush l') eqn:E2; try reflexivity.
  - rewrite (G l l' P E1) in E2. discriminate.
  - rewrite (G l' l (Permutation_sym P) E2) in E1. discriminate.
Qed.

Lemma same_suit_is_flush h : same_suit h = is_flush h.
Proof. reflexivity. Qed.

Lemma calc_power_class_of pr h :
  (ps_comb (calc_power pr h), ps_score (calc_power pr h)) = model_class pr (class_of h).
Proof.
  rewrite calc_power_class. unfold class_of. rewrite sort_cards_ranks.
  rewrite (is_flush_perm (sort_cards h) h) by apply isort_perm. reflexivity.
Qed.

(* ---------- (C) every hand of the 52-card deck is in an enumerated class ---------- *)
Lemma in_rank_list r : 2 <= r <= 14 -> In r rank_list.
Proof.
  intros H.
  assert (r = 14 \/ r = 13 \/ r = 12 \/ r = 11 \/ r = 10 \/ r = 9 \/ r = 8 \/ r = 7 \/ r = 6 \/ r = 5 \/ r = 4 \/ r = 3 \/ r = 2) as G by lia.
  unfold rank_list. simpl. intuition.
Qed.

Lemma desc_lists_complete k : forall bound l,
  bound <= 14 -> length l = k -> desc l -> Forall (fun r => 2 <= r) l ->
  (match l with [] => True | x :: _ => x <= bound end) -> In l (desc_lists k bound).
Proof.
  induction k as [|k IH]; intros bound l Hb Hlen Hd Hr Hh.
  - destruct l; [now left|discriminate].
  - destruct l as [|x t]; [discriminate|]. simpl in Hlen. injection Hlen as Hlen.
    inversion Hr as [|? ? Hx Hrt]; subst.
    cbn [desc_lists]. apply in_flat_map. exists x. split; [apply in_rank_list; lia|].
    apply Z.leb_le in Hh. rewrite Hh. apply in_map. apply IH.
    + apply Z.leb_le in Hh. lia.
    + reflexivity.
    + inversion Hd; [constructor|assumption].
    + assumption.
    + destruct t as [|y t']; [exact I|]. inversion Hd; assumption.
Qed.

Lemma zcount_perm r l l' : Permutation l l' -> zcount r l = zcount r l'.
Proof. induction 1; simpl; try lia. Qed.

Lemma zcount_filter r (h : list card) :
  zcount r (map c_rank h) = length (filter (fun c => c_rank c =? r) h).
Proof. induction h as [|c t IH]; simpl; [reflexivity|]. destruct (c_rank c =? r); simpl; lia. Qed.

Lemma NoDup_map_inj {A B} (f : A -> B) l :
  NoDup l -> (forall x y, In x l -> In y l -> f x = f y -> x = y) -> NoDup (map f l).
Proof.
  induction l as [|a t IH]; intros Hn Hinj; simpl; [constructor|].
  inversion Hn; subst. constructor.
  - intros Hin. apply in_map_iff in Hin as [y [Hy Hyt]].
    assert (y = a) by (apply Hinj; [now right|now left|exact Hy]). subst. contradiction.
  - apply IH; [assumption|]. intros x y Hx Hy. apply Hinj; now right.
Qed.

Lemma card_eq (c d : card) : c_suit c = c_suit d -> c_rank c = c_rank d -> c = d.
Proof. destruct c, d; simpl; intros; subst; reflexivity. Qed.

Lemma count_le_4 h r : hand52 h -> (zcount r (map c_rank h) <= 4)%nat.
Proof.
  intros (Hlen & Hnd & Hv). rewrite zcount_filter.
  set (S := filter (fun c => c_rank c =? r) h).
  assert (HS : forall c, In c S -> In c h /\ c_rank c = r).
  { intros c Hc. apply filter_In in Hc as [H1 H2]. apply Z.eqb_eq in H2. auto. }
  assert (Hnds : NoDup (map c_suit S)).
  { apply NoDup_map_inj.
    - apply NoDup_filter. exact Hnd.
    - intros x y Hx Hy Hs. apply card_eq; [exact Hs|].
      destruct (HS x Hx) as [_ ->]. destruct (HS y Hy) as [_ ->]. reflexivity. }
  assert (Hincl : incl (map c_suit S) card_suits).
  { intros s Hs. apply in_map_iff in Hs as [c [<- Hc]]. destruct (HS c Hc) as [Hch _].
    rewrite Forall_forall in Hv. apply (Hv c Hch). }
  pose proof (NoDup_incl_length Hnds Hincl) as Hle. rewrite map_length in Hle.
  change (length card_suits) with 4%nat in Hle. exact Hle.
Qed.

Lemma ok_mult_class h : hand52 h -> ok_mult (sort_desc (map c_rank h)) = true.
Proof.
  intros H. unfold ok_mult. apply forallb_forall. intros r _. apply Nat.leb_le.
  rewrite (zcount_perm r _ _ (sort_desc_perm _)). apply count_le_4. exact H.
Qed.

Lemma class_ranks_in_all5 h : hand52 h -> In (sort_desc (map c_rank h)) all5.
Proof.
  intros H. unfold all5. apply filter_In. split; [|apply ok_mult_class; exact H].
  destruct H as (Hlen & Hnd & Hv).
  assert (Hall : Forall (fun r => 2 <= r <= 14) (sort_desc (map c_rank h))).
  { apply Forall_forall. intros r Hr.
    apply (Permutation_in _ (sort_desc_perm _)) in Hr. apply in_map_iff in Hr as [c [<- Hc]].
    rewrite Forall_forall in Hv. apply (Hv c Hc). }
  apply desc_lists_complete.
  - lia.
  - rewrite (Permutation_length (sort_desc_perm _)), map_length. exact Hlen.
  - apply sort_desc_desc.
  - eapply Forall_impl; [|exact Hall]. simpl. intros; lia.
  - destruct (sort_desc (map c_rank h)) as [|x t]; [exact I|]. inversion Hall; subst. lia.
Qed.

Lemma zmem_In x l : zmem x l = true <-> In x l.
Proof.
  induction l as [|y t IH]; simpl; [split; [discriminate|contradiction]|].
  rewrite orb_true_iff, IH, Z.eqb_eq. split; intros [H|H]; auto.
Qed.

Lemma znodup_NoDup l : NoDup l -> znodup l = l.
Proof.
  induction 1 as [|x t Hx Hn IH]; simpl; [reflexivity|].
  destruct (zmem x t) eqn:E; [apply zmem_In in E; contradiction|]. now rewrite IH.
Qed.

Lemma flush_distinct h : hand52 h -> same_suit h = true -> distinct5 (sort_desc (map c_rank h)) = true.
Proof.
  intros (Hlen & Hnd & Hv) Hf. unfold distinct5.
  assert (Hr : NoDup (map c_rank h)).
  { apply NoDup_map_inj; [exact Hnd|]. intros x y Hx Hy Hxy. apply card_eq; [|exact Hxy].
    apply is_flush_true in Hf as [_ Hall]. apply Hall; assumption. }
  assert (Hs : NoDup (sort_desc (map c_rank h))).
  { eapply Permutation_NoDup; [apply Permutation_sym, sort_desc_perm|exact Hr]. }
  rewrite (znodup_NoDup _ Hs), (Permutation_length (sort_desc_perm _)), map_length, Hlen. reflexivity.
Qed.

Lemma class_in_classes h : hand52 h -> In (class_of h) classes.
Proof.
  intros H. unfold classes, class_of. apply in_or_app.
  destruct (same_suit h) eqn:E.
  - right. apply (in_map (fun l => (l, true))). apply filter_In. split; [apply class_ranks_in_all5; exact H|apply flush_distinct; assumption].
  - left. apply (in_map (fun l => (l, false))). apply class_ranks_in_all5. exact H.
Qed.

(* ---------- (D) reflection over the classes ---------- *)
Module KeyOrder <: TotalLeBool.
  Definition t := (Z * Z)%type.
  Definition leb (x y : t) := fst x <=? fst y.
  Theorem leb_total : forall a1 a2, leb a1 a2 = true \/ leb a2 a1 = true.
  Proof. intros a1 a2. unfold leb. destruct (fst a1 <=? fst a2) eqn:E; [now left|right]. apply Z.leb_gt in E. apply Z.leb_le. lia. Qed.
End KeyOrder.
Module KS := Sort KeyOrder.

(* (poker key, model score) of every class *)
Definition keyed (pr : list comb) : list (Z * Z) :=
  map (fun cl => (spec_key pr cl, snd (model_class pr cl))) classes.

(* x sorts before y consistently: equal keys and equal scores, or smaller key and smaller score *)
Definition consistent (x y : Z * Z) : Prop :=
  (fst x = fst y /\ snd x = snd y) \/ (fst x < fst y /\ snd x < snd y).

Definition consistentb (x y : Z * Z) : bool :=
  ((fst x =? fst y) && (snd x =? snd y)) || ((fst x <? fst y) && (snd x <? snd y)).

Lemma consistentb_ok x y : consistentb x y = true -> consistent x y.
Proof.
  unfold consistentb, consistent. rewrite orb_true_iff, !andb_true_iff, !Z.eqb_eq, !Z.ltb_lt. tauto.
Qed.

Lemma consistent_trans x y z : consistent x y -> consistent y z -> consistent x z.
Proof. unfold consistent. intros [[? ?]|[? ?]] [[? ?]|[? ?]]; [left|right|right|right]; lia. Qed.

Fixpoint adj_ok (l : list (Z * Z)) : bool :=
  match l with
  | x :: ((y :: _) as t) => consistentb x y && adj_ok t
  | _ => true
  end.

Lemma adj_ok_pairs l : adj_ok l = true -> ForallOrdPairs consistent l.
Proof.
  induction l as [|x t IH]; intros H; [constructor|].
  destruct t as [|y t'].
  - constructor; [constructor|constructor].
  - simpl in H. apply andb_prop in H as [H1 H2]. apply consistentb_ok in H1.
    specialize (IH H2). constructor; [|exact IH].
    inversion IH as [|? ? Hy Hrest]; subst.
    constructor; [exact H1|].
    eapply Forall_impl; [|exact Hy]. intros z Hz. eapply consistent_trans; eauto.
Qed.

Lemma pairs_agree l : ForallOrdPairs consistent l ->
  forall x y, In x l -> In y l -> (snd x ?= snd y) = (fst x ?= fst y).
Proof.
  induction 1 as [|a t Ha Ht IH]; intros x y Hx Hy; [contradiction|].
  assert (G : forall u v, consistent u v -> (snd u ?= snd v) = (fst u ?= fst v) /\ (snd v ?= snd u) = (fst v ?= fst u)).
  { intros u v [[E1 E2]|[E1 E2]].
    - rewrite E1, E2, !Z.compare_refl. auto.
    - split.
      + rewrite (proj2 (Z.compare_lt_iff _ _) E1), (proj2 (Z.compare_lt_iff _ _) E2). reflexivity.
      + rewrite (proj2 (Z.compare_gt_iff _ _) E1), (proj2 (Z.compare_gt_iff _ _) E2). reflexivity. }
  rewrite Forall_forall in Ha.
  destruct Hx as [<-|Hx], Hy as [<-|Hy].
  - rewrite !Z.compare_refl. reflexivity.
  - apply (G a y), Ha, Hy.
  - apply (G a x), Ha, Hx.
  - apply IH; assumption.
Qed.

Lemma keyed_agree pr :
  adj_ok (KS.sort (keyed pr)) = true ->
  forall x y, In x (keyed pr) -> In y (keyed pr) -> (snd x ?= snd y) = (fst x ?= fst y).
Proof.
  intros H x y Hx Hy.
  apply (pairs_agree _ (adj_ok_pairs _ H)); eapply Permutation_in; try apply KS.Permuted_sort; assumption.
Qed.

Lemma adj_standard : adj_ok (KS.sort (keyed power_standard)) = true.
Proof. vm_compute. reflexivity. Qed.

Lemma adj_shortdeck : adj_ok (KS.sort (keyed power_shortdeck)) = true.
Proof. vm_compute. reflexivity. Qed.

Definition cats_ok (pr : list comb) : bool :=
  forallb (fun cl => comb_eqb (fst (model_class pr cl)) (spec_cat (fst cl) (snd cl))) classes.

Lemma cats_standard : cats_ok power_standard = true.
Proof. vm_compute. reflexivity. Qed.
Lemma cats_shortdeck : cats_ok power_shortdeck = true.
Proof. vm_compute. reflexivity. Qed.

Lemma comb_eqb_eq a b : comb_eqb a b = true -> a = b.
Proof. destruct a, b; simpl; intros H; try reflexivity; discriminate. Qed.

(* ---------- (E) the theorems ---------- *)
Definition shipped (pr : list comb) : Prop := pr = power_standard \/ pr = power_shortdeck.

Lemma order_theorem pr h1 h2 :
  shipped pr -> hand52 h1 -> hand52 h2 ->
  (ps_score (calc_power pr h1) ?= ps_score (calc_power pr h2))
  = (spec_key pr (class_of h1) ?= spec_key pr (class_of h2)).
Proof.
  intros Hpr H1 H2.
  assert (Hadj : adj_ok (KS.sort (keyed pr)) = true).
  { destruct Hpr as [->| ->]; [exact adj_standard|exact adj_shortdeck]. }
  pose proof (keyed_agree pr Hadj) as G.
  assert (K : forall h, hand52 h -> In (spec_key pr (class_of h), ps_score (calc_power pr h)) (keyed pr)).
  { intros h Hh. unfold keyed. apply in_map_iff. exists (class_of h). split; [|apply class_in_classes; exact Hh].
    f_equal. pose proof (calc_power_class_of pr h) as E. rewrite <- E. reflexivity. }
  apply (G _ _ (K h1 H1) (K h2 H2)).
Qed.

Lemma category_theorem pr h :
  shipped pr -> hand52 h -> ps_comb (calc_power pr h) = spec_cat (fst (class_of h)) (snd (class_of h)).
Proof.
  intros Hpr Hh.
  assert (Hc : cats_ok pr = true) by (destruct Hpr as [->| ->]; [exact cats_standard|exact cats_shortdeck]).
  unfold cats_ok in Hc. rewrite forallb_forall in Hc.
  specialize (Hc (class_of h) (class_in_classes h Hh)). apply comb_eqb_eq in Hc.
  pose proof (calc_power_class_of pr h) as E. rewrite <- E in Hc. exact Hc.
Qed.
