#!/bin/sh
# MANIFEST.setup_cmd: builds the whole framework from files on disk, offline.
set -e
cd "$(dirname "$0")"
export GOFLAGS=-mod=mod GOPROXY=off GOSUMDB=off GOTOOLCHAIN=local CGO_ENABLED=0
mkdir -p work tools/bin harness/bin runner/bin evidence replays
(cd tools/gen_consts && go build -o ../bin/gen_consts .)
tools/bin/gen_consts /repo coq/theories/Gen/Consts.v
(cd coq && coq_makefile -f _CoqProject -o Makefile && timeout 5400 make -j16)
runner/build.sh
cp /repo/go.sum harness/go.sum
(cd harness && go build -tags verif -o bin/pfharness .)
echo setup done
