(* ProofsInv.v — the chips invariant of the engine model holds in every reachable state,
   for every operation with every amount argument (C01 running clauses, C12 bounds). *)
From Coq Require Import Lia.
From PF Require Import Base ProofsBase Comb ModelPot ModelSettle ModelEval ModelGame ProofsGameBasic ProofsChips.

(* ---------- the part of the state the chips invariant talks about ---------- *)
Definition chips_view (g : gstate) : meta * list (Z * Z * Z * Z * Z) * Z * Z * Z :=
  (g_meta g, map chips_of (g_players g), st_rpot (g_st g), st_cw (g_st g), st_prs (g_st g)).

Definition meta_ok (m : meta) : Prop :=
  0 <= m_ante m /\ 0 <= m_bdealer m /\ 0 <= m_bsb m /\ 0 <= m_bbb m.

Definition wagers_of (l : list pstate) : Z := zsum (map p_wager l).

Record Cinv (g : gstate) : Prop := mkCinv {
  ci_meta : meta_ok (g_meta g);
  ci_seats : forall i, (i < nplayers g)%nat -> seat_ok (get_p g i);
  ci_rpot : st_rpot (g_st g) = wagers_of (g_players g);
  ci_le : forall i, (i < nplayers g)%nat -> p_wager (get_p g i) <= st_cw (g_st g);
  ci_cw : 0 <= st_cw (g_st g);
  ci_prs : 0 <= st_prs (g_st g) }.

Lemma chips_of_nth l i : (i < length l)%nat -> chips_of (nth i l dflt_p) = nth i (map chips_of l) (chips_of dflt_p).
Proof. intros H. symmetry. apply map_nth. Qed.

Lemma wagers_of_chips l l' : map chips_of l = map chips_of l' -> wagers_of l = wagers_of l'.
Proof.
  unfold wagers_of. revert l'; induction l as [|p t IH]; intros [|p' t'] H; simpl in *; try discriminate; auto.
  inversion H. rewrite (IH t') by assumption. unfold chips_of in *. congruence.
Qed.

Lemma Cinv_view g g' : chips_view g = chips_view g' -> Cinv g -> Cinv g'.
Proof.
  unfold chips_view. intros H [A B C D E F]. injection H as H1 H2 H3 H4 H5.
  assert (Hn : nplayers g' = nplayers g).
  { unfold nplayers. rewrite <- (map_length chips_of (g_players g')), <- H2, map_length. reflexivity. }
  assert (Hc : forall i, (i < nplayers g)%nat -> chips_of (get_p g' i) = chips_of (get_p g i)).
  { intros i Hi. unfold get_p. rewrite !chips_of_nth; [now rewrite H2| |]; unfold nplayers in *; lia. }
  constructor.
  - now rewrite <- H1.
  - intros i Hi. rewrite Hn in Hi. eapply seat_ok_chips; [symmetry; apply Hc; exact Hi|]. apply B. exact Hi.
  - rewrite <- H3, C. apply wagers_of_chips. exact H2.
  - intros i Hi. rewrite Hn in Hi. rewrite <- H4. specialize (Hc i Hi). unfold chips_of in Hc.
    injection Hc as _ _ _ _ Hw. rewrite Hw. apply D. exact Hi.
  - now rewrite <- H4.
  - now rewrite <- H5.
Qed.

(* ---------- operations that do not touch chips ---------- *)
Lemma map_chips_update_neutral i f l :
  (forall p, chips_of (f p) = chips_of p) -> map chips_of (update_nth i f l) = map chips_of l.
Proof.
  intros Hf. revert i; induction l as [|x t IH]; intros [|i]; simpl; auto.
  - now rewrite Hf.
  - now rewrite IH.
Qed.

Lemma map_chips_map_neutral f l :
  (forall p, chips_of (f p) = chips_of p) -> map chips_of (map f l) = map chips_of l.
Proof. intros Hf. rewrite map_map. apply map_ext. exact Hf. Qed.

Lemma cv_upd_neutral g i f : (forall p, chips_of (f p) = chips_of p) -> chips_view (upd_p g i f) = chips_view g.
Proof. intros Hf. unfold chips_view, upd_p. simpl. now rewrite map_chips_update_neutral. Qed.

Lemma cv_map_neutral g f : (forall p, chips_of (f p) = chips_of p) -> chips_view (map_p g f) = chips_view g.
Proof. intros Hf. unfold chips_view, map_p. simpl. now rewrite map_chips_map_neutral. Qed.

Lemma cv_set_event g e : chips_view (set_event g e) = chips_view g.
Proof. reflexivity. Qed.
Lemma cv_set_last g a t v : chips_view (set_last g a t v) = chips_view g.
Proof. reflexivity. Qed.
Lemma cv_with_result g r : chips_view (with_result g r) = chips_view g.
Proof. reflexivity. Qed.
Lemma cv_update_pots g : chips_view (update_pots g) = chips_view g.
Proof. reflexivity. Qed.
Lemma cv_reset_all g : chips_view (reset_all g) = chips_view g.
Proof. apply cv_map_neutral. reflexivity. Qed.
Lemma cv_reset_acted g : chips_view (reset_acted g) = chips_view g.
Proof. apply cv_map_neutral. reflexivity. Qed.
Lemma cv_round_closed g : chips_view (round_closed g) = chips_view g.
Proof. unfold round_closed. now rewrite cv_update_pots, cv_reset_all, cv_set_event. Qed.

Lemma cv_set_current g i : chips_view (set_current g i) = chips_view g.
Proof.
  unfold set_current. rewrite cv_upd_neutral by reflexivity.
  transitivity (chips_view (upd_p g (st_cur (g_st g)) (fun p => p_set_allowed p []))); [reflexivity|].
  apply cv_upd_neutral. reflexivity.
Qed.

Lemma cv_request_action g : chips_view (request_action g) = chips_view g.
Proof.
  unfold request_action.
  destruct (Nat.eqb (alive_count g) 1); [apply cv_round_closed|].
  destruct (Nat.eqb (movable_count g) 0); [apply cv_round_closed|].
  destruct (p_acted _); [apply cv_round_closed|apply cv_set_current].
Qed.

Lemma cv_resume g : chips_view (resume g) = chips_view g.
Proof. unfold resume. destruct (st_event (g_st g)); try reflexivity; [apply cv_request_action|apply cv_round_closed]. Qed.

Lemma cv_become_raiser g i : chips_view (become_raiser g i) = chips_view g.
Proof.
  unfold become_raiser. rewrite cv_upd_neutral by reflexivity. rewrite cv_reset_acted.
  transitivity (chips_view (upd_p g i (fun p => if 0 <? p_wager p then p_set_vpip p true else p))); [reflexivity|].
  apply cv_upd_neutral. intros p. destruct (0 <? p_wager p); reflexivity.
Qed.

Lemma cv_update_combs g : chips_view (update_combs g) = chips_view g.
Proof.
  apply cv_map_neutral. intros p. unfold update_comb.
  destruct (p_comb p); [|reflexivity]. destruct (best_power _ _ _ _); reflexivity.
Qed.

Lemma cv_request_ready g : chips_view (request_ready g) = chips_view g.
Proof. unfold request_ready. now rewrite cv_set_event, cv_reset_all. Qed.

Lemma cv_prepare_round g : chips_view (prepare_round g) = chips_view g.
Proof.
  unfold prepare_round. destruct (st_round (g_st g)); try apply cv_request_ready;
    destruct (Nat.leb (movable_count g) 1); try apply cv_round_closed; apply cv_request_ready.
Qed.

Lemma cv_find_bb_loop n g : chips_view (find_bb_loop n g) = chips_view g.
Proof.
  revert g; induction n as [|n IH]; intros g; simpl; [reflexivity|].
  destruct (p_bb _); [apply cv_set_current|]. rewrite IH. apply cv_set_current.
Qed.

Lemma cv_start_round g : chips_view (start_round g) = chips_view g.
Proof.
  unfold start_round.
  destruct (st_round (g_st (reset_all g))).
  all: try (rewrite cv_request_action, cv_set_event, cv_set_current; apply cv_reset_all).
  destruct (Nat.eqb (movable_count (reset_all g)) 0).
  - rewrite cv_round_closed. apply cv_reset_all.
  - rewrite cv_request_action, cv_set_event, cv_find_bb_loop, cv_set_current. apply cv_reset_all.
Qed.

Lemma map_chips_deal_holes ps deck h : map chips_of (deal_holes ps deck h) = map chips_of ps.
Proof. revert deck; induction ps as [|p t IH]; intros deck; simpl; [reflexivity|]. now rewrite IH. Qed.

Lemma cv_enter_preflop g : chips_view (fst (enter_preflop g)) = chips_view g.
Proof.
  unfold enter_preflop.
  destruct (negb (deck_has g _)); [reflexivity|].
  match goal with |- context [if ?c then _ else _] => destruct c end; cbn [fst].
  - rewrite cv_prepare_round, cv_update_combs. unfold chips_view. simpl. now rewrite map_chips_deal_holes.
  - rewrite cv_set_event, cv_update_combs. unfold chips_view. simpl. now rewrite map_chips_deal_holes.
Qed.

Lemma cv_enter_street g r : chips_view (fst (enter_street g r)) = chips_view g.
Proof.
  unfold enter_street. destruct (negb (deck_has g _)); [reflexivity|]. cbn [fst].
  now rewrite cv_prepare_round, cv_update_combs, cv_set_current.
Qed.

Lemma cv_game_completed g : chips_view (fst (game_completed g)) = chips_view g.
Proof. unfold game_completed. destruct (settle_panics _ _); reflexivity. Qed.

(* ---------- pay ---------- *)
Definition wager_of_chips (c : Z * Z * Z * Z * Z) : Z := snd c.

Lemma wagers_of_map l : wagers_of l = zsum (map wager_of_chips (map chips_of l)).
Proof. unfold wagers_of. rewrite map_map. reflexivity. Qed.

Lemma zsum_update_nth (l : list (Z * Z * Z * Z * Z)) i c d :
  (i < length l)%nat ->
  zsum (map wager_of_chips (update_nth i (fun _ => c) l)) =
  zsum (map wager_of_chips l) - wager_of_chips (nth i l d) + wager_of_chips c.
Proof.
  revert i; induction l as [|x t IH]; intros i Hi; simpl in *; [lia|].
  destruct i as [|i]; simpl; [lia|]. rewrite IH by lia. lia.
Qed.

Lemma map_chips_update i f l :
  (i < length l)%nat ->
  map chips_of (update_nth i f l) = update_nth i (fun _ => chips_of (f (nth i l dflt_p))) (map chips_of l).
Proof.
  revert i; induction l as [|x t IH]; intros i Hi; simpl in *; [lia|].
  destruct i as [|i]; simpl; [reflexivity|]. rewrite IH by lia. reflexivity.
Qed.

Definition cv_players (g : gstate) := map chips_of (g_players g).

Lemma cv_parts g g' : chips_view g = chips_view g' ->
  g_meta g = g_meta g' /\ cv_players g = cv_players g' /\ st_rpot (g_st g) = st_rpot (g_st g') /\
  st_cw (g_st g) = st_cw (g_st g') /\ st_prs (g_st g) = st_prs (g_st g').
Proof. unfold chips_view, cv_players. intros H. injection H as H1 H2 H3 H4 H5. auto. Qed.

(* what pay does to the view *)
Definition pay_delta (p : pstate) (chips : Z) : Z :=
  if p_stack p <=? chips then p_initial p - p_wager p else chips.
Definition pay_new_wager (p : pstate) (chips : Z) : Z :=
  if p_stack p <=? chips then p_initial p else p_wager p + chips.

Lemma pay_view g i chips w :
  (i < nplayers g)%nat ->
  let g' := pay g i chips w in
  g_meta g' = g_meta g /\
  cv_players g' = update_nth i (fun _ => chips_of (get_p g' i)) (cv_players g) /\
  st_rpot (g_st g') = st_rpot (g_st g) + pay_delta (get_p g i) chips /\
  st_prs (g_st g') = st_prs (g_st g) /\
  st_cw (g_st g') = (if w then Z.max (st_cw (g_st g)) (pay_new_wager (get_p g i) chips) else st_cw (g_st g)).
Proof.
  intros Hi g'.
  assert (Hpl : cv_players g' = update_nth i (fun _ => chips_of (get_p g' i)) (cv_players g)).
  { (* all seats but i keep their chips; seat i gets its new tuple *)
    unfold cv_players.
    apply nth_ext with (d := chips_of dflt_p) (d' := chips_of dflt_p).
    - rewrite update_nth_length, !map_length. apply (pay_nplayers g i chips w).
    - intros j Hj. rewrite map_length in Hj. fold (nplayers g') in Hj. unfold g' in Hj. rewrite pay_nplayers in Hj.
      rewrite <- chips_of_nth by (fold (nplayers g'); unfold g'; rewrite pay_nplayers; exact Hj).
      fold (get_p g' j).
      destruct (Nat.eq_dec i j) as [->|Hne].
      + rewrite nth_update_nth_same by (rewrite map_length; exact Hj). reflexivity.
      + rewrite nth_update_nth_other by exact Hne. rewrite <- chips_of_nth by exact Hj. fold (get_p g j).
        apply pay_other; assumption. }
  split; [|split; [exact Hpl|]].
  - unfold g', pay. destruct (p_stack (get_p g i) <=? chips).
    + destruct w; [|reflexivity].
      match goal with |- context [if ?c then become_raiser ?g3 i else reset_acted ?g3] =>
        destruct c; [destruct (cv_parts _ _ (cv_become_raiser g3 i)) as [-> _]|destruct (cv_parts _ _ (cv_reset_acted g3)) as [-> _]] end;
        match goal with |- context [if ?c then with_st _ _ else _] => destruct c end; reflexivity.
    + destruct (w && _); [|reflexivity].
      match goal with |- context [become_raiser ?g3 i] => destruct (cv_parts _ _ (cv_become_raiser g3 i)) as [-> _] end. reflexivity.
  - unfold g', pay, pay_delta, pay_new_wager.
    destruct (p_stack (get_p g i) <=? chips) eqn:E.
    + destruct w.
      * match goal with |- context [if ?c then become_raiser ?g3 i else reset_acted ?g3] =>
          assert (Hv : chips_view (if c then become_raiser g3 i else reset_acted g3) = chips_view g3)
            by (destruct c; [apply cv_become_raiser|apply cv_reset_acted]);
          destruct (cv_parts _ _ Hv) as (_ & _ & -> & -> & ->) end.
        match goal with |- context [if ?c then with_st _ _ else _] => destruct c eqn:Ec end;
          unfold upd_p, with_st, with_players, st_add_rpot, st_set_cw in *; simpl in *;
          [apply Z.ltb_lt in Ec|apply Z.ltb_ge in Ec];
          destruct (m_limit_pot (g_meta g)); simpl; repeat split; lia.
      * unfold upd_p, with_st, with_players, st_add_rpot; simpl.
        destruct (m_limit_pot (g_meta g)); simpl; repeat split; lia.
    + destruct w; cbn [andb].
      * match goal with |- context [if ?c then _ else _] => destruct c eqn:Ec end.
        -- match goal with |- context [become_raiser ?g3 i] => destruct (cv_parts _ _ (cv_become_raiser g3 i)) as (_ & _ & -> & -> & ->) end.
           unfold upd_p, with_st, with_players, st_add_rpot, st_set_cw in *; simpl in *.
           apply Z.ltb_lt in Ec. destruct (m_limit_pot (g_meta g)); simpl in *; repeat split; lia.
        -- unfold upd_p, with_st, with_players, st_add_rpot, st_set_cw in *; simpl in *.
           apply Z.ltb_ge in Ec. destruct (m_limit_pot (g_meta g)); simpl in *; repeat split; lia.
      * unfold upd_p, with_st, with_players, st_add_rpot; simpl.
        destruct (m_limit_pot (g_meta g)); simpl; repeat split; lia.
Qed.

(* the invariant without "every wager is at most the wager to match" (it is suspended while
   antes are being paid, which do not count toward the wager to match) *)
Record Cinv0 (g : gstate) : Prop := mkCinv0 {
  c0_meta : meta_ok (g_meta g);
  c0_seats : forall i, (i < nplayers g)%nat -> seat_ok (get_p g i);
  c0_rpot : st_rpot (g_st g) = wagers_of (g_players g);
  c0_cw : 0 <= st_cw (g_st g);
  c0_prs : 0 <= st_prs (g_st g) }.

Lemma Cinv_Cinv0 g : Cinv g -> Cinv0 g.
Proof. intros [A B C D E F]. constructor; assumption. Qed.

Lemma get_p_cv g i : (i < nplayers g)%nat -> chips_of (get_p g i) = nth i (cv_players g) (chips_of dflt_p).
Proof. intros H. unfold get_p, cv_players. apply chips_of_nth. exact H. Qed.

Lemma pay_new_wager_spec g i chips w :
  (i < nplayers g)%nat ->
  p_wager (get_p (pay g i chips w) i) = pay_new_wager (get_p g i) chips.
Proof.
  intros Hi. pose proof (pay_chips g i chips w Hi) as H. unfold chips_of, pay_new_wager in *. cbv zeta in H.
  destruct (p_stack (get_p g i) <=? chips); injection H as _ _ _ _ H5; exact H5.
Qed.

Lemma pay_delta_spec p chips : seat_ok p -> pay_delta p chips = pay_new_wager p chips - p_wager p.
Proof. intros (A & B & C & D & F). unfold pay_delta, pay_new_wager. destruct (p_stack p <=? chips); lia. Qed.

Lemma pay_wagers g i chips w :
  (i < nplayers g)%nat ->
  wagers_of (g_players (pay g i chips w)) =
  wagers_of (g_players g) - p_wager (get_p g i) + pay_new_wager (get_p g i) chips.
Proof.
  intros Hi. destruct (pay_view g i chips w Hi) as (_ & Hpl & _).
  rewrite !wagers_of_map. fold (cv_players (pay g i chips w)). fold (cv_players g). rewrite Hpl.
  rewrite (zsum_update_nth _ i _ (chips_of dflt_p)) by (unfold cv_players; rewrite map_length; exact Hi).
  rewrite <- (get_p_cv g i Hi). unfold wager_of_chips, chips_of. simpl.
  rewrite (pay_new_wager_spec g i chips w Hi). reflexivity.
Qed.

Lemma Cinv0_pay g i chips w :
  Cinv0 g -> (i < nplayers g)%nat -> 0 <= chips -> Cinv0 (pay g i chips w).
Proof.
  intros [A B C E F] Hi Hc. destruct (pay_view g i chips w Hi) as (Hm & Hpl & Hr & Hp & Hw).
  constructor.
  - rewrite Hm. exact A.
  - intros j Hj. rewrite pay_nplayers in Hj. destruct (Nat.eq_dec i j) as [->|Hne].
    + apply pay_self; auto.
    + eapply seat_ok_chips; [symmetry; apply pay_other; eassumption|]. apply B. exact Hj.
  - rewrite Hr, (pay_wagers g i chips w Hi), C, (pay_delta_spec _ chips (B i Hi)). lia.
  - rewrite Hw. destruct w; lia.
  - rewrite Hp. exact F.
Qed.

Lemma Cinv_pay g i chips :
  Cinv g -> (i < nplayers g)%nat -> 0 <= chips -> Cinv (pay g i chips true).
Proof.
  intros Hinv Hi Hc. pose proof (Cinv0_pay g i chips true (Cinv_Cinv0 g Hinv) Hi Hc) as [A B C E F].
  destruct Hinv as [_ _ _ D _ _].
  destruct (pay_view g i chips true Hi) as (_ & _ & _ & _ & Hw).
  constructor; try assumption.
  intros j Hj. rewrite pay_nplayers in Hj. rewrite Hw. destruct (Nat.eq_dec i j) as [->|Hne].
  - rewrite pay_new_wager_spec by exact Hj. lia.
  - pose proof (pay_other g i j chips true Hj Hne) as Ho. unfold chips_of in Ho. injection Ho as _ _ _ _ Ho.
    rewrite Ho. specialize (D j Hj). lia.
Qed.

(* changing only the previous raise size *)
Lemma Cinv_set_prs g x : Cinv g -> 0 <= x -> Cinv (with_st g (st_set_prs (g_st g) x)).
Proof. intros [A B C D E F] Hx. constructor; try assumption. Qed.

Lemma Cinv_neutral g g' : chips_view g' = chips_view g -> Cinv g -> Cinv g'.
Proof. intros H. apply Cinv_view. symmetry. exact H. Qed.

(* ---------- collecting the wagers: ResetAllPlayerStatus + ResetRoundStatus ---------- *)
Lemma reset_status_seat p : seat_ok p -> seat_ok (reset_player_status p) /\ p_wager (reset_player_status p) = 0.
Proof.
  intros (A & B & C & D & F). unfold reset_player_status, seat_ok.
  destruct (p_fold p); [|destruct (p_stack p =? 0)]; simpl; repeat split; lia.
Qed.

Lemma wagers_of_zero l : (forall p, In p l -> p_wager p = 0) -> wagers_of l = 0.
Proof.
  unfold wagers_of. induction l as [|p t IH]; intros H; simpl; [reflexivity|].
  rewrite (H p) by now left. rewrite IH; [reflexivity|]. intros q Hq. apply H. now right.
Qed.

Lemma Cinv_collect g :
  Cinv0 g ->
  Cinv (reset_round_status (reset_all_status g)) /\ Cinv (reset_all_status (reset_round_status g)).
Proof.
  intros [A B C E F].
  assert (Hseat : forall i, (i < nplayers g)%nat -> seat_ok (reset_player_status (get_p g i)) /\ p_wager (reset_player_status (get_p g i)) = 0).
  { intros i Hi. apply reset_status_seat. apply B. exact Hi. }
  assert (Hz : wagers_of (map reset_player_status (g_players g)) = 0).
  { apply wagers_of_zero. intros p Hp. apply in_map_iff in Hp as [q [<- Hq]].
    destruct (In_nth _ _ dflt_p Hq) as [i [Hi Hn]]. rewrite <- Hn. apply (Hseat i Hi). }
  split.
  - constructor.
    + exact A.
    + intros i Hi. unfold reset_round_status, reset_all_status in *. rewrite nplayers_with_st, nplayers_map in Hi.
      rewrite get_p_with_st, get_p_map by exact Hi. apply (Hseat i Hi).
    + simpl. symmetry. exact Hz.
    + intros i Hi. unfold reset_round_status, reset_all_status in *. rewrite nplayers_with_st, nplayers_map in Hi.
      rewrite get_p_with_st, get_p_map by exact Hi. rewrite (proj2 (Hseat i Hi)). simpl. lia.
    + simpl. lia.
    + simpl. lia.
  - constructor.
    + exact A.
    + intros i Hi. unfold reset_round_status, reset_all_status in *. rewrite nplayers_map, nplayers_with_st in Hi.
      rewrite get_p_map by (rewrite nplayers_with_st; exact Hi). rewrite get_p_with_st. apply (Hseat i Hi).
    + simpl. symmetry. exact Hz.
    + intros i Hi. unfold reset_round_status, reset_all_status in *. rewrite nplayers_map, nplayers_with_st in Hi.
      rewrite get_p_map by (rewrite nplayers_with_st; exact Hi). rewrite get_p_with_st. rewrite (proj2 (Hseat i Hi)). simpl. lia.
    + simpl. lia.
    + simpl. lia.
Qed.

(* ---------- offers: a property Q of every seat's offer list ---------- *)
Lemma get_p_overflow g i : (nplayers g <= i)%nat -> get_p g i = dflt_p.
Proof. intros H. unfold get_p. apply nth_overflow. exact H. Qed.

Section Offers.
  Variable Q : list action -> Prop.
  Hypothesis Qnil : Q [].

  Definition all_offers (g : gstate) : Prop := forall i, Q (p_allowed (get_p g i)).

  Lemma all_offers_players g g' :
    map p_allowed (g_players g') = map p_allowed (g_players g) -> all_offers g -> all_offers g'.
  Proof.
    intros H Hn i. unfold all_offers, get_p in *.
    assert (Hl : length (g_players g') = length (g_players g)) by (rewrite <- (map_length p_allowed), H, map_length; reflexivity).
    destruct (Nat.lt_ge_cases i (length (g_players g))) as [Hlt|Hge].
    - specialize (Hn i).
      change (@nil action) with (p_allowed dflt_p) in Qnil.
      rewrite <- (map_nth p_allowed) in Hn. rewrite <- (map_nth p_allowed), H. exact Hn.
    - rewrite nth_overflow by lia. exact Qnil.
  Qed.

  Lemma all_offers_map g f :
    (forall p, p_allowed (f p) = p_allowed p) -> all_offers g -> all_offers (map_p g f).
  Proof.
    intros Hf. apply all_offers_players. unfold map_p. simpl. rewrite map_map. apply map_ext. exact Hf.
  Qed.

  Lemma all_offers_upd g i f :
    (forall p, p_allowed (f p) = p_allowed p) -> all_offers g -> all_offers (upd_p g i f).
  Proof.
    intros Hf. apply all_offers_players. unfold upd_p. simpl.
    revert i. induction (g_players g) as [|x t IH]; intros [|i]; simpl; auto.
    - now rewrite Hf.
    - now rewrite IH.
  Qed.

  (* setting one seat's offer to a list satisfying Q *)
  Lemma all_offers_upd_set g i f :
    (forall p, Q (p_allowed (f p))) -> all_offers g -> all_offers (upd_p g i f).
  Proof.
    intros Hl H j. destruct (Nat.lt_ge_cases j (nplayers g)) as [Hj|Hj].
    - destruct (Nat.eq_dec i j) as [->|Hne].
      + rewrite get_p_upd_same by exact Hj. apply Hl.
      + rewrite get_p_upd_other by exact Hne. apply H.
    - rewrite get_p_overflow; [exact Qnil|]. rewrite nplayers_upd. exact Hj.
  Qed.

  Lemma all_offers_reset_all g : all_offers (reset_all g).
  Proof.
    intros i. destruct (Nat.lt_ge_cases i (nplayers g)) as [H|H].
    - unfold reset_all. rewrite get_p_map by exact H. exact Qnil.
    - rewrite get_p_overflow; [exact Qnil|]. unfold reset_all. rewrite nplayers_map. exact H.
  Qed.

  Lemma all_offers_with_st g s : all_offers g -> all_offers (with_st g s).
  Proof. intros H i. rewrite get_p_with_st. apply H. Qed.

  Lemma all_offers_round_closed g : all_offers (round_closed g).
  Proof. unfold round_closed, update_pots. apply all_offers_with_st, all_offers_reset_all. Qed.

  Lemma all_offers_request_ready g : all_offers (request_ready g).
  Proof. unfold request_ready, set_event. apply all_offers_with_st, all_offers_reset_all. Qed.

  Lemma all_offers_prepare_round g : all_offers (prepare_round g).
  Proof.
    unfold prepare_round. destruct (st_round (g_st g)); try apply all_offers_request_ready;
      destruct (Nat.leb (movable_count g) 1); try apply all_offers_round_closed; apply all_offers_request_ready.
  Qed.

  Lemma all_offers_reset_acted g : all_offers g -> all_offers (reset_acted g).
  Proof. apply all_offers_map. reflexivity. Qed.

  Lemma all_offers_become_raiser g i : all_offers g -> all_offers (become_raiser g i).
  Proof.
    intros H. unfold become_raiser. apply all_offers_upd; [reflexivity|]. apply all_offers_reset_acted, all_offers_with_st.
    apply all_offers_upd; [|exact H]. intros p. destruct (0 <? p_wager p); reflexivity.
  Qed.

  Lemma all_offers_pay g i chips w : all_offers g -> all_offers (pay g i chips w).
  Proof.
    intros H. unfold pay. destruct (p_stack (get_p g i) <=? chips).
    - destruct w.
      + match goal with |- context [if ?c then become_raiser ?g3 i else reset_acted ?g3] =>
          assert (H3 : all_offers g3) end.
        { match goal with |- context [if ?c then with_st _ _ else _] => destruct c end;
            try apply all_offers_with_st; apply all_offers_upd; try reflexivity; apply all_offers_with_st, H. }
        match goal with |- context [if ?c then become_raiser _ _ else _] => destruct c end;
          [apply all_offers_become_raiser|apply all_offers_reset_acted]; exact H3.
      + apply all_offers_upd; [reflexivity|]. apply all_offers_with_st, H.
    - destruct (w && _).
      + apply all_offers_become_raiser, all_offers_with_st, all_offers_with_st. apply all_offers_upd; [reflexivity|exact H].
      + apply all_offers_with_st. apply all_offers_upd; [reflexivity|exact H].
  Qed.

  Lemma all_offers_reset_all_status g : all_offers (reset_all_status g).
  Proof.
    intros i. destruct (Nat.lt_ge_cases i (nplayers g)) as [H|H].
    - unfold reset_all_status. rewrite get_p_map by exact H. unfold reset_player_status.
      destruct (p_fold _); [|destruct (_ =? 0)]; exact Qnil.
    - rewrite get_p_overflow; [exact Qnil|]. unfold reset_all_status. rewrite nplayers_map. exact H.
  Qed.

  Lemma all_offers_update_combs g : all_offers g -> all_offers (update_combs g).
  Proof.
    apply all_offers_map. intros p. unfold update_comb. destruct (p_comb p); [|reflexivity].
    destruct (best_power _ _ _ _); reflexivity.
  Qed.

  Lemma all_offers_enter_preflop g : all_offers g -> all_offers (fst (enter_preflop g)).
  Proof.
    intros H. unfold enter_preflop. destruct (negb (deck_has g _)); [exact H|].
    match goal with |- context [if ?c then _ else _] => destruct c end; cbn [fst].
    - apply all_offers_prepare_round.
    - unfold set_event. apply all_offers_with_st, all_offers_update_combs.
      eapply all_offers_players; [|exact H]. simpl.
      assert (G : forall ps deck h, map p_allowed (deal_holes ps deck h) = map p_allowed ps).
      { induction ps as [|p t IH]; intros deck h; simpl; [reflexivity|]. now rewrite IH. }
      apply G.
  Qed.

  Lemma all_offers_enter_street g r : all_offers g -> all_offers (fst (enter_street g r)).
  Proof.
    intros H. unfold enter_street. destruct (negb (deck_has g _)); [exact H|]. cbn [fst]. apply all_offers_prepare_round.
  Qed.

  Lemma all_offers_game_completed g : all_offers g -> all_offers (fst (game_completed g)).
  Proof.
    intros H. unfold game_completed. destruct (settle_panics _ _); [exact H|]. cbn [fst].
    unfold set_event, with_result, update_pots. intros i. apply H.
  Qed.

  (* the operations that make an offer need Q of every computed offer *)
  Hypothesis Qavail : forall s p, Q (available_actions s p).

  Lemma all_offers_set_current g i : all_offers g -> all_offers (set_current g i).
  Proof.
    intros H. unfold set_current. apply all_offers_upd_set; [intros p; apply Qavail|].
    apply all_offers_with_st. apply all_offers_upd_set; [intros p; exact Qnil|exact H].
  Qed.

  Lemma all_offers_request_action g : all_offers g -> all_offers (request_action g).
  Proof.
    intros H. unfold request_action.
    destruct (Nat.eqb (alive_count g) 1); [apply all_offers_round_closed|].
    destruct (Nat.eqb (movable_count g) 0); [apply all_offers_round_closed|].
    destruct (p_acted _); [apply all_offers_round_closed|apply all_offers_set_current; exact H].
  Qed.

  Lemma all_offers_resume g : all_offers g -> all_offers (resume g).
  Proof.
    intros H. unfold resume. destruct (st_event (g_st g)); try exact H;
      [apply all_offers_request_action; exact H|apply all_offers_round_closed].
  Qed.

  Lemma all_offers_find_bb_loop n g : all_offers g -> all_offers (find_bb_loop n g).
  Proof.
    revert g; induction n as [|n IH]; intros g H; simpl; [exact H|].
    destruct (p_bb _); [apply all_offers_set_current; exact H|]. apply IH, all_offers_set_current, H.
  Qed.

  Lemma all_offers_start_round g : all_offers (start_round g).
  Proof.
    unfold start_round.
    destruct (st_round (g_st (reset_all g))).
    all: try (apply all_offers_request_action; unfold set_event; apply all_offers_with_st, all_offers_set_current, all_offers_reset_all).
    destruct (Nat.eqb (movable_count (reset_all g)) 0); [apply all_offers_round_closed|].
    apply all_offers_request_action. unfold set_event. apply all_offers_with_st, all_offers_find_bb_loop, all_offers_set_current, all_offers_reset_all.
  Qed.
End Offers.

Definition no_offers : gstate -> Prop := all_offers (fun l => l = []).
Definition no_pay : gstate -> Prop := all_offers (fun l => existsb (action_eqb APay) l = false).

Lemma available_no_pay s p : existsb (action_eqb APay) (available_actions s p) = false.
Proof.
  unfold available_actions.
  destruct (p_fold p); [reflexivity|]. destruct (p_stack p =? 0); [reflexivity|].
  destruct (p_wager p <? st_cw s), (st_cw s <? p_initial p), (st_cw s + st_prs s <? p_initial p),
    (st_minibet s <=? p_initial p), (st_cw s =? 0); reflexivity.
Qed.

Lemma no_offers_no_pay g : no_offers g -> no_pay g.
Proof. intros H i. rewrite (H i). reflexivity. Qed.

(* an accepted action presupposes an offer *)
Lemma allowed_offer g i a : allowed g i a = true -> p_allowed (get_p g i) <> [].
Proof. unfold allowed. intros H E. rewrite E in H. discriminate. Qed.

(* ---------- the invariant ---------- *)
Definition wagers_le (g : gstate) : Prop := forall i, (i < nplayers g)%nat -> p_wager (get_p g i) <= st_cw (g_st g).

Record Inv (g : gstate) : Prop := mkInv {
  inv_chips : Cinv0 g;
  inv_offers : st_event (g_st g) <> EvRoundStarted -> no_offers g;
  inv_nopay : no_pay g;
  inv_le : wagers_le g \/ st_event (g_st g) = EvAnteRequested }.

Lemma Inv_Cinv g : Inv g -> st_event (g_st g) <> EvAnteRequested -> Cinv g.
Proof.
  intros [[A B C E F] _ _ [L|L]] H; [|contradiction]. constructor; assumption.
Qed.

Lemma Cinv_wagers_le g : Cinv g -> wagers_le g.
Proof. intros [A B C D E F]. exact D. Qed.

Lemma nplayers_cv g g' : chips_view g' = chips_view g -> nplayers g' = nplayers g.
Proof.
  intros H. destruct (cv_parts _ _ H) as (_ & Hp & _). unfold cv_players, nplayers in *.
  rewrite <- (map_length chips_of (g_players g')), Hp, map_length. reflexivity.
Qed.

Lemma Cinv0_view g g' : chips_view g' = chips_view g -> Cinv0 g -> Cinv0 g'.
Proof.
  intros H [A B C E F]. destruct (cv_parts _ _ H) as (H1 & H2 & H3 & H4 & H5).
  assert (Hn : nplayers g' = nplayers g) by (apply nplayers_cv; exact H).
  assert (Hc : forall i, (i < nplayers g)%nat -> chips_of (get_p g' i) = chips_of (get_p g i)).
  { intros i Hi. rewrite !get_p_cv by (rewrite ?Hn; exact Hi). now rewrite H2. }
  constructor.
  - now rewrite H1.
  - intros i Hi. rewrite Hn in Hi. eapply seat_ok_chips; [symmetry; apply Hc; exact Hi|]. apply B. exact Hi.
  - rewrite H3, C. apply wagers_of_chips. symmetry. exact H2.
  - now rewrite H4.
  - now rewrite H5.
Qed.

Definition noPay (l : list action) : Prop := existsb (action_eqb APay) l = false.
Lemma noPay_nil : noPay []. Proof. reflexivity. Qed.
Lemma isNil_nil : (fun l : list action => l = []) []. Proof. reflexivity. Qed.

(* building Inv for a state whose chips are those of a state satisfying Cinv *)
Lemma Inv_from_Cinv g' :
  Cinv g' -> (st_event (g_st g') <> EvRoundStarted -> no_offers g') -> no_pay g' -> Inv g'.
Proof.
  intros Hc Ho Hp. constructor; [apply Cinv_Cinv0; exact Hc|exact Ho|exact Hp|left; apply Cinv_wagers_le; exact Hc].
Qed.

(* ---------- ReadyForAll ---------- *)
Lemma event_set_current g i : st_event (g_st (set_current g i)) = st_event (g_st g).
Proof. reflexivity. Qed.

Lemma request_action_offers g :
  st_event (g_st g) = EvRoundStarted ->
  st_event (g_st (request_action g)) <> EvRoundStarted -> no_offers (request_action g).
Proof.
  intros He. unfold request_action.
  destruct (Nat.eqb (alive_count g) 1); [intros _; apply all_offers_round_closed; reflexivity|].
  destruct (Nat.eqb (movable_count g) 0); [intros _; apply all_offers_round_closed; reflexivity|].
  destruct (p_acted _); [intros _; apply all_offers_round_closed; reflexivity|].
  rewrite event_set_current, He. intros H. contradiction.
Qed.

Lemma start_round_offers g :
  st_event (g_st (start_round g)) <> EvRoundStarted -> no_offers (start_round g).
Proof.
  unfold start_round.
  destruct (st_round (g_st (reset_all g))).
  all: try (apply request_action_offers; reflexivity).
  destruct (Nat.eqb (movable_count (reset_all g)) 0); [intros _; apply all_offers_round_closed; reflexivity|].
  apply request_action_offers. reflexivity.
Qed.

Lemma Inv_do_ready g : Inv g -> Inv (fst (do_ready g)).
Proof.
  intros HI. unfold do_ready.
  destruct (event_eqb (st_event (g_st g)) EvReadyRequested) eqn:Ee; [|exact HI]. cbn [negb].
  assert (He : st_event (g_st g) = EvReadyRequested) by (destruct (st_event (g_st g)); try discriminate; reflexivity).
  assert (Hc : Cinv g) by (apply Inv_Cinv; [exact HI|rewrite He; discriminate]).
  assert (Hr : Cinv (reset_all g)) by (eapply Cinv_neutral; [apply cv_reset_all|exact Hc]).
  destruct (st_round (g_st (reset_all g))) eqn:Er.
  - destruct (0 <? m_ante (g_meta (reset_all g))); cbn [fst].
    + constructor.
      * apply Cinv_Cinv0. eapply Cinv_neutral; [apply cv_set_event|exact Hr].
      * intros _. unfold set_event. apply all_offers_with_st, all_offers_reset_all. reflexivity.
      * apply no_offers_no_pay. unfold set_event. apply all_offers_with_st, all_offers_reset_all. reflexivity.
      * right. reflexivity.
    + apply Inv_from_Cinv.
      * eapply Cinv_neutral; [apply cv_enter_preflop|exact Hr].
      * intros _. apply all_offers_enter_preflop; [reflexivity|]. apply all_offers_reset_all. reflexivity.
      * apply no_offers_no_pay. apply all_offers_enter_preflop; [reflexivity|]. apply all_offers_reset_all. reflexivity.
  - cbn [fst]. apply Inv_from_Cinv.
    + eapply Cinv_neutral; [apply cv_start_round|exact Hr].
    + apply start_round_offers.
    + apply all_offers_start_round; [exact noPay_nil|apply available_no_pay].
  - cbn [fst]. apply Inv_from_Cinv.
    + eapply Cinv_neutral; [apply cv_start_round|exact Hr].
    + apply start_round_offers.
    + apply all_offers_start_round; [exact noPay_nil|apply available_no_pay].
  - cbn [fst]. apply Inv_from_Cinv.
    + eapply Cinv_neutral; [apply cv_start_round|exact Hr].
    + apply start_round_offers.
    + apply all_offers_start_round; [exact noPay_nil|apply available_no_pay].
  - cbn [fst]. apply Inv_from_Cinv.
    + eapply Cinv_neutral; [apply cv_start_round|exact Hr].
    + apply start_round_offers.
    + apply all_offers_start_round; [exact noPay_nil|apply available_no_pay].
Qed.

(* ---------- PayAnte ---------- *)
Lemma player_order_lt g i : In i (player_order g) -> (i < nplayers g)%nat.
Proof.
  unfold player_order, rotate. intros H.
  assert (In i (seq 0 (nplayers g))).
  { rewrite <- (firstn_skipn (dealer_of g) (seq 0 (nplayers g))). apply in_or_app. apply in_app_or in H. tauto. }
  apply in_seq in H0. lia.
Qed.

Lemma event_pay g i chips w : st_event (g_st (pay g i chips w)) = st_event (g_st g).
Proof.
  unfold pay, become_raiser, reset_acted, map_p, upd_p, with_st, with_players.
  repeat match goal with |- context [if ?c then _ else _] => destruct c end; reflexivity.
Qed.

Lemma ante_loop_inv order : forall g,
  (forall i, In i order -> (i < nplayers g)%nat) -> Cinv0 g -> no_offers g -> 0 <= m_ante (g_meta g) ->
  Cinv0 (fst (ante_loop order g)) /\ no_offers (fst (ante_loop order g)) /\
  st_event (g_st (fst (ante_loop order g))) = st_event (g_st g).
Proof.
  induction order as [|i t IH]; intros g Hord Hc Ho Ha; simpl; [auto|].
  destruct (0 <? p_wager (get_p g i)); [simpl; auto|].
  set (g1 := pay g i (m_ante (g_meta g)) false).
  assert (Hi : (i < nplayers g)%nat) by (apply Hord; now left).
  assert (Hc1 : Cinv0 g1) by (apply Cinv0_pay; assumption).
  set (g2 := set_last g1 (zn i) LAnte (p_wager (get_p g1 i))).
  assert (Hm : g_meta g2 = g_meta g) by (unfold g2, g1; apply (proj1 (pay_view g i _ false Hi))).
  specialize (IH g2).
  destruct IH as (I1 & I2 & I3).
  - intros j Hj. unfold g2, set_last. rewrite nplayers_with_st. unfold g1. rewrite pay_nplayers. apply Hord. now right.
  - eapply Cinv0_view; [|exact Hc1]. reflexivity.
  - unfold g2, set_last. apply all_offers_with_st. apply all_offers_pay; [reflexivity|exact Ho].
  - rewrite Hm. exact Ha.
  - split; [exact I1|split; [exact I2|]].
    rewrite I3. unfold g2, set_last. simpl. apply event_pay.
Qed.

Lemma Inv_do_pay_ante g : Inv g -> Inv (fst (do_pay_ante g)).
Proof.
  intros HI. unfold do_pay_ante.
  destruct (m_ante (g_meta g) =? 0) eqn:Ea; [exact HI|].
  destruct (event_eqb (st_event (g_st g)) EvAnteRequested) eqn:Ee; [|exact HI]. cbn [negb].
  assert (He : st_event (g_st g) = EvAnteRequested) by (destruct (st_event (g_st g)); try discriminate; reflexivity).
  destruct HI as [Hc Ho Hp Hl].
  assert (Hno : no_offers g) by (apply Ho; rewrite He; discriminate).
  assert (Hante : 0 <= m_ante (g_meta g)) by (destruct Hc as [[A _] _ _ _ _]; exact A).
  pose proof (ante_loop_inv (player_order g) g (player_order_lt g) Hc Hno Hante) as (I1 & I2 & I3).
  destruct (ante_loop (player_order g) g) as [g1 b]. cbn [fst] in *.
  destruct b; cbn [fst].
  - (* everybody paid: pots published, wagers collected, preflop entered *)
    set (g2 := update_pots (reset_all g1)).
    assert (Hc2 : Cinv0 g2) by (eapply Cinv0_view; [|exact I1]; unfold g2; rewrite cv_update_pots; apply cv_reset_all).
    destruct (Cinv_collect g2 Hc2) as [Hc3 _].
    apply Inv_from_Cinv.
    + eapply Cinv_neutral; [apply cv_enter_preflop|exact Hc3].
    + intros _. apply all_offers_enter_preflop; [reflexivity|].
      unfold reset_round_status. apply all_offers_with_st. apply all_offers_reset_all_status. reflexivity.
    + apply no_offers_no_pay. apply all_offers_enter_preflop; [reflexivity|].
      unfold reset_round_status. apply all_offers_with_st. apply all_offers_reset_all_status. reflexivity.
  - (* a seat had chips in front of it already: refused half-way (never happens in play) *)
    constructor; [exact I1|intros _; exact I2|apply no_offers_no_pay; exact I2|right; rewrite I3; exact He].
Qed.

(* ---------- PayBlinds ---------- *)
Lemma blind_amount_nonneg m p : meta_ok m -> 0 <= fst (blind_of m p).
Proof.
  intros (A & B & C & D). unfold blind_of.
  destruct ((0 <? m_bbb m) && p_bb p); [simpl; lia|].
  destruct ((0 <? m_bsb m) && p_sb p); [simpl; lia|].
  destruct ((0 <? m_bdealer m) && p_dealer p); simpl; lia.
Qed.

Lemma Cinv_pay_blind g i : Cinv g -> (i < nplayers g)%nat -> Cinv (pay_blind g i) /\ nplayers (pay_blind g i) = nplayers g.
Proof.
  intros Hc Hi. unfold pay_blind.
  pose proof (blind_amount_nonneg (g_meta g) (get_p g i) (ci_meta g Hc)) as Hb.
  destruct (blind_of (g_meta g) (get_p g i)) as [amount t]. simpl in Hb.
  assert (Hs : 0 <= p_stack (get_p g i)) by (destruct (ci_seats g Hc i Hi) as (_ & _ & S & _); exact S).
  split.
  - eapply Cinv_neutral; [apply cv_set_last|]. apply Cinv_pay; [exact Hc|exact Hi|].
    destruct (p_stack (get_p g i) <? amount); lia.
  - unfold set_last. rewrite nplayers_with_st. apply pay_nplayers.
Qed.

Lemma fold_pay_blind order : forall g,
  (forall i, In i order -> (i < nplayers g)%nat) -> Cinv g -> no_offers g ->
  Cinv (fold_left pay_blind order g) /\ no_offers (fold_left pay_blind order g).
Proof.
  induction order as [|i t IH]; intros g Hord Hc Ho; simpl; [auto|].
  assert (Hi : (i < nplayers g)%nat) by (apply Hord; now left).
  destruct (Cinv_pay_blind g i Hc Hi) as [Hc1 Hn1].
  apply IH.
  - intros j Hj. rewrite Hn1. apply Hord. now right.
  - exact Hc1.
  - unfold pay_blind. destruct (blind_of _ _) as [amount ty]. unfold set_last.
    apply all_offers_with_st. apply all_offers_pay; [reflexivity|exact Ho].
Qed.

Lemma Inv_do_pay_blinds g : Inv g -> Inv (fst (do_pay_blinds g)).
Proof.
  intros HI. unfold do_pay_blinds.
  destruct (event_eqb (st_event (g_st g)) EvBlindsRequested) eqn:Ee; [|exact HI]. cbn [negb fst].
  assert (He : st_event (g_st g) = EvBlindsRequested) by (destruct (st_event (g_st g)); try discriminate; reflexivity).
  assert (Hc : Cinv g) by (apply Inv_Cinv; [exact HI|rewrite He; discriminate]).
  assert (Hno : no_offers g) by (apply (inv_offers g HI); rewrite He; discriminate).
  destruct (fold_pay_blind (player_order g) g (player_order_lt g) Hc Hno) as [Hc1 Ho1].
  set (g1 := fold_left pay_blind (player_order g) g) in *.
  assert (Hprs : 0 <= (if 0 <? m_bbb (g_meta g1) then m_bbb (g_meta g1) else m_bdealer (g_meta g1))).
  { destruct (ci_meta g1 Hc1) as (_ & B & _ & D). destruct (0 <? m_bbb (g_meta g1)); lia. }
  apply Inv_from_Cinv.
  - eapply Cinv_neutral; [apply cv_prepare_round|]. eapply Cinv_neutral; [apply cv_reset_all|].
    apply Cinv_set_prs; assumption.
  - intros _. apply all_offers_prepare_round. reflexivity.
  - apply no_offers_no_pay. apply all_offers_prepare_round. reflexivity.
Qed.

(* ---------- Next ---------- *)
Lemma Inv_do_next g : Inv g -> Inv (fst (do_next g)).
Proof.
  intros HI. unfold do_next.
  destruct (event_eqb (st_event (g_st g)) EvRoundClosed) eqn:Ee; [|exact HI]. cbn [negb].
  assert (He : st_event (g_st g) = EvRoundClosed) by (destruct (st_event (g_st g)); try discriminate; reflexivity).
  assert (Hc : Cinv g) by (apply Inv_Cinv; [exact HI|rewrite He; discriminate]).
  assert (Hno : no_offers g) by (apply (inv_offers g HI); rewrite He; discriminate).
  set (g0 := set_last g (-1) LNext 0).
  assert (Hc0 : Cinv0 g0) by (apply Cinv_Cinv0; eapply Cinv_neutral; [apply cv_set_last|exact Hc]).
  destruct (Cinv_collect g0 Hc0) as [_ Hc1].
  set (g1 := reset_all_status (reset_round_status g0)) in *.
  assert (Ho1 : no_offers g1) by (apply all_offers_reset_all_status; reflexivity).
  assert (Hgc : Inv (fst (game_completed g1))).
  { apply Inv_from_Cinv.
    - eapply Cinv_neutral; [apply cv_game_completed|exact Hc1].
    - intros _. apply all_offers_game_completed. exact Ho1.
    - apply no_offers_no_pay. apply all_offers_game_completed. exact Ho1. }
  assert (Hst : forall r, Inv (fst (enter_street g1 r))).
  { intros r. apply Inv_from_Cinv.
    - eapply Cinv_neutral; [apply cv_enter_street|exact Hc1].
    - intros _. apply all_offers_enter_street; [reflexivity|exact Ho1].
    - apply no_offers_no_pay. apply all_offers_enter_street; [reflexivity|exact Ho1]. }
  destruct (st_round (g_st g0)) eqn:Er.
  - cbn [fst]. apply Inv_from_Cinv.
    + eapply Cinv_neutral; [apply cv_set_last|exact Hc].
    + intros _. unfold g0, set_last. apply all_offers_with_st. exact Hno.
    + apply no_offers_no_pay. unfold g0, set_last. apply all_offers_with_st. exact Hno.
  - destruct (Nat.eqb (alive_count g1) 1).
    + pose proof Hgc as H. destruct (game_completed g1) as [g2 [| | | | | | | |]]; cbn [fst] in *; try exact H; exact HI.
    + pose proof (Hst Flop) as H. destruct (enter_street g1 Flop) as [g2 [| | | | | | | |]]; cbn [fst] in *; try exact H; exact HI.
  - destruct (Nat.eqb (alive_count g1) 1).
    + pose proof Hgc as H. destruct (game_completed g1) as [g2 [| | | | | | | |]]; cbn [fst] in *; try exact H; exact HI.
    + pose proof (Hst Turn) as H. destruct (enter_street g1 Turn) as [g2 [| | | | | | | |]]; cbn [fst] in *; try exact H; exact HI.
  - destruct (Nat.eqb (alive_count g1) 1).
    + pose proof Hgc as H. destruct (game_completed g1) as [g2 [| | | | | | | |]]; cbn [fst] in *; try exact H; exact HI.
    + pose proof (Hst River) as H. destruct (enter_street g1 River) as [g2 [| | | | | | | |]]; cbn [fst] in *; try exact H; exact HI.
  - destruct (Nat.eqb (alive_count g1) 1).
    + pose proof Hgc as H. destruct (game_completed g1) as [g2 [| | | | | | | |]]; cbn [fst] in *; try exact H; exact HI.
    + pose proof Hgc as H. destruct (game_completed g1) as [g2 [| | | | | | | |]]; cbn [fst] in *; try exact H; exact HI.
Qed.

(* ---------- player actions ---------- *)
Lemma action_context g i a :
  Inv g -> allowed g i a = true -> st_event (g_st g) = EvRoundStarted /\ Cinv g.
Proof.
  intros HI Ha.
  assert (He : st_event (g_st g) = EvRoundStarted).
  { destruct (st_event (g_st g)) eqn:E; try reflexivity;
      exfalso; apply (allowed_offer g i a Ha); apply (inv_offers g HI); rewrite E; discriminate. }
  split; [exact He|]. apply Inv_Cinv; [exact HI|rewrite He; discriminate].
Qed.

Record Ready (g : gstate) : Prop := mkReady {
  rd_chips : Cinv g;
  rd_event : st_event (g_st g) = EvRoundStarted;
  rd_nopay : no_pay g }.

Lemma Inv_resume g : Ready g -> Inv (resume g).
Proof.
  intros [Hc He Hp]. unfold resume. rewrite He. apply Inv_from_Cinv.
  - eapply Cinv_neutral; [apply cv_request_action|exact Hc].
  - apply request_action_offers. exact He.
  - apply all_offers_request_action; [exact noPay_nil|apply available_no_pay|exact Hp].
Qed.

Lemma Ready_of_Inv g i a : Inv g -> allowed g i a = true -> Ready g.
Proof. intros HI Ha. destruct (action_context g i a HI Ha) as [He Hc]. constructor; [exact Hc|exact He|apply (inv_nopay g HI)]. Qed.

Lemma Ready_upd g i f :
  (forall p, chips_of (f p) = chips_of p) -> (forall p, p_allowed (f p) = p_allowed p) -> Ready g -> Ready (upd_p g i f).
Proof.
  intros H1 H2 [Hc He Hp]. constructor.
  - eapply Cinv_neutral; [apply cv_upd_neutral; exact H1|exact Hc].
  - exact He.
  - apply all_offers_upd; [exact noPay_nil|exact H2|exact Hp].
Qed.

Lemma Ready_set_last g a t v : Ready g -> Ready (set_last g a t v).
Proof.
  intros [Hc He Hp]. constructor; [eapply Cinv_neutral; [apply cv_set_last|exact Hc]|exact He|].
  unfold set_last. apply all_offers_with_st. exact Hp.
Qed.

Lemma Ready_set_prs g x : Ready g -> 0 <= x -> Ready (with_st g (st_set_prs (g_st g) x)).
Proof.
  intros [Hc He Hp] Hx. constructor; [apply Cinv_set_prs; assumption|exact He|apply all_offers_with_st; exact Hp].
Qed.

Lemma Ready_pay g i chips : Ready g -> (i < nplayers g)%nat -> 0 <= chips -> Ready (pay g i chips true).
Proof.
  intros [Hc He Hp] Hi Hx. constructor.
  - apply Cinv_pay; assumption.
  - rewrite event_pay. exact He.
  - apply all_offers_pay; [exact noPay_nil|exact Hp].
Qed.

Lemma Inv_act_pass g i : Inv g -> Inv (fst (act_pass g i)).
Proof.
  intros HI. unfold act_pass. destruct (allowed g i APass) eqn:Ha; [|exact HI]. cbn [negb fst].
  apply Inv_resume, Ready_set_last, Ready_upd; try reflexivity. exact (Ready_of_Inv g i APass HI Ha).
Qed.

Lemma Inv_act_fold g i : Inv g -> Inv (fst (act_fold g i)).
Proof.
  intros HI. unfold act_fold. destruct (allowed g i AFold) eqn:Ha; [|exact HI]. cbn [negb fst].
  apply Inv_resume, Ready_set_last, Ready_upd; try reflexivity. exact (Ready_of_Inv g i AFold HI Ha).
Qed.

Lemma Inv_act_check g i : Inv g -> Inv (fst (act_check g i)).
Proof.
  intros HI. unfold act_check. destruct (allowed g i ACheck) eqn:Ha; [|exact HI]. cbn [negb fst].
  apply Inv_resume, Ready_set_last, Ready_upd; try reflexivity. exact (Ready_of_Inv g i ACheck HI Ha).
Qed.

Lemma Inv_act_call g i : (i < nplayers g)%nat -> Inv g -> Inv (fst (act_call g i)).
Proof.
  intros Hi HI. unfold act_call. destruct (allowed g i ACall) eqn:Ha; [|exact HI]. cbn [negb fst].
  pose proof (Ready_of_Inv g i ACall HI Ha) as HR.
  pose proof (ci_le g (rd_chips g HR) i Hi) as Hle.
  apply Inv_resume, Ready_set_last, Ready_pay.
  - apply Ready_upd; try reflexivity. exact HR.
  - rewrite nplayers_upd. exact Hi.
  - destruct (st_cw (g_st g) <? m_bbb (g_meta g)) eqn:E; [apply Z.ltb_lt in E|]; lia.
Qed.

Lemma Inv_act_allin g i : (i < nplayers g)%nat -> Inv g -> Inv (fst (act_allin g i)).
Proof.
  intros Hi HI. unfold act_allin. destruct (allowed g i AAllin) eqn:Ha; [|exact HI]. cbn [negb fst].
  pose proof (Ready_of_Inv g i AAllin HI Ha) as HR.
  set (g1 := upd_p g i (fun p => p_set_acted (p_set_did p DAllin) true)).
  assert (HR1 : Ready g1) by (apply Ready_upd; try reflexivity; exact HR).
  assert (Hi1 : (i < nplayers g1)%nat) by (unfold g1; rewrite nplayers_upd; exact Hi).
  assert (Hs : 0 <= p_stack (get_p g1 i)) by (destruct (ci_seats g1 (rd_chips g1 HR1) i Hi1) as (_ & _ & S & _); exact S).
  apply Inv_resume, Ready_set_last.
  destruct (st_prs (g_st g1) <=? p_initial (get_p g1 i) - st_cw (g_st g1)) eqn:E.
  - apply Ready_pay; [|exact Hi1|exact Hs].
    apply Ready_set_prs; [exact HR1|]. apply Z.leb_le in E. pose proof (ci_prs g1 (rd_chips g1 HR1)). lia.
  - apply Ready_pay; [exact HR1|exact Hi1|exact Hs].
Qed.

Lemma Inv_act_bet g i x : (i < nplayers g)%nat -> Inv g -> Inv (fst (act_bet g i x)).
Proof.
  intros Hi HI. unfold act_bet. destruct (allowed g i ABet) eqn:Ha; [|exact HI]. cbn [negb].
  destruct (x <=? 0) eqn:Ex; [exact HI|]. apply Z.leb_gt in Ex.
  destruct (p_stack (get_p g i) <=? x); [apply Inv_act_allin; assumption|]. cbn [fst].
  pose proof (Ready_of_Inv g i ABet HI Ha) as HR.
  apply Inv_resume, Ready_set_last, Ready_set_prs; [|lia].
  apply Ready_pay; [|rewrite nplayers_upd; exact Hi|lia].
  apply Ready_upd; try reflexivity. exact HR.
Qed.

Lemma Inv_act_raise g i x : (i < nplayers g)%nat -> Inv g -> Inv (fst (act_raise g i x)).
Proof.
  intros Hi HI. unfold act_raise. destruct (allowed g i ARaise) eqn:Ha; [|exact HI]. cbn [negb].
  destruct ((x =? 0) || (x <? st_cw (g_st g))) eqn:E1; [exact HI|].
  apply orb_false_elim in E1 as [_ E1]. apply Z.ltb_ge in E1.
  destruct (x =? st_cw (g_st g)) eqn:E2; [apply Inv_act_call; assumption|]. apply Z.eqb_neq in E2.
  destruct ((p_initial (get_p g i) <=? x) || (x - st_cw (g_st g) <? st_prs (g_st g))); [apply Inv_act_allin; assumption|].
  cbn [fst].
  pose proof (Ready_of_Inv g i ARaise HI Ha) as HR.
  pose proof (ci_le g (rd_chips g HR) i Hi) as Hle.
  pose proof (ci_prs g (rd_chips g HR)) as Hprs.
  pose proof (ci_cw g (rd_chips g HR)) as Hcw.
  set (capped := m_limit_pot (g_meta g) && (st_cw (g_st g) + st_prs (g_st g) <? x - st_cw (g_st g))).
  apply Inv_resume, Ready_set_last, Ready_pay.
  - apply (Ready_set_prs (upd_p g i (fun p => p_set_acted (p_set_did p DRaise) true))).
    + apply Ready_upd; try reflexivity. exact HR.
    + destruct capped; lia.
  - rewrite nplayers_with_st, nplayers_upd. exact Hi.
  - destruct capped; lia.
Qed.

Lemma Inv_act_pay g i x : Inv g -> Inv (fst (act_pay g i x)).
Proof.
  intros HI. unfold act_pay. destruct (allowed g i APay) eqn:Ha; [|exact HI].
  exfalso. pose proof (inv_nopay g HI i) as Hn. unfold allowed in Ha. simpl in Hn. rewrite Hn in Ha. discriminate.
Qed.

(* ---------- every operation, every argument ---------- *)
Theorem Inv_step g o : Inv g -> Inv (fst (step g o)).
Proof.
  intros HI. destruct o as [| | | |who a x]; simpl.
  - apply Inv_do_ready; exact HI.
  - apply Inv_do_pay_ante; exact HI.
  - apply Inv_do_pay_blinds; exact HI.
  - apply Inv_do_next; exact HI.
  - set (i := match who with Some i => i | None => st_cur (g_st g) end).
    destruct (Nat.ltb i (nplayers g)) eqn:E; [|exact HI]. apply Nat.ltb_lt in E. cbn [negb].
    destruct a.
    + apply Inv_act_pass; exact HI.
    + apply Inv_act_fold; exact HI.
    + apply Inv_act_check; exact HI.
    + apply Inv_act_call; assumption.
    + apply Inv_act_allin; assumption.
    + apply Inv_act_bet; assumption.
    + apply Inv_act_raise; assumption.
    + apply Inv_act_pay; exact HI.
Qed.

Theorem Inv_run ops : forall g, Inv g -> Inv (run g ops).
Proof.
  unfold run. induction ops as [|o t IH]; intros g HI; simpl; [exact HI|]. apply IH, Inv_step, HI.
Qed.

(* ---------- creation ---------- *)
Definition cfg_ok (c : config) : Prop :=
  0 <= c_ante c /\ 0 <= c_bdealer c /\ 0 <= c_bsb c /\ 0 <= c_bbb c.

Lemma init_player_seat x : 0 < fst x -> seat_ok (init_player x) /\ p_wager (init_player x) = 0 /\ p_allowed (init_player x) = [].
Proof. destruct x as [bk [[d sb] bb]]. simpl. intros H. unfold seat_ok. simpl. repeat split; lia. Qed.

Theorem Inv_create c deck g : cfg_ok c -> create c deck = (g, Ok) -> Inv g.
Proof.
  intros (A & B & C & D) Hcr. unfold create in Hcr.
  destruct (Nat.ltb (length (map init_player (c_players c))) 2); [discriminate|].
  destruct (dealer_opt _); [|discriminate].
  destruct (existsb (fun p => p_bankroll p <=? 0) (map init_player (c_players c))) eqn:Eb; [discriminate|].
  destruct (Nat.eqb (length (c_deck c)) 0); [discriminate|].
  destruct (Nat.ltb (length (c_deck c)) _); [discriminate|].
  injection Hcr as <-.
  set (ps := map init_player (c_players c)) in *.
  assert (Hpos : forall p, In p ps -> 0 < p_bankroll p).
  { intros p Hp. destruct (p_bankroll p <=? 0) eqn:E; [|apply Z.leb_gt in E; exact E].
    exfalso. assert (existsb (fun p => p_bankroll p <=? 0) ps = true) by (apply existsb_exists; exists p; auto). congruence. }
  assert (Hseat : forall p, In p ps -> seat_ok p /\ p_wager p = 0).
  { intros p Hp. pose proof (Hpos p Hp) as Hb. unfold ps in Hp. apply in_map_iff in Hp as [x [<- Hx]].
    assert (0 < fst x) by (destruct x as [bk [[d sb] bb]]; exact Hb).
    destruct (init_player_seat x H) as (S1 & S2 & _). auto. }
  match goal with |- Inv (request_ready ?g0) => set (gr := g0) end.
  assert (Hps : g_players gr = ps) by reflexivity.
  assert (Hc : Cinv gr).
  { constructor; simpl.
    - repeat split; assumption.
    - intros i Hi. unfold nplayers in Hi. rewrite Hps in Hi. unfold get_p. rewrite Hps. apply Hseat. apply nth_In. exact Hi.
    - symmetry. apply wagers_of_zero. intros p Hp. apply (Hseat p Hp).
    - intros i Hi. unfold nplayers in Hi. rewrite Hps in Hi. unfold get_p. rewrite Hps.
      rewrite (proj2 (Hseat _ (nth_In ps dflt_p Hi))). lia.
    - lia.
    - lia. }
  apply Inv_from_Cinv.
  - eapply Cinv_neutral; [apply cv_request_ready|exact Hc].
  - intros _. apply all_offers_request_ready. reflexivity.
  - apply no_offers_no_pay. apply all_offers_request_ready. reflexivity.
Qed.

(* every reachable state *)
Theorem Inv_reachable c deck g ops : cfg_ok c -> create c deck = (g, Ok) -> Inv (run g ops).
Proof. intros Hc Hcr. apply Inv_run. eapply Inv_create; eassumption. Qed.
