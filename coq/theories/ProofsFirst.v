(* ProofsFirst.v — who acts first on each street (C04): left of the big blind before the flop,
   left of the dealer on later streets. *)
From Coq Require Import Lia.
From PF Require Import Base ProofsBase Comb ModelPot ModelSettle ModelEval ModelGame
                       ProofsGameBasic ProofsChips ProofsInv ProofsPos ProofsOffers.

(* the seat to the left of seat c at a table of n *)
Definition left_of (n c : nat) : nat := if Nat.eqb (S c) n then 0%nat else S c.

Lemma next_idx_left g : next_idx g = left_of (nplayers g) (st_cur (g_st g)).
Proof. reflexivity. Qed.

Lemma left_of_mod n c : (c < n)%nat -> left_of n c = (S c mod n)%nat.
Proof.
  intros H. unfold left_of. destruct (Nat.eqb (S c) n) eqn:E.
  - apply Nat.eqb_eq in E. rewrite E. symmetry. apply Nat.mod_same. lia.
  - apply Nat.eqb_neq in E. symmetry. apply Nat.mod_small. lia.
Qed.

Lemma cur_set_current g i : st_cur (g_st (set_current g i)) = i.
Proof. reflexivity. Qed.

(* the search for the big blind stops at the first seat, going clockwise from the cursor, that holds it *)
Lemma find_bb_loop_finds fuel : forall g k,
  (st_cur (g_st g) < nplayers g)%nat -> (1 <= k <= fuel)%nat ->
  p_bb (get_p g ((st_cur (g_st g) + k) mod nplayers g)) = true ->
  p_bb (get_p (find_bb_loop fuel g) (st_cur (g_st (find_bb_loop fuel g)))) = true.
Proof.
  induction fuel as [|fuel IH]; intros g k Hc Hk Hbb; [lia|]. cbn [find_bb_loop].
  set (n1 := next_idx g).
  assert (Hn1 : n1 = ((st_cur (g_st g) + 1) mod nplayers g)%nat).
  { unfold n1. rewrite next_idx_left, left_of_mod by exact Hc. f_equal. lia. }
  assert (Hpv : pv (set_current g n1) = pv g) by apply pv_set_current.
  destruct (p_bb (get_p g n1)) eqn:E.
  - rewrite cur_set_current. rewrite (pv_get_bb _ _ n1 Hpv). exact E.
  - assert (Hk2 : (2 <= k)%nat).
    { destruct (Nat.eq_dec k 1) as [->|Hne]; [|lia]. rewrite <- Hn1, E in Hbb. discriminate. }
    apply (IH (set_current g n1) (k - 1)%nat).
    + rewrite cur_set_current, nplayers_set_current. unfold n1. apply next_idx_lt. exact Hc.
    + lia.
    + rewrite cur_set_current, nplayers_set_current, (pv_get_bb _ _ _ Hpv).
      replace ((n1 + (k - 1)) mod nplayers g)%nat with ((st_cur (g_st g) + k) mod nplayers g)%nat; [exact Hbb|].
      rewrite Hn1, Nat.add_mod_idemp_l by lia. f_equal. lia.
Qed.

Lemma exists_offset n c j : (c < n)%nat -> (j < n)%nat -> exists k, (1 <= k <= n)%nat /\ ((c + k) mod n = j)%nat.
Proof.
  intros Hc Hj. destruct (Nat.lt_ge_cases c j) as [H|H].
  - exists (j - c)%nat. split; [lia|]. replace (c + (j - c))%nat with j by lia. apply Nat.mod_small. exact Hj.
  - exists (n + j - c)%nat. split; [lia|]. replace (c + (n + j - c))%nat with (j + 1 * n)%nat by lia.
    rewrite Nat.mod_add by lia. apply Nat.mod_small. exact Hj.
Qed.

(* the first seat to act *)
Theorem first_to_act g :
  st_event (g_st g) = EvReadyRequested -> st_round (g_st g) <> RNone -> (2 <= nplayers g)%nat ->
  let g' := fst (do_ready g) in
  st_event (g_st g') = EvRoundStarted ->
  match st_round (g_st g) with
  | Preflop =>
      (exists j, (j < nplayers g)%nat /\ p_bb (get_p g j) = true) ->
      exists b, (b < nplayers g)%nat /\ p_bb (get_p g b) = true /\ st_cur (g_st g') = left_of (nplayers g) b
  | _ => st_cur (g_st g') = left_of (nplayers g) (dealer_of g)
  end.
Proof.
  intros He Hr Hn g' Hs. unfold g', do_ready in *. rewrite He in *. cbn [event_eqb negb] in *.
  set (g0 := reset_all g) in *.
  assert (Hpv0 : pv g0 = pv g) by apply pv_reset_all.
  assert (Hn0 : nplayers g0 = nplayers g) by (apply pv_nplayers; exact Hpv0).
  assert (Hd0 : dealer_of g0 = dealer_of g) by (apply pv_dealer; exact Hpv0).
  assert (R0 : st_round (g_st g0) = st_round (g_st g)) by reflexivity.
  assert (Hdl : (dealer_of (reset_all g0) < nplayers (reset_all g0))%nat) by (apply dealer_of_lt; rewrite (pv_nplayers _ _ (pv_reset_all g0)), Hn0; lia).
  (* later streets: the seat after the dealer *)
  assert (Later : st_round (g_st g0) <> Preflop -> st_round (g_st g0) <> RNone ->
                  st_event (g_st (start_round g0)) = EvRoundStarted ->
                  st_cur (g_st (start_round g0)) = left_of (nplayers g) (dealer_of g)).
  { intros H1 H2. unfold start_round.
    assert (G : st_event (g_st (request_action (set_event (set_current (reset_all g0) (dealer_of (reset_all g0))) EvRoundStarted))) = EvRoundStarted ->
                st_cur (g_st (request_action (set_event (set_current (reset_all g0) (dealer_of (reset_all g0))) EvRoundStarted))) = left_of (nplayers g) (dealer_of g)).
    { intros E. match type of E with st_event (g_st (request_action ?y)) = _ => rewrite (request_action_next y eq_refl E) end. rewrite next_idx_left.
      cbn [set_event with_st g_st st_cur st_set_event]. rewrite cur_set_current.
      change (nplayers (set_event ?x ?e)) with (nplayers x). rewrite nplayers_set_current.
      rewrite (pv_nplayers _ _ (pv_reset_all g0)), Hn0, (pv_dealer _ _ (pv_reset_all g0)), Hd0. reflexivity. }
    change (st_round (g_st (reset_all g0))) with (st_round (g_st g0)).
    destruct (st_round (g_st g0)); try contradiction; exact G. }
  rewrite <- R0. destruct (st_round (g_st g0)) eqn:Er; [contradiction| | | |]; cbn [fst] in *.
  2-4: apply Later; [discriminate|discriminate|exact Hs].
  intros (j & Hj & Hbb). revert Hs. unfold start_round.
  change (st_round (g_st (reset_all g0))) with (st_round (g_st g0)). rewrite Er.
  destruct (Nat.eqb (movable_count (reset_all g0)) 0); [simpl; discriminate|].
  set (g1 := set_current (reset_all g0) (dealer_of (reset_all g0))).
  assert (Hpv1 : pv g1 = pv g) by (unfold g1; rewrite pv_set_current, pv_reset_all; exact Hpv0).
  assert (Hn1 : nplayers g1 = nplayers g) by (apply pv_nplayers; exact Hpv1).
  assert (Hc1 : (st_cur (g_st g1) < nplayers g1)%nat) by (unfold g1; rewrite cur_set_current, nplayers_set_current; exact Hdl).
  set (g2 := find_bb_loop (nplayers g1) g1).
  assert (Hpv2 : pv g2 = pv g) by (unfold g2; rewrite pv_find_bb_loop; exact Hpv1).
  assert (Hn2 : nplayers g2 = nplayers g) by (apply pv_nplayers; exact Hpv2).
  destruct (exists_offset (nplayers g1) (st_cur (g_st g1)) j Hc1 ltac:(rewrite Hn1; exact Hj)) as (k & Hk & Ek).
  assert (Hfound : p_bb (get_p g2 (st_cur (g_st g2))) = true).
  { unfold g2. apply (find_bb_loop_finds (nplayers g1) g1 k Hc1 Hk). rewrite Ek, (pv_get_bb _ _ j Hpv1). exact Hbb. }
  assert (Hc2 : (st_cur (g_st g2) < nplayers g2)%nat).
  { unfold g2. apply (find_bb_loop_only (nplayers g1) g1); [|exact Hc1].
    unfold g1. apply set_current_only, no_offers_only_cur, all_offers_reset_all. reflexivity. }
  intros E. exists (st_cur (g_st g2)). split; [rewrite <- Hn2; exact Hc2|]. split; [rewrite <- (pv_get_bb _ _ _ Hpv2); exact Hfound|].
  match type of E with st_event (g_st (request_action ?y)) = _ => rewrite (request_action_next y eq_refl E) end. rewrite next_idx_left.
  cbn [set_event with_st g_st st_cur st_set_event]. change (nplayers (set_event ?x ?e)) with (nplayers x). rewrite Hn2. reflexivity.
Qed.
