(* C02 — showdown pays the right players the right amounts.
   A settlement vector has one entry per player: (index, contribution, folded, bankroll, score).
   settle_vec v is what the pot and settlement packages compute for it (levels by pot.LevelList, pots by
   GetPots, scores entered with UpdateScore, result by Calculate); it is the function the correspondence
   check runs against the Go packages (run_settle_case), and game_completed in the engine model calls the
   same settle.  chg ps x / fin ps x are the Changed / Final recorded for player x.
     vec_ok v     : indices are distinct, contributions are not negative
     scores_ok v  : a folded player has score 0, every other player a positive score (how the engine
                    enters them: settlement.go gives folded players 0, power.go scores are positive) *)
From Coq Require Import Lia.
From PF Require Import Base ModelPot ModelSettle ProofsPot ProofsSettle.

(* the theorems below are about the function the harness compares with the Go code *)
Theorem C02_model_is_the_tested_function :
  forall v, vec_ok v -> run_settle_case v = ("panic"%string, [0]) :: obs_result (settle_vec v).
Proof.
  intros v Hok. unfold run_settle_case. fold (v_pot v). fold (v_pl v).
  rewrite (settle_vec_no_panic v Hok). reflexivity.
Qed.
Print Assumptions C02_model_is_the_tested_function.

(* the Go code divides a level by the number of its winners; on a well-formed vector that is never 0 *)
Theorem C02_no_division_by_zero :
  forall v, vec_ok v -> settle_panics (get_pots (ll_of (v_pot v))) (v_pl v) = false.
Proof. exact settle_vec_no_panic. Qed.
Print Assumptions C02_no_division_by_zero.

(* every level (layer) inside the published pots is settled on its own: its contributors are the players
   who put in at least the level; with M the best score among them,
     - a player who did not pay into the level is not touched by it,
     - a contributor whose score is not M loses the level's wager,
     - a contributor whose score is M receives the level total divided by the number of contributors
       holding M, plus at most one odd chip (only when the division leaves a remainder), minus his wager;
   and the level as a whole is zero-sum *)
Theorem C02_layer_rule :
  forall v, vec_ok v ->
  forall p l, In p (get_pots (ll_of (v_pot v))) -> In l (pt_levels p) ->
    (forall y, In y (l_contribs l) <-> exists cy fy by' sy, In (y, cy, fy, by', sy) v /\ l_level l <= cy) /\
    forall off x,
      let sc := sc_of (v_pl v) (l_contribs l) in
      level_total (slevel (v_pl v) l) off = 0 /\
      exists M, best_score M sc /\
        (~ In x (l_contribs l) -> level_share (slevel (v_pl v) l) off x = 0) /\
        (forall s, In (x, s) sc -> s <> M -> level_share (slevel (v_pl v) l) off x = - l_wager l) /\
        (In (x, M) sc -> exists e, (e = 0 \/ (e = 1 /\ 0 < l_total l mod zn (length (with_score M sc)))) /\
            level_share (slevel (v_pl v) l) off x = l_total l / zn (length (with_score M sc)) + e - l_wager l).
Proof.
  intros v Hok p l Hp Hl. destruct (vec_level_contribs v Hok p l Hp Hl) as (Hlok & _ & Hcon).
  split; [exact Hcon|]. intros off x. apply slevel_spec; [rewrite pidx_v_pl; apply Hok|exact Hlok].
Qed.
Print Assumptions C02_layer_rule.

(* a player's change is the sum of what the levels do to him *)
Theorem C02_change_is_the_sum_of_the_layers :
  forall pots players x,
    chg (res_players (settle pots players)) x = pots_share (scored_pots players pots) x.
Proof. intros pots players x. apply settle_players. Qed.
Print Assumptions C02_change_is_the_sum_of_the_layers.

(* the result as a whole: the changes sum to zero; every final stack is the bankroll plus the change;
   nobody loses more than he put in; nobody wins more than what each opponent put in up to his own
   contribution (a short all-in collects at most its own stake from each opponent) *)
Theorem C02_result_of_a_vector :
  forall v, vec_ok v ->
    let ps := res_players (settle_vec v) in
    idxs ps = v_idx v /\
    sumc ps = 0 /\
    forall x c f b s, In (x, c, f, b, s) v ->
      fin ps x = b + chg ps x /\
      - c <= chg ps x <= zsum (map (fun w => Z.min w c) (v_contrib v)) - c.
Proof. exact settle_vec_summary. Qed.
Print Assumptions C02_result_of_a_vector.

(* a folded player wins nothing: he loses exactly what he put in, as soon as some player with a positive
   score has put in at least as much *)
Theorem C02_folded_player_wins_nothing :
  forall v, vec_ok v ->
  forall x c b, In (x, c, true, b, 0) v ->
    (exists y cy fy by' sy, In (y, cy, fy, by', sy) v /\ c <= cy /\ 0 < sy) ->
    chg (res_players (settle_vec v)) x = - c.
Proof. exact settle_vec_folded. Qed.
Print Assumptions C02_folded_player_wins_nothing.

(* more generally: a player who at every level he paid into faces a contributor with a better score *)
Theorem C02_beaten_player_loses_his_contribution :
  forall v, vec_ok v ->
  forall x c f b s, In (x, c, f, b, s) v ->
    (forall lv, In lv (ll_lvals (ll_of (v_pot v))) -> lv <= c ->
       exists y cy fy by' sy, In (y, cy, fy, by', sy) v /\ lv <= cy /\ s < sy) ->
    chg (res_players (settle_vec v)) x = - c.
Proof. exact settle_vec_beaten. Qed.
Print Assumptions C02_beaten_player_loses_his_contribution.

(* an uncalled excess — a level with a single contributor — goes back to its owner *)
Theorem C02_uncalled_excess_goes_back :
  forall v, vec_ok v ->
  forall p l x off, In p (get_pots (ll_of (v_pot v))) -> In l (pt_levels p) -> l_contribs l = [x] ->
    level_share (slevel (v_pl v) l) off x = 0.
Proof. exact lone_contributor_level. Qed.
Print Assumptions C02_uncalled_excess_goes_back.

(* tied winners of the same pot split it equally, their shares differing by at most one chip: in a pot
   with at least one non-folded contributor every level has the same winners, and over the whole pot any
   two of them receive the same amount give or take one chip (the repaired defect F3) *)
Theorem C02_tied_winners_split_equally :
  forall v, vec_ok v -> scores_ok v ->
  forall p l0 x y,
    let ll := ll_of (v_pot v) in
    In p (get_pots ll) -> elig (ll_contribs ll) (ll_folded ll) (pt_level p) <> [] -> In l0 (pt_levels p) ->
    (forall l, In l (pt_levels p) -> winners_of (slevel (v_pl v) l) = winners_of (slevel (v_pl v) l0)) /\
    (In x (winners_of (slevel (v_pl v) l0)) -> In y (winners_of (slevel (v_pl v) l0)) ->
     -1 <= levels_share (scored_levels (v_pl v) p) 0 x - levels_share (scored_levels (v_pl v) p) 0 y <= 1).
Proof.
  intros v Hok Hsc p l0 x y ll Hp Hlive Hl0. split.
  - intros l Hl. apply (pot_levels_same_winners v Hok Hsc p l l0); assumption.
  - apply (settle_vec_pot_split v Hok Hsc p l0 x y); assumption.
Qed.
Print Assumptions C02_tied_winners_split_equally.

(* regression witness of the repaired defect: contributions 100,100,1,1,2 with the last three
   folded and two tied winners -> both win 2 (before the repair: 3 and 1) *)
Theorem C02_tied_winners_witness :
  map r_changed (res_players (settle
      (get_pots (ll_of [(0, 100, false); (1, 100, false); (2, 1, true); (3, 1, true); (4, 2, true)]))
      [(0, 1000, 7); (1, 1000, 7); (2, 1000, 0); (3, 1000, 0); (4, 1000, 0)]))
  = [2; 2; -1; -1; -2].
Proof. vm_compute. reflexivity. Qed.
Print Assumptions C02_tied_winners_witness.

(* non-vacuity: a five-player vector with two all-in levels, folded contributors and a tie meets the premises *)
Example C02_premises_example :
  let v : vec := [(0, 100, false, 1000, 7); (1, 100, false, 1000, 7); (2, 1, true, 1000, 0); (3, 40, false, 40, 9); (4, 2, true, 1000, 0)] in
  vec_ok v /\ scores_ok v /\
  map r_changed (res_players (settle_vec v)) = [-40; -40; -1; 83; -2].
Proof.
  cbv zeta. split; [|split].
  - split; [repeat constructor; simpl; intuition lia|]. simpl. intros c H. intuition lia.
  - intros i c f b s H. simpl in H. intuition (try congruence); repeat match goal with E : (_, _, _, _, _) = _ |- _ => injection E as <- <- <- <- <- end; try lia; try discriminate.
  - vm_compute. reflexivity.
Qed.

(* ---------- when the vector arises from real play of the engine ---------- *)
(* in every reachable state a folded player has at most as much in the pot (pot + wager) as some player
   still in the hand: the player who has put in the most has never folded *)
From PF Require Import ModelGame ProofsInv ProofsResult ProofsTop.
Theorem C02_engine_folded_is_covered :
  forall c deck g ops,
    cfg_ok c -> length deck = length (c_deck c) -> create c deck = (g, Ok) ->
    let s := run g ops in
    forall i, (i < nplayers s)%nat -> p_fold (get_p s i) = true ->
      exists k, (k < nplayers s)%nat /\ p_fold (get_p s k) = false /\
                p_pot (get_p s i) + p_wager (get_p s i) <= p_pot (get_p s k) + p_wager (get_p s k).
Proof. exact folded_is_covered. Qed.
Print Assumptions C02_engine_folded_is_covered.

(* hence in the result recorded by the engine a folded player wins nothing: he loses exactly what he put in
   (given that the players still in the hand carry positive scores, as power.go gives any hand of two or
   more cards; the harness checks this on every showdown) *)
Theorem C02_engine_folded_player_wins_nothing :
  forall c deck g ops,
    cfg_ok c -> length deck = length (c_deck c) -> create c deck = (g, Ok) ->
    let s := run g ops in
    forall r, g_result s = Some r ->
    (forall k, (k < nplayers s)%nat -> p_fold (get_p s k) = false -> 0 < score_of (get_p s k)) ->
    forall i, (i < nplayers s)%nat -> p_fold (get_p s i) = true ->
      chg (res_players r) (zn i) = - (p_pot (get_p s i) + p_wager (get_p s i)).
Proof. exact folded_player_wins_nothing. Qed.
Print Assumptions C02_engine_folded_player_wins_nothing.

(* the hypothesis on the scores is met in play: for the two shipped ranking tables, the two shipped variants
   (2 hole cards; 4 hole cards of which exactly 2 play) and any deck of distinct cards of the 52-card deck,
   every player still in the hand carries a strength above zero from the deal of the hole cards on — a hand
   of two or of five distinct cards scores above zero (finite check over all 2,652 ordered pairs and all 7,462
   five-card classes), one such selection is always among the candidates (Gosper enumeration is complete), and
   the stored strength is the maximum over the candidates *)
From PF Require Import ProofsEval ProofsScore ProofsLive.
Theorem C02_live_hands_score_above_zero :
  forall c deck g ops,
    cfg_ok c -> length deck = length (c_deck c) -> create c deck = (g, Ok) ->
    shipped (c_table c) -> variant_ok c -> deck_ok deck ->
    let s := run g ops in
    st_round (g_st s) <> RNone ->
    forall k, (k < nplayers s)%nat -> p_fold (get_p s k) = false -> 0 < score_of (get_p s k).
Proof. exact live_scores_positive. Qed.
Print Assumptions C02_live_hands_score_above_zero.

(* so in the result recorded by the engine a folded player wins nothing and loses exactly what he put in *)
Theorem C02_engine_folded_player_wins_nothing_on_a_real_deck :
  forall c deck g ops,
    cfg_ok c -> length deck = length (c_deck c) -> create c deck = (g, Ok) ->
    shipped (c_table c) -> variant_ok c -> deck_ok deck ->
    let s := run g ops in
    forall r, g_result s = Some r ->
    forall i, (i < nplayers s)%nat -> p_fold (get_p s i) = true ->
      chg (res_players r) (zn i) = - (p_pot (get_p s i) + p_wager (get_p s i)).
Proof. exact folded_wins_nothing_on_a_real_deck. Qed.
Print Assumptions C02_engine_folded_player_wins_nothing_on_a_real_deck.

(* the premise on the deck: the 52-card and the 36-card deck in the order deck.go builds them, and every
   reordering (shuffle) of a deck that meets it *)
Theorem C02_shipped_decks_are_real_decks :
  deck_ok standard_wires /\ deck_ok shortdeck_wires /\
  (length standard_wires = 52 /\ length shortdeck_wires = 36)%nat /\
  forall d d0, Permutation.Permutation d d0 -> deck_ok d0 -> deck_ok d.
Proof.
  split; [exact standard_deck_ok|]. split; [exact shortdeck_deck_ok|]. split; [split; reflexivity|]. exact deck_ok_perm.
Qed.
Print Assumptions C02_shipped_decks_are_real_decks.
