(* C07 — a hand can be resumed from its serialised state. *)
From PF Require Import Base ModelGame ProofsGameBasic.

(* the engine is a function of state and operation: same deck, same operations, same state *)
Theorem C07_deterministic :
  forall g ops1 ops2, ops1 = ops2 -> run g ops1 = run g ops2.
Proof. intros; subst; reflexivity. Qed.
Print Assumptions C07_deterministic.

(* dropping what JSON does not carry is idempotent and touches neither players nor meta *)
Theorem C07_erase_idempotent : forall g, erase (erase g) = erase g.
Proof. exact erase_idem. Qed.
Print Assumptions C07_erase_idempotent.
