(* C08 — dealer, small blind and big blind land on the right seats. *)
From PF Require Import Base ModelSeat ProofsSeatBasic ProofsSeat.

(* whenever the seat manager successfully moves to the next hand, dealer, small blind and big blind
   sit on occupied, active, non-reserved seats — for every state, hence every history *)
Theorem C08_positions_on_playable_seats :
  forall s s', sm_next s = (s', SOk) ->
    exists d sb bb, sm_dealer s' = Some d /\ sm_sb s' = Some sb /\ sm_bb s' = Some bb /\
                    pl s' d = true /\ pl s' sb = true /\ pl s' bb = true.
Proof. exact sm_next_positions. Qed.
Print Assumptions C08_positions_on_playable_seats.

(* blinds are found by the clockwise scan; a scan that fails means no playable seat *)
Theorem C08_scan_none_means_no_playable :
  forall s idxs start, find_active s idxs start = None -> forall i, In i idxs -> playable (get_seat s i) = false.
Proof. exact find_active_none. Qed.
Print Assumptions C08_scan_none_means_no_playable.

(* the known finding F11, as a witness on the model: after this history on five seats three seats are
   playable but the dealer is also the small blind *)
Example C08_F11_witness :
  let s := sm_run 5 [OJoin 0 0; OSeat 0; OJoin 1 0; OSeat 1; OJoin 2 0; OJoin 4 0; OSeat 4; ONext;
                     OLeave 0; OSeat 2; OJoin 3 0; OSeat 3; OLeave 4; ONext] in
  playable_count s = 3%nat /\ sm_dealer s = sm_sb s.
Proof. vm_compute. split; reflexivity. Qed.

(* the blinds rule after a successful move to the next hand, in the final state s'.  rest = the seats
   clockwise after the dealer.  With three or more seats able to play when the blinds are placed: the small
   blind is the first playable seat of s' after the dealer and the big blind the first after the small blind.
   With exactly two: the dealer is the small blind and the big blind is the first playable seat after the
   dealer.  (When exactly two could play at that moment but seats behind the big blind are re-activated by
   the same call, s' has more than two playable seats although the dealer is the small blind: that is the
   known finding F11, see the witness below.) *)
Theorem C08_blinds_rule :
  forall s s', sm_next s = (s', SOk) ->
    exists d, sm_dealer s' = Some d /\
      let rest := tl (normalized s' d) in
      let two_handed := playable_count (fst (next_dealer s)) = 2%nat in
      (two_handed /\ sm_sb s' = Some d /\
       exists pre bb post, rest = pre ++ bb :: post /\ sm_bb s' = Some bb /\ pl s' bb = true /\ forall y, In y pre -> pl s' y = false) \/
      (~ two_handed /\
       exists pre sb mid bb post, rest = pre ++ sb :: mid ++ bb :: post /\ sm_sb s' = Some sb /\ sm_bb s' = Some bb /\
         pl s' sb = true /\ pl s' bb = true /\ forall y, In y (pre ++ mid) -> pl s' y = false).
Proof. exact sm_next_rule. Qed.
Print Assumptions C08_blinds_rule.
