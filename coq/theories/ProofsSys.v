(* ProofsSys.v — the invariant of the system of regulator and tables (ProofsReg.v) also holds when the
   table chooses freely which of its members are eliminated and the caller chooses freely which of the
   players in transit are handed back, in which order (sys_gstep): a reordering of a table's members or of the
   players in transit does not touch the invariant, and after the reordering the step is the one of
   ProofsReg.v.  This is the machine the extracted runner steps on the harness's histories. *)
From Coq Require Import Lia Permutation.
From PF Require Import Base ModelReg ModelSys ProofsRegBasic ProofsReg.

Lemma sub_ok_spec l m : sub_ok l m = true -> NoDup l /\ forall p, In p l -> In p m.
Proof.
  unfold sub_ok. intros H. apply andb_prop in H as [H1 H2]. split; [apply nodupb_spec; exact H1|].
  intros p Hp. rewrite forallb_forall in H2. apply zmem_iff. apply H2. exact Hp.
Qed.

Lemma without_perm l m : NoDup m -> sub_ok l m = true -> Permutation m (l ++ without l m).
Proof. intros Hm H. destruct (sub_ok_spec l m H) as [Hl Hs]. apply filter_out_perm; assumption. Qed.

Lemma Sys_perm_transit r ts t t' alive : Permutation t t' -> Sys r ts t alive -> Sys r ts t' alive.
Proof.
  intros Hp [A B C D E F G]. constructor; try assumption.
  eapply perm_trans; [|exact E]. apply Permutation_app_head. apply Permutation_app_head. apply Permutation_sym. exact Hp.
Qed.

Lemma members_set_perm id m m' ts : lookup id ts = Some m -> Permutation m m' ->
  Permutation (members (set_members id m' ts)) (members ts).
Proof.
  unfold members. induction ts as [|[i mm] rest IH]; simpl; [discriminate|]. destruct (i =? id); simpl.
  - intros E Hp. injection E as ->. apply Permutation_app_tail. apply Permutation_sym. exact Hp.
  - intros E Hp. apply Permutation_app_head. apply IH; assumption.
Qed.

Lemma Tcons_set_same_length rts ts id m m' : Tcons rts ts -> lookup id ts = Some m -> length m' = length m ->
  Tcons rts (set_members id m' ts).
Proof.
  intros H. induction H as [|t [i mm] rts ts [H1 H2] Hrest IH]; simpl; [constructor|]. simpl in H1, H2.
  destruct (i =? id).
  - intros E Hl. injection E as ->. constructor; [|exact Hrest]. simpl. split; [exact H1|]. rewrite Hl. exact H2.
  - intros E Hl. constructor; [simpl; auto|apply IH; assumption].
Qed.

Lemma Sys_perm_members r ts t alive id m m' : lookup id ts = Some m -> Permutation m m' ->
  Sys r ts t alive -> Sys r (set_members id m' ts) t alive.
Proof.
  intros Hl Hp [A B C D E F G]. constructor; try assumption.
  - apply (Tcons_set_same_length _ _ id m m' A Hl). symmetry. apply Permutation_length. exact Hp.
  - eapply perm_trans; [|exact E]. apply Permutation_app_head. apply Permutation_app_tail. apply (members_set_perm id m m' ts Hl Hp).
Qed.

Lemma NoDup_members_lookup ts id m : NoDup (members ts) -> lookup id ts = Some m -> NoDup m.
Proof.
  unfold members. induction ts as [|[i mm] rest IH]; simpl; [discriminate|].
  destruct (i =? id); intros Hn E; [injection E as ->; apply (NoDup_app_remove_r _ _ Hn)|apply IH; [apply (NoDup_drop_prefix _ _ Hn)|exact E]].
Qed.

Theorem SysInv_gstep s o : SysInv s -> SysInv (sys_gstep s o).
Proof.
  intros HI. destruct o as [cs players|cs x|id elim|cs batch]; cbn [sys_gstep].
  - apply SysInv_step. exact HI.
  - apply SysInv_step. exact HI.
  - destruct (lookup id (s_tabs s)) as [m|] eqn:El; [|exact HI].
    destruct (sub_ok elim m) eqn:Es; [|exact HI]. apply SysInv_step.
    destruct HI as [HS Hmax]. split; [|exact Hmax]. cbn [s_st s_tabs s_transit s_alive].
    apply (Sys_perm_members _ _ _ _ id m); [exact El| |exact HS].
    apply without_perm; [|exact Es].
    assert (Hn : NoDup (members (s_tabs s))).
    { apply (NoDup_sub_app (r_queue (rs_reg (s_st s))) _ (s_transit s)).
      apply (Permutation_NoDup (Permutation_sym (sy_places _ _ _ _ HS))). apply (sy_nodup _ _ _ _ HS). }
    apply (NoDup_members_lookup _ id m Hn El).
  - destruct (sub_ok batch (s_transit s)) eqn:Es; [|exact HI]. apply SysInv_step.
    destruct HI as [HS Hmax]. split; [|exact Hmax]. cbn [s_st s_tabs s_transit s_alive].
    apply (Sys_perm_transit _ _ (s_transit s)); [|exact HS].
    apply without_perm; [|exact Es].
    assert (Hn : NoDup ((r_queue (rs_reg (s_st s)) ++ members (s_tabs s)) ++ s_transit s)).
    { rewrite <- app_assoc. apply (Permutation_NoDup (Permutation_sym (sy_places _ _ _ _ HS))). apply (sy_nodup _ _ _ _ HS). }
    apply (NoDup_drop_prefix _ _ Hn).
Qed.

Theorem SysInv_grun mx mn ops : 0 < mx -> SysInv (sys_grun (sys_init mx mn) ops).
Proof.
  intros H. unfold sys_grun. generalize (SysInv_init mx mn H). generalize (sys_init mx mn).
  induction ops as [|o t IH]; intros s Hs; cbn [fold_left]; [exact Hs|]. apply IH, SysInv_gstep, Hs.
Qed.
