(* C11 — offered actions fit the betting situation. The offer table, clause by clause. *)
From PF Require Import Base ModelGame ProofsGameBasic.

Theorem C11_folded_or_allin_only_pass :
  forall s p, p_fold p = true \/ p_stack p = 0 -> available_actions s p = [APass].
Proof. exact offers_pass_only. Qed.
Print Assumptions C11_folded_or_allin_only_pass.

Theorem C11_allin_always :
  forall s p, p_fold p = false -> p_stack p <> 0 -> offers s p AAllin = true.
Proof. exact offers_allin. Qed.
Print Assumptions C11_allin_always.

Theorem C11_fold_iff_facing_wager :
  forall s p, p_fold p = false -> p_stack p <> 0 -> offers s p AFold = (p_wager p <? st_cw s).
Proof. exact offers_fold. Qed.
Print Assumptions C11_fold_iff_facing_wager.

Theorem C11_check_iff_not_facing :
  forall s p, p_fold p = false -> p_stack p <> 0 -> offers s p ACheck = negb (p_wager p <? st_cw s).
Proof. exact offers_check. Qed.
Print Assumptions C11_check_iff_not_facing.

Theorem C11_call :
  forall s p, p_fold p = false -> p_stack p <> 0 ->
    offers s p ACall = (p_wager p <? st_cw s) && (st_cw s <? p_initial p).
Proof. exact offers_call. Qed.
Print Assumptions C11_call.

Theorem C11_bet :
  forall s p, p_fold p = false -> p_stack p <> 0 ->
    offers s p ABet = negb (p_wager p <? st_cw s) && (st_minibet s <=? p_initial p) && (st_cw s =? 0).
Proof. exact offers_bet. Qed.
Print Assumptions C11_bet.

Theorem C11_raise :
  forall s p, p_fold p = false -> p_stack p <> 0 ->
    offers s p ARaise =
    ((p_wager p <? st_cw s) && (st_cw s <? p_initial p) && (st_cw s + st_prs s <? p_initial p))
    || (negb (p_wager p <? st_cw s) && (st_minibet s <=? p_initial p) && negb (st_cw s =? 0)).
Proof. exact offers_raise. Qed.
Print Assumptions C11_raise.

Theorem C11_pass_pay_never_for_live_seat :
  forall s p, p_fold p = false -> p_stack p <> 0 -> offers s p APass = false /\ offers s p APay = false.
Proof. intros s p H1 H2. split; [exact (offers_pass s p H1 H2)|exact (offers_pay s p H1 H2)]. Qed.
Print Assumptions C11_pass_pay_never_for_live_seat.

(* in every reachable state where a player is asked to act, the offer he holds is this table
   evaluated on the current wager to match, minimum raise, minimum bet and his own chips *)
From PF Require Import ProofsInv ProofsOffers.
Theorem C11_offer_is_the_table :
  forall c deck g ops,
    cfg_ok c -> create c deck = (g, Ok) ->
    let s := run g ops in
    st_event (g_st s) = EvRoundStarted ->
    p_allowed (get_p s (st_cur (g_st s))) = available_actions (g_st s) (get_p s (st_cur (g_st s))).
Proof.
  intros c deck g ops Hc Hcr s He. destruct (reachable_inv c deck g ops Hc Hcr) as [_ HO].
  apply (oi_cur _ HO He).
Qed.
Print Assumptions C11_offer_is_the_table.

(* and the actions do what they say.  chips_of p = (bankroll, initial, stack, pot, wager) *)
From PF Require Import ProofsChips ProofsEffects.
Theorem C11_fold_effect :
  forall g i, allowed g i AFold = true -> (i < nplayers g)%nat ->
    let s := fst (act_fold g i) in
    snd (act_fold g i) = Ok /\ p_fold (get_p s i) = true /\
    (forall j, (j < nplayers g)%nat -> chips_of (get_p s j) = chips_of (get_p g j)) /\
    (forall j, j <> i -> p_fold (get_p s j) = p_fold (get_p g j)).
Proof. exact fold_effect. Qed.
Print Assumptions C11_fold_effect.

Theorem C11_check_effect :
  forall g i, allowed g i ACheck = true -> (i < nplayers g)%nat ->
    let s := fst (act_check g i) in
    snd (act_check g i) = Ok /\
    (forall j, (j < nplayers g)%nat -> chips_of (get_p s j) = chips_of (get_p g j)) /\
    (forall j, p_fold (get_p s j) = p_fold (get_p g j)).
Proof. exact check_effect. Qed.
Print Assumptions C11_check_effect.

(* call: the seat pays the difference to the wager to match (to the big blind while the wager to match is
   still below it), capped at its stack; nobody else's chips move *)
Theorem C11_call_effect :
  forall g i, allowed g i ACall = true -> (i < nplayers g)%nat ->
    let s := fst (act_call g i) in
    let p := get_p g i in
    let delta := if st_cw (g_st g) <? m_bbb (g_meta g) then m_bbb (g_meta g) - p_wager p else st_cw (g_st g) - p_wager p in
    snd (act_call g i) = Ok /\
    chips_of (get_p s i) =
      (if p_stack p <=? delta then (p_bankroll p, p_initial p, 0, p_pot p, p_initial p)
       else (p_bankroll p, p_initial p, p_initial p - (p_wager p + delta), p_pot p, p_wager p + delta)) /\
    (forall j, j <> i -> (j < nplayers g)%nat -> chips_of (get_p s j) = chips_of (get_p g j)).
Proof. exact call_effect. Qed.
Print Assumptions C11_call_effect.

Theorem C11_allin_effect :
  forall g i, allowed g i AAllin = true -> (i < nplayers g)%nat -> 0 <= p_stack (get_p g i) ->
    let s := fst (act_allin g i) in
    let p := get_p g i in
    snd (act_allin g i) = Ok /\
    chips_of (get_p s i) = (p_bankroll p, p_initial p, 0, p_pot p, p_initial p) /\
    (forall j, j <> i -> (j < nplayers g)%nat -> chips_of (get_p s j) = chips_of (get_p g j)).
Proof. exact allin_effect. Qed.
Print Assumptions C11_allin_effect.

Theorem C11_bet_effect :
  forall g i x, allowed g i ABet = true -> (i < nplayers g)%nat -> 0 < x -> x < p_stack (get_p g i) ->
    let s := fst (act_bet g i x) in
    let p := get_p g i in
    snd (act_bet g i x) = Ok /\
    chips_of (get_p s i) = (p_bankroll p, p_initial p, p_initial p - (p_wager p + x), p_pot p, p_wager p + x) /\
    st_prs (g_st s) = x /\
    (forall j, j <> i -> (j < nplayers g)%nat -> chips_of (get_p s j) = chips_of (get_p g j)).
Proof. exact bet_effect. Qed.
Print Assumptions C11_bet_effect.
