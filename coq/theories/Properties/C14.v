(* C14 — cards are dealt without loss, duplication or change. *)
From Coq Require Import Permutation.
From PF Require Import Base ModelGame ProofsGameBasic.

(* shuffling (any sequence of swaps, which is what rand.Shuffle performs) only reorders *)
Theorem C14_shuffle_only_reorders :
  forall (swaps : list (nat * nat)) (deck : list Z), Permutation deck (apply_swaps swaps deck).
Proof. intros; apply apply_swaps_perm. Qed.
Print Assumptions C14_shuffle_only_reorders.
