package main

import (
	"fmt"
	"math/rand"
	"reflect"
	"sort"
	"strings"

	pf "github.com/weedbox/pokerface"
	"github.com/weedbox/pokerface/pot"
	"github.com/weedbox/pokerface/seat_manager"
	"github.com/weedbox/pokerface/settlement"
)

// C14: ShuffleCards only reorders
func runShuffle(o *Out, rng *rand.Rand, n int) int {
	for i := 0; i < n; i++ {
		var deck []string
		switch rng.Intn(6) {
		case 0:
			deck = []string{}
		case 1:
			deck = []string{"SA"}
		case 2:
			deck = deckOf(true)
		case 3: // duplicates
			k := 2 + rng.Intn(20)
			for j := 0; j < k; j++ {
				deck = append(deck, []string{"SA", "H2", "D9"}[rng.Intn(3)])
			}
		default:
			deck = deckOf(false)[:1+rng.Intn(52)]
		}
		before := append([]string{}, deck...)
		out := pf.ShuffleCards(deck)
		if !isPerm(before, out) {
			o.Violate("C14", "shuffle-changed-cards", fmt.Sprintf("%v -> %v", before, out), before)
		}
		if len(before) >= 2 {
			a := append([]string{}, before...)
			sort.Strings(a)
			o.Distinct("C14", "shuffle:"+strings.Join(a, ""))
		}
	}
	o.StatN("shuffle.decks", n)
	return n
}

// the field lists the models were written against (name type `tag`)
var schemaPin = map[string][]string{
	"GameState":       {"GameID string game_id", "CreatedAt int64 created_at", "UpdatedAt int64 updated_at", "Meta pokerface.Meta meta", "Status pokerface.Status status", "Players []*pokerface.PlayerState players", "Result *settlement.Result result,omitempty"},
	"Meta":            {"Ante int64 ante", "Blind pokerface.BlindSetting blind", "Limit string limit", "HoleCardsCount int hole_cards_count", "RequiredHoleCardsCount int required_hole_cards_count", "CombinationPowers combination.PowerRankings combination_powers", "Deck []string deck", "BurnCount int burn_count"},
	"BlindSetting":    {"Dealer int64 dealer", "SB int64 sb", "BB int64 bb"},
	"Status":          {"MiniBet int64 mini_bet", "MaxWager int64 max_wager", "Pots []*pot.Pot pots", "Round string round,omitempty", "Burned []string burned,omitempty", "Board []string board,omitempty", "PreviousRaiseSize int64 previous_raise_size", "CurrentDeckPosition int current_deck_position", "CurrentRoundPot int64 current_round_pot", "CurrentWager int64 current_wager", "CurrentRaiser int current_raiser", "CurrentPlayer int current_player", "CurrentEvent string current_event", "LastAction *pokerface.Action last_action,omitempty"},
	"Action":          {"Source int source", "Type string type", "Value int64 value,omitempty"},
	"PlayerState":     {"Idx int idx", "Positions []string positions", "Acted bool acted", "DidAction string did_action,omitempty", "Fold bool fold", "VPIP bool vpip", "AllowedActions []string allowed_actions,omitempty", "Bankroll int64 bankroll", "InitialStackSize int64 initial_stack_size", "StackSize int64 stack_size", "Pot int64 pot", "Wager int64 wager", "HoleCards []string hole_cards,omitempty", "Combination *pokerface.CombinationInfo combination,omitempty"},
	"CombinationInfo": {"Type string type", "Cards []string cards", "Power int power"},
	"Pot":             {"Level int64 level", "Wager int64 wager", "Total int64 total", "Contributors map[int]int64 contributors", "Levels []*pot.Level -"},
	"Level":           {"Level int64 level", "Wager int64 wager", "Total int64 total", "Contributors []int contributors"},
	"Result":          {"Players []*settlement.PlayerResult players", "Pots []*settlement.PotResult pots"},
	"PlayerResult":    {"Idx int idx", "Final int64 final", "Changed int64 changed"},
	"PotResult":       {"rank settlement.Rank ", "level *settlement.PotLevel ", "Total int64 total", "Winners []*settlement.Winner winners"},
	"Winner":          {"Idx int idx", "Withdraw int64 withdraw"},
	"Seat":            {"ID int id", "IsActive bool is_active", "IsReserved bool is_reserved", "Player seat_manager.PlayerInfo "},
}

func fieldsOf(t reflect.Type) []string {
	var out []string
	for i := 0; i < t.NumField(); i++ {
		f := t.Field(i)
		out = append(out, fmt.Sprintf("%s %s %s", f.Name, f.Type.String(), f.Tag.Get("json")))
	}
	return out
}

func runSchema(o *Out) int {
	types := map[string]reflect.Type{
		"GameState": reflect.TypeOf(pf.GameState{}), "Meta": reflect.TypeOf(pf.Meta{}), "BlindSetting": reflect.TypeOf(pf.BlindSetting{}),
		"Status": reflect.TypeOf(pf.Status{}), "Action": reflect.TypeOf(pf.Action{}), "PlayerState": reflect.TypeOf(pf.PlayerState{}),
		"CombinationInfo": reflect.TypeOf(pf.CombinationInfo{}), "Pot": reflect.TypeOf(pot.Pot{}), "Level": reflect.TypeOf(pot.Level{}),
		"Result": reflect.TypeOf(settlement.Result{}), "PlayerResult": reflect.TypeOf(settlement.PlayerResult{}),
		"PotResult": reflect.TypeOf(settlement.PotResult{}), "Winner": reflect.TypeOf(settlement.Winner{}),
		"Seat": reflect.TypeOf(seat_manager.Seat{}),
	}
	names := []string{}
	for n := range types {
		names = append(names, n)
	}
	sort.Strings(names)
	for _, n := range names {
		got := strings.Join(fieldsOf(types[n]), "; ")
		want := strings.Join(schemaPin[n], "; ")
		if got != want {
			o.meta.Ties = append(o.meta.Ties, fmt.Sprintf("schema of %s changed: the model was written against [%s], the code now has [%s]", n, want, got))
		}
		o.Stat("schema.types")
	}
	return len(names)
}
