package main

import (
	"encoding/json"
	"fmt"
	"math/rand"
	"os"
	"sort"
	"strings"

	"github.com/weedbox/pokerface/pot"
	"github.com/weedbox/pokerface/settlement"
)

// PotIn is one contributor of a direct pot / settlement case (insertion order = slice order)
type PotIn struct {
	Idx      int   `json:"idx"`
	Wager    int64 `json:"wager"`
	Fold     bool  `json:"fold"`
	Bankroll int64 `json:"bankroll,omitempty"`
	Score    int   `json:"score,omitempty"`
}

func obsLevels(b *Obs, key string, ls []*pot.Level) {
	var v []int64
	for _, l := range ls {
		c := append([]int{}, l.Contributors...)
		sort.Ints(c)
		v = append(v, l.Level, l.Wager, l.Total, int64(len(c)))
		for _, x := range c {
			v = append(v, int64(x))
		}
	}
	b.K(key, v...)
}

func potsVals(ps []*pot.Pot) []int64 {
	var v []int64
	for _, p := range ps {
		v = append(v, p.Level, p.Wager, p.Total, int64(len(p.Contributors)))
		for _, k := range sortedKeys(p.Contributors) {
			v = append(v, int64(k), p.Contributors[k])
		}
	}
	return v
}

func potLevelsVals(ps []*pot.Pot) []int64 {
	var v []int64
	for _, p := range ps {
		v = append(v, int64(len(p.Levels)))
		for _, l := range p.Levels {
			c := append([]int{}, l.Contributors...)
			sort.Ints(c)
			v = append(v, l.Level, l.Wager, l.Total, int64(len(c)))
			for _, x := range c {
				v = append(v, int64(x))
			}
		}
	}
	return v
}

func min64(a, b int64) int64 {
	if a < b {
		return a
	}
	return b
}

// oraclePots states C16 directly on the published pots.
// contrib/fold are indexed by player idx (players that were never added are absent from the maps).
func oraclePots(o *Out, prop string, ps []*pot.Pot, contrib map[int]int64, fold map[int]bool, replay interface{}) {
	var sumC, sumT int64
	for _, c := range contrib {
		sumC += c
	}
	prev := int64(0)
	prevSet := -1
	for k, p := range ps {
		if k > 0 && p.Level <= prev {
			o.Violate(prop, "levels-not-increasing", fmt.Sprintf("pot %d level %d after %d", k, p.Level, prev), replay)
		}
		if k == 0 && p.Level < 0 {
			o.Violate(prop, "negative-level", "", replay)
		}
		var tot int64
		for _, c := range contrib {
			tot += min64(c, p.Level) - min64(c, prev)
		}
		if tot != p.Total {
			o.Violate(prop, "pot-total", fmt.Sprintf("pot %d total %d, contributions between %d and %d add to %d", k, p.Total, prev, p.Level, tot), replay)
		}
		sumT += p.Total
		// eligible players = non-folded entries
		elig := 0
		for idx, amt := range p.Contributors {
			if fold[idx] {
				// a folded player may be listed for display, but only in pots they paid into
				if !(prev < contrib[idx]) {
					o.Violate(prop, "folded-listed-above-contribution", fmt.Sprintf("pot %d (levels %d..%d) lists folded player %d who contributed %d", k, prev, p.Level, idx, contrib[idx]), replay)
				}
				continue
			}
			elig++
			if contrib[idx] < p.Level {
				o.Violate(prop, "eligible-below-level", fmt.Sprintf("pot %d level %d lists player %d who contributed %d", k, p.Level, idx, contrib[idx]), replay)
			}
			if amt != p.Level-prev {
				o.Violate(prop, "eligible-amount", fmt.Sprintf("pot %d lists player %d with %d, per-pot amount is %d", k, idx, amt, p.Level-prev), replay)
			}
		}
		want := 0
		for idx, c := range contrib {
			if !fold[idx] && c >= p.Level {
				want++
				if _, ok := p.Contributors[idx]; !ok {
					o.Violate(prop, "eligible-missing", fmt.Sprintf("pot %d level %d does not list non-folded player %d who contributed %d", k, p.Level, idx, c), replay)
				}
			}
		}
		if k > 0 && !(elig < prevSet) {
			o.Violate(prop, "eligible-sets-not-shrinking", fmt.Sprintf("pot %d has %d eligible players, previous pot %d", k, elig, prevSet), replay)
		}
		prevSet = elig
		prev = p.Level
	}
	if sumT != sumC {
		o.Violate(prop, "totals-sum", fmt.Sprintf("pots add to %d, contributions to %d", sumT, sumC), replay)
	}
}

// several tied winners at the top, several folded players at distinct smaller amounts: one pot merged
// from many levels, odd chips at every level
func genTieVector(rng *rand.Rand) []PotIn {
	k := 2 + rng.Intn(4)
	m := 2 + rng.Intn(4)
	top := int64(20 + rng.Intn(200))
	var in []PotIn
	for i := 0; i < k; i++ {
		in = append(in, PotIn{Wager: top, Score: 9, Bankroll: top + int64(rng.Intn(5))})
	}
	used := map[int64]bool{}
	for i := 0; i < m; i++ {
		w := int64(1 + rng.Intn(int(top)-1))
		if rng.Intn(2) == 0 {
			w = int64(1 + rng.Intn(12))
		}
		if used[w] && rng.Intn(3) > 0 {
			w++
		}
		used[w] = true
		in = append(in, PotIn{Wager: w, Fold: true, Bankroll: w + int64(rng.Intn(5))})
	}
	if rng.Intn(3) == 0 {
		in = append(in, PotIn{Wager: int64(1 + rng.Intn(int(top))), Score: 1 + rng.Intn(8), Bankroll: top})
	}
	rng.Shuffle(len(in), func(i, j int) { in[i], in[j] = in[j], in[i] })
	perm := rng.Perm(len(in))
	for i := range in {
		in[i].Idx = perm[i]
	}
	return in
}

func genVector(rng *rand.Rand) []PotIn {
	if rng.Intn(4) == 0 {
		return genTieVector(rng)
	}
	n := 1 + rng.Intn(9)
	if rng.Intn(20) == 0 {
		n = 10 + rng.Intn(6)
	}
	// a few distinct contribution levels
	nl := 1 + rng.Intn(4)
	levels := make([]int64, nl)
	for i := range levels {
		switch rng.Intn(4) {
		case 0:
			levels[i] = int64(rng.Intn(4))
		case 1:
			levels[i] = int64(1 + rng.Intn(12))
		default:
			levels[i] = int64(1 + rng.Intn(300))
		}
	}
	if rng.Intn(30) == 0 {
		levels[0] = int64(1e12) + int64(rng.Intn(1000))
	}
	perm := rng.Perm(n)
	in := make([]PotIn, n)
	nscores := 1 + rng.Intn(3)
	maxLevel := int64(0)
	for _, l := range levels {
		if l > maxLevel {
			maxLevel = l
		}
	}
	for i := 0; i < n; i++ {
		w := levels[rng.Intn(nl)]
		f := rng.Intn(3) == 0
		in[i] = PotIn{Idx: perm[i], Wager: w, Fold: f, Bankroll: w + int64(rng.Intn(50))}
		if !f {
			in[i].Score = 1 + rng.Intn(nscores)
		}
	}
	return in
}

func vecCanon(in []PotIn) string {
	var sb strings.Builder
	for _, x := range in {
		fmt.Fprintf(&sb, "%d:%d:%v:%d;", x.Idx, x.Wager, x.Fold, x.Score)
	}
	return sb.String()
}

func potCase(o *Out, in []PotIn) {
	ll := pot.NewLevelList()
	args := []int64{int64(len(in))}
	contrib := map[int]int64{}
	fold := map[int]bool{}
	for _, x := range in {
		ll.AddContributor(x.Wager, x.Idx, x.Fold)
		args = append(args, int64(x.Idx), x.Wager, b2i(x.Fold))
		contrib[x.Idx] = x.Wager
		if x.Fold {
			fold[x.Idx] = true
		}
	}
	ps := ll.GetPots()
	var b Obs
	obsLevels(&b, "levels", ll.GetLevels())
	b.K("pots", potsVals(ps)...)
	b.K("potlevels", potLevelsVals(ps)...)
	o.Line("pot "+ints(args...), b.String())
	oraclePots(o, "C16", ps, contrib, fold, in)
	// non-trivial: at least two distinct positive contributions or a folded contributor with chips
	distinct := map[int64]bool{}
	folded := false
	for _, x := range in {
		if x.Wager > 0 {
			distinct[x.Wager] = true
			if x.Fold {
				folded = true
			}
		}
	}
	if len(distinct) >= 2 || folded {
		o.Distinct("C16", vecCanon(in))
	}
	o.Stat(fmt.Sprintf("pot.n=%d", len(in)))
	o.Stat(fmt.Sprintf("pot.pots=%d", len(ps)))
	if folded {
		o.Stat("pot.with-folded-chips")
	}
	o.Sample("C16", in)
}

// all vectors with n players, contributions 0..maxv, every fold pattern, identity insertion order
// plus one rotated insertion order
func potExhaustive(o *Out, n int, maxv int64, f func(o *Out, in []PotIn)) int {
	cases := 0
	in := make([]PotIn, n)
	var rec func(i int)
	rec = func(i int) {
		if i == n {
			c := make([]PotIn, n)
			copy(c, in)
			f(o, c)
			cases++
			if n > 1 {
				r := append(append([]PotIn{}, c[1:]...), c[0])
				f(o, r)
				cases++
			}
			return
		}
		for w := int64(0); w <= maxv; w++ {
			for fo := 0; fo < 2; fo++ {
				in[i] = PotIn{Idx: i, Wager: w, Fold: fo == 1}
				rec(i + 1)
			}
		}
	}
	rec(0)
	return cases
}

func loadVectors(path string) [][]PotIn {
	var vs [][]PotIn
	data, err := os.ReadFile(path)
	if err != nil {
		return nil
	}
	if json.Unmarshal(data, &vs) != nil {
		var one []PotIn
		if json.Unmarshal(data, &one) == nil {
			vs = append(vs, one)
		}
	}
	return vs
}

func runPot(o *Out, rng *rand.Rand, n int, mode string, scope int, replay string) int {
	cases := 0
	switch mode {
	case "exhaustive":
		for k := 1; k <= scope; k++ {
			cases += potExhaustive(o, k, 4, potCase)
		}
	case "replay", "corpus":
		for _, v := range loadVectors(replay) {
			potCase(o, v)
			cases++
		}
	default:
		for i := 0; i < n; i++ {
			potCase(o, genVector(rng))
			cases++
		}
	}
	return cases
}

// ---------- settlement ----------

// refSettle is an independent statement of the showdown rule: per pot (maximal run of
// contribution layers with the same set of non-folded contributors) the bounds of what each
// player may receive.
func refBounds(in []PotIn) (lo, hi map[int]int64) {
	lo, hi = map[int]int64{}, map[int]int64{}
	lvset := map[int64]bool{}
	for _, x := range in {
		lvset[x.Wager] = true
	}
	var lvs []int64
	for l := range lvset {
		lvs = append(lvs, l)
	}
	sort.Slice(lvs, func(i, j int) bool { return lvs[i] < lvs[j] })
	type layer struct {
		amount int64
		elig   []int
		contr  []int
		wager  int64
	}
	var layers []layer
	prev := int64(0)
	for _, l := range lvs {
		var ly layer
		ly.wager = l - prev
		for _, x := range in {
			if x.Wager >= l {
				ly.contr = append(ly.contr, x.Idx)
				if !x.Fold {
					ly.elig = append(ly.elig, x.Idx)
				}
			}
		}
		ly.amount = int64(len(ly.contr)) * ly.wager
		layers = append(layers, ly)
		prev = l
	}
	score := map[int]int{}
	for _, x := range in {
		score[x.Idx] = x.Score
	}
	i := 0
	for i < len(layers) {
		j := i
		total := int64(0)
		for j < len(layers) && len(layers[j].elig) == len(layers[i].elig) {
			if len(layers[i].elig) == 0 {
				// nobody eligible: every contributor takes the own stake back
				for _, c := range layers[j].contr {
					lo[c] += layers[j].wager
					hi[c] += layers[j].wager
				}
			}
			total += layers[j].amount
			j++
		}
		if len(layers[i].elig) > 0 {
			best := 0
			for _, e := range layers[i].elig {
				if score[e] > best {
					best = score[e]
				}
			}
			var ws []int
			for _, e := range layers[i].elig {
				if score[e] == best {
					ws = append(ws, e)
				}
			}
			k := int64(len(ws))
			for _, w := range ws {
				lo[w] += total / k
				hi[w] += (total + k - 1) / k
			}
		}
		i = j
	}
	return
}

func settleCase(o *Out, in []PotIn) {
	ll := pot.NewLevelList()
	args := []int64{int64(len(in))}
	for _, x := range in {
		ll.AddContributor(x.Wager, x.Idx, x.Fold)
		args = append(args, int64(x.Idx), x.Wager, b2i(x.Fold), x.Bankroll, int64(x.Score))
	}
	ps := ll.GetPots()
	r := settlement.NewResult()
	for _, p := range ps {
		r.AddPot(p.Total, p.Levels)
	}
	for _, x := range in {
		r.AddPlayer(x.Idx, x.Bankroll)
		r.UpdateScore(x.Idx, x.Score)
	}
	panicked := false
	func() {
		defer func() {
			if recover() != nil {
				panicked = true
			}
		}()
		r.Calculate()
	}()
	var b Obs
	if panicked {
		b.K("panic", 1)
		o.Line("settle "+ints(args...), b.String())
		o.Violate("C02", "settlement-panic", "Calculate panicked", in)
		return
	}
	b.K("panic", 0)
	resultObs(&b, r)
	o.Line("settle "+ints(args...), b.String())
	oracleSettle(o, "C02", in, r, in)
	// non-trivial: a side pot, a folded contributor with chips, or a tie
	lv := map[int64]bool{}
	tie := map[int]int{}
	folded := false
	for _, x := range in {
		if x.Wager > 0 {
			lv[x.Wager] = true
		}
		if x.Fold && x.Wager > 0 {
			folded = true
		}
		if !x.Fold {
			tie[x.Score]++
		}
	}
	hasTie := false
	for _, c := range tie {
		if c > 1 {
			hasTie = true
		}
	}
	if len(lv) >= 2 || folded || hasTie {
		o.Distinct("C02", vecCanon(in))
		o.Distinct("C01", vecCanon(in))
	}
	if hasTie {
		o.Stat("settle.tie")
	}
	if len(lv) >= 2 {
		o.Stat("settle.sidepots")
	}
	o.Stat(fmt.Sprintf("settle.n=%d", len(in)))
	o.Sample("C02", in)
	o.Sample("C01", in)
}

func resultObs(b *Obs, r *settlement.Result) {
	var idx, fin, chg, rp []int64
	for _, p := range r.Players {
		idx = append(idx, int64(p.Idx))
		fin = append(fin, p.Final)
		chg = append(chg, p.Changed)
	}
	for _, p := range r.Pots {
		rp = append(rp, p.Total, int64(len(p.Winners)))
		for _, w := range p.Winners {
			rp = append(rp, int64(w.Idx), w.Withdraw)
		}
	}
	b.K("ridx", idx...).K("rfinal", fin...).K("rchanged", chg...).K("rpots", rp...)
}

// oracleSettle: C02 stated on the result; in carries contribution, fold flag, score (>0 iff not folded), bankroll
func oracleSettle(o *Out, prop string, in []PotIn, r *settlement.Result, replay interface{}) {
	changed := map[int]int64{}
	var sum int64
	byIdx := map[int]PotIn{}
	for _, x := range in {
		byIdx[x.Idx] = x
	}
	for _, p := range r.Players {
		changed[p.Idx] = p.Changed
		sum += p.Changed
		x := byIdx[p.Idx]
		// the closing clauses of C01 are statements about the settlement as well
		for _, pr := range []string{prop, "C01"} {
			if p.Final != x.Bankroll+p.Changed {
				o.Violate(pr, "final-not-bankroll-plus-change", fmt.Sprintf("player %d", p.Idx), replay)
			}
			if -p.Changed > x.Wager {
				o.Violate(pr, "lost-more-than-put-in", fmt.Sprintf("player %d changed %d contributed %d", p.Idx, p.Changed, x.Wager), replay)
			}
		}
	}
	if sum != 0 {
		o.Violate(prop, "changes-do-not-sum-to-zero", fmt.Sprintf("sum %d", sum), replay)
		o.Violate("C01", "changes-do-not-sum-to-zero", fmt.Sprintf("sum %d", sum), replay)
	}
	lo, hi := refBounds(in)
	var top, second int64 = -1, -1
	topCount := 0
	for _, x := range in {
		if x.Wager > top {
			second = top
			top = x.Wager
			topCount = 1
		} else if x.Wager == top {
			topCount++
		} else if x.Wager > second {
			second = x.Wager
		}
	}
	for _, x := range in {
		got := changed[x.Idx] + x.Wager
		if got < lo[x.Idx] || got > hi[x.Idx] {
			kind := "share-out-of-bounds"
			if x.Fold {
				kind = "folded-player-share"
			}
			o.Violate(prop, kind, fmt.Sprintf("player %d receives %d, showdown rule allows %d..%d", x.Idx, got, lo[x.Idx], hi[x.Idx]), replay)
		}
		if x.Fold && changed[x.Idx] > 0 {
			o.Violate(prop, "folded-wins", fmt.Sprintf("player %d", x.Idx), replay)
		}
		var cap int64
		for _, y := range in {
			if y.Idx != x.Idx {
				cap += min64(x.Wager, y.Wager)
			}
		}
		if changed[x.Idx] > cap {
			o.Violate(prop, "wins-from-layer-not-paid", fmt.Sprintf("player %d wins %d, at most %d coverable", x.Idx, changed[x.Idx], cap), replay)
		}
		if x.Wager == top && topCount == 1 && second >= 0 && changed[x.Idx] < -second {
			o.Violate(prop, "uncalled-excess-not-returned", fmt.Sprintf("player %d", x.Idx), replay)
		}
	}
}

func runSettle(o *Out, rng *rand.Rand, n int, mode string, scope int, replay string) int {
	cases := 0
	switch mode {
	case "exhaustive":
		// all vectors n<=scope, contributions 0..4, folds, scores 1..3 for the non-folded
		for k := 1; k <= scope; k++ {
			cases += potExhaustive(o, k, 4, func(o *Out, base []PotIn) {
				nf := []int{}
				for i, x := range base {
					if !x.Fold {
						nf = append(nf, i)
					}
				}
				total := 1
				for range nf {
					total *= 3
				}
				for code := 0; code < total; code++ {
					c := code
					in := append([]PotIn{}, base...)
					for _, i := range nf {
						in[i].Score = 1 + c%3
						c /= 3
					}
					for i := range in {
						in[i].Bankroll = in[i].Wager + 10
					}
					settleCase(o, in)
				}
			})
		}
	case "replay", "corpus":
		for _, v := range loadVectors(replay) {
			settleCase(o, v)
			cases++
		}
	default:
		for i := 0; i < n; i++ {
			settleCase(o, genVector(rng))
			cases++
		}
	}
	return cases
}
