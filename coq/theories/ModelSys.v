(* ModelSys.v — the regulator together with tables that follow its instructions, as one executable state
   machine: the environment of the theorems about C09, C19 and C20.  The extracted runner steps this machine on
   the histories the Go harness plays, and the tables, the players in transit and the living players it
   computes are compared with the harness's own after every operation.  Definitions only. *)
From PF Require Import Base ModelReg.

(* ---------- the tables of the environment: (id, members) ---------- *)
Definition tabs := list (Z * list Z).

Fixpoint add_members (id : Z) (ps : list Z) (ts : tabs) : tabs :=
  match ts with
  | [] => []
  | (i, m) :: rest => if i =? id then (i, m ++ ps) :: rest else (i, m) :: add_members id ps rest
  end.

Definition apply_event (ts : tabs) (e : revent) : tabs :=
  match e with
  | EvRequest id ps => ts ++ [(id, ps)]
  | EvAssign id ps => add_members id ps ts
  end.

(* the callbacks of a call, carried out in the order they were made (rs_ev is newest first) *)
Definition env_of (evs : list revent) (ts0 : tabs) : tabs := fold_left apply_event (rev evs) ts0.

Definition members (ts : tabs) : list Z := concat (map snd ts).

Fixpoint lookup (id : Z) (ts : tabs) : option (list Z) :=
  match ts with [] => None | (i, m) :: rest => if i =? id then Some m else lookup id rest end.
Fixpoint set_members (id : Z) (m' : list Z) (ts : tabs) : tabs :=
  match ts with [] => [] | (i, m) :: rest => if i =? id then (i, m') :: rest else (i, m) :: set_members id m' rest end.
Definition remove_table (id : Z) (ts : tabs) : tabs := filter (fun x => negb (fst x =? id)) ts.

(* ---------- the system as a state machine: any history of registrations, status changes, syncs with
   eliminations, and hand-backs ---------- *)
Record sys := mkS { s_st : rst; s_tabs : tabs; s_transit : list Z; s_alive : list Z }.

Inductive sop :=
| SRegister (choices players : list Z)       (* AddPlayers; choices: the order in which the Go map is iterated *)
| SStatus (choices : list Z) (status : Z)    (* SetStatus *)
| SSync (id : Z) (out : nat)                 (* `out` players of table id are eliminated, then SyncState(id, out);
                                                the table carries out the answer *)
| SRelease (choices : list Z) (k : nat).     (* the first k players in transit are handed back: ReleasePlayers *)

Definition prep (st : rst) (cs : list Z) : rst := mkRst (rs_reg st) [] cs (rs_bad st).

Fixpoint nodupb (l : list Z) : bool := match l with [] => true | x :: t => negb (zmem x t) && nodupb t end.
Definition fresh_ok (players alive : list Z) : bool := nodupb players && forallb (fun p => negb (zmem p alive)) players.

Definition sys_step (s : sys) (o : sop) : sys :=
  match o with
  | SRegister cs players =>
      if fresh_ok players (s_alive s) then
        let r := add_players (prep (s_st s) cs) players in
        match snd r with
        | ROk => mkS (fst r) (env_of (rs_ev (fst r)) (s_tabs s)) (s_transit s) (s_alive s ++ players)
        | _ => s
        end
      else s
  | SStatus cs x =>
      let st' := do_set_status (prep (s_st s) cs) x in
      mkS st' (env_of (rs_ev st') (s_tabs s)) (s_transit s) (s_alive s)
  | SSync id out =>
      match lookup id (s_tabs s) with
      | None => s
      | Some m =>
          if Nat.leb out (length m) then
            let res := sync_state (prep (s_st s) []) id (zn out) in
            let st1 := fst (fst (fst res)) in
            let rel := snd (fst (fst res)) in
            let handed := snd (fst res) in
            let alive' := filter (fun p => negb (zmem p (firstn out m))) (s_alive s) in
            match find_table id (r_tables (rs_reg st1)) with
            | Some _ =>
                let m1 := skipn out m ++ handed in
                mkS st1 (set_members id (skipn (Z.to_nat rel) m1) (s_tabs s)) (s_transit s ++ firstn (Z.to_nat rel) m1) alive'
            | None => mkS st1 (remove_table id (s_tabs s)) (s_transit s ++ skipn out m) alive'
            end
          else s
      end
  | SRelease cs k =>
      match firstn k (s_transit s) with
      | [] => s
      | batch =>
          let st' := release_players (prep (s_st s) cs) batch in
          mkS st' (env_of (rs_ev st') (s_tabs s)) (skipn k (s_transit s)) (s_alive s)
      end
  end.

Definition sys_init (mx mn : Z) : sys := mkS (mkRst (reg_init mx mn) [] [] false) [] [] [].
Definition sys_run (s : sys) (ops : list sop) : sys := fold_left sys_step ops s.

(* ---------- the same machine with the table's and the caller's choices left open: which members of the
   table are eliminated, and which of the players in transit are handed back (in which order) ---------- *)
Inductive gop :=
| GRegister (choices players : list Z)
| GStatus (choices : list Z) (status : Z)
| GSync (id : Z) (elim : list Z)              (* the members `elim` of table id are eliminated, then SyncState *)
| GRelease (choices : list Z) (batch : list Z). (* the players `batch`, all in transit, are handed back *)

Definition sub_ok (l m : list Z) : bool := nodupb l && forallb (fun p => zmem p m) l.
Definition without (l m : list Z) : list Z := filter (fun p => negb (zmem p l)) m.

Definition sys_gstep (s : sys) (o : gop) : sys :=
  match o with
  | GRegister cs players => sys_step s (SRegister cs players)
  | GStatus cs x => sys_step s (SStatus cs x)
  | GSync id elim =>
      match lookup id (s_tabs s) with
      | None => s
      | Some m =>
          if sub_ok elim m
          then sys_step (mkS (s_st s) (set_members id (elim ++ without elim m) (s_tabs s)) (s_transit s) (s_alive s))
                        (SSync id (length elim))
          else s
      end
  | GRelease cs batch =>
      if sub_ok batch (s_transit s)
      then sys_step (mkS (s_st s) (s_tabs s) (batch ++ without batch (s_transit s)) (s_alive s)) (SRelease cs (length batch))
      else s
  end.

Definition sys_grun (s : sys) (ops : list gop) : sys := fold_left sys_gstep ops s.
