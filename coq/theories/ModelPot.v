(* ModelPot.v — model of package pot (level_list.go, level.go, pot.go).
   Go maps are modelled as association lists sorted by key; the level slice is
   kept sorted ascending (the Go code re-sorts it on every AddContributor and all
   keys are distinct, so the sorting algorithm does not matter). *)
From PF Require Import Base.

Record level := mkLevel {
  l_level : Z; l_wager : Z; l_total : Z; l_contribs : list Z }.

Record pot := mkPot {
  pt_level : Z; pt_wager : Z; pt_total : Z;
  pt_contribs : list (Z * Z);     (* Contributors map[int]int64, sorted by index *)
  pt_levels : list level }.       (* Levels, json:"-" *)

Record llist := mkLL {
  ll_contribs : list (Z * Z);    (* contributors: idx -> wager *)
  ll_folded : list Z;            (* foldedPlayers (a set) *)
  ll_lvals : list Z }.           (* Level values of ll.levels, ascending *)

Definition ll_empty : llist := mkLL [] [] [].

(* AddContributor(wager, idx, fold) *)
Definition add_contributor (ll : llist) (wager idx : Z) (fold : bool) : llist :=
  mkLL (zmap_set idx wager (ll_contribs ll))
       (if fold then zset_add idx (ll_folded ll) else ll_folded ll)
       (zset_add wager (ll_lvals ll)).

Definition contributors_ge (cs : list (Z * Z)) (lv : Z) : list Z :=
  map fst (filter (fun c => lv <=? snd c) cs).

Fixpoint build_levels (cs : list (Z * Z)) (prev : Z) (lvs : list Z) : list level :=
  match lvs with
  | [] => []
  | lv :: t =>
      let c := contributors_ge cs lv in
      mkLevel lv (lv - prev) (zn (length c) * (lv - prev)) c :: build_levels cs lv t
  end.

(* the derived content of ll.levels after the last AddContributor *)
Definition ll_levels (ll : llist) : list level :=
  build_levels (ll_contribs ll) 0 (ll_lvals ll).

(* first loop of GetPots: one pot per level, folded players removed *)
Definition orig_pot (folded : list Z) (l : level) : pot :=
  mkPot (l_level l) (l_wager l) (l_total l)
        (map (fun i => (i, l_wager l)) (filter (fun i => negb (zmem i folded)) (l_contribs l)))
        [l].

Definition zmap_add (k v : Z) (m : list (Z * Z)) : list (Z * Z) :=
  zmap_set k (option_default 0 (zmap_get k m) + v) m.

Definition merge_into (prev p : pot) : pot :=
  mkPot (pt_level p) (pt_wager prev + pt_wager p) (pt_total prev + pt_total p)
        (fold_left (fun m kv => zmap_add (fst kv) (snd kv) m) (pt_contribs p) (pt_contribs prev))
        (pt_levels prev ++ pt_levels p).

(* second loop: merge consecutive pots with the same number of contributors.
   acc is reversed (head = prev). *)
Definition merge_step (acc : list pot) (p : pot) : list pot :=
  match acc with
  | [] => [p]
  | prev :: rest =>
      if Nat.eqb (length (pt_contribs prev)) (length (pt_contribs p))
      then merge_into prev p :: rest
      else p :: acc
  end.

Definition merge_pots (ps : list pot) : list pot := rev (fold_left merge_step ps []).

(* third loop: put one folded player back *)
Fixpoint put_back (idx wager : Z) (ps : list pot) : list pot :=
  match ps with
  | [] => []
  | p :: t =>
      let p' := mkPot (pt_level p) (pt_wager p) (pt_total p)
                      (zmap_set idx wager (pt_contribs p)) (pt_levels p) in
      if wager <=? pt_level p then p' :: t else p' :: put_back idx wager t
  end.

Definition put_back_all (cs : list (Z * Z)) (folded : list Z) (ps : list pot) : list pot :=
  fold_left (fun ps idx =>
               let w := option_default 0 (zmap_get idx cs) in
               if w =? 0 then ps else put_back idx w ps) folded ps.

Definition get_pots (ll : llist) : list pot :=
  put_back_all (ll_contribs ll) (ll_folded ll)
               (merge_pots (map (orig_pot (ll_folded ll)) (ll_levels ll))).

(* the published pots before the put-back loop (what settlement-relevant
   eligibility looks like); used in theorems only *)
Definition merged_pots (ll : llist) : list pot :=
  merge_pots (map (orig_pot (ll_folded ll)) (ll_levels ll)).

(* building a level list from a vector of (idx, wager, fold) in insertion order *)
Definition ll_of (inputs : list (Z * Z * bool)) : llist :=
  fold_left (fun ll x => add_contributor ll (snd (fst x)) (fst (fst x)) (snd x)) inputs ll_empty.

(* ---- observations ---- *)
Definition obs_level (l : level) : list Z :=
  l_level l :: l_wager l :: l_total l :: zn (length (l_contribs l)) :: l_contribs l.

Definition obs_pot (p : pot) : list Z :=
  pt_level p :: pt_wager p :: pt_total p :: zn (length (pt_contribs p))
  :: flat_map (fun kv => [fst kv; snd kv]) (pt_contribs p).

Definition obs_pots (ps : list pot) : list Z := flat_map obs_pot ps.

Definition obs_potlevels (ps : list pot) : list Z :=
  flat_map (fun p => zn (length (pt_levels p)) :: flat_map obs_level (pt_levels p)) ps.

Definition run_pot_case (inputs : list (Z * Z * bool)) : obs :=
  let ll := ll_of inputs in
  let ps := get_pots ll in
  [("levels"%string, flat_map obs_level (ll_levels ll));
   ("pots"%string, obs_pots ps);
   ("potlevels"%string, obs_potlevels ps)].
