package main

import (
	"encoding/json"
	"fmt"
	"math/rand"
	"os"
	"sort"
	"strings"

	sm "github.com/weedbox/pokerface/seat_manager"
)

// SeatOp: code 0 join(a; b=observed choice), 1 sit, 2 reserve, 3 leave, 4 next
type SeatOp struct {
	Code int `json:"code"`
	A    int `json:"a"`
}

type SeatState struct {
	Occ []int64 `json:"occ"`
	Act []int64 `json:"act"`
	Res []int64 `json:"res"`
	Pos []int   `json:"pos"`
}

type SeatCase struct {
	Max   int        `json:"max"`
	State *SeatState `json:"state,omitempty"` // start from this state (ApplyStates) instead of an empty table
	Ops   []SeatOp   `json:"ops"`
}

func applySeatState(m *sm.SeatManager, max int, st *SeatState) {
	state := &sm.SeatManagerState{Max: max, Seats: map[int]*sm.Seat{}, Dealer: st.Pos[0], SB: st.Pos[1], BB: st.Pos[2]}
	for i := 0; i < max; i++ {
		var p sm.PlayerInfo
		if st.Occ[i] != 0 {
			p = fmt.Sprintf("s%d", i)
		}
		state.Seats[i] = &sm.Seat{ID: i, IsActive: st.Act[i] != 0, IsReserved: st.Res[i] != 0, Player: p}
	}
	m.ApplyStates(state)
}

type seatSnap struct {
	occ, act, res []bool
	player        []interface{}
	d, sb, bb     int
}

func snapOf(m *sm.SeatManager) seatSnap {
	var s seatSnap
	for _, x := range m.GetSeats() {
		s.occ = append(s.occ, x.Player != nil)
		s.act = append(s.act, x.IsActive)
		s.res = append(s.res, x.IsReserved)
		s.player = append(s.player, x.Player)
	}
	id := func(x *sm.Seat) int {
		if x == nil {
			return -1
		}
		return x.ID
	}
	s.d, s.sb, s.bb = id(m.Dealer()), id(m.SmallBlind()), id(m.BigBlind())
	return s
}

func (s seatSnap) playable(i int) bool { return s.occ[i] && s.act[i] && !s.res[i] }
func (s seatSnap) playableCount() int {
	c := 0
	for i := range s.occ {
		if s.playable(i) {
			c++
		}
	}
	return c
}
func (s seatSnap) key() string {
	var sb strings.Builder
	for i := range s.occ {
		sb.WriteByte(byte('0' + b2i(s.occ[i]) + 2*b2i(s.act[i]) + 4*b2i(s.res[i])))
	}
	fmt.Fprintf(&sb, "|%d,%d,%d", s.d, s.sb, s.bb)
	return sb.String()
}
func (s seatSnap) vals() (occ, act, res []int64) {
	for i := range s.occ {
		occ = append(occ, b2i(s.occ[i]))
		act = append(act, b2i(s.act[i]))
		res = append(res, b2i(s.res[i]))
	}
	return
}

func errCode(err error) int64 {
	switch err {
	case nil:
		return 0
	case sm.ErrNotFoundSeat:
		return 1
	case sm.ErrNoAvailableSeat:
		return 2
	case sm.ErrNotAvailable:
		return 3
	case sm.ErrInvalidSeat:
		return 4
	case sm.ErrInsufficientNumberOfPlayers:
		return 5
	case sm.ErrEmptySeat:
		return 6
	}
	return 7
}

func seatObs(s seatSnap, code int64, ret int) string {
	var b Obs
	occ, act, res := s.vals()
	b.K("o", code).K("ret", int64(ret)).K("occ", occ...).K("act", act...).K("res", res...).K("pos", int64(s.d), int64(s.sb), int64(s.bb))
	return b.String()
}

// first playable seat strictly after `from` clockwise (from = -1: starting at seat 0)
func firstPlayableAfter(s seatSnap, from int) int {
	n := len(s.occ)
	for k := 1; k <= n; k++ {
		i := (from + k) % n
		if from < 0 {
			i = k - 1
		}
		if s.playable(i) {
			return i
		}
	}
	return -1
}

type seatTracker struct {
	noCount    bool
	nextPlayer int
	joins      int
	leaves     int
}

// applySeatOp executes one op on the implementation, runs the oracles, returns outcome code, returned seat, observed choice
func applySeatOp(o *Out, m *sm.SeatManager, op SeatOp, tr *seatTracker, replay func() interface{}) (code int64, ret int, choice int, panicked bool) {
	pre := snapOf(m)
	n := len(pre.occ)
	ret, choice = -1, -1
	var err error
	func() {
		defer func() {
			if r := recover(); r != nil {
				panicked = true
				o.Violate("C18", "seat-manager-panic", fmt.Sprintf("op %+v panicked: %v", op, r), replay())
			}
		}()
		switch op.Code {
		case 0:
			tr.nextPlayer++
			ret, err = m.Join(op.A, fmt.Sprintf("p%d", tr.nextPlayer))
			if err == nil {
				choice = ret
			}
		case 1:
			err = m.Seat(op.A)
		case 2:
			err = m.Reserve(op.A)
		case 3:
			err = m.Leave(op.A)
		case 4:
			err = m.Next()
		}
	}()
	if panicked {
		return 9, -1, -1, true
	}
	code = errCode(err)
	post := snapOf(m)
	unchanged := pre.key() == post.key()
	switch op.Code {
	case 0:
		if op.A >= n || op.A < -1 || (op.A >= 0 && pre.occ[op.A]) {
			if err == nil || !unchanged {
				o.Violate("C18", "join-occupied-or-out-of-range-accepted", fmt.Sprintf("Join(%d) err=%v", op.A, err), replay())
			}
		} else if op.A >= 0 {
			if err != nil || ret != op.A {
				o.Violate("C18", "join-free-seat-refused", fmt.Sprintf("Join(%d) err=%v ret=%d", op.A, err, ret), replay())
			}
		} else {
			avail := 0
			for i := 0; i < n; i++ {
				if !pre.occ[i] && !pre.res[i] {
					avail++
				}
			}
			if err == nil {
				if ret < 0 || ret >= n || pre.occ[ret] || pre.res[ret] {
					o.Violate("C18", "join-any-bad-seat", fmt.Sprintf("Join(-1) put the player on seat %d", ret), replay())
				}
			} else if err == sm.ErrNoAvailableSeat {
				if avail > 0 {
					o.Violate("C18", "join-any-none-available-but-free-seat-exists", fmt.Sprintf("%d free seats", avail), replay())
				}
			} else {
				o.Violate("C18", "join-any-unexpected-error", fmt.Sprint(err), replay())
			}
		}
		if err == nil {
			tr.joins++
			// exactly that seat changed: occupied and held out of play
			for i := 0; i < n; i++ {
				if i == ret {
					if !post.occ[i] || post.playable(i) {
						o.Violate("C18", "joined-player-not-held-out", fmt.Sprintf("seat %d after Join", i), replay())
					}
				} else if pre.occ[i] != post.occ[i] || pre.player[i] != post.player[i] {
					o.Violate("C18", "join-touched-other-seat", fmt.Sprintf("seat %d", i), replay())
				}
			}
		}
	case 3:
		if op.A < 0 || op.A >= n || !pre.occ[op.A] {
			if err == nil || !unchanged {
				o.Violate("C18", "leave-empty-or-unknown-accepted", fmt.Sprintf("Leave(%d) err=%v", op.A, err), replay())
			}
		} else {
			if err != nil {
				o.Violate("C18", "leave-refused", fmt.Sprintf("Leave(%d) err=%v", op.A, err), replay())
			} else {
				tr.leaves++
				for i := 0; i < n; i++ {
					if i == op.A {
						if post.occ[i] {
							o.Violate("C18", "leave-did-not-free-seat", fmt.Sprintf("seat %d", i), replay())
						}
					} else if pre.occ[i] != post.occ[i] || pre.player[i] != post.player[i] {
						o.Violate("C18", "leave-touched-other-seat", fmt.Sprintf("seat %d", i), replay())
					}
				}
			}
		}
	case 4:
		oracleNext(o, pre, post, err, replay)
	}
	// seat / player uniqueness and the count
	seen := map[interface{}]bool{}
	cnt := 0
	for i := 0; i < n; i++ {
		if post.occ[i] {
			cnt++
			if seen[post.player[i]] {
				o.Violate("C18", "player-seated-twice", fmt.Sprintf("%v", post.player[i]), replay())
			}
			seen[post.player[i]] = true
		}
	}
	if m.GetPlayerCount() != cnt {
		o.Violate("C18", "player-count-wrong", fmt.Sprintf("GetPlayerCount=%d occupied=%d", m.GetPlayerCount(), cnt), replay())
	}
	if tr != nil && !tr.noCount && cnt != tr.joins-tr.leaves {
		o.Violate("C18", "count-not-joins-minus-leaves", fmt.Sprintf("occupied=%d joins=%d leaves=%d", cnt, tr.joins, tr.leaves), replay())
	}
	checkSeatGetters(o, m, post, replay)
	return code, ret, choice, false
}

// checkSeatGetters: the read side of the seat manager in the state just reached — every public getter answers
// without panicking and says what the seat map says (C18: no crash, counts; C08 / C17: who can play)
func checkSeatGetters(o *Out, m *sm.SeatManager, s seatSnap, replay func() interface{}) {
	n := len(s.occ)
	defer func() {
		if r := recover(); r != nil {
			o.Violate("C18", "seat-manager-panic", fmt.Sprintf("a getter panicked: %v", r), replay())
		}
	}()
	bad := func(prop, what string) { o.Violate(prop, "getter-disagrees-with-seat-map", what, replay()) }
	if m.GetSeatCount() != n {
		bad("C18", fmt.Sprintf("GetSeatCount=%d, %d seats", m.GetSeatCount(), n))
	}
	all := m.GetSeats()
	for i := 0; i < n; i++ {
		if x := m.GetSeat(i); x == nil || x != all[i] || x.ID != i {
			bad("C18", fmt.Sprintf("GetSeat(%d)", i))
		}
	}
	if m.GetSeat(n) != nil || m.GetSeat(-1) != nil {
		bad("C18", "GetSeat outside the table is not nil")
	}
	ids := func(l []*sm.Seat) []int {
		var r []int
		for _, x := range l {
			r = append(r, x.ID)
		}
		return r
	}
	same := func(a, b []int) bool {
		if len(a) != len(b) {
			return false
		}
		for i := range a {
			if a[i] != b[i] {
				return false
			}
		}
		return true
	}
	// clockwise from a given seat
	for start := 0; start < n; start++ {
		var want []int
		for k := 0; k < n; k++ {
			want = append(want, (start+k)%n)
		}
		if got := ids(m.GetNormalizeSeats(start)); !same(got, want) {
			bad("C18", fmt.Sprintf("GetNormalizeSeats(%d)=%v", start, got))
		}
	}
	var active, playable, avail, alt []int
	from := 0
	if s.d >= 0 {
		from = s.d
	}
	for i := 0; i < n; i++ {
		if s.act[i] {
			active = append(active, i)
		}
		if j := (from + i) % n; s.playable(j) {
			playable = append(playable, j)
		}
		if !s.occ[i] && !s.res[i] {
			if s.act[i] {
				avail = append(avail, i)
			} else {
				alt = append(alt, i)
			}
		}
	}
	if got := ids(m.GetActiveSeats()); !same(got, active) {
		bad("C18", fmt.Sprintf("GetActiveSeats=%v, active %v", got, active))
	}
	for _, prop := range []string{"C08", "C17"} {
		if got := ids(m.GetPlayableSeats()); !same(got, playable) {
			bad(prop, fmt.Sprintf("GetPlayableSeats=%v, playable clockwise from the dealer %v", got, playable))
		}
		if got := m.GetPlayableSeatCount(); got != len(playable) {
			bad(prop, fmt.Sprintf("GetPlayableSeatCount=%d, playable %v", got, playable))
		}
	}
	ga, gb := m.GetAvailableSeats()
	sort.Ints(ga)
	sort.Ints(gb)
	if !same(ga, avail) || !same(gb, alt) {
		bad("C18", fmt.Sprintf("GetAvailableSeats=%v,%v, empty non-reserved seats: active %v inactive %v", ga, gb, avail, alt))
	}
	if got := m.GetAvailableSeatCount(); got != len(avail) {
		bad("C18", fmt.Sprintf("GetAvailableSeatCount=%d, available %v", got, avail))
	}
}

// oracleNext states C17 and C08 (positions) on one Next()
func oracleNext(o *Out, pre, post seatSnap, err error, replay func() interface{}) {
	n := len(pre.occ)
	nonEmpty := 0
	for i := 0; i < n; i++ {
		if pre.occ[i] && !pre.res[i] {
			nonEmpty++
		}
	}
	pc := pre.playableCount()
	if pc >= 2 {
		want := firstPlayableAfter(pre, pre.d)
		if err != nil {
			o.Violate("C17", "next-refused-with-two-playable", fmt.Sprintf("%d playable, err=%v", pc, err), replay())
		} else if post.d != want {
			kind := "button-wrong-seat"
			if post.d == pre.d {
				kind = "button-stayed"
			}
			o.Violate("C17", kind, fmt.Sprintf("dealer %d -> %d, first playable clockwise is %d", pre.d, post.d, want), replay())
		}
	}
	if nonEmpty < 2 {
		if err != sm.ErrInsufficientNumberOfPlayers {
			o.Violate("C17", "next-accepted-with-fewer-than-two", fmt.Sprintf("%d seated non-reserved players, err=%v", nonEmpty, err), replay())
		}
	}
	if err != nil {
		if err != sm.ErrInsufficientNumberOfPlayers {
			o.Violate("C17", "next-unexpected-error", fmt.Sprint(err), replay())
		}
		return
	}
	// C08 positions
	bad := func(kind, what string) { o.Violate("C08", kind, what, replay()) }
	if post.d < 0 || post.sb < 0 || post.bb < 0 {
		bad("position-missing", fmt.Sprintf("dealer=%d sb=%d bb=%d", post.d, post.sb, post.bb))
		return
	}
	for _, x := range []int{post.d, post.sb, post.bb} {
		if !post.playable(x) {
			bad("position-on-unplayable-seat", fmt.Sprintf("seat %d (dealer=%d sb=%d bb=%d)", x, post.d, post.sb, post.bb))
			return
		}
	}
	k := post.playableCount()
	if k == 2 {
		if post.sb != post.d || post.bb == post.d {
			bad("headsup-positions", fmt.Sprintf("dealer=%d sb=%d bb=%d", post.d, post.sb, post.bb))
		}
	} else if k >= 3 {
		wsb := firstPlayableAfter(post, post.d)
		wbb := firstPlayableAfter(post, wsb)
		if post.sb != wsb || post.bb != wbb {
			// F11: the heads-up rule was applied with the playable count taken before the seats behind
			// the big blind were re-activated
			stale := post.sb == post.d && post.bb == wsb
			if stale {
				// seats the button passed in this move (strictly between the old and the new dealer)
				passed := map[int]bool{}
				if pre.d >= 0 {
					for i := (pre.d + 1) % n; i != post.d; i = (i + 1) % n {
						passed[i] = true
					}
				}
				for i := 0; i < n; i++ {
					if post.playable(i) && i != post.d && i != post.bb {
						// F11 is about waiting players behind the big blind who were let in by
						// renewSeatStatus after the playable seats had been counted
						if !(pre.occ[i] && !pre.res[i] && !pre.act[i]) || passed[i] {
							stale = false
						}
					}
				}
			}
			if stale {
				bad("headsup-rule-with-stale-playable-count", fmt.Sprintf("%d playable seats but dealer=sb=%d bb=%d", k, post.d, post.bb))
			} else {
				bad("blinds-wrong-seat", fmt.Sprintf("%d playable: dealer=%d sb=%d (want %d) bb=%d (want %d)", k, post.d, post.sb, wsb, post.bb, wbb))
			}
		}
	}
}

func genSeatOp(rng *rand.Rand, n int) SeatOp {
	seat := rng.Intn(n)
	if rng.Intn(25) == 0 {
		seat = []int{-1, -2, n, n + 3, -7}[rng.Intn(5)]
	}
	switch r := rng.Intn(100); {
	case r < 22:
		return SeatOp{0, seat}
	case r < 30:
		return SeatOp{0, -1}
	case r < 52:
		return SeatOp{1, seat}
	case r < 58:
		return SeatOp{2, seat}
	case r < 75:
		return SeatOp{3, seat}
	default:
		return SeatOp{4, 0}
	}
}

func seatHistory(o *Out, c SeatCase) {
	m := sm.NewSeatManager(c.Max)
	tr := &seatTracker{}
	done := []SeatOp{}
	replay := func() interface{} { return SeatCase{c.Max, c.State, append([]SeatOp{}, done...)} }
	b, _ := json.Marshal(c.Max)
	o.Mark("seat max=" + string(b))
	if c.State != nil {
		applySeatState(m, c.Max, c.State)
		tr.noCount = true
		args := []int64{int64(c.Max)}
		args = append(args, c.State.Occ...)
		args = append(args, c.State.Act...)
		args = append(args, c.State.Res...)
		args = append(args, int64(c.State.Pos[0]), int64(c.State.Pos[1]), int64(c.State.Pos[2]))
		o.Line("sm-set "+ints(args...), seatObs(snapOf(m), 0, -1))
	} else {
		o.Line(fmt.Sprintf("sm-new %d", c.Max), seatObs(snapOf(m), 0, -1))
	}
	nexts, okNexts := 0, 0
	for _, op := range c.Ops {
		done = append(done, op)
		code, ret, choice, panicked := applySeatOp(o, m, op, tr, replay)
		if panicked {
			o.Line(fmt.Sprintf("sm %d %d %d", op.Code, op.A, choice), "o=9")
			break
		}
		if op.Code == 4 {
			nexts++
			if code == 0 {
				okNexts++
			}
		}
		o.Line(fmt.Sprintf("sm %d %d %d", op.Code, op.A, choice), seatObs(snapOf(m), code, ret))
	}
	o.StatN("seat.ops", len(c.Ops))
	o.StatN("seat.next", nexts)
	o.StatN("seat.next-ok", okNexts)
	o.Stat(fmt.Sprintf("seat.max=%d", c.Max))
	if okNexts >= 2 {
		k := fmt.Sprint(c)
		o.Distinct("C08", k)
		o.Distinct("C17", k)
	}
	if len(c.Ops) >= 4 {
		o.Distinct("C18", fmt.Sprint(c))
	}
	if len(c.Ops) <= 30 {
		o.Sample("C08", c)
		o.Sample("C17", c)
		o.Sample("C18", c)
	}
}

// newcomer scenario of C08: a player takes an empty seat strictly between dealer and big blind,
// then only Next() is applied; the seat must be playable exactly from the first hand after the
// button has moved past it.
func newcomerScenario(o *Out, rng *rand.Rand) {
	n := 4 + rng.Intn(7)
	m := sm.NewSeatManager(n)
	var ops []SeatOp
	do := func(op SeatOp) error {
		ops = append(ops, op)
		switch op.Code {
		case 0:
			_, err := m.Join(op.A, fmt.Sprintf("q%d", len(ops)))
			return err
		case 1:
			return m.Seat(op.A)
		case 2:
			return m.Reserve(op.A)
		case 3:
			return m.Leave(op.A)
		case 4:
			return m.Next()
		}
		return nil
	}
	perm := rng.Perm(n)
	k := 3 + rng.Intn(n-3)
	for _, s := range perm[:k] {
		do(SeatOp{0, s})
		do(SeatOp{1, s})
	}
	// sometimes an empty seat is reserved before the hands start (Reserve does not ask for a player)
	if rng.Intn(3) == 0 {
		for _, s := range perm[k:] {
			if rng.Intn(2) == 0 {
				do(SeatOp{2, s})
			}
		}
	}
	for i := 0; i < 1+rng.Intn(3); i++ {
		if do(SeatOp{4, 0}) != nil {
			return
		}
	}
	// the empty seats strictly between dealer and big blind (reserved ones included)
	s0 := snapOf(m)
	var gaps []int
	for i := (s0.d + 1) % n; i != s0.bb; i = (i + 1) % n {
		if !s0.occ[i] {
			gaps = append(gaps, i)
		}
	}
	if len(gaps) == 0 {
		return
	}
	x := gaps[rng.Intn(len(gaps))]
	// sometimes a visitor takes the seat and gives it up again first (join / sit / reserve / leave)
	for v := rng.Intn(3); v > 0; v-- {
		if do(SeatOp{0, x}) != nil {
			return
		}
		if rng.Intn(2) == 0 {
			do(SeatOp{1, x})
		}
		if rng.Intn(3) == 0 {
			do(SeatOp{2, x})
		}
		if do(SeatOp{3, x}) != nil {
			return
		}
	}
	if do(SeatOp{0, x}) != nil || do(SeatOp{1, x}) != nil {
		return
	}
	others := 0
	s1 := snapOf(m)
	for i := 0; i < n; i++ {
		if i != x && s1.playable(i) {
			others++
		}
	}
	if others < 2 {
		return
	}
	passed := false
	replay := func() interface{} { return SeatCase{n, nil, append([]SeatOp{}, ops...)} }
	for h := 0; h < n+2; h++ {
		pre := snapOf(m)
		if do(SeatOp{4, 0}) != nil {
			return
		}
		post := snapOf(m)
		// did the button move past x in this move? (x strictly between old and new dealer clockwise)
		for i := (pre.d + 1) % n; i != post.d; i = (i + 1) % n {
			if i == x {
				passed = true
			}
		}
		if post.playable(x) != passed {
			kind := "newcomer-dealt-in-early"
			if passed {
				kind = "newcomer-kept-out-late"
			}
			o.Violate("C08", kind, fmt.Sprintf("seat %d: playable=%v, button passed=%v after hand %d (dealer %d->%d)", x, post.playable(x), passed, h+1, pre.d, post.d), replay())
			return
		}
	}
	o.Stat("seat.newcomer-scenarios")
	o.Distinct("C08", "newcomer:"+fmt.Sprint(ops))
}

func loadSeatCases(path string) []SeatCase {
	var cs []SeatCase
	data, err := os.ReadFile(path)
	if err != nil {
		return nil
	}
	if json.Unmarshal(data, &cs) != nil {
		var one SeatCase
		if json.Unmarshal(data, &one) == nil {
			cs = []SeatCase{one}
		}
	}
	return cs
}

// complete reachable graph for tables of `max` seats, explored with ApplyStates
func seatBFS(o *Out, max int) (states, transitions int) {
	type st struct{ s seatSnap }
	start := snapOf(sm.NewSeatManager(max))
	seen := map[string]bool{start.key(): true}
	queue := []seatSnap{start}
	var ops []SeatOp
	for i := 0; i < max; i++ {
		ops = append(ops, SeatOp{0, i}, SeatOp{1, i}, SeatOp{2, i}, SeatOp{3, i})
	}
	ops = append(ops, SeatOp{0, -1}, SeatOp{4, 0})
	for len(queue) > 0 {
		cur := queue[0]
		queue = queue[1:]
		states++
		for _, op := range ops {
			m := sm.NewSeatManager(max)
			cocc, cact, cres := cur.vals()
			cst := &SeatState{cocc, cact, cres, []int{cur.d, cur.sb, cur.bb}}
			applySeatState(m, max, cst)
			tr := &seatTracker{noCount: true}
			op := op
			replay := func() interface{} { return SeatCase{max, cst, []SeatOp{op}} }
			code, ret, choice, panicked := applySeatOp(o, m, op, tr, replay)
			transitions++
			occ, act, res := cur.vals()
			args := []int64{int64(max)}
			args = append(args, occ...)
			args = append(args, act...)
			args = append(args, res...)
			args = append(args, int64(cur.d), int64(cur.sb), int64(cur.bb), int64(op.Code), int64(op.A), int64(choice))
			if panicked {
				o.Line("sm-x "+ints(args...), "o=9")
				continue
			}
			nx := snapOf(m)
			o.Line("sm-x "+ints(args...), seatObs(nx, code, ret))
			if !seen[nx.key()] {
				seen[nx.key()] = true
				queue = append(queue, nx)
			}
		}
	}
	return
}

func runSeat(o *Out, rng *rand.Rand, n int, mode string, scope int, replay string) int {
	cases := 0
	switch mode {
	case "exhaustive":
		for k := 2; k <= scope; k++ {
			s, t := seatBFS(o, k)
			o.StatN(fmt.Sprintf("seat.bfs.max=%d.states", k), s)
			o.StatN(fmt.Sprintf("seat.bfs.max=%d.transitions", k), t)
			o.StatN("seat.states", s)
			o.StatN("seat.transitions", t)
			cases += t
			for _, p := range []string{"C08", "C17", "C18"} {
				o.Distinct(p, fmt.Sprintf("bfs-%d-a", k))
				o.Distinct(p, fmt.Sprintf("bfs-%d-b", k))
				o.Sample(p, map[string]interface{}{"complete reachable graph, seats": k, "states": s, "transitions": t})
			}
		}
	case "replay", "corpus":
		for _, c := range loadSeatCases(replay) {
			if c.Max > 0 {
				seatHistory(o, c)
				cases++
			}
		}
	default:
		for i := 0; i < n; i++ {
			c := SeatCase{Max: 2 + rng.Intn(9), State: nil}
			if rng.Intn(10) == 0 {
				c.Max = 1 + rng.Intn(2)
			}
			k := 5 + rng.Intn(60)
			for j := 0; j < k; j++ {
				c.Ops = append(c.Ops, genSeatOp(rng, c.Max))
			}
			seatHistory(o, c)
			cases++
			newcomerScenario(o, rng)
		}
	}
	return cases
}

// concurrent joins: successes must equal occupied seats and no seat may be won twice
func runRace(o *Out, rng *rand.Rand, n int) int {
	for round := 0; round < n; round++ {
		max := 2 + rng.Intn(9)
		m := sm.NewSeatManager(max)
		const G = 64
		type res struct {
			seat, ret int
			err       error
		}
		results := make(chan res, G*8)
		done := make(chan bool)
		targets := make([][]int, G)
		for g := 0; g < G; g++ {
			for k := 0; k < 8; k++ {
				t := rng.Intn(max + 1)
				if t == max {
					t = -1
				}
				targets[g] = append(targets[g], t)
			}
		}
		for g := 0; g < G; g++ {
			go func(g int) {
				for k, t := range targets[g] {
					ret, err := m.Join(t, fmt.Sprintf("g%d-%d", g, k))
					results <- res{t, ret, err}
				}
				done <- true
			}(g)
		}
		for g := 0; g < G; g++ {
			<-done
		}
		close(results)
		won := map[int]int{}
		succ := 0
		for r := range results {
			if r.err == nil {
				succ++
				won[r.ret]++
			}
		}
		for s, c := range won {
			if c > 1 {
				o.Violate("C18", "racing-joins-share-a-seat", fmt.Sprintf("seat %d won %d times", s, c), map[string]interface{}{"max": max, "goroutines": G})
			}
		}
		if succ != m.GetPlayerCount() {
			o.Violate("C18", "racing-joins-count", fmt.Sprintf("%d successes, %d seated", succ, m.GetPlayerCount()), map[string]interface{}{"max": max, "goroutines": G})
		}
		o.StatN("race.joins", G*8)
	}
	o.StatN("race.rounds", n)
	return n
}
