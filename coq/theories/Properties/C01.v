(* C01 — chips are conserved at every point of a hand. *)
From PF Require Import Base ModelGame ProofsChips.

(* paying any non-negative amount (ante, blind, call, bet, raise, all-in) keeps the seat's
   identity bankroll = stack + wager + pot, initial = stack + wager, none negative *)
Theorem C01_pay_keeps_seat_identity :
  forall g i chips is_wager,
    (i < nplayers g)%nat -> 0 <= chips -> seat_ok (get_p g i) -> seat_ok (get_p (pay g i chips is_wager) i).
Proof. exact pay_self. Qed.
Print Assumptions C01_pay_keeps_seat_identity.

(* ... and moves nobody else's chips *)
Theorem C01_pay_moves_no_other_chips :
  forall g i j chips is_wager,
    (j < nplayers g)%nat -> i <> j -> chips_of (get_p (pay g i chips is_wager) j) = chips_of (get_p g j).
Proof. exact pay_other. Qed.
Print Assumptions C01_pay_moves_no_other_chips.
