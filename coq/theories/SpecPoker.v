(* SpecPoker.v — an independent statement of the poker order on five-card hands, and the
   finite set of hand classes (descending rank list, flush flag) used by the reflection proof.
   Definitions only. *)
From PF Require Import Base Comb ModelEval.
From PF.Gen Require Import Consts.

(* a five-card hand of the 52-card deck: five distinct cards, suits from the four suit
   symbols, ranks 2..14 *)
Definition valid_card (c : card) : Prop := In (c_suit c) card_suits /\ 2 <= c_rank c <= 14.
Definition hand52 (h : list card) : Prop := length h = 5%nat /\ NoDup h /\ Forall valid_card h.

(* the class of a hand: ranks sorted descending, and whether all suits agree *)
Definition sort_desc (l : list Z) : list Z := isort (fun a b => b <? a) l.
Definition same_suit (h : list card) : bool :=
  match h with [] => false | c :: _ => forallb (fun d => c_suit d =? c_suit c) h end.
Definition class_of (h : list card) : list Z * bool := (sort_desc (map c_rank h), same_suit h).

(* ---------- the rules of poker on a class ---------- *)
Fixpoint zcount (r : Z) (l : list Z) : nat :=
  match l with [] => O | x :: t => ((if Z.eqb x r then 1 else 0) + zcount r t)%nat end.

Fixpoint znodup (l : list Z) : list Z :=
  match l with [] => [] | x :: t => if zmem x t then znodup t else x :: znodup t end.

Definition mults (l : list Z) : list nat := map (fun r => zcount r l) (znodup l).
Definition n_mult (k : nat) (l : list Z) : nat := length (filter (Nat.eqb k) (mults l)).

Definition spec_straight (l : list Z) : bool :=
  match l with
  | [a; b; c; d; e] =>
      ((a =? b + 1) && (b =? c + 1) && (c =? d + 1) && (d =? e + 1))
      || ((a =? 14) && (b =? 5) && (c =? 4) && (d =? 3) && (e =? 2))
  | _ => false
  end.

Definition spec_cat (l : list Z) (flush : bool) : comb :=
  let st := spec_straight l in
  if st && flush then StraightFlush
  else if Nat.eqb (n_mult 4 l) 1 then FourOfAKind
  else if Nat.eqb (n_mult 3 l) 1 && Nat.eqb (n_mult 2 l) 1 then FullHouse
  else if flush then Flush
  else if st then Straight
  else if Nat.eqb (n_mult 3 l) 1 then ThreeOfAKind
  else if Nat.eqb (n_mult 2 l) 2 then TwoPair
  else if Nat.eqb (n_mult 2 l) 1 then Pair
  else HighCard.

(* tie-break vector: straights by their top card (the wheel is five-high), everything else by
   the ranks ordered by multiplicity, then by rank, both descending *)
Definition spec_tiebreak (l : list Z) (c : comb) : list Z :=
  match c with
  | Straight | StraightFlush =>
      match l with 14 :: 5 :: _ => [5] | a :: _ => [a] | [] => [] end
  | _ =>
      let ds := znodup l in
      flat_map (fun m => filter (fun r => Nat.eqb (zcount r l) m) ds) [4; 3; 2; 1]%nat
  end.

(* position of a category in the ranking table of the variant *)
Fixpoint index_of (pr : list comb) (c : comb) (i : Z) : Z :=
  match pr with [] => -1 | x :: t => if comb_eqb x c then i else index_of t c (i + 1) end.

(* the poker order as one number: category position first, then the tie-break vector read as
   base-15 digits (ranks are at most 14 and vectors of one category have one length) *)
Fixpoint digits15 (l : list Z) (n : nat) : Z :=
  match n with
  | O => 0
  | S n' => match l with [] => 0 | x :: t => x * 15 ^ (zn n') + digits15 t n' end
  end.

Definition spec_key (pr : list comb) (cl : list Z * bool) : Z :=
  let c := spec_cat (fst cl) (snd cl) in
  index_of pr c 0 * 15 ^ 5 + digits15 (spec_tiebreak (fst cl) c) 5.

(* ---------- the model on a class (what CalculatePower computes from sorted ranks and the flush bit) ---------- *)
Fixpoint bump_r (r : Z) (g : list (Z * Z)) : option (list (Z * Z)) :=
  match g with
  | [] => None
  | (r', c) :: t =>
      if r =? r' then Some ((r', c + 1) :: t)
      else match bump_r r t with Some t' => Some ((r', c) :: t') | None => None end
  end.
Definition groups_r (l : list Z) : list (Z * Z) :=
  fold_left (fun g r => match bump_r r g with Some g' => g' | None => g ++ [(r, 1)] end) l [].
Definition elements_r (l : list Z) : list (Z * Z) := isort (fun a b => snd b <? snd a) (groups_r l).

Fixpoint consecutive_r (cur : Z) (l : list Z) : bool :=
  match l with [] => true | r :: t => (r =? cur) && consecutive_r (cur - 1) t end.
Definition is_straight_r (l : list Z) : bool :=
  if negb (Nat.eqb (length l) 5) then false else
  match l with
  | r0 :: r1 :: _ =>
      if r0 <? 5 then false else
      let rest := if (r0 =? 14) && (r1 =? 5) then tl l else l in
      match rest with [] => true | x :: _ => consecutive_r x rest end
  | _ => false
  end.

Definition category_r (l : list Z) (flush : bool) (els : list (Z * Z)) : comb :=
  let c0 := if flush then Flush else HighCard in
  let c1 := if is_straight_r l then (if comb_eqb c0 Flush then StraightFlush else Straight) else c0 in
  if has_count 4 els then FourOfAKind
  else if has_count 3 els && has_count 2 els then FullHouse
  else if has_count 3 els then ThreeOfAKind
  else if Nat.eqb (count_count 2 els) 2 then TwoPair
  else if Nat.eqb (count_count 2 els) 1 then Pair
  else c1.

Definition model_class (pr : list comb) (cl : list Z * bool) : comb * Z :=
  let els := elements_r (fst cl) in
  let c := category_r (fst cl) (snd cl) els in
  (c, power_score c els + power_level pr c 0).

(* ---------- the finite set of classes ---------- *)
Definition rank_list : list Z := [14; 13; 12; 11; 10; 9; 8; 7; 6; 5; 4; 3; 2].

Fixpoint desc_lists (k : nat) (bound : Z) : list (list Z) :=
  match k with
  | O => [[]]
  | S k' => flat_map (fun r => if r <=? bound then map (cons r) (desc_lists k' r) else []) rank_list
  end.

Definition ok_mult (l : list Z) : bool := forallb (fun r => Nat.leb (zcount r l) 4) l.
Definition all5 : list (list Z) := filter ok_mult (desc_lists 5 14).
Definition distinct5 (l : list Z) : bool := Nat.eqb (length (znodup l)) 5.
Definition classes : list (list Z * bool) :=
  map (fun l => (l, false)) all5 ++ map (fun l => (l, true)) (filter distinct5 all5).
