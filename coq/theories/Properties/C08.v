(* C08 — dealer, small blind and big blind land on the right seats. *)
From PF Require Import Base ModelSeat ProofsSeatBasic ProofsSeat.

(* whenever the seat manager successfully moves to the next hand, dealer, small blind and big blind
   sit on occupied, active, non-reserved seats — for every state, hence every history *)
Theorem C08_positions_on_playable_seats :
  forall s s', sm_next s = (s', SOk) ->
    exists d sb bb, sm_dealer s' = Some d /\ sm_sb s' = Some sb /\ sm_bb s' = Some bb /\
                    pl s' d = true /\ pl s' sb = true /\ pl s' bb = true.
Proof. exact sm_next_positions. Qed.
Print Assumptions C08_positions_on_playable_seats.

(* blinds are found by the clockwise scan; a scan that fails means no playable seat *)
Theorem C08_scan_none_means_no_playable :
  forall s idxs start, find_active s idxs start = None -> forall i, In i idxs -> playable (get_seat s i) = false.
Proof. exact find_active_none. Qed.
Print Assumptions C08_scan_none_means_no_playable.

(* the known finding F11, as a witness on the model: after this history on five seats three seats are
   playable but the dealer is also the small blind *)
Example C08_F11_witness :
  let s := sm_run 5 [OJoin 0 0; OSeat 0; OJoin 1 0; OSeat 1; OJoin 2 0; OJoin 4 0; OSeat 4; ONext;
                     OLeave 0; OSeat 2; OJoin 3 0; OSeat 3; OLeave 4; ONext] in
  playable_count s = 3%nat /\ sm_dealer s = sm_sb s.
Proof. vm_compute. split; reflexivity. Qed.

(* the blinds rule after a successful move to the next hand, in the final state s'.  rest = the seats
   clockwise after the dealer.  With three or more seats able to play when the blinds are placed: the small
   blind is the first playable seat of s' after the dealer and the big blind the first after the small blind.
   With exactly two: the dealer is the small blind and the big blind is the first playable seat after the
   dealer.  (When exactly two could play at that moment but seats behind the big blind are re-activated by
   the same call, s' has more than two playable seats although the dealer is the small blind: that is the
   known finding F11, see the witness below.) *)
Theorem C08_blinds_rule :
  forall s s', sm_next s = (s', SOk) ->
    exists d, sm_dealer s' = Some d /\
      let rest := tl (normalized s' d) in
      let two_handed := playable_count (fst (next_dealer s)) = 2%nat in
      (two_handed /\ sm_sb s' = Some d /\
       exists pre bb post, rest = pre ++ bb :: post /\ sm_bb s' = Some bb /\ pl s' bb = true /\ forall y, In y pre -> pl s' y = false) \/
      (~ two_handed /\
       exists pre sb mid bb post, rest = pre ++ sb :: mid ++ bb :: post /\ sm_sb s' = Some sb /\ sm_bb s' = Some bb /\
         pl s' sb = true /\ pl s' bb = true /\ forall y, In y (pre ++ mid) -> pl s' y = false).
Proof. exact sm_next_rule. Qed.
Print Assumptions C08_blinds_rule.

(* the newcomer clause, in two halves.
   (1) A successful move to the next hand switches off every empty seat strictly between the dealer and the
       big blind (front = the seats clockwise after the dealer up to, not including, the big blind): a player
       who takes such a seat afterwards is not active, hence not dealt in.
   (2) At a later successful move every occupied seat is made active exactly when the button has passed it
       (it is among the seats scanned before the new dealer) or it lies behind the new big blind; nothing
       else about it changes.  So the newcomer is dealt in from exactly the first hand after the button has
       moved past his seat: not before, and not later. *)
Theorem C08_empty_seats_before_the_big_blind_are_switched_off :
  forall s d s',
    renew s d = Some s' -> pl s d = true -> (d < sm_max s)%nat ->
    exists front bb post, tl (normalized s d) = front ++ bb :: post /\ sm_bb s' = Some bb /\ ~ In bb front /\
      forall x, In x front -> s_occ (get_seat s x) = false -> s_active (get_seat s' x) = false.
Proof. exact renew_switches_off_empty_seats. Qed.
Print Assumptions C08_empty_seats_before_the_big_blind_are_switched_off.

Theorem C08_occupied_seats_after_next :
  forall s s',
    (2 <= playable_count s)%nat -> (forall d, sm_dealer s = Some d -> (d < sm_max s)%nat) -> sm_next s = (s', SOk) ->
    exists d' pos, find_active s (scan_list s) 0 = Some (d', pos) /\ sm_dealer s' = Some d' /\
      forall x, s_occ (get_seat s x) = true ->
        get_seat s' x = if among x (firstn pos (scan_list s)) || among x (behind_bb (fst (next_dealer s)) d')
                        then activate (get_seat s x) else get_seat s x.
Proof. exact sm_next_seat. Qed.
Print Assumptions C08_occupied_seats_after_next.

Theorem C08_newcomer_dealt_in_when_the_button_has_passed :
  forall s s' x,
    (2 <= playable_count s)%nat -> (forall d, sm_dealer s = Some d -> (d < sm_max s)%nat) -> sm_next s = (s', SOk) ->
    s_occ (get_seat s x) = true -> s_reserved (get_seat s x) = false -> s_active (get_seat s x) = false ->
    exists d' pos, find_active s (scan_list s) 0 = Some (d', pos) /\
      (pl s' x = true <-> among x (firstn pos (scan_list s)) = true \/ among x (behind_bb (fst (next_dealer s)) d') = true).
Proof. exact newcomer_dealt_in. Qed.
Print Assumptions C08_newcomer_dealt_in_when_the_button_has_passed.

(* non-vacuity: on five seats, a player takes the empty seat 1 between the dealer (seat 0) and the big blind; he is
   held out (not playable) until the next move, in which the button goes to seat 2 and so passes his seat *)
Example C08_newcomer_example :
  let s0 := sm_run 5 [OJoin 0 0; OSeat 0; OJoin 2 0; OSeat 2; OJoin 3 0; OSeat 3; ONext] in
  let s1 := sm_run 5 [OJoin 0 0; OSeat 0; OJoin 2 0; OSeat 2; OJoin 3 0; OSeat 3; ONext; OJoin 1 0; OSeat 1] in
  let s2 := sm_run 5 [OJoin 0 0; OSeat 0; OJoin 2 0; OSeat 2; OJoin 3 0; OSeat 3; ONext; OJoin 1 0; OSeat 1; ONext] in
  sm_dealer s0 = Some 0%nat /\ pl s1 1 = false /\ sm_dealer s2 = Some 2%nat /\ pl s2 1 = true.
Proof. vm_compute. auto. Qed.
