(* ModelGame.v — model of the hold'em engine (game.go, event.go, action.go,
   player.go, pot.go, settlement.go, power.go, game_state.go of the root package).

   The event chain between two wait points is written as straight-line
   composition.  The operation alphabet is the one of table/native_backend.go plus
   addressing a seat directly through Game.Player(i).  Cards are the wire codes
   256*suit+rankchar.  Player indices are positions in the player list. *)
From PF Require Import Base Comb ModelPot ModelSettle ModelEval.
From PF.Gen Require Import Consts.

Inductive round := RNone | Preflop | Flop | Turn | River.
Inductive event := EvNone | EvReadyRequested | EvAnteRequested | EvBlindsRequested
                 | EvRoundStarted | EvRoundClosed | EvGameClosed.
Inductive action := APass | AFold | ACheck | ACall | AAllin | ABet | ARaise | APay.
Inductive did := DNone | DFold | DAllin | DCall | DCheck | DBet | DRaise.
Inductive latype := LNext | LPass | LAnte | LBigBlind | LSmallBlind | LDealerBlind | LPay
                  | LFold | LCall | LCheck | LBet | LRaise | LAllin.

Definition action_eqb (a b : action) : bool :=
  match a, b with
  | APass, APass | AFold, AFold | ACheck, ACheck | ACall, ACall | AAllin, AAllin
  | ABet, ABet | ARaise, ARaise | APay, APay => true
  | _, _ => false
  end.

Definition event_eqb (a b : event) : bool :=
  match a, b with
  | EvNone, EvNone | EvReadyRequested, EvReadyRequested | EvAnteRequested, EvAnteRequested
  | EvBlindsRequested, EvBlindsRequested | EvRoundStarted, EvRoundStarted
  | EvRoundClosed, EvRoundClosed | EvGameClosed, EvGameClosed => true
  | _, _ => false
  end.

Record cinfo := mkCI { ci_type : option comb; ci_cards : list Z; ci_power : Z }.

Record pstate := mkP {
  p_dealer : bool; p_sb : bool; p_bb : bool;        (* Positions *)
  p_acted : bool; p_did : did; p_fold : bool; p_vpip : bool;
  p_allowed : list action;
  p_bankroll : Z; p_initial : Z; p_stack : Z; p_pot : Z; p_wager : Z;
  p_hole : list Z;
  p_comb : option cinfo }.

Record meta := mkMeta {
  m_ante : Z; m_bdealer : Z; m_bsb : Z; m_bbb : Z;
  m_limit_pot : bool;
  m_hole : nat; m_req : nat;
  m_table : list comb;            (* CombinationPowers *)
  m_deck : list Z;
  m_burncount : Z }.

Record status := mkSt {
  st_minibet : Z; st_maxwager : Z;
  st_pots : list pot;
  st_round : round;
  st_burned : list Z; st_board : list Z;
  st_prs : Z;                     (* PreviousRaiseSize *)
  st_dpos : nat;                  (* CurrentDeckPosition *)
  st_rpot : Z;                    (* CurrentRoundPot *)
  st_cw : Z;                      (* CurrentWager *)
  st_raiser : nat; st_cur : nat;
  st_event : event;
  st_last : option (Z * latype * Z) }.

Record gstate := mkG {
  g_meta : meta; g_st : status; g_players : list pstate; g_result : option result }.

Inductive outcome := Ok | ErrInvalidAction | ErrIllegalRaise | ErrNotClosedRound
                   | ErrInsufficientPlayers | ErrNoDealer | ErrBankroll | ErrNoDeck | Panic.

Inductive op :=
| OReady | OPayAnte | OPayBlinds | ONext
| OAct (who : option nat) (a : action) (amount : Z).

(* ---------- small accessors / setters ---------- *)
Definition with_st (g : gstate) (s : status) : gstate := mkG (g_meta g) s (g_players g) (g_result g).
Definition with_players (g : gstate) (ps : list pstate) : gstate := mkG (g_meta g) (g_st g) ps (g_result g).
Definition with_result (g : gstate) (r : option result) : gstate := mkG (g_meta g) (g_st g) (g_players g) r.

Definition st_set_event (s : status) (e : event) : status :=
  mkSt (st_minibet s) (st_maxwager s) (st_pots s) (st_round s) (st_burned s) (st_board s) (st_prs s)
       (st_dpos s) (st_rpot s) (st_cw s) (st_raiser s) (st_cur s) e (st_last s).
Definition st_set_last (s : status) (l : option (Z * latype * Z)) : status :=
  mkSt (st_minibet s) (st_maxwager s) (st_pots s) (st_round s) (st_burned s) (st_board s) (st_prs s)
       (st_dpos s) (st_rpot s) (st_cw s) (st_raiser s) (st_cur s) (st_event s) l.
Definition st_set_cur (s : status) (c : nat) : status :=
  mkSt (st_minibet s) (st_maxwager s) (st_pots s) (st_round s) (st_burned s) (st_board s) (st_prs s)
       (st_dpos s) (st_rpot s) (st_cw s) (st_raiser s) c (st_event s) (st_last s).
Definition st_set_raiser (s : status) (c : nat) : status :=
  mkSt (st_minibet s) (st_maxwager s) (st_pots s) (st_round s) (st_burned s) (st_board s) (st_prs s)
       (st_dpos s) (st_rpot s) (st_cw s) c (st_cur s) (st_event s) (st_last s).
Definition st_set_pots (s : status) (ps : list pot) : status :=
  mkSt (st_minibet s) (st_maxwager s) ps (st_round s) (st_burned s) (st_board s) (st_prs s)
       (st_dpos s) (st_rpot s) (st_cw s) (st_raiser s) (st_cur s) (st_event s) (st_last s).
Definition st_set_round (s : status) (r : round) : status :=
  mkSt (st_minibet s) (st_maxwager s) (st_pots s) r (st_burned s) (st_board s) (st_prs s)
       (st_dpos s) (st_rpot s) (st_cw s) (st_raiser s) (st_cur s) (st_event s) (st_last s).
Definition st_set_prs (s : status) (x : Z) : status :=
  mkSt (st_minibet s) (st_maxwager s) (st_pots s) (st_round s) (st_burned s) (st_board s) x
       (st_dpos s) (st_rpot s) (st_cw s) (st_raiser s) (st_cur s) (st_event s) (st_last s).
Definition st_set_cw (s : status) (x : Z) : status :=
  mkSt (st_minibet s) (st_maxwager s) (st_pots s) (st_round s) (st_burned s) (st_board s) (st_prs s)
       (st_dpos s) (st_rpot s) x (st_raiser s) (st_cur s) (st_event s) (st_last s).
(* round pot and, in pot-limit games, the max wager *)
Definition st_add_rpot (s : status) (pot_limit : bool) (x : Z) : status :=
  let rp := st_rpot s + x in
  mkSt (st_minibet s) (if pot_limit then rp + st_prs s else st_maxwager s) (st_pots s) (st_round s)
       (st_burned s) (st_board s) (st_prs s) (st_dpos s) rp (st_cw s) (st_raiser s) (st_cur s)
       (st_event s) (st_last s).
Definition st_set_cards (s : status) (burned board : list Z) (dpos : nat) : status :=
  mkSt (st_minibet s) (st_maxwager s) (st_pots s) (st_round s) burned board (st_prs s)
       dpos (st_rpot s) (st_cw s) (st_raiser s) (st_cur s) (st_event s) (st_last s).

Definition set_event (g : gstate) (e : event) : gstate := with_st g (st_set_event (g_st g) e).
Definition set_last (g : gstate) (src : Z) (t : latype) (v : Z) : gstate :=
  with_st g (st_set_last (g_st g) (Some (src, t, v))).

Definition dflt_p : pstate :=
  mkP false false false false DNone false false [] 0 0 0 0 0 [] None.
Definition get_p (g : gstate) (i : nat) : pstate := nth i (g_players g) dflt_p.
Definition upd_p (g : gstate) (i : nat) (f : pstate -> pstate) : gstate :=
  with_players g (update_nth i f (g_players g)).
Definition map_p (g : gstate) (f : pstate -> pstate) : gstate := with_players g (map f (g_players g)).
Definition nplayers (g : gstate) : nat := length (g_players g).

Definition p_set_allowed (p : pstate) (a : list action) : pstate :=
  mkP (p_dealer p) (p_sb p) (p_bb p) (p_acted p) (p_did p) (p_fold p) (p_vpip p) a
      (p_bankroll p) (p_initial p) (p_stack p) (p_pot p) (p_wager p) (p_hole p) (p_comb p).
Definition p_set_acted (p : pstate) (b : bool) : pstate :=
  mkP (p_dealer p) (p_sb p) (p_bb p) b (p_did p) (p_fold p) (p_vpip p) (p_allowed p)
      (p_bankroll p) (p_initial p) (p_stack p) (p_pot p) (p_wager p) (p_hole p) (p_comb p).
Definition p_set_did (p : pstate) (d : did) : pstate :=
  mkP (p_dealer p) (p_sb p) (p_bb p) (p_acted p) d (p_fold p) (p_vpip p) (p_allowed p)
      (p_bankroll p) (p_initial p) (p_stack p) (p_pot p) (p_wager p) (p_hole p) (p_comb p).
Definition p_set_fold (p : pstate) (b : bool) : pstate :=
  mkP (p_dealer p) (p_sb p) (p_bb p) (p_acted p) (p_did p) b (p_vpip p) (p_allowed p)
      (p_bankroll p) (p_initial p) (p_stack p) (p_pot p) (p_wager p) (p_hole p) (p_comb p).
Definition p_set_vpip (p : pstate) (b : bool) : pstate :=
  mkP (p_dealer p) (p_sb p) (p_bb p) (p_acted p) (p_did p) (p_fold p) b (p_allowed p)
      (p_bankroll p) (p_initial p) (p_stack p) (p_pot p) (p_wager p) (p_hole p) (p_comb p).
Definition p_set_chips (p : pstate) (initial stack pot wager : Z) : pstate :=
  mkP (p_dealer p) (p_sb p) (p_bb p) (p_acted p) (p_did p) (p_fold p) (p_vpip p) (p_allowed p)
      (p_bankroll p) initial stack pot wager (p_hole p) (p_comb p).
Definition p_set_hole (p : pstate) (h : list Z) : pstate :=
  mkP (p_dealer p) (p_sb p) (p_bb p) (p_acted p) (p_did p) (p_fold p) (p_vpip p) (p_allowed p)
      (p_bankroll p) (p_initial p) (p_stack p) (p_pot p) (p_wager p) h (p_comb p).
Definition p_set_comb (p : pstate) (c : option cinfo) : pstate :=
  mkP (p_dealer p) (p_sb p) (p_bb p) (p_acted p) (p_did p) (p_fold p) (p_vpip p) (p_allowed p)
      (p_bankroll p) (p_initial p) (p_stack p) (p_pot p) (p_wager p) (p_hole p) c.

(* g.dealer: the last player carrying the "dealer" position *)
Fixpoint last_dealer (ps : list pstate) (i : nat) (acc : option nat) : option nat :=
  match ps with
  | [] => acc
  | p :: t => last_dealer t (S i) (if p_dealer p then Some i else acc)
  end.
Definition dealer_opt (g : gstate) : option nat := last_dealer (g_players g) 0 None.
Definition dealer_of (g : gstate) : nat := option_default 0%nat (dealer_opt g).

(* GetPlayers(): indices starting at the dealer *)
Definition player_order (g : gstate) : list nat := rotate (dealer_of g) (seq 0 (nplayers g)).

(* NextPlayer() *)
Definition next_idx (g : gstate) : nat :=
  let c := S (st_cur (g_st g)) in if Nat.eqb c (nplayers g) then 0%nat else c.

Definition alive_count (g : gstate) : nat := length (filter (fun p => negb (p_fold p)) (g_players g)).
Definition movable_count (g : gstate) : nat :=
  length (filter (fun p => negb (p_fold p || (p_stack p =? 0))) (g_players g)).

(* GetAvailableActions *)
Definition available_actions (s : status) (p : pstate) : list action :=
  if p_fold p then [APass]
  else if p_stack p =? 0 then [APass]
  else AAllin ::
    (if p_wager p <? st_cw s then
       AFold :: (if st_cw s <? p_initial p
                 then ACall :: (if st_cw s + st_prs s <? p_initial p then [ARaise] else [])
                 else [])
     else
       ACheck :: (if st_minibet s <=? p_initial p
                  then (if st_cw s =? 0 then [ABet] else [ARaise])
                  else [])).

(* SetCurrentPlayer(p) *)
Definition set_current (g : gstate) (i : nat) : gstate :=
  let g1 := upd_p g (st_cur (g_st g)) (fun p => p_set_allowed p []) in
  let g2 := with_st g1 (st_set_cur (g_st g1) i) in
  upd_p g2 i (fun p => p_set_allowed p (available_actions (g_st g2) p)).

(* ResetAllPlayerAllowedActions: p.Reset() for everybody *)
Definition reset_all (g : gstate) : gstate :=
  map_p g (fun p => p_set_allowed (p_set_acted p false) []).

(* updatePots *)
Definition pots_of_players (ps : list pstate) : list pot :=
  get_pots (fst (fold_left (fun acc p => (add_contributor (fst acc) (p_pot p + p_wager p) (snd acc) (p_fold p), snd acc + 1))
                           ps (ll_empty, 0))).
Definition update_pots (g : gstate) : gstate :=
  with_st g (st_set_pots (g_st g) (pots_of_players (g_players g))).

(* EmitEvent(RoundClosed) *)
Definition round_closed (g : gstate) : gstate :=
  update_pots (reset_all (set_event g EvRoundClosed)).

(* RequestPlayerAction *)
Definition request_action (g : gstate) : gstate :=
  if Nat.eqb (alive_count g) 1 then round_closed g
  else if Nat.eqb (movable_count g) 0 then round_closed g
  else
    let n := next_idx g in
    if p_acted (get_p g n) then round_closed g else set_current g n.

(* Resume(): re-emit the current event *)
Definition resume (g : gstate) : gstate :=
  match st_event (g_st g) with
  | EvRoundStarted => request_action g
  | EvRoundClosed => round_closed g
  | _ => g
  end.

(* ResetActedPlayers / BecomeRaiser *)
Definition reset_acted (g : gstate) : gstate := map_p g (fun p => p_set_acted p false).
Definition become_raiser (g : gstate) (i : nat) : gstate :=
  let g1 := upd_p g i (fun p => if 0 <? p_wager p then p_set_vpip p true else p) in
  let g2 := with_st g1 (st_set_raiser (g_st g1) i) in
  upd_p (reset_acted g2) i (fun p => p_set_acted p true).

(* player.pay(chips, isWager) *)
Definition pay (g : gstate) (i : nat) (chips : Z) (is_wager : bool) : gstate :=
  let p := get_p g i in
  let lim := m_limit_pot (g_meta g) in
  if p_stack p <=? chips then
    let g1 := with_st g (st_add_rpot (g_st g) lim (p_initial p - p_wager p)) in
    let g2 := upd_p g1 i (fun p => p_set_chips (p_set_did p DAllin) (p_initial p) 0 (p_pot p) (p_initial p)) in
    if is_wager then
      let s := g_st g2 in
      let raised := p_initial p - st_cw s in
      let min_raise := st_cw s + st_prs s in
      let g3 := if st_cw s <? p_initial p then with_st g2 (st_set_cw s (p_initial p)) else g2 in
      if min_raise <=? raised then become_raiser g3 i else reset_acted g3
    else g2
  else
    let w := p_wager p + chips in
    let g1 := upd_p g i (fun p => p_set_chips p (p_initial p) (p_initial p - w) (p_pot p) w) in
    let g2 := with_st g1 (st_add_rpot (g_st g1) lim chips) in
    if is_wager && (st_cw (g_st g2) <? w)
    then become_raiser (with_st g2 (st_set_cw (g_st g2) w)) i
    else g2.

(* ResetRoundStatus / ResetAllPlayerStatus *)
Definition reset_round_status (g : gstate) : gstate :=
  let s := g_st g in
  let d := dealer_of g in
  with_st g (mkSt (st_minibet s) 0 (st_pots s) (st_round s) (st_burned s) (st_board s) 0
                  (st_dpos s) 0 0 d d (st_event s) (st_last s)).

Definition reset_player_status (p : pstate) : pstate :=
  let p1 := p_set_chips (p_set_allowed p []) (p_stack p) (p_stack p) (p_pot p + p_wager p) 0 in
  p_set_did p1 (if p_fold p then DFold else if p_stack p =? 0 then DAllin else DNone).
Definition reset_all_status (g : gstate) : gstate := map_p g reset_player_status.

(* Deal / Burn; callers check deck_has first (Go panics with index out of range) *)
Definition deck_has (g : gstate) (count : nat) : bool :=
  Nat.leb (st_dpos (g_st g) + count) (length (m_deck (g_meta g))).
Definition deal_cards (g : gstate) (count : nat) : list Z :=
  firstn count (skipn (st_dpos (g_st g)) (m_deck (g_meta g))).

(* UpdateCombinationOfAllPlayers *)
Definition update_comb (m : meta) (board : list Z) (p : pstate) : pstate :=
  match p_comb p with
  | None => p
  | Some _ =>
      match best_power (m_table m) (map card_of_wire board) (map card_of_wire (p_hole p)) (m_req m) with
      | None => p
      | Some b => p_set_comb p (Some (mkCI (Some (ps_comb b)) (map wire_of_card (ps_cards b)) (ps_score b)))
      end
  end.
Definition update_combs (g : gstate) : gstate :=
  map_p g (update_comb (g_meta g) (st_board (g_st g))).

(* CalculateGameResults *)
Definition score_of (p : pstate) : Z :=
  if p_fold p then 0 else match p_comb p with Some c => ci_power c | None => 0 end.
Definition settle_inputs (ps : list pstate) : list (Z * Z * Z) :=
  map (fun ip => (zn (fst ip), p_bankroll (snd ip), score_of (snd ip))) (combine (seq 0 (length ps)) ps).

Definition game_completed (g : gstate) : gstate * outcome :=
  let g1 := update_pots g in
  let pots := st_pots (g_st g1) in
  let ins := settle_inputs (g_players g1) in
  if settle_panics pots ins then (g, Panic)
  else (set_event (with_result g1 (Some (settle pots ins))) EvGameClosed, Ok).

(* RequestReady *)
Definition request_ready (g : gstate) : gstate := set_event (reset_all g) EvReadyRequested.

(* PrepareRound *)
Definition prepare_round (g : gstate) : gstate :=
  match st_round (g_st g) with
  | Preflop => request_ready g
  | _ => if Nat.leb (movable_count g) 1 then round_closed g else request_ready g
  end.

(* EnterPreflopRound ... RequestBlinds *)
Fixpoint deal_holes (ps : list pstate) (deck : list Z) (h : nat) : list pstate :=
  match ps with
  | [] => []
  | p :: t => p_set_hole p (firstn h deck) :: deal_holes t (skipn h deck) h
  end.

Definition enter_preflop (g : gstate) : gstate * outcome :=
  let h := m_hole (g_meta g) in
  let n := nplayers g in
  if negb (deck_has g (n * h)) then (g, Panic) else
  let s := st_set_round (g_st g) Preflop in
  let ps := deal_holes (g_players g) (skipn (st_dpos s) (m_deck (g_meta g))) h in
  let g1 := with_players (with_st g (st_set_cards s (st_burned s) (st_board s) (st_dpos s + n * h))) ps in
  let g2 := update_combs g1 in
  let m := g_meta g in
  if (m_bdealer m =? 0) && (m_bsb m =? 0) && (0 <? m_bbb m)
  then (prepare_round g2, Ok)
  else (set_event g2 EvBlindsRequested, Ok).

(* EnterFlop/Turn/RiverRound *)
Definition enter_street (g : gstate) (r : round) : gstate * outcome :=
  let k := match r with Flop => 3%nat | _ => 1%nat end in
  if negb (deck_has g (1 + k)) then (g, Panic) else
  let s := st_set_round (g_st g) r in
  let cards := deal_cards g (1 + k) in
  let g1 := with_st g (st_set_cards s (st_burned s ++ firstn 1 cards) (st_board s ++ skipn 1 cards)
                                   (st_dpos s + (1 + k))) in
  let g2 := set_current g1 (dealer_of g1) in
  (prepare_round (update_combs g2), Ok).

(* StartRound *)
Fixpoint find_bb_loop (fuel : nat) (g : gstate) : gstate :=
  match fuel with
  | O => g
  | S f =>
      let n := next_idx g in
      let g' := set_current g n in
      if p_bb (get_p g n) then g' else find_bb_loop f g'
  end.

Definition start_round (g : gstate) : gstate :=
  let g0 := reset_all g in
  match st_round (g_st g0) with
  | Preflop =>
      if Nat.eqb (movable_count g0) 0 then round_closed g0
      else
        let g1 := set_current g0 (dealer_of g0) in
        let g2 := find_bb_loop (nplayers g1) g1 in
        request_action (set_event g2 EvRoundStarted)
  | _ =>
      let g1 := set_current g0 (dealer_of g0) in
      request_action (set_event g1 EvRoundStarted)
  end.

(* ---------- table operations ---------- *)
Definition do_ready (g : gstate) : gstate * outcome :=
  if negb (event_eqb (st_event (g_st g)) EvReadyRequested) then (g, ErrInvalidAction) else
  let g0 := reset_all g in
  match st_round (g_st g0) with
  | RNone =>
      if 0 <? m_ante (g_meta g0) then (set_event g0 EvAnteRequested, Ok)
      else enter_preflop g0
  | _ => (start_round g0, Ok)
  end.

(* the PayAnte loop: stops with an error at the first player who has a wager *)
Fixpoint ante_loop (order : list nat) (g : gstate) : gstate * bool :=
  match order with
  | [] => (g, true)
  | i :: t =>
      if 0 <? p_wager (get_p g i) then (g, false)
      else
        let g1 := pay g i (m_ante (g_meta g)) false in
        ante_loop t (set_last g1 (zn i) LAnte (p_wager (get_p g1 i)))
  end.

Definition do_pay_ante (g : gstate) : gstate * outcome :=
  if m_ante (g_meta g) =? 0 then (g, ErrInvalidAction) else
  if negb (event_eqb (st_event (g_st g)) EvAnteRequested) then (g, ErrInvalidAction) else
  match ante_loop (player_order g) g with
  | (g1, false) => (g1, ErrInvalidAction)
  | (g1, true) =>
      let g2 := update_pots (reset_all g1) in     (* AntePaid *)
      let g3 := reset_round_status (reset_all_status g2) in
      enter_preflop g3
  end.

Definition blind_of (m : meta) (p : pstate) : Z * latype :=
  if (0 <? m_bbb m) && p_bb p then (m_bbb m, LBigBlind)
  else if (0 <? m_bsb m) && p_sb p then (m_bsb m, LSmallBlind)
  else if (0 <? m_bdealer m) && p_dealer p then (m_bdealer m, LDealerBlind)
  else (0, LDealerBlind).

Definition pay_blind (g : gstate) (i : nat) : gstate :=
  let p := get_p g i in
  let '(amount, t) := blind_of (g_meta g) p in
  let chips := if p_stack p <? amount then p_stack p else amount in
  set_last (pay g i chips true) (zn i) t chips.

Definition do_pay_blinds (g : gstate) : gstate * outcome :=
  if negb (event_eqb (st_event (g_st g)) EvBlindsRequested) then (g, ErrInvalidAction) else
  let g1 := fold_left pay_blind (player_order g) g in
  let m := g_meta g1 in
  let g2 := with_st g1 (st_set_prs (g_st g1) (if 0 <? m_bbb m then m_bbb m else m_bdealer m)) in
  (prepare_round (reset_all g2), Ok).

Definition do_next (g : gstate) : gstate * outcome :=
  if negb (event_eqb (st_event (g_st g)) EvRoundClosed) then (g, ErrNotClosedRound) else
  let g0 := set_last g (-1) LNext 0 in
  match st_round (g_st g0) with
  | RNone => (g0, Ok)
  | r =>
      let g1 := reset_all_status (reset_round_status g0) in
      let res :=
        if Nat.eqb (alive_count g1) 1 then game_completed g1
        else match r with
             | Preflop => enter_street g1 Flop
             | Flop => enter_street g1 Turn
             | Turn => enter_street g1 River
             | _ => game_completed g1
             end in
      match res with
      | (_, Panic) => (g, Panic)
      | x => x
      end
  end.

(* ---------- player actions ---------- *)
Definition allowed (g : gstate) (i : nat) (a : action) : bool :=
  existsb (action_eqb a) (p_allowed (get_p g i)).

Definition act_pass (g : gstate) (i : nat) : gstate * outcome :=
  if negb (allowed g i APass) then (g, ErrInvalidAction) else
  let g1 := upd_p g i (fun p => p_set_acted p true) in
  (resume (set_last g1 (zn i) LPass 0), Ok).

Definition act_fold (g : gstate) (i : nat) : gstate * outcome :=
  if negb (allowed g i AFold) then (g, ErrInvalidAction) else
  let g1 := upd_p g i (fun p => p_set_acted (p_set_did (p_set_fold p true) DFold) true) in
  (resume (set_last g1 (zn i) LFold 0), Ok).

Definition act_check (g : gstate) (i : nat) : gstate * outcome :=
  if negb (allowed g i ACheck) then (g, ErrInvalidAction) else
  let g1 := upd_p g i (fun p => p_set_acted (p_set_did p DCheck) true) in
  (resume (set_last g1 (zn i) LCheck 0), Ok).

Definition act_call (g : gstate) (i : nat) : gstate * outcome :=
  if negb (allowed g i ACall) then (g, ErrInvalidAction) else
  let s := g_st g in
  let p := get_p g i in
  let delta := if st_cw s <? m_bbb (g_meta g) then m_bbb (g_meta g) - p_wager p else st_cw s - p_wager p in
  let g1 := upd_p g i (fun p => p_set_acted (p_set_did p DCall) true) in
  let g2 := pay g1 i delta true in
  (resume (set_last g2 (zn i) LCall delta), Ok).

Definition act_allin (g : gstate) (i : nat) : gstate * outcome :=
  if negb (allowed g i AAllin) then (g, ErrInvalidAction) else
  let g1 := upd_p g i (fun p => p_set_acted (p_set_did p DAllin) true) in
  let s := g_st g1 in
  let p := get_p g1 i in
  let raised := p_initial p - st_cw s in
  let g2 := if st_prs s <=? raised then with_st g1 (st_set_prs s raised) else g1 in
  let g3 := pay g2 i (p_stack p) true in
  (resume (set_last g3 (zn i) LAllin (p_initial p)), Ok).

Definition act_bet (g : gstate) (i : nat) (chips : Z) : gstate * outcome :=
  if negb (allowed g i ABet) then (g, ErrInvalidAction) else
  if chips <=? 0 then (g, ErrInvalidAction) else
  if p_stack (get_p g i) <=? chips then act_allin g i else
  let g1 := upd_p g i (fun p => p_set_acted (p_set_did p DBet) true) in
  let g2 := pay g1 i chips true in
  let g3 := with_st g2 (st_set_prs (g_st g2) chips) in
  (resume (set_last g3 (zn i) LBet chips), Ok).

Definition act_raise (g : gstate) (i : nat) (level : Z) : gstate * outcome :=
  if negb (allowed g i ARaise) then (g, ErrInvalidAction) else
  let s := g_st g in
  if (level =? 0) || (level <? st_cw s) then (g, ErrIllegalRaise) else
  if level =? st_cw s then act_call g i else
  let p := get_p g i in
  let raised := level - st_cw s in
  let required := level - p_wager p in
  if (p_initial p <=? level) || (raised <? st_prs s) then act_allin g i else
  let max_raise := st_cw s + st_prs s in
  let capped := m_limit_pot (g_meta g) && (max_raise <? raised) in
  let raised' := if capped then max_raise else raised in
  let required' := if capped then max_raise + st_cw s - p_wager p else required in
  let g1 := upd_p g i (fun p => p_set_acted (p_set_did p DRaise) true) in
  let g2 := with_st g1 (st_set_prs (g_st g1) raised') in
  let g3 := pay g2 i required' true in
  (resume (set_last g3 (zn i) LRaise required'), Ok).

(* Pay(chips) is never offered by the engine; modelled for completeness *)
Definition act_pay (g : gstate) (i : nat) (chips : Z) : gstate * outcome :=
  if negb (allowed g i APay) then (g, ErrInvalidAction) else
  let g1 := pay g i chips true in
  (resume (set_last g1 (zn i) LPay chips), Ok).

Definition step (g : gstate) (o : op) : gstate * outcome :=
  match o with
  | OReady => do_ready g
  | OPayAnte => do_pay_ante g
  | OPayBlinds => do_pay_blinds g
  | ONext => do_next g
  | OAct who a x =>
      let i := match who with Some i => i | None => st_cur (g_st g) end in
      if negb (Nat.ltb i (nplayers g)) then (g, Panic) else
      match a with
      | APass => act_pass g i
      | AFold => act_fold g i
      | ACheck => act_check g i
      | ACall => act_call g i
      | AAllin => act_allin g i
      | ABet => act_bet g i x
      | ARaise => act_raise g i x
      | APay => act_pay g i x
      end
  end.

(* ---------- creation: NewGame + Start, with the post-shuffle deck as a parameter ---------- *)
Record config := mkCfg {
  c_ante : Z; c_bdealer : Z; c_bsb : Z; c_bbb : Z;
  c_limit_pot : bool; c_hole : nat; c_req : nat; c_table : list comb;
  c_deck : list Z;                 (* the deck as configured (before shuffling) *)
  c_burncount : Z;
  c_players : list (Z * (bool * bool * bool)) }.   (* bankroll, (dealer, sb, bb) *)

Definition init_player (x : Z * (bool * bool * bool)) : pstate :=
  let '(bk, (d, sb, bb)) := x in
  mkP d sb bb false DNone false false [] bk bk bk 0 0 [] (Some (mkCI None [] 0)).

Definition create (c : config) (shuffled : list Z) : gstate * outcome :=
  let ps := map init_player (c_players c) in
  let m := mkMeta (c_ante c) (c_bdealer c) (c_bsb c) (c_bbb c) (c_limit_pot c) (c_hole c) (c_req c)
                  (c_table c) (c_deck c) (c_burncount c) in
  let s0 := mkSt 0 0 [] RNone [] [] 0 0 0 0 0 0 EvNone None in
  let g0 := mkG m s0 ps None in
  if Nat.ltb (length ps) 2 then (g0, ErrInsufficientPlayers) else
  match dealer_opt g0 with
  | None => (g0, ErrNoDealer)
  | Some _ =>
      if existsb (fun p => p_bankroll p <=? 0) ps then (g0, ErrBankroll) else
      if Nat.eqb (length (c_deck c)) 0 then (g0, ErrNoDeck) else
      if Nat.ltb (length (c_deck c)) (length ps * c_hole c + 8) then (g0, ErrNoDeck) else
      let m' := mkMeta (c_ante c) (c_bdealer c) (c_bsb c) (c_bbb c) (c_limit_pot c) (c_hole c) (c_req c)
                       (c_table c) shuffled (c_burncount c) in
      let mb := if c_bbb c <? c_bdealer c then c_bdealer c else c_bbb c in
      let s1 := mkSt mb 0 [] RNone [] [] 0 0 0 0 0 0 EvNone None in
      let g1 := reset_round_status (mkG m' s1 ps None) in
      (request_ready g1, Ok)
  end.

Definition run (g : gstate) (ops : list op) : gstate := fold_left (fun g o => fst (step g o)) ops g.

(* ---------- views (game_state.go) ---------- *)
Definition hide_player (p : pstate) : pstate := p_set_comb (p_set_hole p []) None.

Definition view_players (closed : bool) (viewer : option nat) (ps : list pstate) : list pstate :=
  map (fun ip =>
         let '(i, p) := ip in
         if match viewer with Some v => Nat.eqb i v | None => false end then p
         else if closed then (if p_fold p then hide_player p else p)
         else hide_player p)
      (combine (seq 0 (length ps)) ps).

Definition view (g : gstate) (viewer : option nat) : gstate :=
  let m := g_meta g in
  let s := g_st g in
  mkG (mkMeta (m_ante m) (m_bdealer m) (m_bsb m) (m_bbb m) (m_limit_pot m) (m_hole m) (m_req m)
              (m_table m) [] (m_burncount m))
      (st_set_cards s [] (st_board s) (st_dpos s))
      (view_players (event_eqb (st_event s) EvGameClosed) viewer (g_players g))
      (g_result g).
Definition as_player (g : gstate) (i : nat) : gstate := view g (Some i).
Definition as_observer (g : gstate) : gstate := view g None.

(* ---------- JSON erasure: Pot.Levels is json:"-", settlement internals are unexported ---------- *)
Definition erase_pot (p : pot) : pot := mkPot (pt_level p) (pt_wager p) (pt_total p) (pt_contribs p) [].
Definition erase_result (r : result) : result :=
  mkResult (res_players r) (map (fun p => mkPotRes (pr_total p) (pr_winners p) []) (res_pots r)).
Definition erase (g : gstate) : gstate :=
  mkG (g_meta g) (st_set_pots (g_st g) (map erase_pot (st_pots (g_st g)))) (g_players g)
      (option_map erase_result (g_result g)).

(* ---------- ShuffleCards (deck.go): rand.Shuffle is a sequence of swaps cards[i], cards[j] ---------- *)
Definition swap_at {A} (l : list A) (i j : nat) : list A :=
  match nth_error l i, nth_error l j with
  | Some x, Some y => update_nth j (fun _ => x) (update_nth i (fun _ => y) l)
  | _, _ => l
  end.
Definition apply_swaps {A} (swaps : list (nat * nat)) (l : list A) : list A :=
  fold_left (fun l ij => swap_at l (fst ij) (snd ij)) swaps l.
