(* driver.ml — reads one command per line ("word int int ..."), feeds it to the
   extracted Coq function Model.dispatch and prints the observation as
   "key=v1,v2 key=...".  Lines starting with '#' are echoed (case separators).
   Integers are converted digit by digit: Coq's Z is kept as extracted, OCaml's
   63-bit int could not hold every int64 argument. *)
module M = Model

let rec pos_of_int n =
  if n = 1 then M.XH
  else if n land 1 = 0 then M.XO (pos_of_int (n lsr 1))
  else M.XI (pos_of_int (n lsr 1))

let z_of_small n = if n = 0 then M.Z0 else if n > 0 then M.Zpos (pos_of_int n) else M.Zneg (pos_of_int (-n))
let z10 = z_of_small 10

let z_of_string (s : string) : M.z =
  let n = String.length s in
  if n = 0 then failwith "empty integer";
  let neg = s.[0] = '-' in
  let start = if neg || s.[0] = '+' then 1 else 0 in
  if n - start <= 17 then z_of_small (int_of_string s)
  else begin
    let acc = ref M.Z0 in
    for i = start to n - 1 do
      let d = Char.code s.[i] - 48 in
      if d < 0 || d > 9 then failwith ("bad integer " ^ s);
      acc := M.Z.add (M.Z.mul !acc z10) (z_of_small d)
    done;
    if neg then M.Z.opp !acc else !acc
  end

(* positive -> int when it fits in 61 bits *)
let rec pos_bits p = match p with M.XH -> 1 | M.XO q | M.XI q -> 1 + pos_bits q
let rec int_of_pos p = match p with M.XH -> 1 | M.XO q -> 2 * int_of_pos q | M.XI q -> 2 * int_of_pos q + 1

let rec string_of_pos_slow (p : M.positive) : string =
  (* repeated division by 10 on Z *)
  let z = M.Zpos p in
  let (q, r) = M.Z.div_eucl z z10 in
  let d = match r with M.Z0 -> 0 | M.Zpos rp -> int_of_pos rp | M.Zneg _ -> failwith "neg rem" in
  (match q with
   | M.Z0 -> ""
   | M.Zpos qp -> string_of_pos_slow qp
   | M.Zneg _ -> failwith "neg quot") ^ string_of_int d

let string_of_pos p = if pos_bits p <= 61 then string_of_int (int_of_pos p) else string_of_pos_slow p

let string_of_z (z : M.z) : string =
  match z with
  | M.Z0 -> "0"
  | M.Zpos p -> string_of_pos p
  | M.Zneg p -> "-" ^ string_of_pos p

let ascii_of_char (c : char) : M.ascii =
  let n = Char.code c in
  let b i = (n lsr i) land 1 = 1 in
  M.Ascii (b 0, b 1, b 2, b 3, b 4, b 5, b 6, b 7)

let char_of_ascii (M.Ascii (b0, b1, b2, b3, b4, b5, b6, b7)) : char =
  let v b i = if b then 1 lsl i else 0 in
  Char.chr (v b0 0 + v b1 1 + v b2 2 + v b3 3 + v b4 4 + v b5 5 + v b6 6 + v b7 7)

let coq_string_of (s : string) : M.string =
  let r = ref M.EmptyString in
  for i = String.length s - 1 downto 0 do r := M.String (ascii_of_char s.[i], !r) done;
  !r

let rec ocaml_string_of (s : M.string) : string =
  match s with
  | M.EmptyString -> ""
  | M.String (a, t) -> String.make 1 (char_of_ascii a) ^ ocaml_string_of t

let print_obs (o : (M.string * M.z list) list) =
  let buf = Buffer.create 256 in
  List.iteri (fun i (k, vs) ->
      if i > 0 then Buffer.add_char buf ' ';
      Buffer.add_string buf (ocaml_string_of k);
      Buffer.add_char buf '=';
      List.iteri (fun j v ->
          if j > 0 then Buffer.add_char buf ',';
          Buffer.add_string buf (string_of_z v)) vs) o;
  print_endline (Buffer.contents buf)

let () =
  let st = ref M.rs_init in
  (try
     while true do
       let line = input_line stdin in
       if String.length line = 0 || line.[0] = '#' then print_endline line
       else begin
         let toks = List.filter (fun s -> s <> "") (String.split_on_char ' ' line) in
         match toks with
         | [] -> print_endline ""
         | cmd :: args ->
           let zs = List.map z_of_string args in
           let (st', o) = M.interp !st (coq_string_of cmd) zs in
           st := st';
           print_obs o
       end
     done
   with End_of_file -> ())
