(* C12 — raise sizes and amounts: no amount argument can corrupt chips. *)
From Coq Require Import Lia.
From PF Require Import Base ModelGame ProofsGameBasic ProofsChips ProofsInv.

(* no amount argument whatsoever — zero, negative, tiny or larger than the stack — can make a wager,
   stack or pot negative or lift a stack above the player's bankroll: for every operation list
   (amounts range over all of Z) every seat keeps bankroll = stack + wager + pot with all three >= 0 *)
Theorem C12_amounts_cannot_corrupt_chips :
  forall c deck g ops i,
    cfg_ok c -> create c deck = (g, Ok) -> (i < nplayers (run g ops))%nat ->
    let p := get_p (run g ops) i in
    0 <= p_stack p /\ 0 <= p_wager p /\ 0 <= p_pot p /\ p_stack p <= p_bankroll p.
Proof.
  intros c deck g ops i Hc Hcr Hi p.
  destruct (inv_chips _ (Inv_reachable c deck g ops Hc Hcr)) as [_ A _ _ _].
  destruct (A i Hi) as (E1 & E2 & S & W & P). unfold p. repeat split; try assumption. lia.
Qed.
Print Assumptions C12_amounts_cannot_corrupt_chips.

(* the minimum raise never goes negative, the wager to match never goes negative *)
Theorem C12_raise_size_nonneg :
  forall c deck g ops, cfg_ok c -> create c deck = (g, Ok) ->
    0 <= st_prs (g_st (run g ops)) /\ 0 <= st_cw (g_st (run g ops)).
Proof.
  intros c deck g ops Hc Hcr. destruct (inv_chips _ (Inv_reachable c deck g ops Hc Hcr)) as [_ _ _ A B]. auto.
Qed.
Print Assumptions C12_raise_size_nonneg.

Theorem C12_raise_below_wager_refused :
  forall g who x,
    (seat_of g who < nplayers g)%nat -> allowed g (seat_of g who) ARaise = true ->
    x = 0 \/ x < st_cw (g_st g) -> step g (OAct who ARaise x) = (g, ErrIllegalRaise).
Proof. exact raise_below_wager_refused. Qed.
Print Assumptions C12_raise_below_wager_refused.

Theorem C12_nonpositive_bet_refused :
  forall g who x, (seat_of g who < nplayers g)%nat -> x <= 0 -> step g (OAct who ABet x) = (g, ErrInvalidAction).
Proof. exact bet_nonpositive_refused. Qed.
Print Assumptions C12_nonpositive_bet_refused.

(* no-limit: a raise request to a level below the player's total (what he has behind plus what he has in
   front) that lifts the wager to match by at least the size of the previous bet or raise is carried out
   exactly — the level becomes the wager to match, the raiser the last raiser, the increment the new
   minimum raise; the raiser's wager is the level *)
From PF Require Import ProofsRaise.
Theorem C12_legal_raise_carried_out_exactly :
  forall g i x,
    Inv g -> (i < nplayers g)%nat -> allowed g i ARaise = true -> m_limit_pot (g_meta g) = false ->
    st_cw (g_st g) < x -> x < p_initial (get_p g i) -> st_prs (g_st g) <= x - st_cw (g_st g) ->
    let s := fst (act_raise g i x) in
    snd (act_raise g i x) = Ok /\
    st_cw (g_st s) = x /\ st_prs (g_st s) = x - st_cw (g_st g) /\ st_raiser (g_st s) = i /\
    p_wager (get_p s i) = x /\ p_stack (get_p s i) = p_initial (get_p g i) - x.
Proof. exact raise_exact. Qed.
Print Assumptions C12_legal_raise_carried_out_exactly.

(* a request that would lift the wager to match by less than that (or that reaches the player's total) is
   never carried out as an undersized raise: it is the all-in action *)
Theorem C12_undersized_raise_is_all_in :
  forall g i x,
    allowed g i ARaise = true -> st_cw (g_st g) < x -> 0 <= st_cw (g_st g) ->
    (p_initial (get_p g i) <= x \/ x - st_cw (g_st g) < st_prs (g_st g)) ->
    act_raise g i x = act_allin g i.
Proof. exact raise_undersized_is_allin. Qed.
Print Assumptions C12_undersized_raise_is_all_in.

(* the wager to match never goes down by an action (it is reset only when a street is closed) *)
Theorem C12_wager_to_match_never_goes_down :
  forall g who a x,
    st_cw (g_st g) <= st_cw (g_st (fst (step g (OAct who a x)))).
Proof.
  intros g who a x. cbn [step]. destruct (negb (Nat.ltb _ (nplayers g))) eqn:E; [cbn [fst]; lia|].
  apply negb_false_iff, Nat.ltb_lt in E. apply cw_never_goes_down_by_an_action. exact E.
Qed.
Print Assumptions C12_wager_to_match_never_goes_down.
