(* C09 — tournament balancing never loses, duplicates or miscounts a player. Refusals. *)
From PF Require Import Base ModelReg ProofsRegBasic.

Theorem C09_sync_unknown_table_refused :
  forall st id out, find_table id (r_tables (rs_reg st)) = None ->
    sync_state st id out = (st, 0, [], RErrNotFoundTable).
Proof. exact sync_unknown_refused. Qed.
Print Assumptions C09_sync_unknown_table_refused.

Theorem C09_registration_after_deadline_refused :
  forall st players, r_status (rs_reg st) = 2 -> add_players st players = (st, RErrAfterDeadline).
Proof. exact add_after_deadline_refused. Qed.
Print Assumptions C09_registration_after_deadline_refused.
