#!/usr/bin/env python3
"""store_seeded.py <Cxx> <A|B> "<needs>" "<detected by>" — copies a confirmed seeded change into /verif/seeded/"""
import json, os, shutil, sys
p, v, needs, det = sys.argv[1:5]
out = "/tmp/out-%s" % p
dst = "/verif/seeded/%s-%s" % (p, v)
os.makedirs(dst, exist_ok=True)
shutil.copy(os.path.join(out, v + ".diff"), os.path.join(dst, "patch.diff"))
demo = os.path.join(dst, "demo")
if os.path.exists(demo):
    shutil.rmtree(demo)
shutil.copytree(os.path.join(out, "demo_" + v), demo)
notes = os.path.join(out, "NOTES.md")
if os.path.exists(notes):
    shutil.copy(notes, os.path.join(dst, "NOTES_from_author.md"))
meta = {
    "property": p,
    "variant": v,
    "breaks": "see NOTES_from_author.md (written by the sub-agent that produced the change, which saw only the property text)",
    "needs_in_order_to_manifest": needs,
    "confirmed": "scratch worktree /tmp/wt-%s: demo passes on the unchanged tree; with patch.diff applied `go build ./...` and "
                 "`go test ./combination ./pot ./regulator ./settlement ./testcases` pass and the demo fails (tools/eval_seeded.sh)" % p,
    "checks_run": "git -C /repo apply patch.diff; ./check <id>; git -C /repo checkout -- .",
    "detected_by": det,
}
json.dump(meta, open(os.path.join(dst, "meta.json"), "w"), indent=1)
print("stored", dst)
