(* C16 — published pots partition the chips into correctly nested side pots.
   inputs           : any list of (index, contribution, fold flag), in insertion order, contributions >= 0
   ll_of inputs     : the level list after the AddContributor calls; get_pots : what GetPots publishes
   contrib_sum cs a b = sum over ALL players (folded or not) of min(c, b) - min(c, a):
                      what was put in between level a and level b
   elig cs fs x     : the non-folded players who contributed at least x, in index order
   published cs fs lo p : pot p whose predecessor has level lo (0 for the main pot):
       wager = level - lo, total = contrib_sum lo level,
       its eligible (= non-folded) entries are exactly elig level, each listed with level - lo,
       a folded player is listed (with his whole contribution, for display) exactly when lo < contribution
   published_chain  : every pot is `published` with respect to its predecessor, levels strictly
                      increase and the eligible sets strictly shrink *)
From PF Require Import Base ModelPot ProofsPot.

Theorem C16_published_pots :
  forall inputs, nonneg_inputs inputs ->
    let ll := ll_of inputs in
    published_chain (ll_contribs ll) (ll_folded ll) 0 (get_pots ll).
Proof. exact get_pots_published. Qed.
Print Assumptions C16_published_pots.

Theorem C16_levels_strictly_increasing :
  forall inputs, nonneg_inputs inputs -> zsorted (map pt_level (get_pots (ll_of inputs))).
Proof. intros inputs Hn. eapply published_levels_sorted. apply get_pots_published. exact Hn. Qed.
Print Assumptions C16_levels_strictly_increasing.

(* no chip is created or lost: the totals add up to all chips put in *)
Theorem C16_totals_add_up :
  forall inputs, nonneg_inputs inputs ->
    zsum (map pt_total (get_pots (ll_of inputs))) = zsum (map snd (ll_contribs (ll_of inputs))).
Proof. exact get_pots_totals. Qed.
Print Assumptions C16_totals_add_up.

(* the contribution levels behind the pots are strictly increasing (any inputs) *)
Theorem C16_levels_increasing :
  forall inputs : list (Z * Z * bool), zsorted (map l_level (ll_levels (ll_of inputs))).
Proof. exact ll_levels_sorted. Qed.
Print Assumptions C16_levels_increasing.

(* non-vacuity / reading aid: 100,100,50 live and 70 folded (the F8/F9 shape) *)
Example C16_example :
  let inputs := [(0, 100, false); (1, 100, false); (2, 50, false); (3, 70, true)] in
  nonneg_inputs inputs /\
  map (fun p => (pt_level p, pt_total p, pt_contribs p)) (get_pots (ll_of inputs))
  = [(50, 200, [(0, 50); (1, 50); (2, 50); (3, 70)]); (100, 120, [(0, 50); (1, 50); (3, 70)])].
Proof.
  split; [|vm_compute; reflexivity].
  intros x Hx. simpl in Hx. repeat (destruct Hx as [<-|Hx]; [simpl; discriminate|]). contradiction.
Qed.
