#!/bin/sh
# builds the extracted model + driver into runner/bin/runner; cwd-independent
set -e
here=$(cd "$(dirname "$0")" && pwd)
mkdir -p "$here/build" "$here/bin"
cd "$here/build"
timeout 600 coqc -Q "$here/../coq/theories" PF "$here/../coq/theories/Extract.v" >/dev/null
rm -f "$here/../coq/theories/Extract.vo" "$here/../coq/theories/Extract.glob" "$here/../coq/theories/.Extract.aux" "$here/../coq/theories/Extract.vos" "$here/../coq/theories/Extract.vok"
cp "$here/driver.ml" .
ocamlfind ocamlopt -O3 -w -a -package str model.mli model.ml driver.ml -o "$here/bin/runner" 2>/dev/null || \
ocamlfind ocamlopt -w -a model.mli model.ml driver.ml -o "$here/bin/runner"
