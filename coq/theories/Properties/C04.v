(* C04 — only the player to act can act, in the right phase. Refusal half: these
   statements hold at EVERY state (no invariant needed, only the guards). *)
From PF Require Import Base ModelGame ProofsGameBasic ProofsInv.

Theorem C04_ready_wrong_phase :
  forall g, st_event (g_st g) <> EvReadyRequested -> step g OReady = (g, ErrInvalidAction).
Proof. exact ready_refused. Qed.
Print Assumptions C04_ready_wrong_phase.

Theorem C04_ante_wrong_phase :
  forall g, st_event (g_st g) <> EvAnteRequested \/ m_ante (g_meta g) = 0 -> step g OPayAnte = (g, ErrInvalidAction).
Proof. exact pay_ante_refused. Qed.
Print Assumptions C04_ante_wrong_phase.

Theorem C04_blinds_wrong_phase :
  forall g, st_event (g_st g) <> EvBlindsRequested -> step g OPayBlinds = (g, ErrInvalidAction).
Proof. exact pay_blinds_refused. Qed.
Print Assumptions C04_blinds_wrong_phase.

Theorem C04_next_wrong_phase :
  forall g, st_event (g_st g) <> EvRoundClosed -> step g ONext = (g, ErrNotClosedRound).
Proof. exact next_refused. Qed.
Print Assumptions C04_next_wrong_phase.

(* any action that the addressed seat was not offered is refused and changes nothing;
   in particular every action of a seat whose offer is empty *)
Theorem C04_action_not_offered :
  forall g who a x,
    (seat_of g who < nplayers g)%nat -> allowed g (seat_of g who) a = false ->
    step g (OAct who a x) = (g, ErrInvalidAction).
Proof. exact action_not_offered_refused. Qed.
Print Assumptions C04_action_not_offered.

Theorem C04_seat_without_offer :
  forall g i a, p_allowed (get_p g i) = [] -> allowed g i a = false.
Proof. exact allowed_nil. Qed.
Print Assumptions C04_seat_without_offer.

(* in every reachable state: outside a betting round nobody is offered anything, and the never
   legal "pay" is never among the offers *)
Theorem C04_no_offers_outside_betting_round :
  forall c deck g ops i,
    cfg_ok c -> create c deck = (g, Ok) ->
    st_event (g_st (run g ops)) <> EvRoundStarted -> p_allowed (get_p (run g ops) i) = [].
Proof.
  intros c deck g ops i Hc Hcr He. apply (inv_offers _ (Inv_reachable c deck g ops Hc Hcr) He).
Qed.
Print Assumptions C04_no_offers_outside_betting_round.
