(* C20 — rebalancing settles. Break half. *)
From PF Require Import Base ModelReg ProofsRegBasic.

(* a table that is told to break hands back all of its players: whenever SyncState removes the
   table, the release count is the table's whole remaining player count *)
Theorem C20_break_hands_back_everybody :
  forall st id out t0,
    find_table id (r_tables (rs_reg st)) = Some t0 ->
    let '(st', rel, handed, o) := sync_state st id out in
    find_table id (r_tables (rs_reg st')) = None -> rel = t_pc t0 - out /\ handed = [] /\ o = ROk.
Proof. exact sync_break_returns_all. Qed.
Print Assumptions C20_break_hands_back_everybody.
