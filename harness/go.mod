module verif/harness

go 1.19

require github.com/weedbox/pokerface v0.0.0

require (
	github.com/google/uuid v1.3.0 // indirect
	github.com/weedbox/syncsaga v0.0.0-20230821071725-a634f0872340 // indirect
	github.com/weedbox/timebank v0.0.0-20230713013837-bd7a6f808e3e // indirect
)

replace github.com/weedbox/pokerface => /repo
