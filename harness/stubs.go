package main

import "math/rand"

func runSeat(o *Out, rng *rand.Rand, n int, mode string, scope int, replay string) int { return 0 }
func runReg(o *Out, rng *rand.Rand, n int, mode string, scope int, replay string) int  { return 0 }
func runGame(o *Out, rng *rand.Rand, n int, mode string, scope int, replay string) int { return 0 }
func runShuffle(o *Out, rng *rand.Rand, n int) int                                     { return 0 }
func runRace(o *Out, rng *rand.Rand, n int) int                                        { return 0 }
func runSchema(o *Out) int                                                             { return 0 }
