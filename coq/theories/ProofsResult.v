(* ProofsResult.v — the result recorded when a hand closes (closing clauses of C01, engine side of C02).
   (1) only game_completed writes the result; (2) once it is written the hand is closed and nothing changes;
   (3) the result is the settlement of the vector read off the players; (4) what the settlement theorems
   say about that vector. *)
From Coq Require Import Lia.
From PF Require Import Base ProofsBase Comb ModelPot ModelSettle ModelEval ModelGame
                       ProofsGameBasic ProofsChips ProofsInv ProofsPot ProofsSettle.

(* ---------- (1) frame: the result field ---------- *)
Definition rv (g : gstate) : option result := g_result g.

Ltac rbrute :=
  unfold pay, become_raiser, reset_acted, reset_all, round_closed, update_pots, set_current, set_event, set_last,
         request_ready, reset_all_status, reset_round_status, update_combs, map_p, upd_p, with_st, with_players, with_result, rv;
  repeat match goal with |- context [if ?c then _ else _] => destruct c end; reflexivity.

Lemma rv_pay g i chips w : rv (pay g i chips w) = rv g.
Proof. pose proof (qv_pay g i chips w) as H. unfold qv in H. unfold rv. injection H as _ -> _ _ _ _ _ _ _ _ _ _. reflexivity. Qed.
Lemma rv_round_closed g : rv (round_closed g) = rv g. Proof. rbrute. Qed.
Lemma rv_set_current g i : rv (set_current g i) = rv g. Proof. rbrute. Qed.
Lemma rv_reset_all g : rv (reset_all g) = rv g. Proof. rbrute. Qed.
Lemma rv_request_ready g : rv (request_ready g) = rv g. Proof. rbrute. Qed.
Lemma rv_set_last g a t v : rv (set_last g a t v) = rv g. Proof. reflexivity. Qed.
Lemma rv_set_event g e : rv (set_event g e) = rv g. Proof. reflexivity. Qed.
Lemma rv_upd g i f : rv (upd_p g i f) = rv g. Proof. reflexivity. Qed.
Lemma rv_map g f : rv (map_p g f) = rv g. Proof. reflexivity. Qed.
Lemma rv_with_st g s : rv (with_st g s) = rv g. Proof. reflexivity. Qed.
Lemma rv_with_players g ps : rv (with_players g ps) = rv g. Proof. reflexivity. Qed.
Lemma rv_update_pots g : rv (update_pots g) = rv g. Proof. reflexivity. Qed.
Lemma rv_update_combs g : rv (update_combs g) = rv g. Proof. reflexivity. Qed.
Lemma rv_reset_round_status g : rv (reset_round_status g) = rv g. Proof. reflexivity. Qed.
Lemma rv_reset_all_status g : rv (reset_all_status g) = rv g. Proof. reflexivity. Qed.

Lemma rv_request_action g : rv (request_action g) = rv g.
Proof.
  unfold request_action.
  destruct (Nat.eqb (alive_count g) 1); [apply rv_round_closed|].
  destruct (Nat.eqb (movable_count g) 0); [apply rv_round_closed|].
  destruct (p_acted _); [apply rv_round_closed|apply rv_set_current].
Qed.
Lemma rv_resume g : rv (resume g) = rv g.
Proof. unfold resume. destruct (st_event (g_st g)); try reflexivity; try apply rv_request_action; apply rv_round_closed. Qed.
Lemma rv_prepare_round g : rv (prepare_round g) = rv g.
Proof.
  unfold prepare_round. destruct (st_round (g_st g)); try apply rv_request_ready;
    destruct (Nat.leb (movable_count g) 1); try apply rv_round_closed; apply rv_request_ready.
Qed.
Lemma rv_find_bb_loop n g : rv (find_bb_loop n g) = rv g.
Proof.
  revert g; induction n as [|n IH]; intros g; simpl; [reflexivity|].
  destruct (p_bb _); [apply rv_set_current|]. rewrite IH. apply rv_set_current.
Qed.
Lemma rv_start_round g : rv (start_round g) = rv g.
Proof.
  unfold start_round. destruct (st_round (g_st (reset_all g))).
  all: try (rewrite rv_request_action, rv_set_event, rv_set_current; apply rv_reset_all).
  destruct (Nat.eqb (movable_count (reset_all g)) 0).
  - rewrite rv_round_closed. apply rv_reset_all.
  - rewrite rv_request_action, rv_set_event, rv_find_bb_loop, rv_set_current. apply rv_reset_all.
Qed.
Lemma rv_ante_loop order : forall g, rv (fst (ante_loop order g)) = rv g.
Proof.
  induction order as [|i t IH]; intros g; simpl; [reflexivity|].
  destruct (0 <? p_wager (get_p g i)); [reflexivity|]. rewrite IH, rv_set_last. apply rv_pay.
Qed.
Lemma rv_fold_pay_blind order : forall g, rv (fold_left pay_blind order g) = rv g.
Proof.
  induction order as [|i t IH]; intros g; simpl; [reflexivity|]. rewrite IH. unfold pay_blind.
  destruct (blind_of _ _). rewrite rv_set_last. apply rv_pay.
Qed.
Lemma rv_enter_preflop g : rv (fst (enter_preflop g)) = rv g.
Proof.
  unfold enter_preflop. destruct (negb _); [reflexivity|].
  destruct (_ && _); cbn [fst]; [rewrite rv_prepare_round|rewrite rv_set_event]; reflexivity.
Qed.
Lemma rv_enter_street g r : rv (fst (enter_street g r)) = rv g.
Proof.
  unfold enter_street. destruct (negb _); [reflexivity|]. cbn [fst].
  rewrite rv_prepare_round, rv_update_combs, rv_set_current. reflexivity.
Qed.

Lemma rv_do_ready g : rv (fst (do_ready g)) = rv g.
Proof.
  unfold do_ready. destruct (negb _); [reflexivity|].
  destruct (st_round (g_st (reset_all g))); cbn [fst]; try (rewrite rv_start_round; apply rv_reset_all).
  destruct (0 <? _); cbn [fst]; [rewrite rv_set_event|rewrite rv_enter_preflop]; apply rv_reset_all.
Qed.
Lemma rv_do_pay_ante g : rv (fst (do_pay_ante g)) = rv g.
Proof.
  unfold do_pay_ante. destruct (_ =? 0); [reflexivity|]. destruct (negb _); [reflexivity|].
  pose proof (rv_ante_loop (player_order g) g) as H. destruct (ante_loop (player_order g) g) as [g1 [|]]; cbn [fst] in *; [|exact H].
  rewrite rv_enter_preflop, rv_reset_round_status, rv_reset_all_status, rv_update_pots, rv_reset_all. exact H.
Qed.
Lemma rv_do_pay_blinds g : rv (fst (do_pay_blinds g)) = rv g.
Proof.
  unfold do_pay_blinds. destruct (negb _); [reflexivity|]. cbn [fst].
  rewrite rv_prepare_round, rv_reset_all, rv_with_st. apply rv_fold_pay_blind.
Qed.

Lemma rv_act g i a x :
  rv (fst (match a with
           | APass => act_pass g i | AFold => act_fold g i | ACheck => act_check g i | ACall => act_call g i
           | AAllin => act_allin g i | ABet => act_bet g i x | ARaise => act_raise g i x | APay => act_pay g i x end)) = rv g.
Proof.
  assert (Hcall : rv (fst (act_call g i)) = rv g).
  { unfold act_call. destruct (negb _); [reflexivity|]. cbn [fst]. now rewrite rv_resume, rv_set_last, rv_pay. }
  assert (Hallin : rv (fst (act_allin g i)) = rv g).
  { unfold act_allin. destruct (negb _); [reflexivity|]. cbn [fst]. rewrite rv_resume, rv_set_last, rv_pay.
    match goal with |- context [if ?c then _ else _] => destruct c end; reflexivity. }
  destruct a.
  - unfold act_pass. destruct (negb _); [reflexivity|]. cbn [fst]. now rewrite rv_resume.
  - unfold act_fold. destruct (negb _); [reflexivity|]. cbn [fst]. now rewrite rv_resume.
  - unfold act_check. destruct (negb _); [reflexivity|]. cbn [fst]. now rewrite rv_resume.
  - exact Hcall.
  - exact Hallin.
  - unfold act_bet. destruct (negb _); [reflexivity|]. destruct (x <=? 0); [reflexivity|].
    destruct (_ <=? x); [exact Hallin|]. cbn [fst]. rewrite rv_resume, rv_set_last, rv_with_st, rv_pay. reflexivity.
  - unfold act_raise. destruct (negb _); [reflexivity|]. destruct (_ || _); [reflexivity|].
    destruct (x =? _); [exact Hcall|]. destruct (_ || _); [exact Hallin|]. cbn [fst].
    rewrite rv_resume, rv_set_last, rv_pay. reflexivity.
  - unfold act_pay. destruct (negb _); [reflexivity|]. cbn [fst]. now rewrite rv_resume, rv_set_last, rv_pay.
Qed.

(* ---------- (2) the recorded result is the settlement of the final chips ---------- *)
Definition result_of (g : gstate) : result := settle (pots_of_players (g_players g)) (settle_inputs (g_players g)).

Definition Rinv (g : gstate) : Prop :=
  match g_result g with
  | None => True
  | Some r => st_event (g_st g) = EvGameClosed /\ r = result_of g /\
              settle_panics (pots_of_players (g_players g)) (settle_inputs (g_players g)) = false
  end.

Lemma game_completed_result g :
  let r := game_completed g in
  (snd r = Panic /\ fst r = g) \/
  (snd r = Ok /\ g_players (fst r) = g_players g /\ st_event (g_st (fst r)) = EvGameClosed /\
   g_result (fst r) = Some (result_of g) /\
   settle_panics (pots_of_players (g_players g)) (settle_inputs (g_players g)) = false).
Proof.
  unfold game_completed. cbv zeta. cbn [update_pots with_st g_players g_st st_pots st_set_pots].
  destruct (settle_panics _ _) eqn:E; [left; split; reflexivity|]. right. cbn [fst snd]. repeat split; try reflexivity; exact E.
Qed.

Lemma closed_state_fixed g o : Inv g -> st_event (g_st g) = EvGameClosed -> fst (step g o) = g.
Proof.
  intros HI He.
  assert (Hno : no_offers g) by (apply (inv_offers g HI); rewrite He; discriminate).
  destruct o as [| | | |who a x].
  - destruct (closed_refuses g OReady He Hno I) as (e & -> & _). reflexivity.
  - destruct (closed_refuses g OPayAnte He Hno I) as (e & -> & _). reflexivity.
  - destruct (closed_refuses g OPayBlinds He Hno I) as (e & -> & _). reflexivity.
  - destruct (closed_refuses g ONext He Hno I) as (e & -> & _). reflexivity.
  - destruct (Nat.ltb (seat_of g who) (nplayers g)) eqn:El.
    + apply Nat.ltb_lt in El. destruct (closed_refuses g (OAct who a x) He Hno El) as (e & -> & _). reflexivity.
    + unfold step. fold (seat_of g who). rewrite El. reflexivity.
Qed.

Lemma Rinv_step g o : Inv g -> Rinv g -> Rinv (fst (step g o)).
Proof.
  intros HI HR. unfold Rinv in HR. destruct (g_result g) as [r|] eqn:Er.
  - destruct HR as (He & Hr & Hp). rewrite (closed_state_fixed g o HI He). unfold Rinv. rewrite Er. auto.
  - assert (Keep : forall g', rv g' = rv g -> Rinv g') by (intros g' H; unfold Rinv; unfold rv in H; rewrite H, Er; exact I).
    destruct o as [| | | |who a x]; cbn [step].
    + apply Keep, rv_do_ready.
    + apply Keep, rv_do_pay_ante.
    + apply Keep, rv_do_pay_blinds.
    + unfold do_next. destruct (negb _); [apply Keep; reflexivity|].
      set (g0 := set_last g (-1) LNext 0). set (g1 := reset_all_status (reset_round_status g0)).
      set (guard := fun res : gstate * outcome => match res with (_, Panic) => (g, Panic) | x => x end).
      assert (Hgc : Rinv (fst (guard (game_completed g1)))).
      { unfold guard. destruct (game_completed_result g1) as [[E1 E2]|(E1 & E2 & E3 & E4 & E5)].
        - destruct (game_completed g1) as [g2 o2]. cbn [fst snd] in *. subst o2. cbn [fst]. apply Keep. reflexivity.
        - destruct (game_completed g1) as [g2 o2]. cbn [fst snd] in *. subst o2. cbn [fst].
          unfold Rinv. rewrite E4. split; [exact E3|]. unfold result_of. rewrite E2. split; [reflexivity|exact E5]. }
      assert (Hst : forall r, Rinv (fst (guard (enter_street g1 r)))).
      { intros r. unfold guard. pose proof (rv_enter_street g1 r) as H. destruct (enter_street g1 r) as [g2 o2]. cbn [fst] in H.
        destruct o2; cbn [fst]; try (apply Keep; exact H); apply Keep; reflexivity. }
      destruct (st_round (g_st g0)); [apply Keep; reflexivity| | | |];
        destruct (Nat.eqb (alive_count g1) 1); try exact Hgc; apply Hst.
    + destruct (negb _); [apply Keep; reflexivity|]. apply Keep. apply rv_act.
Qed.

Lemma Rinv_run ops : forall g, Inv g -> Rinv g -> Rinv (run g ops).
Proof.
  unfold run. induction ops as [|o t IH]; intros g HI HR; cbn [fold_left]; [exact HR|].
  apply IH; [apply Inv_step; exact HI|apply Rinv_step; assumption].
Qed.

Lemma Rinv_create c deck g : create c deck = (g, Ok) -> Rinv g.
Proof.
  unfold create. intros H.
  destruct (Nat.ltb _ 2); [discriminate|]. destruct (dealer_opt _); [|discriminate].
  destruct (existsb _ _); [discriminate|]. destruct (Nat.eqb _ 0); [discriminate|]. destruct (Nat.ltb _ _); [discriminate|].
  injection H as <-. exact I.
Qed.

Theorem result_is_the_settlement c deck g ops :
  cfg_ok c -> create c deck = (g, Ok) -> Rinv (run g ops).
Proof.
  intros Hc Hcr. apply Rinv_run; [|apply (Rinv_create c deck g Hcr)].
  pose proof (Inv_reachable c deck g [] Hc Hcr) as H. exact H.
Qed.

(* ---------- (3) the settlement vector read off the players ---------- *)
Definition vec_entry (ip : nat * pstate) : Z * Z * bool * Z * Z :=
  (zn (fst ip), p_pot (snd ip) + p_wager (snd ip), p_fold (snd ip), p_bankroll (snd ip), score_of (snd ip)).
Definition player_vec_from (start : nat) (ps : list pstate) : vec := map vec_entry (combine (seq start (length ps)) ps).
Definition player_vec (ps : list pstate) : vec := player_vec_from 0 ps.

Lemma pots_fold_vec ps : forall ll start,
  fst (fold_left (fun acc p => (add_contributor (fst acc) (p_pot p + p_wager p) (snd acc) (p_fold p), snd acc + 1)) ps (ll, zn start))
  = fold_left (fun ll x => add_contributor ll (snd (fst x)) (fst (fst x)) (snd x)) (v_pot (player_vec_from start ps)) ll.
Proof.
  induction ps as [|p t IH]; intros ll start; [reflexivity|].
  cbn [fold_left fst snd]. replace (zn start + 1) with (zn (S start)) by (unfold zn; lia). rewrite IH. reflexivity.
Qed.

Lemma pots_of_players_vec ps : pots_of_players ps = get_pots (ll_of (v_pot (player_vec ps))).
Proof. unfold pots_of_players, ll_of, player_vec. f_equal. apply (pots_fold_vec ps ll_empty 0%nat). Qed.

Lemma settle_inputs_vec ps : settle_inputs ps = v_pl (player_vec ps).
Proof.
  unfold settle_inputs, v_pl, player_vec, player_vec_from. rewrite map_map. apply map_ext. intros [i p]. reflexivity.
Qed.

Lemma result_of_vec g : result_of g = settle_vec (player_vec (g_players g)).
Proof. unfold result_of, settle_vec. now rewrite pots_of_players_vec, settle_inputs_vec. Qed.

Lemma v_idx_player_vec_from ps : forall start, v_idx (player_vec_from start ps) = map zn (seq start (length ps)).
Proof.
  unfold v_idx, player_vec_from. induction ps as [|p t IH]; intros start; [reflexivity|].
  cbn [length seq combine map]. rewrite IH. reflexivity.
Qed.

Lemma player_vec_in ps i : (i < length ps)%nat -> In (vec_entry (i, nth i ps dflt_p)) (player_vec ps).
Proof.
  intros Hi. unfold player_vec, player_vec_from. apply in_map.
  assert (E : (i, nth i ps dflt_p) = nth i (combine (seq 0 (length ps)) ps) (0%nat, dflt_p)).
  { rewrite combine_nth by (rewrite seq_length; reflexivity). rewrite seq_nth by exact Hi. reflexivity. }
  rewrite E. apply nth_In. rewrite combine_length, seq_length. lia.
Qed.

Lemma player_vec_contrib ps c : In c (v_contrib (player_vec ps)) -> exists p, In p ps /\ c = p_pot p + p_wager p.
Proof.
  unfold v_contrib, player_vec, player_vec_from. rewrite map_map. intros H. apply in_map_iff in H as ([i p] & <- & Hin).
  exists p. split; [apply (in_combine_r _ _ _ _ Hin)|reflexivity].
Qed.

Lemma player_vec_ok g : (forall i, (i < nplayers g)%nat -> seat_ok (get_p g i)) -> vec_ok (player_vec (g_players g)).
Proof.
  intros Hs. split.
  - unfold player_vec. rewrite v_idx_player_vec_from. apply FinFun.Injective_map_NoDup; [|apply seq_NoDup].
    intros a b H. unfold zn in H. lia.
  - intros c Hc. apply player_vec_contrib in Hc as (p & Hp & ->).
    destruct (In_nth _ _ dflt_p Hp) as (i & Hi & E). specialize (Hs i Hi). unfold get_p in Hs. rewrite E in Hs.
    destruct Hs as (_ & _ & _ & A & B). lia.
Qed.

(* ---------- (4) the closing clauses ---------- *)
Theorem closing_result c deck g ops :
  cfg_ok c -> create c deck = (g, Ok) ->
  let s := run g ops in
  forall r, g_result s = Some r ->
    st_event (g_st s) = EvGameClosed /\
    r = settle_vec (player_vec (g_players s)) /\
    idxs (res_players r) = map zn (seq 0 (nplayers s)) /\
    sumc (res_players r) = 0 /\
    forall i, (i < nplayers s)%nat ->
      let p := get_p s i in
      fin (res_players r) (zn i) = p_bankroll p + chg (res_players r) (zn i) /\
      - (p_pot p + p_wager p) <= chg (res_players r) (zn i) /\
      0 <= fin (res_players r) (zn i).
Proof.
  intros Hc Hcr s r Hr.
  pose proof (result_is_the_settlement c deck g ops Hc Hcr) as HR. fold s in HR. unfold Rinv in HR. rewrite Hr in HR.
  destruct HR as (He & -> & _). split; [exact He|]. rewrite result_of_vec. split; [reflexivity|].
  pose proof (Inv_reachable c deck g ops Hc Hcr) as HI. fold s in HI.
  assert (Hseats : forall i, (i < nplayers s)%nat -> seat_ok (get_p s i)) by (apply (c0_seats s (inv_chips s HI))).
  pose proof (player_vec_ok s Hseats) as Hok.
  destruct (settle_vec_summary (player_vec (g_players s)) Hok) as (I & Z0 & P).
  split; [rewrite I; unfold player_vec; apply v_idx_player_vec_from|]. split; [exact Z0|].
  intros i Hi p.
  pose proof (player_vec_in (g_players s) i Hi) as Hin. fold (get_p s i) in Hin. fold p in Hin. unfold vec_entry in Hin. cbn [fst snd] in Hin.
  destruct (P _ _ _ _ _ Hin) as [F [B1 _]]. split; [exact F|]. split; [exact B1|].
  destruct (Hseats i Hi) as (S1 & _ & S3 & _ & _). fold p in S1, S3. lia.
Qed.

(* whenever pots are published (updatePots) they add up to exactly what the players have put in *)
Theorem published_pots_add_up g :
  (forall i, (i < nplayers g)%nat -> seat_ok (get_p g i)) ->
  zsum (map pt_total (st_pots (g_st (update_pots g)))) = zsum (map (fun p => p_pot p + p_wager p) (g_players g)).
Proof.
  intros Hs. cbn [update_pots with_st g_st st_pots st_set_pots]. rewrite pots_of_players_vec.
  rewrite (vec_pots_total _ (player_vec_ok g Hs)). f_equal.
  unfold v_contrib, player_vec, player_vec_from. rewrite map_map.
  generalize 0%nat. induction (g_players g) as [|p t IH]; intros k; [reflexivity|].
  cbn [length seq combine map]. rewrite IH. reflexivity.
Qed.
