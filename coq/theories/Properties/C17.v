(* C17 — the button moves to the next player who can play. *)
From PF Require Import Base ModelSeat ProofsSeatBasic.

(* the seat found by the clockwise scan is the first playable one: it is playable and every
   seat scanned before it is not *)
Theorem C17_scan_finds_first_playable :
  forall s idxs start d pos,
    find_active s idxs start = Some (d, pos) ->
    (start <= pos)%nat /\ nth_error idxs (pos - start) = Some d /\ playable (get_seat s d) = true /\
    (forall k, (k < pos - start)%nat -> forall i, nth_error idxs k = Some i -> playable (get_seat s i) = false).
Proof. exact find_active_spec. Qed.
Print Assumptions C17_scan_finds_first_playable.
