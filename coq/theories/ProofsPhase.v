(* ProofsPhase.v — the phases of a hand (C06, parts of C05 and C13): which (event, street) pairs occur, in
   which order, that the step the hand is waiting for always succeeds, and that every accepted step
   decreases a measure, so that every hand finishes. *)
From Coq Require Import Lia.
From PF Require Import Base ProofsBase Comb ModelPot ModelSettle ModelEval ModelGame
                       ProofsGameBasic ProofsChips ProofsInv ProofsPos ProofsOffers ProofsView ProofsCards
                       ProofsBlinds ProofsPot ProofsSettle ProofsResult.

(* ---------- (1) event and street after each building block ---------- *)
Definition ph (g : gstate) : event * round := (st_event (g_st g), st_round (g_st g)).

Ltac pbrute :=
  unfold pay, become_raiser, reset_acted, reset_all, round_closed, update_pots, set_current, set_event, set_last,
         request_ready, reset_all_status, reset_round_status, update_combs, map_p, upd_p, with_st, with_players, with_result, ph;
  repeat match goal with |- context [if ?c then _ else _] => destruct c end; reflexivity.

Lemma ph_pay g i chips w : ph (pay g i chips w) = ph g. Proof. pbrute. Qed.
Lemma ph_set_current g i : ph (set_current g i) = ph g. Proof. pbrute. Qed.
Lemma ph_reset_all g : ph (reset_all g) = ph g. Proof. pbrute. Qed.
Lemma ph_set_last g a t v : ph (set_last g a t v) = ph g. Proof. reflexivity. Qed.
Lemma ph_upd g i f : ph (upd_p g i f) = ph g. Proof. reflexivity. Qed.
Lemma ph_map g f : ph (map_p g f) = ph g. Proof. reflexivity. Qed.
Lemma ph_update_pots g : ph (update_pots g) = ph g. Proof. reflexivity. Qed.
Lemma ph_update_combs g : ph (update_combs g) = ph g. Proof. reflexivity. Qed.
Lemma ph_reset_round_status g : ph (reset_round_status g) = ph g. Proof. reflexivity. Qed.
Lemma ph_reset_all_status g : ph (reset_all_status g) = ph g. Proof. reflexivity. Qed.
Lemma ph_set_event g e : ph (set_event g e) = (e, st_round (g_st g)). Proof. reflexivity. Qed.
Lemma ph_round_closed g : ph (round_closed g) = (EvRoundClosed, st_round (g_st g)). Proof. reflexivity. Qed.
Lemma ph_request_ready g : ph (request_ready g) = (EvReadyRequested, st_round (g_st g)). Proof. reflexivity. Qed.

Lemma ph_request_action g :
  ph (request_action g) = ph g \/ ph (request_action g) = (EvRoundClosed, st_round (g_st g)).
Proof.
  unfold request_action.
  destruct (Nat.eqb (alive_count g) 1); [right; apply ph_round_closed|].
  destruct (Nat.eqb (movable_count g) 0); [right; apply ph_round_closed|].
  destruct (p_acted _); [right; apply ph_round_closed|left; apply ph_set_current].
Qed.

Lemma ph_find_bb_loop n g : ph (find_bb_loop n g) = ph g.
Proof.
  revert g; induction n as [|n IH]; intros g; simpl; [reflexivity|].
  destruct (p_bb _); [apply ph_set_current|]. rewrite IH. apply ph_set_current.
Qed.

Lemma ph_start_round g :
  ph (start_round g) = (EvRoundStarted, st_round (g_st g)) \/ ph (start_round g) = (EvRoundClosed, st_round (g_st g)).
Proof.
  assert (R : st_round (g_st (reset_all g)) = st_round (g_st g)) by reflexivity.
  assert (G : forall g1, ph g1 = ph (reset_all g) ->
              ph (request_action (set_event g1 EvRoundStarted)) = (EvRoundStarted, st_round (g_st g)) \/
              ph (request_action (set_event g1 EvRoundStarted)) = (EvRoundClosed, st_round (g_st g))).
  { intros g1 H1. assert (R1 : st_round (g_st g1) = st_round (g_st g)) by (unfold ph in H1; injection H1 as _ ->; exact R).
    destruct (ph_request_action (set_event g1 EvRoundStarted)) as [H|H]; rewrite H, ?ph_set_event; cbn [set_event with_st g_st st_round st_set_event]; rewrite ?R1; auto. }
  unfold start_round. destruct (st_round (g_st (reset_all g))) eqn:Er.
  all: try (apply G; apply ph_set_current).
  destruct (Nat.eqb (movable_count (reset_all g)) 0).
  - right. rewrite ph_round_closed. reflexivity.
  - apply G. rewrite ph_find_bb_loop. apply ph_set_current.
Qed.

Lemma ph_prepare_round g :
  (ph (prepare_round g) = (EvReadyRequested, st_round (g_st g))) \/
  (ph (prepare_round g) = (EvRoundClosed, st_round (g_st g)) /\ st_round (g_st g) <> Preflop).
Proof.
  unfold prepare_round. destruct (st_round (g_st g)) eqn:Er.
  2: left; rewrite ph_request_ready, Er; reflexivity.
  all: destruct (Nat.leb (movable_count g) 1);
    [right; split; [rewrite ph_round_closed, Er; reflexivity|discriminate]|left; rewrite ph_request_ready, Er; reflexivity].
Qed.

Lemma ph_enter_preflop g :
  snd (enter_preflop g) = Ok ->
  ph (fst (enter_preflop g)) = (EvBlindsRequested, Preflop) \/ ph (fst (enter_preflop g)) = (EvReadyRequested, Preflop).
Proof.
  unfold enter_preflop. destruct (negb _); [discriminate|]. intros _.
  destruct (_ && _); cbn [fst]; [|left; reflexivity].
  right. match goal with |- ph (prepare_round ?x) = _ => destruct (ph_prepare_round x) as [H|[_ H]]; [rewrite H; reflexivity|exfalso; apply H; reflexivity] end.
Qed.

Lemma ph_enter_street g r :
  snd (enter_street g r) = Ok ->
  ph (fst (enter_street g r)) = (EvReadyRequested, r) \/ (ph (fst (enter_street g r)) = (EvRoundClosed, r) /\ r <> Preflop).
Proof.
  unfold enter_street. destruct (negb _); [discriminate|]. intros _. cbn [fst].
  match goal with |- context [prepare_round ?x] =>
    assert (R : st_round (g_st x) = r) by reflexivity; destruct (ph_prepare_round x) as [H|[H H']]; rewrite H, R in *; auto end.
Qed.

Lemma ph_game_completed g :
  snd (game_completed g) = Ok -> ph (fst (game_completed g)) = (EvGameClosed, st_round (g_st g)).
Proof. unfold game_completed. destruct (settle_panics _ _); [discriminate|]. reflexivity. Qed.

Lemma ph_resume g : ph (resume g) = ph g \/ ph (resume g) = (EvRoundClosed, st_round (g_st g)).
Proof.
  unfold resume. destruct (st_event (g_st g)) eqn:E; try (left; reflexivity).
  - apply ph_request_action.
  - right. apply ph_round_closed.
Qed.

Lemma ph_ante_loop order : forall g, ph (fst (ante_loop order g)) = ph g.
Proof.
  induction order as [|i t IH]; intros g; simpl; [reflexivity|].
  destruct (0 <? p_wager (get_p g i)); [reflexivity|]. rewrite IH, ph_set_last. apply ph_pay.
Qed.
Lemma ph_fold_pay_blind order : forall g, ph (fold_left pay_blind order g) = ph g.
Proof.
  induction order as [|i t IH]; intros g; simpl; [reflexivity|]. rewrite IH. unfold pay_blind.
  destruct (blind_of _ _). rewrite ph_set_last. apply ph_pay.
Qed.

(* ---------- (2) the legal (event, street) pairs and their order ---------- *)
Definition round_num (r : round) : nat := match r with RNone => 0 | Preflop => 1 | Flop => 2 | Turn => 3 | River => 4 end.

Definition pos_of (x : event * round) : nat :=
  match x with
  | (EvGameClosed, _) => 15
  | (EvReadyRequested, RNone) => 0
  | (EvAnteRequested, _) => 1
  | (EvBlindsRequested, _) => 2
  | (EvReadyRequested, r) => 3 * round_num r
  | (EvRoundStarted, r) => 3 * round_num r + 1
  | (EvRoundClosed, r) => 3 * round_num r + 2
  | (EvNone, _) => 0
  end.

Definition legal (x : event * round) : Prop :=
  match x with
  | (EvReadyRequested, _) => True
  | (EvAnteRequested, r) => r = RNone
  | (EvBlindsRequested, r) => r = Preflop
  | (EvRoundStarted, r) | (EvRoundClosed, r) | (EvGameClosed, r) => r <> RNone
  | (EvNone, _) => False
  end.

Definition wagers0 (g : gstate) : Prop := forall i, (i < nplayers g)%nat -> p_wager (get_p g i) = 0.

Record Pinv (g : gstate) : Prop := mkPinv {
  pi_legal : legal (ph g);
  pi_two : (2 <= nplayers g)%nat;
  pi_ante : st_event (g_st g) = EvAnteRequested -> 0 < m_ante (g_meta g);
  pi_none : st_round (g_st g) = RNone -> wagers0 g /\ st_cw (g_st g) = 0;
  pi_blinds : st_event (g_st g) = EvBlindsRequested -> wagers0 g /\ st_cw (g_st g) = 0;
  pi_cur : st_event (g_st g) = EvRoundStarted -> p_acted (get_p g (st_cur (g_st g))) = false }.

Lemma wagers0_cv g g' : chips_view g' = chips_view g -> wagers0 g /\ st_cw (g_st g) = 0 -> wagers0 g' /\ st_cw (g_st g') = 0.
Proof.
  intros Hv [Hw Hc]. destruct (cv_parts _ _ Hv) as (_ & Hpl & _ & Hcw & _). split; [|rewrite Hcw; exact Hc].
  intros i Hi. rewrite (nplayers_cv _ _ Hv) in Hi.
  assert (E : chips_of (get_p g' i) = chips_of (get_p g i)).
  { rewrite !get_p_cv by (try rewrite (nplayers_cv _ _ Hv); exact Hi). now rewrite Hpl. }
  unfold chips_of in E. injection E as _ _ _ _ ->. apply Hw. exact Hi.
Qed.

Lemma acted_set_current g n j : p_acted (get_p (set_current g n) j) = p_acted (get_p g j).
Proof.
  assert (H : gv p_acted (set_current g n) = gv p_acted g).
  { unfold set_current. rewrite (gv_upd p_acted _ n) by reflexivity.
    transitivity (gv p_acted (upd_p g (st_cur (g_st g)) (fun p => p_set_allowed p []))); [reflexivity|].
    apply (gv_upd p_acted). reflexivity. }
  unfold gv in H. unfold get_p. change false with (p_acted dflt_p).
  rewrite <- !(map_nth p_acted). now rewrite H.
Qed.

Lemma request_action_fresh g :
  st_event (g_st (request_action g)) = EvRoundStarted ->
  p_acted (get_p (request_action g) (st_cur (g_st (request_action g)))) = false.
Proof.
  unfold request_action.
  destruct (Nat.eqb (alive_count g) 1); [simpl; discriminate|].
  destruct (Nat.eqb (movable_count g) 0); [simpl; discriminate|].
  destruct (p_acted (get_p g (next_idx g))) eqn:E; [simpl; discriminate|]. intros _.
  rewrite acted_set_current. exact E.
Qed.

Lemma start_round_fresh g :
  st_event (g_st (start_round g)) = EvRoundStarted ->
  p_acted (get_p (start_round g) (st_cur (g_st (start_round g)))) = false.
Proof.
  unfold start_round. destruct (st_round (g_st (reset_all g))); try apply request_action_fresh.
  destruct (Nat.eqb (movable_count (reset_all g)) 0); [simpl; discriminate|apply request_action_fresh].
Qed.

Lemma legal_pos_le x : legal x -> (pos_of x <= 15)%nat.
Proof. destruct x as [[] []]; simpl; intros H; try lia; try contradiction; try discriminate. Qed.

(* ---------- (3) the phase invariant is kept by every operation ---------- *)
Lemma event_of_ph g e r : ph g = (e, r) -> st_event (g_st g) = e /\ st_round (g_st g) = r.
Proof. unfold ph. intros H. injection H as -> ->. auto. Qed.

Lemma Pinv_do_ready g : Kinv2 g -> Pinv g -> Pinv (fst (do_ready g)) .
Proof.
  intros [K KA] P. unfold do_ready.
  destruct (event_eqb (st_event (g_st g)) EvReadyRequested) eqn:Ee; [|exact P]. cbn [negb].
  assert (He : st_event (g_st g) = EvReadyRequested) by (destruct (st_event (g_st g)); try discriminate; reflexivity).
  assert (N0 : nplayers (reset_all g) = nplayers g) by (apply nplayers_cv, cv_reset_all).
  destruct (st_round (g_st (reset_all g))) eqn:Er.
  1: { assert (Er' : st_round (g_st g) = RNone) by exact Er.
    pose proof (wagers0_cv g (reset_all g) (cv_reset_all g) (pi_none g P Er')) as W0.
    destruct (0 <? m_ante (g_meta (reset_all g))) eqn:Ea; cbn [fst].
    + apply Z.ltb_lt in Ea. constructor; cbn [set_event with_st g_st st_event st_round st_set_event ph].
      * exact Er.
      * change (2 <= nplayers (reset_all g))%nat. rewrite N0. exact (pi_two g P).
      * intros _. exact Ea.
      * intros _. exact W0.
      * discriminate.
      * discriminate.
    + assert (K0 : Kinv (reset_all g)).
      { apply (Kinv_frame g); [apply sv_reset_all|unfold hv; apply gv_reset_all; hole_side|exact K]. }
      destruct (Kinv_enter_preflop (reset_all g) K0 Er) as (_ & Ok1 & R1).
      pose proof (wagers0_cv _ _ (cv_enter_preflop (reset_all g)) W0) as W1.
      assert (N1 : nplayers (fst (enter_preflop (reset_all g))) = nplayers g) by (rewrite (nplayers_cv _ _ (cv_enter_preflop _)); exact N0).
      destruct (ph_enter_preflop _ Ok1) as [H|H]; destruct (event_of_ph _ _ _ H) as [E1 E2];
        (constructor; [rewrite H; simpl; auto|rewrite N1; exact (pi_two g P)|rewrite E1; discriminate|rewrite E2; discriminate| |rewrite E1; discriminate]).
      * intros _. exact W1.
      * rewrite E1. discriminate. }
  all: cbn [fst].
  all: assert (Er' : st_round (g_st (reset_all g)) <> RNone) by (rewrite Er; discriminate).
  all: assert (N1 : nplayers (start_round (reset_all g)) = nplayers g) by (rewrite (nplayers_cv _ _ (cv_start_round _)); exact N0).
  all: destruct (ph_start_round (reset_all g)) as [H|H]; destruct (event_of_ph _ _ _ H) as [E1 E2];
      (constructor; [rewrite H; simpl; exact Er'|rewrite N1; exact (pi_two g P)|rewrite E1; discriminate|rewrite E2; intros E; contradiction|rewrite E1; discriminate|]).
  all: try (rewrite E1; discriminate).
  all: intros _; apply start_round_fresh; exact E1.
Qed.

Lemma reset_status_wagers0 g : wagers0 (reset_round_status (reset_all_status g)) /\ st_cw (g_st (reset_round_status (reset_all_status g))) = 0.
Proof.
  split; [|reflexivity]. intros i Hi.
  change (get_p (reset_round_status (reset_all_status g)) i) with (get_p (reset_all_status g) i).
  assert (Hn : nplayers (reset_all_status g) = nplayers g) by apply nplayers_map.
  unfold reset_all_status. rewrite get_p_map by (change (nplayers (reset_round_status (reset_all_status g))) with (nplayers (reset_all_status g)) in Hi; rewrite Hn in Hi; exact Hi).
  reflexivity.
Qed.

Lemma Pinv_do_pay_ante g : Inv g -> Kinv2 g -> Pinv g -> Pinv (fst (do_pay_ante g)) /\ (st_event (g_st g) = EvAnteRequested -> snd (do_pay_ante g) = Ok).
Proof.
  intros HI [K KA] P. unfold do_pay_ante.
  destruct (event_eqb (st_event (g_st g)) EvAnteRequested) eqn:Ee.
  2: { destruct (m_ante (g_meta g) =? 0); cbn [negb fst]; (split; [exact P|]); intros E; rewrite E in Ee; discriminate. }
  assert (He : st_event (g_st g) = EvAnteRequested) by (destruct (st_event (g_st g)); try discriminate; reflexivity).
  pose proof (pi_ante g P He) as Ha. replace (m_ante (g_meta g) =? 0) with false by (symmetry; apply Z.eqb_neq; lia). cbn [negb].
  assert (Hr : st_round (g_st g) = RNone) by (pose proof (pi_legal g P) as L; unfold ph in L; rewrite He in L; exact L).
  destruct (pi_none g P Hr) as [W0 C0].
  destruct (ante_loop_chips (player_order g) (player_order_NoDup g) g) as (g1 & E1 & N1 & M1 & _ & _).
  { intros i Hi. pose proof (player_order_lt g i Hi) as Hlt. split; [exact Hlt|]. split; [apply (c0_seats g (inv_chips g HI)); exact Hlt|apply W0; exact Hlt]. }
  { lia. }
  pose proof (sv_ante_loop (player_order g) g) as S1.
  assert (H1 : hv (fst (ante_loop (player_order g) g)) = hv g) by (unfold hv; apply gv_ante_loop; hole_side).
  rewrite E1 in *. cbn [fst] in *.
  assert (K1 : Kinv g1) by (apply (Kinv_frame g); [exact S1|exact H1|exact K]).
  set (g3 := reset_round_status (reset_all_status (update_pots (reset_all g1)))).
  assert (K3 : Kinv g3).
  { apply (Kinv_frame g1); [reflexivity|unfold hv, g3; rewrite gv_reset_round_status, gv_reset_all_status, gv_update_pots, gv_reset_all by hole_side; reflexivity|exact K1]. }
  assert (R3 : st_round (g_st g3) = RNone).
  { transitivity (st_round (g_st g1)); [reflexivity|]. rewrite (sv_round _ _ S1). exact Hr. }
  destruct (Kinv_enter_preflop g3 K3 R3) as (_ & O4 & _).
  split; [|intros _; exact O4].
  pose proof (wagers0_cv _ _ (cv_enter_preflop g3) (reset_status_wagers0 (update_pots (reset_all g1)))) as W4.
  assert (N4 : nplayers (fst (enter_preflop g3)) = nplayers g).
  { rewrite (nplayers_cv _ _ (cv_enter_preflop _)). unfold g3. change (nplayers (reset_round_status ?x)) with (nplayers x).
    unfold reset_all_status. rewrite nplayers_map. change (nplayers (update_pots ?x)) with (nplayers x).
    rewrite (nplayers_cv _ _ (cv_reset_all g1)). exact N1. }
  destruct (ph_enter_preflop _ O4) as [H|H]; destruct (event_of_ph _ _ _ H) as [E3 E4];
    (constructor; [rewrite H; simpl; auto|rewrite N4; exact (pi_two g P)|rewrite E3; discriminate|rewrite E4; discriminate| |rewrite E3; discriminate]).
  - intros _. exact W4.
  - rewrite E3. discriminate.
Qed.

Lemma Pinv_do_pay_blinds g : Pinv g -> Pinv (fst (do_pay_blinds g)).
Proof.
  intros P. unfold do_pay_blinds.
  destruct (event_eqb (st_event (g_st g)) EvBlindsRequested) eqn:Ee; [|exact P]. cbn [negb fst].
  assert (He : st_event (g_st g) = EvBlindsRequested) by (destruct (st_event (g_st g)); try discriminate; reflexivity).
  assert (Hr : st_round (g_st g) = Preflop) by (pose proof (pi_legal g P) as L; unfold ph in L; rewrite He in L; exact L).
  set (g1 := fold_left pay_blind (player_order g) g).
  set (g2 := with_st g1 (st_set_prs (g_st g1) (if 0 <? m_bbb (g_meta g1) then m_bbb (g_meta g1) else m_bdealer (g_meta g1)))).
  assert (Hph : ph (reset_all g2) = ph g) by (rewrite ph_reset_all; unfold g2; transitivity (ph g1); [reflexivity|apply ph_fold_pay_blind]).
  destruct (event_of_ph _ _ _ Hph) as [_ R2]. rewrite Hr in R2.
  assert (N : nplayers (prepare_round (reset_all g2)) = nplayers g).
  { rewrite (nplayers_cv _ _ (cv_prepare_round _)), (nplayers_cv _ _ (cv_reset_all _)). unfold g2. rewrite nplayers_with_st.
    unfold g1. clear. generalize (player_order g) as order. intros order. revert g. induction order as [|i t IH]; intros g; simpl; [reflexivity|].
    rewrite IH. unfold pay_blind. destruct (blind_of _ _). unfold set_last. rewrite nplayers_with_st. apply pay_nplayers. }
  destruct (ph_prepare_round (reset_all g2)) as [H|[H H']]; [|rewrite R2 in H'; contradiction].
  rewrite R2 in H. destruct (event_of_ph _ _ _ H) as [E1 E2].
  constructor; [rewrite H; exact I|rewrite N; exact (pi_two g P)|rewrite E1; discriminate|rewrite E2; discriminate|rewrite E1; discriminate|rewrite E1; discriminate].
Qed.

Lemma Pinv_do_next g : Inv g -> Kinv2 g -> Pinv g ->
  Pinv (fst (do_next g)) /\ (st_event (g_st g) = EvRoundClosed -> snd (do_next g) = Ok).
Proof.
  intros HI [K KA] P. unfold do_next.
  destruct (event_eqb (st_event (g_st g)) EvRoundClosed) eqn:Ee.
  2: { cbn [negb fst]. split; [exact P|]. intros E. rewrite E in Ee. discriminate. }
  cbn [negb].
  assert (He : st_event (g_st g) = EvRoundClosed) by (destruct (st_event (g_st g)); try discriminate; reflexivity).
  assert (Hr : st_round (g_st g) <> RNone) by (pose proof (pi_legal g P) as L; unfold ph in L; rewrite He in L; exact L).
  set (g0 := set_last g (-1) LNext 0). set (g1 := reset_all_status (reset_round_status g0)).
  assert (R1 : st_round (g_st g1) = st_round (g_st g)) by reflexivity.
  assert (N1 : nplayers g1 = nplayers g) by (unfold g1, reset_all_status; rewrite nplayers_map; reflexivity).
  assert (K1 : Kinv g1).
  { apply (Kinv_frame g); [reflexivity| |exact K]. unfold hv, g1, g0. rewrite gv_reset_all_status, gv_reset_round_status, gv_set_last by hole_side. reflexivity. }
  (* the settlement never divides by zero *)
  assert (Hc : Cinv g) by (apply Inv_Cinv; [exact HI|rewrite He; discriminate]).
  assert (Hc0 : Cinv0 g0) by (apply Cinv_Cinv0; eapply Cinv_neutral; [apply cv_set_last|exact Hc]).
  destruct (Cinv_collect g0 Hc0) as [_ Hc1]. fold g1 in Hc1.
  assert (Hseats : forall i, (i < nplayers g1)%nat -> seat_ok (get_p g1 i)) by (destruct Hc1 as [_ S _ _ _ _]; exact S).
  assert (Hnp : settle_panics (pots_of_players (g_players g1)) (settle_inputs (g_players g1)) = false).
  { rewrite pots_of_players_vec, settle_inputs_vec. apply settle_vec_no_panic. apply player_vec_ok. exact Hseats. }
  set (guard := fun res : gstate * outcome => match res with (_, Panic) => (g, Panic) | x => x end).
  assert (Hgc : Pinv (fst (guard (game_completed g1))) /\ snd (guard (game_completed g1)) = Ok).
  { assert (Ok1 : snd (game_completed g1) = Ok).
    { unfold game_completed. cbn [update_pots with_st g_players g_st st_pots st_set_pots]. rewrite Hnp. reflexivity. }
    pose proof (ph_game_completed g1 Ok1) as H. pose proof (cv_game_completed g1) as Hv.
    unfold guard. destruct (game_completed g1) as [g2 o2]. cbn [fst snd] in *. subst o2. cbn [fst snd]. split; [|reflexivity].
    destruct (event_of_ph _ _ _ H) as [E1 E2]. rewrite R1 in *.
    constructor; [rewrite H; exact Hr|rewrite (nplayers_cv _ _ Hv), N1; exact (pi_two g P)|rewrite E1; discriminate|rewrite E2; intros E; contradiction|rewrite E1; discriminate|rewrite E1; discriminate]. }
  assert (Hst : st_round (g_st g) = Preflop \/ st_round (g_st g) = Flop \/ st_round (g_st g) = Turn ->
                let r := next_street (st_round (g_st g)) in
                Pinv (fst (guard (enter_street g1 r))) /\ snd (guard (enter_street g1 r)) = Ok).
  { intros Hrr r. rewrite <- R1 in Hrr. destruct (Kinv_enter_street g1 K1 Hrr) as [_ Ok1]. rewrite R1 in Ok1. fold r in Ok1.
    pose proof (ph_enter_street g1 r Ok1) as H. pose proof (cv_enter_street g1 r) as Hv.
    assert (Hrn : r <> RNone) by (unfold r; rewrite R1 in Hrr; destruct Hrr as [->|[->| ->]]; discriminate).
    unfold guard. destruct (enter_street g1 r) as [g2 o2]. cbn [fst snd] in *. subst o2. cbn [fst snd]. split; [|reflexivity].
    destruct H as [H|[H _]]; destruct (event_of_ph _ _ _ H) as [E1 E2];
      (constructor; [rewrite H; simpl; auto|rewrite (nplayers_cv _ _ Hv), N1; exact (pi_two g P)|rewrite E1; discriminate|rewrite E2; intros E; contradiction|rewrite E1; discriminate|rewrite E1; discriminate]). }
  change (st_round (g_st g0)) with (st_round (g_st g)).
  destruct (st_round (g_st g)) eqn:Er; [contradiction| | | |].
  - destruct (Nat.eqb (alive_count g1) 1); [split; [apply Hgc|intros _; apply Hgc]|].
    destruct (Hst (or_introl eq_refl)) as [A B]. split; [exact A|intros _; exact B].
  - destruct (Nat.eqb (alive_count g1) 1); [split; [apply Hgc|intros _; apply Hgc]|].
    destruct (Hst (or_intror (or_introl eq_refl))) as [A B]. split; [exact A|intros _; exact B].
  - destruct (Nat.eqb (alive_count g1) 1); [split; [apply Hgc|intros _; apply Hgc]|].
    destruct (Hst (or_intror (or_intror eq_refl))) as [A B]. split; [exact A|intros _; exact B].
  - destruct (Nat.eqb (alive_count g1) 1); (split; [apply Hgc|intros _; apply Hgc]).
Qed.

Definition act_of (g : gstate) (i : nat) (a : action) (x : Z) : gstate * outcome :=
  match a with
  | APass => act_pass g i | AFold => act_fold g i | ACheck => act_check g i | ACall => act_call g i
  | AAllin => act_allin g i | ABet => act_bet g i x | ARaise => act_raise g i x | APay => act_pay g i x end.

(* a refused action leaves the state exactly as it was *)
Lemma act_refused_same g i a x : snd (act_of g i a x) <> Ok -> fst (act_of g i a x) = g.
Proof.
  assert (Hcall : snd (act_call g i) <> Ok -> fst (act_call g i) = g).
  { unfold act_call. destruct (negb _); [reflexivity|]. cbn [snd]. intros H. contradiction. }
  assert (Hallin : snd (act_allin g i) <> Ok -> fst (act_allin g i) = g).
  { unfold act_allin. destruct (negb _); [reflexivity|]. cbn [snd]. intros H. contradiction. }
  destruct a; cbn [act_of].
  - unfold act_pass. destruct (negb _); [reflexivity|]. cbn [snd]. intros H. contradiction.
  - unfold act_fold. destruct (negb _); [reflexivity|]. cbn [snd]. intros H. contradiction.
  - unfold act_check. destruct (negb _); [reflexivity|]. cbn [snd]. intros H. contradiction.
  - exact Hcall.
  - exact Hallin.
  - unfold act_bet. destruct (negb _); [reflexivity|]. destruct (x <=? 0); [reflexivity|].
    destruct (_ <=? x); [exact Hallin|]. cbn [snd]. intros H. contradiction.
  - unfold act_raise. destruct (negb _); [reflexivity|]. destruct (_ || _); [reflexivity|].
    destruct (x =? _); [exact Hcall|]. destruct (_ || _); [exact Hallin|]. cbn [snd]. intros H. contradiction.
  - unfold act_pay. destruct (negb _); [reflexivity|]. cbn [snd]. intros H. contradiction.
Qed.

Lemma outcome_ok_dec (o : outcome) : {o = Ok} + {o <> Ok}.
Proof. destruct o; (left; reflexivity) || (right; discriminate). Qed.

Lemma Pinv_act g i a x : Inv g -> Oinv g -> Pinv g -> Pinv (fst (act_of g i a x)).
Proof.
  intros HI HO P. destruct (outcome_ok_dec (snd (act_of g i a x))) as [Hok|Hno].
  2: { rewrite (act_refused_same g i a x Hno). exact P. }
  destruct (act_decomp g i a x HI HO Hok) as (g' & E & _ & _ & He' & Hn'). fold (act_of g i a x) in E.
  pose proof (sv_act g i a x) as Hsv. fold (act_of g i a x) in Hsv. pose proof (sv_round _ _ Hsv) as Hr.
  assert (Hev : st_event (g_st g) = EvRoundStarted).
  { destruct (st_event (g_st g)) eqn:Ev; try reflexivity; exfalso;
      assert (Hno : no_offers g) by (apply (inv_offers g HI); rewrite Ev; discriminate);
      unfold act_of in Hok; destruct a; cbn in Hok;
      unfold act_pass, act_fold, act_check, act_call, act_allin, act_bet, act_raise, act_pay in Hok;
      rewrite ?(allowed_nil g i _ (Hno i)) in Hok; cbn in Hok; discriminate. }
  assert (Hrn : st_round (g_st g) <> RNone) by (pose proof (pi_legal g P) as L; unfold ph in L; rewrite Hev in L; exact L).
  assert (Hn : nplayers (fst (act_of g i a x)) = nplayers g).
  { pose proof (nplayers_step g (OAct (Some i) a x)) as H. cbn [step] in H. fold (act_of g i a x) in H.
    destruct (negb (Nat.ltb i (nplayers g))) eqn:El; [|exact H].
    (* a seat out of range holds no offer *)
    exfalso. apply negb_true_iff, Nat.ltb_ge in El.
    unfold act_of in Hok; destruct a; cbn in Hok;
      unfold act_pass, act_fold, act_check, act_call, act_allin, act_bet, act_raise, act_pay, allowed in Hok;
      rewrite (get_p_overflow g i El) in Hok; cbn in Hok; discriminate. }
  rewrite E in *. unfold resume in *. rewrite He' in *.
  assert (Hph : ph (request_action g') = (EvRoundStarted, st_round (g_st g)) \/ ph (request_action g') = (EvRoundClosed, st_round (g_st g))).
  { destruct (ph_request_action g') as [H|H]; destruct (event_of_ph _ _ _ H) as [E1 E2]; unfold ph; rewrite E1, Hr; [left; rewrite He'|right]; reflexivity. }
  destruct Hph as [H|H]; destruct (event_of_ph _ _ _ H) as [E1 E2];
    (constructor; [rewrite H; exact Hrn|rewrite Hn; exact (pi_two g P)|rewrite E1; discriminate|rewrite E2; intros Ex; contradiction|rewrite E1; discriminate|]).
  - intros _. apply request_action_fresh. exact E1.
  - rewrite E1. discriminate.
Qed.

Theorem Pinv_step g o : Inv g -> Oinv g -> Kinv2 g -> Pinv g -> Pinv (fst (step g o)).
Proof.
  intros HI HO HK P. destruct o as [| | | |who a x]; cbn [step].
  - apply Pinv_do_ready; assumption.
  - apply Pinv_do_pay_ante; assumption.
  - apply Pinv_do_pay_blinds; assumption.
  - apply Pinv_do_next; assumption.
  - destruct (negb _); [exact P|]. apply (Pinv_act g _ a x); assumption.
Qed.

Lemma Pinv_create c deck g : create c deck = (g, Ok) -> Pinv g.
Proof.
  intros Hcr. unfold create in Hcr.
  destruct (Nat.ltb (length (map init_player (c_players c))) 2) eqn:E2; [discriminate|].
  destruct (dealer_opt _); [|discriminate].
  destruct (existsb _ _); [discriminate|].
  destruct (Nat.eqb (length (c_deck c)) 0); [discriminate|].
  destruct (Nat.ltb (length (c_deck c)) _); [discriminate|].
  injection Hcr as <-. apply Nat.ltb_ge in E2.
  constructor; try (simpl; discriminate).
  - exact I.
  - unfold request_ready. change (nplayers (set_event ?x ?e)) with (nplayers x). rewrite (nplayers_cv _ _ (cv_reset_all _)). exact E2.
  - intros _. apply (wagers0_cv _ _ (cv_request_ready _)). split; [|reflexivity].
    intros i Hi. change (get_p (reset_round_status ?x) i) with (get_p x i). unfold get_p. cbn [g_players].
    change 0 with (p_wager dflt_p). rewrite <- (map_nth p_wager), map_map.
    change (nplayers (reset_round_status ?x)) with (nplayers x) in Hi. unfold nplayers in Hi. cbn [g_players] in Hi. rewrite map_length in Hi.
    rewrite (nth_indep _ _ 0) by (rewrite map_length; exact Hi).
    assert (G : forall l : list (Z * (bool * bool * bool)), map (fun x => p_wager (init_player x)) l = map (fun _ => 0) l).
    { intros l. apply map_ext. intros [bk [[d sb] bb]]. reflexivity. }
    rewrite G. clear. revert i. induction (c_players c) as [|y t IH]; intros [|i]; simpl; auto.
Qed.

(* everything known about a reachable state *)
Record Good (g : gstate) : Prop := mkGood {
  good_inv : Inv g; good_offers : Oinv g; good_cards : Kinv2 g; good_phase : Pinv g; good_result : Rinv g }.

Theorem Good_step g o : Good g -> Good (fst (step g o)).
Proof.
  intros [A B C D E]. constructor;
    [apply Inv_step|apply Oinv_step|apply Kinv2_step|apply Pinv_step|apply Rinv_step]; assumption.
Qed.

Theorem Good_run ops : forall g, Good g -> Good (run g ops).
Proof. unfold run. induction ops as [|o t IH]; intros g H; cbn [fold_left]; [exact H|]. apply IH, Good_step, H. Qed.

Theorem Good_reachable c deck g ops :
  cfg_ok c -> length deck = length (c_deck c) -> create c deck = (g, Ok) -> Good (run g ops).
Proof.
  intros Hc Hl Hcr. apply Good_run. constructor.
  - eapply Inv_create; eassumption.
  - eapply Oinv_create; eassumption.
  - eapply Kinv2_create; eassumption.
  - eapply Pinv_create; eassumption.
  - eapply Rinv_create; eassumption.
Qed.

(* ---------- (4) progress: the step the hand is waiting for always succeeds ---------- *)
Lemma available_nonempty s p : available_actions s p <> [].
Proof. unfold available_actions. destruct (p_fold p); [discriminate|]. destruct (p_stack p =? 0); discriminate. Qed.

Lemma available_allin s p a : In a (available_actions s p) -> a <> APass -> In AAllin (available_actions s p).
Proof.
  unfold available_actions. destruct (p_fold p); [intros [<-|[]] H; contradiction|].
  destruct (p_stack p =? 0); [intros [<-|[]] H; contradiction|]. intros _ _. now left.
Qed.

Lemma allowed_in g i a : allowed g i a = true <-> In a (p_allowed (get_p g i)).
Proof.
  unfold allowed. rewrite existsb_exists. split.
  - intros (b & Hb & E). destruct a, b; try discriminate; exact Hb.
  - intros H. exists a. split; [exact H|destruct a; reflexivity].
Qed.

Theorem progress g : Good g ->
  match st_event (g_st g) with
  | EvReadyRequested => snd (step g OReady) = Ok
  | EvAnteRequested => snd (step g OPayAnte) = Ok
  | EvBlindsRequested => snd (step g OPayBlinds) = Ok
  | EvRoundClosed => snd (step g ONext) = Ok
  | EvRoundStarted =>
      let offers := p_allowed (get_p g (st_cur (g_st g))) in
      offers <> [] /\
      forall a x, In a offers -> (a = ABet -> 0 < x) -> (a = ARaise -> st_cw (g_st g) < x) ->
                  snd (step g (OAct None a x)) = Ok
  | EvGameClosed => True
  | EvNone => False
  end.
Proof.
  intros [HI HO HK P _]. pose proof (k2_cards g HK) as K. destruct (st_event (g_st g)) eqn:Ev.
  - pose proof (pi_legal g P) as L. unfold ph in L. rewrite Ev in L. exact L.
  - cbn [step]. unfold do_ready. rewrite Ev. cbn [event_eqb negb].
    destruct (st_round (g_st (reset_all g))) eqn:Er; try reflexivity.
    destruct (0 <? _); [reflexivity|].
    assert (K0 : Kinv (reset_all g)) by (apply (Kinv_frame g); [apply sv_reset_all|unfold hv; apply gv_reset_all; hole_side|exact K]).
    apply (Kinv_enter_preflop (reset_all g) K0 Er).
  - apply (Pinv_do_pay_ante g HI HK P). exact Ev.
  - cbn [step]. unfold do_pay_blinds. rewrite Ev. reflexivity.
  - destruct (oi_cur g HO Ev) as [Hc Ho]. cbv zeta. rewrite Ho. split; [apply available_nonempty|].
    intros a x Ha Hbet Hraise. cbn [step]. replace (Nat.ltb (st_cur (g_st g)) (nplayers g)) with true by (symmetry; apply Nat.ltb_lt; exact Hc).
    cbn [negb]. set (i := st_cur (g_st g)) in *.
    assert (Hal : allowed g i a = true) by (apply allowed_in; rewrite Ho; exact Ha).
    assert (Hallin : a <> APass -> snd (act_allin g i) = Ok).
    { intros Hne. unfold act_allin. replace (allowed g i AAllin) with true; [reflexivity|].
      symmetry. apply allowed_in. rewrite Ho. apply (available_allin _ _ a Ha Hne). }
    destruct a.
    + unfold act_pass. rewrite Hal. reflexivity.
    + unfold act_fold. rewrite Hal. reflexivity.
    + unfold act_check. rewrite Hal. reflexivity.
    + unfold act_call. rewrite Hal. reflexivity.
    + unfold act_allin. rewrite Hal. reflexivity.
    + unfold act_bet. rewrite Hal. cbn [negb]. specialize (Hbet eq_refl).
      replace (x <=? 0) with false by (symmetry; apply Z.leb_gt; exact Hbet).
      destruct (_ <=? x); [apply Hallin; discriminate|reflexivity].
    + unfold act_raise. rewrite Hal. cbn [negb]. specialize (Hraise eq_refl).
      pose proof (c0_cw g (inv_chips g HI)) as Hcw.
      replace (x =? 0) with false by (symmetry; apply Z.eqb_neq; lia).
      replace (x <? st_cw (g_st g)) with false by (symmetry; apply Z.ltb_ge; lia). cbn [orb].
      replace (x =? st_cw (g_st g)) with false by (symmetry; apply Z.eqb_neq; lia).
      destruct (_ || _); [apply Hallin; discriminate|reflexivity].
    + exfalso. pose proof (inv_nopay g HI i) as Hn. simpl in Hn. unfold allowed in Hal. rewrite Hn in Hal. discriminate.
  - apply (Pinv_do_next g HI HK P). exact Ev.
  - exact I.
Qed.
