(* ProofsPot.v — lemmas about ModelPot. *)
From Coq Require Import Lia Sorted Permutation.
From PF Require Import Base ModelPot.

(* ---------- sorted integer sets ---------- *)
Inductive zsorted : list Z -> Prop :=
| zs_nil : zsorted []
| zs_one : forall x, zsorted [x]
| zs_cons : forall x y t, x < y -> zsorted (y :: t) -> zsorted (x :: y :: t).

Lemma zsorted_tail x t : zsorted (x :: t) -> zsorted t.
Proof. intros H; inversion H; subst; [constructor | assumption]. Qed.

Lemma zset_add_head x l :
  zsorted l -> match zset_add x l with [] => False | h :: _ => h = x \/ (exists t, l = h :: t /\ h < x) end.
Proof.
  intros _. destruct l as [|y t]; simpl; [now left|].
  destruct (x <? y) eqn:E; [now left|].
  destruct (x =? y) eqn:E2.
  - apply Z.eqb_eq in E2; subst. now left.
  - right. exists t. split; [reflexivity|]. apply Z.ltb_ge in E. apply Z.eqb_neq in E2. lia.
Qed.

Lemma zset_add_sorted x l : zsorted l -> zsorted (zset_add x l).
Proof.
  induction l as [|y t IH]; intros Hs; simpl; [constructor|].
  destruct (x <? y) eqn:E.
  - apply Z.ltb_lt in E. constructor; assumption.
  - destruct (x =? y) eqn:E2; [assumption|].
    apply Z.ltb_ge in E. apply Z.eqb_neq in E2.
    specialize (IH (zsorted_tail _ _ Hs)).
    pose proof (zset_add_head x t (zsorted_tail _ _ Hs)) as Hh.
    destruct (zset_add x t) as [|h r] eqn:Ea; [contradiction|].
    constructor; [|assumption].
    destruct Hh as [->|[t' [-> Hlt]]]; [lia|].
    inversion Hs; subst; lia.
Qed.

Lemma zset_add_In x y l : In y (zset_add x l) <-> y = x \/ In y l.
Proof.
  induction l as [|z t IH]; simpl; [intuition|].
  destruct (x <? z) eqn:E; simpl; [intuition|].
  destruct (x =? z) eqn:E2; simpl.
  - apply Z.eqb_eq in E2; subst. intuition.
  - rewrite IH. intuition.
Qed.

(* the level values of a level list built by AddContributor calls are strictly increasing *)
Lemma ll_of_lvals_sorted_gen inputs ll :
  zsorted (ll_lvals ll) ->
  zsorted (ll_lvals (fold_left (fun ll x => add_contributor ll (snd (fst x)) (fst (fst x)) (snd x)) inputs ll)).
Proof.
  revert ll; induction inputs as [|x xs IH]; intros ll H; simpl; [assumption|].
  apply IH. simpl. apply zset_add_sorted; assumption.
Qed.

Lemma ll_of_lvals_sorted inputs : zsorted (ll_lvals (ll_of inputs)).
Proof. apply ll_of_lvals_sorted_gen. constructor. Qed.

(* build_levels publishes exactly the level values, in order *)
Lemma build_levels_levels cs prev lvs : map l_level (build_levels cs prev lvs) = lvs.
Proof. revert prev; induction lvs as [|l t IH]; intros prev; simpl; [reflexivity|]. now rewrite IH. Qed.

Lemma ll_levels_sorted inputs : zsorted (map l_level (ll_levels (ll_of inputs))).
Proof. unfold ll_levels. rewrite build_levels_levels. apply ll_of_lvals_sorted. Qed.

(* ====================================================================== *)
(* Published pots: totals, eligible players, nesting (C16)                 *)
(* ====================================================================== *)

(* ---------- association lists with strictly increasing keys ---------- *)
Definition keys {A} (m : list (Z * A)) : list Z := map fst m.

Lemma zmap_set_keys_sorted {A} k (v : A) m : zsorted (keys m) -> zsorted (keys (zmap_set k v m)).
Proof.
  induction m as [|[k' v'] t IH]; intros Hs; simpl; [constructor|].
  destruct (k <? k') eqn:E1.
  - apply Z.ltb_lt in E1. simpl. constructor; assumption.
  - destruct (k =? k') eqn:E2.
    + apply Z.eqb_eq in E2; subst. exact Hs.
    + apply Z.ltb_ge in E1. apply Z.eqb_neq in E2. simpl.
      specialize (IH (zsorted_tail _ _ Hs)).
      destruct t as [|[k2 v2] t2]; simpl in *.
      * constructor; [lia|constructor].
      * destruct (k <? k2) eqn:E3; simpl.
        -- constructor; [lia|exact IH].
        -- destruct (k =? k2) eqn:E4; simpl in *.
           ++ apply Z.eqb_eq in E4; subst. constructor; [inversion Hs; assumption|exact IH].
           ++ constructor; [inversion Hs; assumption|exact IH].
Qed.

Lemma zmap_get_set_same {A} k (v : A) m : zsorted (keys m) -> zmap_get k (zmap_set k v m) = Some v.
Proof.
  induction m as [|[k' v'] t IH]; intros Hs; simpl; [now rewrite Z.eqb_refl|].
  destruct (k <? k') eqn:E1; simpl; [now rewrite Z.eqb_refl|].
  destruct (k =? k') eqn:E2; simpl; [now rewrite Z.eqb_refl|].
  rewrite E2. apply IH. exact (zsorted_tail _ _ Hs).
Qed.

Lemma zmap_get_set_other {A} k j (v : A) m : j <> k -> zmap_get j (zmap_set k v m) = zmap_get j m.
Proof.
  intros Hne. induction m as [|[k' v'] t IH]; simpl.
  - destruct (j =? k) eqn:E; [apply Z.eqb_eq in E; contradiction|reflexivity].
  - destruct (k <? k') eqn:E1; simpl.
    + destruct (j =? k) eqn:E; [apply Z.eqb_eq in E; contradiction|reflexivity].
    + destruct (k =? k') eqn:E2; simpl.
      * apply Z.eqb_eq in E2; subst. destruct (j =? k') eqn:E; [apply Z.eqb_eq in E; contradiction|reflexivity].
      * destruct (j =? k'); [reflexivity|exact IH].
Qed.

Lemma zsorted_head_lt x t : zsorted (x :: t) -> forall y, In y t -> x < y.
Proof.
  revert x; induction t as [|z t IH]; intros x H y Hy; [contradiction|].
  inversion H; subst. destruct Hy as [->|Hy]; [assumption|]. specialize (IH z H4 y Hy). lia.
Qed.

Lemma zmap_get_not_in {A} k (m : list (Z * A)) : ~ In k (keys m) -> zmap_get k m = None.
Proof.
  induction m as [|[k' v] t IH]; intros H; simpl; [reflexivity|].
  destruct (k =? k') eqn:E; [apply Z.eqb_eq in E; subst; exfalso; apply H; now left|].
  apply IH. intros Hin. apply H. now right.
Qed.

Lemma zmap_get_in {A} k (m : list (Z * A)) v : zsorted (keys m) -> In (k, v) m -> zmap_get k m = Some v.
Proof.
  induction m as [|[k' v'] t IH]; intros Hs Hin; [contradiction|]. simpl.
  destruct Hin as [E|Hin].
  - injection E as -> ->. now rewrite Z.eqb_refl.
  - destruct (k =? k') eqn:E.
    + apply Z.eqb_eq in E; subst. exfalso.
      assert (k' < k') by (apply (zsorted_head_lt k' (keys t) Hs); apply in_map_iff; exists (k', v); auto). lia.
    + apply IH; [exact (zsorted_tail _ _ Hs)|exact Hin].
Qed.

Lemma zmap_get_some_in {A} k (m : list (Z * A)) v : zmap_get k m = Some v -> In (k, v) m.
Proof.
  induction m as [|[k' v'] t IH]; simpl; [discriminate|].
  destruct (k =? k') eqn:E; [apply Z.eqb_eq in E; subst; intros H; injection H as ->; now left|].
  intros H. right. apply IH. exact H.
Qed.

(* ---------- the level list built by AddContributor calls ---------- *)
Definition nonneg_inputs (inputs : list (Z * Z * bool)) : Prop := forall x, In x inputs -> 0 <= snd (fst x).

Record ll_wf (ll : llist) : Prop := mkWf {
  wf_keys : zsorted (keys (ll_contribs ll));
  wf_lvs : zsorted (ll_lvals ll);
  wf_level : forall i w, In (i, w) (ll_contribs ll) -> In w (ll_lvals ll);
  wf_nonneg : forall l, In l (ll_lvals ll) -> 0 <= l }.

Lemma zmap_set_in {A} k (v : A) m i w :
  In (i, w) (zmap_set k v m) -> (i = k /\ w = v) \/ In (i, w) m.
Proof.
  induction m as [|[k' v'] t IH]; simpl.
  - intros [E|[]]. injection E as <- <-. now left.
  - destruct (k <? k'); simpl.
    + intros [E|H]; [injection E as <- <-; now left|now right].
    + destruct (k =? k'); simpl.
      * intros [E|H]; [injection E as <- <-; now left|right; now right].
      * intros [E|H]; [right; now left|]. destruct (IH H) as [H1|H1]; [now left|right; now right].
Qed.

Lemma add_contributor_wf ll w i f : ll_wf ll -> 0 <= w -> ll_wf (add_contributor ll w i f).
Proof.
  intros [A B C D] Hw. constructor; simpl.
  - apply zmap_set_keys_sorted. exact A.
  - apply zset_add_sorted. exact B.
  - intros j v Hin. apply zset_add_In. apply zmap_set_in in Hin as [[_ ->]|Hin]; [now left|right; eapply C; exact Hin].
  - intros l Hl. apply zset_add_In in Hl as [->|Hl]; [exact Hw|apply D; exact Hl].
Qed.

Lemma ll_of_wf inputs : nonneg_inputs inputs -> ll_wf (ll_of inputs).
Proof.
  unfold ll_of.
  assert (G : forall ll, ll_wf ll -> nonneg_inputs inputs ->
              ll_wf (fold_left (fun ll x => add_contributor ll (snd (fst x)) (fst (fst x)) (snd x)) inputs ll)).
  { induction inputs as [|x t IH]; intros ll Hwf Hn; simpl; [exact Hwf|].
    apply IH.
    - apply add_contributor_wf; [exact Hwf|apply Hn; now left].
    - intros y Hy. apply Hn. now right. }
  apply G. constructor; simpl; try constructor; intros; contradiction.
Qed.

(* ---------- layers ---------- *)
(* what all players, folded or not, put in between level a and level b *)
Definition contrib_sum (cs : list (Z * Z)) (a b : Z) : Z :=
  zsum (map (fun c => Z.min (snd c) b - Z.min (snd c) a) cs).

Definition gap_free (cs : list (Z * Z)) (a b : Z) : Prop := forall i w, In (i, w) cs -> w <= a \/ b <= w.

Lemma contrib_sum_add cs a b c : contrib_sum cs a b + contrib_sum cs b c = contrib_sum cs a c.
Proof. unfold contrib_sum. induction cs as [|x t IH]; simpl; lia. Qed.

Lemma layer_total cs a b :
  a <= b -> gap_free cs a b -> zn (length (contributors_ge cs b)) * (b - a) = contrib_sum cs a b.
Proof.
  intros Hab Hg. unfold contributors_ge, contrib_sum, zn. rewrite map_length.
  induction cs as [|[i w] t IH]; [simpl; lia|].
  assert (Hg' : gap_free t a b) by (intros j v Hj; apply (Hg j v); now right).
  specialize (IH Hg'). cbn [filter map zsum snd].
  destruct (Hg i w (or_introl eq_refl)) as [H|H].
  - destruct (b <=? w) eqn:E; [apply Z.leb_le in E|]; cbn [length]; rewrite ?Nat2Z.inj_succ; lia.
  - destruct (b <=? w) eqn:E; [|apply Z.leb_gt in E; lia]. cbn [length]. rewrite Nat2Z.inj_succ. lia.
Qed.

(* eligible players at level x: the non-folded contributors who reached it, in index order *)
Definition elig (cs : list (Z * Z)) (fs : list Z) (x : Z) : list Z :=
  map fst (filter (fun c => (x <=? snd c) && negb (zmem (fst c) fs)) cs).

Lemma orig_contribs cs fs x (wg : Z) :
  map (fun i : Z => (i, wg)) (filter (fun i => negb (zmem i fs)) (contributors_ge cs x))
  = map (fun i : Z => (i, wg)) (elig cs fs x).
Proof.
  f_equal. unfold contributors_ge, elig. induction cs as [|[i w] t IH]; simpl; [reflexivity|].
  destruct (x <=? w); simpl; [|exact IH]. destruct (negb (zmem i fs)); simpl; [now rewrite IH|exact IH].
Qed.

Lemma elig_length_le cs fs x y : x <= y -> (length (elig cs fs y) <= length (elig cs fs x))%nat.
Proof.
  intros H. unfold elig. rewrite !map_length. induction cs as [|[i w] t IH]; simpl; [lia|].
  destruct (y <=? w) eqn:E1; simpl.
  - apply Z.leb_le in E1. replace (x <=? w) with true by (symmetry; apply Z.leb_le; lia). simpl.
    destruct (negb (zmem i fs)); simpl; lia.
  - destruct ((x <=? w) && negb (zmem i fs)); simpl; lia.
Qed.

Lemma elig_length_eq cs fs x y :
  x <= y -> length (elig cs fs y) = length (elig cs fs x) -> elig cs fs y = elig cs fs x.
Proof.
  intros H. unfold elig. rewrite !map_length. induction cs as [|[i w] t IH]; simpl; [reflexivity|].
  pose proof (elig_length_le t fs x y H) as Hle. unfold elig in Hle. rewrite !map_length in Hle.
  destruct (y <=? w) eqn:E1; simpl.
  - apply Z.leb_le in E1. replace (x <=? w) with true by (symmetry; apply Z.leb_le; lia). simpl.
    destruct (negb (zmem i fs)); simpl; intros Hl; [f_equal; apply IH; lia|apply IH; exact Hl].
  - destruct ((x <=? w) && negb (zmem i fs)); simpl; intros Hl; [lia|apply IH; exact Hl].
Qed.

Lemma elig_keys_sorted cs fs x : zsorted (keys cs) -> zsorted (elig cs fs x).
Proof.
  unfold elig, keys. intros Hs. induction cs as [|[i w] t IH]; simpl; [constructor|].
  specialize (IH (zsorted_tail _ _ Hs)).
  destruct ((x <=? w) && negb (zmem i fs)); simpl; [|exact IH].
  destruct (map fst (filter _ t)) as [|j r] eqn:E; [constructor|].
  constructor; [|exact IH].
  apply (zsorted_head_lt i (map fst t) Hs).
  assert (In j (map fst (filter (fun c => (x <=? snd c) && negb (zmem (fst c) fs)) t))) by (rewrite E; now left).
  apply in_map_iff in H as [c [<- Hc]]. apply filter_In in Hc as [Hc _]. apply in_map. exact Hc.
Qed.

(* ---------- adding per-level amounts of identical eligible sets ---------- *)
Lemma zmap_add_sorted_fold (ks : list Z) (e d : Z) : zsorted ks ->
  forall pre, (forall a b, In a pre -> In b ks -> a < b) -> zsorted pre ->
  fold_left (fun m kv => zmap_add (fst kv) (snd kv) m) (map (fun i => (i, d)) ks)
            (map (fun i => (i, e + d)) pre ++ map (fun i => (i, e)) ks)
  = map (fun i => (i, e + d)) (pre ++ ks).
Proof.
  induction ks as [|k t IH]; intros Hs pre Hlt Hp; simpl; [now rewrite !app_nil_r|].
  assert (Hadd : zmap_add k d (map (fun i => (i, e + d)) pre ++ (k, e) :: map (fun i => (i, e)) t)
               = map (fun i => (i, e + d)) (pre ++ [k]) ++ map (fun i => (i, e)) t).
  { unfold zmap_add.
    assert (Hget : forall m, zmap_get k (map (fun i => (i, e + d)) pre ++ (k, e) :: m) = Some e).
    { intros m. clear IH Hp. induction pre as [|a pre IHp]; simpl; [now rewrite Z.eqb_refl|].
      assert (a < k) by (apply Hlt; [now left|now left]).
      replace (k =? a) with false by (symmetry; apply Z.eqb_neq; lia).
      apply IHp. intros x y Hx Hy. apply Hlt; [now right|exact Hy]. }
    rewrite Hget. simpl option_default.
    clear IH Hget. induction pre as [|a pre IHp]; simpl.
    - rewrite Z.ltb_irrefl, Z.eqb_refl. reflexivity.
    - assert (a < k) by (apply Hlt; [now left|now left]).
      replace (k <? a) with false by (symmetry; apply Z.ltb_ge; lia).
      replace (k =? a) with false by (symmetry; apply Z.eqb_neq; lia).
      f_equal. apply IHp.
      + intros x y Hx Hy. apply Hlt; [now right|exact Hy].
      + exact (zsorted_tail _ _ Hp). }
  rewrite Hadd. rewrite (IH (zsorted_tail _ _ Hs) (pre ++ [k])).
  - rewrite <- app_assoc. reflexivity.
  - intros a b Ha Hb. apply in_app_or in Ha as [Ha|[<-|[]]].
    + apply Hlt; [exact Ha|now right].
    + apply (zsorted_head_lt k t Hs b Hb).
  - clear -Hp Hlt. induction pre as [|a pre IHp]; simpl; [constructor|].
    destruct pre as [|b pre']; simpl in *.
    + constructor; [apply Hlt; now left|constructor].
    + constructor; [inversion Hp; assumption|]. apply IHp; [|exact (zsorted_tail _ _ Hp)].
      intros x y Hx Hy. apply Hlt; [now right|exact Hy].
Qed.

Lemma merge_contribs ks e d : zsorted ks ->
  fold_left (fun m kv => zmap_add (fst kv) (snd kv) m) (map (fun i => (i, d)) ks) (map (fun i => (i, e)) ks)
  = map (fun i => (i, e + d)) ks.
Proof.
  intros Hs. apply (zmap_add_sorted_fold ks e d Hs []); [intros a b []|constructor].
Qed.

(* ---------- merging: a right-recursive description of the second loop of GetPots ---------- *)
Fixpoint merge_from (cur : pot) (rest : list pot) : list pot :=
  match rest with
  | [] => [cur]
  | p :: t =>
      if Nat.eqb (length (pt_contribs cur)) (length (pt_contribs p))
      then merge_from (merge_into cur p) t
      else cur :: merge_from p t
  end.

Lemma merge_fold_from rest : forall cur acc,
  rev (fold_left merge_step rest (cur :: acc)) = rev acc ++ merge_from cur rest.
Proof.
  induction rest as [|p t IH]; intros cur acc; simpl; [reflexivity|].
  destruct (Nat.eqb (length (pt_contribs cur)) (length (pt_contribs p))).
  - apply IH.
  - rewrite IH. simpl. rewrite <- app_assoc. reflexivity.
Qed.

Lemma merge_pots_from p rest : merge_pots (p :: rest) = merge_from p rest.
Proof. unfold merge_pots. simpl. apply (merge_fold_from rest p []). Qed.

(* ---------- what a published pot must look like ---------- *)
Section Spec.
  Variables (cs : list (Z * Z)) (fs : list Z).

  Record pot_spec (lo : Z) (p : pot) : Prop := mkPotSpec {
    ps_lo : lo <= pt_level p;
    ps_wager : pt_wager p = pt_level p - lo;
    ps_total : pt_total p = contrib_sum cs lo (pt_level p);
    ps_contribs : pt_contribs p = map (fun i : Z => (i, pt_level p - lo)) (elig cs fs (pt_level p)) }.

  Fixpoint pots_spec (lo : Z) (ps : list pot) : Prop :=
    match ps with
    | [] => True
    | p :: t =>
        pot_spec lo p /\ pots_spec (pt_level p) t /\
        match t with
        | [] => True
        | q :: _ => pt_level p < pt_level q /\ (length (pt_contribs q) < length (pt_contribs p))%nat
        end
    end.

  Hypothesis Hkeys : zsorted (keys cs).

  (* the orig pot of one layer *)
  Lemma orig_pot_spec prev l :
    prev <= l -> gap_free cs prev l ->
    pot_spec prev (orig_pot fs (mkLevel l (l - prev) (zn (length (contributors_ge cs l)) * (l - prev)) (contributors_ge cs l))).
  Proof.
    intros Hle Hg. constructor; simpl.
    - exact Hle.
    - reflexivity.
    - apply layer_total; assumption.
    - apply orig_contribs.
  Qed.

  Lemma merge_into_spec lo cur p :
    pot_spec lo cur -> pot_spec (pt_level cur) p ->
    length (pt_contribs cur) = length (pt_contribs p) ->
    pot_spec lo (merge_into cur p) /\ length (pt_contribs (merge_into cur p)) = length (pt_contribs cur).
  Proof.
    intros [A1 A2 A3 A4] [B1 B2 B3 B4] Hlen.
    assert (He : elig cs fs (pt_level p) = elig cs fs (pt_level cur)).
    { apply elig_length_eq; [exact B1|]. rewrite A4, B4, !map_length in Hlen. symmetry. exact Hlen. }
    assert (Hc : pt_contribs (merge_into cur p) = map (fun i : Z => (i, pt_level p - lo)) (elig cs fs (pt_level p))).
    { unfold merge_into. simpl. rewrite A4, B4, He.
      rewrite merge_contribs by (apply elig_keys_sorted; exact Hkeys).
      apply map_ext. intros i. f_equal. lia. }
    split.
    - constructor; simpl.
      + lia.
      + rewrite A2, B2. lia.
      + rewrite A3, B3. apply contrib_sum_add.
      + exact Hc.
    - rewrite Hc, A4, He, !map_length. reflexivity.
  Qed.

  (* the levels still to be processed: strictly increasing above hi, no contribution strictly
     between consecutive ones *)
  Fixpoint levels_ok (hi : Z) (lvs : list Z) : Prop :=
    match lvs with
    | [] => True
    | l :: t => hi < l /\ gap_free cs hi l /\ levels_ok l t
    end.

  Lemma merge_from_spec lvs : forall lo cur,
    pot_spec lo cur -> levels_ok (pt_level cur) lvs ->
    let out := merge_from cur (map (orig_pot fs) (build_levels cs (pt_level cur) lvs)) in
    pots_spec lo out /\
    exists q rest, out = q :: rest /\ length (pt_contribs q) = length (pt_contribs cur) /\ pt_level cur <= pt_level q.
  Proof.
    induction lvs as [|l t IH]; intros lo cur Hc Hl.
    - simpl. split; [split; [exact Hc|split; exact I]|]. exists cur, []. repeat split; lia.
    - destruct Hl as (Hlt & Hg & Hrest). cbv zeta. cbn [build_levels map].
      set (p := orig_pot fs (mkLevel l (l - pt_level cur) (zn (length (contributors_ge cs l)) * (l - pt_level cur)) (contributors_ge cs l))).
      cbn [merge_from].
      assert (Hp : pot_spec (pt_level cur) p) by (apply orig_pot_spec; [lia|exact Hg]).
      assert (Hpl : pt_level p = l) by reflexivity.
      destruct (Nat.eqb (length (pt_contribs cur)) (length (pt_contribs p))) eqn:E.
      + apply Nat.eqb_eq in E. destruct (merge_into_spec lo cur p Hc Hp E) as [Hm Hml].
        assert (Hlv : pt_level (merge_into cur p) = l) by reflexivity.
        specialize (IH lo (merge_into cur p) Hm). rewrite Hlv in IH. specialize (IH Hrest).
        destruct IH as (S1 & q & rest & Eq & Lq & Lv). split; [exact S1|].
        exists q, rest. repeat split; [exact Eq|rewrite Lq; exact Hml|lia].
      + apply Nat.eqb_neq in E.
        specialize (IH (pt_level cur) p Hp). rewrite Hpl in IH. specialize (IH Hrest).
        destruct IH as (S1 & q & rest & Eq & Lq & Lv).
        split.
        * rewrite Eq in *. simpl. split; [exact Hc|]. split; [exact S1|].
          split; [lia|]. rewrite Lq.
          pose proof (elig_length_le cs fs (pt_level cur) l ltac:(lia)) as Hle.
          destruct Hc as [_ _ _ C4]. destruct Hp as [_ _ _ P4]. rewrite C4, P4, !map_length in *. simpl in *. lia.
        * exists cur, (merge_from p (map (orig_pot fs) (build_levels cs l t))). repeat split; lia.
  Qed.
End Spec.

(* the level list of a well-formed ll satisfies levels_ok from 0 (after a possible level 0) *)
Lemma sorted_gap_free cs lvs :
  (forall i w, In (i, w) cs -> In w lvs) -> zsorted lvs ->
  forall a b t pre, lvs = pre ++ a :: b :: t -> gap_free cs a b.
Proof.
  intros Hin Hs a b t pre E i w Hw. specialize (Hin i w Hw). rewrite E in Hin.
  assert (Hsub : zsorted (a :: b :: t)).
  { rewrite E in Hs. clear -Hs. induction pre as [|x pre IH]; simpl in *; [exact Hs|]. apply IH. exact (zsorted_tail _ _ Hs). }
  apply in_app_or in Hin as [Hin|[<-|[<-|Hin]]].
  - left.
    (* every element of pre is below a *)
    assert (G : forall pre' rest x, zsorted (pre' ++ a :: rest) -> In x pre' -> x < a).
    { clear. induction pre' as [|y pre' IH]; intros rest x Hs Hx; [contradiction|]. simpl in *.
      destruct Hx as [->|Hx].
      - apply (zsorted_head_lt x (pre' ++ a :: rest) Hs). apply in_or_app. right. now left.
      - apply (IH rest x); [exact (zsorted_tail _ _ Hs)|exact Hx]. }
    rewrite E in Hs. pose proof (G pre (b :: t) w Hs Hin). lia.
  - left. lia.
  - right. lia.
  - right. pose proof (zsorted_head_lt b t (zsorted_tail _ _ Hsub) w Hin). lia.
Qed.

Lemma levels_ok_of cs all :
  (forall i w, In (i, w) cs -> In w all) -> zsorted all ->
  forall lvs pre hi, all = pre ++ hi :: lvs -> levels_ok cs hi lvs.
Proof.
  intros Hin Hs. induction lvs as [|l t IH]; intros pre hi E; simpl; [exact I|].
  assert (Hsub : zsorted (hi :: l :: t)).
  { rewrite E in Hs. clear -Hs. induction pre as [|x pre IHp]; simpl in *; [exact Hs|]. apply IHp. exact (zsorted_tail _ _ Hs). }
  split; [inversion Hsub; assumption|]. split.
  - apply (sorted_gap_free cs all Hin Hs hi l t pre E).
  - apply (IH (pre ++ [hi]) l). rewrite <- app_assoc. exact E.
Qed.

Theorem merged_pots_spec ll :
  ll_wf ll -> pots_spec (ll_contribs ll) (ll_folded ll) 0 (merged_pots ll).
Proof.
  intros [A B C D]. unfold merged_pots, ll_levels.
  destruct (ll_lvals ll) as [|l1 t] eqn:E; [exact I|].
  cbn [build_levels map]. rewrite merge_pots_from.
  set (cs := ll_contribs ll) in *. set (fs := ll_folded ll) in *.
  assert (H1 : 0 <= l1) by (apply D; now left).
  assert (Hg : gap_free cs 0 l1).
  { intros i w Hw. right. specialize (C i w Hw). destruct C as [<-|Hin]; [lia|].
    pose proof (zsorted_head_lt l1 t B w Hin). lia. }
  pose proof (orig_pot_spec cs fs 0 l1 H1 Hg) as Hp.
  replace (l1 - 0) with l1 in * by lia.
  set (p1 := orig_pot fs _) in *.
  assert (Hl : levels_ok cs (pt_level p1) t).
  { apply (levels_ok_of cs (l1 :: t) C B t [] l1). reflexivity. }
  apply (merge_from_spec cs fs A t 0 p1 Hp Hl).
Qed.

(* ---------- the third loop: folded players are put back for display ---------- *)
Section Final.
  Variables (cs : list (Z * Z)) (fs : list Z).
  Hypothesis Hkeys : zsorted (keys cs).

  Definition nonfolded (kv : Z * Z) : bool := negb (zmem (fst kv) fs).

  (* what a folded player's entry in a pot with lower bound lo must be, once he has been put back *)
  Definition folded_entry (done : list Z) (lo : Z) (j : Z) : option Z :=
    match zmap_get j cs with
    | None => None
    | Some w => if zmem j done && (lo <? w) then Some w else None
    end.

  Record fpot (done : list Z) (lo : Z) (p : pot) : Prop := mkFpot {
    fp_lo : lo <= pt_level p;
    fp_wager : pt_wager p = pt_level p - lo;
    fp_total : pt_total p = contrib_sum cs lo (pt_level p);
    fp_keys : zsorted (keys (pt_contribs p));
    fp_nf : filter nonfolded (pt_contribs p) = map (fun i : Z => (i, pt_level p - lo)) (elig cs fs (pt_level p));
    fp_folded : forall j, zmem j fs = true -> zmap_get j (pt_contribs p) = folded_entry done lo j }.

  Fixpoint fpots (done : list Z) (lo : Z) (ps : list pot) : Prop :=
    match ps with
    | [] => True
    | p :: t =>
        fpot done lo p /\ fpots done (pt_level p) t /\
        match t with
        | [] => True
        | q :: _ => pt_level p < pt_level q /\
                    (length (filter nonfolded (pt_contribs q)) < length (filter nonfolded (pt_contribs p)))%nat
        end
    end.

  Lemma elig_nonfolded x i : In i (elig cs fs x) -> zmem i fs = false.
  Proof.
    unfold elig. intros H. apply in_map_iff in H as [[k w] [<- Hc]]. apply filter_In in Hc as [_ Hc].
    apply andb_prop in Hc as [_ Hc]. simpl in *. now apply negb_true_iff in Hc.
  Qed.

  Lemma filter_nonfolded_elig x (d : Z) :
    filter nonfolded (map (fun i : Z => (i, d)) (elig cs fs x)) = map (fun i : Z => (i, d)) (elig cs fs x).
  Proof.
    assert (G : forall l, (forall i, In i l -> zmem i fs = false) ->
                filter nonfolded (map (fun i : Z => (i, d)) l) = map (fun i : Z => (i, d)) l).
    { induction l as [|a t IH]; intros H; simpl; [reflexivity|].
      unfold nonfolded at 1. simpl. rewrite (H a (or_introl eq_refl)). simpl. f_equal. apply IH. intros i Hi. apply H. now right. }
    apply G. intros i Hi. exact (elig_nonfolded x i Hi).
  Qed.

  Lemma keys_map_pair (l : list Z) (d : Z) : keys (map (fun i : Z => (i, d)) l) = l.
  Proof. unfold keys. rewrite map_map. simpl. apply map_id. Qed.

  Lemma pots_spec_fpots lo ps : pots_spec cs fs lo ps -> fpots [] lo ps.
  Proof.
    revert lo; induction ps as [|p t IH]; intros lo H; simpl in *; [exact I|].
    destruct H as ([A1 A2 A3 A4] & Ht & Ho). split; [|split; [apply IH; exact Ht|]].
    - constructor; try assumption.
      + rewrite A4, keys_map_pair. apply elig_keys_sorted. exact Hkeys.
      + rewrite A4. apply filter_nonfolded_elig.
      + intros j Hj. unfold folded_entry. destruct (zmap_get j cs); [|]; simpl;
          rewrite A4; apply zmap_get_not_in; rewrite keys_map_pair; intros Hin;
            apply elig_nonfolded in Hin; congruence.
    - destruct t as [|q t']; [exact I|]. destruct Ho as [O1 O2]. split; [exact O1|].
      destruct Ht as ([B1 B2 B3 B4] & _). rewrite A4, B4, !filter_nonfolded_elig. rewrite A4, B4 in O2. exact O2.
  Qed.

  Lemma filter_nonfolded_set j w m : zmem j fs = true -> filter nonfolded (zmap_set j w m) = filter nonfolded m.
  Proof.
    intros Hj.
    assert (Hn : forall x, nonfolded (j, x) = false) by (intros x; unfold nonfolded; simpl; now rewrite Hj).
    induction m as [|[k v] t IH]; cbn [zmap_set filter].
    - now rewrite Hn.
    - destruct (j <? k) eqn:E1; cbn [filter].
      + now rewrite Hn.
      + destruct (j =? k) eqn:E2; cbn [filter].
        * apply Z.eqb_eq in E2; subst. now rewrite !Hn.
        * now rewrite IH.
  Qed.

  Lemma zmem_cons j x l : zmem j (x :: l) = (j =? x) || zmem j l.
  Proof. reflexivity. Qed.

  (* adding j to the players already put back changes nothing for the pots he is not written into *)
  Lemma fpots_done_skip j w done : zmap_get j cs = Some w \/ zmap_get j cs = None ->
    forall ps lo, (zmap_get j cs = Some w -> w <= lo) -> fpots done lo ps -> fpots (j :: done) lo ps.
  Proof.
    intros Hw. induction ps as [|p t IH]; intros lo Hlo H; simpl in *; [exact I|].
    destruct H as ([A1 A2 A3 A4 A5 A6] & Ht & Ho). split; [|split; [|exact Ho]].
    - constructor; try assumption. intros k Hk. rewrite (A6 k Hk). unfold folded_entry.
      destruct (zmap_get k cs) as [v|] eqn:Ek; [|reflexivity]. rewrite zmem_cons.
      destruct (k =? j) eqn:E; [|reflexivity]. apply Z.eqb_eq in E; subst k. simpl.
      assert (lo <? v = false) by (apply Z.ltb_ge; apply Hlo in Ek || idtac; destruct Hw as [Hw|Hw]; rewrite Hw in Ek; [injection Ek as <-; apply Hlo; exact Hw|discriminate]).
      rewrite H, !andb_false_r. reflexivity.
    - apply IH; [|exact Ht]. intros E. specialize (Hlo E). lia.
  Qed.

  Lemma put_back_head j w q t : zmem j fs = true ->
    exists q' t', put_back j w (q :: t) = q' :: t' /\ pt_level q' = pt_level q /\
                  filter nonfolded (pt_contribs q') = filter nonfolded (pt_contribs q).
  Proof.
    intros Hj. cbn [put_back]. destruct (w <=? pt_level q); eexists; eexists; (split; [reflexivity|]);
      cbn [pt_level pt_contribs]; (split; [reflexivity|apply filter_nonfolded_set; exact Hj]).
  Qed.

  Lemma put_back_fpots j w done : zmem j fs = true -> zmap_get j cs = Some w -> zmem j done = false ->
    forall ps lo, lo < w -> fpots done lo ps -> fpots (j :: done) lo (put_back j w ps).
  Proof.
    intros Hj Hw Hd. induction ps as [|p t IH]; intros lo Hlo H; [exact I|].
    cbn [fpots] in H. destruct H as ([A1 A2 A3 A4 A5 A6] & Ht & Ho).
    set (p' := mkPot (pt_level p) (pt_wager p) (pt_total p) (zmap_set j w (pt_contribs p)) (pt_levels p)).
    assert (Hp' : fpot (j :: done) lo p').
    { constructor; simpl; try assumption.
      - apply zmap_set_keys_sorted. exact A4.
      - rewrite filter_nonfolded_set by exact Hj. exact A5.
      - intros k Hk. unfold folded_entry. destruct (Z.eq_dec k j) as [->|Hne].
        + rewrite zmap_get_set_same by exact A4. rewrite Hw, zmem_cons, Z.eqb_refl. simpl.
          replace (lo <? w) with true by (symmetry; apply Z.ltb_lt; exact Hlo). reflexivity.
        + rewrite zmap_get_set_other by exact Hne. rewrite (A6 k Hk). unfold folded_entry.
          destruct (zmap_get k cs); [|reflexivity]. rewrite zmem_cons.
          replace (k =? j) with false by (symmetry; apply Z.eqb_neq; exact Hne). reflexivity. }
    assert (Hnf : filter nonfolded (pt_contribs p') = filter nonfolded (pt_contribs p))
      by (simpl; apply filter_nonfolded_set; exact Hj).
    assert (Hlv : pt_level p' = pt_level p) by reflexivity.
    cbn [put_back]. fold p'.
    destruct (w <=? pt_level p) eqn:E.
    - apply Z.leb_le in E. cbn [fpots]. split; [exact Hp'|]. split.
      + rewrite Hlv. apply (fpots_done_skip j w done (or_introl Hw)); [intros _; exact E|exact Ht].
      + destruct t as [|q t']; [exact I|]. rewrite Hnf, Hlv. exact Ho.
    - apply Z.leb_gt in E. specialize (IH (pt_level p) E Ht).
      destruct t as [|q t'].
      + cbn [put_back fpots]. split; [exact Hp'|split; exact I].
      + destruct (put_back_head j w q t' Hj) as (q' & t'' & Eq & L1 & L2).
        rewrite Eq in *. cbn [fpots]. split; [exact Hp'|]. split; [rewrite Hlv; exact IH|].
        rewrite Hnf, Hlv, L1, L2. exact Ho.
  Qed.
End Final.

(* ---------- all three loops together ---------- *)
Lemma zsorted_NoDup l : zsorted l -> NoDup l.
Proof.
  induction l as [|x t IH]; intros H; constructor.
  - intros Hin. pose proof (zsorted_head_lt x t H x Hin). lia.
  - apply IH. exact (zsorted_tail _ _ H).
Qed.

Lemma zmem_true_iff x l : zmem x l = true <-> In x l.
Proof.
  induction l as [|y t IH]; simpl; [split; [discriminate|contradiction]|].
  rewrite orb_true_iff, IH, Z.eqb_eq. split; intros [H|H]; auto.
Qed.

Lemma put_back_all_fpots cs fs0 :
  zsorted (keys cs) -> (forall i w, In (i, w) cs -> 0 <= w) ->
  forall (todo done : list Z) ps,
    NoDup todo -> (forall j, In j todo -> zmem j fs0 = true /\ zmem j done = false) ->
    fpots cs fs0 done 0 ps ->
    fpots cs fs0 (rev todo ++ done) 0 (put_back_all cs todo ps).
Proof.
  intros Hk Hnn. unfold put_back_all.
  induction todo as [|j t IH]; intros done ps Hnd Hin H; simpl; [exact H|].
  inversion Hnd as [|? ? Hj Hnd']; subst.
  destruct (Hin j (or_introl eq_refl)) as [Hf Hd].
  rewrite <- app_assoc. simpl.
  apply IH; [exact Hnd'| |].
  - intros k Hk'. destruct (Hin k (or_intror Hk')) as [K1 K2]. split; [exact K1|].
    rewrite zmem_cons. replace (k =? j) with false; [exact K2|]. symmetry. apply Z.eqb_neq. intros ->. contradiction.
  - destruct (zmap_get j cs) as [w|] eqn:Ew; simpl.
    + destruct (w =? 0) eqn:E0.
      * apply Z.eqb_eq in E0. subst w.
        apply (fpots_done_skip cs fs0 j 0 done (or_introl Ew)); [intros _; lia|exact H].
      * apply Z.eqb_neq in E0. assert (0 <= w) by (apply (Hnn j w); apply zmap_get_some_in; exact Ew).
        apply (put_back_fpots cs fs0 j w done Hf Ew Hd); [lia|exact H].
    + apply (fpots_done_skip cs fs0 j 0 done (or_intror Ew)); [intros E; discriminate|exact H].
Qed.

Theorem get_pots_fpots ll :
  ll_wf ll -> (forall i w, In (i, w) (ll_contribs ll) -> 0 <= w) -> zsorted (ll_folded ll) ->
  fpots (ll_contribs ll) (ll_folded ll) (rev (ll_folded ll)) 0 (get_pots ll).
Proof.
  intros Hwf Hnn Hfs. unfold get_pots.
  rewrite <- (app_nil_r (rev (ll_folded ll))).
  apply put_back_all_fpots; [apply (wf_keys ll Hwf)|exact Hnn|apply zsorted_NoDup; exact Hfs| |].
  - intros j Hj. split; [apply zmem_true_iff; exact Hj|reflexivity].
  - apply pots_spec_fpots; [apply (wf_keys ll Hwf)|]. apply merged_pots_spec. exact Hwf.
Qed.

Lemma ll_of_folded_sorted inputs : zsorted (ll_folded (ll_of inputs)).
Proof.
  unfold ll_of.
  assert (G : forall ll, zsorted (ll_folded ll) ->
              zsorted (ll_folded (fold_left (fun ll x => add_contributor ll (snd (fst x)) (fst (fst x)) (snd x)) inputs ll))).
  { induction inputs as [|x t IH]; intros ll H; simpl; [exact H|]. apply IH. simpl.
    destruct (snd x); [apply zset_add_sorted; exact H|exact H]. }
  apply G. constructor.
Qed.

Lemma ll_of_nonneg inputs : nonneg_inputs inputs -> forall i w, In (i, w) (ll_contribs (ll_of inputs)) -> 0 <= w.
Proof.
  intros Hn i w Hin. pose proof (ll_of_wf inputs Hn) as Hwf.
  apply (wf_nonneg _ Hwf). apply (wf_level _ Hwf i w Hin).
Qed.

(* the readable form: one published pot with lower bound lo *)
Record published (cs : list (Z * Z)) (fs : list Z) (lo : Z) (p : pot) : Prop := mkPublished {
  pub_lo : lo <= pt_level p;
  pub_wager : pt_wager p = pt_level p - lo;
  pub_total : pt_total p = contrib_sum cs lo (pt_level p);
  pub_eligible : filter (nonfolded fs) (pt_contribs p) = map (fun i : Z => (i, pt_level p - lo)) (elig cs fs (pt_level p));
  pub_folded : forall j, zmem j fs = true ->
      zmap_get j (pt_contribs p) = match zmap_get j cs with Some w => if lo <? w then Some w else None | None => None end }.

Fixpoint published_chain (cs : list (Z * Z)) (fs : list Z) (lo : Z) (ps : list pot) : Prop :=
  match ps with
  | [] => True
  | p :: t =>
      published cs fs lo p /\ published_chain cs fs (pt_level p) t /\
      match t with
      | [] => True
      | q :: _ => pt_level p < pt_level q /\
                  (length (filter (nonfolded fs) (pt_contribs q)) < length (filter (nonfolded fs) (pt_contribs p)))%nat
      end
  end.

Lemma fpots_published cs fs done : (forall j, zmem j fs = true -> zmem j done = true) ->
  forall ps lo, fpots cs fs done lo ps -> published_chain cs fs lo ps.
Proof.
  intros Hall. induction ps as [|p t IH]; intros lo H; simpl in *; [exact I|].
  destruct H as ([A1 A2 A3 A4 A5 A6] & Ht & Ho). split; [|split; [apply IH; exact Ht|exact Ho]].
  constructor; try assumption. intros j Hj. rewrite (A6 j Hj). unfold folded_entry.
  destruct (zmap_get j cs); [|reflexivity]. rewrite (Hall j Hj). reflexivity.
Qed.

Theorem get_pots_published inputs :
  nonneg_inputs inputs ->
  let ll := ll_of inputs in
  published_chain (ll_contribs ll) (ll_folded ll) 0 (get_pots ll).
Proof.
  intros Hn ll.
  apply (fpots_published _ _ (rev (ll_folded ll))).
  - intros j Hj. apply zmem_true_iff. apply in_rev. rewrite rev_involutive. apply zmem_true_iff. exact Hj.
  - apply get_pots_fpots; [apply ll_of_wf; exact Hn|apply ll_of_nonneg; exact Hn|apply ll_of_folded_sorted].
Qed.

(* ---------- corollaries: levels increase, totals add up to all chips put in ---------- *)
Lemma published_levels_sorted cs fs ps : forall lo, published_chain cs fs lo ps -> zsorted (map pt_level ps).
Proof.
  induction ps as [|p t IH]; intros lo H; simpl in *; [constructor|].
  destruct H as (_ & Ht & Ho). destruct t as [|q t']; [constructor|].
  simpl. constructor; [apply Ho|]. apply (IH (pt_level p)). exact Ht.
Qed.

Definition last_level (ps : list pot) (d : Z) : Z := fold_left (fun _ p => pt_level p) ps d.

Lemma published_totals cs fs ps : forall lo, published_chain cs fs lo ps ->
  zsum (map pt_total ps) = contrib_sum cs lo (last_level ps lo).
Proof.
  induction ps as [|p t IH]; intros lo H; simpl in *.
  - unfold contrib_sum. induction cs as [|x c IHc]; simpl; lia.
  - destruct H as ([_ _ A3 _ _] & Ht & _). rewrite A3, (IH (pt_level p) Ht).
    unfold last_level. simpl. apply contrib_sum_add.
Qed.

Lemma merge_from_last rest : forall cur d, last_level (merge_from cur rest) d = last_level (cur :: rest) d.
Proof.
  induction rest as [|p t IH]; intros cur d; simpl; [reflexivity|].
  destruct (Nat.eqb _ _).
  - rewrite IH. unfold last_level. reflexivity.
  - unfold last_level in *. simpl. apply (IH p (pt_level cur)).
Qed.

Lemma put_back_levels j w ps : map pt_level (put_back j w ps) = map pt_level ps.
Proof. induction ps as [|p t IH]; simpl; [reflexivity|]. destruct (w <=? pt_level p); simpl; [reflexivity|now rewrite IH]. Qed.

Lemma last_level_map ps d : last_level ps d = fold_left (fun _ l => l) (map pt_level ps) d.
Proof. unfold last_level. revert d; induction ps as [|p t IH]; intros d; simpl; [reflexivity|apply IH]. Qed.

Lemma get_pots_last_level ll d :
  last_level (get_pots ll) d = fold_left (fun _ l => l) (ll_lvals ll) d.
Proof.
  rewrite last_level_map. unfold get_pots, put_back_all.
  assert (G : forall todo ps, map pt_level (fold_left (fun ps idx =>
                 let w := option_default 0 (zmap_get idx (ll_contribs ll)) in if w =? 0 then ps else put_back idx w ps) todo ps)
              = map pt_level ps).
  { induction todo as [|j t IH]; intros ps; simpl; [reflexivity|]. rewrite IH.
    destruct (_ =? 0); [reflexivity|apply put_back_levels]. }
  rewrite G. unfold merged_pots, ll_levels. rewrite <- last_level_map.
  destruct (ll_lvals ll) as [|l1 t] eqn:E; [reflexivity|].
  cbn [build_levels map]. rewrite merge_pots_from, merge_from_last.
  rewrite last_level_map.
  assert (H : forall prev lvs, map pt_level (map (orig_pot (ll_folded ll)) (build_levels (ll_contribs ll) prev lvs)) = lvs).
  { intros prev lvs. revert prev; induction lvs as [|l r IH]; intros prev; simpl; [reflexivity|]. now rewrite IH. }
  cbn [map]. rewrite H. reflexivity.
Qed.

Lemma fold_last_max lvs : zsorted lvs -> forall d x, In x lvs -> x <= fold_left (fun _ l => l) lvs d.
Proof.
  induction lvs as [|l t IH]; intros Hs d x Hx; [contradiction|]. simpl.
  destruct Hx as [->|Hx].
  - destruct t as [|l2 t']; [simpl; lia|].
    pose proof (IH (zsorted_tail _ _ Hs) x l2 (or_introl eq_refl)). inversion Hs; subst. lia.
  - apply IH; [exact (zsorted_tail _ _ Hs)|exact Hx].
Qed.

(* the totals of the published pots add up to all chips put in *)
Theorem get_pots_totals inputs :
  nonneg_inputs inputs ->
  let ll := ll_of inputs in
  zsum (map pt_total (get_pots ll)) = zsum (map snd (ll_contribs ll)).
Proof.
  intros Hn ll. pose proof (get_pots_published inputs Hn) as Hp. fold ll in Hp.
  rewrite (published_totals _ _ _ 0 Hp), get_pots_last_level.
  pose proof (ll_of_wf inputs Hn) as Hwf. fold ll in Hwf.
  unfold contrib_sum.
  assert (G : forall c, In c (ll_contribs ll) -> Z.min (snd c) (fold_left (fun _ l => l) (ll_lvals ll) 0) - Z.min (snd c) 0 = snd c).
  { intros [i w] Hc. simpl.
    pose proof (wf_level _ Hwf i w Hc) as Hl. pose proof (wf_nonneg _ Hwf w Hl) as H0.
    pose proof (fold_last_max _ (wf_lvs _ Hwf) 0 w Hl). lia. }
  induction (ll_contribs ll) as [|c t IH]; simpl; [reflexivity|].
  rewrite (G c (or_introl eq_refl)). f_equal. apply IH. intros x Hx. apply G. now right.
Qed.

(* ---------- the levels merged into one pot have the same eligible players ---------- *)
Section SameElig.
  Variables (cs : list (Z * Z)) (fs : list Z).
  Hypothesis Hkeys : zsorted (keys cs).

  Definition pot_lv (p : pot) : Prop :=
    forall l, In l (pt_levels p) -> elig cs fs (l_level l) = elig cs fs (pt_level p).

  Lemma merge_from_lv lvs : forall lo cur,
    pot_spec cs fs lo cur -> pot_lv cur -> levels_ok cs (pt_level cur) lvs ->
    forall q, In q (merge_from cur (map (orig_pot fs) (build_levels cs (pt_level cur) lvs))) -> pot_lv q.
  Proof.
    induction lvs as [|l t IH]; intros lo cur Hc Hlv Hl q Hq.
    - simpl in Hq. destruct Hq as [<-|[]]. exact Hlv.
    - destruct Hl as (Hlt & Hg & Hrest). cbn [build_levels map] in Hq.
      set (p := orig_pot fs (mkLevel l (l - pt_level cur) (zn (length (contributors_ge cs l)) * (l - pt_level cur)) (contributors_ge cs l))) in *.
      cbn [merge_from] in Hq.
      assert (Hp : pot_spec cs fs (pt_level cur) p) by (apply orig_pot_spec; [lia|exact Hg]).
      assert (Hpl : pt_level p = l) by reflexivity.
      assert (Hplv : pot_lv p) by (intros l' [<-|[]]; reflexivity).
      destruct (Nat.eqb (length (pt_contribs cur)) (length (pt_contribs p))) eqn:E.
      + apply Nat.eqb_eq in E. destruct (merge_into_spec cs fs Hkeys lo cur p Hc Hp E) as [Hm _].
        assert (He : elig cs fs l = elig cs fs (pt_level cur)).
        { destruct Hc as [_ _ _ C4]. destruct Hp as [_ _ _ P4]. rewrite C4, P4, !map_length in E.
          apply elig_length_eq; [lia|]. simpl in E. symmetry. exact E. }
        assert (Hmlv : pot_lv (merge_into cur p)).
        { intros l' Hl'. cbn [merge_into pt_levels pt_level] in *. apply in_app_or in Hl' as [Hl'|Hl'].
          - rewrite (Hlv l' Hl'). symmetry. exact He.
          - destruct Hl' as [<-|[]]. reflexivity. }
        apply (IH lo (merge_into cur p) Hm Hmlv Hrest q). exact Hq.
      + destruct Hq as [<-|Hq]; [exact Hlv|].
        apply (IH (pt_level cur) p Hp Hplv). { rewrite Hpl. exact Hrest. } rewrite Hpl. exact Hq.
  Qed.
End SameElig.

Theorem merged_pots_lv ll : ll_wf ll -> forall q, In q (merged_pots ll) -> pot_lv (ll_contribs ll) (ll_folded ll) q.
Proof.
  intros [A B C D] q Hq. unfold merged_pots, ll_levels in Hq.
  destruct (ll_lvals ll) as [|l1 t] eqn:E; [contradiction|].
  cbn [build_levels map] in Hq. rewrite merge_pots_from in Hq.
  set (cs := ll_contribs ll) in *. set (fs := ll_folded ll) in *.
  assert (H1 : 0 <= l1) by (apply D; now left).
  assert (Hg : gap_free cs 0 l1).
  { intros i w Hw. right. specialize (C i w Hw). destruct C as [<-|Hin]; [lia|].
    pose proof (zsorted_head_lt l1 t B w Hin). lia. }
  pose proof (orig_pot_spec cs fs 0 l1 H1 Hg) as Hp.
  replace (l1 - 0) with l1 in * by lia.
  set (p1 := orig_pot fs _) in *.
  assert (Hl : levels_ok cs (pt_level p1) t).
  { apply (levels_ok_of cs (l1 :: t) C B t [] l1). reflexivity. }
  apply (merge_from_lv cs fs A t 0 p1 Hp); [intros l' [<-|[]]; reflexivity|exact Hl|exact Hq].
Qed.

Lemma put_back_shape j w ps :
  map (fun p => (pt_level p, pt_levels p)) (put_back j w ps) = map (fun p => (pt_level p, pt_levels p)) ps.
Proof. induction ps as [|p t IH]; simpl; [reflexivity|]. destruct (w <=? pt_level p); simpl; [reflexivity|now rewrite IH]. Qed.

Theorem get_pots_lv ll : ll_wf ll -> forall q, In q (get_pots ll) -> pot_lv (ll_contribs ll) (ll_folded ll) q.
Proof.
  intros Hwf q Hq.
  assert (Hshape : map (fun p => (pt_level p, pt_levels p)) (get_pots ll) = map (fun p => (pt_level p, pt_levels p)) (merged_pots ll)).
  { unfold get_pots, put_back_all. fold (merged_pots ll). generalize (merged_pots ll).
    induction (ll_folded ll) as [|j t IH]; intros ps; simpl; [reflexivity|]. rewrite IH.
    destruct (_ =? 0); [reflexivity|apply put_back_shape]. }
  assert (Hin : In (pt_level q, pt_levels q) (map (fun p => (pt_level p, pt_levels p)) (merged_pots ll))).
  { rewrite <- Hshape. apply in_map_iff. exists q. auto. }
  apply in_map_iff in Hin as (q' & E & Hq'). injection E as E1 E2.
  pose proof (merged_pots_lv ll Hwf q' Hq') as H. unfold pot_lv in *. rewrite <- E1, <- E2. exact H.
Qed.
