(* ProofsEvalBasic.v — enumeration of candidate hands (C10). *)
From Coq Require Import Lia.
From PF Require Import Base Comb ModelEval.
From PF.Gen Require Import Consts.

(* specification: all k-element subsets of [0, n), each as an ascending list of positions *)
Fixpoint subsets_spec (n k : nat) : list (list nat) :=
  match n, k with
  | _, O => [[]]
  | O, S _ => []
  | S n', S k' => subsets_spec n' k ++ map (fun s => s ++ [n']) (subsets_spec n' k')
  end.

Fixpoint natlist_eqb (a b : list nat) : bool :=
  match a, b with
  | [], [] => true
  | x :: a', y :: b' => Nat.eqb x y && natlist_eqb a' b'
  | _, _ => false
  end.

Lemma natlist_eqb_eq a b : natlist_eqb a b = true <-> a = b.
Proof.
  revert b; induction a as [|x a IH]; intros [|y b]; simpl; split; intros H; try discriminate; auto.
  - apply andb_prop in H as [H1 H2]. apply Nat.eqb_eq in H1. apply IH in H2. now subst.
  - inversion H; subst. rewrite Nat.eqb_refl. simpl. now apply IH.
Qed.

Definition count_occ_nl (s : list nat) (l : list (list nat)) : nat :=
  length (filter (natlist_eqb s) l).

(* what gospersHack + binaryOnesPositions enumerate *)
Definition gosper_positions (k n : nat) : list (list nat) :=
  map (fun v => ones_positions v 0 n) (gospers k n).

(* the enumeration is complete and duplicate free: same length as the specification and every
   specified subset occurs exactly once *)
Definition gosper_ok (k n : nat) : bool :=
  Nat.eqb (length (gosper_positions k n)) (length (subsets_spec n k)) &&
  forallb (fun s => Nat.eqb (count_occ_nl s (gosper_positions k n)) 1) (subsets_spec n k).

Definition gosper_all_ok : bool :=
  forallb (fun n => forallb (fun k => gosper_ok k n) (seq 1 n)) (seq 0 10).

Lemma gosper_all_ok_true : gosper_all_ok = true.
Proof. vm_compute. reflexivity. Qed.

Lemma gosper_complete n k :
  (n <= 9)%nat -> (1 <= k)%nat -> (k <= n)%nat ->
  length (gosper_positions k n) = length (subsets_spec n k) /\
  forall s, In s (subsets_spec n k) -> count_occ_nl s (gosper_positions k n) = 1%nat.
Proof.
  intros Hn Hk1 Hk.
  pose proof gosper_all_ok_true as H. unfold gosper_all_ok in H.
  rewrite forallb_forall in H.
  assert (Hin : In n (seq 0 10)) by (apply in_seq; lia).
  specialize (H n Hin). rewrite forallb_forall in H.
  assert (Hik : In k (seq 1 n)) by (apply in_seq; lia).
  specialize (H k Hik). unfold gosper_ok in H.
  apply andb_prop in H as [H1 H2]. apply Nat.eqb_eq in H1.
  split; [exact H1|].
  intros s Hs. rewrite forallb_forall in H2. specialize (H2 s Hs). now apply Nat.eqb_eq in H2.
Qed.

(* first_max returns a maximal element that belongs to the list *)
Lemma first_max_ge best l : ps_score best <= ps_score (first_max best l).
Proof.
  revert best; induction l as [|p t IH]; intros best; simpl; [lia|].
  destruct (ps_score best <? ps_score p) eqn:E.
  - apply Z.ltb_lt in E. specialize (IH p). lia.
  - apply IH.
Qed.

Lemma first_max_max best l : forall p, In p l -> ps_score p <= ps_score (first_max best l).
Proof.
  revert best; induction l as [|q t IH]; intros best p Hin; simpl in *; [contradiction|].
  destruct Hin as [->|Hin].
  - destruct (ps_score best <? ps_score p) eqn:E.
    + apply first_max_ge.
    + apply Z.ltb_ge in E. pose proof (first_max_ge best t). lia.
  - destruct (ps_score best <? ps_score q); apply IH; exact Hin.
Qed.

Lemma first_max_in best l : first_max best l = best \/ In (first_max best l) l.
Proof.
  revert best; induction l as [|q t IH]; intros best; simpl; [now left|].
  destruct (ps_score best <? ps_score q).
  - destruct (IH q) as [->|H]; [right; now left|right; now right].
  - destruct (IH best) as [->|H]; [now left|right; now right].
Qed.

(* the reported best hand: one of the admissible selections, and none scores higher *)
Lemma best_power_spec pr board hole req b :
  best_power pr board hole req = Some b ->
  (exists c, In c (all_combinations board hole req) /\ b = calc_power pr c) /\
  (forall c, In c (all_combinations board hole req) -> ps_score (calc_power pr c) <= ps_score b).
Proof.
  unfold best_power. destruct (all_combinations board hole req) as [|c0 cs] eqn:E; cbn [map]; [discriminate|].
  intros H. injection H as <-. split.
  - destruct (first_max_in (calc_power pr c0) (map (calc_power pr) cs)) as [H|H].
    + exists c0. split; [now left|exact H].
    + apply in_map_iff in H as [c [Hc Hin]]. exists c. split; [now right|symmetry; exact Hc].
  - intros c [->|Hin].
    + apply first_max_ge.
    + apply first_max_max. apply in_map. exact Hin.
Qed.
