package main

import (
	"os"
	"runtime/pprof"
)

func startProfile() func() {
	if p := os.Getenv("PF_PROFILE"); p != "" {
		f, _ := os.Create(p)
		pprof.StartCPUProfile(f)
		return func() { pprof.StopCPUProfile(); f.Close() }
	}
	return func() {}
}
