package main

import (
	"encoding/json"
	"fmt"
	"math/rand"
	"os"
	"sort"
	"strings"

	pf "github.com/weedbox/pokerface"
	"github.com/weedbox/pokerface/combination"
)

const rankChars = "23456789TJQKA"
const suitChars = "SHDC"

// the harness' own card tables (independent of combination.CardRank)
func rankOf(card string) int { return strings.IndexByte(rankChars, card[1]) + 2 }
func wire(card string) int64 { return int64(card[0])*256 + int64(card[1]) }
func wires(cards []string) []int64 {
	v := make([]int64, len(cards))
	for i, c := range cards {
		v[i] = wire(c)
	}
	return v
}
func counted(cards []string) []int64 {
	return append([]int64{int64(len(cards))}, wires(cards)...)
}

// category names in the poker order of each variant (the property's own statement)
var specOrder = map[int][]string{
	0: {"HighCard", "Pair", "TwoPair", "ThreeOfAKind", "Straight", "Flush", "FullHouse", "FourOfAKind", "StraightFlush"},
	1: {"HighCard", "Pair", "TwoPair", "ThreeOfAKind", "Straight", "FullHouse", "Flush", "FourOfAKind", "StraightFlush"},
}

var combCode = map[string]int64{"HighCard": 0, "Pair": 1, "TwoPair": 2, "ThreeOfAKind": 3, "Straight": 4, "Flush": 5, "FullHouse": 6, "FourOfAKind": 7, "StraightFlush": 8}

func tableOf(code int) combination.PowerRankings {
	if code == 1 {
		return combination.CombinationPowerShortDeck
	}
	return combination.CombinationPowerStandard
}

// specHand: category and tiebreak vector of a five-card hand under the rules of poker
func specHand(cards []string) (string, []int) {
	cnt := map[int]int{}
	flush := true
	for _, c := range cards {
		cnt[rankOf(c)]++
		if c[0] != cards[0][0] {
			flush = false
		}
	}
	type rc struct{ r, c int }
	var g []rc
	for r, c := range cnt {
		g = append(g, rc{r, c})
	}
	sort.Slice(g, func(i, j int) bool {
		if g[i].c != g[j].c {
			return g[i].c > g[j].c
		}
		return g[i].r > g[j].r
	})
	var tb []int
	for _, x := range g {
		tb = append(tb, x.r)
	}
	straight := false
	top := 0
	if len(g) == 5 {
		if g[0].r-g[4].r == 4 {
			straight, top = true, g[0].r
		} else if g[0].r == 14 && g[1].r == 5 && g[4].r == 2 {
			straight, top = true, 5
		}
	}
	switch {
	case straight && flush:
		return "StraightFlush", []int{top}
	case g[0].c == 4:
		return "FourOfAKind", tb
	case g[0].c == 3 && g[1].c == 2:
		return "FullHouse", tb
	case flush:
		return "Flush", tb
	case straight:
		return "Straight", []int{top}
	case g[0].c == 3:
		return "ThreeOfAKind", tb
	case g[0].c == 2 && g[1].c == 2:
		return "TwoPair", tb
	case g[0].c == 2:
		return "Pair", tb
	}
	return "HighCard", tb
}

func specCmpKey(table int, cards []string) []int {
	cat, tb := specHand(cards)
	idx := -1
	for i, n := range specOrder[table] {
		if n == cat {
			idx = i
		}
	}
	return append([]int{idx}, tb...)
}

func lexCmp(a, b []int) int {
	for i := 0; i < len(a) && i < len(b); i++ {
		if a[i] != b[i] {
			if a[i] < b[i] {
				return -1
			}
			return 1
		}
	}
	return len(a) - len(b)
}

// A-9-8-7-6: how a short-deck wheel is classed is left open by the property
func isShortWheel(cards []string) bool {
	m := map[int]bool{}
	for _, c := range cards {
		m[rankOf(c)] = true
	}
	return len(m) == 5 && m[14] && m[9] && m[8] && m[7] && m[6]
}

type evalRec struct {
	cards []string
	key   []int
	score uint64
	cat   string
}

func evalLine(o *Out, table int, cards []string) evalRec {
	ps := combination.CalculatePower(tableOf(table), cards)
	var b Obs
	b.K("ctype", int64(ps.Combination)).K("cpower", int64(ps.Score))
	var cc []int64
	for _, c := range ps.Cards {
		cc = append(cc, wire(c.ToString()))
	}
	b.K("ccards", cc...)
	o.Line("eval "+ints(append([]int64{int64(table)}, wires(cards)...)...), b.String())
	return evalRec{cards, specCmpKey(table, cards), ps.Score, combination.CombinationSymbol[ps.Combination]}
}

// checkOrder: sort by the poker order, then require scores to move exactly as the order does
func checkOrder(o *Out, table int, recs []evalRec) {
	for _, r := range recs {
		cat, _ := specHand(r.cards)
		if cat != r.cat {
			o.Violate("C03", "category", fmt.Sprintf("table %d hand %v named %s, is %s", table, r.cards, r.cat, cat), map[string]interface{}{"table": table, "hands": [][]string{r.cards}})
		}
	}
	var use []evalRec
	for _, r := range recs {
		if !isShortWheel(r.cards) {
			use = append(use, r)
		}
	}
	sort.SliceStable(use, func(i, j int) bool { return lexCmp(use[i].key, use[j].key) < 0 })
	for i := 1; i < len(use); i++ {
		c := lexCmp(use[i-1].key, use[i].key)
		a, b := use[i-1], use[i]
		if c == 0 && a.score != b.score {
			o.Violate("C03", "tie-scored-differently", fmt.Sprintf("table %d %v=%d %v=%d", table, a.cards, a.score, b.cards, b.score), map[string]interface{}{"table": table, "hands": [][]string{a.cards, b.cards}})
		}
		if c < 0 && !(a.score < b.score) {
			o.Violate("C03", "order", fmt.Sprintf("table %d %v=%d should lose to %v=%d", table, a.cards, a.score, b.cards, b.score), map[string]interface{}{"table": table, "hands": [][]string{a.cards, b.cards}})
		}
	}
}

// rank multisets of size 5 (descending) with multiplicity <= 4 over minRank..14
func rankClasses(minRank int) [][]int {
	var out [][]int
	cur := make([]int, 5)
	var rec func(i, bound int)
	rec = func(i, bound int) {
		if i == 5 {
			c := map[int]int{}
			for _, r := range cur {
				c[r]++
				if c[r] > 4 {
					return
				}
			}
			out = append(out, append([]int{}, cur...))
			return
		}
		for r := bound; r >= minRank; r-- {
			cur[i] = r
			rec(i+1, r)
		}
	}
	rec(0, 14)
	return out
}

func representative(rng *rand.Rand, ranks []int, flush bool) []string {
	cards := make([]string, 5)
	if flush {
		s := suitChars[rng.Intn(4)]
		for i, r := range ranks {
			cards[i] = string([]byte{s, rankChars[r-2]})
		}
	} else {
		for {
			used := map[string]bool{}
			ok := true
			for i, r := range ranks {
				var c string
				for tries := 0; ; tries++ {
					c = string([]byte{suitChars[rng.Intn(4)], rankChars[r-2]})
					if !used[c] {
						break
					}
				}
				used[c] = true
				cards[i] = c
			}
			same := true
			for _, c := range cards {
				if c[0] != cards[0][0] {
					same = false
				}
			}
			if same {
				ok = false
			}
			if ok {
				break
			}
		}
	}
	rng.Shuffle(5, func(i, j int) { cards[i], cards[j] = cards[j], cards[i] })
	return cards
}

func deckOf(short bool) []string {
	if short {
		return pf.NewShortDeckCards()
	}
	return pf.NewStandardDeckCards()
}

func randomHand(rng *rand.Rand, deck []string, k int) []string {
	p := rng.Perm(len(deck))
	h := make([]string, k)
	for i := 0; i < k; i++ {
		h[i] = deck[p[i]]
	}
	return h
}

type evalReplay struct {
	Table int        `json:"table"`
	Hands [][]string `json:"hands"`
}

func runEval(o *Out, rng *rand.Rand, n int, mode string, scope int, replay string) int {
	cases := 0
	switch mode {
	case "exhaustive":
		// every 5-card hand of the 52-card deck (scope=52) or 36-card deck (scope=36), both tables
		deck := deckOf(scope == 36)
		for table := 0; table < 2; table++ {
			var recs []evalRec
			seen := map[string]bool{}
			m := len(deck)
			for a := 0; a < m; a++ {
				for b := a + 1; b < m; b++ {
					for c := b + 1; c < m; c++ {
						for d := c + 1; d < m; d++ {
							for e := d + 1; e < m; e++ {
								h := []string{deck[a], deck[b], deck[c], deck[d], deck[e]}
								r := evalLine(o, table, h)
								cases++
								// one record per (score,key) class is enough for the order check
								k := fmt.Sprint(r.key, r.score, r.cat)
								if !seen[k] {
									seen[k] = true
									recs = append(recs, r)
								}
							}
						}
					}
				}
			}
			checkOrder(o, table, recs)
			o.StatN(fmt.Sprintf("eval.table%d.classes", table), len(recs))
		}
	case "replay", "corpus":
		data, err := os.ReadFile(replay)
		if err == nil {
			var rs []evalReplay
			if json.Unmarshal(data, &rs) != nil {
				var one evalReplay
				if json.Unmarshal(data, &one) == nil {
					rs = []evalReplay{one}
				}
			}
			for _, r := range rs {
				var recs []evalRec
				for _, h := range r.Hands {
					recs = append(recs, evalLine(o, r.Table, h))
				}
				checkOrder(o, r.Table, recs)
				cases++
			}
		}
	default:
		// one random representative of every rank/flush class under both tables, plus random hands
		classes := rankClasses(2)
		for table := 0; table < 2; table++ {
			var recs []evalRec
			for _, rk := range classes {
				recs = append(recs, evalLine(o, table, representative(rng, rk, false)))
				cases++
				distinct := true
				for i := 1; i < 5; i++ {
					if rk[i] == rk[i-1] {
						distinct = false
					}
				}
				if distinct {
					recs = append(recs, evalLine(o, table, representative(rng, rk, true)))
					cases++
				}
			}
			for i := 0; i < n; i++ {
				recs = append(recs, evalLine(o, table, randomHand(rng, deckOf(i%4 == 3), 5)))
				cases++
			}
			checkOrder(o, table, recs)
			for _, r := range recs {
				o.Distinct("C03", fmt.Sprint(table, r.key))
			}
			o.Sample("C03", map[string]interface{}{"table": table, "hand": recs[rng.Intn(len(recs))].cards})
		}
		o.StatN("eval.classes", len(classes))
	}
	return cases
}

// ---------- best hand (C10) ----------

type bestIn struct {
	Table int      `json:"table"`
	Req   int      `json:"req"`
	Hole  []string `json:"hole"`
	Board []string `json:"board"`
}

func subsets(cards []string, k int) [][]string {
	var out [][]string
	var rec func(start int, cur []string)
	rec = func(start int, cur []string) {
		if len(cur) == k {
			out = append(out, append([]string{}, cur...))
			return
		}
		for i := start; i < len(cards); i++ {
			rec(i+1, append(cur, cards[i]))
		}
	}
	rec(0, nil)
	return out
}

// admissible selections, stated independently of combination.GetAllPossibleCombinations
func admissible(in bestIn) [][]string {
	if in.Req == 0 {
		all := append(append([]string{}, in.Hole...), in.Board...)
		if len(all) <= 5 {
			return [][]string{all}
		}
		return subsets(all, 5)
	}
	var out [][]string
	for _, h := range subsets(in.Hole, in.Req) {
		for _, b := range subsets(in.Board, 5-in.Req) {
			out = append(out, append(append([]string{}, h...), b...))
		}
	}
	return out
}

func sameCards(a, b []string) bool {
	if len(a) != len(b) {
		return false
	}
	x := append([]string{}, a...)
	y := append([]string{}, b...)
	sort.Strings(x)
	sort.Strings(y)
	for i := range x {
		if x[i] != y[i] {
			return false
		}
	}
	return true
}

// oracleBest: C10 on one reported combination
func oracleBest(o *Out, in bestIn, ctype string, cards []string, power int, replay interface{}) {
	adm := admissible(in)
	found := false
	for _, a := range adm {
		if sameCards(a, cards) {
			found = true
			break
		}
	}
	if !found {
		o.Violate("C10", "reported-cards-not-admissible", fmt.Sprintf("%v from hole %v board %v req %d", cards, in.Hole, in.Board, in.Req), replay)
		return
	}
	ps := combination.CalculatePower(tableOf(in.Table), cards)
	if int(ps.Score) != power || combination.CombinationSymbol[ps.Combination] != ctype {
		o.Violate("C10", "reported-hand-inconsistent", fmt.Sprintf("cards %v evaluate to %s/%d, reported %s/%d", cards, combination.CombinationSymbol[ps.Combination], ps.Score, ctype, power), replay)
	}
	if len(cards) == 5 {
		if cat, _ := specHand(cards); cat != ctype {
			o.Violate("C10", "reported-category-wrong", fmt.Sprintf("cards %v are %s, reported %s", cards, cat, ctype), replay)
		}
		mine := specCmpKey(in.Table, cards)
		for _, a := range adm {
			if len(a) == 5 && !isShortWheel(a) && !isShortWheel(cards) && lexCmp(specCmpKey(in.Table, a), mine) > 0 {
				o.Violate("C10", "better-selection-exists", fmt.Sprintf("%v beats reported %v (hole %v board %v req %d)", a, cards, in.Hole, in.Board, in.Req), replay)
				break
			}
		}
	}
	for _, a := range adm {
		if int(combination.CalculatePower(tableOf(in.Table), a).Score) > power {
			o.Violate("C10", "higher-scoring-selection-exists", fmt.Sprintf("%v scores above reported %v", a, cards), replay)
			break
		}
	}
}

func bestCase(o *Out, in bestIn) {
	opts := pf.NewStardardGameOptions()
	opts.CombinationPowers = tableOf(in.Table)
	opts.RequiredHoleCardsCount = in.Req
	opts.HoleCardsCount = len(in.Hole)
	opts.Players = append(opts.Players, &pf.PlayerSetting{Bankroll: 100, Positions: []string{"dealer"}})
	g := pf.NewGame(opts)
	gs := g.GetState()
	gs.Status.Board = in.Board
	gs.Players[0].HoleCards = in.Hole
	g.UpdateCombinationOfAllPlayers()
	c := gs.Players[0].Combination
	args := []int64{int64(in.Table), int64(in.Req)}
	args = append(args, counted(in.Hole)...)
	args = append(args, counted(in.Board)...)
	nc := len(admissible(in))
	var b Obs
	b.K("ncomb", int64(nc)).K("ctype", combCode[c.Type]).K("cpower", int64(c.Power))
	if nc <= 12 {
		b.K("ccards", wires(c.Cards)...)
	} else {
		// sort.Slice is not stable beyond 12 candidates: which of several equal best hands is
		// reported is left open; the oracle validates the reported cards instead
		b.K("ccards")
	}
	o.Line("best "+ints(args...), b.String())
	oracleBest(o, in, c.Type, c.Cards, c.Power, in)
	if nc > 1 {
		o.Distinct("C10", fmt.Sprint(in))
	}
	o.Stat(fmt.Sprintf("best.ncomb=%d", nc))
	o.Sample("C10", in)
}

func genBest(rng *rand.Rand) bestIn {
	in := bestIn{Table: rng.Intn(2)}
	deck := deckOf(rng.Intn(3) == 0)
	nh := 2
	if rng.Intn(3) == 0 {
		nh, in.Req = 4, 2
	}
	nb := 3 + rng.Intn(3)
	var cards []string
	switch rng.Intn(4) {
	case 0: // four-flush / flush heavy: draw mostly from one suit
		s := suitChars[rng.Intn(4)]
		var same, other []string
		for _, c := range deck {
			if c[0] == s {
				same = append(same, c)
			} else {
				other = append(other, c)
			}
		}
		rng.Shuffle(len(same), func(i, j int) { same[i], same[j] = same[j], same[i] })
		rng.Shuffle(len(other), func(i, j int) { other[i], other[j] = other[j], other[i] })
		k := 3 + rng.Intn(4)
		if k > nh+nb {
			k = nh + nb
		}
		cards = append(cards, same[:k]...)
		cards = append(cards, other[:nh+nb-k]...)
		rng.Shuffle(len(cards), func(i, j int) { cards[i], cards[j] = cards[j], cards[i] })
	case 1: // paired boards: few ranks
		ranks := rng.Perm(len(deck) / 4)[:3+rng.Intn(2)]
		var pool []string
		for _, c := range deck {
			for _, r := range ranks {
				if rankOf(c) == rankOf(deck[r]) {
					pool = append(pool, c)
				}
			}
		}
		rng.Shuffle(len(pool), func(i, j int) { pool[i], pool[j] = pool[j], pool[i] })
		if len(pool) >= nh+nb {
			cards = pool[:nh+nb]
		} else {
			cards = randomHand(rng, deck, nh+nb)
		}
	default:
		cards = randomHand(rng, deck, nh+nb)
	}
	in.Hole = cards[:nh]
	in.Board = cards[nh:]
	return in
}

func runBest(o *Out, rng *rand.Rand, n int, mode string, replay string) int {
	cases := 0
	if mode == "replay" || mode == "corpus" {
		data, err := os.ReadFile(replay)
		if err == nil {
			var rs []bestIn
			if json.Unmarshal(data, &rs) != nil {
				var one bestIn
				if json.Unmarshal(data, &one) == nil {
					rs = []bestIn{one}
				}
			}
			for _, r := range rs {
				bestCase(o, r)
				cases++
			}
		}
		return cases
	}
	for i := 0; i < n; i++ {
		bestCase(o, genBest(rng))
		cases++
	}
	// raw enumeration on abstract items: hole/board sizes up to 4/5, both rules
	for nh := 0; nh <= 4; nh++ {
		for nb := 0; nb <= 5; nb++ {
			for _, req := range []int{0, 2} {
				if req > 0 && (nh == 0 || nb == 0) {
					// GetPossibleCombinations(_, 0) on a non-empty list divides by zero only for k=0; req=2 is fine
				}
				hole := make([]string, nh)
				board := make([]string, nb)
				for i := range hole {
					hole[i] = fmt.Sprint(100 + i)
				}
				for i := range board {
					board[i] = fmt.Sprint(200 + i)
				}
				cs := combination.GetAllPossibleCombinations(board, hole, req)
				var v []int64
				for _, c := range cs {
					v = append(v, int64(len(c)))
					for _, x := range c {
						var z int64
						fmt.Sscan(x, &z)
						v = append(v, z)
					}
				}
				args := []int64{int64(req), int64(nh)}
				for i := range hole {
					args = append(args, int64(100+i))
				}
				args = append(args, int64(nb))
				for i := range board {
					args = append(args, int64(200+i))
				}
				var b Obs
				b.K("ncomb", int64(len(cs))).K("combos", v...)
				o.Line("combos "+ints(args...), b.String())
			}
		}
	}
	return cases
}
