(* C08 — dealer, small blind and big blind land on the right seats. *)
From PF Require Import Base ModelSeat ProofsSeatBasic.

(* blinds are found by the same clockwise scan; a scan that fails means no playable seat *)
Theorem C08_scan_none_means_no_playable :
  forall s idxs start, find_active s idxs start = None -> forall i, In i idxs -> playable (get_seat s i) = false.
Proof. exact find_active_none. Qed.
Print Assumptions C08_scan_none_means_no_playable.
