(* ProofsLive.v — every player still in the hand carries a positive strength once the hole cards are out
   (the hypothesis of the engine-side "a folded player wins nothing", C02), for the shipped ranking
   tables, the two shipped variants (2 hole cards; 4 hole cards of which exactly 2 play) and any deck of
   distinct cards of the 52-card deck. *)
From Coq Require Import Lia Permutation.
From PF.Gen Require Import Consts.
From PF Require Import Base ProofsBase Comb ModelPot ModelSettle ModelEval ModelGame SpecPoker
                       ProofsGameBasic ProofsChips ProofsInv ProofsPos ProofsView ProofsCards ProofsHands
                       ProofsEvalBasic ProofsEval ProofsScore ProofsOffers ProofsPot ProofsSettle ProofsResult ProofsPhase ProofsTop.

(* ---------- every seat always has a stored hand (possibly the empty one) ---------- *)
Definition Cinv (g : gstate) : Prop := Forall (fun c : option cinfo => c <> None) (gv p_comb g).

Ltac pc_side := intros; reflexivity.

Lemma Cinv_get g i : Cinv g -> (i < nplayers g)%nat -> p_comb (get_p g i) <> None.
Proof.
  unfold Cinv, gv. intros H Hi. rewrite Forall_forall in H. apply H. unfold get_p.
  rewrite <- (map_nth p_comb). apply nth_In. rewrite map_length. exact Hi.
Qed.

Lemma update_combs_Cinv g : Cinv g -> Cinv (update_combs g).
Proof.
  unfold Cinv, gv, update_combs, map_p, with_players. cbn [g_players]. rewrite map_map. rewrite !Forall_forall. intros H c Hc.
  apply in_map_iff in Hc as (p & <- & Hp). specialize (H (p_comb p) (in_map p_comb _ p Hp)).
  unfold update_comb. destruct (p_comb p) as [c0|] eqn:Ec; [|rewrite Ec; exact H].
  destruct (best_power _ _ _ _); [cbn [p_set_comb p_comb]; discriminate|rewrite Ec; discriminate].
Qed.

Lemma Cinv_gv g g' : gv p_comb g' = gv p_comb g -> Cinv g -> Cinv g'.
Proof. unfold Cinv. intros ->. exact (fun H => H). Qed.

Lemma Cinv_enter_preflop g : Cinv g -> Cinv (fst (enter_preflop g)).
Proof.
  intros HC. unfold enter_preflop. destruct (negb (deck_has g _)); [exact HC|].
  assert (G : forall ps deck h, map p_comb (deal_holes ps deck h) = map p_comb ps).
  { induction ps as [|p t IH]; intros deck h; simpl; [reflexivity|]. now rewrite IH. }
  match goal with |- context [update_combs ?x] =>
    assert (H0 : Cinv x) by (eapply Cinv_gv; [|exact HC]; unfold gv; cbn; apply G);
    pose proof (update_combs_Cinv x H0) as H; set (y := update_combs x) in * end.
  destruct (_ && _); cbn [fst].
  - eapply Cinv_gv; [|exact H]. apply (gv_prepare_round p_comb); pc_side.
  - exact H.
Qed.

Lemma Cinv_enter_street g r : Cinv g -> Cinv (fst (enter_street g r)).
Proof.
  intros HC. unfold enter_street. destruct (negb (deck_has g _)); [exact HC|]. cbn [fst].
  match goal with |- context [update_combs ?x] =>
    assert (H0 : Cinv x) by (eapply Cinv_gv; [|exact HC]; rewrite (gv_set_current p_comb) by pc_side; reflexivity);
    pose proof (update_combs_Cinv x H0) as H end.
  eapply Cinv_gv; [|exact H]. apply (gv_prepare_round p_comb); pc_side.
Qed.

Theorem Cinv_step g o : Cinv g -> Cinv (fst (step g o)).
Proof.
  intros HI.
  assert (Frame : forall g', gv p_comb g' = gv p_comb g -> Cinv g') by (intros g' H; apply (Cinv_gv g); assumption).
  destruct o as [| | | |who a x]; cbn [step].
  - unfold do_ready. destruct (negb _); [exact HI|].
    assert (H0 : Cinv (reset_all g)) by (apply Frame; apply gv_reset_all; pc_side).
    destruct (st_round (g_st (reset_all g))); cbn [fst].
    1: { destruct (0 <? _); cbn [fst]; [apply Frame; apply (gv_reset_all p_comb); pc_side|]. apply Cinv_enter_preflop. exact H0. }
    all: apply Frame; rewrite (gv_start_round p_comb) by pc_side; apply gv_reset_all; pc_side.
  - unfold do_pay_ante. destruct (_ =? 0); [exact HI|]. destruct (negb _); [exact HI|].
    assert (G1 : gv p_comb (fst (ante_loop (player_order g) g)) = gv p_comb g) by (apply gv_ante_loop; pc_side).
    destruct (ante_loop (player_order g) g) as [g1 b]. cbn [fst] in *.
    assert (H1 : Cinv g1) by (apply Frame; assumption).
    destruct b; cbn [fst]; [|exact H1].
    apply Cinv_enter_preflop. apply (Cinv_gv g1); [|exact H1].
    rewrite gv_reset_round_status, gv_reset_all_status, gv_update_pots, gv_reset_all by pc_side. reflexivity.
  - unfold do_pay_blinds. destruct (negb _); [exact HI|]. cbn [fst]. apply Frame.
    rewrite gv_prepare_round, gv_reset_all, gv_with_st by pc_side. apply gv_fold_pay_blind; pc_side.
  - unfold do_next. destruct (negb _); [exact HI|].
    set (g0 := set_last g (-1) LNext 0). set (g1 := reset_all_status (reset_round_status g0)).
    assert (H1 : Cinv g1).
    { apply Frame. unfold g1, g0. rewrite gv_reset_all_status, gv_reset_round_status, gv_set_last by pc_side. reflexivity. }
    set (guard := fun res : gstate * outcome => match res with (_, Panic) => (g, Panic) | x => x end).
    assert (Hgc : Cinv (fst (guard (game_completed g1)))).
    { unfold guard. pose proof (gv_game_completed p_comb g1) as G.
      destruct (game_completed g1) as [g2 o2]. cbn [fst] in *.
      assert (H2 : Cinv g2) by (apply (Cinv_gv g1); assumption).
      destruct o2; cbn [fst]; try exact H2; exact HI. }
    assert (Hst : forall r, Cinv (fst (guard (enter_street g1 r)))).
    { intros r. unfold guard. pose proof (Cinv_enter_street g1 r H1) as H. destruct (enter_street g1 r) as [g2 o2]. cbn [fst] in *.
      destruct o2; cbn [fst]; try exact H; exact HI. }
    destruct (st_round (g_st g0)); [apply Frame; reflexivity| | | |];
      destruct (Nat.eqb (alive_count g1) 1); try exact Hgc; apply Hst.
  - destruct (negb _); [exact HI|]. apply Frame. apply gv_act; pc_side.
Qed.

Theorem Cinv_run ops : forall g, Cinv g -> Cinv (run g ops).
Proof. unfold run. induction ops as [|o t IH]; intros g H; cbn [fold_left]; [exact H|]. apply IH, Cinv_step, H. Qed.

Lemma Cinv_create c deck g : create c deck = (g, Ok) -> Cinv g.
Proof.
  intros Hcr. unfold create in Hcr.
  destruct (Nat.ltb _ 2); [discriminate|]. destruct (dealer_opt _); [|discriminate].
  destruct (existsb _ _); [discriminate|]. destruct (Nat.eqb _ 0); [discriminate|]. destruct (Nat.ltb _ _); [discriminate|].
  injection Hcr as <-. unfold Cinv, gv. cbn. rewrite map_map. rewrite Forall_forall. intros x Hx.
  apply in_map_iff in Hx as (p & <- & Hp). apply in_map_iff in Hp as (y & <- & _).
  destruct y as [bk [[d sb] bb]]. cbn. discriminate.
Qed.

(* ---------- the cards a seat can use are distinct cards of the deck ---------- *)
Definition deck_ok (deck : list Z) : Prop :=
  NoDup (map card_of_wire deck) /\ Forall valid_card (map card_of_wire deck).

Lemma interleave_perm b d : Permutation (interleave b d) (b ++ d).
Proof.
  unfold interleave.
  destruct b as [|b1 [|b2 [|b3 [|b4 b]]]]; try apply Permutation_refl;
    destruct d as [|f1 [|f2 [|f3 [|t [|r [|x d]]]]]]; try apply Permutation_refl; cbn [app].
  - apply perm_skip. symmetry. apply (Permutation_middle [f1; f2; f3] [t] b2).
  - apply perm_skip. symmetry.
    transitivity (b2 :: [f1; f2; f3; t] ++ b3 :: [r]).
    + apply perm_skip. apply (Permutation_middle [f1; f2; f3; t] [r] b3).
    + apply (Permutation_middle [f1; f2; f3] [t; b3; r] b2).
Qed.

Lemma concat_split {A} (l : list (list A)) d : forall i, (i < length l)%nat ->
  concat l = concat (firstn i l) ++ nth i l d ++ concat (skipn (S i) l).
Proof.
  induction l as [|x l IH]; intros i Hi; [simpl in Hi; lia|]. destruct i as [|i].
  - reflexivity.
  - cbn [firstn concat nth skipn]. rewrite <- app_assoc. f_equal. apply IH. simpl in Hi. lia.
Qed.

Lemma own_cards_in_dealt g i : (i < nplayers g)%nat ->
  exists rest, Permutation (dealt g) ((p_hole (get_p g i) ++ st_board (g_st g)) ++ rest).
Proof.
  intros Hi. unfold dealt, holes.
  rewrite (concat_split (map p_hole (g_players g)) (p_hole dflt_p) i) by (rewrite map_length; exact Hi).
  rewrite map_nth. fold (get_p g i).
  set (pre := concat (firstn i (map p_hole (g_players g)))). set (post := concat (skipn (S i) (map p_hole (g_players g)))).
  set (h := p_hole (get_p g i)). set (bu := st_burned (g_st g)). set (bo := st_board (g_st g)).
  exists (pre ++ post ++ bu).
  transitivity ((pre ++ h ++ post) ++ (bu ++ bo)); [apply Permutation_app_head, interleave_perm|].
  transitivity ((h ++ pre ++ post) ++ (bo ++ bu)); [apply Permutation_app; [apply Permutation_app_swap_app|apply Permutation_app_comm]|].
  rewrite <- !app_assoc. apply Permutation_app_head.
  transitivity (pre ++ bo ++ post ++ bu); [apply Permutation_app_head, Permutation_app_swap_app|apply Permutation_app_swap_app].
Qed.

Lemma own_cards_ok g i :
  Kinv g -> deck_ok (m_deck (g_meta g)) -> (i < nplayers g)%nat ->
  let cards := map card_of_wire (p_hole (get_p g i)) ++ map card_of_wire (st_board (g_st g)) in
  NoDup cards /\ Forall valid_card cards.
Proof.
  intros K [Dn Dv] Hi cards. unfold cards. rewrite <- map_app.
  destruct (own_cards_in_dealt g i Hi) as (rest & Hp).
  rewrite (k_prefix g K) in Hp.
  pose proof (Permutation_map card_of_wire Hp) as Hm. rewrite <- firstn_map, map_app in Hm.
  split.
  - apply (NoDup_app_l _ (map card_of_wire rest)). apply (Permutation_NoDup Hm). apply NoDup_firstn. exact Dn.
  - rewrite Forall_forall in *. intros x Hx. apply Dv.
    apply (firstn_incl (st_dpos (g_st g))). apply (Permutation_in x (Permutation_sym Hm)). apply in_or_app. now left.
Qed.

Lemma create_meta c deck g : create c deck = (g, Ok) ->
  m_table (g_meta g) = c_table c /\ m_hole (g_meta g) = c_hole c /\ m_req (g_meta g) = c_req c /\ m_deck (g_meta g) = deck.
Proof.
  intros Hcr. unfold create in Hcr.
  destruct (Nat.ltb _ 2); [discriminate|]. destruct (dealer_opt _); [|discriminate].
  destruct (existsb _ _); [discriminate|]. destruct (Nat.eqb _ 0); [discriminate|]. destruct (Nat.ltb _ _); [discriminate|].
  injection Hcr as <-. repeat split.
Qed.

(* the two shipped variants *)
Definition variant_ok (c : config) : Prop :=
  (c_hole c = 2 /\ c_req c = 0)%nat \/ (c_hole c = 4 /\ c_req c = 2)%nat.

Theorem live_scores_positive c deck g ops :
  cfg_ok c -> length deck = length (c_deck c) -> create c deck = (g, Ok) ->
  shipped (c_table c) -> variant_ok c -> deck_ok deck ->
  let s := run g ops in
  st_round (g_st s) <> RNone ->
  forall k, (k < nplayers s)%nat -> p_fold (get_p s k) = false -> 0 < score_of (get_p s k).
Proof.
  intros Hc Hl Hcr Hpr Hvar Hdeck s Hrd k Hk Hf.
  destruct (create_meta c deck g Hcr) as (M1 & M2 & M3 & M4).
  assert (Hm : g_meta s = g_meta g) by apply deck_never_changes.
  pose proof (Good_reachable c deck g ops Hc Hl Hcr) as HG. fold s in HG.
  pose proof (k2_cards s (good_cards s HG)) as K.
  pose proof (Hinv_reachable c deck g ops Hcr) as HH. fold s in HH.
  pose proof (Cinv_run ops g (Cinv_create c deck g Hcr)) as HC. fold s in HC.
  destruct (p_comb (get_p s k)) as [ci|] eqn:Eci; [|exfalso; exact (Cinv_get s k HC Hk Eci)].
  assert (Hd : deck_ok (m_deck (g_meta s))) by (rewrite Hm, M4; exact Hdeck).
  destruct (own_cards_ok s k K Hd Hk) as [Hnd Hv].
  destruct (selection_positive (m_table (g_meta s)) (map card_of_wire (p_hole (get_p s k))) (map card_of_wire (st_board (g_st s))) (m_req (g_meta s)))
    as (b & Eb & Hpos).
  - rewrite Hm, M1. exact Hpr.
  - exact Hnd.
  - exact Hv.
  - rewrite map_length, (k_holes s K k Hk), Hm, M2, M3.
    destruct (st_round (g_st s)); [exfalso; apply Hrd; reflexivity| | | |]; exact Hvar.
  - rewrite map_length, (k_board s K). destruct (st_round (g_st s)); cbn; lia.
  - specialize (HH Hrd k Hk ci b Eci Eb). unfold score_of. rewrite Hf, Eci, HH. cbn [ci_power]. exact Hpos.
Qed.

(* hence: in the recorded result a folded player loses exactly what he put in, with no hypothesis on the scores *)
Theorem folded_wins_nothing_on_a_real_deck c deck g ops :
  cfg_ok c -> length deck = length (c_deck c) -> create c deck = (g, Ok) ->
  shipped (c_table c) -> variant_ok c -> deck_ok deck ->
  let s := run g ops in
  forall r, g_result s = Some r ->
  forall i, (i < nplayers s)%nat -> p_fold (get_p s i) = true ->
    chg (res_players r) (zn i) = - (p_pot (get_p s i) + p_wager (get_p s i)).
Proof.
  intros Hc Hl Hcr Hpr Hvar Hdeck s r Hr.
  apply (ProofsTop.folded_player_wins_nothing c deck g ops Hc Hl Hcr r Hr).
  pose proof (Good_reachable c deck g ops Hc Hl Hcr) as HG. fold s in HG.
  assert (Hrd : st_round (g_st s) <> RNone).
  { pose proof (good_result s HG) as HR. unfold Rinv in HR. rewrite Hr in HR. destruct HR as (He & _).
    pose proof (pi_legal s (good_phase s HG)) as HL. unfold ph in HL. rewrite He in HL. exact HL. }
  apply (live_scores_positive c deck g ops Hc Hl Hcr Hpr Hvar Hdeck Hrd).
Qed.

(* ---------- the premise on the deck is met by every shuffle of the two shipped decks ---------- *)
Definition valid_cardb (c : card) : bool :=
  existsb (Z.eqb (c_suit c)) card_suits && (2 <=? c_rank c) && (c_rank c <=? 14).
Fixpoint card_nodupb (l : list card) : bool :=
  match l with [] => true | x :: t => negb (existsb (card_eqb x) t) && card_nodupb t end.
Definition deck_okb (deck : list Z) : bool :=
  card_nodupb (map card_of_wire deck) && forallb valid_cardb (map card_of_wire deck).

Lemma card_eqb_refl a : card_eqb a a = true.
Proof. unfold card_eqb. now rewrite !Z.eqb_refl. Qed.

Lemma card_nodupb_spec l : card_nodupb l = true -> NoDup l.
Proof.
  induction l as [|x t IH]; intros H; [constructor|]. cbn [card_nodupb] in H. apply andb_prop in H as [H1 H2].
  constructor; [|apply IH; exact H2]. intros Hin.
  assert (E : existsb (card_eqb x) t = true) by (apply existsb_exists; exists x; split; [exact Hin|apply card_eqb_refl]).
  rewrite E in H1. discriminate.
Qed.

Lemma valid_cardb_spec c : valid_cardb c = true -> valid_card c.
Proof.
  unfold valid_cardb, valid_card. intros H. apply andb_prop in H as [H H3]. apply andb_prop in H as [H1 H2].
  apply existsb_exists in H1 as (s & Hs & E). apply Z.eqb_eq in E. subst s. split; [exact Hs|lia].
Qed.

Lemma deck_okb_spec deck : deck_okb deck = true -> deck_ok deck.
Proof.
  unfold deck_okb, deck_ok. intros H. apply andb_prop in H as [H1 H2]. split; [apply card_nodupb_spec; exact H1|].
  rewrite forallb_forall in H2. rewrite Forall_forall. intros x Hx. apply valid_cardb_spec, H2, Hx.
Qed.

Lemma deck_ok_perm d d0 : Permutation d d0 -> deck_ok d0 -> deck_ok d.
Proof.
  intros Hp [A B]. pose proof (Permutation_map card_of_wire Hp) as Hm. split.
  - apply (Permutation_NoDup (Permutation_sym Hm)). exact A.
  - rewrite Forall_forall in *. intros x Hx. apply B. apply (Permutation_in x Hm). exact Hx.
Qed.

(* NewStandardDeckCards / NewShortDeckCards: suit symbol followed by rank symbol, suit by suit *)
Definition deck_of_points (points : list Z) : list Z := flat_map (fun s => map (fun p => s * 256 + p) points) card_suits.
Definition standard_wires : list Z := deck_of_points card_points.
Definition shortdeck_wires : list Z := deck_of_points (skipn 4 card_points).

Lemma standard_deck_ok : deck_ok standard_wires.
Proof. apply deck_okb_spec. vm_compute. reflexivity. Qed.
Lemma shortdeck_deck_ok : deck_ok shortdeck_wires.
Proof. apply deck_okb_spec. vm_compute. reflexivity. Qed.
