(* ProofsReg.v — the regulator together with tables that follow its instructions (C09): every player is
   in exactly one place, and the regulator's counters are the real numbers. *)
From Coq Require Import Lia Permutation.
From PF Require Import Base ModelReg ModelSys ProofsRegBasic.


Lemma env_of_cons e evs ts0 : env_of (e :: evs) ts0 = apply_event (env_of evs ts0) e.
Proof. unfold env_of. cbn [rev]. rewrite fold_left_app. reflexivity. Qed.


(* the regulator's table records agree with the real tables: same ids in the same order, and each
   player count is the real one *)
Definition Tcons (rts : list rtable) (ts : tabs) : Prop :=
  Forall2 (fun t m => t_id t = fst m /\ t_pc t = zn (length (snd m))) rts ts.

Lemma Tcons_length rts ts : Tcons rts ts -> length rts = length ts.
Proof. induction 1; simpl; congruence. Qed.

Lemma Tcons_sum rts ts : Tcons rts ts -> zsum (map t_pc rts) = zn (length (members ts)).
Proof.
  unfold members. induction 1 as [|t m rts ts [_ H] _ IH]; simpl; [reflexivity|].
  rewrite app_length, IH, H. unfold zn. lia.
Qed.

(* adding k players to the first table with a given id, on both sides *)
Lemma Tcons_add rts ts id ps (g : rtable -> rtable) :
  Tcons rts ts -> (forall t, t_id (g t) = t_id t /\ t_pc (g t) = t_pc t + zn (length ps)) ->
  Tcons (map_table id g rts) (add_members id ps ts).
Proof.
  intros H Hg. induction H as [|t [i m] rts ts [H1 H2] Hrest IH]; simpl; [constructor|].
  simpl in H1, H2. rewrite H1. destruct (i =? id).
  - constructor; [|exact Hrest]. destruct (Hg t) as [G1 G2]. simpl. split; [congruence|]. rewrite G2, H2, app_length. unfold zn. lia.
  - constructor; [simpl; auto|exact IH].
Qed.

Lemma members_add id ps ts : In id (map fst ts) -> Permutation (members (add_members id ps ts)) (members ts ++ ps).
Proof.
  unfold members. induction ts as [|[i m] rest IH]; simpl; [intros []|].
  destruct (i =? id) eqn:E; simpl.
  - intros _. rewrite <- !app_assoc. apply Permutation_app_head. apply Permutation_app_comm.
  - intros [H|H]; [apply Z.eqb_neq in E; simpl in H; lia|]. rewrite <- app_assoc. apply Permutation_app_head. apply IH. exact H.
Qed.

Lemma members_app ts ts' : members (ts ++ ts') = members ts ++ members ts'.
Proof. unfold members. rewrite map_app, concat_app. reflexivity. Qed.

Lemma ids_add id ps ts : map fst (add_members id ps ts) = map fst ts.
Proof. induction ts as [|[i m] rest IH]; simpl; [reflexivity|]. destruct (i =? id); simpl; [reflexivity|now rewrite IH]. Qed.

Lemma ids_map_table id g rts : (forall t, t_id (g t) = t_id t) -> map t_id (map_table id g rts) = map t_id rts.
Proof. intros Hg. induction rts as [|t rest IH]; simpl; [reflexivity|]. destruct (t_id t =? id); simpl; [now rewrite Hg|now rewrite IH]. Qed.

Lemma Tcons_ids rts ts : Tcons rts ts -> map t_id rts = map fst ts.
Proof. induction 1 as [|t m rts ts [H _] _ IH]; simpl; [reflexivity|]. now rewrite H, IH. Qed.

Lemma find_table_in id rts t : find_table id rts = Some t -> In t rts /\ t_id t = id.
Proof.
  induction rts as [|u rest IH]; simpl; [discriminate|]. destruct (t_id u =? id) eqn:E.
  - intros H. injection H as <-. split; [now left|apply Z.eqb_eq; exact E].
  - intros H. destruct (IH H). split; [now right|assumption].
Qed.

Lemma first_in_need_in rts t : first_in_need rts = Some t -> In t rts.
Proof. unfold first_in_need. intros H. apply find_some in H. apply H. Qed.

(* ---------- the invariant carried through one call ---------- *)
(* ts0: the real tables when the call started; cands: the players the call still has in hand;
   all0: everybody there was (queue and tables) plus the players that came in with the call *)
Record Call (st : rst) (ts0 : tabs) (cands all0 : list Z) : Prop := mkCall {
  ca_tables : Tcons (r_tables (rs_reg st)) (env_of (rs_ev st) ts0);
  ca_tc : r_tc (rs_reg st) = zn (length (r_tables (rs_reg st)));
  ca_ids : Permutation (cands ++ members (env_of (rs_ev st) ts0)) all0;
  ca_fresh : forall t, In t (r_tables (rs_reg st)) -> t_id t < r_nextid (rs_reg st);
  ca_idnd : NoDup (map t_id (r_tables (rs_reg st))) }.

Lemma NoDup_app_one {A} (l : list A) x : NoDup l -> ~ In x l -> NoDup (l ++ [x]).
Proof.
  intros H Hx. rewrite <- (rev_involutive (l ++ [x])). apply NoDup_rev. rewrite rev_app_distr. simpl.
  constructor; [rewrite <- in_rev; exact Hx|apply NoDup_rev; exact H].
Qed.

Lemma perm_shuffle (a b c : list Z) : Permutation (b ++ (c ++ a)) ((a ++ b) ++ c).
Proof. rewrite <- (app_assoc a b c). eapply perm_trans; [|apply Permutation_app_comm]. rewrite <- app_assoc. reflexivity. Qed.

(* dispatchPlayer *)
Lemma Call_dispatch st ts0 cands all0 rest st' :
  Call st ts0 cands all0 -> dispatch st cands = (Some rest, st') ->
  Call st' ts0 rest all0 /\ (length rest < length cands \/ cands = [])%nat /\
  r_queue (rs_reg st') = r_queue (rs_reg st) /\ r_pc (rs_reg st') = r_pc (rs_reg st) /\
  r_status (rs_reg st') = r_status (rs_reg st) /\ r_max (rs_reg st') = r_max (rs_reg st) /\ r_min (rs_reg st') = r_min (rs_reg st).
Proof.
  intros [A B C D E] Hd. unfold dispatch in Hd.
  destruct (first_in_need (r_tables (rs_reg st))) as [dflt|] eqn:Ef; [|discriminate].
  set (pick := match rs_choices st with
               | [] => (dflt, [], true)
               | c :: cs => match find_table c (r_tables (rs_reg st)) with
                            | Some t => if 0 <? t_required t then (t, cs, rs_bad st) else (dflt, cs, true)
                            | None => (dflt, cs, true) end end) in *.
  assert (Hpick : In (fst (fst pick)) (r_tables (rs_reg st)) /\ 0 < t_required (fst (fst pick))).
  { pose proof (first_in_need_in _ _ Ef) as Hin.
    assert (Hreq : 0 < t_required dflt) by (unfold first_in_need in Ef; apply find_some in Ef as [_ H]; apply Z.ltb_lt; exact H).
    unfold pick. destruct (rs_choices st) as [|c cs]; [simpl; auto|].
    destruct (find_table c (r_tables (rs_reg st))) as [t|] eqn:Et; [|simpl; auto].
    destruct (0 <? t_required t) eqn:Er; simpl; [|auto]. split; [apply (find_table_in _ _ _ Et)|apply Z.ltb_lt; exact Er]. }
  destruct pick as [[t choices'] bad']. cbn [fst] in Hpick. destruct Hpick as [Hin Hreq].
  injection Hd as <- <-.
  set (n := Z.to_nat (t_required t)). set (picked := firstn n cands).
  assert (Hsplit : cands = picked ++ skipn n cands) by (symmetry; apply firstn_skipn).
  constructor; cbn [rs_reg rs_ev set_tables r_tables r_tc r_nextid].
  - constructor; cbn [rs_reg rs_ev set_tables r_tables r_tc r_nextid].
    + rewrite env_of_cons. cbn [apply_event]. apply Tcons_add; [exact A|]. intros u. cbn [t_id t_pc]. split; reflexivity.
    + rewrite B. f_equal. clear. induction (r_tables (rs_reg st)) as [|u r IH]; simpl; [reflexivity|]. destruct (t_id u =? t_id t); simpl; congruence.
    + rewrite env_of_cons. cbn [apply_event].
      assert (Hid : In (t_id t) (map fst (env_of (rs_ev st) ts0))) by (rewrite <- (Tcons_ids _ _ A); apply in_map; exact Hin).
      eapply perm_trans; [apply Permutation_app_head; apply (members_add _ _ _ Hid)|].
      eapply perm_trans; [|exact C]. pattern cands at 2. rewrite Hsplit. apply perm_shuffle.
    + intros u Hu. assert (Hu' : In (t_id u) (map t_id (r_tables (rs_reg st)))).
      { rewrite <- (ids_map_table (t_id t) (fun t0 => mkT (t_id t0) (t_required t0 - zn (length picked)) (t_pc t0 + zn (length picked)))) by reflexivity.
        apply in_map. exact Hu. }
      apply in_map_iff in Hu' as (w & <- & Hw). apply D. exact Hw.
    + rewrite ids_map_table by reflexivity. exact E.
  - split; [|repeat split; reflexivity].
    destruct cands as [|c0 cs]; [right; reflexivity|left]. rewrite skipn_length. simpl length.
    assert (1 <= n)%nat by (unfold n; lia). lia.
Qed.

Lemma dispatch_none st cands st' : dispatch st cands = (None, st') -> st' = st.
Proof.
  unfold dispatch. destruct (first_in_need _); [|intros H; injection H as <-; reflexivity].
  destruct (match rs_choices st with [] => _ | _ :: _ => _ end) as [[t c] b]. discriminate.
Qed.

(* what the callers rely on besides the invariant: the fields a dispatch leaves alone *)
Definition same_head (r r' : reg) : Prop :=
  r_queue r' = r_queue r /\ r_pc r' = r_pc r /\ r_status r' = r_status r /\ r_max r' = r_max r /\ r_min r' = r_min r.

Lemma same_head_refl r : same_head r r. Proof. repeat split. Qed.
Lemma same_head_trans a b c : same_head a b -> same_head b c -> same_head a c.
Proof. intros (A1 & A2 & A3 & A4 & A5) (B1 & B2 & B3 & B4 & B5). repeat split; congruence. Qed.

Lemma Call_dispatch_loop fuel : forall st ts0 cands all0,
  Call st ts0 cands all0 ->
  let r := dispatch_loop fuel st cands in
  Call (snd r) ts0 (fst r) all0 /\ same_head (rs_reg st) (rs_reg (snd r)).
Proof.
  induction fuel as [|f IH]; intros st ts0 cands all0 HC; cbn [dispatch_loop].
  - destruct cands; cbn [fst snd]; (split; [exact HC|apply same_head_refl]).
  - destruct cands as [|c0 cs]; [cbn [fst snd]; split; [exact HC|apply same_head_refl]|].
    destruct (dispatch st (c0 :: cs)) as [[rest|] st'] eqn:Ed.
    + destruct (Call_dispatch _ _ _ _ _ _ HC Ed) as (HC' & _ & Hs).
      destruct (IH st' ts0 rest all0 HC') as [A B]. split; [exact A|]. eapply same_head_trans; [|exact B]. exact Hs.
    + apply dispatch_none in Ed. subst st'. cbn [fst snd]. split; [exact HC|apply same_head_refl].
Qed.

Lemma Tcons_ext rts rts' ts :
  Tcons rts ts -> Forall2 (fun a b => t_id b = t_id a /\ t_pc b = t_pc a) rts rts' -> Tcons rts' ts.
Proof.
  intros H. revert rts'. induction H as [|t m rts ts [H1 H2] Hrest IH]; intros rts' HF; inversion HF; subst; constructor.
  - match goal with E : _ /\ _ |- _ => destruct E as [E1 E2] end. split; congruence.
  - apply IH. assumption.
Qed.

Lemma Forall2_map_same {A} (f : A -> A) (R : A -> A -> Prop) l : (forall a, R a (f a)) -> Forall2 R l (map f l).
Proof. intros H. induction l; simpl; constructor; auto. Qed.

Lemma Call_update_requirements st ts0 cands all0 :
  Call st ts0 cands all0 -> Call (with_reg st (update_requirements (rs_reg st))) ts0 cands all0 /\
  same_head (rs_reg st) (update_requirements (rs_reg st)).
Proof.
  intros [A B C D E]. unfold update_requirements. destruct (_ =? _); [|split; [constructor; assumption|apply same_head_refl]].
  split; [|repeat split].
  constructor; cbn [with_reg rs_reg rs_ev set_tables r_tables r_tc r_nextid].
  - eapply Tcons_ext; [exact A|]. apply Forall2_map_same. intros t. destruct (t_pc t <? _); simpl; auto.
  - rewrite map_length. exact B.
  - exact C.
  - intros t Ht. apply in_map_iff in Ht as (u & <- & Hu). specialize (D u Hu). destruct (t_pc u <? _); exact D.
  - rewrite map_map. erewrite map_ext; [exact E|]. intros t. destruct (t_pc t <? _); reflexivity.
Qed.

(* allocateTables: the players it has in hand are the waiting queue *)
Lemma Call_alloc_loop fuel : forall st ts0 all0 wl rt,
  Call st ts0 (r_queue (rs_reg st)) all0 ->
  let st' := alloc_loop fuel st wl rt in
  Call st' ts0 (r_queue (rs_reg st')) all0 /\
  r_pc (rs_reg st') = r_pc (rs_reg st) /\ r_status (rs_reg st') = r_status (rs_reg st) /\
  r_max (rs_reg st') = r_max (rs_reg st) /\ r_min (rs_reg st') = r_min (rs_reg st).
Proof.
  induction fuel as [|f IH]; intros st ts0 all0 wl rt HC; cbn [alloc_loop]; [(split; [exact HC|repeat split])|].
  destruct ((r_min (rs_reg st) <=? wl) && (r_tc (rs_reg st) <? rt)); [|(split; [exact HC|repeat split])].
  set (r := rs_reg st) in *.
  set (req := if (wl <? zn (length (r_queue r))) && (zn (length (r_queue r)) <? r_max r) then zn (length (r_queue r)) else wl).
  unfold take_queue. set (n := Z.to_nat req).
  destruct (firstn n (r_queue r)) as [|p0 ps] eqn:Ef; [(split; [exact HC|repeat split])|].
  set (players := p0 :: ps) in *. cbn [set_queue r_max r_min r_pc r_tc r_status r_queue r_tables r_nextid].
  match goal with |- context [alloc_loop f ?s ?w rt] => set (st1 := s); set (wl' := w) end.
  assert (HC1 : Call st1 ts0 (r_queue (rs_reg st1)) all0).
  { destruct HC as [A B C D E]. fold r in A, B, C, D, E. unfold st1. constructor; cbn [rs_reg rs_ev r_tables r_tc r_nextid r_queue].
    - rewrite env_of_cons. cbn [apply_event]. apply Forall2_app; [exact A|]. constructor; [|constructor].
      cbn [t_id t_pc fst snd]. split; reflexivity.
    - rewrite B, app_length. cbn [length]. unfold zn. lia.
    - rewrite env_of_cons. cbn [apply_event]. rewrite members_app. unfold members at 2. cbn [map concat snd]. rewrite app_nil_r.
      eapply perm_trans; [|exact C]. pattern (r_queue r) at 2. rewrite <- (firstn_skipn n (r_queue r)), Ef. apply perm_shuffle.
    - intros t Ht. apply in_app_or in Ht as [Ht|[<-|[]]]; [specialize (D t Ht); lia|cbn [t_id]; lia].
    - rewrite map_app. cbn [map t_id]. apply NoDup_app_one; [exact E|]. intros Hin. apply in_map_iff in Hin as (u & Hu1 & Hu2).
      specialize (D u Hu2). lia. }
  destruct (IH st1 ts0 all0 wl' rt HC1) as (A1 & A2 & A3 & A4 & A5).
  split; [exact A1|]. rewrite A2, A3, A4, A5. repeat split.
Qed.

Lemma Call_allocate_tables st ts0 all0 :
  Call st ts0 (r_queue (rs_reg st)) all0 ->
  let st' := allocate_tables st in
  Call st' ts0 (r_queue (rs_reg st')) all0 /\
  r_pc (rs_reg st') = r_pc (rs_reg st) /\ r_status (rs_reg st') = r_status (rs_reg st) /\
  r_max (rs_reg st') = r_max (rs_reg st) /\ r_min (rs_reg st') = r_min (rs_reg st).
Proof.
  intros HC. unfold allocate_tables.
  destruct (r_tc (rs_reg st) =? 0).
  - destruct (r_pc (rs_reg st) <? r_min (rs_reg st)); [(split; [exact HC|repeat split])|].
    destruct (r_min (rs_reg st) <=? _); apply Call_alloc_loop; exact HC.
  - destruct (0 <? r_tc (rs_reg st)); apply Call_alloc_loop; exact HC.
Qed.

Lemma Call_drain st ts0 all0 :
  Call st ts0 (r_queue (rs_reg st)) all0 ->
  let st' := drain st in
  Call st' ts0 (r_queue (rs_reg st')) all0 /\
  r_pc (rs_reg st') = r_pc (rs_reg st) /\ r_status (rs_reg st') = r_status (rs_reg st) /\
  r_max (rs_reg st') = r_max (rs_reg st) /\ r_min (rs_reg st') = r_min (rs_reg st).
Proof.
  intros HC. unfold drain.
  destruct ((r_tc (rs_reg st) =? 0) && _); [apply Call_allocate_tables; exact HC|].
  destruct (0 <? r_tc (rs_reg st)); [|(split; [exact HC|repeat split])].
  destruct (Call_dispatch_loop (S (length (r_queue (rs_reg st)))) st ts0 _ all0 HC) as [C1 S1].
  destruct (dispatch_loop (S (length (r_queue (rs_reg st)))) st (r_queue (rs_reg st))) as [c1 st1]. cbn [fst snd] in *.
  set (st2 := match c1 with [] => st1 | _ :: _ => with_reg st1 (update_requirements (rs_reg st1)) end).
  assert (C2 : Call st2 ts0 c1 all0 /\ same_head (rs_reg st1) (rs_reg st2)).
  { unfold st2. destruct c1; [split; [exact C1|apply same_head_refl]|]. apply Call_update_requirements. exact C1. }
  destruct C2 as [C2 S2].
  destruct (Call_dispatch_loop (S (length c1)) st2 ts0 c1 all0 C2) as [C3 S3].
  destruct (dispatch_loop (S (length c1)) st2 c1) as [c2 st3]. cbn [fst snd] in *.
  set (st4 := with_reg st3 (set_queue (rs_reg st3) c2)).
  assert (C4 : Call st4 ts0 (r_queue (rs_reg st4)) all0).
  { destruct C3 as [A B C D E]. unfold st4. constructor; cbn [with_reg rs_reg rs_ev set_queue r_tables r_tc r_nextid r_queue]; assumption. }
  pose proof (same_head_trans _ _ _ (same_head_trans _ _ _ S1 S2) S3) as (_ & P & St & Mx & Mn).
  assert (H4 : r_pc (rs_reg st4) = r_pc (rs_reg st) /\ r_status (rs_reg st4) = r_status (rs_reg st) /\
               r_max (rs_reg st4) = r_max (rs_reg st) /\ r_min (rs_reg st4) = r_min (rs_reg st)) by (unfold st4; cbn; auto).
  destruct c2; [split; [exact C4|exact H4]|].
  destruct (Call_allocate_tables st4 ts0 all0 C4) as (A1 & A2 & A3 & A4 & A5).
  split; [exact A1|]. destruct H4 as (B2 & B3 & B4 & B5). repeat split; congruence.
Qed.

(* ---------- the whole system between calls ---------- *)
(* transit: players a table has released but not yet handed back to the regulator *)
(* alive: the registered players that have not been eliminated *)
Record Sys (r : reg) (ts : tabs) (transit alive : list Z) : Prop := mkSys {
  sy_tables : Tcons (r_tables r) ts;
  sy_tc : r_tc r = zn (length (r_tables r));
  sy_fresh : forall t, In t (r_tables r) -> t_id t < r_nextid r;
  sy_idnd : NoDup (map t_id (r_tables r));
  sy_places : Permutation (r_queue r ++ members ts ++ transit) alive;
  sy_nodup : NoDup alive;
  sy_pc : r_pc r = zn (length alive) }.

Definition quiet (st : rst) : Prop := rs_ev st = [].

Lemma Call_start st ts :
  quiet st -> Tcons (r_tables (rs_reg st)) ts -> r_tc (rs_reg st) = zn (length (r_tables (rs_reg st))) ->
  (forall t, In t (r_tables (rs_reg st)) -> t_id t < r_nextid (rs_reg st)) -> NoDup (map t_id (r_tables (rs_reg st))) ->
  Call st ts (r_queue (rs_reg st)) (r_queue (rs_reg st) ++ members ts).
Proof. intros Hq A B C D. constructor; rewrite ?Hq; cbn [env_of rev fold_left]; auto. Qed.

(* from the end of a call back to the system invariant *)
Lemma Sys_finish st ts0 all0 transit alive :
  Call st ts0 (r_queue (rs_reg st)) all0 -> Permutation (all0 ++ transit) alive -> NoDup alive ->
  r_pc (rs_reg st) = zn (length alive) ->
  Sys (rs_reg st) (env_of (rs_ev st) ts0) transit alive.
Proof.
  intros [A B C D E] Hp Hnd Hpc.
  assert (P : Permutation (r_queue (rs_reg st) ++ members (env_of (rs_ev st) ts0) ++ transit) (all0 ++ transit))
    by (rewrite app_assoc; apply Permutation_app_tail; exact C).
  constructor; try assumption. eapply perm_trans; [exact P|exact Hp].
Qed.

(* enter_queue: players join the waiting queue (registration, or handed back by a table) *)
Lemma Call_enter_queue st ts players :
  quiet st -> Tcons (r_tables (rs_reg st)) ts -> r_tc (rs_reg st) = zn (length (r_tables (rs_reg st))) ->
  (forall t, In t (r_tables (rs_reg st)) -> t_id t < r_nextid (rs_reg st)) -> NoDup (map t_id (r_tables (rs_reg st))) ->
  let st' := enter_queue st players in
  Call st' ts (r_queue (rs_reg st')) ((r_queue (rs_reg st) ++ players) ++ members ts) /\ r_pc (rs_reg st') = r_pc (rs_reg st).
Proof.
  intros Hq A B C D. unfold enter_queue.
  set (st1 := with_reg st (set_queue (rs_reg st) (r_queue (rs_reg st) ++ players))).
  assert (H1 : Call st1 ts (r_queue (rs_reg st1)) ((r_queue (rs_reg st) ++ players) ++ members ts)).
  { apply (Call_start st1 ts); unfold st1; cbn [with_reg rs_reg rs_ev set_queue r_tables r_tc r_nextid]; assumption. }
  destruct (r_status (rs_reg st) =? 0); [split; [exact H1|reflexivity]|].
  destruct (Call_drain st1 _ _ H1) as (H2 & P & _). split; [exact H2|]. rewrite P. reflexivity.
Qed.

(* newcomers that are not yet anywhere keep the places distinct *)
Lemma NoDup_perm_players (q players m t : list Z) :
  NoDup (q ++ m ++ t) -> NoDup players -> (forall p, In p players -> ~ In p (q ++ m ++ t)) ->
  NoDup (q ++ players ++ m ++ t).
Proof.
  intros H Hp Hf. apply (Permutation_NoDup (l := players ++ q ++ m ++ t)).
  - rewrite !app_assoc. apply Permutation_app_tail. apply Permutation_app_tail. apply Permutation_app_comm.
  - induction players as [|p ps IH]; simpl; [exact H|]. inversion Hp; subst. constructor.
    + intros Hin. apply in_app_or in Hin as [Hin|Hin]; [contradiction|]. apply (Hf p (or_introl eq_refl)). exact Hin.
    + apply IH; [assumption|]. intros x Hx. apply Hf. now right.
Qed.

Lemma Permutation_app_comm_3 (p m t : list Z) : Permutation ((p ++ m) ++ t) ((m ++ t) ++ p).
Proof. rewrite <- app_assoc. apply Permutation_app_comm. Qed.

Lemma NoDup_app_disjoint (a b : list Z) : NoDup a -> NoDup b -> (forall x, In x b -> ~ In x a) -> NoDup (a ++ b).
Proof.
  intros Ha Hb Hd. induction a as [|x a IH]; simpl; [exact Hb|]. inversion Ha; subst. constructor.
  - intros Hin. apply in_app_or in Hin as [Hin|Hin]; [contradiction|]. apply (Hd x Hin). now left.
  - apply IH; [assumption|]. intros y Hy Hin. apply (Hd y Hy). now right.
Qed.

(* registration *)
Theorem Sys_add_players st ts transit alive players :
  quiet st -> Sys (rs_reg st) ts transit alive ->
  NoDup players -> (forall p, In p players -> ~ In p alive) ->
  let st' := fst (add_players st players) in
  match snd (add_players st players) with
  | ROk => Sys (rs_reg st') (env_of (rs_ev st') ts) transit (alive ++ players)
  | _ => st' = st
  end.
Proof.
  intros Hq [A B C D E N F] Hnd Hfresh. unfold add_players.
  destruct (r_status (rs_reg st) =? 2); [reflexivity|]. cbn [fst snd].
  set (r1 := update_requirements (set_pc (rs_reg st) (r_pc (rs_reg st) + zn (length players)))).
  assert (U : Call (with_reg st r1) ts (r_queue (rs_reg st)) (r_queue (rs_reg st) ++ members ts) /\ same_head (set_pc (rs_reg st) (r_pc (rs_reg st) + zn (length players))) r1).
  { apply (Call_update_requirements (with_reg st (set_pc (rs_reg st) (r_pc (rs_reg st) + zn (length players)))) ts).
    apply (Call_start (with_reg st (set_pc (rs_reg st) (r_pc (rs_reg st) + zn (length players)))) ts); cbn; assumption. }
  destruct U as [[A1 B1 _ D1 E1] (Q1 & P1 & _)]. cbn [with_reg rs_reg rs_ev] in *. rewrite Hq in A1. cbn [env_of rev fold_left] in A1.
  destruct (Call_enter_queue (with_reg st r1) ts players Hq A1 B1 D1 E1) as [HC Hpc]. cbn [with_reg rs_reg] in HC, Hpc.
  rewrite Q1 in HC. cbn [set_pc r_queue] in HC.
  apply (Sys_finish _ ts _ transit (alive ++ players) HC).
  - eapply perm_trans; [|apply Permutation_app_tail; exact E]. rewrite <- !app_assoc. apply Permutation_app_head.
    rewrite !app_assoc. apply Permutation_app_comm_3.
  - apply NoDup_app_disjoint; assumption.
  - rewrite Hpc, P1. cbn [set_pc r_pc]. rewrite F, app_length. unfold zn. lia.
Qed.

(* SetStatus *)
Theorem Sys_set_status st ts transit alive s :
  quiet st -> Sys (rs_reg st) ts transit alive ->
  let st' := do_set_status st s in Sys (rs_reg st') (env_of (rs_ev st') ts) transit alive.
Proof.
  intros Hq HS. pose proof HS as [A B C D E N F]. unfold do_set_status.
  destruct (r_status (rs_reg st) =? s); [rewrite Hq; exact HS|].
  set (st1 := with_reg st (set_status (rs_reg st) s)).
  assert (H1 : Call st1 ts (r_queue (rs_reg st1)) (r_queue (rs_reg st) ++ members ts))
    by (apply (Call_start st1 ts); unfold st1; cbn; assumption).
  destruct ((r_status (rs_reg st) =? 0) && (s =? 1)).
  - destruct (Call_drain st1 _ _ H1) as (H2 & P & _).
    apply (Sys_finish _ ts _ transit alive H2); [rewrite <- app_assoc; exact E|exact N|rewrite P; exact F].
  - apply (Sys_finish _ ts _ transit alive H1); [rewrite <- app_assoc; exact E|exact N|exact F].
Qed.

(* ReleasePlayers: a table hands back players it had released *)
Theorem Sys_release st ts batch rest alive :
  quiet st -> Sys (rs_reg st) ts (batch ++ rest) alive ->
  let st' := release_players st batch in Sys (rs_reg st') (env_of (rs_ev st') ts) rest alive.
Proof.
  intros Hq [A B C D E N F]. unfold release_players.
  destruct (Call_enter_queue st ts batch Hq A B C D) as [HC Hpc].
  apply (Sys_finish _ ts _ rest alive HC); [|exact N|rewrite Hpc; exact F].
  eapply perm_trans; [|exact E]. rewrite <- !app_assoc. apply Permutation_app_head.
  rewrite !app_assoc. apply Permutation_app_tail. apply Permutation_app_comm.
Qed.

(* ---------- SyncState ---------- *)

Lemma Tcons_lookup rts ts id m : Tcons rts ts -> lookup id ts = Some m ->
  exists t, find_table id rts = Some t /\ t_pc t = zn (length m).
Proof.
  intros H. induction H as [|t [i mm] rts ts [H1 H2] Hrest IH]; simpl; [discriminate|]. simpl in H1, H2. rewrite H1.
  destruct (i =? id); [intros E; injection E as <-; exists t; auto|exact IH].
Qed.

Lemma Tcons_set rts ts id m m' d (g : rtable -> rtable) :
  Tcons rts ts -> lookup id ts = Some m ->
  (forall t, t_id (g t) = t_id t /\ t_pc (g t) = t_pc t + d) -> zn (length m') = zn (length m) + d ->
  Tcons (map_table id g rts) (set_members id m' ts).
Proof.
  intros H. induction H as [|t [i mm] rts ts [H1 H2] Hrest IH]; simpl; [discriminate|]. simpl in H1, H2. rewrite H1.
  destruct (i =? id); intros E Hg Hl.
  - injection E as <-. constructor; [|exact Hrest]. destruct (Hg t) as [G1 G2]. simpl. split; [congruence|]. rewrite G2, H2. lia.
  - constructor; [simpl; auto|]. apply IH; assumption.
Qed.

Lemma members_set_sub id e k ts : lookup id ts = Some (e ++ k) ->
  Permutation (members ts) (e ++ members (set_members id k ts)).
Proof.
  unfold members. induction ts as [|[i m] rest IH]; simpl; [discriminate|].
  destruct (i =? id); simpl.
  - intros E. injection E as ->. rewrite <- app_assoc. reflexivity.
  - intros E. eapply perm_trans; [apply Permutation_app_head; apply (IH E)|].
    rewrite !app_assoc. apply Permutation_app_tail. apply Permutation_app_comm.
Qed.

Lemma members_set_grow id m h ts : lookup id ts = Some m ->
  Permutation (members (set_members id (m ++ h) ts)) (members ts ++ h).
Proof.
  unfold members. induction ts as [|[i mm] rest IH]; simpl; [discriminate|].
  destruct (i =? id); simpl.
  - intros E. injection E as ->. rewrite <- !app_assoc. apply Permutation_app_head. apply Permutation_app_comm.
  - intros E. rewrite <- app_assoc. apply Permutation_app_head. apply IH. exact E.
Qed.

Lemma lookup_set id m' ts m : lookup id ts = Some m -> lookup id (set_members id m' ts) = Some m'.
Proof.
  induction ts as [|[i mm] rest IH]; simpl; [discriminate|]. destruct (i =? id) eqn:E; simpl; rewrite E; [reflexivity|exact IH].
Qed.

Lemma set_set id a b ts : set_members id a (set_members id b ts) = set_members id a ts.
Proof. induction ts as [|[i mm] rest IH]; simpl; [reflexivity|]. destruct (i =? id) eqn:E; simpl; rewrite E; [reflexivity|now rewrite IH]. Qed.

Lemma ids_set id m' ts : map fst (set_members id m' ts) = map fst ts.
Proof. induction ts as [|[i mm] rest IH]; simpl; [reflexivity|]. destruct (i =? id); simpl; [reflexivity|now rewrite IH]. Qed.

Lemma remove_set id m' ts : remove_table id (set_members id m' ts) = remove_table id ts.
Proof.
  unfold remove_table. induction ts as [|[i mm] rest IH]; simpl; [reflexivity|].
  destruct (i =? id) eqn:E; simpl; rewrite E; simpl; [reflexivity|now rewrite IH].
Qed.

Lemma Tcons_remove rts ts id : Tcons rts ts ->
  Tcons (filter (fun t => negb (t_id t =? id)) rts) (remove_table id ts).
Proof.
  unfold remove_table. induction 1 as [|t [i m] rts ts [H1 H2] Hrest IH]; simpl; [constructor|]. simpl in H1. rewrite H1.
  destruct (i =? id); simpl; [exact IH|]. constructor; [simpl; auto|exact IH].
Qed.

Lemma lookup_notin id ts : ~ In id (map fst ts) -> remove_table id ts = ts.
Proof.
  unfold remove_table. induction ts as [|[i m] rest IH]; simpl; [reflexivity|]. intros H.
  destruct (i =? id) eqn:E; [apply Z.eqb_eq in E; subst; exfalso; apply H; now left|]. simpl. rewrite IH; [reflexivity|]. intros Hin. apply H. now right.
Qed.

Lemma members_remove id ts m : NoDup (map fst ts) -> lookup id ts = Some m ->
  Permutation (members ts) (m ++ members (remove_table id ts)).
Proof.
  unfold members. induction ts as [|[i mm] rest IH]; simpl; [discriminate|]. intros Hnd. inversion Hnd as [|? ? Hn Hnd']; subst.
  destruct (i =? id) eqn:E; simpl.
  - apply Z.eqb_eq in E. subst i. intros H. injection H as ->. fold (remove_table id rest). rewrite (lookup_notin id rest Hn). reflexivity.
  - intros H. eapply perm_trans; [apply Permutation_app_head; apply (IH Hnd' H)|].
    rewrite !app_assoc. apply Permutation_app_tail. apply Permutation_app_comm.
Qed.

Lemma filter_one_less rts id t : NoDup (map t_id rts) -> find_table id rts = Some t ->
  S (length (filter (fun u => negb (t_id u =? id)) rts)) = length rts.
Proof.
  induction rts as [|u rest IH]; simpl; [discriminate|]. intros Hnd. inversion Hnd as [|? ? Hn Hnd']; subst.
  destruct (t_id u =? id) eqn:E; simpl.
  - intros _. apply Z.eqb_eq in E. f_equal.
    assert (G : forall l, ~ In id (map t_id l) -> filter (fun u0 => negb (t_id u0 =? id)) l = l).
    { induction l as [|w l IHl]; simpl; [reflexivity|]. intros H. destruct (t_id w =? id) eqn:Ew; [apply Z.eqb_eq in Ew; exfalso; apply H; now left|].
      simpl. rewrite IHl; [reflexivity|]. intros Hin. apply H. now right. }
    rewrite G; [reflexivity|]. rewrite <- E. exact Hn.
  - intros H. rewrite (IH Hnd' H). reflexivity.
Qed.

Lemma skipn_skipn_my {A} (a b : nat) (l : list A) : skipn a (skipn b l) = skipn (b + a) l.
Proof. revert l; induction b as [|b IH]; intros l; simpl; [reflexivity|]. destruct l; [destruct a; reflexivity|apply IH]. Qed.

(* the release loop only lowers the player count of the table that is asked to release *)
Lemma release_loop_spec id F n : forall r picked ts mm,
  Tcons (r_tables r) ts -> lookup id ts = Some mm -> (n <= length mm)%nat ->
  let res := release_loop n r id F picked in
  let k := Z.to_nat (fst res - picked) in
  picked <= fst res <= picked + zn n /\
  Tcons (r_tables (snd res)) (set_members id (skipn k mm) ts) /\
  r_queue (snd res) = r_queue r /\ r_pc (snd res) = r_pc r /\ r_tc (snd res) = r_tc r /\ r_nextid (snd res) = r_nextid r /\
  map t_id (r_tables (snd res)) = map t_id (r_tables r).
Proof.
  induction n as [|n IH]; intros r picked ts mm HT Hl Hn; cbn [release_loop].
  - cbn [fst snd]. replace (picked - picked) with 0 by lia. cbn [Z.to_nat skipn]. unfold zn. simpl Z.of_nat.
    split; [lia|]. split; [|repeat split].
    replace (set_members id mm ts) with ts; [exact HT|]. clear -Hl. revert Hl. induction ts as [|[i m] rest IH]; simpl; [discriminate|].
    destruct (i =? id); [intros E; injection E as ->; reflexivity|intros E; now rewrite <- IH].
  - destruct (lower_level_ge r F).
    + cbn [fst snd]. replace (picked - picked) with 0 by lia. cbn [Z.to_nat skipn]. split; [unfold zn; lia|]. split; [|repeat split].
      replace (set_members id mm ts) with ts; [exact HT|]. clear -Hl. revert Hl. induction ts as [|[i m] rest IH]; simpl; [discriminate|].
      destruct (i =? id); [intros E; injection E as ->; reflexivity|intros E; now rewrite <- IH].
    + set (r2 := set_tables r (map_table id (fun t => mkT (t_id t) (t_required t) (t_pc t - 1)) (r_tables r))).
      destruct mm as [|x mm']; [simpl in Hn; lia|].
      assert (HT2 : Tcons (r_tables r2) (set_members id mm' ts)).
      { unfold r2. cbn [set_tables r_tables]. apply (Tcons_set _ _ id (x :: mm') mm' (-1)); [exact HT|exact Hl|intros t; simpl; split; [reflexivity|lia]|].
        cbn [length]. unfold zn. lia. }
      destruct (IH r2 (picked + 1) (set_members id mm' ts) mm' HT2 (lookup_set _ _ _ _ Hl) ltac:(simpl in Hn; lia)) as (A & B & C1 & C2 & C3 & C4 & C5).
      set (res := release_loop n r2 id F (picked + 1)) in *.
      split; [unfold zn in *; rewrite Nat2Z.inj_succ; lia|]. split; [|unfold r2 in *; cbn [set_tables r_queue r_pc r_tc r_nextid r_tables] in *; repeat split; try assumption].
      * rewrite set_set in B. replace (Z.to_nat (fst res - picked)) with (S (Z.to_nat (fst res - (picked + 1)))) by lia. exact B.
      * rewrite C5. apply ids_map_table. reflexivity.
Qed.

Lemma find_table_iff id rts : find_table id rts <> None <-> In id (map t_id rts).
Proof.
  induction rts as [|t rest IH]; simpl; [split; [intros H; contradiction|intros []]|].
  destruct (t_id t =? id) eqn:E.
  - apply Z.eqb_eq in E. split; [intros _; now left|intros _; discriminate].
  - apply Z.eqb_neq in E. rewrite IH. split; [intros H; now right|intros [H|H]; [contradiction|exact H]].
Qed.

Lemma NoDup_map_filter {A B} (f : A -> B) (p : A -> bool) l : NoDup (map f l) -> NoDup (map f (filter p l)).
Proof.
  induction l as [|a l IH]; simpl; [auto|]. intros H. inversion H as [|? ? Hn H']; subst.
  destruct (p a); simpl; [|apply IH; exact H']. constructor; [|apply IH; exact H'].
  intros Hin. apply Hn. apply in_map_iff in Hin as (y & Hy1 & Hy2). apply filter_In in Hy2 as [Hy2 _]. apply in_map_iff. exists y. auto.
Qed.

Lemma NoDup_drop_prefix {A} (a b : list A) : NoDup (a ++ b) -> NoDup b.
Proof. induction a as [|x a IH]; simpl; [auto|]. intros H. inversion H; subst. apply IH. assumption. Qed.

(* players are eliminated at a table and the table reports it *)
Lemma Sys_eliminate r ts transit alive alive' id m out :
  Sys r ts transit alive -> lookup id ts = Some m -> (out <= length m)%nat ->
  Permutation alive (firstn out m ++ alive') ->
  Sys (set_tables (set_pc r (r_pc r - zn out)) (map_table id (fun t => mkT (t_id t) (t_required t) (t_pc t - zn out)) (r_tables r)))
      (set_members id (skipn out m) ts) transit alive'.
Proof.
  intros [A B C D E N F] Hl Ho Hal.
  assert (Hm : m = firstn out m ++ skipn out m) by (symmetry; apply firstn_skipn).
  assert (Hlen : length (skipn out m) = (length m - out)%nat) by apply skipn_length.
  assert (P : Permutation (members ts) (firstn out m ++ members (set_members id (skipn out m) ts)))
    by (apply members_set_sub; rewrite <- Hm; exact Hl).
  assert (P2 : Permutation (r_queue r ++ members ts ++ transit)
                           (firstn out m ++ (r_queue r ++ members (set_members id (skipn out m) ts) ++ transit))).
  { eapply perm_trans; [apply Permutation_app_head; apply Permutation_app_tail; exact P|].
    rewrite <- !app_assoc. rewrite !app_assoc. apply Permutation_app_tail. apply Permutation_app_tail. apply Permutation_app_comm. }
  constructor; cbn [set_tables set_pc r_tables r_tc r_nextid r_queue r_pc].
  - apply (Tcons_set _ _ id m _ (- zn out)); [exact A|exact Hl|intros t; simpl; split; [reflexivity|lia]|]. rewrite Hlen. unfold zn. lia.
  - rewrite B. f_equal. clear. induction (r_tables r) as [|u l IH]; simpl; [reflexivity|]. destruct (t_id u =? id); simpl; congruence.
  - intros t Ht. assert (Hin : In (t_id t) (map t_id (r_tables r))).
    { rewrite <- (ids_map_table id (fun t0 => mkT (t_id t0) (t_required t0) (t_pc t0 - zn out))) by reflexivity. apply in_map. exact Ht. }
    apply in_map_iff in Hin as (u & <- & Hu). apply C. exact Hu.
  - rewrite ids_map_table by reflexivity. exact D.
  - apply (Permutation_app_inv_l (firstn out m)). eapply perm_trans; [apply Permutation_sym; exact P2|]. eapply perm_trans; [exact E|exact Hal].
  - apply (Permutation_NoDup Hal) in N. apply NoDup_drop_prefix in N. exact N.
  - rewrite F, (Permutation_length Hal), app_length, firstn_length_le by exact Ho. unfold zn. lia.
Qed.

(* a table is told to break: it disappears and all its players are in transit *)
Lemma Sys_break r ts transit alive id kept :
  Sys r ts transit alive -> lookup id ts = Some kept ->
  Sys (break_table r id) (remove_table id ts) (transit ++ kept) alive /\ find_table id (r_tables (break_table r id)) = None.
Proof.
  intros [A B C D E N F] Hl. split; [|apply find_break_table].
  destruct (Tcons_lookup _ _ _ _ A Hl) as (t0 & Hf & _).
  assert (Hnd : NoDup (map fst ts)) by (rewrite <- (Tcons_ids _ _ A); exact D).
  pose proof (members_remove id ts kept Hnd Hl) as P.
  assert (P2 : Permutation (r_queue r ++ members ts ++ transit) (r_queue r ++ members (remove_table id ts) ++ transit ++ kept)).
  { apply Permutation_app_head. eapply perm_trans; [apply Permutation_app_tail; exact P|].
    rewrite <- app_assoc. eapply perm_trans; [apply Permutation_app_comm|]. rewrite <- !app_assoc. reflexivity. }
  constructor; cbn [break_table r_tables r_tc r_nextid r_queue r_pc].
  - apply Tcons_remove. exact A.
  - rewrite B. pose proof (filter_one_less _ _ _ D Hf) as H. unfold zn. lia.
  - intros t Ht. apply filter_In in Ht as [Ht _]. apply C. exact Ht.
  - apply NoDup_map_filter. exact D.
  - eapply perm_trans; [apply Permutation_sym; exact P2|exact E].
  - exact N.
  - exact F.
Qed.

(* a table is topped up from the waiting queue *)
Lemma Sys_topup r ts transit alive id mm count (h : rtable -> Z) :
  Sys r ts transit alive -> lookup id ts = Some mm ->
  let players := fst (take_queue r count) in
  let r2 := snd (take_queue r count) in
  Sys (set_tables r2 (map_table id (fun t => mkT (t_id t) (h t) (t_pc t + zn (length players))) (r_tables r2)))
      (set_members id (mm ++ players) ts) transit alive.
Proof.
  intros [A B C D E N F] Hl. unfold take_queue. cbn [fst snd set_queue r_tables r_queue].
  set (n := Z.to_nat count). set (players := firstn n (r_queue r)).
  pose proof (members_set_grow id mm players ts Hl) as P.
  assert (P2 : Permutation (r_queue r ++ members ts ++ transit) (skipn n (r_queue r) ++ members (set_members id (mm ++ players) ts) ++ transit)).
  { rewrite <- (firstn_skipn n (r_queue r)) at 1. fold players.
    eapply perm_trans; [|apply Permutation_app_head; apply Permutation_app_tail; apply Permutation_sym; exact P].
    rewrite <- !app_assoc. eapply perm_trans; [apply Permutation_app_comm|]. rewrite <- !app_assoc. apply Permutation_app_head.
    apply Permutation_app_head. apply Permutation_app_comm. }
  constructor; cbn [set_tables set_queue r_tables r_tc r_nextid r_queue r_pc].
  - apply (Tcons_set _ _ id mm _ (zn (length players))); [exact A|exact Hl|intros t; simpl; split; reflexivity|].
    rewrite app_length. unfold zn. lia.
  - rewrite B. f_equal. clear. induction (r_tables r) as [|u l IH]; simpl; [reflexivity|]. destruct (t_id u =? id); simpl; congruence.
  - intros t Ht. assert (Hin : In (t_id t) (map t_id (r_tables r))).
    { rewrite <- (ids_map_table id (fun t0 => mkT (t_id t0) (h t0) (t_pc t0 + zn (length players)))) by reflexivity. apply in_map. exact Ht. }
    apply in_map_iff in Hin as (u & <- & Hu). apply C. exact Hu.
  - rewrite ids_map_table by reflexivity. exact D.
  - eapply perm_trans; [apply Permutation_sym; exact P2|exact E].
  - exact N.
  - exact F.
Qed.

(* a table is asked to release players *)
Lemma Sys_release_loop r ts transit alive id F mm n :
  Sys r ts transit alive -> lookup id ts = Some mm -> (n <= length mm)%nat ->
  let res := release_loop n r id F 0 in
  let k := Z.to_nat (fst res) in
  0 <= fst res <= zn (length mm) /\
  Sys (snd res) (set_members id (skipn k mm) ts) (transit ++ firstn k mm) alive /\
  map t_id (r_tables (snd res)) = map t_id (r_tables r).
Proof.
  intros [A B C D E Nd G] Hl Hn.
  destruct (release_loop_spec id F n r 0 ts mm A Hl Hn) as (R1 & R2 & Q & P & T & N & I).
  set (res := release_loop n r id F 0) in *. replace (fst res - 0) with (fst res) in * by lia.
  set (k := Z.to_nat (fst res)) in *.
  assert (Hk : (k <= length mm)%nat) by (unfold k, zn in *; lia).
  assert (Hm : mm = firstn k mm ++ skipn k mm) by (symmetry; apply firstn_skipn).
  assert (P1 : Permutation (members ts) (firstn k mm ++ members (set_members id (skipn k mm) ts)))
    by (apply members_set_sub; rewrite <- Hm; exact Hl).
  assert (P2 : Permutation (r_queue r ++ members ts ++ transit)
                           (r_queue r ++ members (set_members id (skipn k mm) ts) ++ transit ++ firstn k mm)).
  { apply Permutation_app_head. eapply perm_trans; [apply Permutation_app_tail; exact P1|].
    rewrite <- app_assoc. eapply perm_trans; [apply Permutation_app_comm|]. rewrite <- !app_assoc. reflexivity. }
  split; [unfold zn in *; lia|]. split; [|exact I].
  constructor.
  - exact R2.
  - rewrite T, B. f_equal. rewrite <- (map_length t_id (r_tables (snd res))), I, map_length. reflexivity.
  - intros t Ht. rewrite N. assert (Hin : In (t_id t) (map t_id (r_tables r))) by (rewrite <- I; apply in_map; exact Ht).
    apply in_map_iff in Hin as (u & <- & Hu). apply C. exact Hu.
  - rewrite I. exact D.
  - rewrite Q. eapply perm_trans; [apply Permutation_sym; exact P2|exact E].
  - exact Nd.
  - rewrite P. exact G.
Qed.

Lemma required_tables_nonneg r : 0 < r_max r -> 0 <= r_pc r -> 0 <= required_tables r.
Proof. intros Hm Hp. unfold required_tables. apply Z.div_pos; lia. Qed.

(* SyncState on a known table whose first `out` players have been eliminated; the table then follows the
   answer: it takes in the players handed to it, puts the players it must release in transit, and, when
   told to break, puts everybody in transit and disappears *)
Theorem Sys_sync st ts transit alive alive' id out m :
  quiet st -> Sys (rs_reg st) ts transit alive -> 0 < r_max (rs_reg st) ->
  lookup id ts = Some m -> (out <= length m)%nat -> Permutation alive (firstn out m ++ alive') ->
  let kept := skipn out m in
  let res := sync_state st id (zn out) in
  let st1 := fst (fst (fst res)) in
  let rel := snd (fst (fst res)) in
  let handed := snd (fst res) in
  snd res = ROk /\ quiet st1 /\
  match find_table id (r_tables (rs_reg st1)) with
  | Some _ =>
      let m1 := kept ++ handed in
      0 <= rel <= zn (length m1) /\
      Sys (rs_reg st1) (set_members id (skipn (Z.to_nat rel) m1) ts) (transit ++ firstn (Z.to_nat rel) m1) alive'
  | None => rel = zn (length kept) /\ handed = [] /\ Sys (rs_reg st1) (remove_table id ts) (transit ++ kept) alive'
  end.
Proof.
  intros Hq HS Hmax Hl Ho Hal kept res st1 rel handed.
  destruct (Tcons_lookup _ _ _ _ (sy_tables _ _ _ _ HS) Hl) as (t0 & Hf & Ht0).
  pose proof (Sys_eliminate _ _ _ _ alive' id m out HS Hl Ho Hal) as S1.
  set (r := rs_reg st) in *.
  set (r1 := set_tables (set_pc r (r_pc r - zn out)) (map_table id (fun t => mkT (t_id t) (t_required t) (t_pc t - zn out)) (r_tables r))) in *.
  set (ts1 := set_members id kept ts) in *.
  assert (Hl1 : lookup id ts1 = Some kept) by (apply (lookup_set _ _ _ _ Hl)).
  assert (Hkept : zn (length kept) = t_pc t0 - zn out) by (unfold kept; rewrite skipn_length, Ht0; unfold zn; lia).
  assert (Hpresent1 : In id (map t_id (r_tables r1))).
  { unfold r1. cbn [set_tables r_tables]. rewrite ids_map_table by reflexivity. apply find_table_iff. rewrite Hf. discriminate. }
  assert (Hpc1 : 0 <= r_pc r1) by (rewrite (sy_pc _ _ _ _ S1); unfold zn; lia).
  assert (Hmax1 : r_max r1 = r_max r) by reflexivity.
  pose proof (required_tables_nonneg r1 ltac:(rewrite Hmax1; exact Hmax) Hpc1) as Hrt.
  (* the two answers that leave the table in place without moving anybody *)
  assert (Plain : forall st', rs_reg st' = r1 -> rs_ev st' = [] ->
            match find_table id (r_tables (rs_reg st')) with
            | Some _ => 0 <= 0 <= zn (length (kept ++ [])) /\
                        Sys (rs_reg st') (set_members id (skipn (Z.to_nat 0) (kept ++ [])) ts) (transit ++ firstn (Z.to_nat 0) (kept ++ [])) alive'
            | None => 0 = zn (length kept) /\ @nil Z = [] /\ Sys (rs_reg st') (remove_table id ts) (transit ++ kept) alive'
            end).
  { intros st' E _. rewrite E. destruct (find_table id (r_tables r1)) eqn:Ef1; [|exfalso; apply find_table_iff in Hpresent1; contradiction].
    cbn [Z.to_nat skipn firstn]. rewrite !app_nil_r. split; [unfold zn; lia|exact S1]. }
  (* break *)
  assert (Break : forall st', rs_reg st' = break_table r1 id ->
            match find_table id (r_tables (rs_reg st')) with
            | Some _ => 0 <= t_pc t0 - zn out <= zn (length (kept ++ [])) /\
                        Sys (rs_reg st') (set_members id (skipn (Z.to_nat (t_pc t0 - zn out)) (kept ++ [])) ts) (transit ++ firstn (Z.to_nat (t_pc t0 - zn out)) (kept ++ [])) alive'
            | None => t_pc t0 - zn out = zn (length kept) /\ @nil Z = [] /\ Sys (rs_reg st') (remove_table id ts) (transit ++ kept) alive'
            end).
  { intros st' E. rewrite E. destruct (Sys_break r1 ts1 transit alive' id kept S1 Hl1) as [SB FB]. rewrite FB.
    split; [symmetry; exact Hkept|]. split; [reflexivity|]. unfold ts1 in SB. rewrite remove_set in SB. exact SB. }
  subst st1 rel handed res. unfold sync_state. fold r. rewrite Hf. fold r1.
  destruct ((r_status r1 =? 2) && (r_pc r1 <=? r_max r1) && (required_tables r1 <? r_tc r1)).
  { cbn [fst snd]. split; [reflexivity|]. split; [exact Hq|]. apply Break. reflexivity. }
  destruct (required_tables r1 =? 0) eqn:Ert.
  { cbn [fst snd]. split; [reflexivity|]. split; [exact Hq|]. apply (Plain (with_reg st r1)); [reflexivity|exact Hq]. }
  apply Z.eqb_neq in Ert.
  destruct ((t_pc t0 - zn out) * required_tables r1 <? r_pc r1).
  { destruct ((2 <=? low_water_count r1) && (required_tables r1 <? r_tc r1)).
    { cbn [fst snd]. split; [reflexivity|]. split; [exact Hq|]. apply Break. reflexivity. }
    set (count := r_pc r1 / required_tables r1 - (t_pc t0 - zn out)).
    pose proof (Sys_topup r1 ts1 transit alive' id kept count
                  (fun t => if 0 <? count - zn (length (fst (take_queue r1 count))) then count - zn (length (fst (take_queue r1 count))) else t_required t) S1 Hl1) as ST.
    cbv zeta in ST. destruct (take_queue r1 count) as [players r2] eqn:Etq. cbn [fst snd] in *.
    split; [reflexivity|]. split; [exact Hq|].
    match goal with |- match find_table id (r_tables ?rr) with _ => _ end => set (r3 := rr) in * end.
    assert (Hp3 : find_table id (r_tables r3) <> None).
    { apply find_table_iff. unfold r3. cbn [with_reg rs_reg set_tables r_tables]. rewrite ids_map_table by reflexivity.
      unfold take_queue in Etq. injection Etq as _ <-. exact Hpresent1. }
    destruct (find_table id (r_tables r3)); [|contradiction].
    cbn [Z.to_nat skipn firstn]. rewrite app_nil_r. split; [unfold zn; lia|].
    unfold ts1 in ST. rewrite set_set in ST. exact ST. }
  destruct (r_pc r1 <? (t_pc t0 - zn out) * required_tables r1).
  { set (F := r_pc r1 / required_tables r1).
    assert (HF : 0 <= F) by (apply Z.div_pos; lia).
    assert (Hn : (Z.to_nat (t_pc t0 - zn out - F) <= length kept)%nat) by (unfold zn in *; lia).
    destruct (Sys_release_loop r1 ts1 transit alive' id F kept _ S1 Hl1 Hn) as (R1 & SR & I).
    destruct (release_loop (Z.to_nat (t_pc t0 - zn out - F)) r1 id F 0) as [picked r2]. cbn [fst snd] in *.
    split; [reflexivity|]. split; [exact Hq|]. cbn [with_reg rs_reg].
    assert (Hp2 : find_table id (r_tables r2) <> None) by (apply find_table_iff; rewrite I; exact Hpresent1).
    destruct (find_table id (r_tables r2)); [|contradiction].
    cbv zeta. rewrite !app_nil_r. split; [exact R1|]. unfold ts1 in SR. rewrite set_set in SR. exact SR. }
  cbn [fst snd]. split; [reflexivity|]. split; [exact Hq|]. apply (Plain (with_reg st r1)); [reflexivity|exact Hq].
Qed.

(* ---------- the configured maximum never changes ---------- *)
Lemma max_alloc_loop fuel : forall s wl rt, r_max (rs_reg (alloc_loop fuel s wl rt)) = r_max (rs_reg s).
Proof.
  induction fuel as [|f IH]; intros s wl rt; cbn [alloc_loop]; [reflexivity|].
  destruct (_ && _); [|reflexivity]. unfold take_queue. destruct (firstn _ _); [reflexivity|]. rewrite IH. reflexivity.
Qed.

Lemma max_allocate s : r_max (rs_reg (allocate_tables s)) = r_max (rs_reg s).
Proof.
  unfold allocate_tables. destruct (r_tc (rs_reg s) =? 0);
    [destruct (_ <? _); [reflexivity|destruct (_ <=? _); apply max_alloc_loop]|destruct (0 <? _); apply max_alloc_loop].
Qed.

Lemma max_dispatch_loop fuel : forall s c, r_max (rs_reg (snd (dispatch_loop fuel s c))) = r_max (rs_reg s).
Proof.
  induction fuel as [|f IH]; intros s c; cbn [dispatch_loop]; [destruct c; reflexivity|]. destruct c as [|c0 cs]; [reflexivity|].
  destruct (dispatch s (c0 :: cs)) as [[rest|] s'] eqn:Ed; cbn [snd].
  - rewrite IH. unfold dispatch in Ed. destruct (first_in_need _); [|discriminate].
    destruct (match rs_choices s with [] => _ | _ :: _ => _ end) as [[t ch] b]. injection Ed as _ <-. reflexivity.
  - apply dispatch_none in Ed. now subst.
Qed.

Lemma max_drain st : r_max (rs_reg (drain st)) = r_max (rs_reg st).
Proof.
  unfold drain. destruct ((r_tc (rs_reg st) =? 0) && _); [apply max_allocate|].
  destruct (0 <? r_tc (rs_reg st)); [|reflexivity].
  pose proof (max_dispatch_loop (S (length (r_queue (rs_reg st)))) st (r_queue (rs_reg st))) as H1.
  destruct (dispatch_loop (S (length (r_queue (rs_reg st)))) st (r_queue (rs_reg st))) as [c1 s1]. cbn [snd] in H1.
  set (s2 := match c1 with [] => s1 | _ :: _ => with_reg s1 (update_requirements (rs_reg s1)) end).
  assert (H2 : r_max (rs_reg s2) = r_max (rs_reg s1)).
  { unfold s2. destruct c1; [reflexivity|]. cbn [with_reg rs_reg]. unfold update_requirements. destruct (_ =? _); reflexivity. }
  pose proof (max_dispatch_loop (S (length c1)) s2 c1) as H3.
  destruct (dispatch_loop (S (length c1)) s2 c1) as [c2 s3]. cbn [snd] in H3.
  destruct c2; [cbn; congruence|]. rewrite max_allocate. cbn. congruence.
Qed.

Lemma max_enter_queue st players : r_max (rs_reg (enter_queue st players)) = r_max (rs_reg st).
Proof. unfold enter_queue. destruct (r_status (rs_reg st) =? 0); [reflexivity|]. rewrite max_drain. reflexivity. Qed.

Lemma max_release_loop n : forall r id F picked, r_max (snd (release_loop n r id F picked)) = r_max r.
Proof. induction n as [|n IH]; intros r id F picked; cbn [release_loop]; [reflexivity|]. destruct (lower_level_ge r F); [reflexivity|]. rewrite IH. reflexivity. Qed.

Lemma max_sync st id out : r_max (rs_reg (fst (fst (fst (sync_state st id out))))) = r_max (rs_reg st).
Proof.
  unfold sync_state. destruct (find_table id _); [|reflexivity].
  destruct (_ && _); [reflexivity|]. destruct (_ =? 0); [reflexivity|].
  destruct (_ <? _).
  - destruct (_ && _); [reflexivity|]. unfold take_queue. reflexivity.
  - destruct (_ <? _); [|reflexivity].
    match goal with |- context [release_loop ?n ?r ?i ?F 0] => pose proof (max_release_loop n r i F 0) as H; destruct (release_loop n r i F 0) as [p r2] end.
    cbn [fst snd with_reg rs_reg] in *. rewrite H. reflexivity.
Qed.

Lemma max_add st players : r_max (rs_reg (fst (add_players st players))) = r_max (rs_reg st).
Proof.
  unfold add_players. destruct (_ =? 2); [reflexivity|]. cbn [fst]. rewrite max_enter_queue. cbn [with_reg rs_reg].
  unfold update_requirements. destruct (_ =? _); reflexivity.
Qed.

Lemma max_set_status st s : r_max (rs_reg (do_set_status st s)) = r_max (rs_reg st).
Proof.
  unfold do_set_status. destruct (_ =? s); [reflexivity|]. destruct (_ && _); [rewrite max_drain|]; reflexivity.
Qed.

(* ---------- the system as a state machine: any history of registrations, status changes, syncs with
   eliminations, and hand-backs ---------- *)

Lemma zmem_iff x l : zmem x l = true <-> In x l.
Proof. induction l as [|y t IH]; simpl; [split; [discriminate|intros []]|]. rewrite orb_true_iff, IH, Z.eqb_eq. split; intros [H|H]; auto. Qed.

Lemma nodupb_spec l : nodupb l = true -> NoDup l.
Proof.
  induction l as [|x t IH]; simpl; [constructor|]. intros H. apply andb_prop in H as [H1 H2]. constructor; [|apply IH; exact H2].
  intros Hin. apply zmem_iff in Hin. rewrite Hin in H1. discriminate.
Qed.

Lemma fresh_ok_spec players alive : fresh_ok players alive = true -> NoDup players /\ forall p, In p players -> ~ In p alive.
Proof.
  unfold fresh_ok. intros H. apply andb_prop in H as [H1 H2]. split; [apply nodupb_spec; exact H1|].
  intros p Hp Hin. rewrite forallb_forall in H2. specialize (H2 p Hp). apply zmem_iff in Hin. rewrite Hin in H2. discriminate.
Qed.


Definition SysInv (s : sys) : Prop :=
  Sys (rs_reg (s_st s)) (s_tabs s) (s_transit s) (s_alive s) /\ 0 < r_max (rs_reg (s_st s)).

(* removing the eliminated players from the list of the living *)
Lemma filter_out_perm (elim alive : list Z) :
  NoDup alive -> NoDup elim -> (forall p, In p elim -> In p alive) ->
  Permutation alive (elim ++ filter (fun p => negb (zmem p elim)) alive).
Proof.
  intros Ha He Hsub. apply NoDup_Permutation; [exact Ha| |].
  - apply NoDup_app_disjoint; [exact He|apply NoDup_filter; exact Ha|].
    intros x Hx Hin. apply filter_In in Hx as [_ Hx]. apply zmem_iff in Hin. rewrite Hin in Hx. discriminate.
  - intros x. rewrite in_app_iff, filter_In. split.
    + intros Hx. destruct (zmem x elim) eqn:E; [left; apply zmem_iff; exact E|right; split; [exact Hx|reflexivity]].
    + intros [H|[H _]]; [apply Hsub; exact H|exact H].
Qed.

Lemma lookup_members id ts m : lookup id ts = Some m -> forall p, In p m -> In p (members ts).
Proof.
  unfold members. induction ts as [|[i mm] rest IH]; simpl; [discriminate|]. destruct (i =? id).
  - intros E p Hp. injection E as ->. apply in_or_app. now left.
  - intros E p Hp. apply in_or_app. right. apply (IH E p Hp).
Qed.

Lemma NoDup_app_remove_r {A} (a b : list A) : NoDup (a ++ b) -> NoDup a.
Proof.
  induction a as [|x a IH]; simpl; [constructor|]. intros H. inversion H; subst. constructor.
  - intros Hin. match goal with H1 : ~ In x (a ++ b) |- _ => apply H1 end. apply in_or_app. now left.
  - apply IH. assumption.
Qed.

Lemma NoDup_sub_app {A} (a b c : list A) : NoDup (a ++ b ++ c) -> NoDup b.
Proof. intros H. apply NoDup_drop_prefix in H. apply NoDup_app_remove_r in H. exact H. Qed.

Theorem SysInv_step s o : SysInv s -> SysInv (sys_step s o).
Proof.
  intros [HS Hmax]. destruct o as [cs players|cs x|id out|cs k]; cbn [sys_step].
  - destruct (fresh_ok players (s_alive s)) eqn:Ef; [|split; assumption].
    destruct (fresh_ok_spec _ _ Ef) as [Hnd Hfr].
    pose proof (Sys_add_players (prep (s_st s) cs) (s_tabs s) (s_transit s) (s_alive s) players eq_refl HS Hnd Hfr) as H.
    pose proof (max_add (prep (s_st s) cs) players) as Hm.
    destruct (snd (add_players (prep (s_st s) cs) players)); [|split; assumption|split; assumption].
    split; [exact H|]. cbn [s_st]. rewrite Hm. exact Hmax.
  - split; [apply (Sys_set_status (prep (s_st s) cs)); [reflexivity|exact HS]|]. cbn [s_st]. rewrite max_set_status. exact Hmax.
  - destruct (lookup id (s_tabs s)) as [m|] eqn:El; [|split; assumption].
    destruct (Nat.leb out (length m)) eqn:Eo; [|split; assumption]. apply Nat.leb_le in Eo.
    set (elim := firstn out m).
    assert (Hplaces : Permutation (r_queue (rs_reg (s_st s)) ++ members (s_tabs s) ++ s_transit s) (s_alive s)) by apply (sy_places _ _ _ _ HS).
    assert (Hmnd : NoDup m).
    { assert (Hn : NoDup (members (s_tabs s))).
      { apply (NoDup_sub_app (r_queue (rs_reg (s_st s))) _ (s_transit s)). apply (Permutation_NoDup (Permutation_sym Hplaces)). apply (sy_nodup _ _ _ _ HS). }
      clear -Hn El. unfold members in Hn. revert El Hn. induction (s_tabs s) as [|[i mm] rest IH]; simpl; [discriminate|].
      destruct (i =? id); intros E Hn; [injection E as ->; apply (NoDup_app_remove_r _ _ Hn)|apply IH; [exact E|apply (NoDup_drop_prefix _ _ Hn)]]. }
    assert (Hal : Permutation (s_alive s) (elim ++ filter (fun p => negb (zmem p elim)) (s_alive s))).
    { apply filter_out_perm; [apply (sy_nodup _ _ _ _ HS)| |].
      - unfold elim. rewrite <- (firstn_skipn out m) in Hmnd. apply (NoDup_app_remove_r _ _ Hmnd).
      - intros p Hp. apply (Permutation_in p Hplaces). apply in_or_app. right. apply in_or_app. left.
        apply (lookup_members id _ m El). unfold elim in Hp. rewrite <- (firstn_skipn out m). apply in_or_app. now left. }
    destruct (Sys_sync (prep (s_st s) []) (s_tabs s) (s_transit s) (s_alive s) _ id out m eq_refl HS Hmax El Eo Hal) as (_ & _ & H).
    pose proof (max_sync (prep (s_st s) []) id (zn out)) as Hm.
    destruct (find_table id (r_tables (rs_reg (fst (fst (fst (sync_state (prep (s_st s) []) id (zn out)))))))).
    + destruct H as [_ H]. split; [exact H|]. cbn [s_st]. rewrite Hm. exact Hmax.
    + destruct H as (_ & _ & H). split; [exact H|]. cbn [s_st]. rewrite Hm. exact Hmax.
  - destruct (firstn k (s_transit s)) as [|b0 bs] eqn:Eb; [split; assumption|].
    split; [|cbn [s_st]; unfold release_players; rewrite max_enter_queue; exact Hmax].
    apply (Sys_release (prep (s_st s) cs) (s_tabs s) (b0 :: bs) (skipn k (s_transit s)) (s_alive s) eq_refl).
    rewrite <- Eb, firstn_skipn. exact HS.
Qed.

Lemma SysInv_init mx mn : 0 < mx -> SysInv (sys_init mx mn).
Proof. intros H. split; [|exact H]. constructor; cbn; try constructor; try reflexivity. intros t []. Qed.

Theorem SysInv_run mx mn ops : 0 < mx -> SysInv (sys_run (sys_init mx mn) ops).
Proof.
  intros H. unfold sys_run. generalize (SysInv_init mx mn H). generalize (sys_init mx mn).
  induction ops as [|o t IH]; intros s Hs; cbn [fold_left]; [exact Hs|]. apply IH, SysInv_step, Hs.
Qed.

(* ---------- C19: the initial allocation ---------- *)
Lemma ifloor_le_len a b : 0 <= a -> ifloor_div a b <= a.
Proof.
  intros Ha. unfold ifloor_div. destruct (b =? 0) eqn:E; [unfold MININT; lia|]. apply Z.eqb_neq in E.
  destruct (Z_lt_le_dec 0 b) as [H|H].
  - apply Z.div_le_upper_bound; [exact H|]. nia.
  - assert (a / b <= 0); [|lia]. assert (Hb : b < 0) by lia. pose proof (Z.div_mod a b ltac:(lia)) as Hd. pose proof (Z.mod_neg_bound a b Hb) as Hm. nia.
Qed.

(* every table opened by allocateTables gets at least the minimum, as long as it starts from a water
   level that the waiting queue can fill *)
Lemma alloc_loop_min fuel : forall st wl rt,
  wl <= zn (length (r_queue (rs_reg st))) ->
  forall e, In e (rs_ev (alloc_loop fuel st wl rt)) ->
    In e (rs_ev st) \/ exists id ps, e = EvRequest id ps /\ r_min (rs_reg st) <= zn (length ps).
Proof.
  induction fuel as [|f IH]; intros st wl rt Hwl e He; cbn [alloc_loop] in He; [now left|].
  destruct ((r_min (rs_reg st) <=? wl) && (r_tc (rs_reg st) <? rt)) eqn:G; [|now left].
  apply andb_prop in G as [G1 _]. apply Z.leb_le in G1.
  set (r := rs_reg st) in *. set (ql := zn (length (r_queue r))) in *.
  set (req := if (wl <? ql) && (ql <? r_max r) then ql else wl) in *.
  unfold take_queue in He. set (n := Z.to_nat req) in *.
  destruct (firstn n (r_queue r)) as [|p0 ps] eqn:Ef; [now left|].
  assert (Hlen : r_min r <= zn (length (p0 :: ps))).
  { rewrite <- Ef, firstn_length. assert (Hreq : wl <= req) by (unfold req; destruct (_ && _) eqn:E; [apply andb_prop in E as [E _]; apply Z.ltb_lt in E; lia|lia]).
    unfold n, ql, zn in *. lia. }
  cbn [set_queue r_max r_min r_pc r_tc r_status r_queue r_tables r_nextid] in He.
  match type of He with In e (rs_ev (alloc_loop f ?s1 ?w1 rt)) => destruct (IH s1 w1 rt) with (e := e) as [H|H]; [|exact He| |] end.
  - cbn [rs_reg r_queue]. apply ifloor_le_len. unfold zn. lia.
  - cbn [rs_ev] in H. destruct H as [<-|H]; [right; exists (r_nextid r), (p0 :: ps); split; [reflexivity|exact Hlen]|now left].
  - right. destruct H as (id & qs & E1 & E2). exists id, qs. split; [exact E1|exact E2].
Qed.

Theorem initial_tables_get_the_minimum st :
  r_tc (rs_reg st) = 0 -> r_pc (rs_reg st) = zn (length (r_queue (rs_reg st))) ->
  0 < r_max (rs_reg st) -> 0 < r_min (rs_reg st) ->
  forall e, In e (rs_ev (allocate_tables st)) ->
    In e (rs_ev st) \/ exists id ps, e = EvRequest id ps /\ r_min (rs_reg st) <= zn (length ps).
Proof.
  intros Htc Hpc Hmax Hmin e He. unfold allocate_tables in He. rewrite Htc in He. cbn [Z.eqb] in He.
  destruct (r_pc (rs_reg st) <? r_min (rs_reg st)) eqn:E1; [now left|]. apply Z.ltb_ge in E1.
  assert (Hp0 : 0 <= r_pc (rs_reg st)) by (rewrite Hpc; unfold zn; lia).
  destruct (r_min (rs_reg st) <=? ifloor_div (r_pc (rs_reg st)) (required_tables (rs_reg st))) eqn:E2.
  - eapply alloc_loop_min; [|exact He]. rewrite <- Hpc. apply ifloor_le_len. exact Hp0.
  - eapply alloc_loop_min; [|exact He]. rewrite <- Hpc.
    (* the water level was below the minimum although enough players are registered: more than one table *)
    apply Z.leb_gt in E2. destruct (Z_lt_le_dec (r_pc (rs_reg st)) (r_max (rs_reg st))) as [H|H]; [|exact H]. exfalso.
    assert (Hrt : required_tables (rs_reg st) = 1).
    { unfold required_tables. symmetry. apply (Z.div_unique _ _ 1 (r_pc (rs_reg st) - 1)); lia. }
    rewrite Hrt in E2. unfold ifloor_div in E2. cbn [Z.eqb] in E2. rewrite Z.div_1_r in E2. lia.
Qed.

(* no table is opened before the minimum initial number of players has registered *)
Theorem no_table_below_the_minimum st :
  r_tc (rs_reg st) = 0 -> zn (length (r_queue (rs_reg st))) < r_min (rs_reg st) -> drain st = st.
Proof.
  intros Htc Hq. unfold drain. rewrite Htc. cbn [Z.eqb andb Z.ltb Z.compare].
  replace (r_min (rs_reg st) <=? zn (length (r_queue (rs_reg st)))) with false by (symmetry; apply Z.leb_gt; exact Hq). reflexivity.
Qed.

(* ---------- C19: a top-up by SyncState never lifts a table above the capacity ---------- *)
Lemma div_ceil_cap pc mx : 0 < mx -> 0 < pc -> pc / ((pc + mx - 1) / mx) <= mx.
Proof.
  intros Hm Hp. set (rt := (pc + mx - 1) / mx).
  assert (Hrt : 0 < rt) by (unfold rt; apply Z.div_str_pos; lia).
  assert (Hge : pc <= rt * mx).
  { unfold rt. pose proof (Z.div_mod (pc + mx - 1) mx ltac:(lia)) as Hd. pose proof (Z.mod_pos_bound (pc + mx - 1) mx Hm) as Hb. nia. }
  apply Z.div_le_upper_bound; [exact Hrt|]. nia.
Qed.

Theorem sync_topup_within_capacity st id out t0 :
  find_table id (r_tables (rs_reg st)) = Some t0 -> 0 < r_max (rs_reg st) -> 0 < r_pc (rs_reg st) - out ->
  let res := sync_state st id out in
  snd (fst res) <> [] ->
  forall t1, find_table id (r_tables (rs_reg (fst (fst (fst res))))) = Some t1 -> t_pc t1 <= r_max (rs_reg st).
Proof.
  intros Hf Hmax Hpc res Hh t1 Ht1. unfold res, sync_state in *. rewrite Hf in *.
  set (r := rs_reg st) in *.
  set (r1 := set_tables (set_pc r (r_pc r - out)) (map_table id (fun t => mkT (t_id t) (t_required t) (t_pc t - out)) (r_tables r))) in *.
  destruct ((r_status r1 =? 2) && (r_pc r1 <=? r_max r1) && (required_tables r1 <? r_tc r1)); [cbn in Hh; contradiction|].
  destruct (required_tables r1 =? 0); [cbn in Hh; contradiction|].
  destruct ((t_pc t0 - out) * required_tables r1 <? r_pc r1) eqn:Elow.
  2: { destruct (r_pc r1 <? (t_pc t0 - out) * required_tables r1); [|cbn in Hh; contradiction].
       destruct (release_loop _ _ _ _ _). cbn in Hh. contradiction. }
  destruct ((2 <=? low_water_count r1) && (required_tables r1 <? r_tc r1)); [cbn in Hh; contradiction|].
  set (count := r_pc r1 / required_tables r1 - (t_pc t0 - out)) in *.
  unfold take_queue in *. cbn [fst snd with_reg rs_reg set_tables set_queue r_tables r_queue] in *.
  set (players := firstn (Z.to_nat count) (r_queue r1)) in *.
  (* the synced table after elimination and top-up *)
  assert (Hf1 : find_table id (r_tables r1) = Some (mkT (t_id t0) (t_required t0) (t_pc t0 - out))).
  { unfold r1. cbn [set_tables r_tables]. rewrite find_map_table by reflexivity. rewrite Hf. reflexivity. }
  rewrite find_map_table in Ht1 by reflexivity. rewrite Hf1 in Ht1. cbn [option_map] in Ht1. injection Ht1 as <-. cbn [t_pc].
  assert (Hk : zn (length players) <= count \/ count < 0).
  { destruct (Z_lt_le_dec count 0) as [H|H]; [now right|left]. unfold players. rewrite firstn_length. unfold zn. lia. }
  assert (Hcap : r_pc r1 / required_tables r1 <= r_max r).
  { unfold required_tables. change (r_max r1) with (r_max r). change (r_pc r1) with (r_pc r - out). apply div_ceil_cap; assumption. }
  destruct Hk as [Hk|Hk].
  - unfold count in Hk. lia.
  - (* a negative count hands out nobody *)
    exfalso. apply Hh. unfold players. replace (Z.to_nat count) with 0%nat by lia. reflexivity.
Qed.

(* ---------- C19 at the level of the system: the first tables ---------- *)
Lemma env_of_requests evs : (forall e, In e evs -> exists id ps, e = EvRequest id ps) ->
  forall t, In t (env_of evs []) -> exists id, In (EvRequest id (snd t)) evs /\ fst t = id.
Proof.
  induction evs as [|e evs IH]; intros H t Ht; [contradiction|].
  rewrite env_of_cons in Ht. destruct (H e (or_introl eq_refl)) as (id & ps & ->). cbn [apply_event] in Ht.
  apply in_app_or in Ht as [Ht|[<-|[]]].
  - destruct (IH (fun e' He' => H e' (or_intror He')) t Ht) as (id' & A & B). exists id'. split; [now right|exact B].
  - exists id. split; [now left|reflexivity].
Qed.

(* when no table is open and every living player is waiting, the tables opened by a registration (or by the
   start of the competition) all get at least the minimum initial number of players *)
Theorem first_tables_get_the_minimum st players :
  quiet st -> r_tc (rs_reg st) = 0 -> r_tables (rs_reg st) = [] ->
  r_pc (rs_reg st) = zn (length (r_queue (rs_reg st))) -> 0 < r_max (rs_reg st) -> 0 < r_min (rs_reg st) ->
  r_status (rs_reg st) <> 2 ->
  let st' := fst (add_players st players) in
  forall t, In t (env_of (rs_ev st') []) -> r_min (rs_reg st) <= zn (length (snd t)).
Proof.
  intros Hq Htc Htabs Hpc Hmax Hmin Hst st' t Ht.
  unfold st', add_players in Ht. replace (r_status (rs_reg st) =? 2) with false in Ht by (symmetry; apply Z.eqb_neq; exact Hst).
  cbn [fst] in Ht.
  set (r1 := update_requirements (set_pc (rs_reg st) (r_pc (rs_reg st) + zn (length players)))) in *.
  assert (Hr1 : r1 = set_pc (rs_reg st) (r_pc (rs_reg st) + zn (length players)) \/
                r_tables r1 = [] /\ r_tc r1 = 0 /\ r_queue r1 = r_queue (rs_reg st) /\ r_pc r1 = r_pc (rs_reg st) + zn (length players) /\
                r_max r1 = r_max (rs_reg st) /\ r_min r1 = r_min (rs_reg st) /\ r_status r1 = r_status (rs_reg st)).
  { unfold r1, update_requirements. destruct (_ =? _); [right|left; reflexivity]. cbn. rewrite Htabs. cbn. auto 10. }
  assert (F : r_tables r1 = [] /\ r_tc r1 = 0 /\ r_queue r1 = r_queue (rs_reg st) /\ r_pc r1 = r_pc (rs_reg st) + zn (length players) /\
              r_max r1 = r_max (rs_reg st) /\ r_min r1 = r_min (rs_reg st) /\ r_status r1 = r_status (rs_reg st)).
  { destruct Hr1 as [->|H]; [cbn; auto 10|exact H]. }
  destruct F as (T1 & T2 & Q1 & P1 & M1 & N1 & S1).
  unfold enter_queue in Ht. cbn [with_reg rs_reg] in Ht. rewrite S1 in Ht.
  destruct (r_status (rs_reg st) =? 0); [cbn [with_reg rs_ev] in Ht; rewrite Hq in Ht; contradiction|].
  set (st1 := with_reg (with_reg st r1) (set_queue r1 (r_queue r1 ++ players))) in *.
  assert (E1 : rs_ev st1 = []) by exact Hq.
  assert (Hreq : forall e, In e (rs_ev (drain st1)) -> exists id ps, e = EvRequest id ps /\ r_min (rs_reg st) <= zn (length ps)).
  { intros e He. unfold drain in He. cbn [st1 with_reg rs_reg set_queue r_tc r_min r_queue] in He. rewrite T2 in He. cbn [Z.eqb andb Z.ltb Z.compare] in He.
    destruct (r_min r1 <=? zn (length (r_queue r1 ++ players))); [|rewrite E1 in He; contradiction].
    destruct (initial_tables_get_the_minimum st1) with (e := e) as [H|H].
    - exact T2.
    - cbn [st1 with_reg rs_reg set_queue r_pc r_queue]. rewrite P1, Q1, app_length, Hpc. unfold zn. lia.
    - cbn [st1 with_reg rs_reg set_queue r_max]. rewrite M1. exact Hmax.
    - cbn [st1 with_reg rs_reg set_queue r_min]. rewrite N1. exact Hmin.
    - exact He.
    - rewrite E1 in H. contradiction.
    - destruct H as (id & ps & A & B). exists id, ps. split; [exact A|]. cbn [st1 with_reg rs_reg set_queue r_min] in B. rewrite N1 in B. exact B. }
  destruct (env_of_requests (rs_ev (drain st1)) (fun e He => let '(ex_intro _ id (ex_intro _ ps (conj A _))) := Hreq e He in ex_intro _ id (ex_intro _ ps A)) t Ht) as (id & Hin & _).
  destruct (Hreq _ Hin) as (id' & ps' & E & B). injection E as _ <-. exact B.
Qed.
