(* C14 — cards are dealt from the deck without loss, duplication or change.
   dealt s : the cards on the table in the order they left the deck — hole cards seat by seat, then
             burn, flop (3), burn, turn, burn, river
   reachable states: run g ops for create c deck = (g, Ok); deck is the order the hand is played with
   (any permutation of the configured deck: Start() shuffles; the theorems need only its length) *)
From Coq Require Import Permutation.
From PF Require Import Base ModelGame ProofsGameBasic ProofsCards.

(* at all times hole cards, burned cards and board are exactly the consumed top of the deck;
   with a duplicate-free deck no card is ever dealt twice *)
Theorem C14_dealt_is_top_of_deck :
  forall c deck g ops,
    create c deck = (g, Ok) -> length deck = length (c_deck c) ->
    let s := run g ops in
    dealt s = firstn (st_dpos (g_st s)) (m_deck (g_meta s)) /\
    (NoDup (m_deck (g_meta s)) -> NoDup (dealt s)).
Proof. exact dealt_is_top_of_deck. Qed.
Print Assumptions C14_dealt_is_top_of_deck.

(* every player holds exactly the configured number of hole cards from the deal on; one card is burned
   before flop, turn and river; the board has 0, 3, 4, 5 cards by street *)
Theorem C14_counts :
  forall c deck g ops,
    create c deck = (g, Ok) -> length deck = length (c_deck c) ->
    let s := run g ops in
    (forall i, (i < nplayers s)%nat ->
       length (p_hole (get_p s i)) = match st_round (g_st s) with RNone => 0%nat | _ => m_hole (g_meta s) end) /\
    length (st_burned (g_st s)) = fst (street_counts (st_round (g_st s))) /\
    length (st_board (g_st s)) = snd (street_counts (st_round (g_st s))).
Proof.
  intros c deck g ops Hcr Hl s.
  destruct (k2_cards _ (Kinv2_run ops g (Kinv2_create c deck g Hcr Hl))) as [_ B C D _ _]. auto.
Qed.
Print Assumptions C14_counts.

(* the deck never changes while the hand is played *)
Theorem C14_deck_never_changes : forall g ops, g_meta (run g ops) = g_meta g.
Proof. intros g ops. apply deck_never_changes. Qed.
Print Assumptions C14_deck_never_changes.

(* the deck always suffices: dealing never runs out of cards (the guard added to Start) *)
Theorem C14_deck_suffices :
  forall c deck g ops,
    create c deck = (g, Ok) -> length deck = length (c_deck c) ->
    let s := run g ops in
    (nplayers s * m_hole (g_meta s) + 8 <= length (m_deck (g_meta s)))%nat.
Proof.
  intros c deck g ops Hcr Hl s.
  destruct (k2_cards _ (Kinv2_run ops g (Kinv2_create c deck g Hcr Hl))) as [_ _ _ _ _ F]. exact F.
Qed.
Print Assumptions C14_deck_suffices.

(* shuffling (any sequence of swaps, which is what rand.Shuffle performs) only reorders *)
Theorem C14_shuffle_only_reorders :
  forall (swaps : list (nat * nat)) (deck : list Z), Permutation deck (apply_swaps swaps deck).
Proof. intros; apply apply_swaps_perm. Qed.
Print Assumptions C14_shuffle_only_reorders.
