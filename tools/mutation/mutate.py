#!/usr/bin/env python3
"""mutate.py <repo> <area> — lists single-token mutants of the Go sources of one area as JSON lines
(file, line, col, old, new, op).  Purely syntactic; the campaign keeps only those that build and pass the
stable test packages."""
import json, os, re, sys

AREAS = {
    "engine": ["action.go", "game.go", "player.go", "power.go", "settlement.go", "pot.go", "deck.go", "game_state.go"],
    "pot": ["pot/level.go", "pot/level_list.go", "pot/pot.go"],
    "settlement": ["settlement/level.go", "settlement/pot.go", "settlement/rank.go", "settlement/settlement.go"],
    "combination": ["combination/card.go", "combination/combination.go", "combination/element.go", "combination/power.go"],
    "regulator": ["regulator/regulator.go"],
    "seat": ["seat_manager/seat_manager.go"],
}

TOKENS = [  # (regex, replacements, op)
    (r"<=", ["<"], "rel"), (r">=", [">"], "rel"), (r"==", ["!="], "rel"), (r"!=", ["=="], "rel"),
    (r"(?<![<-])<(?![=<-])", ["<="], "rel"), (r"(?<![->])>(?![=>])", [">="], "rel"),
    (r"&&", ["||"], "logic"), (r"\|\|", ["&&"], "logic"),
    (r"\+=", ["-="], "arith"), (r"-=", ["+="], "arith"), (r"\+\+", ["--"], "arith"), (r"--", ["++"], "arith"),
    (r"(?<=\s)\+(?=\s)", ["-"], "arith"), (r"(?<=\s)-(?=\s)", ["+"], "arith"),
    (r"(?<=\s)\*(?=\s)", ["+"], "arith"), (r"(?<=\s)/(?=\s)", ["*"], "arith"),
    (r"\btrue\b", ["false"], "bool"), (r"\bfalse\b", ["true"], "bool"),
    (r"\bcontinue\b", ["break"], "flow"), (r"\bbreak\b", ["continue"], "flow"),
    (r"(?<=[\s(\[,])0(?=[\s),;\]}:]|$)", ["1"], "const"), (r"(?<=[\s(\[,])1(?=[\s),;\]}:]|$)", ["0", "2"], "const"),
    (r"(?<=[\s(])!(?=[A-Za-z(])", [""], "neg"),
]


def code_spans(line):
    """yield (start, end) of the parts of the line that are code (outside strings and // comments)"""
    spans, i, start, n = [], 0, 0, len(line)
    while i < n:
        c = line[i]
        if c == "/" and i + 1 < n and line[i + 1] == "/":
            break
        if c in "\"`'":
            spans.append((start, i))
            j = i + 1
            while j < n and line[j] != c:
                j += 2 if line[j] == "\\" else 1
            i = j + 1
            start = i
            continue
        i += 1
    spans.append((start, min(i, n)))
    return spans


def main():
    repo, area = sys.argv[1], sys.argv[2]
    for f in AREAS[area]:
        lines = open(os.path.join(repo, f)).read().split("\n")
        in_import = in_block_comment = False
        for ln, line in enumerate(lines, 1):
            s = line.strip()
            if in_block_comment:
                if "*/" in s:
                    in_block_comment = False
                continue
            if s.startswith("/*"):
                in_block_comment = "*/" not in s
                continue
            if s.startswith("import ("):
                in_import = True
            if in_import:
                if s == ")":
                    in_import = False
                continue
            if s.startswith(("//", "package ", "import ", "func ", "type ", "}")) or "json:\"" in s:
                continue
            for a, b in code_spans(line):
                seg = line[a:b]
                for rx, reps, op in TOKENS:
                    for m in re.finditer(rx, seg):
                        for r in reps:
                            print(json.dumps({"file": f, "line": ln, "col": a + m.start(), "old": m.group(0), "new": r, "op": op,
                                              "text": line.strip()[:120]}))
            # statement deletion: simple assignments and calls on one line
            if re.match(r"^[A-Za-z_][\w\.\[\]\(\)\*]*\s*(=|\+=|-=)[^=].*[^{,(]$", s) or re.match(r"^[A-Za-z_][\w\.]*\(.*\)$", s):
                print(json.dumps({"file": f, "line": ln, "col": -1, "old": s[:120], "new": "", "op": "delete", "text": s[:120]}))


if __name__ == "__main__":
    main()
