(* C05 — a betting round closes exactly when it should. *)
From PF Require Import Base ModelGame ProofsGameBasic.

(* when only one non-folded player remains, asking for the next action closes the round at once *)
Theorem C05_last_man_closes_round :
  forall g, alive_count g = 1%nat ->
    request_action g = round_closed g /\ st_event (g_st (round_closed g)) = EvRoundClosed.
Proof. intros g H. split; [apply request_action_last_man; exact H|reflexivity]. Qed.
Print Assumptions C05_last_man_closes_round.

Theorem C05_nobody_with_chips_closes_round :
  forall g, movable_count g = 0%nat -> request_action g = round_closed g.
Proof. exact request_action_nobody_movable. Qed.
Print Assumptions C05_nobody_with_chips_closes_round.

Theorem C05_closed_round_offers_nothing :
  forall g i, p_allowed (get_p (round_closed g) i) = [].
Proof. exact round_closed_no_offers. Qed.
Print Assumptions C05_closed_round_offers_nothing.
