module verif/gen_consts

go 1.19
