(* ProofsPot.v — lemmas about ModelPot. *)
From Coq Require Import Lia Sorted Permutation.
From PF Require Import Base ModelPot.

(* ---------- sorted integer sets ---------- *)
Inductive zsorted : list Z -> Prop :=
| zs_nil : zsorted []
| zs_one : forall x, zsorted [x]
| zs_cons : forall x y t, x < y -> zsorted (y :: t) -> zsorted (x :: y :: t).

Lemma zsorted_tail x t : zsorted (x :: t) -> zsorted t.
Proof. intros H; inversion H; subst; [constructor | assumption]. Qed.

Lemma zset_add_head x l :
  zsorted l -> match zset_add x l with [] => False | h :: _ => h = x \/ (exists t, l = h :: t /\ h < x) end.
Proof.
  intros _. destruct l as [|y t]; simpl; [now left|].
  destruct (x <? y) eqn:E; [now left|].
  destruct (x =? y) eqn:E2.
  - apply Z.eqb_eq in E2; subst. now left.
  - right. exists t. split; [reflexivity|]. apply Z.ltb_ge in E. apply Z.eqb_neq in E2. lia.
Qed.

Lemma zset_add_sorted x l : zsorted l -> zsorted (zset_add x l).
Proof.
  induction l as [|y t IH]; intros Hs; simpl; [constructor|].
  destruct (x <? y) eqn:E.
  - apply Z.ltb_lt in E. constructor; assumption.
  - destruct (x =? y) eqn:E2; [assumption|].
    apply Z.ltb_ge in E. apply Z.eqb_neq in E2.
    specialize (IH (zsorted_tail _ _ Hs)).
    pose proof (zset_add_head x t (zsorted_tail _ _ Hs)) as Hh.
    destruct (zset_add x t) as [|h r] eqn:Ea; [contradiction|].
    constructor; [|assumption].
    destruct Hh as [->|[t' [-> Hlt]]]; [lia|].
    inversion Hs; subst; lia.
Qed.

Lemma zset_add_In x y l : In y (zset_add x l) <-> y = x \/ In y l.
Proof.
  induction l as [|z t IH]; simpl; [intuition|].
  destruct (x <? z) eqn:E; simpl; [intuition|].
  destruct (x =? z) eqn:E2; simpl.
  - apply Z.eqb_eq in E2; subst. intuition.
  - rewrite IH. intuition.
Qed.

(* the level values of a level list built by AddContributor calls are strictly increasing *)
Lemma ll_of_lvals_sorted_gen inputs ll :
  zsorted (ll_lvals ll) ->
  zsorted (ll_lvals (fold_left (fun ll x => add_contributor ll (snd (fst x)) (fst (fst x)) (snd x)) inputs ll)).
Proof.
  revert ll; induction inputs as [|x xs IH]; intros ll H; simpl; [assumption|].
  apply IH. simpl. apply zset_add_sorted; assumption.
Qed.

Lemma ll_of_lvals_sorted inputs : zsorted (ll_lvals (ll_of inputs)).
Proof. apply ll_of_lvals_sorted_gen. constructor. Qed.

(* build_levels publishes exactly the level values, in order *)
Lemma build_levels_levels cs prev lvs : map l_level (build_levels cs prev lvs) = lvs.
Proof. revert prev; induction lvs as [|l t IH]; intros prev; simpl; [reflexivity|]. now rewrite IH. Qed.

Lemma ll_levels_sorted inputs : zsorted (map l_level (ll_levels (ll_of inputs))).
Proof. unfold ll_levels. rewrite build_levels_levels. apply ll_of_lvals_sorted. Qed.
