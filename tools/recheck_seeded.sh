#!/bin/bash
# recheck_seeded.sh [ids...] — apply each stored seeded change to /repo, run the quick check of its property,
# undo the change straight afterwards. Evidence is kept aside: committed evidence comes from clean-tree runs.
cd /verif
IDS=${@:-$(ls seeded)}
rm -rf /tmp/evidence.keep && cp -r /verif/evidence /tmp/evidence.keep
for id in $IDS; do
  [ -f /verif/seeded/$id/patch.diff ] || continue
  p=${id%%-*}
  git -C /repo apply /verif/seeded/$id/patch.diff 2>/tmp/apply.err || { echo "$id APPLY-FAILED $(head -1 /tmp/apply.err)"; git -C /repo checkout -- .; continue; }
  ./check $p > /tmp/recheck_$id.out 2>&1; rc=$?
  echo "$id rc=$rc $(grep -E 'VIOLATION' /tmp/recheck_$id.out | head -1 | cut -c1-160)"
  git -C /repo checkout -- .
  git -C /repo clean -fdq -- . 2>/dev/null
done
rm -rf /verif/evidence && mv /tmp/evidence.keep /verif/evidence
git -C /repo status --short | head -3
