module verif/harness

go 1.19

require github.com/weedbox/pokerface v0.0.0

require github.com/google/uuid v1.3.0 // indirect

replace github.com/weedbox/pokerface => /repo
