package main

import (
	"encoding/json"
	"fmt"
	"math"
	"math/rand"
	"os"
	"strings"

	pf "github.com/weedbox/pokerface"
	"github.com/weedbox/pokerface/table"
)

// ---------- configuration ----------
type GameCfg struct {
	Bank    []int64  `json:"bank"`
	Ante    int64    `json:"ante"`
	SB      int64    `json:"sb"`
	BB      int64    `json:"bb"`
	DB      int64    `json:"db"`
	Dealer  int      `json:"dealer"`
	DeadSB  bool     `json:"dead_sb"`
	Limit   string   `json:"limit"`
	Short   bool     `json:"short"`
	Table   int      `json:"table"` // 0 standard ranking, 1 short-deck ranking
	Hole    int      `json:"hole"`
	Req     int      `json:"req"`
	Burn    *int     `json:"burn,omitempty"`    // Meta.BurnCount (default 1; the engine burns one card per street whatever it says)
	Deck    []string `json:"deck,omitempty"`    // configured deck (default: the variant's full deck)
	Shuffle []string `json:"shuffle,omitempty"` // deck order to play (default: whatever Start() shuffled)
	Passive bool     `json:"passive,omitempty"` // play the hand to the river without folds or all-ins
}

type GameOp struct {
	Code int   `json:"code"` // 0 ready 1 ante 2 blinds 3 next, 10+action
	Who  int   `json:"who"`  // -1: through Game (current player), else Game.Player(who)
	Amt  int64 `json:"amt,omitempty"`
}

type GameCase struct {
	Cfg GameCfg  `json:"cfg"`
	Ops []GameOp `json:"ops"`
}

var actionNames = []string{"pass", "fold", "check", "call", "allin", "bet", "raise", "pay"}
var actionBit = map[string]int64{"pass": 1, "fold": 2, "check": 4, "call": 8, "allin": 16, "bet": 32, "raise": 64, "pay": 128}
var didCode = map[string]int64{"": 0, "fold": 1, "allin": 2, "call": 3, "check": 4, "bet": 5, "raise": 6}
var eventCode = map[string]int64{"": 0, "ReadyRequested": 1, "AnteRequested": 2, "BlindsRequested": 3, "RoundStarted": 4, "RoundClosed": 5, "GameClosed": 6}
var roundCode = map[string]int64{"": 0, "preflop": 1, "flop": 2, "turn": 3, "river": 4}
var lastCode = map[string]int64{"next": 0, "pass": 1, "ante": 2, "big_blind": 3, "small_blind": 4, "dealer_blind": 5, "pay": 6, "fold": 7, "call": 8, "check": 9, "bet": 10, "raise": 11, "allin": 12}

func (c GameCfg) positions(i int) []string {
	n := len(c.Bank)
	pos := []string{}
	if c.Dealer < 0 {
		return pos // nobody holds a position (Start must refuse: no dealer)
	}
	rel := (i - c.Dealer + n) % n
	if rel == 0 {
		pos = append(pos, "dealer")
	}
	if n == 2 {
		if rel == 0 {
			pos = append(pos, "sb")
		} else {
			pos = append(pos, "bb")
		}
	} else {
		if rel == 1 && !c.DeadSB {
			pos = append(pos, "sb")
		}
		if rel == 2 {
			pos = append(pos, "bb")
		}
	}
	return pos
}

func (c GameCfg) options() *pf.GameOptions {
	opts := pf.NewStardardGameOptions()
	opts.Ante = c.Ante
	opts.Blind.SB = c.SB
	opts.Blind.BB = c.BB
	opts.Blind.Dealer = c.DB
	opts.Limit = c.Limit
	opts.HoleCardsCount = c.Hole
	opts.RequiredHoleCardsCount = c.Req
	opts.CombinationPowers = tableOf(c.Table)
	if c.Burn != nil {
		opts.BurnCount = *c.Burn
	}
	if c.Deck != nil {
		opts.Deck = append([]string{}, c.Deck...)
	} else {
		opts.Deck = deckOf(c.Short)
	}
	for i := range c.Bank {
		opts.Players = append(opts.Players, &pf.PlayerSetting{Bankroll: c.Bank[i], Positions: c.positions(i)})
	}
	return opts
}

func hasPos(p *pf.PlayerState, pos string) bool {
	for _, x := range p.Positions {
		if x == pos {
			return true
		}
	}
	return false
}

func binom(n, k int) int {
	if k < 0 || k > n {
		return 0
	}
	r := 1
	for i := 0; i < k; i++ {
		r = r * (n - i) / (i + 1)
	}
	return r
}

// number of candidate hands, mirroring GetPossibleCombinations' "take everything when short"
func candCount(nh, nb, req int) int {
	c := func(n, k int) int {
		if n <= k {
			return 1
		}
		return binom(n, k)
	}
	if req == 0 {
		return c(nh+nb, 5)
	}
	return c(nh, req) * c(nb, 5-req)
}

// ---------- observation of a GameState in the model's format ----------
func stateObs(b *Obs, gs *pf.GameState) { stateObsL(b, gs, true) }

// withLevels=false for states that went through JSON (Pot.Levels is not serialised)
func stateObsL(b *Obs, gs *pf.GameState, withLevels bool) {
	s := &gs.Status
	b.K("ev", evCode(s.CurrentEvent)).K("rd", roundCode[s.Round]).K("cur", int64(s.CurrentPlayer)).K("raiser", int64(s.CurrentRaiser))
	b.K("cw", s.CurrentWager).K("prs", s.PreviousRaiseSize).K("minibet", s.MiniBet).K("maxw", s.MaxWager)
	b.K("rpot", s.CurrentRoundPot).K("dpos", int64(s.CurrentDeckPosition))
	b.K("board", wires(s.Board)...).K("burned", wires(s.Burned)...).K("deck", wires(gs.Meta.Deck)...)
	if s.LastAction == nil {
		b.K("last")
	} else {
		lc, ok := lastCode[s.LastAction.Type]
		if !ok {
			lc = 99
		}
		b.K("last", int64(s.LastAction.Source), lc, s.LastAction.Value)
	}
	b.K("pots", potsVals(s.Pots)...)
	if withLevels {
		b.K("potlevels", potLevelsVals(s.Pots)...)
	}
	var bk, in, st, pp, wg, fo, ac, vp, di, al, ho, ct, cp, cc []int64
	for _, p := range gs.Players {
		bk = append(bk, p.Bankroll)
		in = append(in, p.InitialStackSize)
		st = append(st, p.StackSize)
		pp = append(pp, p.Pot)
		wg = append(wg, p.Wager)
		fo = append(fo, b2i(p.Fold))
		ac = append(ac, b2i(p.Acted))
		vp = append(vp, b2i(p.VPIP))
		d, ok := didCode[p.DidAction]
		if !ok {
			d = 99
		}
		di = append(di, d)
		var m int64
		for _, a := range p.AllowedActions {
			bit, ok := actionBit[a]
			if !ok {
				bit = 1 << 20
			}
			m += bit
		}
		al = append(al, m)
		ho = append(ho, counted(p.HoleCards)...)
		if p.Combination == nil {
			ct = append(ct, -2)
			cp = append(cp, 0)
			cc = append(cc, 0)
		} else {
			if p.Combination.Type == "" {
				ct = append(ct, -1)
			} else if code, ok := combCode[p.Combination.Type]; ok {
				ct = append(ct, code)
			} else {
				ct = append(ct, 99)
			}
			cp = append(cp, int64(p.Combination.Power))
			if candCount(len(p.HoleCards), len(s.Board), gs.Meta.RequiredHoleCardsCount) <= 12 {
				cc = append(cc, counted(p.Combination.Cards)...)
			} else {
				cc = append(cc, 0)
			}
		}
	}
	b.K("bk", bk...).K("init", in...).K("stack", st...).K("ppot", pp...).K("wager", wg...)
	b.K("fold", fo...).K("acted", ac...).K("vpip", vp...).K("did", di...).K("allowed", al...)
	b.K("hole", ho...).K("ctype", ct...).K("cpower", cp...).K("ccards", cc...)
	if gs.Result == nil {
		b.K("hasres", 0)
	} else {
		b.K("hasres", 1)
		resultObs(b, gs.Result)
	}
}

func evCode(e string) int64 {
	if c, ok := eventCode[e]; ok {
		return c
	}
	return 99
}

func errGameCode(err error) int64 {
	switch err {
	case nil:
		return 0
	case pf.ErrInvalidAction:
		return 1
	case pf.ErrIllegalRaise:
		return 2
	case pf.ErrNotClosedRound:
		return 3
	case pf.ErrInsufficientNumberOfPlayers:
		return 4
	case pf.ErrNoDealer:
		return 5
	case pf.ErrNotEnoughBackroll:
		return 6
	case pf.ErrNoDeck:
		return 7
	}
	return 8
}

func cloneState(gs *pf.GameState) *pf.GameState {
	b, _ := json.Marshal(gs)
	var st pf.GameState
	json.Unmarshal(b, &st)
	return &st
}

func canonJSON(gs *pf.GameState) string {
	c := cloneState(gs)
	c.UpdatedAt = 0
	b, _ := json.Marshal(c)
	return string(b)
}

// apply one op on a Game; recovers panics
func applyOp(g pf.Game, op GameOp) (err error, panicked interface{}) {
	defer func() {
		if r := recover(); r != nil {
			panicked = r
		}
	}()
	switch op.Code {
	case 0:
		return g.ReadyForAll(), nil
	case 1:
		return g.PayAnte(), nil
	case 2:
		return g.PayBlinds(), nil
	case 3:
		return g.Next(), nil
	}
	a := op.Code - 10
	if op.Who < 0 {
		switch a {
		case 0:
			return g.Pass(), nil
		case 1:
			return g.Fold(), nil
		case 2:
			return g.Check(), nil
		case 3:
			return g.Call(), nil
		case 4:
			return g.Allin(), nil
		case 5:
			return g.Bet(op.Amt), nil
		case 6:
			return g.Raise(op.Amt), nil
		case 7:
			return g.Pay(op.Amt), nil
		}
	}
	p := g.Player(op.Who)
	switch a {
	case 0:
		return p.Pass(), nil
	case 1:
		return p.Fold(), nil
	case 2:
		return p.Check(), nil
	case 3:
		return p.Call(), nil
	case 4:
		return p.Allin(), nil
	case 5:
		return p.Bet(op.Amt), nil
	case 6:
		return p.Raise(op.Amt), nil
	case 7:
		return p.Pay(op.Amt), nil
	}
	return nil, nil
}

// the same op through the stateless backend (JSON in, JSON out)
func applyBackend(nb *table.NativeBackend, gs *pf.GameState, op GameOp) (out *pf.GameState, err error, panicked interface{}) {
	defer func() {
		if r := recover(); r != nil {
			panicked = r
		}
	}()
	switch op.Code {
	case 0:
		out, err = nb.ReadyForAll(gs)
	case 1:
		out, err = nb.PayAnte(gs)
	case 2:
		out, err = nb.PayBlinds(gs)
	case 3:
		out, err = nb.Next(gs)
	case 10:
		out, err = nb.Pass(gs)
	case 11:
		out, err = nb.Fold(gs)
	case 12:
		out, err = nb.Check(gs)
	case 13:
		out, err = nb.Call(gs)
	case 14:
		out, err = nb.Allin(gs)
	case 15:
		out, err = nb.Bet(gs, op.Amt)
	case 16:
		out, err = nb.Raise(gs, op.Amt)
	case 17:
		out, err = nb.Pay(gs, op.Amt)
	}
	return
}

func opCmd(kind string, op GameOp) string {
	return fmt.Sprintf("%s %d %d %d", kind, op.Code, op.Who, op.Amt)
}

// ---------- the hand driver ----------
type hand struct {
	o       *Out
	cfg     GameCfg
	g       pf.Game
	ops     []GameOp
	twin    *pf.GameState
	nb      *table.NativeBackend
	mon     roundMonitor
	probeP  float64
	rng     *rand.Rand
	flags   map[string]bool
	startCW int64
}

func (h *hand) replay() interface{} {
	return GameCase{h.cfg, append([]GameOp{}, h.ops...)}
}

func (h *hand) viol(prop, kind, what string) { h.o.Violate(prop, kind, what, h.replay()) }

func newGameArgs(c GameCfg, deck0, deck1 []string) []int64 {
	burn := int64(1)
	if c.Burn != nil {
		burn = int64(*c.Burn)
	}
	args := []int64{c.Ante, c.DB, c.SB, c.BB, b2i(c.Limit == "pot"), int64(c.Hole), int64(c.Req), int64(c.Table), burn, int64(len(c.Bank))}
	for i := range c.Bank {
		pos := c.positions(i)
		has := func(x string) int64 {
			for _, y := range pos {
				if y == x {
					return 1
				}
			}
			return 0
		}
		args = append(args, c.Bank[i], has("dealer"), has("sb"), has("bb"))
	}
	args = append(args, counted(deck0)...)
	args = append(args, counted(deck1)...)
	return args
}

func isPerm(a, b []string) bool {
	if len(a) != len(b) {
		return false
	}
	m := map[string]int{}
	for _, x := range a {
		m[x]++
	}
	for _, x := range b {
		m[x]--
	}
	for _, v := range m {
		if v != 0 {
			return false
		}
	}
	return true
}

// startHand creates the game, runs Start(), fixes the deck order, emits game-new. Returns nil when Start refused.
func startHand(o *Out, cfg GameCfg, rng *rand.Rand, probeP float64) *hand {
	h := &hand{o: o, cfg: cfg, rng: rng, probeP: probeP, nb: table.NewNativeBackend(), flags: map[string]bool{}}
	opts := cfg.options()
	deck0 := append([]string{}, opts.Deck...)
	b, _ := json.Marshal(cfg)
	o.Mark("game " + string(b))
	g := pf.NewPokerFace().NewGame(opts)
	var err error
	var pan interface{}
	func() {
		defer func() { pan = recover() }()
		err = g.Start()
	}()
	if pan != nil {
		h.viol("C06", "start-panic", fmt.Sprint(pan))
		return nil
	}
	// C06: a hand starts only with >= 2 players, positive bankrolls, a dealer and a deck
	wantErr := int64(0)
	switch {
	case len(cfg.Bank) < 2:
		wantErr = 4
	case cfg.Dealer < 0 || cfg.Dealer >= len(cfg.Bank):
		wantErr = 5
	default:
		for _, b := range cfg.Bank {
			if b <= 0 {
				wantErr = 6
			}
		}
		if wantErr == 0 && len(deck0) < len(cfg.Bank)*cfg.Hole+8 {
			wantErr = 7
		}
	}
	if errGameCode(err) != wantErr {
		h.viol("C06", "start-acceptance", fmt.Sprintf("Start() returned %v, expected code %d", err, wantErr))
	}
	gs := g.GetState()
	if err != nil {
		var ob Obs
		ob.K("o", errGameCode(err))
		o.Line("game-new "+ints(newGameArgs(cfg, deck0, deck0)...), ob.String())
		return nil
	}
	// C14: shuffling only reorders the deck
	if !isPerm(deck0, gs.Meta.Deck) {
		h.viol("C14", "shuffle-changed-cards", "deck after Start() is not a permutation of the configured deck")
	}
	if cfg.Shuffle != nil && len(cfg.Shuffle) == len(gs.Meta.Deck) {
		copy(gs.Meta.Deck, cfg.Shuffle)
	}
	h.cfg.Shuffle = append([]string{}, gs.Meta.Deck...)
	h.g = g
	var ob Obs
	ob.K("o", 0)
	stateObs(&ob, gs)
	o.Line("game-new "+ints(newGameArgs(cfg, deck0, gs.Meta.Deck)...), ob.String())
	h.twin = cloneState(gs)
	return h
}

// do executes an op on the in-memory game and on the JSON twin, emits lines, runs the oracles
func (h *hand) do(op GameOp) (error, bool) {
	gs := h.g.GetState()
	pre := cloneState(gs)
	h.ops = append(h.ops, op)
	err, pan := applyOp(h.g, op)
	if pan != nil {
		h.viol("C06", "engine-panic", fmt.Sprintf("op %+v: %v", op, pan))
		h.o.Line(opCmd("game-do", op), "o=9")
		return nil, true
	}
	// a bystander: once the hole cards are out, every third hand sees another game of the same kind created and
	// started in the same process; games share nothing, so this hand must not notice (C14: the deck and the
	// cards dealt never change)
	if !h.flags["bystander"] && gs.Status.Round == "preflop" && (len(h.cfg.Bank)+len(h.ops))%3 == 0 {
		h.flags["bystander"] = true
		func() {
			defer func() { recover() }()
			pf.NewPokerFace().NewGame(h.cfg.options()).Start()
		}()
	}
	var ob Obs
	ob.K("o", errGameCode(err))
	stateObs(&ob, gs)
	h.o.Line(opCmd("game-do", op), ob.String())
	// C07: the same op through the stateless backend from the serialised state
	{
		in := canonJSON(h.twin)
		var out *pf.GameState
		var berr error
		var bpan interface{}
		if op.Who < 0 {
			out, berr, bpan = applyBackend(h.nb, h.twin, op)
		} else {
			// a seat addressed directly: rebuild the game from JSON as the backend would
			x := pf.NewPokerFace().NewGameFromState(cloneState(h.twin))
			berr, bpan = applyOp(x, op)
			if berr == nil && bpan == nil {
				out = cloneState(x.GetState())
			}
		}
		if bpan != nil {
			h.viol("C07", "backend-panic", fmt.Sprint(bpan))
		} else {
			if canonJSON(h.twin) != in {
				h.viol("C07", "backend-modified-its-input", fmt.Sprintf("op %+v", op))
			}
			if (berr == nil) != (err == nil) {
				h.viol("C07", "resumed-game-reacts-differently", fmt.Sprintf("op %+v: in-memory err=%v, resumed err=%v", op, err, berr))
			}
			if berr == nil && out != nil {
				h.twin = out
			}
			if canonJSON(h.twin) != canonJSON(gs) {
				h.viol("C07", "resumed-game-diverges", fmt.Sprintf("after op %+v the state rebuilt from JSON differs from the in-memory game", op))
				h.twin = cloneState(gs)
			}
		}
	}
	h.afterOp(pre, gs, op, err)
	return err, false
}

func runGame(o *Out, rng *rand.Rand, n int, mode string, scope int, replay string) int {
	cases := 0
	switch mode {
	case "replay", "corpus":
		data, err := os.ReadFile(replay)
		if err == nil {
			var cs []GameCase
			if json.Unmarshal(data, &cs) != nil {
				var one GameCase
				if json.Unmarshal(data, &one) == nil {
					cs = []GameCase{one}
				}
			}
			for _, c := range cs {
				replayHand(o, c, rng)
				cases++
			}
		}
	case "exhaustive":
		cases = gameTrees(o, scope)
	default:
		for i := 0; i < n; i++ {
			playRandomHand(o, rng, genCfg(rng, i), 0.25)
			cases++
		}
		startCases(o, rng)
		cases += exactFitHands(o, rng)
	}
	return cases
}

func genCfg(rng *rand.Rand, i int) GameCfg {
	c := GameCfg{Limit: "no", Hole: 2}
	n := 2 + rng.Intn(5)
	if rng.Intn(8) == 0 {
		n = 7 + rng.Intn(3)
	}
	if rng.Intn(4) == 0 {
		c.Limit = "pot"
	}
	if rng.Intn(5) == 0 {
		c.Hole, c.Req = 4, 2
	} else if rng.Intn(8) == 0 {
		c.Hole, c.Req = 2, 2 // both hole cards must play
	}
	// now and then a table beyond the usual ring: the engine takes as many seats as the deck can serve
	if rng.Intn(16) == 0 {
		n = 10 + rng.Intn(13)
		if c.Hole*n+8 > 52 {
			n = (52 - 8) / c.Hole
		}
	}
	c.Short = rng.Intn(4) == 0
	if c.Short && c.Hole*n+8 > 36 {
		c.Short = false
	}
	c.Table = 0
	if c.Short || rng.Intn(8) == 0 {
		c.Table = 1
	}
	c.Dealer = rng.Intn(n)
	if rng.Intn(6) == 0 {
		b := rng.Intn(4)
		c.Burn = &b
	}
	c.DeadSB = n > 2 && rng.Intn(4) == 0
	c.BB = int64(1 + rng.Intn(10))
	c.SB = int64(rng.Intn(int(c.BB) + 1))
	if rng.Intn(12) == 0 {
		c.BB = 0
	}
	if rng.Intn(3) == 0 {
		c.Ante = int64(1 + rng.Intn(5))
	}
	if rng.Intn(4) == 0 {
		c.DB = int64(1 + rng.Intn(12))
	}
	big := rng.Intn(12) == 0
	tiny := rng.Intn(5) == 0 // several stacks below one big blind
	for k := 0; k < n; k++ {
		b := int64(1 + rng.Intn(40))
		if tiny && rng.Intn(2) == 0 {
			b = int64(1 + rng.Intn(int(c.BB)+2))
		}
		switch rng.Intn(6) {
		case 0: // around a forced amount
			forced := []int64{c.Ante, c.BB, c.SB, c.DB, c.Ante + c.BB, c.Ante + c.SB}
			f := forced[rng.Intn(len(forced))]
			b = f + int64(rng.Intn(3)) - 1
			if b < 1 {
				b = 1
			}
		}
		if big {
			b = int64(1000) + rng.Int63n(int64(1e15))
		}
		c.Bank = append(c.Bank, b)
	}
	return c
}

// bias the deck so that the board plays (ties at showdown): T J Q K A of mixed suits on the board
func tieDeck(rng *rand.Rand, deck []string, nplayers, hole int) []string {
	d := append([]string{}, deck...)
	want := []string{"ST", "HJ", "DQ", "CK", "SA"}
	if rng.Intn(2) == 0 {
		want = []string{"S9", "H9", "D9", "C9", "SA"} // quads on board, ace kicker
	}
	base := nplayers * hole
	pos := []int{base + 1, base + 2, base + 3, base + 5, base + 7}
	for i, w := range want {
		if pos[i] >= len(d) {
			return deck
		}
		for j, c := range d {
			if c == w {
				d[j], d[pos[i]] = d[pos[i]], d[j]
			}
		}
	}
	return d
}

func playRandomHand(o *Out, rng *rand.Rand, cfg GameCfg, probeP float64) {
	if rng.Intn(6) == 0 {
		full := deckOf(cfg.Short)
		rng.Shuffle(len(full), func(i, j int) { full[i], full[j] = full[j], full[i] })
		cfg.Shuffle = tieDeck(rng, full, len(cfg.Bank), cfg.Hole)
	}
	h := startHand(o, cfg, rng, probeP)
	if h == nil {
		return
	}
	h.checkState()
	passive := cfg.Passive || rng.Intn(5) == 0 // some hands are played to the river without folds/all-ins
	for step := 0; step < 2000; step++ {
		gs := h.g.GetState()
		h.probe()
		var op GameOp
		switch gs.Status.CurrentEvent {
		case "ReadyRequested":
			op = GameOp{0, -1, 0}
		case "AnteRequested":
			op = GameOp{1, -1, 0}
		case "BlindsRequested":
			op = GameOp{2, -1, 0}
		case "RoundClosed":
			op = GameOp{3, -1, 0}
		case "GameClosed":
			h.finish()
			return
		case "RoundStarted":
			op = h.chooseAction(passive)
		default:
			h.viol("C06", "stuck", "event "+gs.Status.CurrentEvent+" is not a wait point")
			return
		}
		err, pan := h.do(op)
		if pan {
			return
		}
		if err != nil {
			h.viol("C06", "expected-step-refused", fmt.Sprintf("op %+v at %s: %v", op, gs.Status.CurrentEvent, err))
			return
		}
	}
	h.viol("C06", "no-termination", "2000 accepted steps without reaching GameClosed")
}

func (h *hand) chooseAction(passive bool) GameOp {
	gs := h.g.GetState()
	p := gs.Players[gs.Status.CurrentPlayer]
	aa := p.AllowedActions
	if len(aa) == 0 {
		return GameOp{10, -1, 0}
	}
	has := func(a string) bool {
		for _, x := range aa {
			if x == a {
				return true
			}
		}
		return false
	}
	rng := h.rng
	a := aa[rng.Intn(len(aa))]
	if passive {
		switch {
		case has("check"):
			a = "check"
		case has("call"):
			a = "call"
		}
	} else if rng.Intn(3) == 0 && has("raise") {
		a = "raise"
	} else if a == "fold" && rng.Intn(2) == 0 && has("call") {
		a = "call"
	}
	cw, prs := gs.Status.CurrentWager, gs.Status.PreviousRaiseSize
	via := -1
	if rng.Intn(3) == 0 {
		via = gs.Status.CurrentPlayer
	}
	switch a {
	case "bet":
		cands := []int64{1, gs.Status.MiniBet - 1, gs.Status.MiniBet, gs.Status.MiniBet + 1, p.StackSize - 1, p.StackSize, p.StackSize + 1, 1 + rng.Int63n(p.StackSize+2)}
		amt := cands[rng.Intn(len(cands))]
		if amt < 1 {
			amt = 1
		}
		return GameOp{15, via, amt}
	case "raise":
		cands := []int64{cw + 1, cw + prs - 1, cw + prs, cw + prs + 1, p.InitialStackSize - 1, p.InitialStackSize, p.InitialStackSize + 1, cw + 1 + rng.Int63n(p.StackSize+2), 2*cw + prs}
		amt := cands[rng.Intn(len(cands))]
		if amt <= cw {
			amt = cw + 1
		}
		return GameOp{16, via, amt}
	}
	for i, n := range actionNames {
		if n == a {
			return GameOp{10 + i, via, 0}
		}
	}
	return GameOp{10, via, 0}
}

func replayHand(o *Out, c GameCase, rng *rand.Rand) {
	h := startHand(o, c.Cfg, rng, 1.0)
	if h == nil {
		return
	}
	h.checkState()
	for _, op := range c.Ops {
		h.probe()
		_, pan := h.do(op)
		if pan {
			return
		}
	}
	h.probe()
	if h.g.GetState().Status.CurrentEvent == "GameClosed" {
		h.finish()
	}
}

// configurations Start() must refuse / accept (C06)
func startCases(o *Out, rng *rand.Rand) {
	base := func() GameCfg {
		return GameCfg{Bank: []int64{10, 10, 10}, BB: 2, SB: 1, Limit: "no", Hole: 2, Dealer: 0}
	}
	c := base()
	c.Bank = []int64{10}
	startHand(o, c, rng, 0)
	c = base()
	c.Bank[1] = 0
	startHand(o, c, rng, 0)
	c = base()
	c.Bank[2] = -5
	startHand(o, c, rng, 0)
	c = base()
	c.Dealer = -1 // nobody holds the dealer position
	startHand(o, c, rng, 0)
	c = base()
	c.Deck = []string{}
	startHand(o, c, rng, 0)
	for _, k := range []int{1, 13, 14, 15} {
		c = base()
		c.Deck = deckOf(false)[:k]
		startHand(o, c, rng, 0)
	}
	c = base()
	c.Bank = make([]int64, 10)
	for i := range c.Bank {
		c.Bank[i] = 5
	}
	c.Hole, c.Req, c.Short = 4, 2, true
	startHand(o, c, rng, 0)
}

// exactFitHands: the deck holds exactly players*hole+8 cards (the smallest deck Start accepts) and the hand
// is played to the river: the deal must use every card of the deck and never run past it
func exactFitHands(o *Out, rng *rand.Rand) int {
	cases := 0
	for _, sh := range []struct {
		n, hole, req int
		short        bool
	}{{2, 2, 0, false}, {3, 2, 0, false}, {6, 2, 0, true}, {5, 4, 2, false}, {7, 4, 2, true}, {9, 2, 2, false}} {
		c := GameCfg{Limit: "no", Hole: sh.hole, Req: sh.req, Short: sh.short, BB: 2, SB: 1, Passive: true}
		if sh.short {
			c.Table = 1
		}
		for k := 0; k < sh.n; k++ {
			c.Bank = append(c.Bank, int64(40+rng.Intn(20)))
		}
		c.Dealer = rng.Intn(sh.n)
		full := deckOf(sh.short)
		rng.Shuffle(len(full), func(i, j int) { full[i], full[j] = full[j], full[i] })
		c.Deck = full[:sh.n*sh.hole+8]
		playRandomHand(o, rng, c, 0.1)
		cases++
		// the same table with a burn count other than one in the options: one card is burned per street
		// whatever the option says, and the deck that fits exactly still does
		for _, b := range []int{0, 2, 3} {
			c2 := c
			bb := b
			c2.Burn = &bb
			// own random source: the hands that follow stay the ones they were before these were added
			playRandomHand(o, rand.New(rand.NewSource(int64(1000*sh.n+10*sh.hole+b))), c2, 0.1)
			cases++
		}
	}
	return cases
}

var _ = math.MaxInt64
var _ = strings.Contains
