(* Base.v — shared definitions for the pokerface models.
   Only total, computable definitions; no proofs live here. *)
From Coq Require Export String.
From Coq Require Export List ZArith Bool Arith.
Export ListNotations.
Open Scope Z_scope.

(* An observation is a list of (key, integer list) pairs.  Both the Go harness and
   the extracted model print observations in the same textual form
   "key=v1,v2 key=..." and the check compares them through per-property projections. *)
Definition obs := list (string * list Z).

Definition zb (b : bool) : Z := if b then 1 else 0.
Definition zn (n : nat) : Z := Z.of_nat n.

Fixpoint zsum (l : list Z) : Z :=
  match l with [] => 0 | x :: t => x + zsum t end.

Fixpoint zmax_list (l : list Z) : Z :=
  match l with [] => 0 | x :: t => Z.max x (zmax_list t) end.

(* Go's sort.Slice on at most 12 elements is a plain insertion sort:
     for i := 1; i < n; i++ { for j := i; j > 0 && less(d[j], d[j-1]); j-- { swap } }
   We keep the already sorted prefix reversed (last element first). *)
Section InsertionSort.
  Context {A : Type} (less : A -> A -> bool).
  Fixpoint ins_rev (x : A) (r : list A) : list A :=
    match r with
    | [] => [x]
    | e :: r' => if less x e then e :: ins_rev x r' else x :: r
    end.
  Definition isort (l : list A) : list A :=
    rev (fold_left (fun r x => ins_rev x r) l []).
End InsertionSort.

(* sorted insertion of integers (ascending, no duplicates) — used for sets *)
Fixpoint zset_add (x : Z) (l : list Z) : list Z :=
  match l with
  | [] => [x]
  | y :: t => if x <? y then x :: l else if x =? y then l else y :: zset_add x t
  end.

Fixpoint zmem (x : Z) (l : list Z) : bool :=
  match l with [] => false | y :: t => (x =? y) || zmem x t end.

(* association list keyed by Z, kept sorted by key; update overwrites *)
Fixpoint zmap_set {A} (k : Z) (v : A) (l : list (Z * A)) : list (Z * A) :=
  match l with
  | [] => [(k, v)]
  | (k', v') :: t =>
      if k <? k' then (k, v) :: l
      else if k =? k' then (k, v) :: t
      else (k', v') :: zmap_set k v t
  end.

Fixpoint zmap_get {A} (k : Z) (l : list (Z * A)) : option A :=
  match l with
  | [] => None
  | (k', v) :: t => if k =? k' then Some v else zmap_get k t
  end.

Fixpoint update_nth {A} (n : nat) (f : A -> A) (l : list A) : list A :=
  match l, n with
  | [], _ => []
  | x :: t, O => f x :: t
  | x :: t, S n' => x :: update_nth n' f t
  end.

Fixpoint seqZ_from (start : Z) (n : nat) : list Z :=
  match n with O => [] | S n' => start :: seqZ_from (start + 1) n' end.

Definition option_default {A} (d : A) (o : option A) : A :=
  match o with Some x => x | None => d end.

(* rotate a list so that position k comes first *)
Definition rotate {A} (k : nat) (l : list A) : list A := skipn k l ++ firstn k l.

Fixpoint zlist_eqb (a b : list Z) : bool :=
  match a, b with
  | [], [] => true
  | x :: a', y :: b' => (x =? y) && zlist_eqb a' b'
  | _, _ => false
  end.

Fixpoint obs_eqb (a b : obs) : bool :=
  match a, b with
  | [], [] => true
  | (k, v) :: a', (k', v') :: b' => String.eqb k k' && zlist_eqb v v' && obs_eqb a' b'
  | _, _ => false
  end.
