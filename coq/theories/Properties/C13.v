(* C13 — antes and blinds are posted by the right seats in the right amounts.
   The two theorems describe PayAnte and PayBlinds from any state in which every seat satisfies the chip
   identity and has nothing in front of it (which is the case when the engine asks for antes / blinds). *)
From PF Require Import Base ModelGame ProofsChips ProofsInv ProofsBlinds.

(* every player pays the ante, capped at what he has; it goes straight to the pot and does not count
   toward the wager to match *)
Theorem C13_ante :
  forall g, st_event (g_st g) = EvAnteRequested -> 0 < m_ante (g_meta g) ->
    (forall i, (i < nplayers g)%nat -> seat_ok (get_p g i) /\ p_wager (get_p g i) = 0) ->
    let g' := fst (do_pay_ante g) in
    nplayers g' = nplayers g /\ st_cw (g_st g') = 0 /\
    forall i, (i < nplayers g)%nat ->
      p_pot (get_p g' i) = p_pot (get_p g i) + Z.min (m_ante (g_meta g)) (p_stack (get_p g i)) /\
      p_wager (get_p g' i) = 0 /\
      p_stack (get_p g' i) = p_stack (get_p g i) - Z.min (m_ante (g_meta g)) (p_stack (get_p g i)).
Proof. exact pay_ante_result. Qed.
Print Assumptions C13_ante.

(* the holders of big blind, small blind and dealer blind post their blind (one blind per seat, priority
   bb > sb > dealer) capped at what they have, nobody else posts anything (blind_chips is 0 for a seat
   without a position); the wager to match is the largest blind actually posted; the minimum raise is
   the big blind (the dealer blind when there is no big blind) *)
Theorem C13_blinds :
  forall g, st_event (g_st g) = EvBlindsRequested -> meta_ok (g_meta g) -> st_cw (g_st g) = 0 ->
    (forall i, (i < nplayers g)%nat -> seat_ok (get_p g i) /\ p_wager (get_p g i) = 0) ->
    let g' := fst (do_pay_blinds g) in
    let posted i := blind_chips (g_meta g) (get_p g i) in
    nplayers g' = nplayers g /\
    (forall i, (i < nplayers g)%nat ->
       p_wager (get_p g' i) = posted i /\ p_stack (get_p g' i) = p_stack (get_p g i) - posted i /\
       p_pot (get_p g' i) = p_pot (get_p g i)) /\
    (forall i, (i < nplayers g)%nat -> posted i <= st_cw (g_st g')) /\
    (st_cw (g_st g') = 0 \/ exists i, (i < nplayers g)%nat /\ st_cw (g_st g') = posted i) /\
    st_prs (g_st g') = (if 0 <? m_bbb (g_meta g) then m_bbb (g_meta g) else m_bdealer (g_meta g)).
Proof. exact pay_blinds_result. Qed.
Print Assumptions C13_blinds.

(* in every reachable state in which the engine asks for the antes / the blinds, the premises of the two
   theorems above hold: the antes (blinds) are requested on a table with nothing in front of any seat *)
From PF Require Import ProofsPhase.
Theorem C13_requested_on_a_clean_table :
  forall c deck g ops,
    cfg_ok c -> length deck = length (c_deck c) -> create c deck = (g, Ok) ->
    let s := run g ops in
    (st_event (g_st s) = EvAnteRequested ->
       0 < m_ante (g_meta s) /\ forall i, (i < nplayers s)%nat -> seat_ok (get_p s i) /\ p_wager (get_p s i) = 0) /\
    (st_event (g_st s) = EvBlindsRequested ->
       meta_ok (g_meta s) /\ st_cw (g_st s) = 0 /\ forall i, (i < nplayers s)%nat -> seat_ok (get_p s i) /\ p_wager (get_p s i) = 0).
Proof.
  intros c deck g ops Hc Hl Hcr s. destruct (Good_reachable c deck g ops Hc Hl Hcr) as [HI _ _ P _]. fold s in HI, P.
  pose proof (inv_chips s HI) as C0. split.
  - intros He. split; [apply (pi_ante s P He)|]. intros i Hi. split; [apply (c0_seats s C0 i Hi)|].
    assert (Hr : st_round (g_st s) = RNone) by (pose proof (pi_legal s P) as L; unfold ph in L; rewrite He in L; exact L).
    apply (proj1 (pi_none s P Hr) i Hi).
  - intros He. destruct (pi_blinds s P He) as [W0 C]. split; [apply (c0_meta s C0)|]. split; [exact C|].
    intros i Hi. split; [apply (c0_seats s C0 i Hi)|apply (W0 i Hi)].
Qed.
Print Assumptions C13_requested_on_a_clean_table.

Theorem C13_forced_payment_capped_at_stack :
  forall g i chips is_wager,
    (i < nplayers g)%nat -> seat_ok (get_p g i) ->
    p_wager (get_p (pay g i chips is_wager) i)
      = p_wager (get_p g i) + (if p_stack (get_p g i) <=? chips then p_stack (get_p g i) else chips)
    /\ p_pot (get_p (pay g i chips is_wager) i) = p_pot (get_p g i).
Proof. exact pay_wager. Qed.
Print Assumptions C13_forced_payment_capped_at_stack.

Theorem C13_blind_priority :
  forall m p,
    blind_of m p =
    if (0 <? m_bbb m) && p_bb p then (m_bbb m, LBigBlind)
    else if (0 <? m_bsb m) && p_sb p then (m_bsb m, LSmallBlind)
    else if (0 <? m_bdealer m) && p_dealer p then (m_bdealer m, LDealerBlind)
    else (0, LDealerBlind).
Proof. reflexivity. Qed.
Print Assumptions C13_blind_priority.

(* the known finding F10 on the model: with dealer blind 0, small blind 0 and a big blind the engine
   goes from the deal straight to "ready" — the blinds are never requested *)
Example C13_F10_witness :
  let c := mkCfg 0 0 0 2 false 2 0 [] (seqZ_from 0 30) 1
                 [(40, (true, false, false)); (30, (false, true, false)); (25, (false, false, true))] in
  exists g, create c (seqZ_from 0 30) = (g, Ok) /\
            st_event (g_st (run g [OReady])) = EvReadyRequested /\ st_round (g_st (run g [OReady])) = Preflop /\
            map p_wager (g_players (run g [OReady])) = [0; 0; 0].
Proof. eexists. split; [vm_compute; reflexivity|]. vm_compute. auto. Qed.

(* the deal is followed by the request for the blinds in every configuration but the one of the known
   finding F10 (no dealer blind, no small blind, a big blind) *)
Theorem C13_blinds_requested_unless_F10 :
  forall g, snd (enter_preflop g) = Ok ->
    st_event (g_st (fst (enter_preflop g))) = EvBlindsRequested \/
    (m_bdealer (g_meta g) = 0 /\ m_bsb (g_meta g) = 0 /\ 0 < m_bbb (g_meta g)).
Proof.
  intros g. unfold enter_preflop. destruct (negb _); [discriminate|]. intros _.
  destruct ((m_bdealer (g_meta g) =? 0) && (m_bsb (g_meta g) =? 0) && (0 <? m_bbb (g_meta g))) eqn:E; [right|left; reflexivity].
  apply andb_prop in E as [E E3]. apply andb_prop in E as [E1 E2].
  apply Z.eqb_eq in E1. apply Z.eqb_eq in E2. apply Z.ltb_lt in E3. auto.
Qed.
Print Assumptions C13_blinds_requested_unless_F10.
