(* C16 — published pots partition the chips into correctly nested side pots. *)
From PF Require Import Base ModelPot ProofsPot.

(* the contribution levels behind the published pots are strictly increasing,
   for every vector of (index, contribution, fold) in any insertion order *)
Theorem C16_levels_increasing :
  forall inputs : list (Z * Z * bool), zsorted (map l_level (ll_levels (ll_of inputs))).
Proof. exact ll_levels_sorted. Qed.
Print Assumptions C16_levels_increasing.
