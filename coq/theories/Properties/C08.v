(* C08 — dealer, small blind and big blind land on the right seats. *)
From PF Require Import Base ModelSeat ProofsSeatBasic ProofsSeat.

(* whenever the seat manager successfully moves to the next hand, dealer, small blind and big blind
   sit on occupied, active, non-reserved seats — for every state, hence every history *)
Theorem C08_positions_on_playable_seats :
  forall s s', sm_next s = (s', SOk) ->
    exists d sb bb, sm_dealer s' = Some d /\ sm_sb s' = Some sb /\ sm_bb s' = Some bb /\
                    pl s' d = true /\ pl s' sb = true /\ pl s' bb = true.
Proof. exact sm_next_positions. Qed.
Print Assumptions C08_positions_on_playable_seats.

(* blinds are found by the clockwise scan; a scan that fails means no playable seat *)
Theorem C08_scan_none_means_no_playable :
  forall s idxs start, find_active s idxs start = None -> forall i, In i idxs -> playable (get_seat s i) = false.
Proof. exact find_active_none. Qed.
Print Assumptions C08_scan_none_means_no_playable.

(* the known finding F11, as a witness on the model: after this history on five seats three seats are
   playable but the dealer is also the small blind *)
Example C08_F11_witness :
  let s := sm_run 5 [OJoin 0 0; OSeat 0; OJoin 1 0; OSeat 1; OJoin 2 0; OJoin 4 0; OSeat 4; ONext;
                     OLeave 0; OSeat 2; OJoin 3 0; OSeat 3; OLeave 4; ONext] in
  playable_count s = 3%nat /\ sm_dealer s = sm_sb s.
Proof. vm_compute. split; reflexivity. Qed.
