(* C06 — a hand always tells its driver what comes next and always finishes. *)
From PF Require Import Base ModelGame ProofsGameBasic.

(* once closed (nobody is offered anything), every operation is refused and changes nothing *)
Theorem C06_closed_accepts_nothing :
  forall g o,
    st_event (g_st g) = EvGameClosed ->
    (forall i, p_allowed (get_p g i) = []) ->
    (match o with OAct who _ _ => (seat_of g who < nplayers g)%nat | _ => True end) ->
    exists e, step g o = (g, e) /\ e <> Ok.
Proof. exact closed_refuses. Qed.
Print Assumptions C06_closed_accepts_nothing.
