"""Per-property run plans: which harness components run in which tier, through which projection
(keys compared between implementation and model; None = every key), and what the oracle search does
when an obligation breaks."""

POT_KEYS = ["levels", "pots", "potlevels"]
SETTLE_KEYS = ["panic", "ridx", "rfinal", "rchanged", "rpots"]
EVAL_KEYS = ["ctype", "cpower", "ccards"]
BEST_KEYS = ["ncomb", "ctype", "cpower", "ccards", "combos"]

PLANS = {
    "C16": {
        "keys": {"pot": POT_KEYS},
        "corpus": ["pot"],
        "quick": [("pot", {"n": 6000}), ("pot", {"mode": "exhaustive", "scope": 3})],
        "thorough": [("pot", {"n": 300000}), ("pot", {"mode": "exhaustive", "scope": 5})],
        "search": [("pot", {"n": 60000}), ("pot", {"mode": "exhaustive", "scope": 4})],
        "rule": "random contribution/fold vectors (1-15 players, 1-4 distinct levels incl. zero and equal amounts, "
                "random insertion order) plus every vector with n<=scope players and contributions 0..4; a case is "
                "non-trivial when it has two distinct positive contributions or a folded contributor with chips; "
                "distinct = distinct input vectors",
        "assumptions": ["contributions are non-negative", "player indices are distinct"],
        "trusted_base": ["model: ModelPot.v (add_contributor, build_levels, get_pots)"],
    },
    "C02": {
        "keys": {"settle": SETTLE_KEYS, "pot": POT_KEYS},
        "corpus": ["settle"],
        "quick": [("settle", {"n": 6000}), ("settle", {"mode": "exhaustive", "scope": 3})],
        "thorough": [("settle", {"n": 300000}), ("settle", {"mode": "exhaustive", "scope": 5})],
        "search": [("settle", {"n": 60000}), ("settle", {"mode": "exhaustive", "scope": 4})],
        "rule": "random (contribution, fold, score) vectors with 1-3 distinct scores so that 2- to n-way ties are common, "
                "plus every vector with n<=scope players, contributions 0..4, scores 1..3; non-trivial = a side pot, a "
                "folded contributor with chips or a tie; distinct = distinct input vectors. Engine showdowns are covered "
                "by the engine traces of C01",
        "assumptions": ["score > 0 exactly for the non-folded players (as game.CalculateGameResults passes them)"],
        "trusted_base": ["model: ModelPot.v, ModelSettle.v"],
    },
    "C03": {
        "keys": {"eval": EVAL_KEYS},
        "corpus": ["eval"],
        "quick": [("eval", {"n": 3000})],
        "thorough": [("eval", {"mode": "exhaustive", "scope": 52, "timeout": 14000}),
                     ("eval", {"mode": "exhaustive", "scope": 36})],
        "search": [("eval", {"n": 50000}), ("eval", {"mode": "exhaustive", "scope": 36})],
        "rule": "one random representative (random suits, random order) of each of the 7,462 rank/flush classes under "
                "both ranking tables plus random hands from both decks; the oracle sorts them by the poker order and "
                "requires the scores to move exactly as the order does; distinct = distinct (table, poker key)",
        "assumptions": ["cards are drawn from the 52-card deck"],
        "trusted_base": ["model: ModelEval.v (calc_power) over the generated constants Gen/Consts.v"],
    },
    "C10": {
        "keys": {"best": BEST_KEYS},
        "corpus": ["best"],
        "quick": [("best", {"n": 3000})],
        "thorough": [("best", {"n": 200000})],
        "search": [("best", {"n": 30000})],
        "rule": "random hole/board draws (2 hole cards, or 4 with exactly 2 required; 3-5 board cards; both decks and "
                "tables; biased to four-flushes and paired boards) plus the raw enumeration for every hole/board size; "
                "non-trivial = more than one admissible selection; engine traces of C01 add the per-seat reports in play",
        "assumptions": ["with more than 12 candidate hands Go's sort.Slice is not stable: which of several equally strong "
                        "hands is reported is validated by the oracle, not compared literally"],
        "trusted_base": ["model: ModelEval.v (gospers, all_combinations, best_power)"],
    },

}

# ---------------- engine properties ----------------
CHIPS = ["bk", "init", "stack", "ppot", "wager", "rpot", "cw"]
RESULT = ["hasres", "ridx", "rfinal", "rchanged", "rpots"]
GAME_RULE = ("random hands: 2-9 seats, button anywhere, dead small blind 1/4, pot-limit 1/4, short deck 1/4, 4 hole "
             "cards with 2 required 1/5, ante / blinds / dealer blind 0 or small, bankrolls 1..40 (1/12 of the hands "
             "10^3..10^15), 1/6 of the decks stacked so that the board plays (split pots); actions drawn from the offer "
             "with boundary amounts; at a quarter of the visited states every seat x every action x the amount set "
             "{min int64,-3,-1,0,1,CW-1,CW,CW+1,CW+PRS-1,CW+PRS,stack-1,stack,stack+1,initial-1,initial,initial+1,max int64} "
             "and the four table operations are tried on JSON clones; every operation is also run through "
             "table.NativeBackend from the serialised state. non-trivial = the hand saw an all-in, a fold or a showdown; "
             "distinct = distinct (configuration, operation list)")
GAME_ASSUME = ["valid configurations (DESIGN.md 2.1); amounts are int64 and the sum of bankrolls is below 2^61 (model uses Z)",
               "operations are those of table/native_backend.go plus Game.Player(i).<action>"]


def game_plan(keys, cmds=None, extra_quick=None, extra_thorough=None, rule_extra="", n_quick=400):
    k = {"game": keys}
    q = [("game", {"n": n_quick, "cmds": cmds})]
    t = [("game", {"n": 4000, "cmds": cmds}), ("game", {"mode": "exhaustive", "scope": 3, "cmds": cmds})]
    return {
        "keys": k,
        "corpus": ["game"],
        "quick": q + (extra_quick or []),
        "thorough": t + (extra_thorough or []),
        "search": [("game", {"n": 1500}), ("game", {"mode": "exhaustive", "scope": 2})],
        "rule": GAME_RULE + rule_extra,
        "assumptions": GAME_ASSUME,
        "trusted_base": ["model: ModelGame.v (create, step, view, erase) with ModelPot/ModelSettle/ModelEval"],
    }


PLANS["C01"] = game_plan(["o", "same"] + CHIPS + ["pots"] + RESULT,
                         extra_quick=[("settle", {"n": 4000})],
                         extra_thorough=[("settle", {"n": 200000}), ("settle", {"mode": "exhaustive", "scope": 4})],
                         rule_extra="; the closing clauses are also checked on direct settlement vectors (see C02)")
PLANS["C01"]["keys"]["settle"] = SETTLE_KEYS
PLANS["C01"]["corpus"] = ["game", "settle"]
PLANS["C02"]["keys"]["game"] = RESULT + ["pots", "potlevels", "fold", "cpower"]
PLANS["C02"]["corpus"] = ["settle", "game"]
PLANS["C02"]["quick"].append(("game", {"n": 300, "cmds": ["game-do", "game-new"]}))
PLANS["C02"]["thorough"].append(("game", {"n": 4000, "cmds": ["game-do", "game-new"]}))
PLANS["C04"] = game_plan(["o", "same", "ev", "rd", "cur", "allowed"])
PLANS["C05"] = game_plan(["o", "ev", "rd", "cw", "acted", "fold", "stack", "wager", "board", "dpos"], cmds=["game-do", "game-new"])
PLANS["C06"] = game_plan(["o", "same", "ev", "rd", "hasres"])
PLANS["C07"] = game_plan(None, cmds=["game-do", "game-new"],
                         rule_extra="; every field of the state is compared after every operation")
PLANS["C07"]["quick"].append(("schema", {}))
PLANS["C07"]["thorough"].append(("schema", {}))
PLANS["C10"]["keys"]["game"] = ["ctype", "cpower", "ccards"]
PLANS["C10"]["corpus"] = ["best", "game"]
PLANS["C10"]["quick"].append(("game", {"n": 300, "cmds": ["game-do", "game-new"]}))
PLANS["C10"]["thorough"].append(("game", {"n": 4000, "cmds": ["game-do", "game-new"]}))
PLANS["C11"] = game_plan(["o", "allowed"] + CHIPS)
PLANS["C12"] = game_plan(["o", "same", "prs", "raiser"] + CHIPS)
PLANS["C13"] = game_plan(["o", "ppot", "wager", "stack", "cw", "prs", "minibet"], cmds=["game-do", "game-new"])
PLANS["C14"] = game_plan(["o", "deck", "dpos", "board", "burned", "hole"], cmds=["game-do", "game-new"],
                         extra_quick=[("shuffle", {"n": 2000})], extra_thorough=[("shuffle", {"n": 100000})])
PLANS["C15"] = game_plan(None, cmds=["game-view"],
                         rule_extra="; at every visited state the JSON of AsPlayer(i) for every seat and of AsObserver() "
                                    "is searched for every card the viewer may not see; two views per state go to the model")
PLANS["C15"]["quick"].append(("schema", {}))
PLANS["C15"]["thorough"].append(("schema", {}))
PLANS["C16"]["keys"]["game"] = ["pots", "potlevels"]
PLANS["C16"]["corpus"] = ["pot", "game"]
PLANS["C16"]["quick"].append(("game", {"n": 300, "cmds": ["game-do", "game-new"]}))

# ---------------- seat manager ----------------
SEAT_RULE = ("random histories of join(seat | any | out-of-range) / sit-in / reserve / leave / next on tables of 1-10 seats, "
             "the newcomer scenario of C08, and the complete reachable graph (ApplyStates) for tables up to `scope` seats; "
             "non-trivial = a history with at least two successful next-hand moves; distinct = distinct histories")


def seat_plan(keys):
    return {
        "keys": {"seat": keys},
        "corpus": ["seat"],
        "quick": [("seat", {"n": 600}), ("seat", {"mode": "exhaustive", "scope": 4})],
        "thorough": [("seat", {"n": 20000}), ("seat", {"mode": "exhaustive", "scope": 5, "timeout": 3000})],
        "search": [("seat", {"n": 6000}), ("seat", {"mode": "exhaustive", "scope": 4})],
        "rule": SEAT_RULE,
        "assumptions": ["each public SeatManager method is atomic (it runs under sm.mu)"],
        "trusted_base": ["model: ModelSeat.v (sm_step, next_dealer, renew)"],
    }


PLANS["C08"] = seat_plan(["o", "occ", "act", "res", "pos"])
PLANS["C17"] = seat_plan(["o", "occ", "act", "res", "pos"])
PLANS["C18"] = seat_plan(["o", "ret", "occ", "res"])
PLANS["C18"]["quick"].append(("race", {"n": 400}))
PLANS["C18"]["thorough"].append(("race", {"n": 2000}))

# ---------------- regulator ----------------
REG_RULE = ("random histories of AddPlayers (batches 1-52), SetStatus (forward, repeated and skipping), SyncState with eliminations, delayed and immediate "
            "ReleasePlayers, syncs of unknown tables, registrations after the deadline, under settings 2<=min<=max<=10 "
            "(half at 9/6), each ending in a settle phase (sweeps without registrations or eliminations); the table "
            "picked by each dispatch (Go map order) is observed and fed to the model; exhaustive = initial allocation for "
            "every setting up to `scope` and 0..200 registrants in both orders; non-trivial = at least two tables opened")


def reg_plan():
    return {
        "keys": {"reg": None},
        "corpus": ["reg"],
        "quick": [("reg", {"n": 500})],
        "thorough": [("reg", {"n": 60000, "timeout": 6000}), ("reg", {"mode": "exhaustive", "scope": 12})],
        "search": [("reg", {"n": 5000})],
        "rule": REG_RULE,
        "assumptions": ["callbacks succeed (tables follow the regulator's instructions)",
                        "player counts below 2^26 (float comparisons equal rational ones)",
                        "each call eliminates at most the players present",
                        "the competition status never moves backwards (pending, normal, after the registration deadline are stages of a life cycle)"],
        "trusted_base": ["model: ModelReg.v and the system machine ModelSys.v (regulator with instruction-following tables, stepped beside the harness environment and compared with it); regulator/verif_hooks.go (read-only snapshot, build tag verif)"],
    }


PLANS["C09"] = reg_plan()
PLANS["C19"] = reg_plan()
PLANS["C19"]["quick"].append(("reg", {"mode": "exhaustive", "scope": 6}))
PLANS["C20"] = reg_plan()
