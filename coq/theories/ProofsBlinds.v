(* ProofsBlinds.v — antes and blinds are posted by the right seats in the right amounts (C13). *)
From Coq Require Import Lia Permutation.
From PF Require Import Base ProofsBase Comb ModelPot ModelSettle ModelEval ModelGame ProofsGameBasic ProofsChips ProofsInv ProofsPos.

(* what a forced payment of `amount` does to a seat that has nothing in front of it *)
Definition forced (p : pstate) (amount : Z) : Z * Z * Z * Z * Z :=
  let m := Z.min amount (p_stack p) in
  (p_bankroll p, p_initial p, p_stack p - m, p_pot p, m).

Lemma pay_forced g i amount w :
  (i < nplayers g)%nat -> seat_ok (get_p g i) -> p_wager (get_p g i) = 0 -> 0 <= amount ->
  chips_of (get_p (pay g i amount w) i) = forced (get_p g i) amount.
Proof.
  intros Hi (A & B & C & D & F) Hw Ha. rewrite (pay_chips g i amount w Hi). cbv zeta. unfold forced.
  destruct (p_stack (get_p g i) <=? amount) eqn:E; [apply Z.leb_le in E|apply Z.leb_gt in E].
  - assert (H1 : 0 = p_stack (get_p g i) - Z.min amount (p_stack (get_p g i))) by lia.
    assert (H2 : p_initial (get_p g i) = Z.min amount (p_stack (get_p g i))) by lia.
    rewrite <- H1, <- H2. reflexivity.
  - assert (H1 : p_initial (get_p g i) - (p_wager (get_p g i) + amount) = p_stack (get_p g i) - Z.min amount (p_stack (get_p g i))) by lia.
    assert (H2 : p_wager (get_p g i) + amount = Z.min amount (p_stack (get_p g i))) by lia.
    rewrite H1, H2. reflexivity.
Qed.

(* ---------- the ante loop ---------- *)
Lemma ante_loop_chips order : NoDup order -> forall g,
  (forall i, In i order -> (i < nplayers g)%nat /\ seat_ok (get_p g i) /\ p_wager (get_p g i) = 0) ->
  0 <= m_ante (g_meta g) ->
  exists g1, ante_loop order g = (g1, true) /\ nplayers g1 = nplayers g /\ g_meta g1 = g_meta g /\
             (forall i, In i order -> chips_of (get_p g1 i) = forced (get_p g i) (m_ante (g_meta g))) /\
             (forall j, ~ In j order -> (j < nplayers g)%nat -> chips_of (get_p g1 j) = chips_of (get_p g j)).
Proof.
  induction 1 as [|i t Hni Hnd IH]; intros g Hall Ha; simpl.
  - exists g. repeat split; auto. intros i [].
  - destruct (Hall i (or_introl eq_refl)) as (Hi & Hs & Hw). rewrite Hw. simpl.
    set (g1 := pay g i (m_ante (g_meta g)) false).
    set (g2 := set_last g1 (zn i) LAnte (p_wager (get_p g1 i))).
    assert (Hn2 : nplayers g2 = nplayers g) by (unfold g2, set_last, g1; rewrite nplayers_with_st; apply pay_nplayers).
    assert (Hm2 : g_meta g2 = g_meta g) by (unfold g2, g1; apply (proj1 (pay_view g i _ false Hi))).
    assert (Hother : forall j, j <> i -> (j < nplayers g)%nat -> chips_of (get_p g2 j) = chips_of (get_p g j)).
    { intros j Hj Hjn. unfold g2, set_last. rewrite get_p_with_st. apply pay_other; [exact Hjn|intros E; apply Hj; symmetry; exact E]. }
    destruct (IH g2) as (g3 & E3 & N3 & M3 & In3 & Out3).
    + intros j Hj. assert (Hji : j <> i) by (intros ->; contradiction).
      destruct (Hall j (or_intror Hj)) as (Hjn & Hjs & Hjw). rewrite Hn2. split; [exact Hjn|].
      pose proof (Hother j Hji Hjn) as Hc. split.
      * eapply seat_ok_chips; [symmetry; exact Hc|exact Hjs].
      * unfold chips_of in Hc. injection Hc as _ _ _ _ Hc. rewrite Hc. exact Hjw.
    + rewrite Hm2. exact Ha.
    + exists g3. rewrite Hm2 in *. split; [exact E3|]. split; [rewrite N3; exact Hn2|]. split; [exact M3|]. split.
      * intros j [<-|Hj].
        -- rewrite (Out3 i Hni); [|rewrite Hn2; exact Hi]. unfold g2, set_last. rewrite get_p_with_st.
           apply pay_forced; assumption.
        -- rewrite (In3 j Hj). assert (Hji : j <> i) by (intros ->; contradiction).
           destruct (Hall j (or_intror Hj)) as (Hjn & _ & _).
           pose proof (Hother j Hji Hjn) as Hc. unfold forced, chips_of in *. injection Hc as -> -> -> -> _. reflexivity.
      * intros j Hj Hjn. assert (Hji : j <> i) by (intros ->; apply Hj; now left).
        rewrite (Out3 j); [apply Hother; assumption|intros Hin; apply Hj; now right|rewrite Hn2; exact Hjn].
Qed.

Lemma player_order_NoDup g : NoDup (player_order g).
Proof.
  unfold player_order, rotate. eapply Permutation_NoDup; [apply Permutation_app_comm|].
  rewrite firstn_skipn. apply seq_NoDup.
Qed.

Lemma player_order_all g i : (i < nplayers g)%nat -> In i (player_order g).
Proof.
  intros H. unfold player_order, rotate. apply in_or_app.
  assert (Hin : In i (firstn (dealer_of g) (seq 0 (nplayers g)) ++ skipn (dealer_of g) (seq 0 (nplayers g))))
    by (rewrite firstn_skipn; apply in_seq; lia).
  apply in_app_or in Hin. tauto.
Qed.

(* after PayAnte every seat has moved min(ante, what it had) straight to its pot, nothing stands as a
   wager and the wager to match is 0 *)
Theorem pay_ante_result g :
  st_event (g_st g) = EvAnteRequested -> 0 < m_ante (g_meta g) ->
  (forall i, (i < nplayers g)%nat -> seat_ok (get_p g i) /\ p_wager (get_p g i) = 0) ->
  let g' := fst (do_pay_ante g) in
  nplayers g' = nplayers g /\ st_cw (g_st g') = 0 /\
  forall i, (i < nplayers g)%nat ->
    p_pot (get_p g' i) = p_pot (get_p g i) + Z.min (m_ante (g_meta g)) (p_stack (get_p g i)) /\
    p_wager (get_p g' i) = 0 /\
    p_stack (get_p g' i) = p_stack (get_p g i) - Z.min (m_ante (g_meta g)) (p_stack (get_p g i)).
Proof.
  intros He Ha Hall g'. unfold g', do_pay_ante.
  replace (m_ante (g_meta g) =? 0) with false by (symmetry; apply Z.eqb_neq; lia).
  rewrite He. cbn [event_eqb negb].
  destruct (ante_loop_chips (player_order g) (player_order_NoDup g) g) as (g1 & E1 & N1 & M1 & In1 & _).
  { intros i Hi. pose proof (player_order_lt g i Hi) as Hlt. destruct (Hall i Hlt). auto. }
  { lia. }
  rewrite E1. cbn [fst].
  set (g3 := reset_round_status (reset_all_status (update_pots (reset_all g1)))).
  pose proof (cv_enter_preflop g3) as Hcv. destruct (cv_parts _ _ Hcv) as (_ & Hpl & _ & Hcw & _).
  assert (Hn3 : nplayers g3 = nplayers g).
  { unfold g3, reset_round_status, reset_all_status, update_pots, reset_all.
    repeat (rewrite nplayers_with_st || rewrite nplayers_map). exact N1. }
  split; [rewrite (nplayers_cv _ _ Hcv); exact Hn3|]. split; [rewrite Hcw; reflexivity|].
  intros i Hi.
  assert (Hc : chips_of (get_p (fst (enter_preflop g3)) i) = chips_of (get_p g3 i)).
  { rewrite !get_p_cv; [now rewrite Hpl|rewrite Hn3; exact Hi|rewrite (nplayers_cv _ _ Hcv), Hn3; exact Hi]. }
  assert (H3 : get_p g3 i = reset_player_status (get_p (reset_all g1) i)).
  { unfold g3, reset_round_status. rewrite get_p_with_st. unfold reset_all_status. rewrite get_p_map; [reflexivity|].
    unfold update_pots, reset_all. repeat (rewrite nplayers_with_st || rewrite nplayers_map). rewrite N1. exact Hi. }
  assert (H1 : chips_of (get_p (reset_all g1) i) = forced (get_p g i) (m_ante (g_meta g))).
  { unfold reset_all. rewrite get_p_map by (rewrite N1; exact Hi). rewrite <- (In1 i (player_order_all g i Hi)). reflexivity. }
  unfold chips_of in Hc. injection Hc as _ _ Hs Hp Hw. rewrite Hs, Hp, Hw, H3.
  unfold forced, chips_of in H1. injection H1 as _ _ S1 P1 W1.
  unfold reset_player_status.
  destruct (p_fold (get_p (reset_all g1) i)); [|destruct (p_stack (get_p (reset_all g1) i) =? 0)]; simpl; rewrite ?S1, ?P1, ?W1; repeat split; lia.
Qed.

(* ---------- the blinds loop ---------- *)
Definition blind_chips (m : meta) (p : pstate) : Z := Z.min (fst (blind_of m p)) (p_stack p).

Lemma pay_blind_view g i :
  (i < nplayers g)%nat -> seat_ok (get_p g i) -> p_wager (get_p g i) = 0 -> meta_ok (g_meta g) ->
  let g' := pay_blind g i in
  nplayers g' = nplayers g /\ g_meta g' = g_meta g /\ st_prs (g_st g') = st_prs (g_st g) /\
  chips_of (get_p g' i) = forced (get_p g i) (blind_chips (g_meta g) (get_p g i)) /\
  st_cw (g_st g') = Z.max (st_cw (g_st g)) (blind_chips (g_meta g) (get_p g i)) /\
  (forall j, j <> i -> (j < nplayers g)%nat -> chips_of (get_p g' j) = chips_of (get_p g j)).
Proof.
  intros Hi Hs Hw Hm g'. unfold g', pay_blind, blind_chips.
  pose proof (blind_amount_nonneg (g_meta g) (get_p g i) Hm) as Hb.
  destruct (blind_of (g_meta g) (get_p g i)) as [amount t]. cbn [fst] in *.
  assert (Hs' := Hs). destruct Hs' as (A & B & C & D & F).
  set (chips := if p_stack (get_p g i) <? amount then p_stack (get_p g i) else amount).
  assert (Hc : chips = Z.min amount (p_stack (get_p g i))).
  { unfold chips. destruct (p_stack (get_p g i) <? amount) eqn:E; [apply Z.ltb_lt in E|apply Z.ltb_ge in E]; lia. }
  assert (Hc0 : 0 <= chips) by lia.
  destruct (pay_view g i chips true Hi) as (V1 & _ & _ & V4 & V5).
  unfold set_last. rewrite nplayers_with_st, pay_nplayers, !get_p_with_st. cbn [g_meta g_st with_st st_prs st_cw st_set_last].
  split; [reflexivity|]. split; [exact V1|]. split; [exact V4|]. split.
  - rewrite (pay_forced g i chips true Hi Hs Hw Hc0). unfold forced. rewrite Hc.
    replace (Z.min (Z.min amount (p_stack (get_p g i))) (p_stack (get_p g i))) with (Z.min amount (p_stack (get_p g i))) by lia.
    reflexivity.
  - split.
    + rewrite V5. unfold pay_new_wager. rewrite Hc.
      destruct (p_stack (get_p g i) <=? Z.min amount (p_stack (get_p g i))) eqn:E; [apply Z.leb_le in E|apply Z.leb_gt in E]; lia.
    + intros j Hj Hjn. apply pay_other; [exact Hjn|intros E; apply Hj; symmetry; exact E].
Qed.

Lemma fold_pay_blind_chips order : NoDup order -> forall g,
  (forall i, In i order -> (i < nplayers g)%nat /\ seat_ok (get_p g i) /\ p_wager (get_p g i) = 0) ->
  meta_ok (g_meta g) ->
  let g1 := fold_left pay_blind order g in
  nplayers g1 = nplayers g /\ g_meta g1 = g_meta g /\ st_prs (g_st g1) = st_prs (g_st g) /\
  (forall i, In i order -> chips_of (get_p g1 i) = forced (get_p g i) (blind_chips (g_meta g) (get_p g i))) /\
  (forall j, ~ In j order -> (j < nplayers g)%nat -> chips_of (get_p g1 j) = chips_of (get_p g j)) /\
  st_cw (g_st g) <= st_cw (g_st g1) /\
  (forall i, In i order -> blind_chips (g_meta g) (get_p g i) <= st_cw (g_st g1)) /\
  (st_cw (g_st g1) = st_cw (g_st g) \/ exists i, In i order /\ st_cw (g_st g1) = blind_chips (g_meta g) (get_p g i)).
Proof.
  induction 1 as [|i t Hni Hnd IH]; intros g Hall Hm; cbn [fold_left].
  - repeat split; auto; try lia. intros i []. intros i [].
  - destruct (Hall i (or_introl eq_refl)) as (Hi & Hs & Hw).
    destruct (pay_blind_view g i Hi Hs Hw Hm) as (N2 & M2 & P2 & C2 & W2 & O2).
    set (g2 := pay_blind g i) in *.
    assert (Hsame : forall j, j <> i -> (j < nplayers g)%nat -> get_p g2 j = get_p g2 j) by reflexivity.
    destruct (IH g2) as (N3 & M3 & P3 & In3 & Out3 & L3 & Le3 & Ex3).
    + intros j Hj. assert (Hji : j <> i) by (intros ->; contradiction).
      destruct (Hall j (or_intror Hj)) as (Hjn & Hjs & Hjw). rewrite N2. split; [exact Hjn|].
      pose proof (O2 j Hji Hjn) as Hc. split.
      * eapply seat_ok_chips; [symmetry; exact Hc|exact Hjs].
      * unfold chips_of in Hc. injection Hc as _ _ _ _ Hc. rewrite Hc. exact Hjw.
    + rewrite M2. exact Hm.
    + (* the blind of a seat not yet processed is computed from unchanged chips and positions *)
      assert (Hbc : forall j, j <> i -> (j < nplayers g)%nat -> In j t ->
                    forced (get_p g2 j) (blind_chips (g_meta g2) (get_p g2 j)) = forced (get_p g j) (blind_chips (g_meta g) (get_p g j))
                    /\ blind_chips (g_meta g2) (get_p g2 j) = blind_chips (g_meta g) (get_p g j)).
      { intros j Hji Hjn _. rewrite M2.
        assert (Hp : get_p g2 j = get_p g j \/ True) by (right; exact I).
        pose proof (O2 j Hji Hjn) as Hc.
        assert (Hpos : p_dealer (get_p g2 j) = p_dealer (get_p g j) /\ p_sb (get_p g2 j) = p_sb (get_p g j) /\ p_bb (get_p g2 j) = p_bb (get_p g j)).
        { unfold g2, pay_blind. destruct (blind_of _ _). unfold set_last. rewrite get_p_with_st.
          pose proof (pv_get_pos g _ j (pv_pay g i (if p_stack (get_p g i) <? z then p_stack (get_p g i) else z) true)) as E.
          unfold p_pos in E. injection E as E1 E2 E3. auto. }
        destruct Hpos as (Q1 & Q2 & Q3).
        unfold chips_of in Hc. injection Hc as K1 K2 K3 K4 K5.
        unfold forced, blind_chips, blind_of. rewrite Q1, Q2, Q3, K1, K2, K3, K4. auto. }
      split; [rewrite N3; exact N2|]. split; [rewrite M3; exact M2|]. split; [rewrite P3; exact P2|]. split.
      * intros j [<-|Hj].
        -- rewrite (Out3 i Hni); [exact C2|rewrite N2; exact Hi].
        -- assert (Hji : j <> i) by (intros ->; contradiction).
           destruct (Hall j (or_intror Hj)) as (Hjn & _ & _).
           rewrite (In3 j Hj). apply (Hbc j Hji Hjn Hj).
      * split.
        -- intros j Hj Hjn. assert (Hji : j <> i) by (intros ->; apply Hj; now left).
           rewrite (Out3 j); [apply O2; assumption|intros Hin; apply Hj; now right|rewrite N2; exact Hjn].
        -- split; [lia|]. split.
           ++ intros j [<-|Hj]; [lia|].
              assert (Hji : j <> i) by (intros ->; contradiction).
              destruct (Hall j (or_intror Hj)) as (Hjn & _ & _).
              rewrite <- (proj2 (Hbc j Hji Hjn Hj)). apply Le3. exact Hj.
           ++ destruct Ex3 as [Ex3|(j & Hj & Ej)].
              ** rewrite Ex3, W2. destruct (Z.max_spec (st_cw (g_st g)) (blind_chips (g_meta g) (get_p g i))) as [[_ ->]|[_ ->]];
                   [right; exists i; split; [now left|reflexivity]|now left].
              ** right. exists j. split; [now right|].
                 assert (Hji : j <> i) by (intros ->; contradiction).
                 destruct (Hall j (or_intror Hj)) as (Hjn & _ & _).
                 rewrite Ej. apply (proj2 (Hbc j Hji Hjn Hj)).
Qed.

(* after PayBlinds: every seat has posted its blind (one blind per seat by the priority
   bb > sb > dealer), capped at what it had; nobody else has posted anything; the wager to match is
   the largest blind actually posted; the minimum raise is the big blind (the dealer blind when BB = 0) *)
Theorem pay_blinds_result g :
  st_event (g_st g) = EvBlindsRequested -> meta_ok (g_meta g) -> st_cw (g_st g) = 0 ->
  (forall i, (i < nplayers g)%nat -> seat_ok (get_p g i) /\ p_wager (get_p g i) = 0) ->
  let g' := fst (do_pay_blinds g) in
  let posted i := blind_chips (g_meta g) (get_p g i) in
  nplayers g' = nplayers g /\
  (forall i, (i < nplayers g)%nat ->
     p_wager (get_p g' i) = posted i /\ p_stack (get_p g' i) = p_stack (get_p g i) - posted i /\
     p_pot (get_p g' i) = p_pot (get_p g i)) /\
  (forall i, (i < nplayers g)%nat -> posted i <= st_cw (g_st g')) /\
  (st_cw (g_st g') = 0 \/ exists i, (i < nplayers g)%nat /\ st_cw (g_st g') = posted i) /\
  st_prs (g_st g') = (if 0 <? m_bbb (g_meta g) then m_bbb (g_meta g) else m_bdealer (g_meta g)).
Proof.
  intros He Hm Hcw Hall g' posted. unfold g', do_pay_blinds. rewrite He. cbn [event_eqb negb fst].
  destruct (fold_pay_blind_chips (player_order g) (player_order_NoDup g) g) as (N1 & M1 & _ & In1 & _ & _ & Le1 & Ex1).
  { intros i Hi. pose proof (player_order_lt g i Hi) as Hlt. destruct (Hall i Hlt). auto. }
  { exact Hm. }
  set (g1 := fold_left pay_blind (player_order g) g) in *.
  set (g2 := with_st g1 (st_set_prs (g_st g1) (if 0 <? m_bbb (g_meta g1) then m_bbb (g_meta g1) else m_bdealer (g_meta g1)))).
  assert (Hv : chips_view (prepare_round (reset_all g2)) = chips_view g2) by (rewrite cv_prepare_round; apply cv_reset_all).
  destruct (cv_parts _ _ Hv) as (_ & Hpl & _ & Hc & Hp).
  assert (Hn : nplayers (prepare_round (reset_all g2)) = nplayers g) by (rewrite (nplayers_cv _ _ Hv); exact N1).
  split; [exact Hn|]. split; [|split; [|split]].
  - intros i Hi.
    assert (Hci : chips_of (get_p (prepare_round (reset_all g2)) i) = forced (get_p g i) (posted i)).
    { rewrite get_p_cv by (rewrite Hn; exact Hi). rewrite Hpl. rewrite <- (get_p_cv g2 i) by (unfold g2; rewrite nplayers_with_st, N1; exact Hi).
      unfold g2. rewrite get_p_with_st. apply In1. apply player_order_all. exact Hi. }
    destruct (Hall i Hi) as ((A & B & C & D & F) & Hw).
    unfold forced, chips_of in Hci. injection Hci as _ _ S P W.
    assert (Hmn : Z.min (posted i) (p_stack (get_p g i)) = posted i) by (unfold posted, blind_chips; lia).
    rewrite S, P, W, Hmn. auto.
  - intros i Hi. rewrite Hc. unfold g2. simpl. apply Le1. apply player_order_all. exact Hi.
  - rewrite Hc. unfold g2. simpl. destruct Ex1 as [E|(i & Hi & E)]; [left; rewrite E; exact Hcw|].
    right. exists i. split; [apply player_order_lt; exact Hi|exact E].
  - rewrite Hp. unfold g2. simpl. rewrite M1. reflexivity.
Qed.
