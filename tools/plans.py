"""Per-property run plans: which harness components run in which tier, through which projection
(keys compared between implementation and model; None = every key), and what the oracle search does
when an obligation breaks."""

POT_KEYS = ["levels", "pots", "potlevels"]
SETTLE_KEYS = ["panic", "ridx", "rfinal", "rchanged", "rpots"]
EVAL_KEYS = ["ctype", "cpower", "ccards"]
BEST_KEYS = ["ncomb", "ctype", "cpower", "ccards", "combos"]

PLANS = {
    "C16": {
        "keys": {"pot": POT_KEYS},
        "corpus": ["pot"],
        "quick": [("pot", {"n": 6000}), ("pot", {"mode": "exhaustive", "scope": 3})],
        "thorough": [("pot", {"n": 300000}), ("pot", {"mode": "exhaustive", "scope": 5})],
        "search": [("pot", {"n": 60000}), ("pot", {"mode": "exhaustive", "scope": 4})],
        "rule": "random contribution/fold vectors (1-15 players, 1-4 distinct levels incl. zero and equal amounts, "
                "random insertion order) plus every vector with n<=scope players and contributions 0..4; a case is "
                "non-trivial when it has two distinct positive contributions or a folded contributor with chips; "
                "distinct = distinct input vectors",
        "assumptions": ["contributions are non-negative", "player indices are distinct"],
        "trusted_base": ["model: ModelPot.v (add_contributor, build_levels, get_pots)"],
    },
    "C02": {
        "keys": {"settle": SETTLE_KEYS, "pot": POT_KEYS},
        "corpus": ["settle"],
        "quick": [("settle", {"n": 6000}), ("settle", {"mode": "exhaustive", "scope": 3})],
        "thorough": [("settle", {"n": 300000}), ("settle", {"mode": "exhaustive", "scope": 5})],
        "search": [("settle", {"n": 60000}), ("settle", {"mode": "exhaustive", "scope": 4})],
        "rule": "random (contribution, fold, score) vectors with 1-3 distinct scores so that 2- to n-way ties are common, "
                "plus every vector with n<=scope players, contributions 0..4, scores 1..3; non-trivial = a side pot, a "
                "folded contributor with chips or a tie; distinct = distinct input vectors. Engine showdowns are covered "
                "by the engine traces of C01",
        "assumptions": ["score > 0 exactly for the non-folded players (as game.CalculateGameResults passes them)"],
        "trusted_base": ["model: ModelPot.v, ModelSettle.v"],
    },
    "C03": {
        "keys": {"eval": EVAL_KEYS},
        "corpus": ["eval"],
        "quick": [("eval", {"n": 3000})],
        "thorough": [("eval", {"mode": "exhaustive", "scope": 52, "timeout": 14000}),
                     ("eval", {"mode": "exhaustive", "scope": 36})],
        "search": [("eval", {"n": 50000}), ("eval", {"mode": "exhaustive", "scope": 36})],
        "rule": "one random representative (random suits, random order) of each of the 7,462 rank/flush classes under "
                "both ranking tables plus random hands from both decks; the oracle sorts them by the poker order and "
                "requires the scores to move exactly as the order does; distinct = distinct (table, poker key)",
        "assumptions": ["cards are drawn from the 52-card deck"],
        "trusted_base": ["model: ModelEval.v (calc_power) over the generated constants Gen/Consts.v"],
    },
    "C10": {
        "keys": {"best": BEST_KEYS},
        "corpus": ["best"],
        "quick": [("best", {"n": 3000})],
        "thorough": [("best", {"n": 200000})],
        "search": [("best", {"n": 30000})],
        "rule": "random hole/board draws (2 hole cards, or 4 with exactly 2 required; 3-5 board cards; both decks and "
                "tables; biased to four-flushes and paired boards) plus the raw enumeration for every hole/board size; "
                "non-trivial = more than one admissible selection; engine traces of C01 add the per-seat reports in play",
        "assumptions": ["with more than 12 candidate hands Go's sort.Slice is not stable: which of several equally strong "
                        "hands is reported is validated by the oracle, not compared literally"],
        "trusted_base": ["model: ModelEval.v (gospers, all_combinations, best_power)"],
    },
}
