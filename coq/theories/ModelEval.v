(* ModelEval.v — model of package combination (card.go, element.go, power.go,
   combination.go) and of power.go in the root package. *)
From PF Require Import Base Comb.
From PF.Gen Require Import Consts.

(* A card symbol on the wire: 256 * ASCII(suit) + ASCII(rank character). *)
Definition card := (Z * Z)%type.            (* (suit, rank) as in combination.Card *)
Definition c_suit (c : card) : Z := fst c.
Definition c_rank (c : card) : Z := snd c.

(* GetCardState: Suit = card[0:1], Rank = CardRank[card[1:2]] (0 when unknown) *)
Definition card_of_wire (w : Z) : card :=
  (w / 256, option_default 0 (zmap_get (w mod 256) card_rank_table)).

(* Card.ToString: suit ++ CardSymbol[rank] ("" when unknown -> code 0) *)
Definition wire_of_card (c : card) : Z :=
  c_suit c * 256 + option_default 0 (zmap_get (c_rank c) card_symbol_table).

(* sort.Slice(cards, rank descending) — at most 12 cards: insertion sort *)
Definition sort_cards (l : list card) : list card :=
  isort (fun a b => c_rank b <? c_rank a) l.

(* GetElementsByRank: groups (rank, count) in first-seen order, then sorted by
   count descending (stable insertion sort) *)
Fixpoint bump (r : Z) (g : list (Z * Z)) : option (list (Z * Z)) :=
  match g with
  | [] => None
  | (r', c) :: t =>
      if r =? r' then Some ((r', c + 1) :: t)
      else match bump r t with Some t' => Some ((r', c) :: t') | None => None end
  end.

Definition groups_of (l : list card) : list (Z * Z) :=
  fold_left (fun g c => match bump (c_rank c) g with Some g' => g' | None => g ++ [(c_rank c, 1)] end) l [].

Definition elements_of (sorted : list card) : list (Z * Z) :=
  isort (fun a b => snd b <? snd a) (groups_of sorted).

Definition is_flush (cards : list card) : bool :=
  match cards with
  | [] => false
  | c :: _ => forallb (fun d => c_suit d =? c_suit c) cards
  end.

Fixpoint consecutive_from (cur : Z) (l : list card) : bool :=
  match l with
  | [] => true
  | c :: t => (c_rank c =? cur) && consecutive_from (cur - 1) t
  end.

Definition is_straight (cards : list card) : bool :=
  if negb (Nat.eqb (length cards) 5) then false else
  match cards with
  | c0 :: c1 :: _ =>
      if c_rank c0 <? 5 then false else
      let rest := if (c_rank c0 =? 14) && (c_rank c1 =? 5) then tl cards else cards in
      match rest with
      | [] => true
      | r0 :: _ => consecutive_from (c_rank r0) rest
      end
  | _ => false
  end.

Definition has_count (n : Z) (els : list (Z * Z)) : bool := existsb (fun e => snd e =? n) els.
Definition count_count (n : Z) (els : list (Z * Z)) : nat := length (filter (fun e => snd e =? n) els).

Definition category (cards : list card) (els : list (Z * Z)) : comb :=
  let c0 := if is_flush cards then Flush else HighCard in
  let c1 := if is_straight cards then (if comb_eqb c0 Flush then StraightFlush else Straight) else c0 in
  if has_count 4 els then FourOfAKind
  else if has_count 3 els && has_count 2 els then FullHouse
  else if has_count 3 els then ThreeOfAKind
  else if Nat.eqb (count_count 2 els) 2 then TwoPair
  else if Nat.eqb (count_count 2 els) 1 then Pair
  else c1.

(* CalculatePowerLevels *)
Fixpoint power_level (pr : list comb) (c : comb) (acc : Z) : Z :=
  match pr with
  | [] => 0
  | x :: t => if comb_eqb c x then acc else power_level t c (acc + comb_level x)
  end.

Fixpoint pos_score (els : list (Z * Z)) : Z :=
  match els with
  | [] => 0
  | (r, _) :: t => (r - 2) * 13 ^ (zn (length t)) + pos_score t
  end.

(* CalculatePowerScore *)
Definition power_score (c : comb) (els : list (Z * Z)) : Z :=
  match c with
  | Straight | StraightFlush =>
      let mx := fold_left (fun m e => if m <? fst e then fst e else m) els 0 in
      let tot := zsum (map fst els) in
      if (mx =? 14) && (tot =? 28) then 0 else mx - 5
  | _ => pos_score els
  end.

Record powst := mkPS { ps_comb : comb; ps_score : Z; ps_cards : list card }.

Definition calc_power (pr : list comb) (cards : list card) : powst :=
  let sorted := sort_cards cards in
  let els := elements_of sorted in
  let c := category sorted els in
  mkPS c (power_score c els + power_level pr c 0) sorted.

(* ---- Gosper's hack ---- *)
Fixpoint lowbit_pos (p : positive) : positive :=
  match p with xO p' => xO (lowbit_pos p') | _ => xH end.
Definition lowbit (n : N) : N := match n with N0 => N0 | Npos p => Npos (lowbit_pos p) end.

Fixpoint gosper_loop (fuel : nat) (cur limit : N) : list N :=
  match fuel with
  | O => []
  | S f =>
      if N.ltb cur limit then
        let lb := lowbit cur in
        let r := N.add cur lb in
        cur :: gosper_loop f (N.lor (N.div (N.shiftr (N.lxor r cur) 2) lb) r) limit
      else []
  end.

(* gospersHack(k, n); the Go code divides by zero (panics) for k = 0, n > 0 *)
Definition gospers (k n : nat) : list N :=
  gosper_loop (Nat.pow 2 (Nat.min n 16)) (N.pred (N.shiftl 1 (N.of_nat k))) (N.shiftl 1 (N.of_nat n)).

Fixpoint ones_positions (v : N) (i n : nat) : list nat :=
  match n with
  | O => []
  | S n' => if N.testbit v (N.of_nat i) then i :: ones_positions v (S i) n' else ones_positions v (S i) n'
  end.

Definition pick {A} (l : list A) (ps : list nat) : list A :=
  flat_map (fun p => match nth_error l p with Some x => [x] | None => [] end) ps.

(* GetPossibleCombinations(cards, n) *)
Definition possible_combinations {A} (cards : list A) (n : nat) : list (list A) :=
  let total := length cards in
  if Nat.leb total n then [cards]
  else map (fun v => pick cards (ones_positions v 0 total)) (gospers n total).

(* GetAllPossibleCombinations(board, hole, holeCardsCount) *)
Definition all_combinations {A} (board hole : list A) (req : nat) : list (list A) :=
  match req with
  | O => possible_combinations (hole ++ board) 5
  | _ =>
      let hs := possible_combinations hole req in
      let bs := possible_combinations board (5 - req) in
      flat_map (fun h => map (fun b => h ++ b) bs) hs
  end.

(* powers[0] after sort.Slice(score descending): for at most 12 candidates the
   insertion sort is stable, so it is the first maximal one; for more candidates
   only "a maximal one" is modelled and we pick the first. *)
Fixpoint first_max (best : powst) (l : list powst) : powst :=
  match l with
  | [] => best
  | p :: t => if ps_score best <? ps_score p then first_max p t else first_max best t
  end.

Definition best_power (pr : list comb) (board hole : list card) (req : nat) : option powst :=
  match map (calc_power pr) (all_combinations board hole req) with
  | [] => None
  | p :: t => Some (first_max p t)
  end.

(* ---- observations ---- *)
Definition obs_power (p : powst) : obs :=
  [("ctype"%string, [comb_code (ps_comb p)]);
   ("cpower"%string, [ps_score p]);
   ("ccards"%string, map wire_of_card (ps_cards p))].

Definition table_of_code (t : Z) : list comb :=
  if t =? 1 then power_shortdeck else power_standard.

(* eval case: table code, cards on the wire *)
Definition run_eval_case (t : Z) (cards : list Z) : obs :=
  obs_power (calc_power (table_of_code t) (map card_of_wire cards)).

(* best case: table, required hole cards, hole, board *)
Definition run_best_case (t : Z) (req : nat) (hole board : list Z) : obs :=
  let cs := all_combinations (map card_of_wire board) (map card_of_wire hole) req in
  ("ncomb"%string, [zn (length cs)]) ::
  match best_power (table_of_code t) (map card_of_wire board) (map card_of_wire hole) req with
  | None => [("none"%string, [1])]
  | Some p => if Nat.leb (length cs) 12 then obs_power p
              else [("ctype"%string, [comb_code (ps_comb p)]); ("cpower"%string, [ps_score p]); ("ccards"%string, [])]
  end.

(* combos case: the raw enumeration *)
Definition run_combos_case (req : nat) (hole board : list Z) : obs :=
  let cs := all_combinations board hole req in
  [("ncomb"%string, [zn (length cs)]); ("combos"%string, flat_map (fun c => zn (length c) :: c) cs)].
