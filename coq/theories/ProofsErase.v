(* ProofsErase.v — the engine never reads what JSON does not carry (Pot.Levels of the published
   pots, the internals of a stored result): stepping from the erased state gives the same erased
   state and the same outcome (C07). *)
From Coq Require Import Lia.
From PF Require Import Base ProofsBase Comb ModelPot ModelSettle ModelEval ModelGame ProofsGameBasic.

(* two states a restart cannot tell apart *)
Definition sim (a b : gstate) : Prop := erase a = erase b.

Lemma sim_refl a : sim a a. Proof. reflexivity. Qed.
Lemma sim_erase a : sim (erase a) a. Proof. apply erase_idem. Qed.
Lemma sim_trans a b c : sim a b -> sim b c -> sim a c. Proof. unfold sim; congruence. Qed.
Lemma sim_sym a b : sim a b -> sim b a. Proof. unfold sim; congruence. Qed.

(* everything except published pot levels and result internals is visible through erase *)
Lemma sim_players a b : sim a b -> g_players a = g_players b.
Proof. intros H. change (g_players (erase a) = g_players (erase b)). now rewrite H. Qed.
Lemma sim_meta a b : sim a b -> g_meta a = g_meta b.
Proof. intros H. change (g_meta (erase a) = g_meta (erase b)). now rewrite H. Qed.

Definition st_vis (s : status) : status := st_set_pots s [].
Lemma sim_st a b : sim a b -> st_vis (g_st a) = st_vis (g_st b).
Proof.
  intros H. change (st_vis (g_st (erase a)) = st_vis (g_st (erase b))). now rewrite H.
Qed.

Lemma st_set_pots_inj s s' p p' :
  st_set_pots s p = st_set_pots s' p' <-> st_vis s = st_vis s' /\ p = p'.
Proof.
  destruct s, s'. unfold st_set_pots, st_vis. simpl. split.
  - intros H. injection H as. subst. auto.
  - intros [H ->]. injection H as. subst. reflexivity.
Qed.

Lemma sim_split a b :
  sim a b <->
  g_meta a = g_meta b /\ g_players a = g_players b /\ st_vis (g_st a) = st_vis (g_st b) /\
  map erase_pot (st_pots (g_st a)) = map erase_pot (st_pots (g_st b)) /\
  option_map erase_result (g_result a) = option_map erase_result (g_result b).
Proof.
  unfold sim, erase. split.
  - intros H.
    pose proof (f_equal g_meta H) as H1. pose proof (f_equal g_st H) as H2.
    pose proof (f_equal g_players H) as H3. pose proof (f_equal g_result H) as H4.
    cbn [g_meta g_st g_players g_result] in *. apply st_set_pots_inj in H2 as [H2 H2']. auto.
  - intros (H1 & H2 & H3 & H4 & H5). rewrite H1, H2, H5. f_equal. apply st_set_pots_inj. auto.
Qed.

(* a function on states respects sim *)
Definition Resp (f : gstate -> gstate) : Prop := forall a b, sim a b -> sim (f a) (f b).
Definition Resp2 {A} (f : gstate -> gstate * A) : Prop :=
  forall a b, sim a b -> sim (fst (f a)) (fst (f b)) /\ snd (f a) = snd (f b).

(* field updates that ignore pots and result commute with erase *)
Lemma resp_commute f : (forall g, f (erase g) = erase (f g)) -> Resp f.
Proof. intros C a b H. unfold sim in *. rewrite <- !C, H. reflexivity. Qed.

Lemma resp_comp f h : Resp f -> Resp h -> Resp (fun g => f (h g)).
Proof. intros F Hh a b H. apply F, Hh, H. Qed.

Lemma resp_set_event e : Resp (fun g => set_event g e).
Proof. apply resp_commute. reflexivity. Qed.
Lemma resp_set_last x t v : Resp (fun g => set_last g x t v).
Proof. apply resp_commute. reflexivity. Qed.
Lemma resp_upd i f : Resp (fun g => upd_p g i f).
Proof. apply resp_commute. reflexivity. Qed.
Lemma resp_map f : Resp (fun g => map_p g f).
Proof. apply resp_commute. reflexivity. Qed.
Lemma resp_reset_all : Resp reset_all.
Proof. apply resp_map. Qed.
Lemma resp_reset_acted : Resp reset_acted.
Proof. apply resp_map. Qed.
Lemma resp_reset_all_status : Resp reset_all_status.
Proof. apply resp_map. Qed.

(* status updates computed from visible fields *)
Lemma resp_with_st (F : gstate -> status -> status) :
  (forall g, with_st (erase g) (F (erase g) (g_st (erase g))) = erase (with_st g (F g (g_st g)))) ->
  Resp (fun g => with_st g (F g (g_st g))).
Proof. intros C. apply resp_commute. exact C. Qed.

Lemma resp_update_pots : Resp update_pots.
Proof.
  intros a b H. apply sim_split in H as (H1 & H2 & H3 & H4 & H5). apply sim_split.
  unfold update_pots. simpl. rewrite H2. repeat split; try assumption; try reflexivity.
Qed.

Lemma resp_round_closed : Resp round_closed.
Proof.
  unfold round_closed. intros a b H. apply resp_update_pots, resp_reset_all. apply (resp_set_event EvRoundClosed). exact H.
Qed.

(* readers *)
Lemma sim_get_p a b i : sim a b -> get_p a i = get_p b i.
Proof. intros H. unfold get_p. now rewrite (sim_players a b H). Qed.
Lemma sim_nplayers a b : sim a b -> nplayers a = nplayers b.
Proof. intros H. unfold nplayers. now rewrite (sim_players a b H). Qed.
Lemma sim_alive a b : sim a b -> alive_count a = alive_count b.
Proof. intros H. unfold alive_count. now rewrite (sim_players a b H). Qed.
Lemma sim_movable a b : sim a b -> movable_count a = movable_count b.
Proof. intros H. unfold movable_count. now rewrite (sim_players a b H). Qed.
Lemma sim_dealer a b : sim a b -> dealer_of a = dealer_of b.
Proof. intros H. unfold dealer_of, dealer_opt. now rewrite (sim_players a b H). Qed.
Lemma sim_order a b : sim a b -> player_order a = player_order b.
Proof. intros H. unfold player_order. now rewrite (sim_dealer a b H), (sim_nplayers a b H). Qed.

Lemma sim_st_field {A} (f : status -> A) a b :
  (forall s, f (st_vis s) = f s) -> sim a b -> f (g_st a) = f (g_st b).
Proof. intros Hf H. rewrite <- (Hf (g_st a)), <- (Hf (g_st b)), (sim_st a b H). reflexivity. Qed.

Lemma sim_event a b : sim a b -> st_event (g_st a) = st_event (g_st b).
Proof. apply (sim_st_field st_event). reflexivity. Qed.
Lemma sim_round a b : sim a b -> st_round (g_st a) = st_round (g_st b).
Proof. apply (sim_st_field st_round). reflexivity. Qed.
Lemma sim_cur a b : sim a b -> st_cur (g_st a) = st_cur (g_st b).
Proof. apply (sim_st_field st_cur). reflexivity. Qed.
Lemma sim_cw a b : sim a b -> st_cw (g_st a) = st_cw (g_st b).
Proof. apply (sim_st_field st_cw). reflexivity. Qed.
Lemma sim_prs a b : sim a b -> st_prs (g_st a) = st_prs (g_st b).
Proof. apply (sim_st_field st_prs). reflexivity. Qed.
Lemma sim_dpos a b : sim a b -> st_dpos (g_st a) = st_dpos (g_st b).
Proof. apply (sim_st_field st_dpos). reflexivity. Qed.
Lemma sim_next_idx a b : sim a b -> next_idx a = next_idx b.
Proof. intros H. unfold next_idx. now rewrite (sim_cur a b H), (sim_nplayers a b H). Qed.
Lemma sim_allowed a b i x : sim a b -> allowed a i x = allowed b i x.
Proof. intros H. unfold allowed. now rewrite (sim_get_p a b i H). Qed.

(* a general way to get Resp for "with_st g (setter (g_st g) args)" style functions: go through sim_split *)
Ltac split_sim H := apply sim_split in H as (?Hm & ?Hp & ?Hs & ?Hpo & ?Hr).

Lemma vis_inj s s' : st_vis s = st_vis s' ->
  st_minibet s = st_minibet s' /\ st_maxwager s = st_maxwager s' /\ st_round s = st_round s' /\
  st_burned s = st_burned s' /\ st_board s = st_board s' /\ st_prs s = st_prs s' /\ st_dpos s = st_dpos s' /\
  st_rpot s = st_rpot s' /\ st_cw s = st_cw s' /\ st_raiser s = st_raiser s' /\ st_cur s = st_cur s' /\
  st_event s = st_event s' /\ st_last s = st_last s'.
Proof. destruct s, s'. unfold st_vis, st_set_pots. simpl. intros H. injection H as. subst. repeat split. Qed.

(* any status transformer that keeps the pots and computes the other fields from visible data *)
Lemma resp_status (T : gstate -> status) :
  (forall a b, sim a b -> st_vis (T a) = st_vis (T b)) ->
  (forall g, st_pots (T g) = st_pots (g_st g)) ->
  Resp (fun g => with_st g (T g)).
Proof.
  intros Hv Hp a b H. pose proof (Hv a b H) as V. apply sim_split in H as (H1 & H2 & H3 & H4 & H5).
  apply sim_split. simpl. rewrite !Hp. repeat split; assumption.
Qed.

Lemma vis_congr (F : status -> status) a b :
  (forall s, st_vis (F s) = st_vis (F (st_vis s))) -> sim a b -> st_vis (F (g_st a)) = st_vis (F (g_st b)).
Proof. intros Hf H. rewrite (Hf (g_st a)), (Hf (g_st b)), (sim_st a b H). reflexivity. Qed.

(* with_st g (F (g_st g)) for a setter F that leaves the pots alone *)
Lemma resp_setter (F : status -> status) :
  (forall s, st_vis (F s) = st_vis (F (st_vis s))) -> (forall s, st_pots (F s) = st_pots s) ->
  Resp (fun g => with_st g (F (g_st g))).
Proof.
  intros Hv Hp. apply (resp_status (fun g => F (g_st g))).
  - intros a b H. apply vis_congr; assumption.
  - intros g. apply Hp.
Qed.

Ltac setter F := apply (resp_setter F); [intros s; destruct s; reflexivity|intros s; reflexivity].

Lemma resp_set_cur i : Resp (fun g => with_st g (st_set_cur (g_st g) i)). Proof. setter (fun s => st_set_cur s i). Qed.
Lemma resp_set_raiser i : Resp (fun g => with_st g (st_set_raiser (g_st g) i)). Proof. setter (fun s => st_set_raiser s i). Qed.
Lemma resp_set_prs x : Resp (fun g => with_st g (st_set_prs (g_st g) x)). Proof. setter (fun s => st_set_prs s x). Qed.
Lemma resp_set_cw x : Resp (fun g => with_st g (st_set_cw (g_st g) x)). Proof. setter (fun s => st_set_cw s x). Qed.
Lemma resp_add_rpot l x : Resp (fun g => with_st g (st_add_rpot (g_st g) l x)). Proof. setter (fun s => st_add_rpot s l x). Qed.
Lemma resp_set_round r : Resp (fun g => with_st g (st_set_round (g_st g) r)). Proof. setter (fun s => st_set_round s r). Qed.

Lemma resp_become_raiser i : Resp (fun g => become_raiser g i).
Proof.
  intros a b H. unfold become_raiser.
  apply (resp_upd i _). apply resp_reset_acted. apply (resp_set_raiser i _ _). apply (resp_upd i _). exact H.
Qed.

Lemma resp_if (c : bool) (f h : gstate -> gstate) : Resp f -> Resp h -> Resp (fun g => if c then f g else h g).
Proof. intros F Hh a b H. destruct c; [apply F|apply Hh]; exact H. Qed.

Definition pay_nf (g : gstate) (i : nat) (chips : Z) (w : bool) : gstate :=
  let p := get_p g i in
  let lim := m_limit_pot (g_meta g) in
  let cw := st_cw (g_st g) in
  let prs := st_prs (g_st g) in
  if p_stack p <=? chips then
    let g2 := upd_p (with_st g (st_add_rpot (g_st g) lim (p_initial p - p_wager p))) i
                    (fun p => p_set_chips (p_set_did p DAllin) (p_initial p) 0 (p_pot p) (p_initial p)) in
    if w then
      let g3 := if cw <? p_initial p then with_st g2 (st_set_cw (g_st g2) (p_initial p)) else g2 in
      if cw + prs <=? p_initial p - cw then become_raiser g3 i else reset_acted g3
    else g2
  else
    let wn := p_wager p + chips in
    let g1 := upd_p g i (fun p => p_set_chips p (p_initial p) (p_initial p - wn) (p_pot p) wn) in
    let g2 := with_st g1 (st_add_rpot (g_st g1) lim chips) in
    if w && (cw <? wn) then become_raiser (with_st g2 (st_set_cw (g_st g2) wn)) i else g2.

Lemma pay_nf_eq g i chips w : pay g i chips w = pay_nf g i chips w.
Proof. reflexivity. Qed.

Lemma resp_pay i chips w : Resp (fun g => pay g i chips w).
Proof.
  intros a b H. change (sim (pay_nf a i chips w) (pay_nf b i chips w)). unfold pay_nf.
  rewrite (sim_get_p a b i H), (sim_meta a b H), (sim_cw a b H), (sim_prs a b H).
  destruct (p_stack (get_p b i) <=? chips).
  - match goal with |- context [upd_p (with_st a (st_add_rpot (g_st a) ?l ?x)) i ?f] =>
      assert (H2 : sim (upd_p (with_st a (st_add_rpot (g_st a) l x)) i f) (upd_p (with_st b (st_add_rpot (g_st b) l x)) i f))
        by (apply (resp_upd i f); apply (resp_add_rpot l x _ _ H)) end.
    destruct w; [|exact H2].
    match goal with |- sim (if ?c then become_raiser ?g1 i else reset_acted ?g1) (if _ then become_raiser ?g2 i else reset_acted ?g2) =>
      assert (Hg : sim g1 g2) end.
    { destruct (st_cw (g_st b) <? p_initial (get_p b i)); [|exact H2].
      apply (resp_set_cw (p_initial (get_p b i)) _ _ H2). }
    destruct (_ <=? _); [apply resp_become_raiser|apply resp_reset_acted]; exact Hg.
  - match goal with |- context [upd_p a i ?f] =>
      assert (H1 : sim (upd_p a i f) (upd_p b i f)) by (apply (resp_upd i f); exact H) end.
    match goal with |- context [with_st ?g1 (st_add_rpot (g_st ?g1) ?l ?x)] =>
      match g1 with upd_p a _ _ => pose proof (resp_add_rpot l x _ _ H1) as H2 end end.
    cbv beta in H2.
    destruct (w && _); [|exact H2].
    apply resp_become_raiser. apply (resp_set_cw _ _ _ H2).
Qed.

Lemma sim_board a b : sim a b -> st_board (g_st a) = st_board (g_st b).
Proof. apply (sim_st_field st_board). reflexivity. Qed.
Lemma sim_burned a b : sim a b -> st_burned (g_st a) = st_burned (g_st b).
Proof. apply (sim_st_field st_burned). reflexivity. Qed.

Lemma update_nth_ext {A} (f h : A -> A) i l : (forall x, f x = h x) -> update_nth i f l = update_nth i h l.
Proof. intros E. revert i; induction l as [|x t IH]; intros [|i]; simpl; auto; [now rewrite E|now rewrite IH]. Qed.

Lemma resp_upd_ext i (fa fb : pstate -> pstate) a b :
  (forall p, fa p = fb p) -> sim a b -> sim (upd_p a i fa) (upd_p b i fb).
Proof.
  intros E H. replace (upd_p a i fa) with (upd_p a i fb).
  - apply (resp_upd i fb). exact H.
  - unfold upd_p. f_equal. symmetry. apply update_nth_ext. exact E.
Qed.

Lemma available_sim a b p : sim a b -> available_actions (g_st a) p = available_actions (g_st b) p.
Proof.
  intros H. unfold available_actions.
  rewrite (sim_cw _ _ H), (sim_prs _ _ H), (sim_st_field st_minibet _ _ (fun s => eq_refl) H). reflexivity.
Qed.

Lemma resp_set_current i : Resp (fun g => set_current g i).
Proof.
  intros a b H. unfold set_current. rewrite (sim_cur a b H).
  set (f0 := fun p : pstate => p_set_allowed p []).
  assert (H1 : sim (upd_p a (st_cur (g_st b)) f0) (upd_p b (st_cur (g_st b)) f0)) by (apply (resp_upd _ f0); exact H).
  pose proof (resp_set_cur i _ _ H1) as H2. cbv beta in H2.
  apply resp_upd_ext; [|exact H2].
  intros p. rewrite (available_sim _ _ p H2). reflexivity.
Qed.

Lemma resp_request_action : Resp request_action.
Proof.
  intros a b H. unfold request_action.
  rewrite (sim_alive a b H), (sim_movable a b H), (sim_next_idx a b H), (sim_get_p a b _ H).
  destruct (Nat.eqb (alive_count b) 1); [apply resp_round_closed; exact H|].
  destruct (Nat.eqb (movable_count b) 0); [apply resp_round_closed; exact H|].
  destruct (p_acted _); [apply resp_round_closed; exact H|apply resp_set_current; exact H].
Qed.

Lemma resp_resume : Resp resume.
Proof.
  intros a b H. unfold resume. rewrite (sim_event a b H).
  destruct (st_event (g_st b)); try exact H; [apply resp_request_action|apply resp_round_closed]; exact H.
Qed.

Lemma resp_reset_round_status : Resp reset_round_status.
Proof.
  intros a b H. unfold reset_round_status. rewrite (sim_dealer a b H).
  set (d := dealer_of b).
  apply (resp_setter (fun s => mkSt (st_minibet s) 0 (st_pots s) (st_round s) (st_burned s) (st_board s) 0
                                   (st_dpos s) 0 0 d d (st_event s) (st_last s)));
    [intros s; destruct s; reflexivity|intros s; reflexivity|exact H].
Qed.

Lemma resp_update_combs : Resp update_combs.
Proof.
  intros a b H. unfold update_combs. rewrite (sim_meta a b H), (sim_board a b H). apply resp_map. exact H.
Qed.

Lemma resp_request_ready : Resp request_ready.
Proof. intros a b H. unfold request_ready. apply (resp_set_event EvReadyRequested), resp_reset_all, H. Qed.

Lemma resp_prepare_round : Resp prepare_round.
Proof.
  intros a b H. unfold prepare_round. rewrite (sim_round a b H), (sim_movable a b H).
  destruct (st_round (g_st b)); try (apply resp_request_ready; exact H);
    destruct (Nat.leb (movable_count b) 1); try (apply resp_round_closed; exact H); apply resp_request_ready; exact H.
Qed.

Lemma resp_find_bb_loop n : Resp (find_bb_loop n).
Proof.
  induction n as [|n IH]; intros a b H; simpl; [exact H|].
  rewrite (sim_next_idx a b H), (sim_get_p a b _ H).
  destruct (p_bb _); [apply resp_set_current; exact H|]. apply IH. apply resp_set_current. exact H.
Qed.

Lemma resp_start_round : Resp start_round.
Proof.
  intros a b H. unfold start_round.
  pose proof (resp_reset_all a b H) as H0.
  rewrite (sim_round _ _ H0), (sim_movable _ _ H0), (sim_dealer _ _ H0), (sim_nplayers _ _ (resp_set_current (dealer_of (reset_all b)) _ _ H0)).
  destruct (st_round (g_st (reset_all b))).
  all: try (apply resp_request_action; apply (resp_set_event EvRoundStarted); apply resp_set_current; exact H0).
  destruct (Nat.eqb (movable_count (reset_all b)) 0); [apply resp_round_closed; exact H0|].
  apply resp_request_action. apply (resp_set_event EvRoundStarted). apply resp_find_bb_loop. apply resp_set_current. exact H0.
Qed.

Lemma resp_with_players ps : Resp (fun g => with_players g ps).
Proof. apply resp_commute. reflexivity. Qed.

Lemma sim_deck_has a b n : sim a b -> deck_has a n = deck_has b n.
Proof. intros H. unfold deck_has. now rewrite (sim_dpos a b H), (sim_meta a b H). Qed.

Lemma resp2_enter_preflop : Resp2 enter_preflop.
Proof.
  intros a b H. unfold enter_preflop.
  rewrite (sim_nplayers a b H), (sim_deck_has a b _ H).
  replace (m_hole (g_meta a)) with (m_hole (g_meta b)) by (now rewrite (sim_meta a b H)).
  destruct (negb (deck_has b _)); [split; [exact H|reflexivity]|].
  assert (Hps : deal_holes (g_players a) (skipn (st_dpos (st_set_round (g_st a) Preflop)) (m_deck (g_meta a))) (m_hole (g_meta b))
              = deal_holes (g_players b) (skipn (st_dpos (st_set_round (g_st b) Preflop)) (m_deck (g_meta b))) (m_hole (g_meta b))).
  { rewrite (sim_players a b H), (sim_meta a b H). f_equal. f_equal. apply (sim_dpos a b H). }
  rewrite Hps. clear Hps.
  set (ps := deal_holes (g_players b) _ _).
  set (k := (nplayers b * m_hole (g_meta b))%nat).
  assert (H1 : sim (with_players (with_st a (st_set_cards (st_set_round (g_st a) Preflop) (st_burned (st_set_round (g_st a) Preflop))
                                               (st_board (st_set_round (g_st a) Preflop)) (st_dpos (st_set_round (g_st a) Preflop) + k))) ps)
                   (with_players (with_st b (st_set_cards (st_set_round (g_st b) Preflop) (st_burned (st_set_round (g_st b) Preflop))
                                               (st_board (st_set_round (g_st b) Preflop)) (st_dpos (st_set_round (g_st b) Preflop) + k))) ps)).
  { apply (resp_with_players ps).
    apply (resp_setter (fun s => st_set_cards (st_set_round s Preflop) (st_burned (st_set_round s Preflop))
                                   (st_board (st_set_round s Preflop)) (st_dpos (st_set_round s Preflop) + k)));
      [intros s; destruct s; reflexivity|intros s; reflexivity|exact H]. }
  pose proof (resp_update_combs _ _ H1) as H2.
  replace (g_meta a) with (g_meta b) by (symmetry; apply (sim_meta a b H)).
  match goal with |- context [if ?c then _ else _] => destruct c end; cbn [fst snd].
  - split; [apply resp_prepare_round; exact H2|reflexivity].
  - split; [apply (resp_set_event EvBlindsRequested); exact H2|reflexivity].
Qed.

Lemma resp2_enter_street r : Resp2 (fun g => enter_street g r).
Proof.
  intros a b H. unfold enter_street. rewrite (sim_deck_has a b _ H).
  destruct (negb (deck_has b _)); [split; [exact H|reflexivity]|]. cbn [fst snd]. split; [|reflexivity].
  assert (Hc : deal_cards a (1 + match r with Flop => 3 | _ => 1 end) = deal_cards b (1 + match r with Flop => 3 | _ => 1 end)).
  { unfold deal_cards. now rewrite (sim_dpos a b H), (sim_meta a b H). }
  rewrite Hc. set (cards := deal_cards b _). set (k := match r with Flop => 3%nat | _ => 1%nat end).
  assert (H1 : sim (with_st a (st_set_cards (st_set_round (g_st a) r) (st_burned (st_set_round (g_st a) r) ++ firstn 1 cards)
                                            (st_board (st_set_round (g_st a) r) ++ skipn 1 cards) (st_dpos (st_set_round (g_st a) r) + (1 + k))))
                   (with_st b (st_set_cards (st_set_round (g_st b) r) (st_burned (st_set_round (g_st b) r) ++ firstn 1 cards)
                                            (st_board (st_set_round (g_st b) r) ++ skipn 1 cards) (st_dpos (st_set_round (g_st b) r) + (1 + k))))).
  { apply (resp_setter (fun s => st_set_cards (st_set_round s r) (st_burned (st_set_round s r) ++ firstn 1 cards)
                                   (st_board (st_set_round s r) ++ skipn 1 cards) (st_dpos (st_set_round s r) + (1 + k))));
      [intros s; destruct s; reflexivity|intros s; reflexivity|exact H]. }
  rewrite (sim_dealer _ _ H1).
  apply resp_prepare_round, resp_update_combs, resp_set_current. exact H1.
Qed.

Lemma resp2_game_completed : Resp2 game_completed.
Proof.
  intros a b H. unfold game_completed.
  assert (Hp : st_pots (g_st (update_pots a)) = st_pots (g_st (update_pots b))) by (simpl; now rewrite (sim_players a b H)).
  rewrite Hp. assert (Hpl : g_players (update_pots a) = g_players (update_pots b)) by apply (sim_players a b H).
  rewrite Hpl.
  destruct (settle_panics _ _); [split; [exact H|reflexivity]|]. cbn [fst snd]. split; [|reflexivity].
  pose proof (resp_update_pots _ _ H) as H1.
  apply sim_split in H1 as (M & P & V & PO & R). apply sim_split. simpl in *. repeat split; try assumption.
  all: try (now rewrite P).
  all: try (revert V; destruct (g_st a), (g_st b); unfold st_vis, st_set_pots, st_set_event; simpl; intros V; injection V as; subst; reflexivity).
Qed.

(* ---------- table operations ---------- *)
Lemma resp2_do_ready : Resp2 do_ready.
Proof.
  intros a b H. unfold do_ready. rewrite (sim_event a b H).
  destruct (negb (event_eqb (st_event (g_st b)) EvReadyRequested)); [split; [exact H|reflexivity]|].
  pose proof (resp_reset_all a b H) as H0.
  rewrite (sim_round _ _ H0), (sim_meta _ _ H0).
  destruct (st_round (g_st (reset_all b))).
  - destruct (0 <? m_ante (g_meta (reset_all b))).
    + split; [apply (resp_set_event EvAnteRequested); exact H0|reflexivity].
    + apply resp2_enter_preflop. exact H0.
  - split; [apply resp_start_round; exact H0|reflexivity].
  - split; [apply resp_start_round; exact H0|reflexivity].
  - split; [apply resp_start_round; exact H0|reflexivity].
  - split; [apply resp_start_round; exact H0|reflexivity].
Qed.

Lemma resp2_ante_loop order : Resp2 (ante_loop order).
Proof.
  induction order as [|i t IH]; intros a b H; simpl; [split; [exact H|reflexivity]|].
  rewrite (sim_get_p a b i H).
  destruct (0 <? p_wager (get_p b i)); [split; [exact H|reflexivity]|].
  rewrite (sim_meta a b H).
  pose proof (resp_pay i (m_ante (g_meta b)) false a b H) as H1. cbv beta in H1.
  rewrite (sim_get_p _ _ i H1).
  apply IH. apply (resp_set_last _ _ _ _ _ H1).
Qed.

Lemma resp2_do_pay_ante : Resp2 do_pay_ante.
Proof.
  intros a b H. unfold do_pay_ante. rewrite (sim_meta a b H), (sim_event a b H), (sim_order a b H).
  destruct (m_ante (g_meta b) =? 0); [split; [exact H|reflexivity]|].
  destruct (negb (event_eqb (st_event (g_st b)) EvAnteRequested)); [split; [exact H|reflexivity]|].
  destruct (resp2_ante_loop (player_order b) a b H) as [H1 H2].
  destruct (ante_loop (player_order b) a) as [ga ba], (ante_loop (player_order b) b) as [gb bb]. cbn [fst snd] in *. subst bb.
  destruct ba; [|split; [exact H1|reflexivity]].
  apply resp2_enter_preflop. apply resp_reset_round_status, resp_reset_all_status, resp_update_pots, resp_reset_all. exact H1.
Qed.

Lemma resp_pay_blind i : Resp (fun g => pay_blind g i).
Proof.
  intros a b H. unfold pay_blind. rewrite (sim_get_p a b i H), (sim_meta a b H).
  destruct (blind_of (g_meta b) (get_p b i)) as [amount t].
  apply (resp_set_last _ _ _). apply resp_pay. exact H.
Qed.

Lemma resp_fold_pay_blind order : Resp (fun g => fold_left pay_blind order g).
Proof.
  induction order as [|i t IH]; intros a b H; simpl; [exact H|]. apply IH. apply resp_pay_blind. exact H.
Qed.

Lemma resp2_do_pay_blinds : Resp2 do_pay_blinds.
Proof.
  intros a b H. unfold do_pay_blinds. rewrite (sim_event a b H), (sim_order a b H).
  destruct (negb (event_eqb (st_event (g_st b)) EvBlindsRequested)); [split; [exact H|reflexivity]|].
  cbn [fst snd]. split; [|reflexivity].
  pose proof (resp_fold_pay_blind (player_order b) a b H) as H1. cbv beta in H1.
  rewrite (sim_meta _ _ H1).
  apply resp_prepare_round, resp_reset_all. apply (resp_set_prs _ _ _ H1).
Qed.

Lemma resp2_do_next : Resp2 do_next.
Proof.
  intros a b H. unfold do_next. rewrite (sim_event a b H).
  destruct (negb (event_eqb (st_event (g_st b)) EvRoundClosed)); [split; [exact H|reflexivity]|].
  pose proof (resp_set_last (-1) LNext 0 a b H) as H0. cbv beta in H0.
  rewrite (sim_round _ _ H0).
  destruct (st_round (g_st (set_last b (-1) LNext 0))) eqn:Er; [split; [exact H0|reflexivity]| | | |].
  all: pose proof (resp_reset_all_status _ _ (resp_reset_round_status _ _ H0)) as H1;
       rewrite (sim_alive _ _ H1);
       destruct (Nat.eqb (alive_count (reset_all_status (reset_round_status (set_last b (-1) LNext 0)))) 1).
  all: try (destruct (resp2_game_completed _ _ H1) as [G1 G2];
            destruct (game_completed (reset_all_status (reset_round_status (set_last a (-1) LNext 0)))) as [ga oa];
            destruct (game_completed (reset_all_status (reset_round_status (set_last b (-1) LNext 0)))) as [gb ob];
            cbn [fst snd] in *; subst ob; destruct oa; split; try exact G1; try exact H; reflexivity).
  all: match goal with |- context [enter_street _ ?r] =>
         destruct (resp2_enter_street r _ _ H1) as [G1 G2];
         destruct (enter_street (reset_all_status (reset_round_status (set_last a (-1) LNext 0))) r) as [ga oa];
         destruct (enter_street (reset_all_status (reset_round_status (set_last b (-1) LNext 0))) r) as [gb ob];
         cbn [fst snd] in *; subst ob; destruct oa; split; try exact G1; try exact H; reflexivity end.
Qed.

(* ---------- actions ---------- *)
Ltac refused H := split; [exact H|reflexivity].

Lemma resp2_act_pass i : Resp2 (fun g => act_pass g i).
Proof.
  intros a b H. unfold act_pass. rewrite (sim_allowed a b i APass H).
  destruct (negb (allowed b i APass)); [refused H|]. cbn [fst snd]. split; [|reflexivity].
  apply resp_resume, (resp_set_last _ _ _), (resp_upd i _). exact H.
Qed.

Lemma resp2_act_fold i : Resp2 (fun g => act_fold g i).
Proof.
  intros a b H. unfold act_fold. rewrite (sim_allowed a b i AFold H).
  destruct (negb (allowed b i AFold)); [refused H|]. cbn [fst snd]. split; [|reflexivity].
  apply resp_resume, (resp_set_last _ _ _), (resp_upd i _). exact H.
Qed.

Lemma resp2_act_check i : Resp2 (fun g => act_check g i).
Proof.
  intros a b H. unfold act_check. rewrite (sim_allowed a b i ACheck H).
  destruct (negb (allowed b i ACheck)); [refused H|]. cbn [fst snd]. split; [|reflexivity].
  apply resp_resume, (resp_set_last _ _ _), (resp_upd i _). exact H.
Qed.

Lemma resp2_act_call i : Resp2 (fun g => act_call g i).
Proof.
  intros a b H. unfold act_call. rewrite (sim_allowed a b i ACall H).
  destruct (negb (allowed b i ACall)); [refused H|]. cbn [fst snd]. split; [|reflexivity].
  rewrite (sim_cw a b H), (sim_meta a b H), (sim_get_p a b i H).
  apply resp_resume, (resp_set_last _ _ _), resp_pay, (resp_upd i _). exact H.
Qed.

Lemma resp2_act_allin i : Resp2 (fun g => act_allin g i).
Proof.
  intros a b H. unfold act_allin. rewrite (sim_allowed a b i AAllin H).
  destruct (negb (allowed b i AAllin)); [refused H|]. cbn [fst snd]. split; [|reflexivity].
  set (f := fun p : pstate => p_set_acted (p_set_did p DAllin) true).
  pose proof (resp_upd i f a b H) as H1. cbv beta in H1.
  rewrite (sim_get_p _ _ i H1), (sim_cw _ _ H1), (sim_prs _ _ H1).
  apply resp_resume, (resp_set_last _ _ _), resp_pay.
  destruct (_ <=? _); [apply (resp_set_prs _ _ _ H1)|exact H1].
Qed.

Lemma resp2_act_bet i x : Resp2 (fun g => act_bet g i x).
Proof.
  intros a b H. unfold act_bet. rewrite (sim_allowed a b i ABet H).
  destruct (negb (allowed b i ABet)); [refused H|].
  destruct (x <=? 0); [refused H|].
  rewrite (sim_get_p a b i H).
  destruct (p_stack (get_p b i) <=? x); [apply resp2_act_allin; exact H|]. cbn [fst snd]. split; [|reflexivity].
  apply resp_resume, (resp_set_last _ _ _), (resp_set_prs x _ _), resp_pay, (resp_upd i _). exact H.
Qed.

Lemma resp2_act_raise i x : Resp2 (fun g => act_raise g i x).
Proof.
  intros a b H. unfold act_raise. rewrite (sim_allowed a b i ARaise H).
  destruct (negb (allowed b i ARaise)); [refused H|].
  rewrite (sim_cw a b H), (sim_prs a b H), (sim_get_p a b i H), (sim_meta a b H).
  destruct ((x =? 0) || (x <? st_cw (g_st b))); [refused H|].
  destruct (x =? st_cw (g_st b)); [apply resp2_act_call; exact H|].
  destruct ((p_initial (get_p b i) <=? x) || (x - st_cw (g_st b) <? st_prs (g_st b))); [apply resp2_act_allin; exact H|].
  cbn [fst snd]. split; [|reflexivity].
  apply resp_resume, (resp_set_last _ _ _), resp_pay.
  match goal with |- sim (with_st ?ga (st_set_prs (g_st ?ga) ?v)) _ => apply (resp_set_prs v) end.
  apply (resp_upd i _). exact H.
Qed.

Lemma resp2_act_pay i x : Resp2 (fun g => act_pay g i x).
Proof.
  intros a b H. unfold act_pay. rewrite (sim_allowed a b i APay H).
  destruct (negb (allowed b i APay)); [refused H|]. cbn [fst snd]. split; [|reflexivity].
  apply resp_resume, (resp_set_last _ _ _), resp_pay. exact H.
Qed.

(* ---------- the theorems ---------- *)
Theorem step_respects_sim a b o :
  sim a b -> sim (fst (step a o)) (fst (step b o)) /\ snd (step a o) = snd (step b o).
Proof.
  intros H. destruct o as [| | | |who x amt]; simpl.
  - apply resp2_do_ready; exact H.
  - apply resp2_do_pay_ante; exact H.
  - apply resp2_do_pay_blinds; exact H.
  - apply resp2_do_next; exact H.
  - rewrite (sim_cur a b H), (sim_nplayers a b H).
    set (i := match who with Some i => i | None => st_cur (g_st b) end).
    destruct (negb (Nat.ltb i (nplayers b))); [refused H|].
    destruct x.
    + apply resp2_act_pass; exact H.
    + apply resp2_act_fold; exact H.
    + apply resp2_act_check; exact H.
    + apply resp2_act_call; exact H.
    + apply resp2_act_allin; exact H.
    + apply resp2_act_bet; exact H.
    + apply resp2_act_raise; exact H.
    + apply resp2_act_pay; exact H.
Qed.

(* a restart (JSON hop) before an operation changes neither the erased result nor the outcome *)
Theorem step_after_erase g o :
  erase (fst (step (erase g) o)) = erase (fst (step g o)) /\ snd (step (erase g) o) = snd (step g o).
Proof. apply step_respects_sim. apply sim_erase. Qed.

(* a run in which the state goes through JSON before the operations marked in cuts *)
Fixpoint run_with_cuts (g : gstate) (ops : list (bool * op)) : gstate :=
  match ops with
  | [] => g
  | (cut, o) :: t => run_with_cuts (fst (step (if cut then erase g else g) o)) t
  end.

Theorem cuts_do_not_matter ops : forall a b,
  sim a b -> sim (run_with_cuts a ops) (run b (map snd ops)).
Proof.
  unfold run. induction ops as [|[cut o] t IH]; intros a b H; simpl; [exact H|].
  apply IH. apply step_respects_sim. destruct cut; [|exact H].
  eapply sim_trans; [apply sim_erase|exact H].
Qed.
