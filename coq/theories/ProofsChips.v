(* ProofsChips.v — chip bookkeeping of the engine model (C01, C12, C13). *)
From Coq Require Import Lia.
From PF Require Import Base ProofsBase Comb ModelPot ModelSettle ModelEval ModelGame ProofsGameBasic.

(* the per-seat chip identity *)
Definition seat_ok (p : pstate) : Prop :=
  p_bankroll p = p_stack p + p_wager p + p_pot p /\
  p_initial p = p_stack p + p_wager p /\
  0 <= p_stack p /\ 0 <= p_wager p /\ 0 <= p_pot p.

Definition chips_of (p : pstate) : Z * Z * Z * Z * Z :=
  (p_bankroll p, p_initial p, p_stack p, p_pot p, p_wager p).

Lemma seat_ok_chips p q : chips_of p = chips_of q -> seat_ok p -> seat_ok q.
Proof. unfold chips_of, seat_ok. intros H. inversion H. intros. lia. Qed.

Definition wagers (g : gstate) : Z := zsum (map p_wager (g_players g)).

(* become_raiser / reset_acted do not touch chips *)
Lemma chips_reset_acted g i : (i < nplayers g)%nat -> chips_of (get_p (reset_acted g) i) = chips_of (get_p g i).
Proof. intros H. unfold reset_acted. rewrite get_p_map by exact H. reflexivity. Qed.

Lemma nplayers_reset_acted g : nplayers (reset_acted g) = nplayers g.
Proof. apply nplayers_map. Qed.

Lemma nplayers_with_st g s : nplayers (with_st g s) = nplayers g.
Proof. reflexivity. Qed.

Lemma nplayers_become_raiser g i : nplayers (become_raiser g i) = nplayers g.
Proof.
  unfold become_raiser.
  rewrite nplayers_upd, nplayers_reset_acted, nplayers_with_st, nplayers_upd. reflexivity.
Qed.

Lemma chips_upd_neutral g i j f :
  (forall p, chips_of (f p) = chips_of p) -> (j < nplayers g)%nat ->
  chips_of (get_p (upd_p g i f) j) = chips_of (get_p g j).
Proof.
  intros Hf Hj. destruct (Nat.eq_dec i j) as [->|Hne].
  - rewrite get_p_upd_same by exact Hj. apply Hf.
  - now rewrite get_p_upd_other.
Qed.

Lemma chips_become_raiser g i j :
  (j < nplayers g)%nat -> chips_of (get_p (become_raiser g i) j) = chips_of (get_p g j).
Proof.
  intros Hj. unfold become_raiser.
  rewrite chips_upd_neutral; [|reflexivity|].
  2:{ rewrite nplayers_reset_acted, nplayers_with_st, nplayers_upd. exact Hj. }
  rewrite chips_reset_acted.
  2:{ rewrite nplayers_with_st, nplayers_upd. exact Hj. }
  rewrite get_p_with_st.
  apply chips_upd_neutral; [|exact Hj].
  intros p. destruct (0 <? p_wager p); reflexivity.
Qed.

(* pay: the paying seat keeps its identity, nobody else's chips move, the round pot follows *)
Lemma chips_ror g (c : bool) i j :
  (j < nplayers g)%nat ->
  chips_of (get_p (if c then become_raiser g i else reset_acted g) j) = chips_of (get_p g j).
Proof. intros Hj. destruct c; [apply chips_become_raiser|apply chips_reset_acted]; exact Hj. Qed.

Lemma nplayers_ror g (c : bool) i : nplayers (if c then become_raiser g i else reset_acted g) = nplayers g.
Proof. destruct c; [apply nplayers_become_raiser|apply nplayers_reset_acted]. Qed.

Lemma get_p_if_with_st g (c : bool) s j : get_p (if c then with_st g s else g) j = get_p g j.
Proof. destruct c; reflexivity. Qed.

Lemma nplayers_if_with_st g (c : bool) s : nplayers (if c then with_st g s else g) = nplayers g.
Proof. destruct c; reflexivity. Qed.

Lemma pay_nplayers g i chips w : nplayers (pay g i chips w) = nplayers g.
Proof.
  unfold pay. destruct (p_stack (get_p g i) <=? chips).
  - destruct w.
    + rewrite nplayers_ror, nplayers_if_with_st, nplayers_upd. reflexivity.
    + rewrite nplayers_upd. reflexivity.
  - destruct (w && _).
    + rewrite nplayers_become_raiser, !nplayers_with_st, nplayers_upd. reflexivity.
    + rewrite nplayers_with_st, nplayers_upd. reflexivity.
Qed.

Lemma pay_other g i j chips w :
  (j < nplayers g)%nat -> i <> j -> chips_of (get_p (pay g i chips w) j) = chips_of (get_p g j).
Proof.
  intros Hj Hne. unfold pay.
  destruct (p_stack (get_p g i) <=? chips).
  - destruct w.
    + rewrite chips_ror by (rewrite nplayers_if_with_st, nplayers_upd; exact Hj).
      rewrite get_p_if_with_st, get_p_upd_other by exact Hne. reflexivity.
    + rewrite get_p_upd_other by exact Hne. reflexivity.
  - destruct (w && _).
    + rewrite chips_become_raiser by (rewrite !nplayers_with_st, nplayers_upd; exact Hj).
      rewrite !get_p_with_st, get_p_upd_other by exact Hne. reflexivity.
    + rewrite get_p_with_st, get_p_upd_other by exact Hne. reflexivity.
Qed.

Lemma pay_self g i chips w :
  (i < nplayers g)%nat -> 0 <= chips -> seat_ok (get_p g i) -> seat_ok (get_p (pay g i chips w) i).
Proof.
  intros Hi Hc Hok. destruct Hok as (A & B & C & D & F). unfold pay.
  destruct (p_stack (get_p g i) <=? chips) eqn:E.
  - assert (Hs : seat_ok (p_set_chips (p_set_did (get_p g i) DAllin) (p_initial (get_p g i)) 0
                                      (p_pot (get_p g i)) (p_initial (get_p g i)))).
    { unfold seat_ok. simpl. lia. }
    destruct w.
    + eapply seat_ok_chips; [|exact Hs]. symmetry.
      rewrite chips_ror by (rewrite nplayers_if_with_st, nplayers_upd; exact Hi).
      rewrite get_p_if_with_st, get_p_upd_same by exact Hi. reflexivity.
    + rewrite get_p_upd_same by exact Hi. exact Hs.
  - apply Z.leb_gt in E.
    assert (Hs : seat_ok (p_set_chips (get_p g i) (p_initial (get_p g i))
                                      (p_initial (get_p g i) - (p_wager (get_p g i) + chips))
                                      (p_pot (get_p g i)) (p_wager (get_p g i) + chips))).
    { unfold seat_ok. simpl. lia. }
    destruct (w && _).
    + eapply seat_ok_chips; [|exact Hs]. symmetry.
      rewrite chips_become_raiser by (rewrite !nplayers_with_st, nplayers_upd; exact Hi).
      rewrite !get_p_with_st, get_p_upd_same by exact Hi. reflexivity.
    + rewrite get_p_with_st, get_p_upd_same by exact Hi. exact Hs.
Qed.

(* the exact chip fields of the paying seat *)
Lemma pay_chips g i chips w :
  (i < nplayers g)%nat ->
  chips_of (get_p (pay g i chips w) i) =
  let p := get_p g i in
  if p_stack p <=? chips then (p_bankroll p, p_initial p, 0, p_pot p, p_initial p)
  else (p_bankroll p, p_initial p, p_initial p - (p_wager p + chips), p_pot p, p_wager p + chips).
Proof.
  intros Hi. unfold pay. cbv zeta.
  destruct (p_stack (get_p g i) <=? chips) eqn:E.
  - destruct w.
    + rewrite chips_ror by (rewrite nplayers_if_with_st, nplayers_upd; exact Hi).
      rewrite get_p_if_with_st, get_p_upd_same by exact Hi. reflexivity.
    + rewrite get_p_upd_same by exact Hi. reflexivity.
  - destruct (w && _).
    + rewrite chips_become_raiser by (rewrite !nplayers_with_st, nplayers_upd; exact Hi).
      rewrite !get_p_with_st, get_p_upd_same by exact Hi. reflexivity.
    + rewrite get_p_with_st, get_p_upd_same by exact Hi. reflexivity.
Qed.

(* how much a payment adds to the wager: the amount, capped at the stack (C13) *)
Lemma pay_wager g i chips w :
  (i < nplayers g)%nat -> seat_ok (get_p g i) ->
  p_wager (get_p (pay g i chips w) i) = p_wager (get_p g i) + (if p_stack (get_p g i) <=? chips then p_stack (get_p g i) else chips)
  /\ p_pot (get_p (pay g i chips w) i) = p_pot (get_p g i).
Proof.
  intros Hi (A & B & C & D & F). pose proof (pay_chips g i chips w Hi) as H.
  unfold chips_of in H. cbv zeta in H.
  destruct (p_stack (get_p g i) <=? chips); inversion H as [[H1 H2 H3 H4 H5]]; rewrite H5, H4; split; lia.
Qed.
