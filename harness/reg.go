package main

import (
	"encoding/json"
	"fmt"
	"math/rand"
	"os"
	"sort"

	reg "github.com/weedbox/pokerface/regulator"
)

// RegOp kinds: add(A players) | status(A) | sync(table A, B eliminated) | release(table A: hand the
// players in transit from A back) | settle (flush all transit, then sweep until quiet)
type RegOp struct {
	Kind string `json:"kind"`
	A    int    `json:"a"`
	B    int    `json:"b,omitempty"`
}

type RegCase struct {
	Max   int     `json:"max"`
	Min   int     `json:"min"`
	Delay bool    `json:"delay"`
	Ops   []RegOp `json:"ops"`
}

type regEnv struct {
	o       *Out
	c       RegCase
	r       reg.Regulator
	tables  map[int][]int // env membership: table id -> players
	transit map[int][]int // released by a table, not yet handed back
	where   map[int]int   // player -> 0 queue, >0 table id, -1 eliminated, -2 transit
	tcount  int
	pcount  int
	status  int
	events  []int64 // callbacks of the current call
	choices []int64
	initial bool // the current call started with no table open
	regd    int  // players registered so far
	done    []RegOp
	inCall  string
	reqs    int // requestTableFn calls within the current regulator call
}

func (e *regEnv) replay() interface{} {
	c := e.c
	c.Ops = append([]RegOp{}, e.done...)
	return c
}

func pname(p int) string { return fmt.Sprint(p) }
func pnum(s string) int  { var x int; fmt.Sscan(s, &x); return x }

func newRegEnv(o *Out, c RegCase) *regEnv {
	e := &regEnv{o: o, c: c, tables: map[int][]int{}, transit: map[int][]int{}, where: map[int]int{}}
	// the options are given in either order (they are meant to be independent)
	o1, o2 := reg.MaxPlayersPerTable(c.Max), reg.MinInitialPlayers(c.Min)
	if (c.Max+c.Min+len(c.Ops))%2 == 1 {
		o1, o2 = o2, o1
	}
	e.r = reg.NewRegulator(o1, o2,
		reg.WithRequestTableFn(func(players []string) (string, error) {
			e.tcount++
			id := e.tcount
			e.events = append(e.events, 1, int64(id), int64(len(players)))
			for _, p := range players {
				e.events = append(e.events, int64(pnum(p)))
			}
			if e.status == 0 {
				o.Violate("C19", "table-opened-before-start", fmt.Sprintf("table of %d while pending", len(players)), e.replay())
			}
			if e.initial && e.regd < c.Min {
				o.Violate("C19", "table-opened-before-min-registered", fmt.Sprintf("%d registered, min %d", e.regd, c.Min), e.replay())
			}
			if len(players) > c.Max {
				kind := "over-capacity:request-table"
				if !e.f12aShape(len(players)) {
					kind = "over-capacity:request-table:other-shape"
				}
				o.Violate("C19", kind, fmt.Sprintf("requestTableFn called with %d players, max %d (during %s)", len(players), c.Max, e.inCall), e.replay())
			}
			e.reqs++
			if e.initial && len(players) < c.Min {
				o.Violate("C19", "initial-table-below-min", fmt.Sprintf("initial allocation opened a table of %d, min %d", len(players), c.Min), e.replay())
			}
			e.handOut(players, id, "request-table")
			return fmt.Sprintf("t%d", id), nil
		}),
		reg.WithAssignPlayersFn(func(tid string, players []string) error {
			var id int
			fmt.Sscanf(tid, "t%d", &id)
			e.events = append(e.events, 2, int64(id), int64(len(players)))
			for _, p := range players {
				e.events = append(e.events, int64(pnum(p)))
			}
			e.choices = append(e.choices, int64(id))
			if _, ok := e.tables[id]; !ok {
				o.Violate("C09", "assign-to-unknown-table", tid, e.replay())
			}
			e.handOut(players, id, "assign-players")
			if len(players) > 0 && len(e.tables[id]) > c.Max {
				o.Violate("C19", "over-capacity:assign-players", fmt.Sprintf("assignPlayersFn brings table %s to %d players, max %d (during %s)", tid, len(e.tables[id]), c.Max, e.inCall), e.replay())
			}
			return nil
		}))
	return e
}

// f12aShape: the shape of the recorded defect F12a — a table after the first one opened by the same
// allocation, sized floor(waiting / (tables wanted - tables open)) with no cap at the maximum.
// (The first table of an allocation is sized floor(players / tables wanted) <= max, or takes the whole
// queue only when that is shorter than max.)  Everything is computed from what the environment knows.
func (e *regEnv) f12aShape(k int) bool {
	if e.reqs == 0 {
		return false
	}
	alive, waiting := 0, 0
	for _, w := range e.where {
		if w != -1 {
			alive++
		}
		if w == 0 {
			waiting++
		}
	}
	open := len(e.tables)
	for _, wanted := range []int{(alive + e.c.Max - 1) / e.c.Max, alive / e.c.Max} {
		if left := wanted - open; left >= 1 && k == waiting/left {
			return true
		}
	}
	return false
}

func (e *regEnv) handOut(players []string, id int, site string) {
	for _, ps := range players {
		p := pnum(ps)
		if w, ok := e.where[p]; !ok || w != 0 {
			e.o.Violate("C09", "handed-out-not-queued", fmt.Sprintf("%s hands out player %d who is at %d", site, p, e.where[p]), e.replay())
		}
		e.where[p] = id
		e.tables[id] = append(e.tables[id], p)
	}
}

func (e *regEnv) snapObs(code int64, extra func(b *Obs)) string {
	s := reg.VerifSnap(e.r)
	var b Obs
	b.K("o", code).K("badchoice", 0).K("events", e.events...)
	if extra != nil {
		extra(&b)
	}
	var q []int64
	for _, p := range s.WaitingQueue {
		q = append(q, int64(pnum(p)))
	}
	sort.Slice(s.Tables, func(i, j int) bool {
		var a, c int
		fmt.Sscanf(s.Tables[i].ID, "t%d", &a)
		fmt.Sscanf(s.Tables[j].ID, "t%d", &c)
		return a < c
	})
	var tv []int64
	for _, t := range s.Tables {
		var id int
		fmt.Sscanf(t.ID, "t%d", &id)
		tv = append(tv, int64(id), int64(t.Required), int64(t.PlayerCount))
	}
	b.K("pc", int64(s.PlayerCount)).K("tc", int64(s.TableCount)).K("status", int64(s.Status)).K("queue", q...).K("tables", tv...)
	return b.String()
}

// envKeys: the environment as the system machine of ModelSys.v sees it — the tables with their members in
// seating order, the players in transit (sorted), the number of living players; "sysreg" is the model's own
// consistency flag (its regulator stepped with the tables equals the regulator stepped alone)
func (e *regEnv) envLine() {
	var b Obs
	var envt, envtr []int64
	for _, id := range e.tableIDs() {
		envt = append(envt, int64(id), int64(len(e.tables[id])))
		for _, p := range e.tables[id] {
			envt = append(envt, int64(p))
		}
	}
	alive := 0
	for p, w := range e.where {
		if w == -2 {
			envtr = append(envtr, int64(p))
		}
		if w != -1 {
			alive++
		}
	}
	sort.Slice(envtr, func(i, j int) bool { return envtr[i] < envtr[j] })
	b.K("envt", envt...).K("envtr", envtr...).K("enval", int64(alive)).K("sysreg", 1)
	e.o.Line("reg-env", b.String())
}

func snapKey(r reg.Regulator) string {
	s := reg.VerifSnap(r)
	sort.Slice(s.Tables, func(i, j int) bool { return s.Tables[i].ID < s.Tables[j].ID })
	b, _ := json.Marshal(s)
	return string(b)
}

// invariant: C09 after every call
func (e *regEnv) checkInv(where string) {
	s := reg.VerifSnap(e.r)
	cnt := map[int]int{}
	for _, p := range s.WaitingQueue {
		cnt[pnum(p)]++
	}
	for _, ps := range e.tables {
		for _, p := range ps {
			cnt[p]++
		}
	}
	for _, ps := range e.transit {
		for _, p := range ps {
			cnt[p]++
		}
	}
	alive := 0
	for p, w := range e.where {
		if w == -1 {
			if cnt[p] != 0 {
				e.o.Violate("C09", "eliminated-player-still-present", fmt.Sprintf("player %d after %s", p, where), e.replay())
			}
			continue
		}
		alive++
		if cnt[p] != 1 {
			kind := "player-lost"
			if cnt[p] > 1 {
				kind = "player-duplicated"
			}
			e.o.Violate("C09", kind, fmt.Sprintf("player %d is in %d places after %s", p, cnt[p], where), e.replay())
		}
		if w == 0 {
			inq := false
			for _, q := range s.WaitingQueue {
				if pnum(q) == p {
					inq = true
				}
			}
			if !inq {
				e.o.Violate("C09", "queued-player-not-in-queue", fmt.Sprintf("player %d after %s", p, where), e.replay())
			}
		}
	}
	if e.r.GetPlayerCount() != alive {
		e.o.Violate("C09", "player-total-wrong", fmt.Sprintf("regulator says %d, really %d after %s", e.r.GetPlayerCount(), alive, where), e.replay())
	}
	if e.r.GetTableCount() != len(e.tables) || len(s.Tables) != len(e.tables) {
		e.o.Violate("C09", "table-count-wrong", fmt.Sprintf("regulator says %d (%d records), really %d after %s", e.r.GetTableCount(), len(s.Tables), len(e.tables), where), e.replay())
	}
	for id, ps := range e.tables {
		t := e.r.GetTable(fmt.Sprintf("t%d", id))
		if t == nil {
			e.o.Violate("C09", "table-unknown-to-regulator", fmt.Sprintf("t%d after %s", id, where), e.replay())
			continue
		}
		if t.PlayerCount != len(ps) {
			e.o.Violate("C09", "table-player-count-wrong", fmt.Sprintf("t%d: regulator says %d, really %d after %s", id, t.PlayerCount, len(ps), where), e.replay())
		}
	}
}

func (e *regEnv) beginCall(name string) {
	e.events, e.choices = nil, nil
	e.reqs = 0
	e.initial = e.r.GetTableCount() == 0
	e.inCall = name
}

func (e *regEnv) withChoices(args ...int64) []int64 {
	return append(append([]int64{int64(len(e.choices))}, e.choices...), args...)
}

func (e *regEnv) add(k int) {
	var ps []string
	var nums []int64
	before := snapKey(e.r)
	for i := 0; i < k; i++ {
		e.pcount++
		ps = append(ps, pname(e.pcount))
		nums = append(nums, int64(e.pcount))
	}
	if e.status < 2 {
		for _, n := range nums {
			e.where[int(n)] = 0
		}
		e.regd += k
	}
	e.beginCall(fmt.Sprintf("AddPlayers(%d)", k))
	err := e.r.AddPlayers(ps)
	code := int64(0)
	if err == reg.ErrAfterRegDealline {
		code = 2
	} else if err != nil {
		code = 7
	}
	if e.status == 2 {
		if err != reg.ErrAfterRegDealline || snapKey(e.r) != before || len(e.events) > 0 {
			e.o.Violate("C09", "registration-after-deadline-not-refused", fmt.Sprintf("err=%v", err), e.replay())
		}
	} else if err != nil {
		e.o.Violate("C09", "registration-refused", fmt.Sprintf("err=%v", err), e.replay())
	}
	e.o.Line("reg-add "+ints(e.withChoices(nums...)...), e.snapObs(code, nil))
	e.checkInv("AddPlayers")
	e.envLine()
}

func (e *regEnv) setStatus(s int) {
	e.beginCall(fmt.Sprintf("SetStatus(%d)", s))
	e.status = s
	e.r.SetStatus(reg.CompetitionStatus(s))
	e.o.Line("reg-status "+ints(e.withChoices(int64(s))...), e.snapObs(0, nil))
	e.checkInv("SetStatus")
	e.envLine()
}

func (e *regEnv) releaseTransit(id int) {
	ps := e.transit[id]
	if len(ps) == 0 {
		return
	}
	delete(e.transit, id)
	var strs []string
	var nums []int64
	for _, p := range ps {
		e.where[p] = 0
		strs = append(strs, pname(p))
		nums = append(nums, int64(p))
	}
	e.beginCall(fmt.Sprintf("ReleasePlayers(t%d,%d)", id, len(ps)))
	e.r.ReleasePlayers(fmt.Sprintf("t%d", id), strs)
	e.o.Line("reg-release "+ints(e.withChoices(nums...)...), e.snapObs(0, nil))
	// C20: every player handed back is queued or seated at another table
	for _, p := range ps {
		if w := e.where[p]; w < 0 {
			e.o.Violate("C20", "released-player-not-requeued", fmt.Sprintf("player %d from t%d is at %d", p, id, w), e.replay())
		}
	}
	e.checkInv("ReleasePlayers")
	e.envLine()
}

// sync returns true when the table was changed in any way (release, top-up or break)
func (e *regEnv) sync(id int, out int) bool {
	tid := fmt.Sprintf("t%d", id)
	ps, known := e.tables[id]
	if !known {
		before := snapKey(e.r)
		e.beginCall(fmt.Sprintf("SyncState(%s,%d)", tid, out))
		rel, np, err := e.r.SyncState(tid, out)
		if err != reg.ErrNotFoundTable || rel != 0 || len(np) != 0 || snapKey(e.r) != before {
			e.o.Violate("C09", "unknown-table-not-refused", fmt.Sprintf("SyncState(%s) err=%v", tid, err), e.replay())
		}
		code := int64(7)
		if err == reg.ErrNotFoundTable {
			code = 1
		} else if err == nil {
			code = 0
		}
		e.o.Line(fmt.Sprintf("reg-sync %d %d", id, out), e.snapObs(code, func(b *Obs) { b.K("release", int64(rel)).K("handed") }))
		return false
	}
	if out > len(ps) {
		out = len(ps)
	}
	elim := ""
	for i := 0; i < out; i++ {
		elim += fmt.Sprintf(" %d", ps[len(ps)-1])
		e.where[ps[len(ps)-1]] = -1
		ps = ps[:len(ps)-1]
	}
	e.tables[id] = ps
	before := len(ps)
	e.beginCall(fmt.Sprintf("SyncState(%s,%d)", tid, out))
	rel, np, err := e.r.SyncState(tid, out)
	if err != nil {
		e.o.Violate("C09", "sync-known-table-refused", fmt.Sprintf("err=%v", err), e.replay())
		e.o.Line(fmt.Sprintf("reg-sync %d %d%s", id, out, elim), e.snapObs(7, func(b *Obs) { b.K("release", 0).K("handed") }))
		return false
	}
	var handed []int64
	for _, p := range np {
		handed = append(handed, int64(pnum(p)))
	}
	e.o.Line(fmt.Sprintf("reg-sync %d %d%s", id, out, elim), e.snapObs(0, func(b *Obs) { b.K("release", int64(rel)).K("handed", handed...) }))
	e.handOut(np, id, "sync-top-up")
	if len(np) > 0 && len(e.tables[id]) > e.c.Max {
		e.o.Violate("C19", "over-capacity:sync-top-up", fmt.Sprintf("SyncState tops table %s up to %d players, max %d", tid, len(e.tables[id]), e.c.Max), e.replay())
	}
	broken := e.r.GetTable(tid) == nil
	if rel > len(e.tables[id]) {
		e.o.Violate("C09", "release-more-than-present", fmt.Sprintf("asked %d of %d", rel, len(e.tables[id])), e.replay())
		rel = len(e.tables[id])
	}
	if rel < 0 {
		e.o.Violate("C09", "negative-release-count", fmt.Sprintf("SyncState(%s) asks to release %d players", tid, rel), e.replay())
		rel = 0
	}
	cur := e.tables[id]
	relps := append([]int{}, cur[:rel]...) // the first rel of (kept ++ handed): the policy of ModelSys.sys_step
	e.tables[id] = append([]int{}, cur[rel:]...)
	if broken {
		if len(e.tables[id]) != 0 {
			e.o.Violate("C20", "broken-table-keeps-players", fmt.Sprintf("t%d told to break, releases %d of %d", id, rel, len(cur)), e.replay())
			for _, p := range e.tables[id] {
				relps = append(relps, p)
			}
		}
		delete(e.tables, id)
	}
	for _, p := range relps {
		e.where[p] = -2
	}
	e.transit[id] = append(e.transit[id], relps...)
	e.checkInv("SyncState")
	e.envLine()
	if !e.c.Delay {
		e.releaseTransit(id)
	}
	return broken || rel > 0 || len(np) > 0 || len(e.tables[id]) != before
}

func (e *regEnv) tableIDs() []int {
	var ids []int
	for id := range e.tables {
		ids = append(ids, id)
	}
	sort.Ints(ids)
	return ids
}

// settle: no registrations, no eliminations; sweep every table (in a random order per sweep)
// until a whole sweep changes nothing
func (e *regEnv) settle(rng *rand.Rand, bound int) {
	ids := []int{}
	for id := range e.transit {
		ids = append(ids, id)
	}
	sort.Ints(ids)
	for _, id := range ids {
		e.releaseTransit(id)
	}
	delay := e.c.Delay
	e.c.Delay = false
	defer func() { e.c.Delay = delay }()
	if e.status == 0 {
		return
	}
	// the sweep orders derive from the history alone, so that a replay repeats them
	rng = rand.New(rand.NewSource(int64(e.c.Max*100003 + e.c.Min*1009 + len(e.done)*17 + e.pcount)))
	for sweep := 0; sweep <= bound; sweep++ {
		quiet := true
		ids := e.tableIDs()
		if rng != nil {
			rng.Shuffle(len(ids), func(i, j int) { ids[i], ids[j] = ids[j], ids[i] })
		}
		for _, id := range ids {
			if _, ok := e.tables[id]; !ok {
				continue
			}
			if e.sync(id, 0) {
				quiet = false
			}
		}
		if quiet {
			e.o.Stat(fmt.Sprintf("reg.settled-after-sweeps=%d", sweep))
			if sweep >= 1 {
				e.o.Distinct("C20", fmt.Sprint(e.c.Max, e.c.Min, e.done))
			}
			return
		}
	}
	e.o.Violate("C20", "not-settled-within-bound", fmt.Sprintf("still moving after %d sweeps", bound), e.replay())
}

const settleBound = 12

func regCase(o *Out, c RegCase, rng *rand.Rand) {
	e := newRegEnv(o, c)
	b, _ := json.Marshal(map[string]int{"max": c.Max, "min": c.Min})
	o.Mark("reg " + string(b))
	o.Line(fmt.Sprintf("reg-new %d %d", c.Max, c.Min), e.snapObs(0, func(b *Obs) {}))
	// the first line has no o/badchoice/events in the model: rewrite it as a plain state line
	for _, op := range c.Ops {
		e.done = append(e.done, op)
		switch op.Kind {
		case "add":
			e.add(op.A)
		case "status":
			e.setStatus(op.A)
		case "sync":
			e.sync(op.A, op.B)
		case "release":
			e.releaseTransit(op.A)
		case "settle":
			e.settle(rng, settleBound)
		}
	}
	o.StatN("reg.ops", len(c.Ops))
	o.Stat(fmt.Sprintf("reg.max=%d,min=%d", c.Max, c.Min))
	o.StatN("reg.tables-opened", e.tcount)
	o.StatN("reg.players", e.pcount)
	if e.tcount >= 2 {
		k := fmt.Sprint(c)
		o.Distinct("C09", k)
		o.Distinct("C19", k)
	}
	if len(c.Ops) <= 14 {
		o.Sample("C09", c)
		o.Sample("C19", c)
		o.Sample("C20", c)
	}
}

func genRegCase(rng *rand.Rand) RegCase {
	c := RegCase{Delay: rng.Intn(2) == 0}
	c.Max = 2 + rng.Intn(9)
	if rng.Intn(6) == 0 {
		c.Max = 10 + rng.Intn(6) // settings above the default maximum
	}
	c.Min = 2 + rng.Intn(c.Max-1)
	if c.Max >= 10 && rng.Intn(2) == 0 {
		c.Min = 10 + rng.Intn(c.Max-9) // a minimum above the default maximum
	}
	if rng.Intn(2) == 0 {
		c.Max, c.Min = 9, 6
	}
	// the op list is generated against a shadow run so that sync/release name existing tables
	return c
}

func runRegRandom(o *Out, rng *rand.Rand) {
	c := genRegCase(rng)
	e := newRegEnv(o, c)
	b, _ := json.Marshal(map[string]int{"max": c.Max, "min": c.Min})
	o.Mark("reg " + string(b))
	o.Line(fmt.Sprintf("reg-new %d %d", c.Max, c.Min), e.snapObs(0, func(b *Obs) {}))
	steps := 5 + rng.Intn(40)
	for k := 0; k < steps; k++ {
		// hand some transit players back
		tids := []int{}
		for id := range e.transit {
			tids = append(tids, id)
		}
		sort.Ints(tids)
		for _, id := range tids {
			if rng.Intn(3) == 0 {
				e.done = append(e.done, RegOp{"release", id, 0})
				e.releaseTransit(id)
			}
		}
		switch r := rng.Intn(20); {
		case r < 6:
			kk := 1 + rng.Intn(12)
			if rng.Intn(6) == 0 {
				kk = 13 + rng.Intn(40)
			}
			e.done = append(e.done, RegOp{"add", kk, 0})
			e.add(kk)
		case r < 8:
			if e.status < 2 && rng.Intn(2) == 0 {
				e.done = append(e.done, RegOp{"status", e.status + 1, 0})
				e.setStatus(e.status + 1)
			} else if rng.Intn(5) == 0 {
				// SetStatus takes any status. The statuses are stages of a life cycle (pending, normal, after
				// the registration deadline): the same one again and pending -> after the deadline are played,
				// steps back are not (outside the domain; see DESIGN.md section 11)
				s := e.status + rng.Intn(3-e.status)
				e.done = append(e.done, RegOp{"status", s, 0})
				e.setStatus(s)
			}
		case r == 8:
			// a table the regulator does not know
			id := e.tcount + 1 + rng.Intn(3)
			out := rng.Intn(3)
			e.done = append(e.done, RegOp{"sync", id, out})
			e.sync(id, out)
		default:
			ids := e.tableIDs()
			if len(ids) == 0 {
				continue
			}
			id := ids[rng.Intn(len(ids))]
			out := 0
			if rng.Intn(2) == 0 && len(e.tables[id]) > 0 {
				out = 1
				if rng.Intn(3) == 0 {
					out = 1 + rng.Intn(len(e.tables[id]))
				}
			}
			e.done = append(e.done, RegOp{"sync", id, out})
			e.sync(id, out)
		}
	}
	e.done = append(e.done, RegOp{"settle", 0, 0})
	e.settle(rng, settleBound)
	c.Ops = e.done
	o.StatN("reg.ops", len(c.Ops))
	o.Stat(fmt.Sprintf("reg.max=%d,min=%d", c.Max, c.Min))
	o.StatN("reg.tables-opened", e.tcount)
	o.StatN("reg.players", e.pcount)
	if e.tcount >= 2 {
		k := fmt.Sprint(c)
		o.Distinct("C09", k)
		o.Distinct("C19", k)
	}
	if len(c.Ops) <= 14 {
		o.Sample("C09", c)
		o.Sample("C19", c)
		o.Sample("C20", c)
	}
}

// initial allocation sweep: every setting 2<=min<=max<=scope, 0..200 registrants, both
// "register then start" and "start then register"
func regInitialSweep(o *Out, scope int) int {
	cases := 0
	for max := 2; max <= scope; max++ {
		for min := 2; min <= max; min++ {
			for n := 0; n <= 200; n += 1 {
				for order := 0; order < 2; order++ {
					var c RegCase
					c.Max, c.Min = max, min
					if order == 0 {
						c.Ops = []RegOp{{"add", n, 0}, {"status", 1, 0}}
					} else {
						c.Ops = []RegOp{{"status", 1, 0}, {"add", n, 0}}
					}
					if n == 0 {
						c.Ops = []RegOp{{"status", 1, 0}}
					}
					regCase(o, c, nil)
					cases++
				}
			}
		}
	}
	return cases
}

func runReg(o *Out, rng *rand.Rand, n int, mode string, scope int, replay string) int {
	cases := 0
	switch mode {
	case "exhaustive":
		cases = regInitialSweep(o, scope)
	case "replay", "corpus":
		data, err := os.ReadFile(replay)
		if err == nil {
			var cs []RegCase
			if json.Unmarshal(data, &cs) != nil {
				var one RegCase
				if json.Unmarshal(data, &one) == nil {
					cs = []RegCase{one}
				}
			}
			for _, c := range cs {
				if c.Max >= 2 {
					regCase(o, c, rand.New(rand.NewSource(1)))
					cases++
				}
			}
		}
	default:
		for i := 0; i < n; i++ {
			runRegRandom(o, rng)
			cases++
		}
	}
	return cases
}
