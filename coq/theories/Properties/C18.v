(* C18 — a seat never holds two players; counts. (Sequential histories; each public method of
   SeatManager is atomic under its mutex — modelled, not verified.) *)
From PF Require Import Base ModelSeat ProofsSeatBasic.

(* for every history on a table of any size: seated players = successful joins - successful leaves *)
Theorem C18_count_is_joins_minus_leaves :
  forall n ops, occ_count (fst (run_count (sm_init n) ops)) = snd (run_count (sm_init n) ops).
Proof. intros n ops. rewrite run_count_spec, occ_count_init. reflexivity. Qed.
Print Assumptions C18_count_is_joins_minus_leaves.

Theorem C18_join_occupied_refused :
  forall s id c, in_range s id = true -> s_occ (get_seat s (Z.to_nat id)) = true ->
    sm_step s (OJoin id c) = (s, SErrNotAvailable, -1).
Proof. exact join_occupied_refused. Qed.
Print Assumptions C18_join_occupied_refused.

Theorem C18_join_out_of_range_refused :
  forall s id c, zn (sm_max s) <= id \/ id < -1 -> sm_step s (OJoin id c) = (s, SErrInvalidSeat, -1).
Proof. exact join_out_of_range_refused. Qed.
Print Assumptions C18_join_out_of_range_refused.

Theorem C18_join_free_seat_held_out :
  forall s id c, in_range s id = true -> s_occ (get_seat s (Z.to_nat id)) = false ->
  exists s', sm_step s (OJoin id c) = (s', SOk, id) /\
             playable (get_seat s' (Z.to_nat id)) = false /\
             s_occ (get_seat s' (Z.to_nat id)) = true /\
             (forall j, j <> Z.to_nat id -> get_seat s' j = get_seat s j) /\
             sm_dealer s' = sm_dealer s /\ sm_sb s' = sm_sb s /\ sm_bb s' = sm_bb s.
Proof. exact join_free_seat. Qed.
Print Assumptions C18_join_free_seat_held_out.

Theorem C18_leave_frees_exactly_that_seat :
  forall s id, in_range s id = true -> s_occ (get_seat s (Z.to_nat id)) = true ->
  exists s', sm_step s (OLeave id) = (s', SOk, -1) /\
             s_occ (get_seat s' (Z.to_nat id)) = false /\
             (forall j, j <> Z.to_nat id -> get_seat s' j = get_seat s j) /\
             sm_dealer s' = sm_dealer s /\ sm_sb s' = sm_sb s /\ sm_bb s' = sm_bb s.
Proof. exact leave_occupied. Qed.
Print Assumptions C18_leave_frees_exactly_that_seat.

Theorem C18_leave_empty_or_unknown_refused :
  forall s id, in_range s id = false \/ s_occ (get_seat s (Z.to_nat id)) = false ->
  exists e, sm_step s (OLeave id) = (s, e, -1) /\ e <> SOk.
Proof. exact leave_refused. Qed.
Print Assumptions C18_leave_empty_or_unknown_refused.

(* joining "any seat" (seat id -1): it reports that no seat is available only when every seat is occupied or
   reserved, and otherwise puts the player on a seat that was empty and not reserved (held out of play until
   he sits in), leaving every other seat as it was *)
From PF Require Import ProofsSeat.
Theorem C18_join_any_none_available_only_when_true :
  forall s c, sm_step s (OJoin (-1) c) = (s, SErrNoAvailableSeat, -1) ->
    sm_max s = 0%nat \/ forall i, (i < sm_max s)%nat -> s_occ (get_seat s i) = true \/ s_reserved (get_seat s i) = true.
Proof. exact join_any_none_available. Qed.
Print Assumptions C18_join_any_none_available_only_when_true.

Theorem C18_join_any_takes_a_free_seat :
  forall s c s' seat, sm_step s (OJoin (-1) c) = (s', SOk, seat) ->
    seat = c /\ in_range s c = true /\
    s_occ (get_seat s (Z.to_nat c)) = false /\ s_reserved (get_seat s (Z.to_nat c)) = false /\
    s_occ (get_seat s' (Z.to_nat c)) = true /\ playable (get_seat s' (Z.to_nat c)) = false /\
    forall j, j <> Z.to_nat c -> get_seat s' j = get_seat s j.
Proof. exact join_any_takes_a_free_seat. Qed.
Print Assumptions C18_join_any_takes_a_free_seat.

(* no sequence of seat operations makes the seat manager crash: no operation on any state (hence
   on any state of any history) ends in the panic outcome *)
From PF Require Import ProofsSeat.
Theorem C18_never_panics : forall s o, snd (fst (sm_step s o)) <> SPanic.
Proof. exact sm_step_never_panics. Qed.
Print Assumptions C18_never_panics.
