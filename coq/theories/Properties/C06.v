(* C06 — a hand always tells its driver what comes next and always finishes.
   Good g collects what is proved of every state reachable from a created hand (chips, offers, cards,
   phases, result); run g ops is the state after any list of operations, refused ones leaving the state
   as it is; measure g is a non-negative integer computed from the phase, the chips still behind and the
   seats that have not yet acted. *)
From Coq Require Import Lia.
From PF Require Import Base ModelGame ProofsGameBasic ProofsInv ProofsOffers ProofsCards ProofsResult ProofsPhase.

(* a hand starts only with at least two players with positive bankrolls, a dealer and a deck *)
Theorem C06_start_conditions :
  forall c deck g, create c deck = (g, Ok) ->
    (2 <= length (c_players c))%nat /\
    dealer_opt g <> None /\
    (forall x, In x (c_players c) -> 0 < fst x) /\
    (length (c_players c) * c_hole c + 8 <= length (c_deck c))%nat.
Proof.
  intros c deck g H. unfold create in H.
  destruct (Nat.ltb (length (map init_player (c_players c))) 2) eqn:E2; [discriminate|].
  destruct (dealer_opt _) eqn:Ed; [|discriminate].
  destruct (existsb _ _) eqn:Eb; [discriminate|].
  destruct (Nat.eqb _ 0); [discriminate|]. destruct (Nat.ltb (length (c_deck c)) _) eqn:El; [discriminate|].
  injection H as <-. apply Nat.ltb_ge in E2. apply Nat.ltb_ge in El. rewrite map_length in *.
  split; [exact E2|]. split; [|split; [|exact El]].
  - assert (G : forall (f : pstate -> pstate), (forall p, p_dealer (f p) = p_dealer p) ->
                forall l i acc, last_dealer (map f l) i acc = last_dealer l i acc).
    { intros f Hf. induction l as [|p t IH]; intros i acc; simpl; [reflexivity|]. rewrite Hf. apply IH. }
    unfold dealer_opt, request_ready, reset_all, set_event, map_p, with_players, with_st, reset_round_status in *.
    cbn [g_players with_st] in *. rewrite ?G by reflexivity. cbn [g_players with_st] in *. rewrite Ed. discriminate.
  - intros x Hx. destruct (0 <? fst x) eqn:E; [apply Z.ltb_lt; exact E|]. exfalso.
    assert (existsb (fun p => p_bankroll p <=? 0) (map init_player (c_players c)) = true); [|congruence].
    apply existsb_exists. exists (init_player x). split; [apply in_map; exact Hx|].
    destruct x as [bk [[d sb] bb]]. simpl in *. apply Z.leb_le. apply Z.ltb_ge in E. exact E.
Qed.
Print Assumptions C06_start_conditions.

(* every reachable state satisfies Good *)
Theorem C06_reachable_states_are_good :
  forall c deck g ops, cfg_ok c -> length deck = length (c_deck c) -> create c deck = (g, Ok) -> Good (run g ops).
Proof. exact Good_reachable. Qed.
Print Assumptions C06_reachable_states_are_good.

(* the hand always indicates the single thing it is waiting for, and that step always succeeds:
   everyone ready, antes, blinds, moving on to the next street, or an action from the player to act —
   who then holds a non-empty offer, every action of which is carried out (a bet needs a positive amount,
   a raise a level above the wager to match) *)
Theorem C06_the_awaited_step_succeeds :
  forall g, Good g ->
    match st_event (g_st g) with
    | EvReadyRequested => snd (step g OReady) = Ok
    | EvAnteRequested => snd (step g OPayAnte) = Ok
    | EvBlindsRequested => snd (step g OPayBlinds) = Ok
    | EvRoundClosed => snd (step g ONext) = Ok
    | EvRoundStarted =>
        let offers := p_allowed (get_p g (st_cur (g_st g))) in
        offers <> [] /\
        forall a x, In a offers -> (a = ABet -> 0 < x) -> (a = ARaise -> st_cw (g_st g) < x) ->
                    snd (step g (OAct None a x)) = Ok
    | EvGameClosed => True
    | EvNone => False
    end.
Proof. exact progress. Qed.
Print Assumptions C06_the_awaited_step_succeeds.

(* the streets run strictly preflop, flop, turn, river: a step keeps the street or moves to the next *)
Theorem C06_streets_in_order :
  forall g o, Good g ->
    st_round (g_st (fst (step g o))) = st_round (g_st g) \/
    round_num (st_round (g_st (fst (step g o)))) = S (round_num (st_round (g_st g))).
Proof. exact street_order. Qed.
Print Assumptions C06_streets_in_order.

(* whatever the players choose: every accepted step decreases the measure, a refused one changes nothing,
   so no run contains more than measure g accepted steps *)
Theorem C06_every_accepted_step_decreases_the_measure :
  forall g o, Good g -> snd (step g o) = Ok -> 0 <= measure (fst (step g o)) < measure g.
Proof.
  intros g o HG Hok. split; [apply measure_nonneg, Good_step, HG|apply measure_decreases; assumption].
Qed.
Print Assumptions C06_every_accepted_step_decreases_the_measure.

Theorem C06_bounded_number_of_steps :
  forall g ops, Good g -> zn (accepted g ops) <= measure g.
Proof. intros g ops HG. apply accepted_steps_bounded. exact HG. Qed.
Print Assumptions C06_bounded_number_of_steps.

(* and the hand does reach its closed state: doing what it waits for closes it within measure g steps *)
Theorem C06_the_hand_finishes :
  forall g, Good g -> exists ops, zn (length ops) <= measure g /\ st_event (g_st (run g ops)) = EvGameClosed.
Proof.
  intros g HG. pose proof (measure_nonneg g HG) as H0.
  destruct (hand_finishes (Z.to_nat (measure g)) g HG) as (ops & Hl & Hc); [unfold zn; lia|].
  exists ops. split; [unfold zn; lia|exact Hc].
Qed.
Print Assumptions C06_the_hand_finishes.

(* the closed state carries a settlement result ... *)
Theorem C06_closed_state_has_a_result :
  forall c deck g ops,
    cfg_ok c -> length deck = length (c_deck c) -> create c deck = (g, Ok) ->
    st_event (g_st (run g ops)) = EvGameClosed -> g_result (run g ops) <> None.
Proof. exact closed_has_result. Qed.
Print Assumptions C06_closed_state_has_a_result.

(* ... and from then on accepts nothing *)
Theorem C06_closed_accepts_nothing :
  forall g o,
    st_event (g_st g) = EvGameClosed ->
    (forall i, p_allowed (get_p g i) = []) ->
    (match o with OAct who _ _ => (seat_of g who < nplayers g)%nat | _ => True end) ->
    exists e, step g o = (g, e) /\ e <> Ok.
Proof. exact closed_refuses. Qed.
Print Assumptions C06_closed_accepts_nothing.

Theorem C06_closed_state_is_final :
  forall g o, Inv g -> st_event (g_st g) = EvGameClosed -> fst (step g o) = g.
Proof. exact closed_state_fixed. Qed.
Print Assumptions C06_closed_state_is_final.

(* non-vacuity: a created hand is Good, and playing it by the awaited steps closes it *)
Example C06_example :
  let c := mkCfg 1 0 5 10 false 2 0 [] (seqZ_from 0 30) 1
                 [(40, (true, false, false)); (30, (false, true, false)); (25, (false, false, true))] in
  cfg_ok c /\ exists g, create c (seqZ_from 0 30) = (g, Ok) /\
  st_event (g_st (run g [OReady; OPayAnte; OReady; OPayBlinds; OReady; OAct None AAllin 0; OAct None AAllin 0; OAct None AAllin 0;
                         ONext; ONext; ONext; ONext])) = EvGameClosed.
Proof. cbv zeta. split; [unfold cfg_ok; simpl; lia|]. eexists. split; [vm_compute; reflexivity|vm_compute; reflexivity]. Qed.
