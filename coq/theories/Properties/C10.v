(* C10 — each player's reported hand is their true best hand. *)
From PF Require Import Base Comb ModelEval ProofsEvalBasic.

(* Gosper's hack as used by GetPossibleCombinations enumerates every k-subset of up to 9 cards
   exactly once (finite domain, bound in the statement; proved by evaluation) *)
Theorem C10_enumeration_complete :
  forall n k, (n <= 9)%nat -> (1 <= k)%nat -> (k <= n)%nat ->
    length (gosper_positions k n) = length (subsets_spec n k) /\
    forall s, In s (subsets_spec n k) -> count_occ_nl s (gosper_positions k n) = 1%nat.
Proof. exact gosper_complete. Qed.
Print Assumptions C10_enumeration_complete.

(* the reported hand is the evaluation of one of the candidate selections, and no candidate
   scores higher; category, cards and strength all come from that one evaluation *)
Theorem C10_best_among_candidates :
  forall pr board hole req b,
    best_power pr board hole req = Some b ->
    (exists c, In c (all_combinations board hole req) /\ b = calc_power pr c) /\
    (forall c, In c (all_combinations board hole req) -> ps_score (calc_power pr c) <= ps_score b).
Proof. exact best_power_spec. Qed.
Print Assumptions C10_best_among_candidates.
