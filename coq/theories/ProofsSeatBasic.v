(* ProofsSeatBasic.v — facts about the seat manager model (C18, parts of C17). *)
From Coq Require Import Lia.
From PF Require Import Base ProofsBase ModelSeat.

Definition occ_count (s : smgr) : Z := zn (length (filter s_occ (sm_seats s))).

Lemma update_nth_map_occ n f l :
  (forall x, s_occ (f x) = s_occ x) -> map s_occ (update_nth n f l) = map s_occ l.
Proof.
  intros Hf. revert n; induction l as [|x t IH]; intros [|n]; simpl; auto.
  - now rewrite Hf.
  - now rewrite IH.
Qed.

Lemma upd_seat_occ s i f :
  (forall x, s_occ (f x) = s_occ x) -> map s_occ (sm_seats (upd_seat s i f)) = map s_occ (sm_seats s).
Proof. intros Hf. unfold upd_seat, set_seats. simpl. now apply update_nth_map_occ. Qed.

Lemma activate_all_occ s idxs : map s_occ (sm_seats (activate_all s idxs)) = map s_occ (sm_seats s).
Proof.
  unfold activate_all. revert s; induction idxs as [|i t IH]; intros s; simpl; [reflexivity|].
  rewrite IH. apply upd_seat_occ. reflexivity.
Qed.

Lemma fold_cond_activate_occ idxs s :
  map s_occ (sm_seats (fold_left (fun s i => if nonempty (get_seat s i) then upd_seat s i activate else s) idxs s))
  = map s_occ (sm_seats s).
Proof.
  revert s; induction idxs as [|i t IH]; intros s; simpl; [reflexivity|].
  rewrite IH. destruct (nonempty (get_seat s i)); [apply upd_seat_occ|]; reflexivity.
Qed.

Lemma next_dealer_occ s : map s_occ (sm_seats (fst (next_dealer s))) = map s_occ (sm_seats s).
Proof.
  unfold next_dealer.
  destruct (Nat.eqb (playable_count s) 1).
  - destruct (Nat.leb (count_if nonempty s) 1); [reflexivity|].
    destruct (first_playable (sm_seats s) 0); [|reflexivity]. simpl.
    rewrite fold_cond_activate_occ. reflexivity.
  - destruct (find_active s _ 0) as [[d' pos]|]; simpl.
    + apply activate_all_occ.
    + apply activate_all_occ.
Qed.

Lemma deactivate_until_occ idxs s bb : map s_occ (sm_seats (deactivate_until s idxs bb)) = map s_occ (sm_seats s).
Proof.
  revert s; induction idxs as [|i t IH]; intros s; simpl; [reflexivity|].
  destruct (Nat.eqb i bb); [reflexivity|].
  rewrite IH. destruct (s_occ (get_seat s i)); [reflexivity|]. apply upd_seat_occ. reflexivity.
Qed.

Lemma renew_occ s d s' : renew s d = Some s' -> map s_occ (sm_seats s') = map s_occ (sm_seats s).
Proof.
  unfold renew. intros H.
  destruct (if Nat.eqb (playable_count s) 2 then _ else _) as [[sb seats]|]; [|discriminate].
  destruct (find_active s (tl seats) 0) as [[bb i]|]; [|discriminate].
  inversion H; subst. rewrite activate_all_occ, deactivate_until_occ. reflexivity.
Qed.

Lemma sm_next_occ s : map s_occ (sm_seats (fst (sm_next s))) = map s_occ (sm_seats s).
Proof.
  unfold sm_next. pose proof (next_dealer_occ s) as H.
  destruct (next_dealer s) as [s1 [d|]]; simpl in *; [|exact H].
  destruct (Nat.ltb (playable_count s1) 2); [exact H|].
  destruct (renew s1 d) as [s2|] eqn:E; simpl; [|exact H].
  rewrite (renew_occ _ _ _ E). exact H.
Qed.

Lemma occ_count_map s s' : map s_occ (sm_seats s') = map s_occ (sm_seats s) -> occ_count s' = occ_count s.
Proof.
  unfold occ_count. intros H. f_equal.
  assert (G : forall l, length (filter s_occ l) = length (filter (fun b => b) (map s_occ l))).
  { induction l as [|x t IH]; simpl; [reflexivity|]. destruct (s_occ x); simpl; now rewrite IH. }
  now rewrite !G, H.
Qed.

(* what one operation does to the number of seated players *)
Definition occ_delta (o : sm_op) (out : sm_out) : Z :=
  match o, out with
  | OJoin _ _, SOk => 1
  | OLeave _, SOk => -1
  | _, _ => 0
  end.

Lemma filter_update_occ_true l i :
  (i < length l)%nat -> s_occ (nth i l (mkSeat false false false)) = false ->
  forall a r, length (filter s_occ (update_nth i (fun x => mkSeat true (a x) (r x)) l)) = S (length (filter s_occ l)).
Proof.
  revert i; induction l as [|x t IH]; intros i Hi Ho a r; simpl in *; [lia|].
  destruct i as [|i]; simpl in *.
  - rewrite Ho. reflexivity.
  - specialize (IH i ltac:(lia) Ho a r). destruct (s_occ x); simpl; lia.
Qed.

Lemma filter_update_occ_false l i :
  (i < length l)%nat -> s_occ (nth i l (mkSeat false false false)) = true ->
  forall a r, S (length (filter s_occ (update_nth i (fun x => mkSeat false (a x) (r x)) l))) = length (filter s_occ l).
Proof.
  revert i; induction l as [|x t IH]; intros i Hi Ho a r; simpl in *; [lia|].
  destruct i as [|i]; simpl in *.
  - rewrite Ho. reflexivity.
  - specialize (IH i ltac:(lia) Ho a r). destruct (s_occ x); simpl; lia.
Qed.

Lemma in_range_lt s id : in_range s id = true -> (Z.to_nat id < sm_max s)%nat.
Proof. unfold in_range, zn. intros H. apply andb_prop in H as [H1 H2]. apply Z.leb_le in H1. apply Z.ltb_lt in H2. lia. Qed.

Lemma do_join_count s i :
  (i < sm_max s)%nat ->
  let '(s', out, _) := do_join s i in occ_count s' = occ_count s + (match out with SOk => 1 | _ => 0 end).
Proof.
  intros Hi. unfold do_join. destruct (s_occ (get_seat s i)) eqn:E; [lia|].
  unfold occ_count, upd_seat, set_seats. cbn [sm_seats].
  rewrite (filter_update_occ_true (sm_seats s) i Hi E (fun x => s_active x) (fun _ => true)).
  unfold zn. lia.
Qed.

Lemma sm_step_count s o :
  let '(s', out, _) := sm_step s o in occ_count s' = occ_count s + occ_delta o out.
Proof.
  destruct o as [id choice|id|id|id|]; simpl.
  - destruct ((zn (sm_max s) <=? id) || (id <? -1)) eqn:E1; [simpl; lia|].
    apply orb_false_elim in E1 as [E1 E2]. apply Z.leb_gt in E1. apply Z.ltb_ge in E2.
    destruct (-1 <? id) eqn:E3.
    + apply Z.ltb_lt in E3. pose proof (do_join_count s (Z.to_nat id)) as H.
      destruct (do_join s (Z.to_nat id)) as [[s' out] r]. simpl.
      assert (Hlt : (Z.to_nat id < sm_max s)%nat) by (unfold zn in E1; lia).
      specialize (H Hlt). destruct out; simpl in *; lia.
    + destruct (Nat.eqb (count_if avail_active s) 0 && Nat.eqb (count_if avail_alt s) 0); [simpl; lia|].
      destruct (in_range s choice) eqn:Er; [|simpl; lia]. simpl.
      destruct (if Nat.eqb (count_if avail_active s) 0 then _ else _); [|simpl; lia].
      pose proof (do_join_count s (Z.to_nat choice) (in_range_lt _ _ Er)) as H.
      destruct (do_join s (Z.to_nat choice)) as [[s' out] r]. simpl. destruct out; simpl in *; lia.
  - destruct (in_range s id); simpl; [|lia].
    rewrite (occ_count_map s (upd_seat s (Z.to_nat id) _)); [lia|]. apply upd_seat_occ. reflexivity.
  - destruct (in_range s id); simpl; [|lia].
    rewrite (occ_count_map s (upd_seat s (Z.to_nat id) _)); [lia|]. apply upd_seat_occ. reflexivity.
  - destruct (in_range s id) eqn:Er; simpl; [|lia].
    destruct (s_occ (get_seat s (Z.to_nat id))) eqn:E; simpl; [|lia].
    unfold occ_count, upd_seat, set_seats. cbn [sm_seats].
    pose proof (filter_update_occ_false (sm_seats s) (Z.to_nat id) (in_range_lt _ _ Er) E (fun x => s_active x) (fun _ => false)) as H.
    unfold zn. lia.
  - pose proof (sm_next_occ s) as H. destruct (sm_next s) as [s' out]. simpl in *.
    rewrite (occ_count_map _ _ H). destruct out; simpl; lia.
Qed.

(* the number of seated players always equals successful joins minus successful leaves *)
Fixpoint run_count (s : smgr) (ops : list sm_op) : smgr * Z :=
  match ops with
  | [] => (s, 0)
  | o :: t => let '(s', out, _) := sm_step s o in
              let '(s'', d) := run_count s' t in (s'', occ_delta o out + d)
  end.

Lemma run_count_spec s ops : occ_count (fst (run_count s ops)) = occ_count s + snd (run_count s ops).
Proof.
  revert s; induction ops as [|o t IH]; intros s; simpl; [lia|].
  pose proof (sm_step_count s o) as H. destruct (sm_step s o) as [[s' out] r].
  specialize (IH s'). destruct (run_count s' t) as [s'' d]. simpl in *. lia.
Qed.

Lemma occ_count_init n : occ_count (sm_init n) = 0.
Proof. unfold occ_count, sm_init. simpl. induction n; simpl; auto. Qed.

(* refusals *)
Lemma join_occupied_refused s id c :
  in_range s id = true -> s_occ (get_seat s (Z.to_nat id)) = true ->
  sm_step s (OJoin id c) = (s, SErrNotAvailable, -1).
Proof.
  intros Hr Ho. simpl. unfold in_range in Hr. apply andb_prop in Hr as [H1 H2].
  apply Z.leb_le in H1. apply Z.ltb_lt in H2.
  replace (zn (sm_max s) <=? id) with false by (symmetry; apply Z.leb_gt; lia).
  replace (id <? -1) with false by (symmetry; apply Z.ltb_ge; lia). simpl.
  replace (-1 <? id) with true by (symmetry; apply Z.ltb_lt; lia).
  unfold do_join. rewrite Ho. reflexivity.
Qed.

Lemma join_out_of_range_refused s id c :
  zn (sm_max s) <= id \/ id < -1 -> sm_step s (OJoin id c) = (s, SErrInvalidSeat, -1).
Proof.
  intros H. simpl.
  destruct H as [H|H].
  - apply Z.leb_le in H. rewrite H. reflexivity.
  - apply Z.ltb_lt in H. rewrite H. rewrite orb_true_r. reflexivity.
Qed.

(* a player who has merely joined is held out of play, and only that seat changed *)
Lemma join_free_seat s id c :
  in_range s id = true -> s_occ (get_seat s (Z.to_nat id)) = false ->
  exists s', sm_step s (OJoin id c) = (s', SOk, id) /\
             playable (get_seat s' (Z.to_nat id)) = false /\
             s_occ (get_seat s' (Z.to_nat id)) = true /\
             (forall j, j <> Z.to_nat id -> get_seat s' j = get_seat s j) /\
             sm_dealer s' = sm_dealer s /\ sm_sb s' = sm_sb s /\ sm_bb s' = sm_bb s.
Proof.
  intros Hr Ho. pose proof (in_range_lt _ _ Hr) as Hlt.
  unfold in_range in Hr. apply andb_prop in Hr as [H1 H2].
  apply Z.leb_le in H1. apply Z.ltb_lt in H2.
  simpl.
  replace (zn (sm_max s) <=? id) with false by (symmetry; apply Z.leb_gt; lia).
  replace (id <? -1) with false by (symmetry; apply Z.ltb_ge; lia). simpl.
  replace (-1 <? id) with true by (symmetry; apply Z.ltb_lt; lia).
  unfold do_join. rewrite Ho.
  eexists. split; [f_equal; unfold zn; lia|].
  unfold get_seat, upd_seat, set_seats. simpl.
  rewrite nth_update_nth_same by exact Hlt. simpl.
  repeat split; try reflexivity.
  - unfold playable. simpl. now rewrite andb_false_r.
  - intros j Hj. apply nth_update_nth_other. lia.
Qed.

(* leaving frees exactly that seat *)
Lemma leave_occupied s id :
  in_range s id = true -> s_occ (get_seat s (Z.to_nat id)) = true ->
  exists s', sm_step s (OLeave id) = (s', SOk, -1) /\
             s_occ (get_seat s' (Z.to_nat id)) = false /\
             (forall j, j <> Z.to_nat id -> get_seat s' j = get_seat s j) /\
             sm_dealer s' = sm_dealer s /\ sm_sb s' = sm_sb s /\ sm_bb s' = sm_bb s.
Proof.
  intros Hr Ho. pose proof (in_range_lt _ _ Hr) as Hlt. simpl. rewrite Hr, Ho.
  eexists. split; [reflexivity|].
  unfold get_seat, upd_seat, set_seats. simpl.
  rewrite nth_update_nth_same by exact Hlt. simpl.
  repeat split; try reflexivity.
  intros j Hj. apply nth_update_nth_other. lia.
Qed.

Lemma leave_refused s id :
  in_range s id = false \/ s_occ (get_seat s (Z.to_nat id)) = false ->
  exists e, sm_step s (OLeave id) = (s, e, -1) /\ e <> SOk.
Proof.
  intros H. simpl. destruct (in_range s id) eqn:Er.
  - destruct H as [H|H]; [discriminate|]. rewrite H. eexists; split; [reflexivity|discriminate].
  - eexists; split; [reflexivity|discriminate].
Qed.

(* findActivePlayer returns the first playable seat of the list *)
Lemma find_active_spec s idxs start d pos :
  find_active s idxs start = Some (d, pos) ->
  (start <= pos)%nat /\ nth_error idxs (pos - start) = Some d /\ playable (get_seat s d) = true /\
  (forall k, (k < pos - start)%nat -> forall i, nth_error idxs k = Some i -> playable (get_seat s i) = false).
Proof.
  revert start; induction idxs as [|i t IH]; intros start H; simpl in H; [discriminate|].
  destruct (playable (get_seat s i)) eqn:E.
  - inversion H; subst. rewrite Nat.sub_diag. repeat split; auto. intros k Hk; lia.
  - specialize (IH (S start) H) as (H1 & H2 & H3 & H4).
    split; [lia|]. replace (pos - start)%nat with (S (pos - S start)) by lia. split; [exact H2|]. split; [exact H3|].
    intros [|k] Hk j Hj; simpl in Hj.
    + inversion Hj; subst. exact E.
    + apply (H4 k); [lia|exact Hj].
Qed.

Lemma find_active_none s idxs start :
  find_active s idxs start = None -> forall i, In i idxs -> playable (get_seat s i) = false.
Proof.
  revert start; induction idxs as [|i t IH]; intros start H j Hj; simpl in *; [contradiction|].
  destruct (playable (get_seat s i)) eqn:E; [discriminate|].
  destruct Hj as [->|Hj]; [exact E|]. apply (IH _ H _ Hj).
Qed.
