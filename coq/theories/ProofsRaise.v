(* ProofsRaise.v — raises (C12): a legal no-limit raise is carried out exactly, an undersized one is never
   carried out as a raise, the wager to match never goes down by an action. *)
From Coq Require Import Lia.
From PF Require Import Base ProofsBase Comb ModelPot ModelSettle ModelEval ModelGame
                       ProofsGameBasic ProofsChips ProofsInv.

Lemma raiser_request_action g : st_raiser (g_st (request_action g)) = st_raiser (g_st g).
Proof.
  unfold request_action.
  destruct (Nat.eqb (alive_count g) 1); [reflexivity|].
  destruct (Nat.eqb (movable_count g) 0); [reflexivity|].
  destruct (p_acted _); reflexivity.
Qed.

Lemma raiser_resume g : st_raiser (g_st (resume g)) = st_raiser (g_st g).
Proof. unfold resume. destruct (st_event (g_st g)); try reflexivity. apply raiser_request_action. Qed.

(* a payment that lifts the seat's wager above the wager to match, without exhausting the stack *)
Lemma pay_raises g i chips :
  (i < nplayers g)%nat -> chips < p_stack (get_p g i) -> st_cw (g_st g) < p_wager (get_p g i) + chips ->
  let g' := pay g i chips true in
  st_raiser (g_st g') = i /\ st_cw (g_st g') = p_wager (get_p g i) + chips /\ st_prs (g_st g') = st_prs (g_st g).
Proof.
  intros Hi Hc Hw g'. destruct (pay_view g i chips true Hi) as (_ & _ & _ & Hprs & Hcw). fold g' in Hprs, Hcw.
  split; [|split; [|exact Hprs]].
  - unfold g', pay. replace (p_stack (get_p g i) <=? chips) with false by (symmetry; apply Z.leb_gt; exact Hc). cbn [andb].
    match goal with |- context [if ?c then _ else _] => replace c with true end; [reflexivity|].
    symmetry. apply Z.ltb_lt. cbn [with_st g_st st_cw st_add_rpot]. exact Hw.
  - rewrite Hcw. unfold pay_new_wager. replace (p_stack (get_p g i) <=? chips) with false by (symmetry; apply Z.leb_gt; exact Hc). lia.
Qed.

(* a raise request to a level below the player's total (stack + wager) that lifts the wager to match by at
   least the previous raise size is carried out exactly (no-limit) *)
Theorem raise_exact g i x :
  Inv g -> (i < nplayers g)%nat -> allowed g i ARaise = true -> m_limit_pot (g_meta g) = false ->
  st_cw (g_st g) < x -> x < p_initial (get_p g i) -> st_prs (g_st g) <= x - st_cw (g_st g) ->
  let s := fst (act_raise g i x) in
  snd (act_raise g i x) = Ok /\
  st_cw (g_st s) = x /\ st_prs (g_st s) = x - st_cw (g_st g) /\ st_raiser (g_st s) = i /\
  p_wager (get_p s i) = x /\ p_stack (get_p s i) = p_initial (get_p g i) - x.
Proof.
  intros HI Hi Ha Hlim Hcw Hx Hprs s.
  pose proof (Ready_of_Inv g i ARaise HI Ha) as HR. pose proof (rd_chips g HR) as Hc.
  pose proof (ci_le g Hc i Hi) as Hle. pose proof (ci_cw g Hc) as Hcw0.
  destruct (ci_seats g Hc i Hi) as (B1 & B2 & B3 & B4 & B5).
  unfold s, act_raise. rewrite Ha. cbn [negb].
  replace (x =? 0) with false by (symmetry; apply Z.eqb_neq; lia).
  replace (x <? st_cw (g_st g)) with false by (symmetry; apply Z.ltb_ge; lia). cbn [orb].
  replace (x =? st_cw (g_st g)) with false by (symmetry; apply Z.eqb_neq; lia).
  replace (p_initial (get_p g i) <=? x) with false by (symmetry; apply Z.leb_gt; lia).
  replace (x - st_cw (g_st g) <? st_prs (g_st g)) with false by (symmetry; apply Z.ltb_ge; lia). cbn [orb].
  rewrite Hlim. cbn [andb fst snd]. split; [reflexivity|].
  set (g1 := upd_p g i (fun p => p_set_acted (p_set_did p DRaise) true)).
  set (g2 := with_st g1 (st_set_prs (g_st g1) (x - st_cw (g_st g)))).
  assert (Hi2 : (i < nplayers g2)%nat) by (unfold g2, g1; rewrite nplayers_with_st, nplayers_upd; exact Hi).
  assert (Hp2 : chips_of (get_p g2 i) = chips_of (get_p g i)).
  { unfold g2. rewrite get_p_with_st. unfold g1. rewrite get_p_upd_same by exact Hi. reflexivity. }
  unfold chips_of in Hp2. injection Hp2 as _ E2 E3 _ E5.
  destruct (pay_raises g2 i (x - p_wager (get_p g i)) Hi2) as (R1 & R2 & R3).
  { rewrite E3. lia. }
  { rewrite E5. change (st_cw (g_st g2)) with (st_cw (g_st g)). lia. }
  set (g3 := pay g2 i (x - p_wager (get_p g i)) true) in *.
  set (g4 := set_last g3 (zn i) LRaise (x - p_wager (get_p g i))).
  assert (Hv : chips_view (resume g4) = chips_view g3) by (rewrite cv_resume; apply cv_set_last).
  destruct (cv_parts _ _ Hv) as (_ & Hpl & _ & Hcw4 & Hprs4).
  split; [rewrite Hcw4, R2, E5; lia|]. split; [rewrite Hprs4, R3; reflexivity|].
  split; [rewrite raiser_resume; exact R1|].
  assert (Hn3 : nplayers g3 = nplayers g) by (unfold g3; rewrite pay_nplayers; unfold g2, g1; rewrite nplayers_with_st; apply nplayers_upd).
  assert (Hch : chips_of (get_p (resume g4) i) = chips_of (get_p g3 i)).
  { rewrite !get_p_cv by (try rewrite (nplayers_cv _ _ Hv); rewrite Hn3; exact Hi). now rewrite Hpl. }
  pose proof (pay_chips g2 i (x - p_wager (get_p g i)) true Hi2) as Hpc. fold g3 in Hpc. cbv zeta in Hpc.
  replace (p_stack (get_p g2 i) <=? x - p_wager (get_p g i)) with false in Hpc by (symmetry; apply Z.leb_gt; rewrite E3; lia).
  rewrite Hpc in Hch. unfold chips_of in Hch. injection Hch as _ _ S4 _ W4.
  rewrite W4, S4, E5, E2. split; lia.
Qed.

(* a request that would lift the wager to match by less than the previous raise size, or to the player's
   total or beyond, is handled as an all-in: it is never carried out as an (undersized) raise *)
Theorem raise_undersized_is_allin g i x :
  allowed g i ARaise = true -> st_cw (g_st g) < x -> 0 <= st_cw (g_st g) ->
  (p_initial (get_p g i) <= x \/ x - st_cw (g_st g) < st_prs (g_st g)) ->
  act_raise g i x = act_allin g i.
Proof.
  intros Ha Hcw H0 Hu. unfold act_raise. rewrite Ha. cbn [negb].
  replace (x =? 0) with false by (symmetry; apply Z.eqb_neq; lia).
  replace (x <? st_cw (g_st g)) with false by (symmetry; apply Z.ltb_ge; lia). cbn [orb].
  replace (x =? st_cw (g_st g)) with false by (symmetry; apply Z.eqb_neq; lia).
  replace ((p_initial (get_p g i) <=? x) || (x - st_cw (g_st g) <? st_prs (g_st g))) with true; [reflexivity|].
  symmetry. apply orb_true_iff. destruct Hu as [H|H]; [left; apply Z.leb_le|right; apply Z.ltb_lt]; exact H.
Qed.

(* no action makes the wager to match go down *)
Lemma cw_pay_ge g i chips w : (i < nplayers g)%nat -> st_cw (g_st g) <= st_cw (g_st (pay g i chips w)).
Proof. intros Hi. destruct (pay_view g i chips w Hi) as (_ & _ & _ & _ & ->). destruct w; lia. Qed.

Lemma cw_resume g : st_cw (g_st (resume g)) = st_cw (g_st g).
Proof. destruct (cv_parts _ _ (cv_resume g)) as (_ & _ & _ & H & _). exact H. Qed.

Theorem cw_never_goes_down_by_an_action g i a x :
  (i < nplayers g)%nat ->
  st_cw (g_st g) <= st_cw (g_st (fst (match a with
      | APass => act_pass g i | AFold => act_fold g i | ACheck => act_check g i | ACall => act_call g i
      | AAllin => act_allin g i | ABet => act_bet g i x | ARaise => act_raise g i x | APay => act_pay g i x end))).
Proof.
  intros Hi.
  assert (Hcall : st_cw (g_st g) <= st_cw (g_st (fst (act_call g i)))).
  { unfold act_call. destruct (negb _); [cbn [fst]; lia|]. cbn [fst]. rewrite cw_resume. cbn [set_last with_st g_st st_cw st_set_last].
    match goal with |- _ <= st_cw (g_st (pay ?y i ?c true)) => pose proof (cw_pay_ge y i c true) as H end.
    rewrite nplayers_upd in H. specialize (H Hi). exact H. }
  assert (Hallin : st_cw (g_st g) <= st_cw (g_st (fst (act_allin g i)))).
  { unfold act_allin. destruct (negb _); [cbn [fst]; lia|]. cbn [fst]. rewrite cw_resume. cbn [set_last with_st g_st st_cw st_set_last].
    match goal with |- _ <= st_cw (g_st (pay ?y i ?c true)) => pose proof (cw_pay_ge y i c true) as H;
      assert (Hn : nplayers y = nplayers g); [|assert (Hc : st_cw (g_st y) = st_cw (g_st g))] end.
    - match goal with |- context [if ?c then _ else _] => destruct c end; rewrite ?nplayers_with_st; apply nplayers_upd.
    - match goal with |- context [if ?c then _ else _] => destruct c end; reflexivity.
    - rewrite Hn, Hc in H. apply H. exact Hi. }
  destruct a.
  - unfold act_pass. destruct (negb _); cbn [fst]; [lia|]. rewrite cw_resume. cbn. lia.
  - unfold act_fold. destruct (negb _); cbn [fst]; [lia|]. rewrite cw_resume. cbn. lia.
  - unfold act_check. destruct (negb _); cbn [fst]; [lia|]. rewrite cw_resume. cbn. lia.
  - exact Hcall.
  - exact Hallin.
  - unfold act_bet. destruct (negb _); [cbn [fst]; lia|]. destruct (x <=? 0); [cbn [fst]; lia|].
    destruct (_ <=? x); [exact Hallin|]. cbn [fst]. rewrite cw_resume. cbn [set_last with_st g_st st_cw st_set_last st_set_prs].
    match goal with |- _ <= st_cw (g_st (pay ?y i ?c true)) => pose proof (cw_pay_ge y i c true) as H end.
    rewrite nplayers_upd in H. specialize (H Hi). exact H.
  - unfold act_raise. destruct (negb _); [cbn [fst]; lia|]. destruct (_ || _); [cbn [fst]; lia|].
    destruct (x =? _); [exact Hcall|]. destruct (_ || _); [exact Hallin|]. cbn [fst]. rewrite cw_resume.
    cbn [set_last with_st g_st st_cw st_set_last].
    match goal with |- _ <= st_cw (g_st (pay ?y i ?c true)) => pose proof (cw_pay_ge y i c true) as H end.
    rewrite nplayers_with_st, nplayers_upd in H. specialize (H Hi). exact H.
  - unfold act_pay. destruct (negb _); [cbn [fst]; lia|]. cbn [fst]. rewrite cw_resume. cbn [set_last with_st g_st st_cw st_set_last].
    apply cw_pay_ge. exact Hi.
Qed.
