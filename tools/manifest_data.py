def chk(pid, text, note, technique, design_ref):
    return {
        "property_id": pid,
        "quick_cmd": "./check %s --tier quick" % pid,
        "thorough_cmd": "./check %s --tier thorough" % pid,
        "evidence_file": "evidence/%s.json" % pid,
        "replay_cmd_template": "./check %s --replay {path}" % pid,
        "engine": "coq",
        "level_claimed": {"category": "proof", "text": text, "design_ref": design_ref},
        "level_note": note,
        "technique": technique,
    }

BASE_NOTE = ("Trusted: Coq 8.16.1 kernel (vm_compute in reflection proofs, no native_compute), no axioms; the hand-written "
             "Gallina model as a description of the Go code, checked on every run by differential execution against "
             "/repo (Go harness vs ExtrOcamlBasic-extracted runner) through the property's projection; tools/gen_consts; "
             "the Go oracles. ")

ENGINE = ("Theorems about the executable Gallina model of the engine (ModelGame.v: create/step/view/erase); the model is "
          "tied to /repo on every run by playing generated hands on the Go engine and on the extracted model and "
          "comparing this property's projection of the state after every operation, plus adversarial attempts "
          "(every seat x every action x boundary amounts) on JSON clones; an independent Go oracle states the property "
          "on the implementation's traces and supplies concrete replays. ")
SEAT = ("Theorems about the executable model of SeatManager (ModelSeat.v) for tables of any size and any history; tied to "
        "/repo by random histories and by the complete reachable graph for small tables (Go vs extracted model, every "
        "transition); independent Go oracle on the implementation. ")
REG = ("Theorems about the executable model of the regulator (ModelReg.v, float expressions as exact integer arithmetic, "
       "map-order choices as parameters); tied to /repo by random histories with an instruction-following environment "
       "(Go vs extracted model: counters, queue, every table record, every callback payload); independent Go oracle. ")
PURE = ("Theorems about the executable model of the package; tied to /repo by differential execution on generated and "
        "exhaustively enumerated inputs; independent Go oracle on the implementation's output. ")

PART = " What is proved so far and what is only tested is listed per property in DESIGN.md section 9."

CHECKS = [
    chk("C01", ENGINE + "Proved in full on the model: the chip identity and non-negativity in every reachable state, published pots add up, and the closing clauses (zero-sum result, final = bankroll + change >= 0, nobody loses more than he put in) for every reachable state that carries a result." + PART,
        BASE_NOTE + "Amounts in Z (int64 = Z while the sum of bankrolls stays below 2^61).",
        "Coq proof over a Gallina model + differential correspondence with the Go code", "DESIGN.md §4 C01, §9"),
    chk("C02", PURE + "Settlement and pot models; the engine's showdowns are compared as well. Proved: the level-by-level rule, zero-sum, bounds, folded players win nothing, uncalled excess returns, tied winners of a pot differ by at most one chip; the engine records exactly this settlement, in which a folded player loses exactly what he put in (the players still in carry positive strengths: proved for the shipped tables, variants and decks)." + PART,
        BASE_NOTE + "For other variants or decks with repeated / unknown cards the positivity of live strengths is a hypothesis.",
        "Coq proof over a Gallina model + differential correspondence with the Go code", "DESIGN.md §4 C02, §9"),
    chk("C03", PURE + "The evaluator model runs over constant tables regenerated from the Go source on every run." + PART,
        BASE_NOTE + "Hands are five distinct cards of the 52-card deck.",
        "Coq proof (reflection over the finite set of hand classes) + differential correspondence", "DESIGN.md §4 C03, §9"),
    chk("C04", ENGINE + "Proved: wrong-phase operations and unoffered actions are refused without change (every state); in every reachable "
        "state exactly one seat is offered actions, the turn passes clockwise, the first seat to act is left of the big blind / of the dealer, any refused operation leaves the state unchanged, and what a seat has done after an accepted action was in its offer before." + PART, BASE_NOTE,
        "Coq proof over a Gallina model + differential correspondence with the Go code", "DESIGN.md §4 C04, §9"),
    chk("C05", ENGINE + "Proved: the last-man and no-stacks clauses and that the seat asked to act has not yet acted; the lap invariant (never closed early, closed within a lap) is decided by the harness's independent round monitor and the correspondence only." + PART, BASE_NOTE,
        "Coq proof over a Gallina model + differential correspondence with the Go code", "DESIGN.md §4 C05, §9"),
    chk("C06", ENGINE + "Proved in full on the model: start conditions, the awaited step always succeeds, streets in order, every accepted step decreases a measure (bounded hands whatever the players choose), the hand finishes with a result and then accepts nothing." + PART, BASE_NOTE,
        "Coq proof over a Gallina model + differential correspondence with the Go code", "DESIGN.md §4 C06, §9"),
    chk("C07", ENGINE + "Every operation is also run through table.NativeBackend from the serialised state and the two "
        "states are compared as JSON; a reflect-based schema pin guards new fields." + PART, BASE_NOTE + "encoding/json is modelled, not verified.",
        "Coq proof over a Gallina model + differential correspondence (in-memory vs JSON-rebuilt vs model)", "DESIGN.md §4 C07, §9"),
    chk("C08", SEAT + "Reported against known finding F11. Proved for every state: positions land on playable seats, and the blinds rule in the state after Next (first playable seat after the dealer / after the small blind; dealer = small blind when two seats could play), which pins F11 down to its shape; Next switches off exactly the empty seats between the dealer and the big blind, and a newcomer on such a seat becomes playable at exactly the Next whose scan no longer covers the seat (one Next at a time; whole sequences by the scenario oracle)." + PART, BASE_NOTE,
        "Coq proof over a Gallina model + complete-graph correspondence for small tables", "DESIGN.md §4 C08, §9"),
    chk("C09", REG + "Proved for every history of the regulator with instruction-following tables (any map iteration order, any choice of eliminated members and of handed-back players; this system machine is itself stepped by the runner and its tables, transit list and living players are compared with the harness's after every operation): every living player is in exactly one place, the player total, table count and per-table counts are the real numbers; unknown tables and late registrations are refused without change." + PART,
        BASE_NOTE, "Coq proof over a Gallina model + differential correspondence with the Go code", "DESIGN.md §4 C09, §9"),
    chk("C10", PURE + "Proved: Gosper enumeration is complete for up to 9 cards; in every reachable engine state after the deal the stored hand of every seat is one evaluation of an admissible selection that no admissible selection out-scores, and it is the strength the showdown compares." + PART, BASE_NOTE,
        "Coq proof over a Gallina model + differential correspondence with the Go code", "DESIGN.md §4 C10, §9"),
    chk("C11", ENGINE + "Proved: the offer table, clause by clause, the offer held in every reachable state, and the exact chip effects of fold, check, call, all-in and bet." + PART, BASE_NOTE,
        "Coq proof over a Gallina model + differential correspondence with the Go code", "DESIGN.md §4 C11, §9"),
    chk("C12", ENGINE + "Proved: no amount can corrupt chips (every reachable state), a legal no-limit raise is carried out exactly, an undersized one is the all-in action, raises below the wager to match and non-positive bets are refused, the wager to match never goes down by an action." + PART,
        BASE_NOTE, "Coq proof over a Gallina model + differential correspondence with the Go code", "DESIGN.md §4 C12, §9"),
    chk("C13", ENGINE + "Reported against known finding F10 (blinds skipped when dealer=0, sb=0, bb>0). Proved: who posts what after PayAnte / PayBlinds (capped at the stack), the resulting wager to match and minimum raise, and that antes and blinds are requested on a clean table in every reachable state." + PART, BASE_NOTE,
        "Coq proof over a Gallina model + differential correspondence with the Go code", "DESIGN.md §4 C13, §9"),
    chk("C14", ENGINE + "Proved in full on the model: the dealt cards are the consumed top of the deck in every reachable state, counts by street, the deck never changes and always suffices; shuffling (any sequence of swaps) only reorders." + PART, BASE_NOTE + "math/rand is modelled as an arbitrary swap sequence.",
        "Coq proof over a Gallina model + differential correspondence with the Go code", "DESIGN.md §4 C14, §9"),
    chk("C15", ENGINE + "Proved in full for every state and every viewer: no deck, no burned cards, hidden seats show neither "
        "hole cards nor evaluation, everything else is unchanged." + PART, BASE_NOTE + "The schema pin guards fields added later.",
        "Coq proof over a Gallina model + differential correspondence + JSON leak search", "DESIGN.md §4 C15, §9"),
    chk("C16",
        "Theorems about the executable model of pot.LevelList/GetPots for every contribution/fold vector in any "
        "insertion order; the model is tied to /repo by running both on generated and exhaustively enumerated "
        "vectors and comparing levels, pots and per-pot level lists; an independent Go oracle states the property "
        "on the implementation's output and supplies concrete replays." + PART,
        BASE_NOTE + "Eligible players of a pot are read as its non-folded entries (folded players are put back for display).",
        "Coq proof over a Gallina model + differential correspondence with the Go code", "DESIGN.md §4 C16, §9"),
    chk("C17", SEAT + "Proved for every history: the button moves to the first playable seat after it, and Next is refused exactly when fewer than two seats can play." + PART, BASE_NOTE,
        "Coq proof over a Gallina model + complete-graph correspondence for small tables", "DESIGN.md §4 C17, §9"),
    chk("C18", SEAT + "Proved for every history: seated players = successful joins - successful leaves; join/leave refusals and "
        "effects; join-any takes an empty non-reserved seat and reports none-available only when that is true. Partial on the schedule quantifier: each method is taken as atomic under sm.mu (supported by a goroutine "
        "stress run, not proved)." + PART, BASE_NOTE + "sync.RWMutex atomicity is modelled, not verified.",
        "Coq proof over a Gallina model + complete-graph correspondence + goroutine stress", "DESIGN.md §4 C18, §9"),
    chk("C19", REG + "Reported against known finding F12a (over-capacity table requests). Proved: nothing is handed out while "
        "pending, no table below the minimum, every initial table gets the minimum; a top-up by SyncState stays within the capacity; the first table of an allocation is within the capacity and a later one exceeds it only in F12a's shape (the shape the oracle uses to recognise the known finding; any other over-capacity request is a violation)." + PART, BASE_NOTE,
        "Coq proof over a Gallina model + differential correspondence with the Go code", "DESIGN.md §4 C19, §9"),
    chk("C20", REG + "Proved: a table that is told to break releases everybody it has, and handing players back places each of them in the queue or at a table. The settling bound is tested "
        "(sweeps until quiet within 12), not proved." + PART, BASE_NOTE,
        "Coq proof over a Gallina model (safety half) + differential correspondence; liveness tested", "DESIGN.md §4 C20, §9"),
]

NOT_APPLICABLE = []

NOTES = ("All checks share one Coq development (coq/), one extracted runner and one Go harness; ./check <id> rebuilds what "
         "changed from /repo's working tree on every run. known_findings.json lists recorded defects; fixed entries suppress nothing.")
