def chk(pid, text, note, technique, design_ref):
    return {
        "property_id": pid,
        "quick_cmd": "./check %s --tier quick" % pid,
        "thorough_cmd": "./check %s --tier thorough" % pid,
        "evidence_file": "evidence/%s.json" % pid,
        "replay_cmd_template": "./check %s --replay {path}" % pid,
        "engine": "coq",
        "level_claimed": {"category": "proof", "text": text, "design_ref": design_ref},
        "level_note": note,
        "technique": technique,
    }

BASE_NOTE = ("Trusted: Coq 8.16.1 kernel (vm_compute in reflection proofs, no native_compute), no axioms; the hand-written "
             "Gallina model as a description of the Go code, checked on every run by differential execution against "
             "/repo (Go harness vs ExtrOcamlBasic-extracted runner) through the property's projection; tools/gen_consts; "
             "the Go oracles. ")

CHECKS = [
    chk("C16",
        "Theorems about the executable model of pot.LevelList/GetPots for every contribution/fold vector in any "
        "insertion order; the model is tied to /repo by running both on generated and exhaustively enumerated "
        "vectors and comparing levels, pots and per-pot level lists; an independent Go oracle states the property "
        "on the implementation's output and supplies concrete replays.",
        BASE_NOTE + "Eligible players of a pot are read as its non-folded entries (folded players are put back for display).",
        "Coq proof over a Gallina model + differential correspondence with the Go code", "DESIGN.md §4 C16"),
]

NOT_APPLICABLE = []

NOTES = ("All checks share one Coq development (coq/), one extracted runner and one Go harness; ./check <id> rebuilds what "
         "changed from /repo's working tree on every run. known_findings.json lists recorded defects; fixed entries suppress nothing.")
