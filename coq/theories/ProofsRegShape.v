(* ProofsRegShape.v — C19: which tables the loop of allocateTables can open above the capacity.
   The first table of an allocation is always within the capacity; a later one is above it only when it is
   sized by the recomputed water level floor(waiting / (tables wanted - tables open)), which has no cap: this is
   the recorded defect F12a, and the lemma below is what the harness uses to tell F12a from any other
   over-capacity request. *)
From Coq Require Import Lia.
From PF Require Import Base ModelReg ProofsBase ProofsRegBasic ProofsReg.

(* the tables opened by one run of the loop, oldest first: (waiting before, tables open before, players given) *)
Fixpoint alloc_trace (fuel : nat) (st : rst) (wl rt : Z) : list (Z * Z * Z) :=
  match fuel with
  | O => []
  | S f =>
      let r := rs_reg st in
      if (r_min r <=? wl) && (r_tc r <? rt) then
        let ql := zn (length (r_queue r)) in
        let req := if (wl <? ql) && (ql <? r_max r) then ql else wl in
        let '(players, r1) := take_queue r req in
        match players with
        | [] => []
        | _ =>
            let id := r_nextid r1 in
            let k := zn (length players) in
            let t := mkT id (if k <? wl then wl - k else 0) k in
            let r2 := mkReg (r_max r1) (r_min r1) (r_pc r1) (r_tc r1 + 1) (r_status r1) (r_queue r1)
                            (r_tables r1 ++ [t]) (id + 1) in
            let wl' := ifloor_div (zn (length (r_queue r2))) (rt - r_tc r2) in
            (ql, r_tc r, k) :: alloc_trace f (mkRst r2 (EvRequest id players :: rs_ev st) (rs_choices st) (rs_bad st)) wl' rt
        end
      else []
  end.

Definition is_request_of (e : revent) (x : Z * Z * Z) : Prop :=
  exists id ps, e = EvRequest id ps /\ zn (length ps) = snd x.

(* the trace is the list of requestTableFn calls made by the loop *)
Lemma alloc_trace_events fuel : forall st wl rt,
  exists evs, rs_ev (alloc_loop fuel st wl rt) = evs ++ rs_ev st /\
              Forall2 is_request_of (rev evs) (alloc_trace fuel st wl rt).
Proof.
  induction fuel as [|f IH]; intros st wl rt; cbn [alloc_loop alloc_trace]; [exists []; split; [reflexivity|constructor]|].
  destruct ((r_min (rs_reg st) <=? wl) && (r_tc (rs_reg st) <? rt)); [|exists []; split; [reflexivity|constructor]].
  unfold take_queue.
  destruct (firstn _ (r_queue (rs_reg st))) as [|p0 ps] eqn:Ef; [exists []; split; [reflexivity|constructor]|].
  match goal with |- context [alloc_loop f ?s ?w rt] => destruct (IH s w rt) as (evs & E1 & E2) end.
  exists (evs ++ [EvRequest (r_nextid (rs_reg st)) (p0 :: ps)]). split.
  - rewrite E1. cbn [rs_ev]. rewrite <- app_assoc. reflexivity.
  - rewrite rev_app_distr. cbn [rev app]. constructor; [|exact E2].
    exists (r_nextid (rs_reg st)), (p0 :: ps). split; reflexivity.
Qed.

(* F12a: sized by the uncapped recomputed water level *)
Definition f12a_shape (mx rt : Z) (x : Z * Z * Z) : Prop :=
  let '(q, tc, k) := x in k <= mx \/ (tc < rt /\ k = q / (rt - tc)).

Definition wl_ok (st : rst) (wl rt : Z) : Prop :=
  wl <= r_max (rs_reg st) \/
  (r_tc (rs_reg st) < rt /\ wl = zn (length (r_queue (rs_reg st))) / (rt - r_tc (rs_reg st))).

Lemma alloc_trace_shape fuel : forall st wl rt,
  0 < r_max (rs_reg st) -> wl_ok st wl rt ->
  Forall (f12a_shape (r_max (rs_reg st)) rt) (alloc_trace fuel st wl rt) /\
  (wl <= r_max (rs_reg st) ->
   match alloc_trace fuel st wl rt with [] => True | x :: _ => snd x <= r_max (rs_reg st) end).
Proof.
  induction fuel as [|f IH]; intros st wl rt Hmax Hwl; cbn [alloc_trace]; [split; [constructor|trivial]|].
  destruct ((r_min (rs_reg st) <=? wl) && (r_tc (rs_reg st) <? rt)) eqn:G; [|split; [constructor|trivial]].
  apply andb_prop in G as [_ G2]. apply Z.ltb_lt in G2.
  set (r := rs_reg st) in *. set (ql := zn (length (r_queue r))) in *.
  set (req := if (wl <? ql) && (ql <? r_max r) then ql else wl) in *.
  unfold take_queue. set (n := Z.to_nat req) in *.
  destruct (firstn n (r_queue r)) as [|p0 ps] eqn:Ef; [split; [constructor|trivial]|].
  cbn [set_queue r_max r_min r_pc r_tc r_status r_queue r_tables r_nextid].
  set (k := zn (length (p0 :: ps))) in *.
  assert (Hk : k = Z.min req ql /\ 0 < req).
  { unfold k. rewrite <- Ef. rewrite firstn_length. unfold n, ql, zn.
    assert (Hn : n <> 0%nat) by (intros H0; unfold n in *; rewrite H0 in Ef; discriminate Ef).
    unfold n in Hn. split; lia. }
  destruct Hk as [Hk Hreq0].
  assert (Hql : 0 <= ql) by (unfold ql, zn; lia).
  (* the size of this table *)
  clearbody k.
  assert (Hthis : (wl <= r_max r -> k <= r_max r) /\ f12a_shape (r_max r) rt (ql, r_tc r, k)).
  { unfold req in *. revert Hk Hreq0. destruct ((wl <? ql) && (ql <? r_max r)) eqn:E; intros Hk Hreq0.
    - apply andb_prop in E as [_ E2]. apply Z.ltb_lt in E2. rewrite Z.min_id in Hk. split; [intros _|unfold f12a_shape; left]; rewrite Hk; apply Z.lt_le_incl, E2.
    - split; [intros Hle; lia|]. unfold f12a_shape. unfold wl_ok in Hwl. fold r ql in Hwl. destruct Hwl as [Hwl|[Hlt Hwl]]; [left; lia|].
      right. split; [exact Hlt|].
      assert (wl <= ql); [|lia]. rewrite Hwl. apply Z.div_le_upper_bound; nia. }
  destruct Hthis as [Hfirst Hthis].
  match goal with |- context [alloc_trace f ?s ?w rt] => set (st1 := s); set (wl' := w) end.
  assert (Hm1 : r_max (rs_reg st1) = r_max r) by reflexivity.
  assert (Hok : wl_ok st1 wl' rt).
  { unfold wl_ok. rewrite Hm1. unfold wl', st1. cbn [rs_reg r_queue r_tc]. fold r.
    unfold ifloor_div. destruct (rt - (r_tc r + 1) =? 0) eqn:E0; [left; unfold MININT; lia|].
    apply Z.eqb_neq in E0. right. split; [lia|reflexivity]. }
  destruct (IH st1 wl' rt) as [IH1 _]; [rewrite Hm1; exact Hmax|exact Hok|]. rewrite Hm1 in IH1.
  split; [constructor; assumption|]. intros Hle. cbn [snd]. apply Hfirst. exact Hle.
Qed.

(* the water level allocateTables starts from is within the capacity *)
Lemma ifloor_ceil_cap pc mx : 0 < mx -> 0 <= pc -> ifloor_div pc ((pc + mx - 1) / mx) <= mx.
Proof.
  intros Hm Hp. unfold ifloor_div. destruct (_ =? 0) eqn:E; [unfold MININT; lia|].
  destruct (Z.eq_dec pc 0) as [->|Hne].
  - rewrite Z.div_0_l; [lia|]. apply Z.eqb_neq in E. exact E.
  - apply div_ceil_cap; lia.
Qed.

Theorem allocation_shape st :
  0 < r_max (rs_reg st) -> 0 <= r_pc (rs_reg st) ->
  allocate_tables st = st \/
  exists fuel wl rt,
    allocate_tables st = alloc_loop fuel st wl rt /\
    (rt = required_tables (rs_reg st) \/ rt = r_pc (rs_reg st) / r_max (rs_reg st)) /\
    exists evs, rs_ev (allocate_tables st) = evs ++ rs_ev st /\
      Forall2 is_request_of (rev evs) (alloc_trace fuel st wl rt) /\
      Forall (f12a_shape (r_max (rs_reg st)) rt) (alloc_trace fuel st wl rt) /\
      match alloc_trace fuel st wl rt with [] => True | x :: _ => snd x <= r_max (rs_reg st) end.
Proof.
  intros Hmax Hpc.
  assert (Hw : ifloor_div (r_pc (rs_reg st)) (required_tables (rs_reg st)) <= r_max (rs_reg st))
    by (apply ifloor_ceil_cap; assumption).
  assert (K : forall fuel wl rt, wl <= r_max (rs_reg st) ->
              (rt = required_tables (rs_reg st) \/ rt = r_pc (rs_reg st) / r_max (rs_reg st)) ->
              allocate_tables st = alloc_loop fuel st wl rt ->
              allocate_tables st = st \/ exists fuel wl rt,
                allocate_tables st = alloc_loop fuel st wl rt /\
                (rt = required_tables (rs_reg st) \/ rt = r_pc (rs_reg st) / r_max (rs_reg st)) /\
                exists evs, rs_ev (allocate_tables st) = evs ++ rs_ev st /\
                  Forall2 is_request_of (rev evs) (alloc_trace fuel st wl rt) /\
                  Forall (f12a_shape (r_max (rs_reg st)) rt) (alloc_trace fuel st wl rt) /\
                  match alloc_trace fuel st wl rt with [] => True | x :: _ => snd x <= r_max (rs_reg st) end).
  { intros fuel wl rt Hwl Hrt E. right. exists fuel, wl, rt. split; [exact E|]. split; [exact Hrt|].
    destruct (alloc_trace_events fuel st wl rt) as (evs & E1 & E2). exists evs. rewrite E. split; [exact E1|]. split; [exact E2|].
    destruct (alloc_trace_shape fuel st wl rt Hmax (or_introl Hwl)) as [S1 S2]. split; [exact S1|apply S2; exact Hwl]. }
  unfold allocate_tables in *.
  destruct (r_tc (rs_reg st) =? 0).
  - destruct (r_pc (rs_reg st) <? r_min (rs_reg st)); [now left|].
    destruct (r_min (rs_reg st) <=? _).
    + eapply K; [exact Hw|left; reflexivity|reflexivity].
    + eapply K; [apply Z.le_refl|right; reflexivity|reflexivity].
  - destruct (0 <? r_tc (rs_reg st)).
    + eapply K; [exact Hw|left; reflexivity|reflexivity].
    + eapply K; [apply Z.le_refl|left; reflexivity|reflexivity].
Qed.
