// pfharness: runs the pokerface implementation on generated inputs, writes
//   <out>.in    one command per line for the extracted Coq model (runner)
//   <out>.impl  what the implementation was observed to do, in the runner's output format
//   <out>.meta.json  oracle verdicts (independent Go statements of the properties),
//                    input distribution, samples
// Every random choice derives from one PRNG seeded with -seed.
package main

import (
	"bufio"
	"encoding/json"
	"flag"
	"fmt"
	"math/rand"
	"os"
	"sort"
	"strings"
)

type Violation struct {
	Property string      `json:"property"`
	Kind     string      `json:"kind"`
	What     string      `json:"what"`
	Replay   interface{} `json:"replay"`
}

type Meta struct {
	Component  string                 `json:"component"`
	Seed       int64                  `json:"seed"`
	Cases      int                    `json:"cases"`
	Lines      int                    `json:"lines"`
	Violations []Violation            `json:"violations"`
	ViolCount  map[string]int         `json:"violation_counts"`
	Stats      map[string]int         `json:"stats"`
	Nontrivial map[string]int         `json:"distinct_nontrivial"`
	Samples    map[string]interface{} `json:"samples"`
	Exhaustive bool                   `json:"exhaustive"`
	Ties       []string               `json:"ties_broken"`
}

type Out struct {
	in, impl *bufio.Writer
	fin, fim *os.File
	meta     Meta
	distinct map[string]map[string]bool
	lines    int
}

func NewOut(prefix, comp string, seed int64) *Out {
	fin, err := os.Create(prefix + ".in")
	if err != nil {
		panic(err)
	}
	fim, err := os.Create(prefix + ".impl")
	if err != nil {
		panic(err)
	}
	return &Out{in: bufio.NewWriterSize(fin, 1<<20), impl: bufio.NewWriterSize(fim, 1<<20), fin: fin, fim: fim,
		meta: Meta{Component: comp, Seed: seed, ViolCount: map[string]int{}, Stats: map[string]int{},
			Nontrivial: map[string]int{}, Samples: map[string]interface{}{}},
		distinct: map[string]map[string]bool{}}
}

// Line records one command for the model and the observation of the implementation.
func (o *Out) Line(cmd string, obs string) {
	o.in.WriteString(cmd)
	o.in.WriteByte('\n')
	o.impl.WriteString(obs)
	o.impl.WriteByte('\n')
	o.lines++
}

// Mark writes a comment line to both files (case boundary, carries the replay id)
func (o *Out) Mark(s string) {
	o.Line("# "+s, "# "+s)
}

func (o *Out) Violate(prop, kind, what string, replay interface{}) {
	key := prop + ":" + kind
	o.meta.ViolCount[key]++
	if o.meta.ViolCount[key] <= 3 {
		o.meta.Violations = append(o.meta.Violations, Violation{prop, kind, what, replay})
	}
}

func (o *Out) Stat(k string) { o.meta.Stats[k]++ }
func (o *Out) StatN(k string, n int) { o.meta.Stats[k] += n }

// Distinct counts distinct non-trivial cases per property
func (o *Out) Distinct(prop, canon string) {
	m := o.distinct[prop]
	if m == nil {
		m = map[string]bool{}
		o.distinct[prop] = m
	}
	if len(m) < 2000000 {
		m[canon] = true
	}
}

func (o *Out) Sample(prop string, s interface{}) {
	l, _ := o.meta.Samples[prop].([]interface{})
	if len(l) < 3 {
		o.meta.Samples[prop] = append(l, s)
	}
}

func (o *Out) Close(prefix string, cases int) {
	o.in.Flush()
	o.impl.Flush()
	o.fin.Close()
	o.fim.Close()
	o.meta.Cases = cases
	o.meta.Lines = o.lines
	for p, m := range o.distinct {
		o.meta.Nontrivial[p] = len(m)
	}
	b, _ := json.MarshalIndent(o.meta, "", " ")
	os.WriteFile(prefix+".meta.json", b, 0o644)
}

// ---- observation formatting: key=v1,v2 key=... ----
type Obs struct{ sb strings.Builder }

func (b *Obs) K(key string, vals ...int64) *Obs {
	if b.sb.Len() > 0 {
		b.sb.WriteByte(' ')
	}
	b.sb.WriteString(key)
	b.sb.WriteByte('=')
	for i, v := range vals {
		if i > 0 {
			b.sb.WriteByte(',')
		}
		fmt.Fprintf(&b.sb, "%d", v)
	}
	return b
}
func (b *Obs) String() string { return b.sb.String() }

func ints(xs ...int64) string {
	s := make([]string, len(xs))
	for i, x := range xs {
		s[i] = fmt.Sprintf("%d", x)
	}
	return strings.Join(s, " ")
}

func b2i(b bool) int64 {
	if b {
		return 1
	}
	return 0
}

func sortedKeys(m map[int]int64) []int {
	ks := make([]int, 0, len(m))
	for k := range m {
		ks = append(ks, k)
	}
	sort.Ints(ks)
	return ks
}

func main() {
	comp := flag.String("c", "", "component: pot|settle|eval|best|seat|reg|game|shuffle|race")
	seed := flag.Int64("seed", 1, "PRNG seed")
	n := flag.Int("n", 200, "number of cases")
	out := flag.String("out", "work/cases", "output prefix")
	mode := flag.String("mode", "random", "random|exhaustive|replay|corpus")
	replay := flag.String("replay", "", "replay file (JSON) for mode=replay / corpus file")
	scope := flag.Int("scope", 0, "scope parameter for exhaustive modes")
	flag.Parse()
	defer startProfile()()
	rng := rand.New(rand.NewSource(*seed))
	o := NewOut(*out, *comp, *seed)
	cases := 0
	switch *comp {
	case "pot":
		cases = runPot(o, rng, *n, *mode, *scope, *replay)
	case "settle":
		cases = runSettle(o, rng, *n, *mode, *scope, *replay)
	case "eval":
		cases = runEval(o, rng, *n, *mode, *scope, *replay)
	case "best":
		cases = runBest(o, rng, *n, *mode, *replay)
	case "seat":
		cases = runSeat(o, rng, *n, *mode, *scope, *replay)
	case "reg":
		cases = runReg(o, rng, *n, *mode, *scope, *replay)
	case "game":
		cases = runGame(o, rng, *n, *mode, *scope, *replay)
	case "shuffle":
		cases = runShuffle(o, rng, *n)
	case "race":
		cases = runRace(o, rng, *n)
	case "schema":
		cases = runSchema(o)
	default:
		fmt.Fprintln(os.Stderr, "unknown component")
		os.Exit(2)
	}
	o.meta.Exhaustive = *mode == "exhaustive"
	o.Close(*out, cases)
}
