(* ProofsOffers.v — who is offered what (C04, C11): in every reachable state only the seat to
   act can hold an offer, and during a betting round its offer is exactly the action table
   evaluated on the current situation. *)
From Coq Require Import Lia.
From PF Require Import Base ProofsBase Comb ModelPot ModelSettle ModelEval ModelGame ProofsGameBasic ProofsChips ProofsInv ProofsPos.

Definition only_cur (g : gstate) : Prop :=
  forall i, i <> st_cur (g_st g) -> p_allowed (get_p g i) = [].

Definition cur_offer (g : gstate) : Prop :=
  (st_cur (g_st g) < nplayers g)%nat /\
  p_allowed (get_p g (st_cur (g_st g))) = available_actions (g_st g) (get_p g (st_cur (g_st g))).

Record Oinv (g : gstate) : Prop := mkOinv {
  oi_only : only_cur g;
  oi_range : (st_cur (g_st g) < nplayers g)%nat;
  oi_cur : st_event (g_st g) = EvRoundStarted -> cur_offer g }.

Lemma no_offers_only_cur g : no_offers g -> only_cur g.
Proof. intros H i _. apply H. Qed.

(* the offer table does not look at the offer itself *)
Lemma available_set_allowed s p l : available_actions s (p_set_allowed p l) = available_actions s p.
Proof. reflexivity. Qed.

Lemma set_current_only g i : only_cur g -> only_cur (set_current g i).
Proof.
  intros H j Hj. unfold set_current in *. simpl in Hj.
  destruct (Nat.lt_ge_cases j (nplayers g)) as [Hlt|Hge].
  - rewrite get_p_upd_other by (intros E; apply Hj; symmetry; exact E). rewrite get_p_with_st.
    destruct (Nat.eq_dec (st_cur (g_st g)) j) as [<-|Hne].
    + rewrite get_p_upd_same by exact Hlt. reflexivity.
    + rewrite get_p_upd_other by exact Hne. apply H. intros E; apply Hne; symmetry; exact E.
  - rewrite get_p_overflow; [reflexivity|]. rewrite nplayers_upd, nplayers_with_st, nplayers_upd. exact Hge.
Qed.

Lemma set_current_offer g i : (i < nplayers g)%nat -> cur_offer (set_current g i).
Proof.
  intros Hi. unfold cur_offer, set_current. simpl.
  split; [rewrite nplayers_upd, nplayers_with_st, nplayers_upd; exact Hi|].
  rewrite get_p_upd_same by (rewrite nplayers_with_st, nplayers_upd; exact Hi). reflexivity.
Qed.

Lemma next_idx_lt g : (st_cur (g_st g) < nplayers g)%nat -> (next_idx g < nplayers g)%nat.
Proof.
  intros H. unfold next_idx. destruct (Nat.eqb (S (st_cur (g_st g))) (nplayers g)) eqn:E; [lia|].
  apply Nat.eqb_neq in E. lia.
Qed.

Lemma Oinv_quiet g :
  no_offers g -> (st_cur (g_st g) < nplayers g)%nat -> st_event (g_st g) <> EvRoundStarted -> Oinv g.
Proof. intros H1 H2 H3. constructor; [apply no_offers_only_cur; exact H1|exact H2|intros E; contradiction]. Qed.

(* request_action: closes the round (nobody offered) or moves the offer to the next seat *)
Lemma request_action_oinv g :
  only_cur g -> (st_cur (g_st g) < nplayers g)%nat -> st_event (g_st g) = EvRoundStarted -> Oinv (request_action g).
Proof.
  intros Ho Hr He. unfold request_action.
  assert (Hrc : Oinv (round_closed g)).
  { apply Oinv_quiet; [apply all_offers_round_closed; reflexivity| |simpl; discriminate].
    rewrite (pv_nplayers _ _ (pv_round_closed g)). exact Hr. }
  destruct (Nat.eqb (alive_count g) 1); [exact Hrc|].
  destruct (Nat.eqb (movable_count g) 0); [exact Hrc|].
  destruct (p_acted _); [exact Hrc|].
  pose proof (next_idx_lt g Hr) as Hn.
  constructor.
  - apply set_current_only; exact Ho.
  - rewrite (pv_nplayers _ _ (pv_set_current g _)). exact Hn.
  - intros _. apply set_current_offer; exact Hn.
Qed.

Lemma nplayers_set_current g i : nplayers (set_current g i) = nplayers g.
Proof. apply pv_nplayers, pv_set_current. Qed.

Lemma find_bb_loop_only n : forall g,
  only_cur g -> (st_cur (g_st g) < nplayers g)%nat ->
  only_cur (find_bb_loop n g) /\ (st_cur (g_st (find_bb_loop n g)) < nplayers (find_bb_loop n g))%nat.
Proof.
  induction n as [|n IH]; intros g Ho Hr; simpl; [auto|].
  pose proof (next_idx_lt g Hr) as Hn.
  assert (H1 : only_cur (set_current g (next_idx g))) by (apply set_current_only; exact Ho).
  assert (H2 : (st_cur (g_st (set_current g (next_idx g))) < nplayers (set_current g (next_idx g)))%nat)
    by (rewrite nplayers_set_current; exact Hn).
  destruct (p_bb _); [auto|]. apply IH; assumption.
Qed.

Lemma start_round_oinv g : (st_cur (g_st g) < nplayers g)%nat -> Oinv (start_round g).
Proof.
  intros Hr. unfold start_round.
  assert (Hn0 : nplayers (reset_all g) = nplayers g) by (apply pv_nplayers, pv_reset_all).
  assert (Hd : (dealer_of (reset_all g) < nplayers (reset_all g))%nat) by (apply dealer_of_lt; rewrite Hn0; lia).
  assert (H1 : only_cur (set_current (reset_all g) (dealer_of (reset_all g)))).
  { apply set_current_only, no_offers_only_cur, all_offers_reset_all. reflexivity. }
  assert (H2 : (st_cur (g_st (set_current (reset_all g) (dealer_of (reset_all g)))) < nplayers (set_current (reset_all g) (dealer_of (reset_all g))))%nat).
  { rewrite nplayers_set_current. exact Hd. }
  destruct (st_round (g_st (reset_all g))).
  all: try (apply request_action_oinv; [exact H1|exact H2|reflexivity]).
  destruct (Nat.eqb (movable_count (reset_all g)) 0).
  - apply Oinv_quiet; [apply all_offers_round_closed; reflexivity| |simpl; discriminate].
    rewrite (pv_nplayers _ _ (pv_round_closed _)), Hn0. exact Hr.
  - destruct (find_bb_loop_only (nplayers (set_current (reset_all g) (dealer_of (reset_all g)))) _ H1 H2) as [F1 F2].
    apply request_action_oinv; [exact F1|exact F2|reflexivity].
Qed.

(* the cursor and the event are left alone by a payment *)
Lemma cur_pay g i chips w : st_cur (g_st (pay g i chips w)) = st_cur (g_st g).
Proof.
  unfold pay, become_raiser, reset_acted, map_p, upd_p, with_st, with_players.
  repeat match goal with |- context [if ?c then _ else _] => destruct c end; reflexivity.
Qed.

Definition av (g : gstate) : list (list action) := map p_allowed (g_players g).

Lemma av_upd g i f : (forall p, p_allowed (f p) = p_allowed p) -> av (upd_p g i f) = av g.
Proof.
  intros Hf. unfold av, upd_p. simpl. revert i. induction (g_players g) as [|x t IH]; intros [|i]; simpl; auto.
  - now rewrite Hf.
  - now rewrite IH.
Qed.
Lemma av_map g f : (forall p, p_allowed (f p) = p_allowed p) -> av (map_p g f) = av g.
Proof. intros Hf. unfold av, map_p. simpl. rewrite map_map. apply map_ext. exact Hf. Qed.
Lemma av_with_st g s : av (with_st g s) = av g. Proof. reflexivity. Qed.
Lemma av_reset_acted g : av (reset_acted g) = av g. Proof. apply av_map. reflexivity. Qed.
Lemma av_become_raiser g i : av (become_raiser g i) = av g.
Proof.
  unfold become_raiser. rewrite av_upd by reflexivity. rewrite av_reset_acted, av_with_st.
  apply av_upd. intros p. destruct (0 <? p_wager p); reflexivity.
Qed.
Lemma av_pay g i chips w : av (pay g i chips w) = av g.
Proof.
  unfold pay. destruct (p_stack (get_p g i) <=? chips).
  - destruct w.
    + match goal with |- context [if ?c then become_raiser ?g3 i else reset_acted ?g3] =>
        transitivity (av g3); [destruct c; [apply av_become_raiser|apply av_reset_acted]|] end.
      match goal with |- context [if ?c then with_st _ _ else _] => destruct c end;
        rewrite ?av_with_st; rewrite av_upd by reflexivity; reflexivity.
    + rewrite av_upd by reflexivity. reflexivity.
  - destruct (w && _).
    + rewrite av_become_raiser, !av_with_st. apply av_upd. reflexivity.
    + rewrite av_with_st. apply av_upd. reflexivity.
Qed.

Lemma av_get g g' j : av g' = av g -> p_allowed (get_p g' j) = p_allowed (get_p g j).
Proof.
  intros H. unfold get_p, av in *. rewrite <- !(map_nth p_allowed). now rewrite H.
Qed.

Lemma only_cur_av g g' : av g' = av g -> st_cur (g_st g') = st_cur (g_st g) -> only_cur g -> only_cur g'.
Proof. intros Ha Hc H j Hj. rewrite (av_get g g' j Ha). apply H. now rewrite <- Hc. Qed.

(* ---------- quiet results: nobody offered, not in a betting round ---------- *)
Definition quiet (g : gstate) : Prop := no_offers g /\ st_event (g_st g) <> EvRoundStarted.

Lemma quiet_round_closed g : quiet (round_closed g).
Proof. split; [apply all_offers_round_closed; reflexivity|simpl; discriminate]. Qed.
Lemma quiet_request_ready g : quiet (request_ready g).
Proof. split; [apply all_offers_request_ready; reflexivity|simpl; discriminate]. Qed.
Lemma quiet_prepare_round g : quiet (prepare_round g).
Proof.
  unfold prepare_round. destruct (st_round (g_st g)); try apply quiet_request_ready;
    destruct (Nat.leb (movable_count g) 1); try apply quiet_round_closed; apply quiet_request_ready.
Qed.

Lemma cur_prepare_round g : st_cur (g_st (prepare_round g)) = st_cur (g_st g).
Proof.
  unfold prepare_round. destruct (st_round (g_st g)); try reflexivity;
    destruct (Nat.leb (movable_count g) 1); reflexivity.
Qed.

Lemma Oinv_of_quiet g : quiet g -> (st_cur (g_st g) < nplayers g)%nat -> Oinv g.
Proof. intros [H1 H2] H3. apply Oinv_quiet; assumption. Qed.

Lemma quiet_enter_preflop g : quiet g -> quiet (fst (enter_preflop g)).
Proof.
  intros [Q1 Q2]. split.
  - apply all_offers_enter_preflop; [reflexivity|exact Q1].
  - unfold enter_preflop. destruct (negb (deck_has g _)); [exact Q2|].
    match goal with |- context [if ?c then _ else _] => destruct c end; cbn [fst];
      [apply quiet_prepare_round|simpl; discriminate].
Qed.

Lemma cur_enter_preflop g : st_cur (g_st (fst (enter_preflop g))) = st_cur (g_st g).
Proof.
  unfold enter_preflop. destruct (negb (deck_has g _)); [reflexivity|].
  match goal with |- context [if ?c then _ else _] => destruct c end; cbn [fst]; [rewrite cur_prepare_round|]; reflexivity.
Qed.

Lemma quiet_enter_street g r : quiet g -> quiet (fst (enter_street g r)).
Proof.
  intros Q. unfold enter_street. destruct (negb (deck_has g _)); [exact Q|]. cbn [fst]. apply quiet_prepare_round.
Qed.

Lemma range_enter_street g r :
  (st_cur (g_st g) < nplayers g)%nat ->
  (st_cur (g_st (fst (enter_street g r))) < nplayers (fst (enter_street g r)))%nat.
Proof.
  intros Hr. rewrite (pv_nplayers _ _ (pv_enter_street g r)).
  unfold enter_street. destruct (negb (deck_has g _)); [exact Hr|]. cbn [fst].
  rewrite cur_prepare_round. change (dealer_of g < nplayers g)%nat. apply dealer_of_lt. lia.
Qed.

Lemma quiet_game_completed g : quiet g -> quiet (fst (game_completed g)).
Proof.
  intros [Q1 Q2]. unfold game_completed. destruct (settle_panics _ _); [split; assumption|]. cbn [fst].
  split; [|simpl; discriminate]. intros i. apply Q1.
Qed.

Lemma cur_game_completed g : st_cur (g_st (fst (game_completed g))) = st_cur (g_st g).
Proof. unfold game_completed. destruct (settle_panics _ _); reflexivity. Qed.

Lemma cur_ante_loop order : forall g, st_cur (g_st (fst (ante_loop order g))) = st_cur (g_st g).
Proof.
  induction order as [|i t IH]; intros g; simpl; [reflexivity|].
  destruct (0 <? p_wager (get_p g i)); [reflexivity|]. rewrite IH. simpl. apply cur_pay.
Qed.

Lemma cur_fold_pay_blind order : forall g, st_cur (g_st (fold_left pay_blind order g)) = st_cur (g_st g).
Proof.
  induction order as [|i t IH]; intros g; simpl; [reflexivity|]. rewrite IH. unfold pay_blind.
  destruct (blind_of _ _). simpl. apply cur_pay.
Qed.

(* ---------- every operation ---------- *)
Lemma nplayers_step g o : nplayers (fst (step g o)) = nplayers g.
Proof. apply pv_nplayers, pv_step. Qed.

Lemma Oinv_do_ready g : Inv g -> Oinv g -> Oinv (fst (do_ready g)).
Proof.
  intros HI HO. pose proof (oi_range g HO) as Hr.
  assert (Hn : nplayers (fst (do_ready g)) = nplayers g) by apply (nplayers_step g OReady).
  unfold do_ready in *.
  destruct (event_eqb (st_event (g_st g)) EvReadyRequested) eqn:Ee; [|exact HO]. cbn [negb] in *.
  assert (He : st_event (g_st g) = EvReadyRequested) by (destruct (st_event (g_st g)); try discriminate; reflexivity).
  assert (Hq0 : quiet (reset_all g)) by (split; [apply all_offers_reset_all; reflexivity|simpl; rewrite He; discriminate]).
  destruct (st_round (g_st (reset_all g))).
  - destruct (0 <? m_ante (g_meta (reset_all g))); cbn [fst] in *.
    + apply Oinv_of_quiet; [split; [unfold set_event; apply all_offers_with_st, all_offers_reset_all; reflexivity|simpl; discriminate]|].
      rewrite Hn. exact Hr.
    + apply Oinv_of_quiet; [apply quiet_enter_preflop; exact Hq0|]. rewrite Hn, cur_enter_preflop. exact Hr.
  - cbn [fst]. apply start_round_oinv. rewrite (pv_nplayers _ _ (pv_reset_all g)). exact Hr.
  - cbn [fst]. apply start_round_oinv. rewrite (pv_nplayers _ _ (pv_reset_all g)). exact Hr.
  - cbn [fst]. apply start_round_oinv. rewrite (pv_nplayers _ _ (pv_reset_all g)). exact Hr.
  - cbn [fst]. apply start_round_oinv. rewrite (pv_nplayers _ _ (pv_reset_all g)). exact Hr.
Qed.

Lemma Oinv_do_pay_ante g : Inv g -> Oinv g -> Oinv (fst (do_pay_ante g)).
Proof.
  intros HI HO. pose proof (oi_range g HO) as Hr.
  assert (Hn : nplayers (fst (do_pay_ante g)) = nplayers g) by apply (nplayers_step g OPayAnte).
  unfold do_pay_ante in *.
  destruct (m_ante (g_meta g) =? 0); [exact HO|].
  destruct (event_eqb (st_event (g_st g)) EvAnteRequested) eqn:Ee; [|exact HO]. cbn [negb] in *.
  assert (He : st_event (g_st g) = EvAnteRequested) by (destruct (st_event (g_st g)); try discriminate; reflexivity).
  assert (Hno : no_offers g) by (apply (inv_offers g HI); rewrite He; discriminate).
  assert (Hante : 0 <= m_ante (g_meta g)) by (destruct (inv_chips g HI) as [[A _] _ _ _ _]; exact A).
  pose proof (ante_loop_inv (player_order g) g (player_order_lt g) (inv_chips g HI) Hno Hante) as (_ & I2 & I3).
  pose proof (cur_ante_loop (player_order g) g) as Hc.
  destruct (ante_loop (player_order g) g) as [g1 b]. cbn [fst] in *.
  destruct b; cbn [fst] in *.
  - apply Oinv_of_quiet.
    + apply quiet_enter_preflop. split; [|simpl; rewrite I3, He; discriminate].
      unfold reset_round_status. apply all_offers_with_st, all_offers_reset_all_status. reflexivity.
    + rewrite Hn, cur_enter_preflop. simpl.
      set (g3 := reset_all_status (update_pots (reset_all g1))).
      assert (H3 : nplayers g3 = nplayers g).
      { rewrite <- Hn. symmetry. rewrite (pv_nplayers _ _ (pv_enter_preflop _)). reflexivity. }
      rewrite <- H3. apply dealer_of_lt. lia.
  - apply Oinv_of_quiet; [split; [exact I2|rewrite I3, He; discriminate]|]. rewrite Hn, Hc. exact Hr.
Qed.

Lemma Oinv_do_pay_blinds g : Inv g -> Oinv g -> Oinv (fst (do_pay_blinds g)).
Proof.
  intros HI HO. pose proof (oi_range g HO) as Hr.
  assert (Hn : nplayers (fst (do_pay_blinds g)) = nplayers g) by apply (nplayers_step g OPayBlinds).
  unfold do_pay_blinds in *.
  destruct (event_eqb (st_event (g_st g)) EvBlindsRequested) eqn:Ee; [|exact HO]. cbn [negb fst] in *.
  apply Oinv_of_quiet; [apply quiet_prepare_round|].
  rewrite Hn, cur_prepare_round. simpl. rewrite cur_fold_pay_blind. exact Hr.
Qed.

Lemma Oinv_do_next g : Inv g -> Oinv g -> Oinv (fst (do_next g)).
Proof.
  intros HI HO. pose proof (oi_range g HO) as Hr.
  unfold do_next.
  destruct (event_eqb (st_event (g_st g)) EvRoundClosed) eqn:Ee; [|exact HO]. cbn [negb].
  assert (He : st_event (g_st g) = EvRoundClosed) by (destruct (st_event (g_st g)); try discriminate; reflexivity).
  assert (Hno : no_offers g) by (apply (inv_offers g HI); rewrite He; discriminate).
  set (g0 := set_last g (-1) LNext 0).
  set (g1 := reset_all_status (reset_round_status g0)).
  assert (Hn1 : nplayers g1 = nplayers g).
  { unfold g1, g0. rewrite (pv_nplayers _ _ (pv_reset_all_status _)). reflexivity. }
  assert (Hq1 : quiet g1).
  { split; [apply all_offers_reset_all_status; reflexivity|]. unfold g1, g0. simpl. rewrite He. discriminate. }
  assert (Hr1 : (st_cur (g_st g1) < nplayers g1)%nat).
  { rewrite Hn1. unfold g1. change (dealer_of g0 < nplayers g)%nat. replace (nplayers g) with (nplayers g0) by reflexivity.
    apply dealer_of_lt. unfold g0, set_last. rewrite nplayers_with_st. lia. }
  assert (Hgc : Oinv (fst (game_completed g1))).
  { apply Oinv_of_quiet; [apply quiet_game_completed; exact Hq1|].
    rewrite cur_game_completed, (pv_nplayers _ _ (pv_game_completed g1)). exact Hr1. }
  assert (Hst : forall r, Oinv (fst (enter_street g1 r))).
  { intros r. apply Oinv_of_quiet; [apply quiet_enter_street; exact Hq1|apply range_enter_street; exact Hr1]. }
  destruct (st_round (g_st g0)).
  - cbn [fst]. apply Oinv_of_quiet; [split; [unfold g0, set_last; apply all_offers_with_st; exact Hno|simpl; rewrite He; discriminate]|exact Hr].
  - destruct (Nat.eqb (alive_count g1) 1).
    + pose proof Hgc as H. destruct (game_completed g1) as [g2 [| | | | | | | |]]; cbn [fst] in *; try exact H; exact HO.
    + pose proof (Hst Flop) as H. destruct (enter_street g1 Flop) as [g2 [| | | | | | | |]]; cbn [fst] in *; try exact H; exact HO.
  - destruct (Nat.eqb (alive_count g1) 1).
    + pose proof Hgc as H. destruct (game_completed g1) as [g2 [| | | | | | | |]]; cbn [fst] in *; try exact H; exact HO.
    + pose proof (Hst Turn) as H. destruct (enter_street g1 Turn) as [g2 [| | | | | | | |]]; cbn [fst] in *; try exact H; exact HO.
  - destruct (Nat.eqb (alive_count g1) 1).
    + pose proof Hgc as H. destruct (game_completed g1) as [g2 [| | | | | | | |]]; cbn [fst] in *; try exact H; exact HO.
    + pose proof (Hst River) as H. destruct (enter_street g1 River) as [g2 [| | | | | | | |]]; cbn [fst] in *; try exact H; exact HO.
  - destruct (Nat.eqb (alive_count g1) 1).
    + pose proof Hgc as H. destruct (game_completed g1) as [g2 [| | | | | | | |]]; cbn [fst] in *; try exact H; exact HO.
    + pose proof Hgc as H. destruct (game_completed g1) as [g2 [| | | | | | | |]]; cbn [fst] in *; try exact H; exact HO.
Qed.

(* an accepted action comes from the seat to act, during a betting round *)
Lemma accepted_is_current g i a :
  Inv g -> Oinv g -> allowed g i a = true -> i = st_cur (g_st g) /\ st_event (g_st g) = EvRoundStarted.
Proof.
  intros HI HO Ha. destruct (action_context g i a HI Ha) as [He _]. split; [|exact He].
  destruct (Nat.eq_dec i (st_cur (g_st g))) as [E|E]; [exact E|].
  exfalso. apply (allowed_offer g i a Ha). apply (oi_only g HO). exact E.
Qed.

(* after the bookkeeping of an action (chips, flags, last action) the engine asks for the next one *)
Lemma Oinv_resume g g' :
  Oinv g -> st_event (g_st g) = EvRoundStarted ->
  av g' = av g -> st_cur (g_st g') = st_cur (g_st g) -> st_event (g_st g') = EvRoundStarted -> nplayers g' = nplayers g ->
  Oinv (resume g').
Proof.
  intros HO He Ha Hc He' Hn. unfold resume. rewrite He'.
  apply request_action_oinv; [|rewrite Hc, Hn; apply (oi_range g HO)|exact He'].
  apply (only_cur_av g g' Ha Hc). apply (oi_only g HO).
Qed.

Ltac act_tac HI HO Ha :=
  cbn [negb fst];
  match goal with |- Oinv (resume ?g') =>
    let H := fresh in
    pose proof (accepted_is_current _ _ _ HI HO Ha) as [_ H];
    eapply (Oinv_resume _ g' HO H)
  end.

Lemma Oinv_act_simple g i (f : pstate -> pstate) t v :
  (forall p, p_allowed (f p) = p_allowed p) ->
  Oinv g -> st_event (g_st g) = EvRoundStarted ->
  Oinv (resume (set_last (upd_p g i f) (zn i) t v)).
Proof.
  intros Hf HO He. apply (Oinv_resume g _ HO He).
  - unfold set_last. rewrite av_with_st. apply av_upd. exact Hf.
  - reflexivity.
  - exact He.
  - unfold set_last. rewrite nplayers_with_st. apply nplayers_upd.
Qed.

Lemma Oinv_act_pay_like g i (f : pstate -> pstate) chips t v (F : status -> status) :
  (forall p, p_allowed (f p) = p_allowed p) ->
  (forall s, st_cur (F s) = st_cur s /\ st_event (F s) = st_event s) ->
  Oinv g -> st_event (g_st g) = EvRoundStarted ->
  Oinv (resume (set_last (pay (with_st (upd_p g i f) (F (g_st (upd_p g i f)))) i chips true) (zn i) t v)).
Proof.
  intros Hf HF HO He. apply (Oinv_resume g _ HO He).
  - unfold set_last. rewrite av_with_st, av_pay, av_with_st. apply av_upd. exact Hf.
  - simpl. rewrite cur_pay. simpl. apply (proj1 (HF _)).
  - simpl. rewrite event_pay. simpl. rewrite (proj2 (HF _)). exact He.
  - unfold set_last. rewrite nplayers_with_st, pay_nplayers, nplayers_with_st. apply nplayers_upd.
Qed.

Ltac resume_goals :=
  first
    [ (* av *) progress (unfold set_last; rewrite ?av_with_st, ?av_pay, ?av_with_st; try (apply av_upd; reflexivity); try reflexivity)
    | idtac ].

Lemma Oinv_act_call g i : Inv g -> Oinv g -> Oinv (fst (act_call g i)).
Proof.
  intros HI HO. unfold act_call. destruct (allowed g i ACall) eqn:Ha; [|exact HO]. cbn [negb fst].
  destruct (accepted_is_current g i ACall HI HO Ha) as [_ He].
  apply (Oinv_resume g _ HO He).
  - unfold set_last. rewrite av_with_st, av_pay. apply av_upd. reflexivity.
  - simpl. rewrite cur_pay. reflexivity.
  - simpl. rewrite event_pay. exact He.
  - unfold set_last. rewrite nplayers_with_st, pay_nplayers. apply nplayers_upd.
Qed.

Lemma Oinv_act_allin g i : Inv g -> Oinv g -> Oinv (fst (act_allin g i)).
Proof.
  intros HI HO. unfold act_allin. destruct (allowed g i AAllin) eqn:Ha; [|exact HO]. cbn [negb fst].
  destruct (accepted_is_current g i AAllin HI HO Ha) as [_ He].
  apply (Oinv_resume g _ HO He).
  - unfold set_last. rewrite av_with_st, av_pay.
    match goal with |- context [if ?c then _ else _] => destruct c end; rewrite ?av_with_st; apply av_upd; reflexivity.
  - simpl. rewrite cur_pay. match goal with |- context [if ?c then _ else _] => destruct c end; reflexivity.
  - simpl. rewrite event_pay. match goal with |- context [if ?c then _ else _] => destruct c end; exact He.
  - unfold set_last. rewrite nplayers_with_st, pay_nplayers.
    match goal with |- context [if ?c then _ else _] => destruct c end; rewrite ?nplayers_with_st; apply nplayers_upd.
Qed.

Lemma Oinv_act_bet g i x : Inv g -> Oinv g -> Oinv (fst (act_bet g i x)).
Proof.
  intros HI HO. unfold act_bet. destruct (allowed g i ABet) eqn:Ha; [|exact HO]. cbn [negb].
  destruct (x <=? 0); [exact HO|].
  destruct (_ <=? x); [apply Oinv_act_allin; assumption|]. cbn [fst].
  destruct (accepted_is_current g i ABet HI HO Ha) as [_ He].
  apply (Oinv_resume g _ HO He).
  - unfold set_last. rewrite !av_with_st, av_pay. apply av_upd. reflexivity.
  - simpl. rewrite cur_pay. reflexivity.
  - simpl. rewrite event_pay. exact He.
  - unfold set_last. rewrite !nplayers_with_st, pay_nplayers. apply nplayers_upd.
Qed.

Lemma Oinv_act_raise g i x : Inv g -> Oinv g -> Oinv (fst (act_raise g i x)).
Proof.
  intros HI HO. unfold act_raise. destruct (allowed g i ARaise) eqn:Ha; [|exact HO]. cbn [negb].
  destruct (_ || _); [exact HO|].
  destruct (x =? _); [apply Oinv_act_call; assumption|].
  destruct (_ || _); [apply Oinv_act_allin; assumption|]. cbn [fst].
  destruct (accepted_is_current g i ARaise HI HO Ha) as [_ He].
  apply (Oinv_resume g _ HO He).
  - unfold set_last. rewrite av_with_st, av_pay, av_with_st. apply av_upd. reflexivity.
  - simpl. rewrite cur_pay. reflexivity.
  - simpl. rewrite event_pay. exact He.
  - unfold set_last. rewrite nplayers_with_st, pay_nplayers, nplayers_with_st. apply nplayers_upd.
Qed.

Theorem Oinv_step g o : Inv g -> Oinv g -> Oinv (fst (step g o)).
Proof.
  intros HI HO. destruct o as [| | | |who a x]; simpl.
  - apply Oinv_do_ready; assumption.
  - apply Oinv_do_pay_ante; assumption.
  - apply Oinv_do_pay_blinds; assumption.
  - apply Oinv_do_next; assumption.
  - set (i := match who with Some i => i | None => st_cur (g_st g) end).
    destruct (negb (Nat.ltb i (nplayers g))); [exact HO|].
    destruct a.
    + unfold act_pass. destruct (allowed g i APass) eqn:Ha; [|exact HO]. cbn [negb fst].
      apply Oinv_act_simple; [reflexivity|exact HO|apply (accepted_is_current g i APass HI HO Ha)].
    + unfold act_fold. destruct (allowed g i AFold) eqn:Ha; [|exact HO]. cbn [negb fst].
      apply Oinv_act_simple; [reflexivity|exact HO|apply (accepted_is_current g i AFold HI HO Ha)].
    + unfold act_check. destruct (allowed g i ACheck) eqn:Ha; [|exact HO]. cbn [negb fst].
      apply Oinv_act_simple; [reflexivity|exact HO|apply (accepted_is_current g i ACheck HI HO Ha)].
    + apply Oinv_act_call; assumption.
    + apply Oinv_act_allin; assumption.
    + apply Oinv_act_bet; assumption.
    + apply Oinv_act_raise; assumption.
    + pose proof (Inv_act_pay g i x HI) as _. unfold act_pay. destruct (allowed g i APay) eqn:Ha; [|exact HO].
      exfalso. pose proof (inv_nopay g HI i) as Hn. unfold allowed in Ha. simpl in Hn. rewrite Hn in Ha. discriminate.
Qed.

Lemma Oinv_create c deck g : create c deck = (g, Ok) -> Oinv g.
Proof.
  intros Hcr. unfold create in Hcr.
  destruct (Nat.ltb (length (map init_player (c_players c))) 2) eqn:E2; [discriminate|].
  destruct (dealer_opt _); [|discriminate].
  destruct (existsb _ _); [discriminate|].
  destruct (Nat.eqb (length (c_deck c)) 0); [discriminate|].
  destruct (Nat.ltb (length (c_deck c)) _); [discriminate|].
  injection Hcr as <-. apply Nat.ltb_ge in E2.
  apply Oinv_of_quiet; [apply quiet_request_ready|].
  match goal with |- (st_cur (g_st (request_ready ?g0)) < nplayers (request_ready ?g0))%nat =>
    rewrite (pv_nplayers _ _ (pv_request_ready g0)); change (dealer_of g0 < nplayers g0)%nat; apply dealer_of_lt end.
  unfold nplayers. simpl. lia.
Qed.

(* both invariants in every reachable state *)
Theorem reachable_inv c deck g ops :
  cfg_ok c -> create c deck = (g, Ok) -> Inv (run g ops) /\ Oinv (run g ops).
Proof.
  intros Hc Hcr.
  assert (H0 : Inv g /\ Oinv g) by (split; [eapply Inv_create; eassumption|eapply Oinv_create; eassumption]).
  clear Hcr. revert g H0. unfold run. induction ops as [|o t IH]; intros g [HI HO]; simpl; [auto|].
  apply IH. split; [apply Inv_step; exact HI|apply Oinv_step; assumption].
Qed.

(* ---------- the turn passes clockwise ---------- *)
(* an accepted action is bookkeeping on the acting seat followed by "ask the next seat" *)
Definition pre_resume (g g' : gstate) : Prop :=
  av g' = av g /\ st_cur (g_st g') = st_cur (g_st g) /\ st_event (g_st g') = EvRoundStarted /\ nplayers g' = nplayers g.

Lemma act_decomp g i a x :
  Inv g -> Oinv g ->
  let r := match a with
           | APass => act_pass g i | AFold => act_fold g i | ACheck => act_check g i | ACall => act_call g i
           | AAllin => act_allin g i | ABet => act_bet g i x | ARaise => act_raise g i x | APay => act_pay g i x end in
  snd r = Ok -> exists g', fst r = resume g' /\ pre_resume g g'.
Proof.
  intros HI HO.
  assert (Hcall : snd (act_call g i) = Ok -> exists g', fst (act_call g i) = resume g' /\ pre_resume g g').
  { unfold act_call. destruct (allowed g i ACall) eqn:Ha; [|discriminate]. cbn [negb fst snd]. intros _.
    destruct (accepted_is_current g i ACall HI HO Ha) as [_ He].
    eexists. split; [reflexivity|]. repeat split.
    - unfold set_last. rewrite av_with_st, av_pay. apply av_upd. reflexivity.
    - simpl. rewrite cur_pay. reflexivity.
    - simpl. rewrite event_pay. exact He.
    - unfold set_last. rewrite nplayers_with_st, pay_nplayers. apply nplayers_upd. }
  assert (Hallin : snd (act_allin g i) = Ok -> exists g', fst (act_allin g i) = resume g' /\ pre_resume g g').
  { unfold act_allin. destruct (allowed g i AAllin) eqn:Ha; [|discriminate]. cbn [negb fst snd]. intros _.
    destruct (accepted_is_current g i AAllin HI HO Ha) as [_ He].
    eexists. split; [reflexivity|]. repeat split.
    - unfold set_last. rewrite av_with_st, av_pay.
      match goal with |- context [if ?c then _ else _] => destruct c end; rewrite ?av_with_st; apply av_upd; reflexivity.
    - simpl. rewrite cur_pay. match goal with |- context [if ?c then _ else _] => destruct c end; reflexivity.
    - simpl. rewrite event_pay. match goal with |- context [if ?c then _ else _] => destruct c end; exact He.
    - unfold set_last. rewrite nplayers_with_st, pay_nplayers.
      match goal with |- context [if ?c then _ else _] => destruct c end; rewrite ?nplayers_with_st; apply nplayers_upd. }
  destruct a; cbv zeta.
  - unfold act_pass. destruct (allowed g i APass) eqn:Ha; [|discriminate]. cbn [negb fst snd]. intros _.
    destruct (accepted_is_current g i APass HI HO Ha) as [_ He].
    eexists. split; [reflexivity|]. repeat split; try exact He.
    + unfold set_last. rewrite av_with_st. apply av_upd. reflexivity.
    + unfold set_last. rewrite nplayers_with_st. apply nplayers_upd.
  - unfold act_fold. destruct (allowed g i AFold) eqn:Ha; [|discriminate]. cbn [negb fst snd]. intros _.
    destruct (accepted_is_current g i AFold HI HO Ha) as [_ He].
    eexists. split; [reflexivity|]. repeat split; try exact He.
    + unfold set_last. rewrite av_with_st. apply av_upd. reflexivity.
    + unfold set_last. rewrite nplayers_with_st. apply nplayers_upd.
  - unfold act_check. destruct (allowed g i ACheck) eqn:Ha; [|discriminate]. cbn [negb fst snd]. intros _.
    destruct (accepted_is_current g i ACheck HI HO Ha) as [_ He].
    eexists. split; [reflexivity|]. repeat split; try exact He.
    + unfold set_last. rewrite av_with_st. apply av_upd. reflexivity.
    + unfold set_last. rewrite nplayers_with_st. apply nplayers_upd.
  - exact Hcall.
  - exact Hallin.
  - unfold act_bet. destruct (allowed g i ABet) eqn:Ha; [|discriminate]. cbn [negb].
    destruct (x <=? 0); [discriminate|]. destruct (_ <=? x); [exact Hallin|]. cbn [fst snd]. intros _.
    destruct (accepted_is_current g i ABet HI HO Ha) as [_ He].
    eexists. split; [reflexivity|]. repeat split.
    + unfold set_last. rewrite !av_with_st, av_pay. apply av_upd. reflexivity.
    + simpl. rewrite cur_pay. reflexivity.
    + simpl. rewrite event_pay. exact He.
    + unfold set_last. rewrite !nplayers_with_st, pay_nplayers. apply nplayers_upd.
  - unfold act_raise. destruct (allowed g i ARaise) eqn:Ha; [|discriminate]. cbn [negb].
    destruct (_ || _); [discriminate|]. destruct (x =? _); [exact Hcall|]. destruct (_ || _); [exact Hallin|].
    cbn [fst snd]. intros _.
    destruct (accepted_is_current g i ARaise HI HO Ha) as [_ He].
    eexists. split; [reflexivity|]. repeat split.
    + unfold set_last. rewrite av_with_st, av_pay, av_with_st. apply av_upd. reflexivity.
    + simpl. rewrite cur_pay. reflexivity.
    + simpl. rewrite event_pay. exact He.
    + unfold set_last. rewrite nplayers_with_st, pay_nplayers, nplayers_with_st. apply nplayers_upd.
  - unfold act_pay. destruct (allowed g i APay) eqn:Ha; [|discriminate].
    exfalso. pose proof (inv_nopay g HI i) as Hn. unfold allowed in Ha. simpl in Hn. rewrite Hn in Ha. discriminate.
Qed.

Lemma request_action_next g :
  st_event (g_st g) = EvRoundStarted -> st_event (g_st (request_action g)) = EvRoundStarted ->
  st_cur (g_st (request_action g)) = next_idx g.
Proof.
  intros He. unfold request_action.
  destruct (Nat.eqb (alive_count g) 1); [simpl; discriminate|].
  destruct (Nat.eqb (movable_count g) 0); [simpl; discriminate|].
  destruct (p_acted _); [simpl; discriminate|]. intros _. reflexivity.
Qed.

(* after an accepted action that leaves the betting round open, it is the next seat's turn *)
Theorem turn_passes_clockwise g who a x g' :
  Inv g -> Oinv g -> step g (OAct who a x) = (g', Ok) -> st_event (g_st g') = EvRoundStarted ->
  st_cur (g_st g') = next_idx g.
Proof.
  intros HI HO Hs He'. simpl in Hs.
  set (i := match who with Some i => i | None => st_cur (g_st g) end) in *.
  destruct (negb (Nat.ltb i (nplayers g))); [discriminate|].
  pose proof (act_decomp g i a x HI HO) as D. cbv zeta in D.
  assert (Hr : exists g1, g' = resume g1 /\ pre_resume g g1).
  { destruct a; rewrite Hs in D; apply (D eq_refl). }
  destruct Hr as (g1 & -> & Ha & Hc & He1 & Hn).
  unfold resume in *. rewrite He1 in *.
  rewrite (request_action_next g1 He1 He'). unfold next_idx. rewrite Hc, Hn. reflexivity.
Qed.
