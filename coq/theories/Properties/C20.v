(* C20 — rebalancing settles. Break half. *)
From PF Require Import Base ModelReg ModelSys ProofsRegBasic.

(* a table that is told to break hands back all of its players: whenever SyncState removes the
   table, the release count is the table's whole remaining player count *)
Theorem C20_break_hands_back_everybody :
  forall st id out t0,
    find_table id (r_tables (rs_reg st)) = Some t0 ->
    let '(st', rel, handed, o) := sync_state st id out in
    find_table id (r_tables (rs_reg st')) = None -> rel = t_pc t0 - out /\ handed = [] /\ o = ROk.
Proof. exact sync_break_returns_all. Qed.
Print Assumptions C20_break_hands_back_everybody.

(* in the system of regulator and instruction-following tables (see C09.v): when SyncState removes the
   table, the number it is told to release is everybody it has left, nobody is handed to it, and all of
   them are accounted for in transit — ReleasePlayers then puts each of them in the waiting queue or at
   another table (C09_every_player_in_exactly_one_place) *)
From Coq Require Import Permutation.
From PF Require Import ProofsReg.
Theorem C20_broken_table_releases_everybody :
  forall st ts transit alive alive' id out m,
    quiet st -> Sys (rs_reg st) ts transit alive -> 0 < r_max (rs_reg st) ->
    lookup id ts = Some m -> (out <= length m)%nat -> Permutation alive (firstn out m ++ alive') ->
    let res := sync_state st id (zn out) in
    let st1 := fst (fst (fst res)) in
    find_table id (r_tables (rs_reg st1)) = None ->
    snd (fst (fst res)) = zn (length (skipn out m)) /\ snd (fst res) = [] /\
    Sys (rs_reg st1) (remove_table id ts) (transit ++ skipn out m) alive'.
Proof.
  intros st ts transit alive alive' id out m Hq HS Hm Hl Ho Hal res st1 Hnone.
  destruct (Sys_sync st ts transit alive alive' id out m Hq HS Hm Hl Ho Hal) as (_ & _ & H).
  fold res in H. fold st1 in H. rewrite Hnone in H. exact H.
Qed.
Print Assumptions C20_broken_table_releases_everybody.

(* handing players back puts every one of them in the waiting queue or at a table *)
Theorem C20_released_players_are_placed :
  forall st ts batch rest alive,
    quiet st -> Sys (rs_reg st) ts (batch ++ rest) alive ->
    let st' := release_players st batch in Sys (rs_reg st') (env_of (rs_ev st') ts) rest alive.
Proof. exact Sys_release. Qed.
Print Assumptions C20_released_players_are_placed.
