(* C19 — no table is asked to hold more than its capacity. Pending phase. *)
From PF Require Import Base ModelReg ProofsRegBasic.

(* before the competition has started no callback is made: no table is opened, nobody assigned *)
Theorem C19_no_table_while_pending_add :
  forall st players, r_status (rs_reg st) = 0 ->
    rs_ev (fst (add_players st players)) = rs_ev st.
Proof.
  intros st players H. pose proof (add_pending_no_callbacks st players H) as P.
  destruct (add_players st players) as [st' o]. simpl. tauto.
Qed.
Print Assumptions C19_no_table_while_pending_add.

Theorem C19_no_table_while_pending_release :
  forall st players, r_status (rs_reg st) = 0 -> rs_ev (release_players st players) = rs_ev st.
Proof. exact release_pending_no_callbacks. Qed.
Print Assumptions C19_no_table_while_pending_release.

Theorem C19_sync_makes_no_callback :
  forall st id out, rs_ev (fst (fst (fst (sync_state st id out)))) = rs_ev st.
Proof. exact sync_no_callbacks. Qed.
Print Assumptions C19_sync_makes_no_callback.

(* no table is opened before the minimum initial number of players is waiting: with no table open and
   fewer than the minimum in the queue, draining the queue does nothing *)
From PF Require Import ProofsReg.
Theorem C19_no_table_below_the_minimum :
  forall st, r_tc (rs_reg st) = 0 -> zn (length (r_queue (rs_reg st))) < r_min (rs_reg st) -> drain st = st.
Proof. exact no_table_below_the_minimum. Qed.
Print Assumptions C19_no_table_below_the_minimum.

(* every table opened by the initial allocation (no table open yet, every registered player waiting) gets at
   least the minimum initial number of players *)
Theorem C19_initial_tables_get_the_minimum :
  forall st,
    r_tc (rs_reg st) = 0 -> r_pc (rs_reg st) = zn (length (r_queue (rs_reg st))) ->
    0 < r_max (rs_reg st) -> 0 < r_min (rs_reg st) ->
    forall e, In e (rs_ev (allocate_tables st)) ->
      In e (rs_ev st) \/ exists id ps, e = EvRequest id ps /\ r_min (rs_reg st) <= zn (length ps).
Proof. exact initial_tables_get_the_minimum. Qed.
Print Assumptions C19_initial_tables_get_the_minimum.

(* the full capacity clause does not hold of the code: the known finding F12a, on the model *)
Example C19_F12a_witness :
  let s := sys_run (sys_init 9 6) [SRegister [] (seqZ_from 1 6); SStatus [] 1; SRegister [] (seqZ_from 7 37)] in
  existsb (fun m => 9 <? zn (length (snd m))) (s_tabs s) = true.
Proof. vm_compute. reflexivity. Qed.

(* topping a table up later never exceeds the capacity: when SyncState hands players to a table, the table
   then holds at most floor(players / required tables) <= max players *)
Theorem C19_sync_top_up_within_capacity :
  forall st id out t0,
    find_table id (r_tables (rs_reg st)) = Some t0 -> 0 < r_max (rs_reg st) -> 0 < r_pc (rs_reg st) - out ->
    let res := sync_state st id out in
    snd (fst res) <> [] ->
    forall t1, find_table id (r_tables (rs_reg (fst (fst (fst res))))) = Some t1 -> t_pc t1 <= r_max (rs_reg st).
Proof. exact sync_topup_within_capacity. Qed.
Print Assumptions C19_sync_top_up_within_capacity.
